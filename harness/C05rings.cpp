// C05 harness for the assembly of OPEN solution paths: every event of every Execute is replayed on the Lean model `Model/AelOpenRings.lean`
// (driver command AELOPENRINGS), which must reproduce, at every snapshot, the engine's AEL field by field, every closed OutPt ring (up to the
// first horizontal join), the output record and side of every open edge, every open output record point by point with its front_edge /
// back_edge flags, and in the end the real `solution_open` (BuildPath64 on open records: ReverseSolution, dropped duplicates, dropped
// single-point records).
// Inputs (generators of harness/C05.cpp plus targeted families): closed subject / clip sets in general position (gp.h, including staircases with
// horizontal edges) with 1-3 random open polylines incl. exactly horizontal end / inner segments; zigzag polylines that cross the clip
// region many times; single segments; polylines that start / end inside and outside; polylines with a local minimum or an end vertex on the
// line of a horizontal closed edge (the `pt == local_min->vertex->pt` branch of IntersectEdges); small-lattice degenerate inputs (coincident
// vertices, open vertices on closed edges, overlapping collinear stretches) with and without horizontal edges; a corpus (a polyline crossing a
// square).  All 4 clip types x 4 fill rules, paths and polytree execution, ReverseSolution and PreserveCollinear random.
#define VERIF_PRIVATE_ACCESS
#include "unity.h"
#include "gp.h"
#include "aelopenrings.h"
using namespace vh;

static const ClipType CTS[] = {ClipType::Intersection, ClipType::Union, ClipType::Difference, ClipType::Xor};
static const FillRule FRS[] = {FillRule::EvenOdd, FillRule::NonZero, FillRule::Positive, FillRule::Negative};

typedef __int128 i128;
// is p within 1.5 units of segment a b?  (exact: 4*dist^2 <= 9)
static bool near_seg(const Point64& p, const Point64& a, const Point64& b) {
  i128 dx = (i128)b.x - a.x, dy = (i128)b.y - a.y, px = (i128)p.x - a.x, py = (i128)p.y - a.y;
  i128 len2 = dx * dx + dy * dy, t = px * dx + py * dy;
  if (len2 == 0 || t <= 0) return 4 * (px * px + py * py) <= 9;
  if (t >= len2) { i128 qx = (i128)p.x - b.x, qy = (i128)p.y - b.y; return 4 * (qx * qx + qy * qy) <= 9; }
  i128 cr = px * dy - py * dx;
  return 4 * cr * cr <= 9 * len2;
}
static bool small_coords(const Paths64& ps) {
  for (auto& p : ps) for (auto& q : p) if (std::llabs(q.x) > ((int64_t)1 << 28) || std::llabs(q.y) > ((int64_t)1 << 28)) return false;
  return true;
}
// which input path does a piece lie on (all vertices within 1.5 units of one path)?  -1 = none / ambiguous
static int owner_of(const Path64& piece, const Paths64& opn) {
  int found = -1;
  for (size_t k = 0; k < opn.size(); ++k) {
    bool all = true;
    for (auto& v : piece) {
      bool on = false;
      for (size_t i = 0; i + 1 < opn[k].size() && !on; ++i) on = near_seg(v, opn[k][i], opn[k][i + 1]);
      if (!on) { all = false; break; }
    }
    if (all) { if (found >= 0) return -1; found = (int)k; }
  }
  return found;
}

static long long g_events = 0;

static void run_one(Rng& g, const Paths64& s, const Paths64& cl, const Paths64& op, ClipType ct, FillRule fr, const std::string& kind, bool allow_tree) {
  Clipper64 c;
  c.PreserveCollinear(g.coin());
  bool rev = g.coin();
  c.ReverseSolution(rev);
  c.AddSubject(s); c.AddClip(cl);
  if (!op.empty()) c.AddOpenSubject(op);
  Paths64 sol, solo;
  bool ok;
  ORingsTraceScope trace;
  if (allow_tree && g.chance(30)) { PolyTree64 t; ok = c.Execute(ct, fr, t, solo); stat("exec.tree"); }
  else { ok = c.Execute(ct, fr, sol, solo); stat("exec.paths"); }
  std::string in = "kind=" + kind + " ct=" + std::to_string((int)ct) + " fr=" + std::to_string((int)fr) + " rev=" + std::to_string((int)rev) +
                   " subj=" + S(s) + " clip=" + S(cl) + " open=" + S(op);
  ORingsTrace& t = orings_trace();
  if (!ok) emitF("execute-returned-false", in);
  if (t.has_horz) stat("traces.with_horizontal_edge");
  if (t.has_horz_join) stat("traces.closed_rings_not_compared_after_horizontal_join." + kind);
  if (t.hh_cross) { stat("skipped.horizontal_crosses_horizontal_undetermined." + kind); return; }
  if (!t.first_error.empty()) emitF("open-rings-check", t.first_error + " " + in);
  if (!trace.usable()) { emitF("trace-incomplete", "pending split/join items at the end of the sweep " + in); return; }
  trace.set_final(rev, solo);
  emitM("ael-open-rings." + kind, trace.request((int)ct, (int)fr), "ok");
  stat("trace.items", (long long)t.items.size());
  stat("engine.open_records", t.last_open_recs);
  stat("engine.open_records_emptied_by_join", t.last_open_gone);
  stat("engine.open_records_finished", t.last_open_finished);
  stat("engine.open_records_single_point_dropped", t.last_open_single);
  stat("engine.open_outpts_created", (long long)t.open_ops_seen);
  stat("engine.open_solution_paths", (long long)solo.size());
  if (t.last_open_held) emitF("open-record-still-held-after-sweep", in);
  if ((long long)solo.size() != t.last_open_finished - t.last_open_single) emitF("open-solution-count", "paths=" + std::to_string(solo.size()) + " finished=" + std::to_string(t.last_open_finished) + " single=" + std::to_string(t.last_open_single) + " " + in);
  g_events += (long long)t.items.size();
  stat(std::string("ct.") + std::to_string((int)ct));
  stat(std::string("fr.") + std::to_string((int)fr));
  stat("kind." + kind);
  if (solo.size() > 0) stat("traces.with_open_solution");
  // pieces per input path (attribution by distance; statistics only)
  if (!op.empty() && small_coords(op) && small_coords(solo)) {
    std::vector<int> cnt(op.size(), 0);
    for (auto& piece : solo) { int k = owner_of(piece, op); if (k >= 0) cnt[k]++; else stat("pieces.unattributed_or_ambiguous"); }
    for (int n : cnt) stat("pieces_per_input_path." + std::string(n >= 6 ? "6+" : std::to_string(n)));
  }
}
static void run_all16(Rng& g, const Paths64& s, const Paths64& cl, const Paths64& op, const std::string& kind, bool allow_tree) {
  for (ClipType ct : CTS) for (FillRule fr : FRS) run_one(g, s, cl, op, ct, fr, kind, allow_tree);
}
static void run_some(Rng& g, const Paths64& s, const Paths64& cl, const Paths64& op, const std::string& kind, int reps, bool allow_tree = true) {
  for (int r = 0; r < reps; ++r) run_one(g, s, cl, op, CTS[g.next() % 4], FRS[g.next() % 4], kind, allow_tree);
}

// random polylines as in harness/C05.cpp
static Paths64 gen_open_random(Rng& g, int64_t R) {
  Paths64 opn;
  int no = (int)g.range(1, 3);
  for (int k = 0; k < no; ++k) {
    Path64 p; int n = (int)g.range(2, 6);
    for (int j = 0; j < n; ++j) p.emplace_back(g.range(-R, R), g.range(-R, R));
    if (n == 2) stat("open.single_segment");
    if (g.chance(35)) { if (g.coin()) p[1].y = p[0].y; else p[n - 2].y = p[n - 1].y; stat("open.horizontal_end_segment"); }
    if (n >= 4 && g.chance(15)) { int j = (int)g.range(1, n - 3); p[j + 1].y = p[j].y; stat("open.horizontal_inner_segment"); }
    opn.push_back(p);
  }
  return opn;
}
// a polyline that crosses the box [-R,R]^2 many times (alternating sides), horizontally or vertically
static Path64 gen_zigzag(Rng& g, int64_t R) {
  Path64 p; int n = (int)g.range(4, 12);
  bool vertical = g.coin();
  int64_t a = -R + g.range(0, R / 4);
  for (int j = 0; j < n; ++j) {
    int64_t side = (j % 2 == 0) ? -(R + g.range(1, R / 2 + 1)) : (R + g.range(1, R / 2 + 1));
    if (g.chance(15)) side = g.range(-R / 2, R / 2);   // sometimes turn inside
    a += g.range(1, std::max<int64_t>(2, 2 * R / n));
    if (vertical) p.emplace_back(a, side); else p.emplace_back(side, a);
  }
  if (g.coin()) std::reverse(p.begin(), p.end());
  stat("open.zigzag");
  return p;
}

int main(int argc, char** argv) {
  Rng g(seed_from_args(argc, argv));
  bool thorough = thorough_from_args(argc, argv);
  {
    // corpus: a polyline crossing a (slightly skew, general position) square: Intersection gives the inside piece, Difference the two outside pieces
    Paths64 none;
    Paths64 sq = {Path64{Point64(0, 0), Point64(100, 3), Point64(103, 101), Point64(2, 98)}};
    run_all16(g, none, sq, {Path64{Point64(-50, 40), Point64(160, 61)}}, "corpus.segment-through-square", true);
    run_all16(g, none, sq, {Path64{Point64(-50, 40), Point64(50, 55), Point64(160, 47)}}, "corpus.polyline-through-square", true);
    run_all16(g, none, sq, {Path64{Point64(-50, 40), Point64(50, -30), Point64(60, 150), Point64(150, 50)}}, "corpus.polyline-3-crossings", true);
    run_all16(g, none, sq, {Path64{Point64(20, 20), Point64(50, 70), Point64(80, 30)}}, "corpus.polyline-inside", true);
    run_all16(g, none, sq, {Path64{Point64(50, 50), Point64(150, 55)}, Path64{Point64(-40, 70), Point64(40, 75)}}, "corpus.segments-start-end-inside", true);
    run_all16(g, {Path64{Point64(30, -20), Point64(140, -10), Point64(70, 60)}}, sq, {Path64{Point64(-50, 40), Point64(160, 21)}, Path64{Point64(90, -40), Point64(95, 140), Point64(20, -30)}}, "corpus.with-closed-subject", true);
    // rectangles with horizontal edges; open paths with horizontal segments on and off the lines of the closed horizontals
    Paths64 rc = {rect_path(0, 0, 100, 100)};
    run_all16(g, none, rc, {Path64{Point64(-50, 40), Point64(160, 40)}}, "corpus.horizontal-segment", true);
    run_all16(g, none, rc, {Path64{Point64(-50, 140), Point64(50, 100), Point64(160, 130)}}, "corpus.locmax-on-horizontal-edge", false);
    run_all16(g, none, rc, {Path64{Point64(-50, -40), Point64(50, 0), Point64(160, -30)}}, "corpus.locmin-on-horizontal-edge", false);
    run_all16(g, none, rc, {Path64{Point64(20, 50), Point64(50, 100), Point64(80, 50)}}, "corpus.locmin-on-horizontal-edge-inside", false);
    run_all16(g, none, rc, {Path64{Point64(20, 150), Point64(50, 100), Point64(80, 150)}}, "corpus.locmin-on-horizontal-edge-outside", false);
    run_all16(g, none, rc, {Path64{Point64(50, 0), Point64(50, 100)}, Path64{Point64(30, 100), Point64(70, 100)}, Path64{Point64(70, 100), Point64(70, 30)}}, "corpus.ends-on-horizontal-edges", false);
  }
  int N = thorough ? 14000 : 900;
  for (int i = 0; i < N; ++i) {
    switch (i % 5) {
      case 0: case 1: {  // general position closed sets + random polylines (C05.cpp's generator)
        GpInput in = gen_gp(g);
        if (in.R > ((int64_t)1 << 52)) { in.R = 3000; in = gen_gp(g); }
        if (in.R > ((int64_t)1 << 52)) break;
        if (in.clip.empty()) in.clip.push_back(star_poly(g, 5, in.R / 8, in.R / 2));
        Paths64 opn = gen_open_random(g, in.R);
        Paths64 subj = g.chance(60) ? in.subj : Paths64();
        if (i % 10 == 0) run_all16(g, subj, in.clip, opn, "gp", true);
        else run_some(g, subj, in.clip, opn, "gp", 4);
        stat("input.magnitude." + std::to_string(in.R));
        break; }
      case 2: {  // zigzag polylines crossing many times
        GpInput in = gen_gp(g);
        if (in.R > ((int64_t)1 << 40)) { in.R = 3000; in = gen_gp(g); }
        if (in.R > ((int64_t)1 << 40)) break;
        if (in.clip.empty()) in.clip.push_back(star_poly(g, 5, in.R / 8, in.R / 2));
        Paths64 opn; int no = (int)g.range(1, 2);
        for (int k = 0; k < no; ++k) opn.push_back(gen_zigzag(g, std::max<int64_t>(in.R / 2, 8)));
        Paths64 subj = g.chance(50) ? in.subj : Paths64();
        run_some(g, subj, in.clip, opn, "zigzag", 4);
        break; }
      case 3: {  // small lattices: open vertices on closed edges / vertices, coincident stretches; no horizontal closed edge in two thirds of the cases
        int range = (i % 3 == 0) ? 8 : (i % 3 == 1 ? 40 : 1000);
        bool allow_h = g.chance(35);
        auto mk = [&](int n, bool closed) {
          Path64 p;
          for (int tries = 0; tries < 50; ++tries) {
            p.clear();
            for (int k = 0; k < n; ++k) p.emplace_back(g.range(0, range), g.range(0, range));
            bool h = false;
            for (int k = 0; k + (closed ? 0 : 1) < n; ++k) if (p[k].y == p[(k + 1) % n].y) h = true;
            if (allow_h || !h) break;
          }
          return p; };
        Paths64 s, cl, op; int ns = (int)g.range(0, 2), nc = (int)g.range(1, 3), no = (int)g.range(1, 3);
        for (int k = 0; k < ns; ++k) s.push_back(mk((int)g.range(3, 7), true));
        for (int k = 0; k < nc; ++k) cl.push_back(mk((int)g.range(3, 7), true));
        for (int k = 0; k < no; ++k) op.push_back(mk((int)g.range(2, 6), false));
        run_some(g, s, cl, op, allow_h ? "lattice-h" : "lattice", 4, false);
        break; }
      default: {  // rectangles (horizontal closed edges) and polylines with vertices / horizontal segments on the lines of those edges
        int64_t u = g.pick(std::vector<int64_t>{1, 10, 1000});
        Paths64 cl, s;
        int nr = (int)g.range(1, 2);
        std::vector<int64_t> ys, xs;
        for (int k = 0; k < nr; ++k) {
          int64_t l = g.range(0, 6), t = g.range(0, 6), r = l + g.range(2, 8), b = t + g.range(2, 8);
          Path64 q = rect_path(l * u, t * u, r * u, b * u);
          if (g.coin()) std::reverse(q.begin(), q.end());
          (g.chance(75) ? cl : s).push_back(q);
          ys.push_back(t * u); ys.push_back(b * u); xs.push_back(l * u); xs.push_back(r * u);
        }
        if (cl.empty()) cl.swap(s);
        Paths64 op; int no = (int)g.range(1, 3);
        for (int k = 0; k < no; ++k) {
          Path64 p; int n = (int)g.range(2, 6);
          for (int j = 0; j < n; ++j) {
            int64_t x = g.range(-2, 16) * u + (u > 1 ? g.range(-2, 2) : 0), y = g.range(-2, 16) * u + (u > 1 ? g.range(-2, 2) : 0);
            if (g.chance(45)) y = g.pick(ys);      // a vertex on the line of a horizontal closed edge
            if (g.chance(10)) x = g.pick(xs);
            p.emplace_back(x, y);
          }
          op.push_back(p);
        }
        run_some(g, s, cl, op, "rect-aligned", 4, false);
        break; }
    }
  }
  ORingsTrace& t = orings_trace();
  stat("events.total", g_events);
  stat("events.update", t.n_update);
  stat("events.update.open_edge", t.n_update_open);
  stat("events.insert_pair", t.n_ip);
  stat("events.insert_one", t.n_i1);
  stat("events.intersect", t.n_x);
  stat("events.intersect.open_with_closed", t.n_x_open_closed);
  stat("events.intersect.open_with_open", t.n_x_open_open);
  stat("events.intersect.at_open_local_minimum_vertex", t.n_xl);
  stat("events.intersect.at_open_local_minimum_vertex.partner_found", t.n_xl_e3);
  stat("events.intersect.point_from_intersect_node", t.n_x_node);
  stat("events.intersect.point_from_local_minimum", t.n_x_locmin);
  stat("events.intersect.point_from_maximum", t.n_x_maxima);
  stat("events.intersect.point_from_horizontal", t.n_x_horz);
  stat("events.remove_pair", t.n_rp);
  stat("events.remove_pair.open", t.n_rp_open);
  stat("events.remove_one", t.n_r1);
  stat("events.join", t.n_join);
  stat("events.split", t.n_split);
  stat("trace.snapshots", t.n_snap);
  stat("trace.open_records_dumped", t.n_open_rings_dumped);
  stat("trace.open_record_points_dumped", t.n_open_ring_points);
  stat("trace.closed_rings_dumped", t.n_orings_dumped);
  flush_stats();
  return 0;
}
