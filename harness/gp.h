// Generators of closed path sets in (likely) general position and of probe points.
// The general-position premise itself is *verified exactly in Lean* (Driver/Region.lean); the
// harness only proposes.
#pragma once
#include "common.h"
#include <cmath>

namespace vh {

struct GpInput {
  Paths64 subj, clip;
  int64_t R;  // coordinate magnitude class
  std::string kind;
};

inline int64_t pick_radius(Rng& g) {
  static const int64_t rs[] = {40, 120, 400, 3000, 100000, 10000000, (int64_t)1 << 40, (int64_t)1 << 52, (int64_t)1 << 60};
  static const int w[] = {8, 14, 18, 18, 12, 8, 10, 6, 6};
  int tot = 0; for (int x : w) tot += x;
  int r = (int)(g.next() % tot);
  for (int i = 0; i < 9; ++i) { if (r < w[i]) return rs[i]; r -= w[i]; }
  return 400;
}

// polygon that winds `turns` times around its centre (multiply wound, self-intersecting)
inline Path64 wound_poly(Rng& g, int n, int turns, int64_t rmin, int64_t rmax, int64_t cx, int64_t cy) {
  Path64 p;
  double a0 = g.unit() * 6.283185307179586;
  for (int i = 0; i < n; ++i) {
    double a = a0 + 6.283185307179586 * turns * (i + 0.15 * (g.unit() - 0.5)) / n;
    double rr = (double)rmin + g.unit() * (double)(rmax - rmin);
    p.emplace_back(cx + (int64_t)std::llround(rr * std::cos(a)), cy + (int64_t)std::llround(rr * std::sin(a)));
  }
  if (g.coin()) std::reverse(p.begin(), p.end());
  return p;
}

inline Path64 gen_one(Rng& g, int64_t R, std::string& kind) {
  int64_t cx = g.range(-R / 3, R / 3), cy = g.range(-R / 3, R / 3);
  switch (g.next() % 5) {
    case 0: kind += "r"; return rand_poly(g, (int)g.range(3, 9), R / 2, cx, cy);
    case 1: kind += "s"; return star_poly(g, (int)g.range(3, 10), R / 8, R / 2, cx, cy);
    case 2: kind += "w"; return wound_poly(g, (int)g.range(5, 11), (int)g.range(2, 3), R / 6, R / 2, cx, cy);
    case 3: { kind += "q";  // axis-aligned-ish quadrilateral with jitter
      int64_t w = g.range(R / 8, R / 2), h = g.range(R / 8, R / 2), j = std::max<int64_t>(1, R / 40);
      Path64 p{Point64(cx - w + g.range(-j, j), cy - h + g.range(-j, j)), Point64(cx + w + g.range(-j, j), cy - h + g.range(-j, j)),
               Point64(cx + w + g.range(-j, j), cy + h + g.range(-j, j)), Point64(cx - w + g.range(-j, j), cy + h + g.range(-j, j))};
      if (g.coin()) std::reverse(p.begin(), p.end());
      return p; }
    default: kind += "t"; return rand_poly(g, 3, R / 2, cx, cy);
  }
}

// Two long, nearly parallel edges that cross within a couple of units of a scanline created by an unrelated, far-away
// vertex, inside a tall scanbeam: the crossing is then found one scanbeam late and has to be clamped into the scanbeam
// (ClipperBase::AddNewIntersectNode), a branch that ordinary random inputs reach only with thin scanbeams.
inline GpInput gen_nearparallel(Rng& g) {
  GpInput in;
  int64_t H = g.range(300, 4000);
  in.R = 8 * H;
  int64_t ox = g.range(-H, H), oy = g.range(-H, H);
  int64_t w1 = g.range(-H, H);
  int64_t d0 = g.range(1, H / 3), d1 = -g.range(1, H / 3);
  if (g.coin()) { d0 = -d0; d1 = -d1; }
  // e1: (0,-H) -> (w1,H) ; e2: (d0,-H) -> (w1+d1,H) ; they cross at height yc = -H + 2H*d0/(d0-d1)
  long double yc = -(long double)H + 2.0L * H * (long double)d0 / (long double)(d0 - d1);
  Path64 A{Point64(ox + 0, oy - H), Point64(ox + w1, oy + H), Point64(ox - 4 * H - g.range(0, H), oy + g.range(-H / 2, H / 2))};
  Path64 B{Point64(ox + d0, oy - H), Point64(ox + w1 + d1, oy + H), Point64(ox + 4 * H + g.range(0, H), oy + g.range(-H / 2, H / 2))};
  int64_t s = g.pick(std::vector<int64_t>{-2, -1, 1, 2});
  int64_t Y0 = oy + (int64_t)std::llround((double)yc) + s;
  int64_t cx = ox + 7 * H;
  Path64 C{Point64(cx, Y0), Point64(cx + H / 3 + 7, Y0 - H / 2 - g.range(0, H / 4)), Point64(cx + H / 2 + 11, Y0 + H / 2 + g.range(0, H / 4))};
  if (g.coin()) std::reverse(A.begin(), A.end());
  if (g.coin()) std::reverse(B.begin(), B.end());
  in.subj = {A, C};
  in.clip = {B};
  if (g.coin()) std::swap(in.subj[0], in.clip[0]);
  in.kind = "nearparallel";
  return in;
}

// A staircase-like polygon whose horizontal edges carry extra collinear vertices (two or more consecutive collinear horizontal
// edges in the same direction - legal in general position), crossed by sloped edges of another polygon: exercises the
// "more horizontals in this bound" path of DoHorizontal with PreserveCollinear on, and horizontal edges generally.
inline GpInput gen_stairs(Rng& g) {
  GpInput in;
  int64_t u = g.pick(std::vector<int64_t>{10, 40, 1000, 1000000});
  in.R = 14 * u;
  int steps = (int)g.range(2, 4);
  Path64 p;
  int64_t x = 0, y = 10 * u;
  p.emplace_back((int64_t)0, y);
  for (int k = 0; k < steps; ++k) {
    y -= g.range(2, 3) * u;
    p.emplace_back(x, y);
    int parts = (int)g.range(2, 3);
    for (int q = 0; q < parts; ++q) { x += g.range(2, 4) * u; p.emplace_back(x, y); }
  }
  p.emplace_back(x, 10 * u);
  if (g.coin()) std::reverse(p.begin(), p.end());
  in.subj = {p};
  Path64 c;
  int n = (int)g.range(3, 5);
  for (int k = 0; k < n; ++k) c.emplace_back(g.range(-2 * u, x + 2 * u) + g.range(1, 7), g.range(-u, 12 * u) + g.range(1, 7));
  if (g.chance(40)) { c[1].y = c[0].y; }   // a horizontal edge in the other polygon too
  in.clip = {c};
  if (g.coin()) std::swap(in.subj, in.clip);
  in.kind = "stairs";
  return in;
}

// Engineered integer coincidences that general position allows: an edge e reaches an intermediate vertex P at a scanline while
// its right neighbour n had its last crossing of the scanbeam at the integer point Q = (P.x, P.y + h) (so the x the engine
// remembers for n is P.x although n is well to the right of P at that scanline), and n's top lies on the extension of e's next
// edge (P, e.top, n.top collinear).  Every join test that trusts a remembered x or only tests collinearity sees "touching
// collinear edges" here.  Built around P = (0,0) with y growing downwards (the sweep runs from large y to small y), then scaled,
// translated and optionally mirrored in x (the left/right roles swap).
inline GpInput gen_stalex(Rng& g) {
  GpInput in;
  for (int attempt = 0; attempt < 200; ++attempt) {
    int64_t dx = g.range(1, 6), dy = g.range(1, 6), a = g.range(1, 3), b = a + g.range(1, 4), h = g.range(1, 9);
    Point64 etop(a * dx, -a * dy), ntop(b * dx, -b * dy), Q((int64_t)0, h), nbot(-b * dx, 2 * h + b * dy), P(0, 0);
    int64_t c = g.range(0, b - a), r = g.range(1, 3);
    Point64 X(etop.x + c * dx - r * dy, etop.y - c * dy - r * dx);
    // the crossing edge through Q: S0 (below Q, between e and n) -> S1 (above P's scanline, right of n)
    int64_t wx = g.range(1, 8), wy = g.range(1, 5), t = g.range(1, 4), sN = g.range(1, 6);
    Point64 S0(-t * wx, h + t * wy), S1(sN * wx, h - sN * wy);
    if (S1.y >= 0) continue;
    auto side = [](const Point64& p, const Point64& q, const Point64& z) {   // > 0: z to the right of p->q when looking up the page
      return (__int128)(q.x - p.x) * (z.y - p.y) - (__int128)(q.y - p.y) * (z.x - p.x); };
    // S0 strictly between e (nbot->P) and n (nbot->ntop), S1 strictly beyond n
    if (S0.y >= nbot.y) continue;
    __int128 s_e = side(nbot, P, S0), s_n = side(nbot, ntop, S0), s1_n = side(nbot, ntop, S1);
    if (!((s_e > 0) != (s_n > 0)) || s_e == 0 || s_n == 0 || s1_n == 0 || ((s1_n > 0) != (s_n < 0))) continue;
    Point64 S2(S1.x + g.range(1, 6) * 3, g.coin() ? (int64_t)(S1.y - g.range(1, 5)) : (int64_t)(-g.range(1, 3)));
    if (S2.y >= 0 || S2.y == S1.y) continue;
    int64_t u = g.pick(std::vector<int64_t>{1, 1, 10, 20, 1000, 1000000});
    int64_t ox = g.range(-50, 50) * u, oy = g.range(-50, 50) * u;
    bool mirror = g.coin();
    auto T = [&](const Point64& q) { return Point64((mirror ? -q.x : q.x) * u + ox, q.y * u + oy); };
    Path64 poly{T(nbot), T(ntop), T(X), T(etop), T(P)}, sliver{T(S0), T(S2), T(S1)};
    if (g.coin()) std::reverse(poly.begin(), poly.end());
    if (g.coin()) std::reverse(sliver.begin(), sliver.end());
    in.subj = {poly}; in.clip = {sliver};
    if (g.chance(30)) std::swap(in.subj, in.clip);
    in.R = 60 * u + 50 * u;
    in.kind = "stale-x-coincidence";
    return in;
  }
  return gen_stairs(g);
}

inline GpInput gen_gp_plain(Rng& g);
inline GpInput gen_gp(Rng& g) {
  if (g.chance(15)) return gen_nearparallel(g);
  if (g.chance(12)) return gen_stairs(g);
  if (g.chance(8)) return gen_stalex(g);
  return gen_gp_plain(g);
}

inline GpInput gen_gp_plain(Rng& g) {
  GpInput in;
  in.R = pick_radius(g);
  int ns = (int)g.range(1, 3), nc = (int)g.range(0, 2);
  if (g.chance(70) && nc == 0) nc = 1;
  for (int i = 0; i < ns; ++i) in.subj.push_back(gen_one(g, in.R, in.kind));
  in.kind += "|";
  for (int i = 0; i < nc; ++i) in.clip.push_back(gen_one(g, in.R, in.kind));
  // nested copies for higher winding numbers
  if (g.chance(20)) {
    Path64 p = in.subj[0];
    int64_t d = std::max<int64_t>(7, in.R / 50);
    for (auto& q : p) { q.x += d; q.y += (d * 3) / 5 + 1; }
    if (g.coin()) std::reverse(p.begin(), p.end());
    in.subj.push_back(p); in.kind += "+dup";
  }
  return in;
}

// ---- probes (doubled coordinates)
inline void add_probe(std::vector<Point64>& out, long double x, long double y) {
  if (!(std::fabs((double)x) < 4.0e18) || !(std::fabs((double)y) < 4.0e18)) return;
  out.emplace_back((int64_t)std::llround((double)(2 * x)), (int64_t)std::llround((double)(2 * y)));
}

inline std::vector<Point64> gen_probes(Rng& g, const Paths64& a, const Paths64& b, int nrandom) {
  std::vector<Point64> out;
  Paths64 all = a; all.insert(all.end(), b.begin(), b.end());
  int64_t maxabs = 1;
  Rect64 bb = GetBounds(all);
  for (auto& p : all) for (auto& q : p) maxabs = std::max<int64_t>(maxabs, std::max(std::llabs(q.x), std::llabs(q.y)));
  long double band = 2.25L + (long double)maxabs / 2199023255552.0L;  // as in Driver/Region.lean
  std::vector<std::pair<Point64, Point64>> edges;
  for (auto& p : all) for (size_t i = 0; i < p.size(); ++i) edges.push_back({p[i], p[(i + 1) % p.size()]});
  static const long double offs[] = {1.08L, 1.35L, 2.0L, 4.0L};
  for (auto& e : edges) {
    long double dx = (long double)e.second.x - e.first.x, dy = (long double)e.second.y - e.first.y;
    long double len = std::sqrt((double)(dx * dx + dy * dy));
    if (len == 0) continue;
    long double nx = -dy / len, ny = dx / len;
    for (long double t : {0.13L, 0.5L, 0.81L})
      for (long double o : offs)
        for (int s = -1; s <= 1; s += 2) {
          if (!g.chance(60)) continue;
          add_probe(out, e.first.x + t * dx + s * o * band * nx, e.first.y + t * dy + s * o * band * ny);
        }
    // around the start vertex
    for (int k = 0; k < 8; ++k) {
      if (!g.chance(50)) continue;
      long double a2 = 0.39269908L + k * 0.78539816L, r = band * (k % 2 ? 1.6L : 3.1L);
      add_probe(out, e.first.x + r * std::cos((double)a2), e.first.y + r * std::sin((double)a2));
    }
  }
  // around pairwise crossings
  size_t m = edges.size();
  for (size_t u = 0; u < m; ++u) for (size_t v = u + 1; v < m; ++v) {
    long double ax = edges[u].first.x, ay = edges[u].first.y, bx = edges[u].second.x, by = edges[u].second.y;
    long double cx = edges[v].first.x, cy = edges[v].first.y, dx = edges[v].second.x, dy = edges[v].second.y;
    long double d1x = bx - ax, d1y = by - ay, d2x = dx - cx, d2y = dy - cy;
    long double den = d1x * d2y - d1y * d2x;
    if (den == 0) continue;
    long double t = ((cx - ax) * d2y - (cy - ay) * d2x) / den, s = ((cx - ax) * d1y - (cy - ay) * d1x) / den;
    if (t <= 0 || t >= 1 || s <= 0 || s >= 1) continue;
    long double X = ax + t * d1x, Y = ay + t * d1y;
    long double l1 = std::sqrt((double)(d1x * d1x + d1y * d1y)), l2 = std::sqrt((double)(d2x * d2x + d2y * d2y));
    // the four sectors: along ±u1 ± u2
    for (int s1 = -1; s1 <= 1; s1 += 2) for (int s2 = -1; s2 <= 1; s2 += 2) {
      long double ux = s1 * d1x / l1 + s2 * d2x / l2, uy = s1 * d1y / l1 + s2 * d2y / l2;
      long double ul = std::sqrt((double)(ux * ux + uy * uy));
      if (ul < 1e-9) continue;
      for (long double r : {2.0L, 4.5L, 9.0L}) add_probe(out, X + r * band * ux / ul / std::max((long double)0.2, ul / 2), Y + r * band * uy / ul / std::max((long double)0.2, ul / 2));
    }
  }
  // random points of the bounding box (slightly enlarged)
  long double w = (long double)bb.right - bb.left, h = (long double)bb.bottom - bb.top;
  for (int i = 0; i < nrandom; ++i)
    add_probe(out, bb.left - 0.05L * w + 1.1L * w * g.unit(), bb.top - 0.05L * h + 1.1L * h * g.unit());
  return out;
}

inline std::string probes_str(const std::vector<Point64>& ps) {
  std::string s = std::to_string(ps.size());
  for (auto& p : ps) { s += ' '; s += S(p); }
  return s;
}

}  // namespace vh
