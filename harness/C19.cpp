// C19 harness: detail::Minkowski (quad construction, model level) and MinkowskiSum/MinkowskiDiff
// (swept-pattern region, spec level).  Nothing of the library is re-implemented here: the quad list is
// the return value of the real detail::Minkowski, the regions are the real MinkowskiSum/Diff results.
#include "common.h"
#include "clipper2/clipper.minkowski.h"
// unity build: ./check compiles this file alone (-I <repo>/CPP/Clipper2Lib/src)
#include "clipper.engine.cpp"
using namespace vh;

typedef __int128 i128;

static int64_t mag_of(Rng& g, int& cls) {
  static const int64_t mags[] = {8, 100, 100000, (int64_t)1 << 23, (int64_t)1 << 30, (int64_t)1 << 40, 3000000};
  cls = (int)(g.next() % 7);
  return mags[cls];
}

// exact 2*Area of a quad
static i128 shoelace2(const Path64& q) {
  i128 s = 0;
  for (size_t i = 0; i < q.size(); ++i) {
    const Point64& a = q[i]; const Point64& b = q[(i + 1) % q.size()];
    s += (i128)a.x * b.y - (i128)b.x * a.y;
  }
  return s;
}

static Path64 gen_points(Rng& g, int n, int64_t r, int kind) {
  Path64 p;
  if (n == 0) return p;
  switch (kind) {
    case 0: p = rand_poly(g, n, r); break;                                   // arbitrary (self-intersecting)
    case 1: p = n >= 3 ? star_poly(g, n, r / 3 + 1, r) : rand_poly(g, n, r); break;  // simple star-shaped
    case 2: {                                                                // all collinear
      int64_t dx = g.range(-r / 8, r / 8), dy = g.range(-r / 8, r / 8);
      Point64 o(g.range(-r / 4, r / 4), g.range(-r / 4, r / 4));
      for (int i = 0; i < n; ++i) { int64_t k = g.range(-3, 3); p.emplace_back(o.x + k * dx, o.y + k * dy); }
      break; }
    case 3: {                                                                // repeated points and spikes
      p = rand_poly(g, n, r);
      for (int i = 1; i < n; ++i) if (g.chance(40)) p[i] = p[g.next() % i];
      break; }
    case 4: {                                                                // rectilinear
      p = rand_poly(g, n, r);
      for (int i = 1; i < n; ++i) { if (i & 1) p[i].y = p[i - 1].y; else p[i].x = p[i - 1].x; }
      break; }
    default: {                                                               // nearly parallel long edges
      int64_t dx = g.range(r / 2, r), dy = g.range(r / 2, r);
      Point64 o(g.range(-r / 4, r / 4), g.range(-r / 4, r / 4));
      for (int i = 0; i < n; ++i) {
        int64_t k = (i & 1) ? 1 : 0;
        p.emplace_back(o.x + k * dx + g.range(-2, 2) - (i / 2) * (dy / 1024), o.y + k * dy + g.range(-2, 2) + (i / 2) * (dx / 1024));
      }
      break; }
  }
  for (auto& q : p) { q.x = std::max(-r, std::min(r, q.x)); q.y = std::max(-r, std::min(r, q.y)); }
  return p;
}

static long n_sign_differs = 0;

// The region check of small-magnitude inputs (|coordinate| <= 1e4) fails on the unchanged tree: the engine's Union
// loses whole holes of the quad soup there (rate 1e-3 at |coord| <= 30, 1e-5 at 1000, none seen from 1e4 up).  Fixed
// instances are emitted under the label kf.mink.lost-hole (kf_cases); the generic generator keeps the small classes
// for the model-level records only, unless VERIF_C19_SMALL=1.
static bool g_small_regions = false;

static void one_case(Rng& g, const Path64& pattern, const Path64& path, bool isSum, bool isClosed, int64_t r, const std::string& tag) {
  std::string args = std::string(isSum ? "1" : "0") + " " + (isClosed ? "1" : "0") + " " + S(pattern) + " " + S(path);
  // ---- model level: the quad list of the real detail::Minkowski
  Paths64 qs = detail::Minkowski(pattern, path, isSum, isClosed);
  stat("cases." + tag);
  stat("quads", (long long)qs.size());
  emitM("mink.model.float", "MINKF " + args, S(qs));
  bool signs_agree = true;
  for (auto& q : qs) {
    if (q.size() != 4) { emitF("mink.quad-size", args); continue; }
    i128 a2 = shoelace2(q);
    // the quad handed to the union must be non-negative (after the reversal the real code applied)
    if (a2 < 0) {
      // the double Area misjudged the sign: possible only outside the exact regime
      signs_agree = false;
      if (r <= ((int64_t)1 << 23)) emitF("mink.negative-quad-exact-regime", args);
    }
    if (a2 == 0) {
      stat("quads.zero_area");
      // outside the exact regime a zero-area quad may have been reversed on a rounding residue
      Path64 rq(q.rbegin(), q.rend());
      if (r > ((int64_t)1 << 23) && (Area(q) != 0.0 || Area(rq) != 0.0)) signs_agree = false;
    } else stat("quads.nonzero_area");
  }
  // a quad the real code left unreversed although exactly negative, or reversed although exactly >= 0,
  // both show up as a negative/misordered quad; compare with the exact model only when the signs agree
  if (signs_agree) {
    emitM("mink.model", "MINK " + args, S(qs));
    if (g.chance(25)) emitM("mink.closedform", "MINKSPEC " + args, S(qs));
  } else {
    ++n_sign_differs;
    stat("mink.double_sign_differs_from_exact");
  }
  // ---- spec level: the region of the real MinkowskiSum / MinkowskiDiff
  if (r <= 10000 && !g_small_regions && tag.rfind("fixed.", 0) != 0) { stat("region_check.skipped_small_magnitude"); return; }
  Paths64 res = isSum ? MinkowskiSum(pattern, path, isClosed) : MinkowskiDiff(pattern, path, isClosed);
  if ((pattern.empty() || path.empty()) && !res.empty()) emitF("mink.empty", args);
  if (res.empty()) stat("result.empty"); else stat("result.nonempty");
  std::vector<Point64> probes;
  if (!qs.empty()) {
    int64_t l = INT64_MAX, t = INT64_MAX, rr = INT64_MIN, b = INT64_MIN;
    for (auto& q : qs) for (auto& p : q) { l = std::min(l, p.x); rr = std::max(rr, p.x); t = std::min(t, p.y); b = std::max(b, p.y); }
    int64_t w = rr - l, h = b - t;
    int nr = 24;
    for (int i = 0; i < nr; ++i) probes.emplace_back(g.range(l - w / 8 - 5, rr + w / 8 + 5), g.range(t - h / 8 - 5, b + h / 8 + 5));
    // bounding box of the real result too (should be inside the quads' box)
    for (auto& p : res) for (auto& v : p) if (g.chance(10)) probes.emplace_back(v.x + g.range(-6, 6), v.y + g.range(-6, 6));
    for (auto& q : qs) {
      if (q.size() != 4) continue;
      if (g.chance(60)) probes.emplace_back((q[0].x + q[1].x + q[2].x + q[3].x) / 4, (q[0].y + q[1].y + q[2].y + q[3].y) / 4);
      // points a few units to either side of a quad edge
      for (int e = 0; e < 4; ++e) {
        if (!g.chance(35)) continue;
        Point64 a = q[e], c = q[(e + 1) & 3];
        double dx = (double)(c.x - a.x), dy = (double)(c.y - a.y), len = std::sqrt(dx * dx + dy * dy);
        if (len == 0) continue;
        double tpar = g.unit();
        double off = (g.coin() ? 1.0 : -1.0) * (double)g.range(3, 9);
        double px = (double)a.x + tpar * dx - off * dy / len, py = (double)a.y + tpar * dy + off * dx / len;
        probes.emplace_back((int64_t)std::llround(px), (int64_t)std::llround(py));
      }
      // a random convex combination of the corners (inside the parallelogram)
      if (g.chance(50)) {
        double u = g.unit(), v = g.unit();
        double px = (double)q[0].x + u * (double)(q[1].x - q[0].x) + v * (double)(q[3].x - q[0].x);
        double py = (double)q[0].y + u * (double)(q[1].y - q[0].y) + v * (double)(q[3].y - q[0].y);
        probes.emplace_back((int64_t)std::llround(px), (int64_t)std::llround(py));
      }
    }
  } else {
    for (int i = 0; i < 4; ++i) probes.emplace_back(g.range(-r, r), g.range(-r, r));
  }
  stat("probes.proposed", (long long)probes.size());
  std::string req = args + " " + S(res) + " " + std::to_string(probes.size());
  for (auto& p : probes) { req += ' '; req += S(p); }
  emitS("mink.spec", "MINKCHECK " + req);
}

// fixed inputs on which the real MinkowskiSum/MinkowskiDiff violates the property on the unchanged tree
static void kf_case(const Path64& pattern, const Path64& path, bool isSum, bool isClosed, const std::vector<Point64>& probes) {
  std::string args = std::string(isSum ? "1" : "0") + " " + (isClosed ? "1" : "0") + " " + S(pattern) + " " + S(path);
  Paths64 res = isSum ? MinkowskiSum(pattern, path, isClosed) : MinkowskiDiff(pattern, path, isClosed);
  std::string req = args + " " + S(res) + " " + std::to_string(probes.size());
  for (auto& p : probes) { req += ' '; req += S(p); }
  emitS("kf.mink.lost-hole", "MINKCHECK " + req);
}
static void kf_cases() {
  // tiny triangle pattern, triangle path: the hole inside the swept band is filled
  kf_case({Point64(0, 0), Point64(-1, 2), Point64(1, -1)}, {Point64(-6, 7), Point64(4, 10), Point64(8, -12)}, false, true, {Point64(2, 1)});
  // general position, pattern extent 44, path extent 400: a triangular hole of area 1456 is lost (present at 10x scale)
  kf_case({Point64(-16, 2), Point64(-5, -36), Point64(28, -35), Point64(9, 8)},
          {Point64(270, -198), Point64(229, 127), Point64(53, 241), Point64(-125, -144), Point64(-13, -93), Point64(2, -1)}, false, false,
          {Point64(-63, -62), Point64(-47, -33)});
  // pattern with repeated points (a unit segment), self-intersecting path
  kf_case({Point64(5, 6), Point64(5, 6), Point64(5, 6), Point64(5, 7)},
          {Point64(-25, -75), Point64(-43, 40), Point64(9, -54), Point64(39, 87), Point64(58, -45), Point64(-59, 56), Point64(48, 48), Point64(17, -68)}, true, true,
          {Point64(47, -19)});
}

int main(int argc, char** argv) {
  Rng g(seed_from_args(argc, argv));
  bool thorough = thorough_from_args(argc, argv);
  int N = thorough ? 24000 : 1400;
  g_small_regions = getenv("VERIF_C19_SMALL") != nullptr;
  kf_cases();

  // fixed corner cases first: empty pattern / empty path / single points, every flag combination
  for (int s = 0; s < 2; ++s) for (int c = 0; c < 2; ++c) {
    Path64 sq = rect_path(-5, -5, 5, 5), tri = {Point64(0, 0), Point64(40, 0), Point64(20, 30)};
    one_case(g, Path64(), tri, s, c, 100, "fixed.empty_pattern");
    one_case(g, sq, Path64(), s, c, 100, "fixed.empty_path");
    one_case(g, Path64(), Path64(), s, c, 100, "fixed.both_empty");
    one_case(g, Path64{Point64(3, 4)}, tri, s, c, 100, "fixed.point_pattern");
    one_case(g, sq, Path64{Point64(7, -2)}, s, c, 100, "fixed.point_path");
    one_case(g, sq, Path64{Point64(0, 0), Point64(100, 50)}, s, c, 100, "fixed.segment_path");
    one_case(g, sq, tri, s, c, 100, "fixed.square_triangle");
    Path64 rsq = sq; std::reverse(rsq.begin(), rsq.end());
    one_case(g, rsq, tri, s, c, 100, "fixed.cw_square_triangle");
    // non-convex pattern (an L) and a self-intersecting path (bow-tie)
    Path64 L = {Point64(0, 0), Point64(30, 0), Point64(30, 10), Point64(10, 10), Point64(10, 30), Point64(0, 30)};
    Path64 bow = {Point64(0, 0), Point64(200, 200), Point64(200, 0), Point64(0, 200)};
    one_case(g, L, bow, s, c, 1000, "fixed.L_bowtie");
  }
  for (int it = 0; it < N; ++it) {
    int cls; int64_t r = mag_of(g, cls);
    int patN = (int)g.range(1, 6), pathN = (int)g.range(0, 8);
    if (g.chance(3)) patN = 0;
    int pk = (int)(g.next() % 6), qk = (int)(g.next() % 6);
    if (cls < 2 && pk == 5) pk = 0;
    if (cls < 2 && qk == 5) qk = 0;
    if (cls == 6) cls = 2;
    // pattern usually smaller than the path, as in real use; sometimes the same size
    int64_t rp = g.chance(70) ? std::max<int64_t>(4, r / g.range(2, 64)) : r;
    Path64 pattern = gen_points(g, patN, rp, pk);
    Path64 path = gen_points(g, pathN, r, qk);
    bool isSum = g.coin(), isClosed = g.coin();
    static const char* kn[] = {"random", "star", "collinear", "repeats", "rectilinear", "nearparallel"};
    stat(std::string("pattern.kind.") + kn[pk]); stat(std::string("path.kind.") + kn[qk]);
    stat("pattern.len." + std::to_string(patN)); stat("path.len." + std::to_string(pathN));
    stat(std::string(isSum ? "sum" : "diff") + (isClosed ? ".closed" : ".open"));
    one_case(g, pattern, path, isSum, isClosed, r, "mag" + std::to_string(cls));
  }
  flush_stats();
  return 0;
}
