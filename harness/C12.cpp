// C12 harness: results depend only on the current inputs, not on an object's history.
//
//  HISTCHECK  exhaustive op histories on one Clipper64 / ClipperD / Clipper64-fed-from-ReuseableDataContainer64:
//             after every Execute the result is compared bit for bit with a freshly constructed clipper given the
//             paths added since the last Clear and the current options (F records on mismatch); after every op the
//             private scratch members are inspected (F record if one is not empty) and the whole persistent state
//             (sorted flag, has_open_paths_, succeeded_, minima_list_: creation number, vertex point, polytype, is_open
//             of every element in its current order) is compared with the Lean model of ClipperBase (`HISTREPLAY`,
//             M records).  The add ops of a HISTREPLAY request carry the integer paths given to AddPaths_; the model
//             computes the local minima itself (Model/AddPathsRings.lean).
//  OFFCHECK   ClipperOffset: repeated Execute, Clear + new paths, permutations of paths within a group and of
//             groups (far-apart paths, all join/end types) against separate fresh objects; final frame state
//             (delta_, group_delta_, join_type_, end_type_) against the Lean model of DoGroupOffset (`OFFFRAME`).
//  RCCHECK    RectClip64 / RectClipLines64: repeated Execute, per-path decomposition.
//
// The library's private members are read (never written) through `#define private public`.
#include <algorithm>
#include <cmath>
#include <cstdint>
#include <cstdlib>
#include <cstdio>
#include <cstring>
#include <deque>
#include <functional>
#include <iostream>
#include <map>
#include <memory>
#include <numeric>
#include <optional>
#include <queue>
#include <set>
#include <sstream>
#include <stdexcept>
#include <string>
#include <type_traits>
#include <unordered_map>
#include <vector>
#include <climits>
#include <ctime>
#include <limits>
#define private public
#define protected public
#include "common.h"
#include "clipper.engine.cpp"
#include "clipper.offset.cpp"
#include "clipper.rectclip.cpp"
#undef private
#undef protected
using namespace vh;

// The three state leaks of ClipperOffset found by this harness (end_type_ after a 2-point Joined path, delta_ after a
// point-less Polygon group, CheckReverseOrientation on a point-less group) and the empty-path fault are fixed in /repo
// (bd5ab48, 058ce9d, 7cb0e75, 85fe8ed): their inputs are fixed corpus records (off.corpus.*) and their triggers are part
// of the generic generators.
// Execute(DeltaCallback64, …) stores the callback in the object (same effect as the public SetDeltaCallback); a later
// Execute(double, …) keeps using it.  Reported as an observation (statistic) unless this is switched on.
static const bool REPORT_CALLBACK_STICKY_AS_FAILURE = false;
// ClipperOffset::CheckReverseOrientation takes the orientation of the first Polygon group for the whole call (the
// source says "this assumes there's consistency in orientation between groups").  Reported as an observation.
static const bool REPORT_MIXED_ORIENTATION_AS_FAILURE = false;

// Adding the same ReuseableDataContainer64 twice to one clipper makes Execute spin forever (two LocalMinima share one
// Vertex).  Reported under kf.reuse-same-container-twice-hang (run in a forked child with an alarm); while it is
// present the history enumeration skips histories that add one container twice between two Clear()s.
static const bool KNOWN_REUSE_TWICE_HANG_PRESENT = true;

static bool g_thorough = false;
static long long g_fail = 0;
static void fail(const std::string& label, const std::string& d) {
  if (++g_fail <= 200) emitF(label, d);
  stat("fail." + label);
}

// ------------------------------------------------------------------------------------------------ HISTCHECK

// the three closed path sets and the open one (int64 variant); the ClipperD variant uses the same numbers / 4
static Paths64 setA() { return Paths64{Path64{{0, 0}, {50, 0}, {100, 0}, {100, 100}, {0, 100}}}; }            // collinear vertex
static Paths64 setB() { return Paths64{Path64{{50, 50}, {150, 50}, {150, 150}, {50, 150}}, Path64{{10, 10}, {30, 10}, {30, 30}, {10, 30}}}; }
static Paths64 setC() { return Paths64{Path64{{100, 100}, {160, 40}, {100, -20}, {40, 40}}}; }                   // shares (100,100) with A
static Paths64 setL() { return Paths64{Path64{{-20, 50}, {60, 50}, {120, 80}, {200, -10}}}; }
static PathsD toD(const Paths64& ps) {
  PathsD r;
  for (auto& p : ps) { PathD q; for (auto& pt : p) q.emplace_back(pt.x * 0.25, pt.y * 0.25); r.push_back(q); }
  return r;
}

enum Op { ADD_A, ADD_B, ADD_C, ADD_L, EX_INT, EX_UNI_TREE, EX_DIFF_OPEN, CLEAR, TOG_PRESERVE, TOG_REVERSE, EX_NOCLIP, N_OPS };
static const char* OPNAME[] = {"AddSubject(A)", "AddSubject(B)", "AddClip(C)", "AddOpenSubject(L)", "Execute(Intersection,NonZero,paths)",
  "Execute(Union,EvenOdd,tree+open)", "Execute(Difference,NonZero,paths+open)", "Clear", "TogglePreserveCollinear", "ToggleReverseSolution", "Execute(NoClip,EvenOdd,paths)"};
static bool is_add(int op) { return op <= ADD_L; }
static Paths64 set_of(int op) { return op == ADD_A ? setA() : op == ADD_B ? setB() : op == ADD_C ? setC() : setL(); }
static bool is_exec(int op) { return (op >= EX_INT && op <= EX_DIFF_OPEN) || op == EX_NOCLIP; }

static std::string ser_tree(const PolyPath64& pp) {
  std::string s = "(" + S(pp.Polygon()) + " c" + std::to_string(pp.Count());
  for (size_t i = 0; i < pp.Count(); ++i) s += ser_tree(*pp.Child(i));
  return s + ")";
}
static std::string ser_tree(const PolyPathD& pp) {
  std::string s = "(" + SD(pp.Polygon()) + " c" + std::to_string(pp.Count());
  for (size_t i = 0; i < pp.Count(); ++i) s += ser_tree(*pp.Child(i));
  return s + ")";
}

// ---- variants: how paths get into the clipper and how results come out
struct Var64 {
  typedef Clipper64 Cl;
  static const char* name() { return "c64"; }
  static Cl* make() { return new Cl(); }
  static void add(Cl& c, int op) {
    switch (op) {
      case ADD_A: c.AddSubject(setA()); break;
      case ADD_B: c.AddSubject(setB()); break;
      case ADD_C: c.AddClip(setC()); break;
      default: c.AddOpenSubject(setL()); break;
    }
  }
  static Paths64 int_paths(Cl&, int op) { return set_of(op); }
  static std::string exec(Cl& c, int op) {
    bool ok;
    std::string s;
    if (op == EX_INT) { Paths64 r; ok = c.Execute(ClipType::Intersection, FillRule::NonZero, r); s = S(r); }
    else if (op == EX_NOCLIP) { Paths64 r; ok = c.Execute(ClipType::NoClip, FillRule::EvenOdd, r); s = S(r); }
    else if (op == EX_DIFF_OPEN) { Paths64 r, o; ok = c.Execute(ClipType::Difference, FillRule::NonZero, r, o); s = S(r) + " | " + S(o); }
    else { PolyTree64 t; Paths64 o; ok = c.Execute(ClipType::Union, FillRule::EvenOdd, t, o); s = ser_tree(t) + " | " + S(o); }
    return std::string(ok ? "1 " : "0 ") + s;
  }
};
struct VarD {
  typedef ClipperD Cl;
  static const char* name() { return "cD"; }
  static Cl* make() { return new Cl(2); }
  static void add(Cl& c, int op) {
    switch (op) {
      case ADD_A: c.AddSubject(toD(setA())); break;
      case ADD_B: c.AddSubject(toD(setB())); break;
      case ADD_C: c.AddClip(toD(setC())); break;
      default: c.AddOpenSubject(toD(setL())); break;
    }
  }
  static Paths64 int_paths(Cl& c, int op) {   // ClipperD::AddSubject: AddPaths(ScalePaths<int64_t, double>(paths, scale_, error_code_), …)
    int ec = 0;
    return ScalePaths<int64_t, double>(toD(set_of(op)), c.scale_, ec);
  }
  static std::string exec(Cl& c, int op) {
    bool ok;
    std::string s;
    if (op == EX_INT) { PathsD r; ok = c.Execute(ClipType::Intersection, FillRule::NonZero, r); s = SD(r); }
    else if (op == EX_NOCLIP) { PathsD r; ok = c.Execute(ClipType::NoClip, FillRule::EvenOdd, r); s = SD(r); }
    else if (op == EX_DIFF_OPEN) { PathsD r, o; ok = c.Execute(ClipType::Difference, FillRule::NonZero, r, o); s = SD(r) + " | " + SD(o); }
    else { PolyTreeD t; PathsD o; ok = c.Execute(ClipType::Union, FillRule::EvenOdd, t, o); s = ser_tree(t) + " | " + SD(o); }
    return std::string(ok ? "1 " : "0 ") + s;
  }
};
// every clipper of this variant (used and fresh ones) is fed from the same four containers
static ReuseableDataContainer64* g_rdc[4];
static std::string g_rdc_dump[4];   // vertices + flags + minima of the containers, taken before any clipper saw them
static std::string dump_container(const ReuseableDataContainer64& r) {
  std::string s;
  for (auto& lm : r.minima_list_) {
    s += "m " + S(lm->vertex->pt) + " " + std::to_string((int)lm->polytype) + " " + std::to_string((int)lm->is_open) + " ring";
    const Vertex* v = lm->vertex;
    do { s += " " + S(v->pt) + ":" + std::to_string((uint32_t)v->flags); v = v->next; } while (v != lm->vertex);
    s += ";";
  }
  return s;
}
struct VarR {
  typedef Clipper64 Cl;
  static const char* name() { return "c64reuse"; }
  static Cl* make() { return new Cl(); }
  static void add(Cl& c, int op) { c.AddReuseableData(*g_rdc[op]); }
  static Paths64 int_paths(Cl&, int op) { return set_of(op); }   // what the container was filled from
  static std::string exec(Cl& c, int op) { return Var64::exec(c, op); }
};

// what the harness can see of ClipperBase's private state after an op (compared with the Lean model)
struct MinId { std::unordered_map<const LocalMinima*, int> id; int next = 0; };
template <class Cl>
static std::string state_vec(Cl& c, MinId& ids, bool iter_valid) {
  ClipperBase& b = c;
  std::string s;
  s += b.actives_ == nullptr ? '1' : '0';
  s += b.scanline_list_.empty() ? '1' : '0';
  s += b.intersect_nodes_.empty() ? '1' : '0';
  s += b.outrec_list_.empty() ? '1' : '0';
  s += b.horz_seg_list_.empty() ? '1' : '0';
  s += b.horz_join_list_.empty() ? '1' : '0';
  s += b.sel_ == nullptr ? '1' : '0';
  s += ' ';
  s += b.minima_list_sorted_ ? '1' : '0';
  s += b.has_open_paths_ ? '1' : '0';
  s += b.succeeded_ ? '1' : '0';
  s += b.preserve_collinear_ ? '1' : '0';
  s += b.reverse_solution_ ? '1' : '0';
  s += ' ';
  s += iter_valid ? std::to_string(b.current_locmin_iter_ - b.minima_list_.begin()) : std::string("-");
  s += ' ';
  s += std::to_string(b.vertex_lists_.size());
  s += ' ';
  s += std::to_string(b.minima_list_.size());
  for (auto& lm : b.minima_list_) {
    auto it = ids.id.find(lm.get());
    s += ' ';
    s += it == ids.id.end() ? std::string("?") : std::to_string(it->second);
    s += "@" + S(lm->vertex->pt.x) + "," + S(lm->vertex->pt.y) + "/" + std::to_string((int)lm->polytype) + (lm->is_open ? "1" : "0");
  }
  return s;
}

static std::map<std::string, std::string> g_fresh_cache;

template <class V>
static std::string fresh_result(const std::vector<int>& adds, bool preserve, bool reverse, int exop) {
  std::string key = std::string(V::name()) + (preserve ? "P" : "p") + (reverse ? "R" : "r") + char('0' + exop) + ":";
  for (int a : adds) key += char('0' + a);
  auto it = g_fresh_cache.find(key);
  if (it != g_fresh_cache.end()) return it->second;
  std::unique_ptr<typename V::Cl> c(V::make());
  c->PreserveCollinear(preserve);
  c->ReverseSolution(reverse);
  for (int a : adds) V::add(*c, a);
  std::string r = V::exec(*c, exop);
  // a second fresh object built the same way must agree bit for bit (repeatability of a fresh run)
  std::unique_ptr<typename V::Cl> c2(V::make());
  for (int a : adds) V::add(*c2, a);
  c2->ReverseSolution(reverse);          // options set after the paths: must not matter either
  c2->PreserveCollinear(preserve);
  std::string r2 = V::exec(*c2, exop);
  if (r != r2) fail(std::string("hist.") + V::name() + ".fresh-vs-fresh", "key " + key + " first " + r + " second " + r2);
  stat(std::string("hist.") + V::name() + ".fresh_executions", 2);
  g_fresh_cache[key] = r;
  return r;
}

static std::string hist_name(const std::vector<int>& h, size_t upto) {
  std::string s;
  for (size_t i = 0; i <= upto && i < h.size(); ++i) { if (i) s += "; "; s += OPNAME[h[i]]; }
  return s;
}

// run one history on one object; check after every op.  `emit_model`: also print the HISTREPLAY record
template <class V>
static void run_history(const std::vector<int>& h, bool emit_model) {
  std::unique_ptr<typename V::Cl> c(V::make());
  ClipperBase& b = *c;
  MinId ids;
  std::vector<int> adds;
  bool preserve = true, reverse = false, iter_valid = false;
  std::string req = "HISTREPLAY " + std::to_string(h.size());
  std::string expect;
  const std::string lab = std::string("hist.") + V::name();
  for (size_t i = 0; i < h.size(); ++i) {
    int op = h[i];
    if (is_add(op)) {
      if (KNOWN_REUSE_TWICE_HANG_PRESENT && std::is_same<V, VarR>::value && std::find(adds.begin(), adds.end(), op) != adds.end()) {
        stat(lab + ".histories_cut_at_second_add_of_same_container");
        return;
      }
      size_t n0 = b.minima_list_.size();
      V::add(*c, op);
      adds.push_back(op);
      if (b.minima_list_.size() != n0) iter_valid = false;  // emplace_back may reallocate: the stored iterator is stale until Reset()/Clear()
      bool viaContainer = std::is_same<V, VarR>::value;
      // The op carries the integer paths that reach AddPaths_ (for ClipperD: scaled exactly as ClipperD::AddSubject does);
      // the Lean model of AddPaths_ computes the minima.  The real minima are only *numbered* here (creation order), and
      // the state vector lists number, vertex point, polytype and is_open of every element of minima_list_.
      req += std::string(viaContainer ? " R " : " A ") + (op == ADD_C ? "1 " : "0 ") + (op == ADD_L ? "1 " : "0 ") + S(V::int_paths(*c, op));
      for (size_t k = n0; k < b.minima_list_.size(); ++k) ids.id[b.minima_list_[k].get()] = ids.next++;
      stat(lab + ".minima_created", (long long)(b.minima_list_.size() - n0));
      stat(lab + ".op.add");
    } else if (is_exec(op)) {
      std::string got = V::exec(*c, op);
      iter_valid = true;
      std::string want = fresh_result<V>(adds, preserve, reverse, op);
      stat(lab + ".op.execute");
      if (got.size() > 8) stat(lab + ".execute_nonempty_result");
      if (got != want)
        fail(lab + ".exec-vs-fresh", "history [" + hist_name(h, i) + "] used object: " + got + " fresh object: " + want);
      int ct = op == EX_INT ? 1 : op == EX_UNI_TREE ? 2 : op == EX_DIFF_OPEN ? 3 : 0;
      int fr = (op == EX_INT || op == EX_DIFF_OPEN) ? 1 : 0;
      req += " E " + std::to_string(ct) + " " + std::to_string(fr) + " " + (op == EX_UNI_TREE ? "1" : "0");
    } else if (op == CLEAR) {
      c->Clear();
      adds.clear(); ids = MinId(); iter_valid = true;
      req += " C";
      stat(lab + ".op.clear");
    } else if (op == TOG_PRESERVE) {
      preserve = !preserve; c->PreserveCollinear(preserve);
      req += std::string(" P ") + (preserve ? "1" : "0");
      stat(lab + ".op.option");
    } else {
      reverse = !reverse; c->ReverseSolution(reverse);
      req += std::string(" V ") + (reverse ? "1" : "0");
      stat(lab + ".op.option");
    }
    std::string sv = state_vec(*c, ids, iter_valid);
    if (sv.compare(0, 7, "1111111") != 0)
      fail(lab + ".scratch-not-empty", "history [" + hist_name(h, i) + "] scratch emptiness (actives,scanlines,intersect_nodes,outrecs,horz_segs,horz_joins,sel) = " + sv.substr(0, 7));
    if (i) expect += " ; ";
    expect += sv;
  }
  stat(lab + ".histories");
  if (emit_model) emitM(lab + ".model", req, expect);
}

template <class V>
static void enumerate_histories(int len, const std::vector<int>& alphabet, bool emit_model) {
  std::vector<int> idx(len, 0), h(len);
  for (;;) {
    for (int i = 0; i < len; ++i) h[i] = alphabet[idx[i]];
    run_history<V>(h, emit_model);
    int k = len - 1;
    while (k >= 0 && ++idx[k] == (int)alphabet.size()) idx[k--] = 0;
    if (k < 0) break;
  }
}

static double now_s() { timespec t; clock_gettime(CLOCK_MONOTONIC, &t); return t.tv_sec + 1e-9 * t.tv_nsec; }
static void tick(const char* what) { static double t0 = now_s(); if (getenv("VERIF_TIMING")) fprintf(stderr, "[%7.2fs] %s\n", now_s() - t0, what); }

template <class V>
static void random_histories(Rng& g, int count, int minlen, int maxlen, bool emit_model) {
  for (int n = 0; n < count; ++n) {
    int len = (int)g.range(minlen, maxlen);
    std::vector<int> h(len);
    for (auto& o : h) o = (int)(g.next() % N_OPS);
    run_history<V>(h, emit_model);
  }
}

// the containers must never be written by the clippers that use them
static void check_containers_untouched(const char* when) {
  for (int i = 0; i < 4; ++i)
    if (dump_container(*g_rdc[i]) != g_rdc_dump[i])
      fail("hist.c64reuse.container-written", std::string("container ") + OPNAME[i] + " changed " + when);
  stat("hist.c64reuse.container_snapshots_compared", 4);
}

// two live clippers fed from the same container at the same time, interleaved
static void shared_container_interleaving() {
  for (int round = 0; round < 8; ++round) {
    Clipper64 c1, c2;
    c1.AddReuseableData(*g_rdc[ADD_A]); c2.AddReuseableData(*g_rdc[ADD_A]);
    c1.AddReuseableData(*g_rdc[ADD_C]);
    std::string r1 = Var64::exec(c1, EX_INT);
    c2.AddReuseableData(*g_rdc[ADD_C]);
    c2.AddReuseableData(*g_rdc[ADD_L]); c1.AddReuseableData(*g_rdc[ADD_L]);
    std::string r2 = Var64::exec(c2, EX_DIFF_OPEN);
    std::string r1b = Var64::exec(c1, EX_DIFF_OPEN);
    std::string r2b = Var64::exec(c2, round & 1 ? EX_UNI_TREE : EX_INT);
    // minima seen through the two clippers point at the very same vertices
    ClipperBase &b1 = c1, &b2 = c2;
    bool same = b1.minima_list_.size() == b2.minima_list_.size();
    for (size_t i = 0; same && i < b1.minima_list_.size(); ++i) {
      bool found = false;
      for (auto& m2 : b2.minima_list_) if (m2->vertex == b1.minima_list_[i]->vertex) found = true;
      same = found;
    }
    if (!same) fail("hist.c64reuse.minima-differ", "two clippers fed from the same containers hold different vertex sets");
    if (!b1.vertex_lists_.empty() || !b2.vertex_lists_.empty()) fail("hist.c64reuse.owns-vertices", "a clipper fed only from containers owns vertex arrays");
    std::vector<int> a1 = {ADD_A, ADD_C}, a2 = {ADD_A, ADD_C, ADD_L};
    if (r1 != fresh_result<VarR>(a1, true, false, EX_INT)) fail("hist.c64reuse.interleaved", "c1 first execute differs from fresh");
    if (r2 != fresh_result<VarR>(a2, true, false, EX_DIFF_OPEN)) fail("hist.c64reuse.interleaved", "c2 first execute differs from fresh");
    if (r1b != r2) fail("hist.c64reuse.interleaved", "c1 and c2 disagree on the same inputs (added in different order relative to an Execute)");
    if (r2b != fresh_result<VarR>(a2, true, false, round & 1 ? EX_UNI_TREE : EX_INT)) fail("hist.c64reuse.interleaved", "c2 second execute differs from fresh");
    // the direct-add clipper must agree with the container-fed one
    if (r1 != fresh_result<Var64>(a1, true, false, EX_INT)) fail("hist.c64reuse.vs-direct", "container-fed result differs from AddSubject/AddClip result");
    stat("hist.c64reuse.interleaved_rounds");
  }
  check_containers_untouched("after interleaved use by two clippers");
}

#include <unistd.h>
#include <sys/wait.h>
#include <signal.h>
// one container added twice to the same clipper: Execute must return (checked in a child process with an alarm)
static void reuse_twice_probe() {
  fflush(stdout);
  pid_t pid = fork();
  if (pid == 0) {
    alarm(g_thorough ? 10 : 3);
    Clipper64 c;
    c.AddReuseableData(*g_rdc[ADD_A]);
    c.AddReuseableData(*g_rdc[ADD_A]);
    Paths64 r;
    c.Execute(ClipType::Union, FillRule::NonZero, r);
    _exit(r.size() == 1 ? 0 : 3);
  }
  int st = 0;
  if (pid < 0 || waitpid(pid, &st, 0) != pid) { stat("hist.c64reuse.twice_probe_not_run"); return; }
  stat("hist.c64reuse.twice_probe_run");
  if (WIFSIGNALED(st) && WTERMSIG(st) == SIGALRM)
    fail("kf.reuse-same-container-twice-hang", "ReuseableDataContainer64 r; r.AddPaths({{(0,0),(50,0),(100,0),(100,100),(0,100)}}, Subject, closed); Clipper64 c; c.AddReuseableData(r); c.AddReuseableData(r); c.Execute(Union, NonZero, out) does not return (AddSubject of the same path twice does)");
  else if (!WIFEXITED(st) || WEXITSTATUS(st) != 0)
    fail("hist.c64reuse.same-container-twice", "unexpected outcome, wait status " + std::to_string(st));
}

static void histcheck(Rng& g) {
  for (int i = 0; i < 4; ++i) {
    g_rdc[i] = new ReuseableDataContainer64();
    Paths64 ps = i == ADD_A ? setA() : i == ADD_B ? setB() : i == ADD_C ? setC() : setL();
    g_rdc[i]->AddPaths(ps, i == ADD_C ? PathType::Clip : PathType::Subject, i == ADD_L);
    g_rdc_dump[i] = dump_container(*g_rdc[i]);
  }
  std::vector<int> core = {ADD_A, ADD_B, ADD_C, ADD_L, EX_INT, EX_UNI_TREE, EX_DIFF_OPEN, CLEAR, TOG_PRESERVE};
  std::vector<int> full;
  for (int i = 0; i < N_OPS; ++i) full.push_back(i);
  // every history of length L contains all shorter ones as prefixes, and every prefix is checked
  if (!g_thorough) {
    enumerate_histories<Var64>(4, full, true);     // 11^4, with model records
    tick("enumerate_histories<Var64>(4, full, true)");
    enumerate_histories<Var64>(5, core, false);    // 9^5
    tick("enumerate_histories<Var64>(5, core, false)");
    enumerate_histories<VarD>(4, core, false);
    tick("enumerate_histories<VarD>(4, core, false)");
    enumerate_histories<VarR>(4, full, true);
    tick("enumerate_histories<VarR>(4, full, true)");
    random_histories<Var64>(g, 300, 6, 12, true);
    tick("random_histories<Var64>(g, 300, 6, 12, true)");
    random_histories<VarD>(g, 300, 5, 12, true);
    tick("random_histories<VarD>(g, 300, 5, 12, true)");
    random_histories<VarR>(g, 300, 5, 12, true);
    tick("random_histories<VarR>(g, 300, 5, 12, true)");
  } else {
    enumerate_histories<Var64>(4, full, true);
    tick("enumerate_histories<Var64>(4, full, true)");
    enumerate_histories<Var64>(6, full, false);    // 11^6 (contains every shorter history as a prefix)
    tick("enumerate_histories<Var64>(6, full, false)");
    enumerate_histories<VarD>(5, full, false);
    tick("enumerate_histories<VarD>(5, full, false)");
    enumerate_histories<VarD>(4, full, true);
    tick("enumerate_histories<VarD>(4, full, true)");
    enumerate_histories<VarR>(5, full, false);
    tick("enumerate_histories<VarR>(5, full, false)");
    enumerate_histories<VarR>(4, full, true);
    tick("enumerate_histories<VarR>(4, full, true)");
    random_histories<Var64>(g, 5000, 6, 16, true);
    tick("random_histories<Var64>(g, 5000, 6, 16, true)");
    random_histories<VarD>(g, 5000, 5, 16, true);
    tick("random_histories<VarD>(g, 5000, 5, 16, true)");
    random_histories<VarR>(g, 5000, 5, 16, true);
    tick("random_histories<VarR>(g, 5000, 5, 16, true)");
  }
  check_containers_untouched("after all histories");
  shared_container_interleaving();
  reuse_twice_probe();
  stat("hist.fresh_cache_entries", (long long)g_fresh_cache.size());
  for (int i = 0; i < 4; ++i) delete g_rdc[i];
}

// a path on a tiny grid: repeated points, flat runs, spikes, explicit closing vertex, 0..7 points
static Path64 grid_path(Rng& g) {
  Path64 p;
  int n = (int)g.range(0, 7);
  for (int i = 0; i < n; ++i) {
    if (!p.empty() && g.chance(25)) p.push_back(p.back());                       // consecutive duplicate
    else if (!p.empty() && g.chance(25)) p.emplace_back(g.range(-3, 3), p.back().y);  // horizontal edge
    else p.emplace_back(g.range(-3, 3), g.range(-3, 3));
  }
  if (!p.empty() && g.chance(30)) p.push_back(p.front());                         // closing vertex
  return p;
}

// histories on random path sets (larger inputs than the fixed ones, and degenerate ones on a tiny grid; Clipper64 only);
// every history is also replayed on the Lean model, which computes the minima from the paths (`HISTREPLAY`)
static void random_path_histories(Rng& g, int count) {
  for (int n = 0; n < count; ++n) {
    std::vector<Paths64> sets(4);
    bool tiny = g.chance(40);
    if (tiny) {
      for (int s = 0; s < 4; ++s) { int np = (int)g.range(0, 3); for (int i = 0; i < np; ++i) sets[s].push_back(grid_path(g)); }
      stat("hist.random_paths.tiny_grid_histories");
    } else {
      for (int s = 0; s < 3; ++s) {
        int np = (int)g.range(1, 3);
        for (int i = 0; i < np; ++i)
          sets[s].push_back(g.coin() ? star_poly(g, (int)g.range(3, 12), 20, 200, g.range(-100, 100), g.range(-100, 100))
                                     : rand_poly(g, (int)g.range(3, 8), g.chance(30) ? 8 : 200));
      }
      sets[3].push_back(rand_poly(g, (int)g.range(2, 6), 250));
    }
    Clipper64 c;
    ClipperBase& b = c;
    MinId ids;
    std::vector<int> adds;
    bool preserve = true, reverse = false, iter_valid = false;
    int len = (int)g.range(4, 14);
    std::string hs, req = "HISTREPLAY " + std::to_string(len), expect;
    for (int i = 0; i < len; ++i) {
      int op = (int)(g.next() % N_OPS);
      hs += char('a' + op);
      if (is_add(op)) {
        size_t n0 = b.minima_list_.size();
        if (op == ADD_C) c.AddClip(sets[2]); else if (op == ADD_L) c.AddOpenSubject(sets[3]); else c.AddSubject(sets[op]);
        adds.push_back(op);
        if (b.minima_list_.size() != n0) iter_valid = false;   // no emplace_back, no reallocation: the iterator stays valid
        req += std::string(" A ") + (op == ADD_C ? "1 " : "0 ") + (op == ADD_L ? "1 " : "0 ") + S(sets[op]);
        for (size_t k = n0; k < b.minima_list_.size(); ++k) ids.id[b.minima_list_[k].get()] = ids.next++;
        stat("hist.random_paths.minima_created", (long long)(b.minima_list_.size() - n0));
      } else if (op == CLEAR) { c.Clear(); adds.clear(); ids = MinId(); iter_valid = true; req += " C"; }
      else if (op == TOG_PRESERVE) { preserve = !preserve; c.PreserveCollinear(preserve); req += std::string(" P ") + (preserve ? "1" : "0"); }
      else if (op == TOG_REVERSE) { reverse = !reverse; c.ReverseSolution(reverse); req += std::string(" V ") + (reverse ? "1" : "0"); }
      else {
        std::string got = Var64::exec(c, op);
        iter_valid = true;
        Clipper64 f;
        f.PreserveCollinear(preserve); f.ReverseSolution(reverse);
        for (int a : adds) { if (a == ADD_C) f.AddClip(sets[2]); else if (a == ADD_L) f.AddOpenSubject(sets[3]); else f.AddSubject(sets[a]); }
        std::string want = Var64::exec(f, op);
        stat("hist.random_paths.executions");
        if (got != want) {
          std::string d = "sets";
          for (auto& s : sets) d += " {" + S(s) + "}";
          fail("hist.random-paths.exec-vs-fresh", d + " ops " + hs);
        }
        int ct = op == EX_INT ? 1 : op == EX_UNI_TREE ? 2 : op == EX_DIFF_OPEN ? 3 : 0;
        int fr = (op == EX_INT || op == EX_DIFF_OPEN) ? 1 : 0;
        req += " E " + std::to_string(ct) + " " + std::to_string(fr) + " " + (op == EX_UNI_TREE ? "1" : "0");
      }
      if (b.actives_ || !b.scanline_list_.empty() || !b.intersect_nodes_.empty() || !b.outrec_list_.empty() || !b.horz_seg_list_.empty() || !b.horz_join_list_.empty() || b.sel_)
        fail("hist.random-paths.scratch-not-empty", "ops " + hs);
      if (i) expect += " ; ";
      expect += state_vec(c, ids, iter_valid);
    }
    stat("hist.random_paths.histories");
    emitM("hist.random_paths.model", req, expect);
  }
}

// ------------------------------------------------------------------------------------------------ OFFCHECK

static const JoinType JTS[] = {JoinType::Square, JoinType::Bevel, JoinType::Round, JoinType::Miter};
static const EndType ETS[] = {EndType::Polygon, EndType::Joined, EndType::Butt, EndType::Square, EndType::Round};
static const char* JTN[] = {"Square", "Bevel", "Round", "Miter"};
static const char* ETN[] = {"Polygon", "Joined", "Butt", "Square", "Round"};

struct OGroup { Paths64 paths; int jt; int et; };

static Paths64 offset_fresh(const std::vector<OGroup>& gs, double delta, double ml = 2.0, double at = 0.0) {
  ClipperOffset co(ml, at);
  for (auto& g : gs) co.AddPaths(g.paths, JTS[g.jt], ETS[g.et]);
  Paths64 r;
  co.Execute(delta, r);
  return r;
}
static std::string descr_groups(const std::vector<OGroup>& gs, double delta) {
  std::string s = "delta=" + hexd(delta);
  for (auto& g : gs) s += std::string(" [") + JTN[g.jt] + "," + ETN[g.et] + " " + S(g.paths) + "]";
  return s;
}
static double area_of(const Paths64& ps) { double a = 0; for (auto& p : ps) a += Area(p); return a; }

// length of a path as Group's constructor will see it
static size_t stripped_len(Path64 p, int et) {
  StripDuplicates(p, et == 0 || et == 1);
  return p.size();
}

// model tie: final private frame state after Execute on a prefix of the groups / of the last group's paths
static void emit_offframe(const std::vector<OGroup>& gs, int64_t delta) {
  ClipperOffset co;
  for (auto& g : gs) co.AddPaths(g.paths, JTS[g.jt], ETS[g.et]);
  Paths64 r;
  co.Execute((double)delta, r);
  std::string req = "OFFFRAME " + S(delta) + " " + std::to_string(gs.size());
  for (auto& g : gs) req += " " + std::to_string(g.jt) + " " + std::to_string(g.et) + " " + S(g.paths);
  // delta_ and group_delta_ hold integers here (integer valued delta; 0 = the insignificant branch, members untouched)
  std::string exp = S((int64_t)co.delta_) + " " + S((int64_t)co.group_delta_) + " " + std::to_string((int)co.join_type_) + " " + std::to_string((int)co.end_type_);
  emitM("off.frame.model", req, exp);
}

static Path64 place(Path64 p, int64_t cx, int64_t cy) { for (auto& q : p) { q.x += cx; q.y += cy; } return p; }

static Path64 gen_offset_path(Rng& g, int et, bool positive) {
  // closed polygons are star shaped with a fixed orientation; everything within radius 300 of the origin
  int kind = (int)(g.next() % 10);
  Path64 p;
  if (et == 0) {
    if (positive && kind == 0) p = Path64{{g.range(-50, 50), g.range(-50, 50)}};                                   // single point
    else if (positive && kind == 1) p = Path64{{g.range(-200, -50), g.range(-100, 100)}, {g.range(50, 200), g.range(-100, 100)}};  // 2 points
    else {
      p = star_poly(g, (int)g.range(3, 9), 60, 300);
      if ((Area(p) > 0) != positive) std::reverse(p.begin(), p.end());
      if (Area(p) == 0) p = positive ? Path64{{0, 0}, {100, 0}, {100, 100}} : Path64{{0, 0}, {100, 100}, {100, 0}};
      if (kind == 2) p.insert(p.begin() + 1, p[0]);          // duplicate vertex
      if (kind == 3) p.push_back(p[0]);                       // explicitly closed
    }
  } else {
    int n = kind == 0 ? 1 : kind == 1 ? 2 : (int)g.range(2, 6);
    for (int i = 0; i < n; ++i) p.emplace_back(g.range(-300, 300), g.range(-300, 300));
    if (kind == 2 && n >= 2) p.insert(p.begin() + 1, p[0]);
    if (kind == 3 && n >= 3) p.push_back(p[0]);
    if (kind == 4) { p = Path64{{-100, 0}, {0, 0}, {100, 0}, {200, 0}}; }                                          // collinear
    if (kind == 5) { p = Path64{{-100, 0}, {100, 0}, {-100, 0}}; }                                                  // spike / retrace
  }
  return p;
}

static void offcheck_random(Rng& g, int iters) {
  for (int it = 0; it < iters; ++it) {
    bool positive = !g.chance(25);      // orientation of every Polygon-group path of this ClipperOffset (consistent, as the source assumes)
    int ng = (int)g.range(1, 4);
    int64_t idelta = g.range(1, 40);
    if (g.chance(35)) idelta = -idelta;
    double delta = (double)idelta;
    if (g.chance(20)) delta += 0.5;
    if (g.chance(4)) { static const double small[] = {0.0, 0.25, -0.25, 0.49}; delta = small[g.next() % 4]; idelta = 0; stat("off.gen.delta_insignificant"); }
    std::vector<OGroup> gs;
    int cell = 0;
    for (int gi = 0; gi < ng; ++gi) {
      OGroup og;
      og.jt = (int)(g.next() % 4);
      og.et = (int)(g.next() % 5);
      if (!positive && og.et != 0) og.et = 0;   // a reversed Polygon group decides the final fill rule for everyone: keep such calls Polygon-only here (see offcheck_orientation)
      int np = (int)g.range(1, 4);
      for (int pi = 0; pi < np; ++pi) {
        Path64 p = gen_offset_path(g, og.et, positive);
        og.paths.push_back(place(p, 100000 * cell, 100000 * cell));   // disjoint x- and y-ranges: see offcheck_observations (scanbeam rounding)
        ++cell;
      }
      if (g.chance(8)) { og.paths.insert(og.paths.begin() + g.range(0, (int64_t)og.paths.size()), Path64()); stat(std::string("off.gen.empty_path_in_group.") + ETN[og.et]); }
      if (og.paths.empty()) continue;
      gs.push_back(og);
    }
    // point-less groups anywhere (a Polygon one ahead of a shrink or of negatively oriented paths used to leak state)
    if (g.chance(8)) { OGroup e; e.jt = (int)(g.next() % 4); e.et = positive && g.chance(30) ? (int)(g.next() % 5) : 0; e.paths = Paths64{Path64()}; if (g.coin()) e.paths.push_back(Path64()); gs.insert(gs.begin() + g.range(0, (int64_t)gs.size()), e); stat("off.gen.pointless_group"); }
    for (auto& og : gs) if (og.et == 1) {
      bool has2 = false, has3 = false;
      for (auto& p : og.paths) { size_t l = stripped_len(p, og.et); if (l == 2) has2 = true; if (l >= 3) has3 = true; }
      if (has2 && has3) stat("off.gen.joined_group_with_2pt_and_longer_paths");
    }
    if (gs.empty()) continue;
    double ml = g.chance(30) ? (double)g.range(1, 5) : 2.0;
    double at = g.chance(30) ? 0.25 * (double)g.range(1, 20) : 0.0;
    std::string d = descr_groups(gs, delta) + " ml=" + hexd(ml) + " at=" + hexd(at);
    for (auto& og : gs) { stat(std::string("off.gen.group.") + ETN[og.et]); stat(std::string("off.gen.join.") + JTN[og.jt]); for (auto& p : og.paths) stat("off.gen.pathlen." + std::to_string(std::min<size_t>(p.size(), 4)) + (p.size() >= 4 ? "+" : "")); }
    stat(delta < 0 ? "off.gen.delta_negative" : "off.gen.delta_positive");
    stat(positive ? "off.gen.orientation_positive" : "off.gen.orientation_negative");

    // 1. the whole call on a fresh object; repeated on the same object; after other deltas / a tree execute in between
    ClipperOffset co(ml, at);
    for (auto& og : gs) co.AddPaths(og.paths, JTS[og.jt], ETS[og.et]);
    Paths64 r1, r2, r3, tmp;
    co.Execute(delta, r1);
    co.Execute(delta, r2);
    if (r1 != r2) fail("off.repeat-execute", d);
    co.Execute(-delta * 2, tmp);
    { PolyTree64 t; co.Execute(delta + 3, t); }
    co.Execute(delta, r3);
    if (r1 != r3) fail("off.execute-after-other-executes", d);
    Paths64 rf = offset_fresh(gs, delta, ml, at);
    if (rf != r1) fail("off.fresh-vs-fresh", d);
    stat("off.calls_compared", 4);
    if (!r1.empty()) stat("off.nonempty_results");

    // 2. Clear + new paths on a used object == fresh object
    {
      ClipperOffset used(ml, at);
      used.AddPaths(Paths64{Path64{{0, 0}, {70, 0}, {70, 70}}, Path64{{500, 500}, {600, 500}}}, JTS[it % 4], ETS[(it / 4) % 5]);
      Paths64 junk;
      used.Execute(g.coin() ? 7.0 : -7.0, junk);
      used.Clear();
      for (auto& og : gs) used.AddPaths(og.paths, JTS[og.jt], ETS[og.et]);
      Paths64 ru;
      used.Execute(delta, ru);
      if (ru != r1) fail("off.clear-then-new-paths", d);
      stat("off.calls_compared");
    }

    // 3. each path alone (fresh object per path, group parameters kept): union of results == result of the whole call
    Paths64 alone;
    for (auto& og : gs)
      for (auto& p : og.paths) {
        std::vector<OGroup> one = {OGroup{Paths64{p}, og.jt, og.et}};
        Paths64 r = offset_fresh(one, delta, ml, at);
        alone.insert(alone.end(), r.begin(), r.end());
        stat("off.single_path_calls");
      }
    if (canon_closed(alone) != canon_closed(r1)) fail("off.together-vs-alone", d);

    // 4. permutations: paths within each group, and groups
    for (int rep = 0; rep < 3; ++rep) {
      std::vector<OGroup> pg = gs;
      for (auto& og : pg) for (size_t i = og.paths.size(); i > 1; --i) std::swap(og.paths[i - 1], og.paths[g.next() % i]);
      if (rep) for (size_t i = pg.size(); i > 1; --i) std::swap(pg[i - 1], pg[g.next() % i]);
      Paths64 rp = offset_fresh(pg, delta, ml, at);
      if (canon_closed(rp) != canon_closed(r1)) fail(rep ? "off.permute-groups" : "off.permute-paths-in-group", d + " permuted: " + descr_groups(pg, delta));
      stat("off.permutations_compared");
    }

    // 5. model tie for the frame (integer deltas only): every prefix of the path list of the last group
    if (delta == (double)idelta && (it % 4 == 0 || g_thorough || idelta == 0)) {
      std::vector<OGroup> pre = gs;
      Paths64 all = pre.back().paths;
      for (size_t k = 1; k <= all.size(); ++k) {
        pre.back().paths.assign(all.begin(), all.begin() + k);
        emit_offframe(pre, idelta);
      }
    }
  }
}

// corpus: the inputs of the former state leaks (fixed in /repo), kept as regression records
static void offcheck_known() {
  {  // (a) end_type_ overwritten for a 2-point path of a Joined group and never restored
    Path64 p2 = {{0, 0}, {100, 0}}, p3 = {{1000, 1000}, {1100, 1000}, {1100, 1100}};
    std::vector<OGroup> both = {OGroup{Paths64{p2, p3}, 3, 1}}, second = {OGroup{Paths64{p3}, 3, 1}}, first = {OGroup{Paths64{p2}, 3, 1}}, swapped = {OGroup{Paths64{p3, p2}, 3, 1}};
    Paths64 rb = offset_fresh(both, 10), r2 = offset_fresh(first, 10), r3 = offset_fresh(second, 10), rs = offset_fresh(swapped, 10);
    Paths64 alone = r2; alone.insert(alone.end(), r3.begin(), r3.end());
    stat("off.known_inputs");
    if (canon_closed(rb) != canon_closed(alone) || canon_closed(rb) != canon_closed(rs))
      fail("off.corpus.joined-2pt-then-longer", "ClipperOffset AddPaths({{(0,0),(100,0)},{(1000,1000),(1100,1000),(1100,1100)}}, Miter, Joined), Execute(10): the 3-point path is not offset as it is alone or when listed first (end_type_ left over from the 2-point path)");
    emit_offframe(both, 10); emit_offframe(swapped, 10); emit_offframe(second, 10);
  }
  {  // (b) delta_ = abs(delta_) for a Polygon group without points persists into the following groups
    Path64 sq = {{0, 0}, {100, 0}, {100, 100}, {0, 100}};
    std::vector<OGroup> both = {OGroup{Paths64{Path64()}, 3, 0}, OGroup{Paths64{sq}, 3, 0}}, only = {OGroup{Paths64{sq}, 3, 0}}, swapped = {OGroup{Paths64{sq}, 3, 0}, OGroup{Paths64{Path64()}, 3, 0}};
    Paths64 rb = offset_fresh(both, -10), ro = offset_fresh(only, -10), rs = offset_fresh(swapped, -10);
    stat("off.known_inputs");
    if (canon_closed(rb) != canon_closed(ro) || canon_closed(rs) != canon_closed(ro))
      fail("off.corpus.pointless-polygon-group-then-shrink", "ClipperOffset AddPaths({{}}, Miter, Polygon); AddPaths({{(0,0),(100,0),(100,100),(0,100)}}, Miter, Polygon); Execute(-10): the square is not shrunk as it is alone or when added first (delta_ changed by the point-less group)");
    emit_offframe(both, -10); emit_offframe(swapped, -10); emit_offframe(only, -10);
  }
}

// corpus (c): a point-less first Polygon group must not decide the fill rule of the final union; (d) empty paths in
// open-ended and Joined groups are skipped (used to read path[0] / norms[0] of an empty vector)
static void offcheck_known_c() {
  Path64 neg = {{0, 0}, {0, 100}, {100, 100}, {100, 0}};   // negative area
  std::vector<OGroup> first = {OGroup{Paths64{Path64()}, 3, 0}, OGroup{Paths64{neg}, 3, 0}}, only = {OGroup{Paths64{neg}, 3, 0}}, last = {OGroup{Paths64{neg}, 3, 0}, OGroup{Paths64{Path64()}, 3, 0}};
  Paths64 rf = offset_fresh(first, 10), ro = offset_fresh(only, 10), rl = offset_fresh(last, 10);
  stat("off.known_inputs");
  if (canon_closed(rf) != canon_closed(ro) || canon_closed(rl) != canon_closed(ro))
    fail("off.corpus.pointless-polygon-group-then-reversed", "ClipperOffset AddPaths({{}}, Miter, Polygon); AddPaths({{(0,0),(0,100),(100,100),(100,0)}}, Miter, Polygon); Execute(10): the negatively oriented square is not offset as it is alone or when added first (orientation taken from the point-less group)");
  emit_offframe(first, 10); emit_offframe(last, 10);
  Path64 seg = {{0, 0}, {10, 0}}, tri = {{1000, 1000}, {1100, 1000}, {1100, 1100}};
  for (int et = 1; et < 5; ++et)
    for (int jt = 0; jt < 4; ++jt) {
      std::vector<OGroup> with = {OGroup{Paths64{Path64(), seg, Path64(), tri}, jt, et}}, without = {OGroup{Paths64{seg, tri}, jt, et}}, onlyEmpty = {OGroup{Paths64{Path64()}, jt, et}};
      stat("off.known_inputs");
      if (offset_fresh(with, 5) != offset_fresh(without, 5) || !offset_fresh(onlyEmpty, 5).empty())
        fail("off.corpus.empty-path-in-open-group", std::string("ClipperOffset AddPaths({{}, {(0,0),(10,0)}, {}, {(1000,1000),(1100,1000),(1100,1100)}}, ") + JTN[jt] + ", " + ETN[et] + "), Execute(5): empty paths change the result");
      emit_offframe(with, 5);
    }
  // an insignificant delta returns the Polygon groups' paths (through the final union) and nothing for open paths
  {
    Path64 sq = {{0, 0}, {100, 0}, {100, 100}, {0, 100}};
    std::vector<OGroup> mixed = {OGroup{Paths64{seg}, 3, 2}, OGroup{Paths64{sq}, 3, 0}, OGroup{Paths64{tri}, 3, 1}}, poly = {OGroup{Paths64{sq}, 3, 0}};
    stat("off.known_inputs");
    for (double dl : {0.0, 0.25, -0.49})
      if (canon_closed(offset_fresh(mixed, dl)) != canon_closed(offset_fresh(poly, dl)) || canon_closed(offset_fresh(poly, dl)) != canon_closed(Paths64{sq}))
        fail("off.corpus.insignificant-delta", "ClipperOffset with a Butt group, a Polygon square and a Joined group, |delta| < 0.5: result differs from the square alone");
    emit_offframe(mixed, 0);
  }
}

// observations on documented/arguable couplings (not failures unless switched on)
static void offcheck_observations() {
  {  // callback stays installed
    Path64 sq = {{0, 0}, {100, 0}, {100, 100}, {0, 100}};
    ClipperOffset co;
    co.AddPath(sq, JoinType::Miter, EndType::Polygon);
    Paths64 a, b;
    co.Execute([](const Path64&, const PathD&, size_t, size_t) { return 3.0; }, a);
    co.Execute(10.0, b);
    std::vector<OGroup> one = {OGroup{Paths64{sq}, 3, 0}};
    bool differs = b != offset_fresh(one, 10);
    stat("off.obs.callback_sticky_after_execute_with_callback", differs ? 1 : 0);
    if (differs && REPORT_CALLBACK_STICKY_AS_FAILURE)
      fail("kf.offset-callback-sticky", "Execute(DeltaCallback64 returning 3) then Execute(10) on the same ClipperOffset: second call still uses the callback");
  }
  {  // orientation of the first Polygon group governs the final union of the whole call
    Path64 neg = {{0, 0}, {0, 100}, {100, 100}, {100, 0}};             // negative area
    Path64 line = {{100000, 100000}, {100100, 100000}, {100100, 100100}};
    std::vector<OGroup> both = {OGroup{Paths64{neg}, 3, 0}, OGroup{Paths64{line}, 3, 2}}, a = {OGroup{Paths64{neg}, 3, 0}}, b = {OGroup{Paths64{line}, 3, 2}};
    Paths64 rb = offset_fresh(both, 10), ra = offset_fresh(a, 10), r2 = offset_fresh(b, 10);
    Paths64 alone = ra; alone.insert(alone.end(), r2.begin(), r2.end());
    bool differs = canon_closed(rb) != canon_closed(alone);
    stat("off.obs.reversed_polygon_group_changes_far_open_group", differs ? 1 : 0);
    Path64 pos = place(Path64{{0, 0}, {100, 0}, {100, 100}, {0, 100}}, 200000, 200000);
    std::vector<OGroup> mix = {OGroup{Paths64{neg}, 3, 0}, OGroup{Paths64{pos}, 3, 0}}, mixr = {OGroup{Paths64{pos}, 3, 0}, OGroup{Paths64{neg}, 3, 0}};
    bool differs2 = canon_closed(offset_fresh(mix, 10)) != canon_closed(offset_fresh(mixr, 10));
    stat("off.obs.group_order_matters_for_mixed_orientation_polygon_groups", differs2 ? 1 : 0);
    if ((differs || differs2) && REPORT_MIXED_ORIENTATION_AS_FAILURE)
      fail("kf.offset-mixed-orientation", "a negatively oriented first Polygon group makes the final union use FillRule::Negative for every group of the call");
  }
}

// Far-apart paths that share a y-range: the final union clamps a rounded intersection point to the current scanbeam, and
// the scanbeams are cut by every path's vertices, so a path 100000 units away can move a vertex by one unit.
static void offcheck_scanbeam_rounding() {
  Paths64 ps = {Path64{{-42, -40}}, Path64{{99944, 72}, {99776, 129}, {99909, 2}, {99855, -205}, {100082, -253}}, Path64{{200012, 68}, {199978, 167}, {199917, 27}, {200080, -3}, {200012, 68}}};
  std::vector<OGroup> gs = {OGroup{ps, 0, 0}};
  Paths64 whole = offset_fresh(gs, 32.0, 2.0, 2.5), alone;
  for (auto& p : ps) { std::vector<OGroup> one = {OGroup{Paths64{p}, 0, 0}}; Paths64 r = offset_fresh(one, 32.0, 2.0, 2.5); alone.insert(alone.end(), r.begin(), r.end()); }
  stat("off.known_inputs");
  if (canon_closed(whole) != canon_closed(alone))
    fail("kf.offset-scanbeam-rounding", "ClipperOffset(2, 2.5) AddPaths({{(-42,-40)},{(99944,72),(99776,129),(99909,2),(99855,-205),(100082,-253)},{(200012,68),(199978,167),(199917,27),(200080,-3),(200012,68)}}, Square, Polygon), Execute(32): the second path's result contains (99873,-8); offset alone it contains (99873,-7) (intersection point clamped to a scanbeam cut by the other, 100000 units distant, paths)");
}

// all join x end types x a fixed far-apart family: together == alone, any order (deterministic part of OFFCHECK)
static void offcheck_grid() {
  Path64 tri = {{0, 0}, {200, 0}, {100, 150}}, quad = {{0, 0}, {150, 20}, {170, 160}, {-10, 140}}, ell = {{0, 0}, {200, 0}, {200, 100}, {100, 100}, {100, 200}, {0, 200}};
  Path64 l3 = {{0, 0}, {100, 50}, {200, 0}}, l4 = {{0, 0}, {100, 0}, {100, 100}, {200, 100}}, l2 = {{0, 0}, {150, 40}}, l1 = {{5, 5}};
  for (int jt = 0; jt < 4; ++jt)
    for (int et = 0; et < 5; ++et)
      for (int64_t dl : {12, -7, 40}) {
        Paths64 ps = et == 0 ? Paths64{tri, place(quad, 100000, 100000), place(ell, 200000, 200000), place(l1, 300000, 300000)}
                             : Paths64{l3, place(l4, 100000, 100000), place(tri, 200000, 200000), place(l1, 300000, 300000)};
        ps.push_back(place(l2, 400000, 400000));
        ps.insert(ps.begin() + 1, Path64());   // an empty path in every kind of group
        std::vector<OGroup> gs = {OGroup{ps, jt, et}};
        Paths64 whole = offset_fresh(gs, (double)dl), alone;
        for (auto& p : ps) { std::vector<OGroup> one = {OGroup{Paths64{p}, jt, et}}; Paths64 r = offset_fresh(one, (double)dl); alone.insert(alone.end(), r.begin(), r.end()); }
        std::string d = descr_groups(gs, (double)dl);
        if (canon_closed(whole) != canon_closed(alone)) fail("off.grid.together-vs-alone", d);
        std::vector<size_t> perm(ps.size());
        std::iota(perm.begin(), perm.end(), 0);
        int np = 0;
        do {
          Paths64 q; for (size_t i : perm) q.push_back(ps[i]);
          std::vector<OGroup> pg = {OGroup{q, jt, et}};
          if (canon_closed(offset_fresh(pg, (double)dl)) != canon_closed(whole)) fail("off.grid.permute-paths-in-group", descr_groups(pg, (double)dl));
          stat("off.grid.permutations");
        } while (std::next_permutation(perm.begin(), perm.end()) && ++np < (g_thorough ? 120 : 24));
        // the same paths as one group each, all group orders of the first three
        std::vector<OGroup> sg; for (auto& p : ps) sg.push_back(OGroup{Paths64{p}, jt, et});
        if (canon_closed(offset_fresh(sg, (double)dl)) != canon_closed(whole)) fail("off.grid.groups-vs-one-group", d);
        std::reverse(sg.begin(), sg.end());
        if (canon_closed(offset_fresh(sg, (double)dl)) != canon_closed(whole)) fail("off.grid.permute-groups", d);
        // groups of different kinds in one call, both orders (positive orientation only)
        std::vector<OGroup> mixed = {OGroup{Paths64{place(tri, 500000, 500000)}, (jt + 1) % 4, 0}, OGroup{ps, jt, et}, OGroup{Paths64{place(l4, 600000, 600000)}, (jt + 2) % 4, 2 + (et % 3)}};
        Paths64 m1 = offset_fresh(mixed, (double)dl);
        std::swap(mixed[0], mixed[2]);
        Paths64 m2 = offset_fresh(mixed, (double)dl);
        std::swap(mixed[0], mixed[1]);
        Paths64 m3 = offset_fresh(mixed, (double)dl);
        Paths64 malone;
        for (auto& og : mixed) { std::vector<OGroup> one = {og}; Paths64 r = offset_fresh(one, (double)dl); malone.insert(malone.end(), r.begin(), r.end()); }
        if (canon_closed(m1) != canon_closed(m2) || canon_closed(m1) != canon_closed(m3)) fail("off.grid.permute-mixed-groups", descr_groups(mixed, (double)dl));
        if (canon_closed(m1) != canon_closed(malone)) fail("off.grid.mixed-groups-vs-alone", descr_groups(mixed, (double)dl));
        for (size_t k = 1; k <= ps.size(); ++k) { std::vector<OGroup> pre = {OGroup{Paths64(ps.begin(), ps.begin() + k), jt, et}}; emit_offframe(pre, dl); }
        emit_offframe(mixed, dl);
        stat("off.grid.cases");
      }
}

// ------------------------------------------------------------------------------------------------ RCCHECK

static void rccheck(Rng& g, int iters) {
  for (int it = 0; it < iters; ++it) {
    Rect64 rect(g.range(-120, -10), g.range(-120, -10), g.range(10, 120), g.range(10, 120));
    if (g.chance(3)) rect = Rect64(10, 10, 10, 50);  // empty rectangle
    Paths64 ps;
    int np = (int)g.range(1, 6);
    for (int i = 0; i < np; ++i) {
      int k = (int)(g.next() % 8);
      if (k == 0) ps.push_back(Path64());
      else if (k == 1) ps.push_back(rand_poly(g, (int)g.range(1, 2), 200));
      else if (k == 2) ps.push_back(rect_path(rect.left, rect.top, rect.right, rect.bottom));
      else if (k == 3) { int64_t a = g.range(-200, 200), b = g.range(-200, 200); ps.push_back(rect_path(std::min(a, b), std::min(a, b), std::max(a, b) + 1, std::max(a, b) + 1)); }
      else if (k == 4) ps.push_back(star_poly(g, (int)g.range(3, 12), 20, 250));
      else ps.push_back(rand_poly(g, (int)g.range(3, 10), g.chance(30) ? 60 : 250));
    }
    std::string d = "rect " + S(rect.left) + " " + S(rect.top) + " " + S(rect.right) + " " + S(rect.bottom) + " paths " + S(ps);
    RectClip64 rc(rect);
    Paths64 r1 = rc.Execute(ps);
    bool clean = rc.results_.empty() && rc.start_locs_.empty() && rc.op_container_.empty();
    for (auto& e : rc.edges_) clean = clean && e.empty();
    if (!clean) fail("rc.scratch-not-empty", d);
    Paths64 other = Paths64{rand_poly(g, 5, 250), rand_poly(g, 7, 250)};
    rc.Execute(other);
    Paths64 r2 = rc.Execute(ps);
    if (r1 != r2) fail("rc.repeat-execute", d);
    RectClip64 f(rect);
    if (f.Execute(ps) != r1) fail("rc.fresh-vs-fresh", d);
    Paths64 per;
    for (auto& p : ps) { RectClip64 o(rect); Paths64 r = o.Execute(Paths64{p}); per.insert(per.end(), r.begin(), r.end()); }
    if (per != r1) fail("rc.per-path", d);
    Paths64 rev(ps.rbegin(), ps.rend());
    RectClip64 f2(rect);
    if (canon_closed(f2.Execute(rev)) != canon_closed(r1)) fail("rc.path-order", d);
    stat("rc.cases"); if (!r1.empty()) stat("rc.nonempty_results");
    // lines
    RectClipLines64 rl(rect);
    Paths64 l1 = rl.Execute(ps);
    bool lclean = rl.results_.empty() && rl.start_locs_.empty() && rl.op_container_.empty();
    if (!lclean) fail("rcl.scratch-not-empty", d);
    rl.Execute(other);
    if (rl.Execute(ps) != l1) fail("rcl.repeat-execute", d);
    Paths64 lper;
    for (auto& p : ps) { RectClipLines64 o(rect); Paths64 r = o.Execute(Paths64{p}); lper.insert(lper.end(), r.begin(), r.end()); }
    if (lper != l1) fail("rcl.per-path", d);
    stat("rcl.cases"); if (!l1.empty()) stat("rcl.nonempty_results");
  }
}

int main(int argc, char** argv) {
  Rng g(seed_from_args(argc, argv));
  g_thorough = thorough_from_args(argc, argv);
  const char* only = argc > 3 ? argv[3] : "";
  auto want = [&](const char* s) { return !*only || !strcmp(only, s); };
  tick("start");
  if (want("hist")) { histcheck(g); tick("histcheck"); random_path_histories(g, g_thorough ? 20000 : 800); tick("random_path_histories"); }
  if (want("off")) { offcheck_known(); offcheck_known_c(); offcheck_scanbeam_rounding(); offcheck_observations(); offcheck_grid(); tick("offcheck fixed+grid"); offcheck_random(g, g_thorough ? 30000 : 1500); tick("offcheck_random"); }
  if (want("rc")) { rccheck(g, g_thorough ? 60000 : 3000); tick("rccheck"); }
  stat("failures_total", g_fail);
  flush_stats();
  return 0;
}
