// C10 harness: "no input can crash, hang or corrupt memory".
//
// Every public entry point of the library is called on degenerate, extreme and random inputs inside forked children
// (harness/c10_sandbox.h) under ASan + UBSan + LSan with a per-case watchdog and a heap cap.  The parent classifies
// the child's end and prints
//     F <TAB> crash.<op> | hang.<op> | ub.<op> | leak.<op> | mem.<op> | exc.<op> <TAB> <op, parameters and exact input>
// for every failing case (bisected to a single case), and `# evaluations.<op> n` statistics.
// Allocation-failure clause: for a reduced input set and every k = 1, 2, … until the operation completes untouched, the
// k-th `operator new` of the operation throws std::bad_alloc; it must reach the caller and every object must be
// destructible without sanitizer reports:  F alloc.<op> otherwise, `# evaluations.alloc.<op> n` = injection points.
// Built twice by ./check: without and with -DUSINGZ.  No M/S records (nothing here is judged by a Lean model).
#include "unity.h"
#include "clipper2/clipper.minkowski.h"
#include "clipper2/clipper.export.h"
#include "common.h"
#include "c10_sandbox.h"
#include <chrono>
using namespace vh;

// ------------------------------------------------------------------------------------------------ known findings
// Genuine defects of the unchanged tree.  While a switch is true the *generic* generators avoid the inputs that
// trigger the defect; each defect is still executed once, on a fixed input, and reported under its `kf.` label.

// (1) TopX (clipper.engine.cpp) computes bot.x + (int64_t)nearbyint(dx * (currentY - bot.y)); DoHorizontal calls it with a
//     currentY outside the edge's own y range, so for long nearly horizontal edges the product leaves int64.
//     Generic boolean input above 2^RANDOM_BOOL_BITS is therefore lattice-aligned or local (small figure far away).
static const bool KNOWN_TOPX_OVERFLOW_PRESENT = true;
// (2) CheckSplitOwner recurses without bound (the `//#942` call is not guarded by recursive_split) when a PolyTree is
//     built for self-overlapping rectilinear input: PolyTree operations get no self-overlapping lattice walks.
static const bool KNOWN_CHECKSPLITOWNER_RECURSION_PRESENT = true;
// (3) AddReuseableData of the same container twice makes Execute spin forever: the reuse operation adds each container once.
static const bool KNOWN_REUSE_TWICE_HANG_PRESENT = true;

// (4) clipper.offset.cpp `int d = (int)std::ceil(abs_delta)` (single-point path, join type other than Round): for
//     |delta| >= 2^31 the conversion is undefined (and yields a square of the wrong size): the generic stream keeps
//     |delta| < 2^30 whenever a path collapses to a single point.
static const bool KNOWN_OFFSET_POINT_INT_CAST_PRESENT = false;  // repaired by fix: 610f4f0
// (5) double entry points that scale without a range check: the RectD of RectClip/RectClipLines (ScaleRect), and in the
//     export layer InflatePathsD / InflatePathD / RectClipD / RectClipLinesD (ConvertCPathsDToPaths64, ScaleRect): a
//     coordinate times 10^precision beyond int64 is converted with undefined behaviour instead of being rejected (the
//     PathsD arguments of the C++ API are checked).  The generic stream keeps these entry points' scaled values in range.
static const bool KNOWN_UNCHECKED_D_SCALING_PRESENT = true;
// (6) RamerDouglasPeucker: RDP() takes the path *by value*, one copy per recursive call: quadratic time and memory
//     traffic (20000 points at epsilon 0 take > 10 s under ASan).  The large-input stream keeps RDP inputs small.
static const bool KNOWN_RDP_COPY_PER_CALL_PRESENT = false;  // repaired by fix: edf1133

// (8) after an injected std::bad_alloc the engine leaks memory (no invalid access): AddPaths_ owns its `new Vertex[]` only
//     when it returns (clipper.engine.cpp ~621/713), InsertLocalMinimaIntoAEL holds `new Active` in a local until it is
//     linked into the AEL (~1214), NewOutRec holds `new OutRec` until outrec_list_.push_back succeeds (~1489).  While
//     this is true, injection points whose only symptom is a leak are counted (`alloc.leaking_injection_points.<op>`)
//     and reported once on a fixed input; invalid accesses, UB, hangs and swallowed exceptions are always reported.
static const bool KNOWN_LEAKS_AFTER_BAD_ALLOC_PRESENT = true;
// (9) coordinates of magnitude 2^62 (the documented range; MAX_COORD in the source is 2^61 - 1) make plain coordinate
//     differences overflow int64 (GetDx, CrossProduct, DotProduct, …) as soon as two coordinates differ by 2^63 or more,
//     and already at +-2^61 the TopX product reaches 2^63.  Generic lattice worlds stay within
//     (x extent) * (y extent) / (smallest non-zero y difference) < 2^63.

static bool g_thorough = false;
static double now_s() { return std::chrono::duration<double>(std::chrono::steady_clock::now().time_since_epoch()).count(); }
static double g_t0 = 0;
static void tick(const char* what) { fprintf(stderr, "[C10 %7.2fs] %s\n", now_s() - g_t0, what); }

// ------------------------------------------------------------------------------------------------ cases
enum Op {
  OP_C64_PATHS, OP_C64_TREE, OP_CD_PATHS, OP_CD_TREE, OP_BOOLOP64, OP_BOOLOP64_TREE, OP_BOOLOPD, OP_BOOLOPD_TREE,
  OP_BOOLWRAP64, OP_BOOLWRAPD, OP_C64_REUSE,
  OP_INFLATE64, OP_INFLATED, OP_OFFSET_PATHS, OP_OFFSET_TREE, OP_OFFSET_CALLBACK,
  OP_RECTCLIP64, OP_RECTCLIPLINES64, OP_RECTCLIPD, OP_RECTCLIPLINESD,
  OP_MINKSUM64, OP_MINKDIFF64, OP_MINKSUMD, OP_MINKDIFFD,
  OP_TRIM64, OP_TRIMD, OP_SIMPLIFY64, OP_SIMPLIFYD, OP_RDP64, OP_RDPD, OP_STRIP, OP_TRANSLATE, OP_ELLIPSE, OP_MEASURE,
  OP_X_BOOL64, OP_X_BOOLTREE64, OP_X_BOOLD, OP_X_BOOLTREED, OP_X_INFLATEPATHS64, OP_X_INFLATEPATHSD, OP_X_INFLATEPATH64,
  OP_X_INFLATEPATHD, OP_X_RECTCLIP64, OP_X_RECTCLIPD, OP_X_RECTCLIPLINES64, OP_X_RECTCLIPLINESD, OP_X_MINKSUM64,
  OP_X_MINKDIFF64, OP_X_MISC, N_OPS
};
static const char* OPNAME[N_OPS] = {
  "Clipper64.Execute.paths", "Clipper64.Execute.polytree", "ClipperD.Execute.paths", "ClipperD.Execute.polytree",
  "BooleanOp64", "BooleanOp64.polytree", "BooleanOpD", "BooleanOpD.polytree", "Intersect-Union-Difference-Xor64",
  "Intersect-Union-Difference-XorD", "Clipper64.ReuseableData",
  "InflatePaths64", "InflatePathsD", "ClipperOffset.Execute.paths", "ClipperOffset.Execute.polytree", "ClipperOffset.Execute.deltacallback",
  "RectClip64", "RectClipLines64", "RectClipD", "RectClipLinesD",
  "MinkowskiSum64", "MinkowskiDiff64", "MinkowskiSumD", "MinkowskiDiffD",
  "TrimCollinear64", "TrimCollinearD", "SimplifyPath64", "SimplifyPathD", "RamerDouglasPeucker64", "RamerDouglasPeuckerD",
  "StripDuplicates-StripNearEqual", "TranslatePath", "Ellipse", "Area-IsPositive-PointInPolygon-GetBounds-Length",
  "export.BooleanOp64", "export.BooleanOp_PolyTree64", "export.BooleanOpD", "export.BooleanOp_PolyTreeD", "export.InflatePaths64",
  "export.InflatePathsD", "export.InflatePath64", "export.InflatePathD", "export.RectClip64", "export.RectClipD",
  "export.RectClipLines64", "export.RectClipLinesD", "export.MinkowskiSum64", "export.MinkowskiDiff64", "export.misc"
};

struct Case {
  int op = 0;
  Paths64 A, B, C;          // boolean: subject / clip / open subject;  others: paths (A), pattern (B[0]) …
  int64_t p[8] = {0, 0, 0, 0, 0, 0, 0, 0};   // integer parameters (meaning per operation, see run_case)
  double f[4] = {0, 0, 0, 1};               // real parameters; f[3] = factor turning A/B/C into PathsD for the D entry points
  const char* gen = "";     // generator class (statistics only)
};

static std::string dstr(double d) { char b[40]; snprintf(b, sizeof b, "%.17g", d); return b; }
static std::string describe(const Case& c) {
  std::string s = OPNAME[c.op];
  s += " p=[";
  for (int i = 0; i < 8; ++i) { if (i) s += ","; s += S(c.p[i]); }
  s += "] f=[";
  for (int i = 0; i < 4; ++i) { if (i) s += ","; s += dstr(c.f[i]); }
  s += "] A=" + S(c.A) + " B=" + S(c.B) + " C=" + S(c.C);
#ifdef USINGZ
  // (USINGZ build: z = 1000 * path index + vertex index, derived, not part of the description)
#endif
  return s;
}

// ------------------------------------------------------------------------------------------------ running one case
static volatile uint64_t g_sink = 0;
// reads every vertex (ASan); unsigned arithmetic only
template <class P> static uint64_t bits_of(const P& q) {
  uint64_t a = 0, b = 0;
  static_assert(sizeof(q.x) == 8, "64-bit coordinates");
  memcpy(&a, &q.x, 8); memcpy(&b, &q.y, 8);
  return a * 31u + b;
}
template <class P> static void consume(const std::vector<std::vector<P>>& ps) {
  uint64_t h = 0;
  for (auto& p : ps) for (auto& q : p) h = h * 1099511628211ull + bits_of(q);
  g_sink = g_sink ^ h;
}
template <class P> static void consume(const std::vector<P>& p) {
  uint64_t h = 0;
  for (auto& q : p) h = h * 1099511628211ull + bits_of(q);
  g_sink = g_sink ^ h;
}
static void consume_tree(const PolyPath64& pp, int depth = 0) {
  consume(pp.Polygon());
  g_sink = g_sink ^ (uint64_t)pp.IsHole() ^ (uint64_t)pp.Level();
  for (size_t i = 0; i < pp.Count(); ++i) consume_tree(*pp.Child(i), depth + 1);
}
static void consume_tree(const PolyPathD& pp, int depth = 0) {
  consume(pp.Polygon());
  g_sink = g_sink ^ (uint64_t)pp.IsHole() ^ (uint64_t)pp.Level();
  for (size_t i = 0; i < pp.Count(); ++i) consume_tree(*pp.Child(i), depth + 1);
}
static void consume_d(double d) { uint64_t u; memcpy(&u, &d, 8); g_sink = g_sink ^ u; }

static Paths64 withz(Paths64 ps) {
#ifdef USINGZ
  for (size_t i = 0; i < ps.size(); ++i) for (size_t j = 0; j < ps[i].size(); ++j) ps[i][j].z = (int64_t)(1000 * i + j);
#endif
  return ps;
}
static PathD toD(const Path64& p, double k) {
  PathD r; r.reserve(p.size());
  for (auto& q : p) {
#ifdef USINGZ
    r.emplace_back((double)q.x * k, (double)q.y * k, q.z);
#else
    r.emplace_back((double)q.x * k, (double)q.y * k);
#endif
  }
  return r;
}
static PathsD toD(const Paths64& ps, double k) { PathsD r; for (auto& p : ps) r.push_back(toD(p, k)); return r; }
static const Path64& first_or_empty(const Paths64& ps) { static const Path64 e; return ps.empty() ? e : ps[0]; }

#ifdef USINGZ
static void zcb64(const Point64& a, const Point64& b, const Point64& c, const Point64& d, Point64& pt) { pt.z = a.z ^ b.z ^ c.z ^ d.z ^ 0x5a; }
static void zcbD(const PointD& a, const PointD& b, const PointD& c, const PointD& d, PointD& pt) { pt.z = a.z ^ b.z ^ c.z ^ d.z ^ 0x5a; }
#endif

// client-side marshalling for the export layer: exact-size blocks so that ASan sees any access beyond the stated length
constexpr int XDIM = EXPORT_VERTEX_DIMENSIONALITY;
template <class T> static void put_vertex(T*& w, const Point64& q, double k) {
  *w++ = (T)((double)q.x * k) ; *w++ = (T)((double)q.y * k);
  (void)k;
}
template <class T> static T* mk_cpaths(const Paths64& ps, double k) {
  size_t len = 2;
  for (auto& p : ps) len += 2 + p.size() * XDIM;
  T* a = new T[len]; T* w = a;
  *w++ = (T)len; *w++ = (T)ps.size();
  for (size_t i = 0; i < ps.size(); ++i) {
    *w++ = (T)ps[i].size(); *w++ = 0;
    for (size_t j = 0; j < ps[i].size(); ++j) {
      const Point64& q = ps[i][j];
      if (std::is_same<T, int64_t>::value) { *w++ = (T)q.x; *w++ = (T)q.y; } else { *w++ = (T)((double)q.x * k); *w++ = (T)((double)q.y * k); }
      if (XDIM == 3) { int64_t z = (int64_t)(1000 * i + j); T cell; memcpy(&cell, &z, 8); *w++ = cell; }
    }
  }
  return a;
}
template <class T> static T* mk_cpath(const Path64& p, double k) {
  T* a = new T[2 + p.size() * XDIM]; T* w = a;
  *w++ = (T)p.size(); *w++ = 0;
  for (size_t j = 0; j < p.size(); ++j) {
    if (std::is_same<T, int64_t>::value) { *w++ = (T)p[j].x; *w++ = (T)p[j].y; } else { *w++ = (T)((double)p[j].x * k); *w++ = (T)((double)p[j].y * k); }
    if (XDIM == 3) { int64_t z = (int64_t)j; T cell; memcpy(&cell, &z, 8); *w++ = cell; }
  }
  return a;
}
// owner of client-side and returned arrays (freed even when an injected bad_alloc unwinds)
template <class T> struct Arr {
  T* p = nullptr; bool from_lib = false;
  Arr() {}
  explicit Arr(T* q) : p(q) {}
  Arr(const Arr&) = delete; Arr& operator=(const Arr&) = delete;
  ~Arr() { reset(); }
  void reset();
  // read every cell the header announces (ASan checks that the block is that long)
  void scan() const {
    if (!p) return;
    double n = (double)p[0];
    if (!(n >= 2 && n < 5e7)) { g_sink = g_sink ^ 1u; return; }
    uint64_t h = 0; size_t len = (size_t)n;
    for (size_t i = 0; i < len; ++i) { T v = p[i]; uint64_t u; memcpy(&u, &v, 8); h ^= u; }
    g_sink = g_sink ^ h;
  }
};
template <> void Arr<int64_t>::reset() { if (p) { if (from_lib) DisposeArray64(p); else delete[] p; } p = nullptr; }
template <> void Arr<double>::reset() { if (p) { if (from_lib) DisposeArrayD(p); else delete[] p; } p = nullptr; }

static double delta_cb_value(double base, const Path64& path, const PathD& norms, size_t curr, size_t prev) {
  // reads what the callback is given (ASan: norms and path must be that long) and varies the delta along the path
  double s = 0;
  if (curr < path.size() && prev < path.size()) s = (double)((path[curr].x ^ path[prev].y) & 3);
  if (curr < norms.size()) s += norms[curr].x * 0;
  return base * (1.0 + 0.25 * s);
}

// Runs the operation of `c` on the real library.  Library exceptions of type Clipper2Exception are documented behaviour
// (range / precision errors of the double entry points) and are swallowed here; everything else propagates.
static void run_case(const Case& c) {
  const ClipType ct = (ClipType)c.p[0]; const FillRule fr = (FillRule)c.p[1];
  const int prec = (int)c.p[4];
  const double k = c.f[3];
  try {
    switch (c.op) {
      case OP_C64_PATHS: case OP_C64_TREE: {
        Paths64 a = withz(c.A), b = withz(c.B), o = withz(c.C);
        Clipper64 clp; Paths64 sol, solo; PolyTree64 tree;
        sbx::Armer arm;
        clp.PreserveCollinear(c.p[2] != 0); clp.ReverseSolution(c.p[3] != 0);
#ifdef USINGZ
        if (c.p[5] & 1) clp.SetZCallback(zcb64);
#endif
        clp.AddSubject(a); if (!o.empty()) clp.AddOpenSubject(o); clp.AddClip(b);
        if (c.op == OP_C64_PATHS) {
          if (c.p[5] & 2) clp.Execute(ct, fr, sol); else clp.Execute(ct, fr, sol, solo);
          consume(sol); consume(solo);
          if (c.p[5] & 4) { clp.Execute(ct, fr, sol, solo); consume(sol); }          // second execution of the same object
        } else {
          if (c.p[5] & 2) clp.Execute(ct, fr, tree); else clp.Execute(ct, fr, tree, solo);
          consume_tree(tree); consume(solo);
          Paths64 flat = PolyTreeToPaths64(tree); consume(flat);
          consume_d(tree.Area()); g_sink = g_sink ^ (uint64_t)CheckPolytreeFullyContainsChildren(tree);
          if (c.p[5] & 4) { clp.Execute(ct, fr, tree, solo); consume_tree(tree); }
        }
        break;
      }
      case OP_CD_PATHS: case OP_CD_TREE: {
        PathsD a = toD(withz(c.A), k), b = toD(withz(c.B), k), o = toD(withz(c.C), k);
        ClipperD clp(prec); PathsD sol, solo; PolyTreeD tree;
        sbx::Armer arm;
        clp.PreserveCollinear(c.p[2] != 0); clp.ReverseSolution(c.p[3] != 0);
#ifdef USINGZ
        if (c.p[5] & 1) clp.SetZCallback(zcbD);
#endif
        clp.AddSubject(a); if (!o.empty()) clp.AddOpenSubject(o); clp.AddClip(b);
        if (c.op == OP_CD_PATHS) {
          if (c.p[5] & 2) clp.Execute(ct, fr, sol); else clp.Execute(ct, fr, sol, solo);
          consume(sol); consume(solo);
        } else {
          if (c.p[5] & 2) clp.Execute(ct, fr, tree); else clp.Execute(ct, fr, tree, solo);
          consume_tree(tree); consume(solo);
          PathsD flat = PolyTreeToPathsD(tree); consume(flat);
          consume_d(tree.Area());
        }
        break;
      }
      case OP_BOOLOP64: { sbx::Armer arm; Paths64 r = BooleanOp(ct, fr, c.A, c.B); consume(r); break; }
      case OP_BOOLOP64_TREE: { PolyTree64 t; sbx::Armer arm; BooleanOp(ct, fr, c.A, c.B, t); consume_tree(t); Paths64 fl = PolyTreeToPaths64(t); consume(fl); break; }
      case OP_BOOLOPD: { PathsD a = toD(c.A, k), b = toD(c.B, k); sbx::Armer arm; PathsD r = BooleanOp(ct, fr, a, b, prec); consume(r); break; }
      case OP_BOOLOPD_TREE: { PathsD a = toD(c.A, k), b = toD(c.B, k); PolyTreeD t; sbx::Armer arm; BooleanOp(ct, fr, a, b, t, prec); consume_tree(t); break; }
      case OP_BOOLWRAP64: {
        sbx::Armer arm;
        consume(Intersect(c.A, c.B, fr)); consume(Union(c.A, c.B, fr)); consume(Union(c.A, fr));
        consume(Difference(c.A, c.B, fr)); consume(Xor(c.A, c.B, fr));
        break;
      }
      case OP_BOOLWRAPD: {
        PathsD a = toD(c.A, k), b = toD(c.B, k);
        sbx::Armer arm;
        consume(Intersect(a, b, fr, prec)); consume(Union(a, b, fr, prec)); consume(Union(a, fr, prec));
        consume(Difference(a, b, fr, prec)); consume(Xor(a, b, fr, prec));
        break;
      }
      case OP_C64_REUSE: {
        ReuseableDataContainer64 ra, rb, ro; Clipper64 c1, c2; Paths64 s1, s2, so; PolyTree64 t;
        sbx::Armer arm;
        ra.AddPaths(c.A, PathType::Subject, false); rb.AddPaths(c.B, PathType::Clip, false); ro.AddPaths(c.C, PathType::Subject, true);
        c1.AddReuseableData(ra); c1.AddReuseableData(rb); c1.AddReuseableData(ro);
        c2.AddReuseableData(rb); c2.AddReuseableData(ra);
        if (!KNOWN_REUSE_TWICE_HANG_PRESENT || c.p[6] == 1) c2.AddReuseableData(ra);      // p[6] = 1: the known-finding witness
        c1.Execute(ct, fr, s1, so); consume(s1); consume(so);
        c2.Execute(ct, fr, t); consume_tree(t);
        c1.Execute(ClipType::Xor, fr, s2); consume(s2);
        c1.Clear(); c1.AddSubject(c.A); c1.AddReuseableData(rb); c1.Execute(ct, fr, s2); consume(s2);
        ra.Clear(); ra.AddPaths(c.B, PathType::Subject, false);
        break;
      }
      case OP_INFLATE64: { sbx::Armer arm; consume(InflatePaths(c.A, c.f[0], (JoinType)c.p[0], (EndType)c.p[1], c.f[1], c.f[2])); break; }
      case OP_INFLATED: { PathsD a = toD(c.A, k); sbx::Armer arm; consume(InflatePaths(a, c.f[0], (JoinType)c.p[0], (EndType)c.p[1], c.f[1], prec, c.f[2])); break; }
      case OP_OFFSET_PATHS: case OP_OFFSET_TREE: case OP_OFFSET_CALLBACK: {
        Paths64 a = withz(c.A), b = withz(c.B);
        ClipperOffset co(c.f[1], c.f[2], c.p[2] != 0, c.p[3] != 0); Paths64 sol; PolyTree64 tree;
        sbx::Armer arm;
#ifdef USINGZ
        if (c.p[5] & 1) co.SetZCallback(zcb64);
#endif
        co.AddPaths(a, (JoinType)c.p[0], (EndType)c.p[1]);
        if (c.p[5] & 8) for (auto& p : b) co.AddPath(p, (JoinType)c.p[6], (EndType)c.p[7]);      // one group per path
        else if (!b.empty()) co.AddPaths(b, (JoinType)c.p[6], (EndType)c.p[7]);
        if (c.op == OP_OFFSET_PATHS) { co.Execute(c.f[0], sol); consume(sol); if (c.p[5] & 4) { co.Execute(-c.f[0], sol); consume(sol); } }
        else if (c.op == OP_OFFSET_TREE) {
          if (c.p[5] & 4) {      // tree overload first, into a tree that no longer exists when the paths overload runs on the same object
            PolyTree64* t = new PolyTree64(); co.Execute(c.f[0], *t); consume_tree(*t); delete t;
            co.Execute(c.f[0], sol); consume(sol);
          }
          co.Execute(c.f[0], tree); consume_tree(tree);
        }
        else {
          double base = c.f[0]; bool vary = c.p[4] != 0;      // p[4] = 0: the callback returns the same delta everywhere
          co.Execute([base, vary](const Path64& path, const PathD& norms, size_t curr, size_t prev) { double v = delta_cb_value(base, path, norms, curr, prev); return vary ? v : base; }, sol);
          consume(sol);
        }
        g_sink = g_sink ^ (uint64_t)co.ErrorCode();
        break;
      }
      case OP_RECTCLIP64: case OP_RECTCLIPLINES64: {
        Rect64 r(c.p[0], c.p[1], c.p[2], c.p[3]); Paths64 a = withz(c.A);
        sbx::Armer arm;
        if (c.op == OP_RECTCLIP64) { consume(RectClip(r, a)); consume(RectClip(r, first_or_empty(a))); }
        else { consume(RectClipLines(r, a)); consume(RectClipLines(r, first_or_empty(a))); }
        break;
      }
      case OP_RECTCLIPD: case OP_RECTCLIPLINESD: {
        RectD r((double)c.p[0] * k, (double)c.p[1] * k, (double)c.p[2] * k, (double)c.p[3] * k); PathsD a = toD(c.A, k);
        sbx::Armer arm;
        if (c.op == OP_RECTCLIPD) { consume(RectClip(r, a, prec)); if (!a.empty()) consume(RectClip(r, a[0], prec)); }
        else { consume(RectClipLines(r, a, prec)); if (!a.empty()) consume(RectClipLines(r, a[0], prec)); }
        break;
      }
      case OP_MINKSUM64: { sbx::Armer arm; consume(MinkowskiSum(first_or_empty(c.B), first_or_empty(c.A), c.p[0] != 0)); break; }
      case OP_MINKDIFF64: { sbx::Armer arm; consume(MinkowskiDiff(first_or_empty(c.B), first_or_empty(c.A), c.p[0] != 0)); break; }
      case OP_MINKSUMD: { PathD pat = toD(first_or_empty(c.B), k), pth = toD(first_or_empty(c.A), k); sbx::Armer arm; consume(MinkowskiSum(pat, pth, c.p[0] != 0, prec)); break; }
      case OP_MINKDIFFD: { PathD pat = toD(first_or_empty(c.B), k), pth = toD(first_or_empty(c.A), k); sbx::Armer arm; consume(MinkowskiDiff(pat, pth, c.p[0] != 0, prec)); break; }
      case OP_TRIM64: { sbx::Armer arm; for (auto& p : c.A) { consume(TrimCollinear(p, false)); consume(TrimCollinear(p, true)); } break; }
      case OP_TRIMD: { PathsD a = toD(c.A, k); sbx::Armer arm; for (auto& p : a) { consume(TrimCollinear(p, prec, false)); consume(TrimCollinear(p, prec, true)); } break; }
      case OP_SIMPLIFY64: {
        sbx::Armer arm;
        for (auto& p : c.A) { consume(SimplifyPath(p, c.f[0], true)); consume(SimplifyPath(p, c.f[0], false)); }
        consume(SimplifyPaths(c.A, c.f[0], c.p[0] != 0));
        break;
      }
      case OP_SIMPLIFYD: { PathsD a = toD(c.A, k); sbx::Armer arm; for (auto& p : a) { consume(SimplifyPath(p, c.f[0], true)); consume(SimplifyPath(p, c.f[0], false)); } consume(SimplifyPaths(a, c.f[0], c.p[0] != 0)); break; }
      case OP_RDP64: { sbx::Armer arm; for (auto& p : c.A) consume(RamerDouglasPeucker(p, c.f[0])); consume(RamerDouglasPeucker(c.A, c.f[0])); break; }
      case OP_RDPD: { PathsD a = toD(c.A, k); sbx::Armer arm; for (auto& p : a) consume(RamerDouglasPeucker(p, c.f[0])); consume(RamerDouglasPeucker(a, c.f[0])); break; }
      case OP_STRIP: {
        Paths64 a = c.A, b = c.A; PathsD d = toD(c.A, k);
        sbx::Armer arm;
        StripDuplicates(a, true); consume(a); StripDuplicates(b, false); consume(b);
        for (auto& p : b) { Path64 q = p; StripDuplicates(q, c.p[0] != 0); consume(q); }
        consume(StripNearEqual(c.A, c.f[0], true)); consume(StripNearEqual(c.A, c.f[0], false));
        consume(StripNearEqual(d, c.f[0], c.p[0] != 0));
        for (auto& p : c.A) consume(StripNearEqual(p, c.f[0], c.p[0] != 0));
        break;
      }
      case OP_TRANSLATE: {
        PathsD d = toD(c.A, k);
        sbx::Armer arm;
        consume(TranslatePaths(c.A, c.p[0], c.p[1])); consume(TranslatePaths(d, (double)c.p[0] * k, (double)c.p[1] * k));
        for (auto& p : c.A) consume(TranslatePath(p, c.p[0], c.p[1]));
        for (auto& p : d) consume(TranslatePath(p, (double)c.p[0], (double)c.p[1]));
        break;
      }
      case OP_ELLIPSE: {
        sbx::Armer arm;
        consume(Ellipse(Point64(c.p[0], c.p[1]), c.f[0], c.f[1], (size_t)c.p[2]));
        consume(Ellipse(PointD((double)c.p[0] * k, (double)c.p[1] * k), c.f[0], c.f[1], (size_t)c.p[2]));
        if (c.p[3]) {   // rectangle form (Width/Height/MidPoint of the rectangle): only for rectangles whose sums are in range
          Rect64 r(c.p[4], c.p[5], c.p[6], c.p[7]);
          consume(Ellipse(r, (size_t)c.p[2]));
          RectD rd((double)c.p[4], (double)c.p[5], (double)c.p[6], (double)c.p[7]);
          consume(Ellipse(rd, (size_t)c.p[2]));
        }
        break;
      }
      case OP_MEASURE: {
        PathsD d = toD(c.A, k); Point64 q(c.p[0], c.p[1]); PointD qd((double)c.p[0] * k, (double)c.p[1] * k);
        // stream output (outside the injection scope: iostreams swallow exceptions by design)
        { std::ostringstream os; os << c.A << d; g_sink = g_sink ^ (uint64_t)os.str().size(); }
        sbx::Armer arm;
        consume_d(Area(c.A)); consume_d(Area(d));
        Rect64 bb = GetBounds(c.A); g_sink = g_sink ^ (uint64_t)bb.left ^ (uint64_t)bb.top ^ (uint64_t)bb.right ^ (uint64_t)bb.bottom ^ (uint64_t)bb.IsEmpty();
        RectD bd = GetBounds(d); consume_d(bd.left); consume_d(bd.bottom);
        for (auto& p : c.A) {
          consume_d(Area(p)); g_sink = g_sink ^ (uint64_t)IsPositive(p) ^ (uint64_t)PointInPolygon(q, p);
          Rect64 b1 = GetBounds(p); g_sink = g_sink ^ (uint64_t)b1.left ^ (uint64_t)b1.bottom;
          consume_d(Length(p, true)); consume_d(Length(p, false));
          if (p.size() >= 3) g_sink = g_sink ^ (uint64_t)NearCollinear(p[0], p[1], p[2], 0.01) ^ (uint64_t)IsCollinear(p[0], p[1], p[2]);
          if (p.size() >= 2) { consume_d(Distance(p[0], p[1])); consume_d(DistanceSqr(p[0], p[1])); }
        }
        for (auto& p : d) {
          consume_d(Area(p)); g_sink = g_sink ^ (uint64_t)IsPositive(p) ^ (uint64_t)PointInPolygon(qd, p);
          RectD b1 = GetBounds(p); consume_d(b1.left);
          consume_d(Length(p, true));
        }
        break;
      }
      // ---------------------------------------------------------------------------------------- export layer
      case OP_X_BOOL64: case OP_X_BOOLTREE64: {
        Arr<int64_t> a(c.p[6] & 1 ? nullptr : mk_cpaths<int64_t>(c.A, 1)), b(c.p[6] & 2 ? nullptr : mk_cpaths<int64_t>(c.B, 1)), o(c.p[6] & 4 ? nullptr : mk_cpaths<int64_t>(c.C, 1));
        Arr<int64_t> sol, solo; sol.from_lib = solo.from_lib = true;
#ifdef USINGZ
        SetZCallback64((c.p[5] & 1) ? (DLLZCallback64)zcb64 : nullptr);
#endif
        sbx::Armer arm;
        int rc = (c.op == OP_X_BOOL64)
          ? BooleanOp64((uint8_t)c.p[0], (uint8_t)c.p[1], a.p, o.p, b.p, sol.p, solo.p, c.p[2] != 0, c.p[3] != 0)
          : BooleanOp_PolyTree64((uint8_t)c.p[0], (uint8_t)c.p[1], a.p, o.p, b.p, sol.p, solo.p, c.p[2] != 0, c.p[3] != 0);
        g_sink = g_sink ^ (uint64_t)rc; sol.scan(); solo.scan();
        break;
      }
      case OP_X_BOOLD: case OP_X_BOOLTREED: {
        Arr<double> a(c.p[6] & 1 ? nullptr : mk_cpaths<double>(c.A, k)), b(c.p[6] & 2 ? nullptr : mk_cpaths<double>(c.B, k)), o(c.p[6] & 4 ? nullptr : mk_cpaths<double>(c.C, k));
        Arr<double> sol, solo; sol.from_lib = solo.from_lib = true;
#ifdef USINGZ
        SetZCallbackD((c.p[5] & 1) ? (DLLZCallbackD)zcbD : nullptr);
#endif
        sbx::Armer arm;
        int rc = (c.op == OP_X_BOOLD)
          ? BooleanOpD((uint8_t)c.p[0], (uint8_t)c.p[1], a.p, o.p, b.p, sol.p, solo.p, prec, c.p[2] != 0, c.p[3] != 0)
          : BooleanOp_PolyTreeD((uint8_t)c.p[0], (uint8_t)c.p[1], a.p, o.p, b.p, sol.p, solo.p, prec, c.p[2] != 0, c.p[3] != 0);
        g_sink = g_sink ^ (uint64_t)rc; sol.scan(); solo.scan();
        break;
      }
      case OP_X_INFLATEPATHS64: {
        Arr<int64_t> a(c.p[6] & 1 ? nullptr : mk_cpaths<int64_t>(c.A, 1)); Arr<int64_t> r; r.from_lib = true;
        sbx::Armer arm;
        r.p = InflatePaths64(a.p, c.f[0], (uint8_t)c.p[0], (uint8_t)c.p[1], c.f[1], c.f[2], c.p[3] != 0); r.scan();
        break;
      }
      case OP_X_INFLATEPATHSD: {
        Arr<double> a(c.p[6] & 1 ? nullptr : mk_cpaths<double>(c.A, k)); Arr<double> r; r.from_lib = true;
        sbx::Armer arm;
        r.p = InflatePathsD(a.p, c.f[0], (uint8_t)c.p[0], (uint8_t)c.p[1], prec, c.f[1], c.f[2], c.p[3] != 0); r.scan();
        break;
      }
      case OP_X_INFLATEPATH64: {
        Arr<int64_t> a(c.p[6] & 1 ? nullptr : mk_cpath<int64_t>(first_or_empty(c.A), 1)); Arr<int64_t> r; r.from_lib = true;
        sbx::Armer arm;
        r.p = InflatePath64(a.p, c.f[0], (uint8_t)c.p[0], (uint8_t)c.p[1], c.f[1], c.f[2], c.p[3] != 0); r.scan();
        break;
      }
      case OP_X_INFLATEPATHD: {
        Arr<double> a(c.p[6] & 1 ? nullptr : mk_cpath<double>(first_or_empty(c.A), k)); Arr<double> r; r.from_lib = true;
        sbx::Armer arm;
        r.p = InflatePathD(a.p, c.f[0], (uint8_t)c.p[0], (uint8_t)c.p[1], prec, c.f[1], c.f[2], c.p[3] != 0); r.scan();
        break;
      }
      case OP_X_RECTCLIP64: case OP_X_RECTCLIPLINES64: {
        CRect64 r{c.p[0], c.p[1], c.p[2], c.p[3]};
        Arr<int64_t> a(c.p[6] & 1 ? nullptr : mk_cpaths<int64_t>(c.A, 1)); Arr<int64_t> res; res.from_lib = true;
        sbx::Armer arm;
        res.p = (c.op == OP_X_RECTCLIP64) ? RectClip64(r, a.p) : RectClipLines64(r, a.p); res.scan();
        break;
      }
      case OP_X_RECTCLIPD: case OP_X_RECTCLIPLINESD: {
        CRectD r{(double)c.p[0] * k, (double)c.p[1] * k, (double)c.p[2] * k, (double)c.p[3] * k};
        Arr<double> a(c.p[6] & 1 ? nullptr : mk_cpaths<double>(c.A, k)); Arr<double> res; res.from_lib = true;
        sbx::Armer arm;
        res.p = (c.op == OP_X_RECTCLIPD) ? RectClipD(r, a.p, prec) : RectClipLinesD(r, a.p, prec); res.scan();
        break;
      }
      case OP_X_MINKSUM64: case OP_X_MINKDIFF64: {
        Arr<int64_t> pat(c.p[6] & 1 ? nullptr : mk_cpath<int64_t>(first_or_empty(c.B), 1)), pth(c.p[6] & 2 ? nullptr : mk_cpath<int64_t>(first_or_empty(c.A), 1));
        Arr<int64_t> res; res.from_lib = true;
        sbx::Armer arm;
        res.p = (c.op == OP_X_MINKSUM64) ? MinkowskiSum64(pat.p, pth.p, c.p[0] != 0) : MinkowskiDiff64(pat.p, pth.p, c.p[0] != 0); res.scan();
        break;
      }
      case OP_X_MISC: {
        sbx::Armer arm;
        g_sink = g_sink ^ (uint64_t)strlen(Version());
        int64_t* n64 = nullptr; DisposeArray64(n64); double* nd = nullptr; DisposeArrayD(nd);
#ifdef USINGZ
        SetZCallback64(c.p[0] ? (DLLZCallback64)zcb64 : nullptr);
        SetZCallbackD(c.p[1] ? (DLLZCallbackD)zcbD : nullptr);
#endif
        break;
      }
      default: break;
    }
  } catch (const Clipper2Exception&) {
    // documented: range / precision errors of the double entry points
  }
}

// ------------------------------------------------------------------------------------------------ coordinate worlds
// A world fixes where coordinates come from:  base + k * 2^m + jitter,  k in [-K, K], jitter in [-jit, jit].
// Every world satisfies |base| + K * 2^m + jit <= limit (checked with 128-bit arithmetic at start-up), so no generator
// arithmetic can overflow.
struct World { const char* name; int64_t ox, oy; int m; int64_t K; int64_t jit; };
static const int64_t P62 = (int64_t)1 << 62, P61 = (int64_t)1 << 61, P60 = (int64_t)1 << 60, P50 = (int64_t)1 << 50, P40 = (int64_t)1 << 40, P29 = (int64_t)1 << 29;

static int64_t wcoord(Rng& g, const World& w, bool y) {
  int64_t v = (y ? w.oy : w.ox) + g.range(-w.K, w.K) * ((int64_t)1 << w.m);
  if (w.jit) v += g.range(-w.jit, w.jit);
  return v;
}
static Point64 wpt(Rng& g, const World& w) { int64_t x = wcoord(g, w, false); return Point64(x, wcoord(g, w, true)); }
static int64_t world_extent(const World& w) { return w.K * ((int64_t)1 << w.m) + w.jit; }   // half-width of the figure
static bool world_ok(const World& w, int64_t limit) {
  __int128 e = (__int128)w.K * ((__int128)1 << w.m) + w.jit;
  __int128 ax = w.ox < 0 ? -(__int128)w.ox : w.ox, ay = w.oy < 0 ? -(__int128)w.oy : w.oy;
  return w.m >= 0 && w.m < 63 && w.K >= 0 && ax + e <= limit && ay + e <= limit;
}

// boolean clipping: up to 2^62.  `RANDOM_BOOL_BITS`: largest magnitude at which *general* random input (arbitrary slopes)
// is generated while known finding (1) is present; above it only lattice-aligned and local worlds are used.
static const int RANDOM_BOOL_BITS = 30;
static std::vector<World> bool_worlds() {
  std::vector<World> w = {
    {"tiny", 0, 0, 0, 3, 0}, {"tiny", 0, 0, 0, 3, 0}, {"small", 0, 0, 0, 40, 0}, {"medium", 0, 0, 0, 1000000, 0},
    {"lattice8", 0, 0, 3, 6, 0}, {"lattice8.jitter", 0, 0, 3, 6, 1}, {"lattice2^20", 0, 0, 20, 8, 0}, {"lattice2^20.jitter", 0, 0, 20, 8, 2},
    {"random2^29", 0, 0, 0, P29, 0}, {"random2^30", 0, 0, 0, (int64_t)1 << RANDOM_BOOL_BITS, 0},
    {"lattice2^40", 0, 0, 40, 8, 0}, {"lattice2^50", 0, 0, 50, 4, 0}, {"lattice2^56", 0, 0, 56, 4, 0}, {"lattice2^58", 0, 0, 58, 2, 0},
    {"lattice2^59", 0, 0, 59, 1, 0}, {"lattice2^60", 0, 0, 60, 1, 0},
    {"local2^40", P40, -P40, 0, 1000, 0}, {"local2^50", -P50, P50, 0, 100000, 0}, {"local2^60", P60, P60, 0, 50, 0},
    {"local2^61", -P61, P61, 0, 1000, 0}, {"local2^61.lattice", P61, -P61, 20, 8, 0},
  };
  if (!KNOWN_TOPX_OVERFLOW_PRESENT) {
    w.push_back({"random2^40", 0, 0, 0, P40, 0}); w.push_back({"random2^50", 0, 0, 0, P50, 0}); w.push_back({"random2^61", 0, 0, 0, P61, 0});
  }
  return w;
}
// everything else: up to 2^40
static std::vector<World> util_worlds() {
  return {
    {"tiny", 0, 0, 0, 3, 0}, {"tiny", 0, 0, 0, 3, 0}, {"small", 0, 0, 0, 40, 0}, {"medium", 0, 0, 0, 1000000, 0},
    {"lattice8.jitter", 0, 0, 3, 6, 1}, {"random2^29", 0, 0, 0, P29, 0}, {"random2^35", 0, 0, 0, (int64_t)1 << 35, 0},
    {"random2^40", 0, 0, 0, P40, 0}, {"lattice2^36", 0, 0, 36, 16, 0}, {"local2^40", P40 - 1000, -(P40 - 1000), 0, 1000, 0},
    {"local2^40.b", -(P40 - 100000), -(P40 - 100000), 0, 100000, 0},
  };
}

// ------------------------------------------------------------------------------------------------ shapes
enum Shape { SH_EMPTY, SH_ONE, SH_TWO, SH_ALLEQUAL, SH_SPIKE, SH_COLLINEAR, SH_RANDOM, SH_DIRTY, SH_RECT, SH_WALK, SH_CLOSED_DUP, SH_BOWTIE, SH_STAR, N_SHAPES };
static Path64 gen_shape(Rng& g, const World& w, int kind) {
  Path64 p;
  switch (kind) {
    case SH_EMPTY: break;
    case SH_ONE: p.push_back(wpt(g, w)); break;
    case SH_TWO: p.push_back(wpt(g, w)); p.push_back(g.chance(15) ? p[0] : wpt(g, w)); break;
    case SH_ALLEQUAL: { Point64 a = wpt(g, w); int n = (int)g.range(2, 6); for (int i = 0; i < n; ++i) p.push_back(a); break; }
    case SH_SPIKE: {
      Point64 a = wpt(g, w), b = wpt(g, w);
      p = Path64{a, b, a}; if (g.coin()) p.push_back(b); if (g.chance(30)) { p.push_back(wpt(g, w)); p.push_back(a); }
      break;
    }
    case SH_COLLINEAR: {   // points of one lattice line through the world's centre, in random order, with repeats
      int64_t dx = g.range(-1, 1), dy = g.range(-1, 1); int n = (int)g.range(3, 7);
      for (int i = 0; i < n; ++i) { int64_t t = g.range(-w.K, w.K); p.emplace_back(w.ox + t * dx * ((int64_t)1 << w.m), w.oy + t * dy * ((int64_t)1 << w.m)); }
      break;
    }
    case SH_RANDOM: { int n = (int)g.range(3, 9); for (int i = 0; i < n; ++i) p.push_back(wpt(g, w)); break; }
    case SH_DIRTY: {       // polygon with duplicate points and spikes sprinkled in
      int n = (int)g.range(3, 8);
      for (int i = 0; i < n; ++i) {
        Point64 a = wpt(g, w); p.push_back(a);
        if (g.chance(25)) p.push_back(a);
        if (g.chance(15) && p.size() >= 2) p.push_back(p[p.size() - 2]);
        if (g.chance(10) && p.size() >= 3) { Point64 q = p[p.size() - 3]; p.push_back(q); }
      }
      break;
    }
    case SH_RECT: { Point64 a = wpt(g, w), b = wpt(g, w); p = Path64{a, Point64(b.x, a.y), b, Point64(a.x, b.y)}; if (g.coin()) std::reverse(p.begin(), p.end()); break; }
    case SH_WALK: {        // rectilinear walk closed by an L-shaped return: overlapping edges, slits, spikes
      int n = (int)g.range(2, 5); Point64 a = wpt(g, w); p.push_back(a);
      int64_t x = a.x, y = a.y;
      for (int i = 0; i < n; ++i) { x = wcoord(g, w, false); p.emplace_back(x, y); y = wcoord(g, w, true); p.emplace_back(x, y); }
      p.emplace_back(a.x, y);
      break;
    }
    case SH_CLOSED_DUP: { int n = (int)g.range(3, 7); for (int i = 0; i < n; ++i) p.push_back(wpt(g, w)); p.push_back(p[0]); if (g.chance(30)) p.push_back(p[0]); break; }
    case SH_BOWTIE: { Point64 a = wpt(g, w), b = wpt(g, w); p = Path64{a, b, Point64(a.x, b.y), Point64(b.x, a.y)}; break; }
    default: {             // star-shaped: random points sorted by angle around the world's centre
      int n = (int)g.range(4, 12); std::vector<std::pair<double, Point64>> v;
      for (int i = 0; i < n; ++i) { Point64 q = wpt(g, w); v.push_back({std::atan2((double)(q.y - w.oy), (double)(q.x - w.ox)), q}); }
      std::sort(v.begin(), v.end(), [](const std::pair<double, Point64>& a, const std::pair<double, Point64>& b) { return a.first < b.first; });
      for (auto& e : v) p.push_back(e.second);
      if (g.coin()) std::reverse(p.begin(), p.end());
    }
  }
  return p;
}
// a path set: 0..maxn paths, degenerate shapes over-represented, coincident copies; `no_walk` removes SH_WALK (known finding 2)
static Paths64 gen_paths(Rng& g, const World& w, int maxn, bool no_walk = false) {
  Paths64 ps;
  int n = g.chance(8) ? 0 : (int)g.range(1, maxn);
  for (int i = 0; i < n; ++i) {
    int kind = g.chance(45) ? (int)g.range(0, SH_COLLINEAR) : (int)g.range(SH_RANDOM, N_SHAPES - 1);
    if (no_walk && kind == SH_WALK) kind = SH_RECT;
    ps.push_back(gen_shape(g, w, kind));
  }
  if (!ps.empty() && g.chance(20)) {          // coincident copy: same / reversed / rotated start
    Path64 c = ps[g.next() % ps.size()];
    int how = (int)g.range(0, 2);
    if (how == 1) std::reverse(c.begin(), c.end());
    if (how == 2 && c.size() > 1) std::rotate(c.begin(), c.begin() + 1, c.end());
    ps.push_back(c);
  }
  return ps;
}

// ------------------------------------------------------------------------------------------------ case generators
static const std::vector<double> MITERS = {2.0, 2.0, 0.0, 1.0, 0.5, -1.0, 1.0001, 3.5, 10.0, 1e9};
static const std::vector<int> PRECS = {2, 0, -2, 4, 8, -8, 1, 3};
static const std::vector<int> BAD_PRECS = {9, -9, 100, -1000, 2147483647, (-2147483647 - 1)};

static Case gen_boolean(Rng& g, int op, const World& w, bool for_tree) {
  Case c; c.op = op; c.gen = w.name;
  bool nw = for_tree && KNOWN_CHECKSPLITOWNER_RECURSION_PRESENT;
  c.A = gen_paths(g, w, 4, nw); c.B = gen_paths(g, w, 3, nw);
  if (g.chance(35)) c.C = gen_paths(g, w, 2);
  if (g.chance(10)) c.B = c.A;                     // clip coincides with subject
  c.p[0] = g.range(0, 4); c.p[1] = g.range(0, 3); c.p[2] = g.coin(); c.p[3] = g.coin(); c.p[5] = g.range(0, 7);
  return c;
}
// D entry points: coordinates are the world's integers times f[3].  The library works on coordinate * 10^precision, so
// the property's magnitude bound (2^40 outside boolean clipping) is applied to the *scaled* values: factor and precision
// are chosen so that the scaled magnitude is at most 2^40, or (entry points that check the range, 10% of the cases) far
// beyond int64 so that the documented range error is exercised.  Scaled magnitudes in between are accepted by the range
// check but lie outside the stated domain (and meet known finding 1), so they are not generated.
static void d_params(Rng& g, Case& c, const World& w, bool allow_out_of_range = true) {
  int64_t ext = std::max<int64_t>(std::max(std::llabs(w.ox), std::llabs(w.oy)) + world_extent(w), 1);
  c.p[4] = g.chance(8) ? g.pick(BAD_PRECS) : g.pick(PRECS);
  double k = g.pick(std::vector<double>{1.0, 1.0, 0.5, 0.01, 0.001, 1e-6, 3.0, 1e3});
  if (c.p[4] >= -8 && c.p[4] <= 8) {
    double scale = std::pow(10.0, (double)c.p[4]);
    const double lim = 1099511627776.0;                                     // 2^40
    if (allow_out_of_range && g.chance(10)) k = 1e22 / scale;               // |scaled| >= 1e22 for every non-zero coordinate: range error
    else if ((double)ext * k * scale > lim) k = lim / ((double)ext * scale);
  }
  c.f[3] = k;
}
// entry points whose scaling is unchecked (known finding 5): never out of range
static void d_params_in_range(Rng& g, Case& c, const World& w) { d_params(g, c, w, !KNOWN_UNCHECKED_D_SCALING_PRESENT); }
static bool collapses_to_point(const Path64& p) {
  if (p.empty()) return false;
  for (auto& q : p) if (!(q == p[0])) return false;
  return true;
}
static double pick_delta(Rng& g, const World& w) {
  double size = (double)std::max<int64_t>(world_extent(w), 1);
  double big = std::min(size, 1e6);
  std::vector<double> ds = {0.0, 0.25, 0.499, 0.5, 1.0, 2.5, 10.0, big / 10, big / 3, big, size / 8, 1e-9, 4.9e-324};
  if (size <= 1e6) { ds.push_back(3 * size); ds.push_back(20 * size); }
  double d = g.pick(ds);
  return g.coin() ? d : -d;
}
static double pick_arctol(Rng& g, double delta) {
  double a = std::fabs(delta);
  std::vector<double> ts = {0.0, 0.0, -1.0, 1e-13, a / 4, a / 50, a / 1000, 2 * a + 1};
  if (a <= 1e5) { ts.push_back(0.25); ts.push_back(5.0); }
  if (a <= 1e7) ts.push_back(a / 1e6);
  return g.pick(ts);
}
static Case gen_offset(Rng& g, int op, const World& w) {
  Case c; c.op = op; c.gen = w.name;
  c.A = gen_paths(g, w, 4);
  if (g.chance(40)) c.B = gen_paths(g, w, 3);
  c.p[0] = g.range(0, 3); c.p[1] = g.range(0, 4); c.p[2] = g.coin(); c.p[3] = g.coin(); c.p[5] = g.range(0, 15);
  c.p[6] = g.range(0, 3); c.p[7] = g.range(0, 4);
  c.f[0] = pick_delta(g, w); c.f[1] = g.pick(MITERS); c.f[2] = pick_arctol(g, c.f[0]);
  // a delta that varies along a long axis-parallel edge produces a long nearly horizontal edge: known finding (1) beyond 2^30
  c.p[4] = (!KNOWN_TOPX_OVERFLOW_PRESENT || std::max(std::llabs(w.ox), std::llabs(w.oy)) + world_extent(w) <= ((int64_t)1 << 30)) ? 1 : 0;
  if (KNOWN_OFFSET_POINT_INT_CAST_PRESENT && std::fabs(c.f[0]) >= 1073741824.0) {
    bool pt = false;
    for (const Paths64* ps : {&c.A, &c.B}) for (auto& p : *ps) pt = pt || collapses_to_point(p);
    if (pt) c.f[0] = c.f[0] < 0 ? -1073741823.0 : 1073741823.0;
  }
  return c;
}
// D offsetting: delta and arc tolerance are both multiplied by 10^precision, so an arc tolerance below the library's
// "use the default" threshold (1e-12) can become effective; the number of arc steps requested is then inherent to the
// request.  Keep tolerance / |delta| >= 1e-6 (at most ~2200 steps per turn) or 0.
static void d_offset_params(Case& c) {
  if (c.f[2] > 0 && c.f[2] < std::fabs(c.f[0]) * 1e-6) c.f[2] = 0;
  if (c.f[2] > 0 && std::fabs(c.f[0]) == 0) c.f[2] = 0;
  if (c.p[4] < -8 || c.p[4] > 8) return;
  // the delta is scaled too: keep |delta| * 10^precision below 2^40 (the domain), and below 2^30 while known finding 4 is
  // present (after scaling and rounding any short path may collapse to a single point)
  double scale = std::pow(10.0, (double)c.p[4]), lim = KNOWN_OFFSET_POINT_INT_CAST_PRESENT ? 1073741823.0 : 1099511627776.0;
  if (std::fabs(c.f[0]) * scale > lim) { double d = lim / scale; c.f[0] = c.f[0] < 0 ? -d : d; if (c.f[2] > 0 && c.f[2] < d * 1e-6) c.f[2] = 0; }
}
static Case gen_rect(Rng& g, int op, const World& w) {
  Case c; c.op = op; c.gen = w.name;
  c.A = gen_paths(g, w, 4);
  int how = (int)g.range(0, 9);
  int64_t l = wcoord(g, w, false), r = wcoord(g, w, false), t = wcoord(g, w, true), b = wcoord(g, w, true);
  if (how <= 4) { if (l > r) std::swap(l, r); if (t > b) std::swap(t, b); }          // proper (possibly degenerate) rectangle
  else if (how == 5) { /* as drawn: possibly inverted */ }
  else if (how == 6) { r = l; }                                                       // zero width
  else if (how == 7) { l = w.ox - world_extent(w); r = w.ox + world_extent(w); t = w.oy - world_extent(w); b = w.oy + world_extent(w); }   // the whole world
  else if (how == 8 && !c.A.empty() && !c.A[0].empty()) {                            // bounds of a path (computed here, not by the library)
    l = r = c.A[0][0].x; t = b = c.A[0][0].y;
    for (auto& q : c.A[0]) { l = std::min(l, q.x); r = std::max(r, q.x); t = std::min(t, q.y); b = std::max(b, q.y); }
  }
  else { if (l < r) std::swap(l, r); }                                                // inverted
  c.p[0] = l; c.p[1] = t; c.p[2] = r; c.p[3] = b;
  return c;
}
static Case gen_mink(Rng& g, int op, const World& w, const World& wp) {
  Case c; c.op = op; c.gen = w.name;
  c.A.push_back(gen_shape(g, w, g.chance(40) ? (int)g.range(0, SH_COLLINEAR) : (int)g.range(SH_RANDOM, N_SHAPES - 1)));
  c.B.push_back(gen_shape(g, wp, g.chance(40) ? (int)g.range(0, SH_COLLINEAR) : (int)g.range(SH_RANDOM, N_SHAPES - 1)));
  if (g.chance(5)) c.A.clear();
  if (g.chance(5)) c.B.clear();
  c.p[0] = g.coin();
  return c;
}
static Case gen_util(Rng& g, int op, const World& w) {
  Case c; c.op = op; c.gen = w.name;
  c.A = gen_paths(g, w, 4);
  double size = (double)std::max<int64_t>(world_extent(w), 1);
  c.p[0] = g.coin();
  c.f[0] = g.pick(std::vector<double>{0.0, 4.9e-324, 1e-9, 0.5, 1.0, 2.5, size / 10, size * 4, 1e100, 1e200, -1.0});
  if (op == OP_TRANSLATE) { c.p[0] = g.pick(std::vector<int64_t>{0, 1, -1, 1000, P40, -P40}); c.p[1] = g.pick(std::vector<int64_t>{0, 7, -P40, P40}); }
  if (op == OP_MEASURE) { c.p[0] = wcoord(g, w, false); c.p[1] = wcoord(g, w, true); if (g.chance(30) && !c.A.empty() && !c.A[0].empty()) { c.p[0] = c.A[0][0].x; c.p[1] = c.A[0][0].y; } }
  if (op == OP_ELLIPSE) {
    c.A.clear();
    c.p[0] = wcoord(g, w, false); c.p[1] = wcoord(g, w, true);
    c.f[0] = g.pick(std::vector<double>{0.0, -1.0, 0.05, 0.3, 1.0, 7.5, 1000.0, 1e6, 1073741824.0});
    c.f[1] = g.pick(std::vector<double>{0.0, -3.0, 0.3, 2.0, 7.5, 1e5});
    c.p[2] = g.pick(std::vector<int64_t>{0, 0, 1, 2, 3, 4, 7, 16, 100, 1000});
    c.p[3] = 1; c.p[4] = wcoord(g, w, false); c.p[5] = wcoord(g, w, true); c.p[6] = wcoord(g, w, false); c.p[7] = wcoord(g, w, true);
    // the rectangle form computes Width(), Height() and MidPoint() in int64: fine for |coord| <= 2^40; its automatic step count
    // grows with the radius, so big rectangles get an explicit step count
    if (std::llabs(c.p[6] - c.p[4]) > ((int64_t)1 << 32) || std::llabs(c.p[7] - c.p[5]) > ((int64_t)1 << 32)) c.p[2] = std::max<int64_t>(c.p[2], 3);
  }
  return c;
}
static Case gen_export(Rng& g, int op, const World& wb, const World& wu) {
  Case c;
  switch (op) {
    case OP_X_BOOL64: case OP_X_BOOLTREE64: case OP_X_BOOLD: case OP_X_BOOLTREED: {
      const World& w = (op == OP_X_BOOL64 || op == OP_X_BOOLTREE64) ? wb : wu;
      c = gen_boolean(g, op, w, op == OP_X_BOOLTREE64 || op == OP_X_BOOLTREED);
      if (g.chance(12)) c.p[0] = g.pick(std::vector<int64_t>{5, 6, 100, 255});
      if (g.chance(12)) c.p[1] = g.pick(std::vector<int64_t>{4, 5, 200, 255});
      d_params(g, c, w);
      break;
    }
    case OP_X_INFLATEPATHS64: case OP_X_INFLATEPATHSD: case OP_X_INFLATEPATH64: case OP_X_INFLATEPATHD: {
      c = gen_offset(g, op, wu); c.B.clear();
      if (g.chance(12)) c.p[0] = g.pick(std::vector<int64_t>{4, 5, 17, 255});
      if (g.chance(12)) c.p[1] = g.pick(std::vector<int64_t>{5, 6, 17, 255});
      d_params_in_range(g, c, wu);
      if (op == OP_X_INFLATEPATHSD || op == OP_X_INFLATEPATHD) d_offset_params(c);
      break;
    }
    case OP_X_RECTCLIP64: case OP_X_RECTCLIPD: case OP_X_RECTCLIPLINES64: case OP_X_RECTCLIPLINESD: c = gen_rect(g, op, wu); d_params_in_range(g, c, wu); break;
    case OP_X_MINKSUM64: case OP_X_MINKDIFF64: c = gen_mink(g, op, wu, wu); break;
    default: c.op = OP_X_MISC; c.p[0] = g.coin(); c.p[1] = g.coin(); break;
  }
  c.op = op;
  c.p[6] = g.chance(10) ? g.range(1, 7) : 0;          // null input arrays
  return c;
}

// ------------------------------------------------------------------------------------------------ drivers
static int WATCHDOG_S = 10;
static long long g_failures = 0;
static const long long MAX_F_RECORDS = 80;

static int guarded(const Case& c) {
  try { run_case(c); return sbx::EX_OK; }
  catch (const std::exception& e) { fprintf(stderr, "C10-SANDBOX: exception escaped: %s\n", e.what()); return sbx::EX_EXC; }
  catch (...) { fprintf(stderr, "C10-SANDBOX: non-standard exception escaped\n"); return sbx::EX_EXC; }
}

struct Fail { size_t idx; sbx::Outcome oc; std::string diag; bool batch_only; bool not_narrowed = false; };
// When (a mutant of) the library fails on a large part of the inputs, narrowing every failing batch down to single cases
// would take hours.  After NARROW_BUDGET failures have been pinned down, a failing batch is reported by the case it
// died in (or its first case, for a leak found at the end) without further child runs; after STOP_BUDGET failures the
// remaining batches of the generic streams are not run at all (the verdict is settled; `skipped.*` statistics say so).
static long long g_fail_found = 0;
static const long long NARROW_BUDGET = 12, STOP_BUDGET = 30;

static void report_fail(const Case& c, const Fail& f, const std::string& prefix = "") {
  vh::stat(std::string("fail.") + sbx::outcome_name(f.oc) + "." + OPNAME[c.op]);
  fprintf(stderr, "[C10] %s%s.%s  %s\n        %s\n", prefix.c_str(), sbx::outcome_name(f.oc), OPNAME[c.op], f.diag.c_str(), describe(c).substr(0, 600).c_str());
  if (++g_failures > MAX_F_RECORDS) { vh::stat("fail.records_suppressed"); return; }
  emitF(prefix + sbx::outcome_name(f.oc) + "." + OPNAME[c.op], describe(c) + (f.not_narrowed ? " (case at which a failing batch ended; not narrowed further: failure budget used up)"
                                                                                : f.batch_only ? " (only when run after the preceding cases of its batch)" : ""));
}

// runs cs[lo, hi) in one child; on failure narrows down to single cases
static void run_range(const std::vector<Case>& cs, size_t lo, size_t hi, std::vector<Fail>& fails, int depth = 0) {
  if (lo >= hi) return;
  sbx::Result r = sbx::in_child([&]() -> int {
    sbx::Shared* sh = sbx::shared();
    sh->aux[6] = -1; sh->aux[7] = 0;
    for (size_t i = lo; i < hi; ++i) {
      sh->cur = (long)i; sbx::watchdog(WATCHDOG_S);
      double t0 = now_s();
      int code = guarded(cs[i]);
      long ms = (long)((now_s() - t0) * 1000);
      if (ms > sh->aux[7]) { sh->aux[7] = ms; sh->aux[6] = (long)i; }
      if (code) return code;
      sh->done = (long)(i + 1 - lo);
    }
    return sbx::EX_OK;
  });
  vh::stat("sandbox.children");
  if (sbx::shared()->aux[7] >= 500 && sbx::shared()->aux[6] >= (long)lo && sbx::shared()->aux[6] < (long)hi) {
    vh::stat("slow.cases_over_500ms");
    fprintf(stderr, "[C10] slow case %ld ms: %s\n", (long)sbx::shared()->aux[7], describe(cs[(size_t)sbx::shared()->aux[6]]).substr(0, 300).c_str());
  }
  if (r.oc == sbx::OK) return;
  if (hi - lo == 1) { fails.push_back(Fail{lo, r.oc, r.diag, false}); ++g_fail_found; return; }
  if (g_fail_found >= NARROW_BUDGET) {
    size_t at = (r.cur >= (long)lo && r.cur < (long)hi && !(r.oc == sbx::LEAK && r.exit_code == sbx::EX_LEAK)) ? (size_t)r.cur : lo;
    fails.push_back(Fail{at, r.oc, r.diag, true, true}); ++g_fail_found; vh::stat("skipped.narrowing_of_failing_batches");
    return;
  }
  if (r.oc == sbx::LEAK && r.exit_code == sbx::EX_LEAK) {          // found by the check at the end of the batch: bisect
    size_t mid = lo + (hi - lo) / 2;
    run_range(cs, lo, mid, fails, depth + 1); run_range(cs, mid, hi, fails, depth + 1);
    return;
  }
  size_t idx = (r.cur >= (long)lo && r.cur < (long)hi) ? (size_t)r.cur : lo;
  run_range(cs, lo, idx, fails, depth + 1);                          // the prefix again (it has not had its leak check)
  size_t before = fails.size();
  run_range(cs, idx, idx + 1, fails, depth + 1);                     // the suspect alone
  if (fails.size() == before) { fails.push_back(Fail{idx, r.oc, r.diag, true}); ++g_fail_found; }
  run_range(cs, idx + 1, hi, fails, depth + 1);
}

// Greedy reduction of a failing case: drop whole paths, then single vertices, as long as the case still fails alone in
// the same way.  Deterministic (fixed order); bounded by `budget` child runs.
static bool still_fails(const Case& c, sbx::Outcome oc) {
  std::vector<Case> one{c}; std::vector<Fail> f;
  struct Keep { long long v; Keep() : v(g_fail_found) {} ~Keep() { g_fail_found = v; } } keep;   // trial runs do not use up the failure budget
  int saved = WATCHDOG_S; if (oc != sbx::HANG) WATCHDOG_S = 5;
  run_range(one, 0, 1, f);
  WATCHDOG_S = saved;
  return !f.empty() && f[0].oc == oc;
}
static Case minimise(Case c, sbx::Outcome oc, int budget = 250) {
  if (oc == sbx::HANG) budget = std::min(budget, 12);
  bool changed = true;
  while (changed && budget > 0) {
    changed = false;
    for (Paths64* ps : {&c.C, &c.B, &c.A}) {
      for (size_t i = 0; i < ps->size() && budget > 0;) {
        Case t = c; Paths64* tp = ps == &c.A ? &t.A : ps == &c.B ? &t.B : &t.C;
        tp->erase(tp->begin() + (long)i); --budget;
        if (still_fails(t, oc)) { c = t; ps = ps == &c.A ? &c.A : ps; changed = true; } else ++i;
      }
    }
    for (Paths64* ps : {&c.C, &c.B, &c.A}) {
      for (size_t i = 0; i < ps->size(); ++i) {
        for (size_t j = 0; j < (*ps)[i].size() && budget > 0;) {
          Case t = c; Paths64* tp = ps == &c.A ? &t.A : ps == &c.B ? &t.B : &t.C;
          (*tp)[i].erase((*tp)[i].begin() + (long)j); --budget;
          if (still_fails(t, oc)) { c = t; changed = true; } else ++j;
        }
      }
    }
  }
  return c;
}
static int g_minimised = 0;

static void run_cases(const std::vector<Case>& cs, const std::string& label_prefix = "") {
  const size_t BATCH = 400;
  size_t executed = 0;
  for (size_t lo = 0; lo < cs.size(); lo += BATCH) {
    size_t hi = std::min(cs.size(), lo + BATCH);
    if (g_fail_found >= STOP_BUDGET) { vh::stat("skipped.cases_after_too_many_failures", (long long)(cs.size() - lo)); break; }
    executed = hi;
    std::vector<Fail> fails;
    run_range(cs, lo, hi, fails);
    for (auto& f : fails) {
      // the first few failures are reduced to a small input before they are reported
      if (!f.batch_only && g_minimised < 6 && cs[f.idx].gen != std::string("large")) { ++g_minimised; report_fail(minimise(cs[f.idx], f.oc), f, label_prefix); }
      else report_fail(cs[f.idx], f, label_prefix);
    }
  }
  for (size_t i = 0; i < executed; ++i) { vh::stat(std::string("evaluations.") + OPNAME[cs[i].op]); vh::stat(std::string("world.") + cs[i].gen); }
}

// ---- allocation-failure enumeration
static const bool REPORT_LEAK_AFTER_BAD_ALLOC = !KNOWN_LEAKS_AFTER_BAD_ALLOC_PRESENT;
static int alloc_loop(const Case& c, long klo, long khi) {
  sbx::Shared* sh = sbx::shared(); sbx::Heap& h = sbx::heap();
  { sbx::watchdog(WATCHDOG_S); int code = guarded(c); if (code) return code; }      // warm-up without injection (lazy initialisations)
  for (long k = klo; k < khi; ++k) {
    sh->cur = k; sbx::watchdog(WATCHDOG_S);
    long long live0 = h.live;
    h.countdown = k; h.hit = false; h.armed = false;
    int how = 0;
    try { run_case(c); } catch (const std::bad_alloc&) { how = 1; } catch (...) { how = 2; }
    h.armed = false; h.countdown = 0;
    if (!h.hit) { sh->done = k; return how == 0 ? sbx::EX_OK : sbx::EX_EXC; }      // completed without reaching the k-th allocation
    if (how == 0) return sbx::EX_SWALLOWED;
    if (how == 2) return sbx::EX_WRONG_EXC;
    if (h.live != live0) { if (sh->naux < 8) sh->aux[sh->naux] = k; sh->naux = sh->naux + 1; }
  }
  sh->done = khi;
  return sbx::EX_OK;
}
static void alloc_fail(const Case& c, long k, const char* what, const std::string& diag, const std::string& label_prefix) {
  ++g_fail_found;
  vh::stat(std::string("fail.alloc.") + OPNAME[c.op]);
  fprintf(stderr, "[C10] alloc.%s k=%ld %s  %s\n        %s\n", OPNAME[c.op], k, what, diag.c_str(), describe(c).substr(0, 400).c_str());
  if (++g_failures > MAX_F_RECORDS) { vh::stat("fail.records_suppressed"); return; }
  emitF(label_prefix + "alloc." + OPNAME[c.op], std::string("std::bad_alloc injected at allocation #") + std::to_string(k) + " of the operation: " + what + "; " + describe(c));
}
static void alloc_task(const Case& c, const std::string& label_prefix = "") {
  const long INF = 1000000;
  if (g_fail_found >= 2 * STOP_BUDGET) { vh::stat("skipped.alloc_tasks_after_too_many_failures"); return; }
  long klo = 1; int reported = 0;
  std::string opn = OPNAME[c.op];
  while (reported < 3) {
    sbx::Result r = sbx::in_child([&]() -> int { return alloc_loop(c, klo, INF); });
    vh::stat("sandbox.children");
    long naux = sbx::shared()->naux; long first = naux > 0 ? sbx::shared()->aux[0] : 0;
    if (r.oc == sbx::OK) {
      vh::stat("evaluations.alloc." + opn, r.done - klo);
      if (naux) vh::stat("alloc.live_byte_imbalance_without_leak." + opn, naux);
      return;
    }
    if (r.oc == sbx::LEAK && r.exit_code == sbx::EX_LEAK) {
      vh::stat("evaluations.alloc." + opn, r.done - klo);
      vh::stat("alloc.leaking_injection_points." + opn, naux);
      if (REPORT_LEAK_AFTER_BAD_ALLOC) alloc_fail(c, first, "memory is leaked after every object has been destroyed", r.diag, label_prefix);
      return;
    }
    long k = r.cur;
    const char* what = r.oc == sbx::ALLOC_SWALLOWED ? "the operation returned normally (std::bad_alloc did not reach the caller)"
                     : r.oc == sbx::ALLOC_WRONG_EXC ? "an exception of another type reached the caller"
                     : r.oc == sbx::HANG ? "the operation or the destruction of its objects does not return"
                     : r.oc == sbx::UB ? "undefined behaviour (UBSan)" : r.oc == sbx::MEM ? "heap cap exceeded" : "invalid memory access or abort (ASan / signal)";
    if (k < klo) { alloc_fail(c, 0, "failure before the first injection", r.diag, label_prefix); return; }
    vh::stat("evaluations.alloc." + opn, k - klo + 1);
    alloc_fail(c, k, what, r.diag, label_prefix); ++reported;
    klo = k + 1;
  }
}

// ------------------------------------------------------------------------------------------------ fixed witnesses
static int alloc_loop(const Case& c, long klo, long khi);
static Path64 mk(std::initializer_list<int64_t> v) { Path64 p; for (auto it = v.begin(); it != v.end(); it += 2) p.emplace_back(*it, *(it + 1)); return p; }

// runs one fixed case alone; a failure is reported under `label` (a known finding), a pass is counted
static void kf_case(const std::string& label, const Case& c, int watchdog = 10) {
  int saved = WATCHDOG_S; WATCHDOG_S = watchdog;
  std::vector<Case> cs{c}; std::vector<Fail> fails;
  long long budget = g_fail_found;
  run_range(cs, 0, 1, fails);
  g_fail_found = budget;                       // known findings do not use up the failure budget
  WATCHDOG_S = saved;
  vh::stat("evaluations.kf");
  if (fails.empty()) { vh::stat(label + ".not_reproduced"); return; }
  vh::stat(label + ".reproduced." + sbx::outcome_name(fails[0].oc));
  fprintf(stderr, "[C10] %s: %s  %s\n", label.c_str(), sbx::outcome_name(fails[0].oc), fails[0].diag.c_str());
  emitF(label, describe(c));
}

// runs one fixed case alone and reports under `label` when the operation requests more than `factor` times the size of
// its input from the heap in total (cumulative bytes, counted by the sandbox's malloc hook)
static void kf_alloc_volume(const std::string& label, const Case& c, long long input_bytes, long long factor, const std::string& descr) {
  sbx::Result r = sbx::in_child([&]() -> int {
    sbx::Heap& h = sbx::heap(); sbx::watchdog(60);
    long long t0 = h.total;
    int code = guarded(c);
    sbx::shared()->aux[0] = (long)((h.total - t0) / 1024);
    return code;
  });
  vh::stat("evaluations.kf");
  long long kb = sbx::shared()->aux[0];
  vh::stat(label + ".allocated_kilobytes", kb);
  vh::stat(label + ".input_kilobytes", input_bytes / 1024);
  if (r.oc != sbx::OK) { Fail f{0, r.oc, r.diag, false}; report_fail(c, f); return; }
  if (kb * 1024 > factor * input_bytes) emitF(label, descr); else vh::stat(label + ".not_reproduced");
}

static void known_findings() {
  {  // (1) TopX overflow (the witness of harness/C03.cpp)
    Case c; c.op = OP_C64_PATHS; c.gen = "kf";
    c.A = {mk({1099511627775, -2199023255553, 1099508482047, -2199026401281, 1099513724927, -2199021158401}),
           mk({-2199023255551, -1099511627775, 2199023255553, -2199023255553, 2199023255553, -2199023255553, 2199023255553, 1099511627777,
               2199023255553, 1099511627777, 1099511627777, 2199023255552, 1099511627777, 2199023255552, -2199023255552, 2199023255551,
               -2199023255552, 2199023255551, 1, 3298534883327, -3298534883328, 2199023255552}),
           mk({3298534883327, 3298534883329, 2199023255551, 1, -1099511627775, -1099511627777, -3298534883328, 2199023255553,
               0, 2199023255553, -3298534883328, 2199023255553, 3298534883329, 2199023255552, -3298534883328, 2199023255553,
               -2199023255552, 2199023255553, -2199023255552, 2199023255553, 1099511627776, -1099511627775})};
    c.B = {mk({-1099511627775, -1099511627776, -1099511627777, 1, -1099511627777, 1, 3298534883329, -2199023255552}), mk({2199023255553, 0, 3298534883327, -1})};
    c.p[0] = (int64_t)ClipType::Intersection; c.p[1] = (int64_t)FillRule::EvenOdd; c.p[2] = 1; c.p[5] = 2;
    kf_case("kf.ub.topx_overflow", c);
  }
  {  // (2) unbounded recursion in CheckSplitOwner (the witness of harness/C04.cpp)
    Case c; c.op = OP_C64_TREE; c.gen = "kf";
    c.A = {mk({0, 2, 0, 6, 2, 6, 2, 4, 4, 4, 4, 8, 10, 8, 10, 2}), mk({16, 6, 10, 6, 10, 12, 16, 12})};
    c.B = {mk({10, 8, 6, 8, 6, 12, 10, 12}), mk({10, 8, 10, 6, 8, 6, 8, 8, 16, 8}), mk({6, 0, 14, 0, 14, 10, 6, 10, 6, 2, 8, 2, 8, 8, 12, 8, 12, 2, 6, 2})};
    c.p[0] = (int64_t)ClipType::Xor; c.p[1] = (int64_t)FillRule::NonZero; c.p[2] = 1; c.p[5] = 2;
    kf_case("kf.tree.checksplitowner_recursion", c);
  }
  {  // (3) the same ReuseableDataContainer64 added twice: Execute never returns
    Case c; c.op = OP_C64_REUSE; c.gen = "kf";
    c.A = {mk({0, 0, 50, 0, 100, 0, 100, 100, 0, 100})}; c.B = {mk({50, 50, 150, 50, 150, 150, 50, 150})};
    c.p[0] = (int64_t)ClipType::Union; c.p[1] = (int64_t)FillRule::NonZero; c.p[6] = 1;
    kf_case("kf.reuse-same-container-twice-hang", c, 2);
  }
  {  // (4) single-point path, |delta| >= 2^31, join type other than Round: (int)std::ceil(abs_delta) is out of range
    Case c; c.op = OP_INFLATE64; c.gen = "kf";
    c.A = {mk({0, 0})}; c.p[0] = (int64_t)JoinType::Miter; c.p[1] = (int64_t)EndType::Polygon; c.f[0] = 4294967296.0; c.f[1] = 2.0; c.f[2] = 0.0;
    kf_case("kf.ub.offset_point_delta_int_cast", c);
  }
  {  // (5) unchecked scaling of the rectangle in RectClip(RectD, PathsD, precision): 2^40 * 10^8 does not fit int64
    Case c; c.op = OP_RECTCLIPD; c.gen = "kf";
    c.A = {mk({0, 0, 10, 0, 10, 10})}; c.p[0] = -P40; c.p[1] = -P40; c.p[2] = P40; c.p[3] = P40; c.p[4] = 8; c.f[3] = 1.0;
    kf_case("kf.ub.rectclipD_rect_scaling_unchecked", c);
    c.op = OP_RECTCLIPLINESD;
    kf_case("kf.ub.rectcliplinesD_rect_scaling_unchecked", c);
  }
  {  // (5) unchecked scaling in the export layer: InflatePathsD / RectClipD with coordinate 2^40 at precision 8
    Case c; c.op = OP_X_INFLATEPATHSD; c.gen = "kf";
    c.A = {mk({P40, 0, P40 + 10, 0, P40 + 10, 10})}; c.p[0] = (int64_t)JoinType::Miter; c.p[1] = (int64_t)EndType::Polygon; c.p[4] = 8;
    c.f[0] = 1.0; c.f[1] = 2.0; c.f[2] = 0.0; c.f[3] = 1.0;
    kf_case("kf.ub.export_inflatepathsD_scaling_unchecked", c);
    c.op = OP_X_INFLATEPATHD;
    kf_case("kf.ub.export_inflatepathD_scaling_unchecked", c);
    Case r; r.op = OP_X_RECTCLIPD; r.gen = "kf";
    r.A = {mk({P40, 0, P40 + 10, 0, P40 + 10, 10})}; r.p[0] = -100; r.p[1] = -100; r.p[2] = 100; r.p[3] = 100; r.p[4] = 8; r.f[3] = 1.0;
    kf_case("kf.ub.export_rectclipD_scaling_unchecked", r);
    r.op = OP_X_RECTCLIPLINESD;
    kf_case("kf.ub.export_rectcliplinesD_scaling_unchecked", r);
  }
  {  // (7) round joins with an arc tolerance that asks for more than INT_MAX steps: static_cast<int>(ceil(steps_per_rad_ * angle))
    Case c; c.op = OP_INFLATE64; c.gen = "kf";
    c.A = {mk({0, 0, 100, 0, 100, 100})}; c.p[0] = (int64_t)JoinType::Round; c.p[1] = (int64_t)EndType::Polygon;
    c.f[0] = 1099511627776.0; c.f[1] = 2.0; c.f[2] = 1e-11;
    kf_case("kf.ub.offset_round_steps_int_cast", c);
  }
  {  // (1) again: nearly horizontal long edges at |coord| <= 2^35 (found by `probe jitter`, reduced by the minimiser)
    Case c; c.op = OP_C64_PATHS; c.gen = "kf";
    c.A = {mk({-4294967295, 21474836480, 21474836480, 21474836481, -17179869185, -1})};
    c.B = {mk({21474836480, 21474836481, 17179869183, 21474836481, -34359738367, 4294967297})};
    c.p[0] = 1; c.p[1] = 1; c.p[2] = 1; c.p[3] = 1; c.p[5] = 5;
    kf_case("kf.ub.topx_overflow.2p35", c);
  }
  {  // (1) through offsetting inside the 2^40 domain: a delta callback that varies along a long horizontal segment
    Case c; c.op = OP_OFFSET_CALLBACK; c.gen = "kf";
    c.A = {mk({-712337029546, -291633993869, 699970504315, -291633993869}), mk({-712337029546, -644592310561, -712337029546, -291633993869})};
    c.p[0] = (int64_t)JoinType::Square; c.p[1] = (int64_t)EndType::Square; c.p[4] = 1; c.f[0] = -10.0; c.f[1] = 3.5; c.f[2] = 0.25;
    kf_case("kf.ub.topx_overflow.offset_deltacallback", c);
  }
  {  // (9) lattice-aligned input at +-2^61: dx * (currentY - bot.y) = 2^63 in TopX
    Case c; c.op = OP_C64_PATHS; c.gen = "kf";
    c.A = {mk({-P61, -P61, -P61, P61, P61, P61}), mk({-P61, P61, P61, 0, 0, 0})};
    c.p[0] = 1; c.p[1] = 3; c.p[2] = 1;
    kf_case("kf.ub.topx_overflow.2p61_lattice", c);
  }
  {  // (9) coordinates +-2^62: pt2.x - pt1.x overflows in GetDx
    Case c; c.op = OP_C64_PATHS; c.gen = "kf";
    c.A = {mk({P61, -P61, P62, 0, -P62, 0})}; c.B = c.A;
    c.p[0] = 4; c.p[1] = 1; c.p[3] = 1; c.p[5] = 6;
    kf_case("kf.ub.coordinate_difference_overflow_2p62", c);
  }
  {  // (8) leaks after an injected bad_alloc (fixed input: two overlapping squares)
    Case c; c.op = OP_C64_PATHS; c.gen = "kf";
    c.A = {mk({0, 0, 100, 0, 100, 100, 0, 100})}; c.B = {mk({50, 50, 150, 50, 150, 150, 50, 150})};
    c.p[0] = 1; c.p[1] = 1;
    sbx::Result r = sbx::in_child([&]() -> int { return alloc_loop(c, 1, 1000000); });
    vh::stat("evaluations.kf");
    long naux = sbx::shared()->naux;
    vh::stat("kf.alloc.leak_after_bad_alloc.injection_points", r.done > 0 ? r.done - 1 : 0);
    vh::stat("kf.alloc.leak_after_bad_alloc.leaking_points", naux);
    if (r.oc == sbx::LEAK && naux > 0)
      emitF("kf.alloc.leak_after_bad_alloc", "std::bad_alloc injected at successive allocations of the operation reaches the caller, but at some injection points memory is leaked after every object has been destroyed (AddPaths_: new Vertex[]; InsertLocalMinimaIntoAEL: new Active; NewOutRec: new OutRec); " + describe(c));
    else if (r.oc == sbx::OK) vh::stat("kf.alloc.leak_after_bad_alloc.not_reproduced");
    else { Fail f{0, r.oc, r.diag, false}; report_fail(c, f, "alloc-kf-"); }
  }
  {  // (7) single point, Round join, arc tolerance above |delta|: repaired by 0b1a857 (was: Ellipse()'s default step count,
     //     PI*sqrt(radius) = 3.3e6 vertices for delta 2^40); the label is not listed, so a recurrence is a violation
    Case c; c.op = OP_INFLATE64; c.gen = "corpus";
    c.A = {Path64{Point64(-1099511627776, -755914244096)}};
    c.p[0] = (int64_t)JoinType::Round; c.p[1] = (int64_t)EndType::Butt; c.f[0] = 1099511627776.0; c.f[1] = 2.0; c.f[2] = 2.7e13;
    kf_alloc_volume("corpus.offset.single_point_coarse_arc", c, 4096, 256,
                    "InflatePaths({{(-2^40, -755914244096)}}, delta 2^40, Round, Butt, miter limit 2, arc tolerance 2.7e13) requests more than 1 MB from the heap for one input point");
  }
  {  // (6) RDP copies the whole path on every recursive call
    Case c; c.op = OP_RDP64; c.gen = "kf";
    Path64 p; const int n = 3000;
    for (int i = 0; i < n; ++i) p.emplace_back((int64_t)i * i, (int64_t)i);
    c.A = {p}; c.f[0] = 0.0;
    kf_alloc_volume("kf.quadratic.rdp_copy_per_call", c, (long long)n * (long long)sizeof(Point64), 200,
                    "RamerDouglasPeucker(path = {(i*i, i) : 0 <= i < 3000}, epsilon = 0) requests more than 200 times the size of its input from the heap: RDP() takes `const Path<T> path` by value, one copy of the whole path per recursive call");
  }
}

// ------------------------------------------------------------------------------------------------ large inputs
static Path64 big_star(int n, int64_t r1, int64_t r2, int64_t cx, int64_t cy, double phase) {
  Path64 p;
  for (int i = 0; i < n; ++i) {
    double a = 6.283185307179586 * i / n + phase, rr = (i & 1) ? (double)r1 : (double)r2;
    p.emplace_back(cx + (int64_t)std::llround(rr * std::cos(a)), cy + (int64_t)std::llround(rr * std::sin(a)));
  }
  return p;
}
static Path64 big_comb(int teeth, int64_t pitch, int64_t height) {     // sawtooth over a base line
  Path64 p; p.emplace_back((int64_t)0, (int64_t)0);
  for (int i = 0; i < teeth; ++i) { p.emplace_back((int64_t)(i * pitch + pitch / 2), (int64_t)(height + (i % 7))); p.emplace_back((int64_t)((i + 1) * pitch), (int64_t)(1 + (i % 3))); }
  p.emplace_back((int64_t)(teeth * pitch), (int64_t)-height); p.emplace_back((int64_t)0, (int64_t)-height);
  return p;
}
static std::vector<Case> big_cases(Rng& g, int scale) {
  std::vector<Case> cs;
  int n = 2000 * scale;
  auto add = [&](int op, Paths64 A, Paths64 B, std::initializer_list<int64_t> ps, std::initializer_list<double> fs) {
    Case c; c.op = op; c.gen = "large"; c.A = std::move(A); c.B = std::move(B);
    int i = 0; for (int64_t v : ps) c.p[i++] = v; i = 0; for (double v : fs) c.f[i++] = v;
    cs.push_back(std::move(c));
  };
  Path64 s1 = big_star(n, 1000000, 600000, 0, 0, 0.0), s2 = big_star(n / 2 + 1, 900000, 700000, 1234, -777, 0.3), cb = big_comb(n, 40, 30000);
  add(OP_C64_PATHS, {s1}, {s2}, {(int64_t)g.range(1, 4), (int64_t)g.range(0, 3), 0, 0, 0, 0}, {});
  add(OP_C64_TREE, {s1, cb}, {s2}, {(int64_t)g.range(1, 4), (int64_t)g.range(0, 3), 1, 0, 0, 0}, {});
  add(OP_C64_PATHS, {cb}, {TranslatePath(cb, 17, 9)}, {(int64_t)ClipType::Xor, 0, 0, 0, 0, 2}, {});
  // offsetting a star by much more than its tooth width produces quadratically many crossings in the raw offset (inherent):
  // the delta stays below the tooth width
  add(OP_INFLATE64, {big_star(2000, 1000000, 600000, 0, 0, 0.0)}, {}, {(int64_t)g.range(0, 3), (int64_t)g.range(0, 4)}, {g.coin() ? 500.0 : -500.0, 2.0, 0.0});
  // (8000 teeth take ~9 s under ASan against < 0.5 s for 2000: super-linear, noted in the report; the comb stays at 2000 teeth here)
  add(OP_INFLATE64, {big_comb(2000, 40, 30000)}, {}, {(int64_t)JoinType::Round, (int64_t)EndType::Round}, {25.0, 2.0, 0.0});
  add(OP_RECTCLIP64, {s1, cb}, {}, {-500000, -20000, 700000, 20000}, {});
  add(OP_RECTCLIPLINES64, {s1, cb}, {}, {-500000, -20000, 700000, 20000}, {});
  add(OP_SIMPLIFY64, {s1, cb}, {}, {1}, {50.0});
  if (KNOWN_RDP_COPY_PER_CALL_PRESENT) add(OP_RDP64, {big_star(2000, 1000000, 600000, 0, 0, 0.0), big_comb(2000, 40, 30000)}, {}, {0}, {50.0});
  else add(OP_RDP64, {s1, cb}, {}, {0}, {50.0});
  add(OP_TRIM64, {s1, cb}, {}, {0}, {});
  add(OP_MEASURE, {s1, cb}, {}, {10, 10}, {});
  add(OP_MINKSUM64, {big_star(200 * scale, 100000, 70000, 0, 0, 0)}, {big_star(12, 500, 300, 0, 0, 0.1)}, {1}, {});
  // deep recursion candidates for RamerDouglasPeucker: the farthest point is always next to an end point
  const int nr = KNOWN_RDP_COPY_PER_CALL_PRESENT ? 2000 : n;
  { Path64 p; int64_t y = (int64_t)1 << 39; for (int i = 0; i < 38; ++i) { p.emplace_back((int64_t)i, y); y /= 2; } for (int i = 0; i < nr; ++i) p.emplace_back((int64_t)(40 + i), (int64_t)((i * 7) % 3)); add(OP_RDP64, {p}, {}, {0}, {0.0}); }
  { Path64 p; int m = KNOWN_RDP_COPY_PER_CALL_PRESENT ? nr : 10 * n; for (int i = 0; i < m; ++i) p.emplace_back((int64_t)i * i, (int64_t)i); add(OP_RDP64, {p}, {}, {0}, {0.0}); add(OP_SIMPLIFY64, {Path64(p.begin(), p.begin() + (long)std::min<size_t>((size_t)n, p.size()))}, {}, {0}, {0.5}); }
  return cs;
}

// ------------------------------------------------------------------------------------------------ probe mode
// `C10 <seed> quick probe`: where does general random boolean input start to commit UB?  Prints failure rates per magnitude.
static void probe(Rng& g, const std::string& what) {
  std::vector<World> ws;
  static char names[120][40];
  int ni = 0;
  if (what == "random") for (int b = 28; b <= 62; b += 2) { snprintf(names[ni], 40, "random2^%d", b); ws.push_back({names[ni++], 0, 0, 0, b == 62 ? P62 : ((int64_t)1 << b), 0}); }
  if (what == "lattice") for (int m = 40; m <= 61; m += 3) for (int64_t K : {1, 2, 4, 8}) {
    if (!world_ok({"", 0, 0, m, K, 0}, P62)) continue;
    snprintf(names[ni], 40, "lattice2^%d.K%d", m, (int)K); ws.push_back({names[ni++], 0, 0, m, K, 0});
  }
  if (what == "local") for (int64_t off : {P60, P61, P62 - 1000}) { snprintf(names[ni], 40, "local%lld", (long long)off); ws.push_back({names[ni++], off, -off, 0, 1000, 0}); }
  // nearly horizontal long edges: lattice 2^m, k in [-8, 8], jitter +-1
  if (what == "jitter") for (int m = 22; m <= 40; m += 2) { snprintf(names[ni], 40, "lattice2^%d.K8.jitter1", m); ws.push_back({names[ni++], 0, 0, m, 8, 1}); }
  if (what == "l61") ws.push_back({"lattice2^61.K1", 0, 0, 61, 1, 0});
  if (what == "l62") ws.push_back({"lattice2^61.K2", 0, 0, 61, 2, 0});
  for (auto& w : ws) {
    for (int op : {OP_C64_PATHS, OP_C64_TREE}) {
      std::vector<Case> cs;
      for (int i = 0; i < 1500; ++i) cs.push_back(gen_boolean(g, op, w, op == OP_C64_TREE));
      std::vector<Fail> fails;
      for (size_t lo = 0; lo < cs.size(); lo += 300) run_range(cs, lo, std::min(cs.size(), lo + 300), fails);
      std::map<std::string, int> kinds;
      for (auto& f : fails) kinds[std::string(sbx::outcome_name(f.oc)) + " " + f.diag.substr(0, 110)]++;
      printf("# probe %-22s %-28s cases %zu failures %zu\n", w.name, OPNAME[op], cs.size(), fails.size());
      for (auto& kv : kinds) printf("#        %4d x %s\n", kv.second, kv.first.c_str());
      if (!fails.empty()) printf("#   first, minimised: %s\n", describe(minimise(cs[fails[0].idx], fails[0].oc)).c_str());
      fflush(stdout);
    }
  }
}

// ------------------------------------------------------------------------------------------------ main
int main(int argc, char** argv) {
  g_t0 = now_s();
  Rng g(seed_from_args(argc, argv));
  g_thorough = thorough_from_args(argc, argv);
  std::vector<World> bw = bool_worlds(), uw = util_worlds();
  for (auto& w : bw) if (!world_ok(w, P62)) emitF("harness.world", std::string("boolean world out of range: ") + w.name);
  for (auto& w : uw) if (!world_ok(w, P40)) emitF("harness.world", std::string("utility world out of range: ") + w.name);
  if (argc > 4 && std::string(argv[3]) == "probe") { probe(g, argv[4]); return 0; }
  // developer aid: `C10 <seed> <tier> only=<substring>` runs only the streams whose name contains the substring
  std::string only = (argc > 3 && std::string(argv[3]).rfind("only=", 0) == 0) ? std::string(argv[3]).substr(5) : "";
  auto want = [&](const char* name) { return only.empty() || std::string(name).find(only) != std::string::npos; };

  if (want("known findings")) { known_findings(); tick("known findings"); }

  const int N = g_thorough ? 12 : 1;       // scale of the generic streams
  {
    std::vector<Case> cs;
    auto flush = [&](const char* what) { run_cases(cs); cs.clear(); tick(what); };
    // cases are generated and executed in chunks: the parent stays small, so fork() stays cheap
    auto push = [&](const Case& c) { cs.push_back(c); if (cs.size() >= 4000) { run_cases(cs); cs.clear(); } };
    // boolean clipping, |coord| <= 2^62
    if (want("Clipper64 paths")) {
      for (int i = 0; i < 5000 * N; ++i) push(gen_boolean(g, OP_C64_PATHS, g.pick(bw), false));
      flush("Clipper64 paths");
    }
    if (want("Clipper64 polytree")) {
      for (int i = 0; i < 4000 * N; ++i) push(gen_boolean(g, OP_C64_TREE, g.pick(bw), true));
      flush("Clipper64 polytree");
    }
    if (want("ClipperD")) {
      for (int i = 0; i < 1500 * N; ++i) { const World& w = g.pick(uw); Case c = gen_boolean(g, g.coin() ? OP_CD_PATHS : OP_CD_TREE, w, true); d_params(g, c, w); push(c); }
      flush("ClipperD");
    }
    if (want("BooleanOp wrappers / reusable data")) {
      for (int i = 0; i < 1500 * N; ++i) {
        int op = (int)g.range(OP_BOOLOP64, OP_C64_REUSE);
        bool is_d = op == OP_BOOLOPD || op == OP_BOOLOPD_TREE || op == OP_BOOLWRAPD;
        const World& w = is_d ? g.pick(uw) : g.pick(bw);
        Case c = gen_boolean(g, op, w, op == OP_BOOLOP64_TREE || op == OP_BOOLOPD_TREE || op == OP_C64_REUSE);
        if (is_d) d_params(g, c, w);
        push(c);
      }
      flush("BooleanOp wrappers / reusable data");
    }
    // offsetting, |coord| <= 2^40
    if (want("offsetting")) {
      for (int i = 0; i < 5000 * N; ++i) {
        int op = (int)g.range(OP_INFLATE64, OP_OFFSET_CALLBACK); const World& w = g.pick(uw);
        Case c = gen_offset(g, op, w); if (op == OP_INFLATED) { d_params(g, c, w); d_offset_params(c); }
        push(c);
      }
      flush("offsetting");
    }
    if (want("rectangle clipping")) {
      for (int i = 0; i < 3000 * N; ++i) {
        int op = (int)g.range(OP_RECTCLIP64, OP_RECTCLIPLINESD); const World& w = g.pick(uw);
        Case c = gen_rect(g, op, w); if (op == OP_RECTCLIPD || op == OP_RECTCLIPLINESD) d_params_in_range(g, c, w);
        push(c);
      }
      flush("rectangle clipping");
    }
    if (want("Minkowski")) {
      for (int i = 0; i < 2000 * N; ++i) {
        int op = (int)g.range(OP_MINKSUM64, OP_MINKDIFFD); const World& w = g.pick(uw);
        const World& wp = g.coin() ? uw[0] : g.pick(uw);
        Case c = gen_mink(g, op, w, wp);
        if (op == OP_MINKSUMD || op == OP_MINKDIFFD) d_params(g, c, std::max(std::llabs(wp.ox), std::llabs(wp.oy)) + world_extent(wp) > std::max(std::llabs(w.ox), std::llabs(w.oy)) + world_extent(w) ? wp : w);
        push(c);
      }
      flush("Minkowski");
    }
    if (want("path utilities")) {
      for (int i = 0; i < 4000 * N; ++i) {
        int op = (int)g.range(OP_TRIM64, OP_MEASURE); const World& w = g.pick(uw);
        Case c = gen_util(g, op, w); d_params(g, c, w);
        if (op == OP_SIMPLIFYD || op == OP_RDPD || op == OP_STRIP || op == OP_TRANSLATE || op == OP_MEASURE || op == OP_ELLIPSE) c.f[3] = g.pick(std::vector<double>{1.0, 0.5, 0.001});
        push(c);
      }
      flush("path utilities");
    }
    if (want("export layer")) {
      for (int i = 0; i < 4000 * N; ++i) push(gen_export(g, (int)g.range(OP_X_BOOL64, OP_X_MISC), g.pick(bw), g.pick(uw)));
      flush("export layer");
    }
    if (want("large inputs")) {
      cs = big_cases(g, g_thorough ? 4 : 1);
      flush("large inputs");
    }
  }

  // allocation-failure enumeration on a reduced input set (small worlds, few paths)
  if (want("allocation-failure")) {
    std::vector<World> aw = {{"alloc.small", 0, 0, 0, 20, 0}, {"alloc.tiny", 0, 0, 0, 3, 0}, {"alloc.medium", 0, 0, 0, 100000, 0}};
    int per_op = g_thorough ? 8 : 1;
    for (int op = 0; op < N_OPS; ++op) {
      for (int i = 0; i < per_op; ++i) {
        const World& w = aw[(size_t)i % aw.size()];
        Case c;
        if (op <= OP_C64_REUSE) { c = gen_boolean(g, op, w, true); d_params(g, c, w); if (c.p[0] == 0) c.p[0] = 1 + i % 4; }
        else if (op <= OP_OFFSET_CALLBACK) { c = gen_offset(g, op, w); d_params(g, c, w); d_offset_params(c); }
        else if (op <= OP_RECTCLIPLINESD) { c = gen_rect(g, op, w); d_params_in_range(g, c, w); }
        else if (op <= OP_MINKDIFFD) { c = gen_mink(g, op, w, aw[1]); d_params(g, c, w); }
        else if (op <= OP_MEASURE) { c = gen_util(g, op, w); d_params(g, c, w); c.f[3] = 1.0; }
        else c = gen_export(g, op, w, w);
        if (c.p[4] < -8 || c.p[4] > 8) c.p[4] = 2;
        // make sure there is something to do: at least one real polygon on the subject side
        if (c.A.empty() || c.A[0].size() < 3) c.A.insert(c.A.begin(), gen_shape(g, w, SH_STAR));
        c.gen = w.name;
        alloc_task(c);
      }
    }
    // polytree executions whose horizontal joins split a ring and later join it (with its 'splits' list) onto another ring:
    // the only inputs on which MoveSplits allocates, i.e. on which the ordering of ProcessHorzJoins' ownership hand-over
    // around an allocation matters
    {
      auto R = [](int64_t l, int64_t t, int64_t r, int64_t b) { return Path64{{l, t}, {r, t}, {r, b}, {l, b}}; };
      std::vector<std::pair<Paths64, Paths64>> fixed = {
        {{R(5, 2, 11, 3), R(4, 2, 9, 3), R(4, 3, 6, 6), R(3, 1, 8, 4)}, {}},
        {{R(10, 30, 70, 90), R(90, 40, 100, 60), R(0, 30, 50, 90), Path64{{60, 90}, {100, 90}, {100, 40}, {60, 40}}, R(0, 100, 60, 150)},
         {Path64{{90, 90}, {150, 90}, {150, 40}, {90, 40}}, R(100, 10, 140, 60), R(70, 50, 120, 100)}},
        {{R(0, 0, 26, 26), R(2, 2, 24, 24), R(6, 6, 20, 20), R(8, 8, 18, 18), R(10, 20, 22, 12), R(6, 16, 22, 12), R(4, 24, 16, 12), R(16, 16, 22, 20)},
         {R(0, 10, 20, 12)}}};
      int n_rand = g_thorough ? 24 : 6;
      for (int i = 0; i < n_rand; ++i) {
        Paths64 s; int n = 4 + (int)g.range(0, 5);
        for (int j = 0; j < n; ++j) {
          int64_t l = g.range(0, 10), t = g.range(0, 8);
          s.push_back(R(l, t, l + 1 + g.range(0, 6), t + 1 + g.range(0, 4)));
        }
        fixed.push_back({s, {}});
      }
      for (size_t i = 0; i < fixed.size(); ++i)
        for (int fr = 0; fr < 2; ++fr) {
          Case c; c.op = OP_C64_TREE; c.gen = "alloc.rect-lattice";
          c.A = fixed[i].first; c.B = fixed[i].second;
          c.p[0] = (int64_t)ClipType::Union; c.p[1] = fr == 0 ? (int64_t)FillRule::EvenOdd : (int64_t)FillRule::NonZero; c.p[5] = 2;
          alloc_task(c);
          if (i >= 3 && fr == 0) break;
        }
    }
    tick("allocation-failure enumeration");
  }
  vh::stat("sandbox.watchdog_seconds", WATCHDOG_S);
  flush_stats();
  return 0;
}
