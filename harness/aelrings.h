// Sink for hook H1 (clipper.verif.h) that records, besides the side bookkeeping of aelsides.h, the points the sweep hands to the
// output and the output rings themselves.  Produces the item list of the driver command AELRINGS
// (lean/ClipperVerif/Driver/AelRings.lean), which replays the events on Model/AelRings.lean and must reproduce every ring of every
// closed output record, point for point and in order, at every snapshot.
//
// Needs unity.h included with VERIF_PRIVATE_ACCESS (reads ClipperBase::actives_, outrec_list_, intersect_nodes_, sel_, bot_y_,
// horz_join_list_, preserve_collinear_).  No hook beyond H1: the point of an event is read from the engine's state at the hook, by the
// rules below.  A wrong rule cannot make a wrong model pass: the rings are compared after every event, and a point only matters through
// the ring it lands in.
//
// Items (positions count the edges already announced to the model):
//   U i x y                      the edge at i went through UpdateEdgeIntoAEL since the last hook; (x,y) = the old top, the point of
//                                `if (IsHotEdge(*e)) AddOutPt(*e, e->top)` (DoTopOfScanbeam, DoHorizontal).  Found by keeping a copy of every edge as of
//                                the last hook and replaying UpdateEdgeIntoAEL (NextVertex, TrimHorz) on the copy until it reaches the edge's vertex_top:
//                                several vertices may have been passed without any hook, and TrimHorz skips vertices that are never emitted.
//   IP pos pt isOpen dxLeft x y  (x,y) = left_bound->bot
//   I1 pos pt dx | R1 i          open paths (no point)
//   X i x y                      (x,y) = the pt of IntersectEdges: the node of intersect_nodes_ with (edge1, edge2) = the two edges when that list is
//                                not empty (ProcessIntersectList); right_bound->bot in the loop of InsertLocalMinimaIntoAEL that follows kInsertPair
//                                (rings_in_locmin_loop); (e->curr_x, horz.bot.y) when one of the two edges is horizontal (DoHorizontal; of two horizontals
//                                the one being processed is the one no longer in sel_); otherwise e.top (DoMaxima)
//   RP i x y                     (x,y) = e.top (DoMaxima, DoHorizontal)
//   J i x y                      (x,y) = the pt of CheckJoinLeft/Right: the point of the X item when the join directly follows one (ProcessIntersectList,
//                                DoHorizontal), otherwise the bot of the edge that has just been inserted / updated: the one of the two with the smaller
//                                bot.y (later scanline), ties resolved by the last U / IP item
//   SP i x y                     (x,y) = the pt of Split: e->bot when the edge has just been updated (UpdateEdgeIntoAEL), otherwise the point of the
//                                IntersectEdges / DoMaxima / DoHorizontal the Split is part of, i.e. of the next X or RP item (patched in when that item is written)
//   S k (9 fields)*k  m (stat n (x y)*n)*m
//                                snapshot as in aelsides.h, followed by every closed output record by rank: stat 0 = pts == nullptr, 1 = live
//                                (front_edge set), 2 = finished; the points from outrec->pts following ->prev.
//
// Not an item: DoHorizontal's first `AddOutPt(horz, (curr_x, y))` - whenever horz is hot that point already is the end of its ring (bot of the
// edge), so the call is always suppressed as a duplicate; if it ever were not, the next snapshot would differ.
// Horizontal joins are not modelled: as soon as ConvertHorzSegsToJoins has made a join (it inserts duplicated OutPts into the rings during the
// sweep) the trace is cut at the last snapshot before it (`has_horz_join`).  Open paths are supported as far as the model goes (their records
// are not tracked).
//
// Independently of Lean the sink checks on the real data structure, at every snapshot, that every ring is a consistent circular doubly
// linked list and that no OutPt of a closed record disappears during the sweep.
#pragma once
#include "common.h"
#include <unordered_set>
#include <unordered_map>
#ifndef CLIPPER2_VERIF
#error "aelrings.h needs the hooks: compile with -DCLIPPER2_VERIF"
#endif
namespace vh {
struct RingsTrace {
  std::vector<std::string> items;
  std::vector<size_t> pending_sp;      // SP items waiting for the point of the enclosing IntersectEdges / DoMaxima
  std::unordered_set<const Clipper2Lib::Active*> known;
  std::unordered_map<const Clipper2Lib::Active*, Clipper2Lib::Active> shadow;   // copy of each announced edge as of the last hook
  std::vector<const Clipper2Lib::Active*> pending_joins;
  std::unordered_map<const Clipper2Lib::Active*, bool> needs_trim;   // the copy went through an update that made it horizontal, TrimHorz not yet applied
  std::unordered_set<const Clipper2Lib::Active*> flushed_now;
  const Clipper2Lib::Active* loop_rb = nullptr;
  const Clipper2Lib::Active* last_updated = nullptr;
  Clipper2Lib::Point64 last_x_pt = Clipper2Lib::Point64(0, 0);
  bool have_last_x = false;
  bool has_horz = false;           // a horizontal edge was seen (statistics only)
  bool has_horz_join = false;      // ConvertHorzSegsToJoins made a join (it duplicates OutPts): not modelled; the trace is cut at the last snapshot before it
  size_t last_snap_end = 0;        // number of items up to and including the last snapshot
  bool hh_cross = false;           // a horizontal edge crossed another horizontal edge: the point cannot be read off the state
  bool updates_since_ip = false;   // a U item was written since the last kInsertPair
  bool prev_x = false;             // the previous hook was kIntersect (or a kJoin following one)
  size_t nops_seen = 0;                // OutPts of closed records at the previous snapshot
  long last_done = 0, last_gone = 0, last_live = 0;   // closed records by state at the last snapshot
  std::string first_error;
  // totals over the process
  long n_update = 0, n_ip = 0, n_x = 0, n_rp = 0, n_join = 0, n_split = 0, n_snap = 0, n_deferred = 0, n_sp_patched = 0, n_sp_update = 0,
       n_x_node = 0, n_x_locmin = 0, n_x_maxima = 0, n_x_horz = 0, n_x_hh = 0, n_join_tie = 0, n_join_node = 0, n_multi_update = 0, n_ring_points = 0, n_rings_dumped = 0;
  void clear() {
    items.clear(); pending_sp.clear(); known.clear(); shadow.clear(); needs_trim.clear(); pending_joins.clear(); flushed_now.clear();
    loop_rb = nullptr; last_updated = nullptr; have_last_x = false; has_horz = false; has_horz_join = false; last_snap_end = 0; hh_cross = false; prev_x = false; nops_seen = 0; first_error.clear();
    last_done = last_gone = last_live = 0;
  }
};
inline RingsTrace& rings_trace() { static thread_local RingsTrace t; return t; }

inline void rings_fail(const std::string& why) {
  RingsTrace& t = rings_trace();
  if (t.first_error.empty()) t.first_error = why;
}
// position among the edges already announced to the model
inline int rings_index(const Clipper2Lib::ClipperBase* c, const Clipper2Lib::Active* a) {
  RingsTrace& t = rings_trace();
  int i = 0;
  for (const Clipper2Lib::Active* e = c->actives_; e; e = e->next_in_ael) {
    if (e == a) return i;
    if (t.known.count(e)) ++i;
  }
  return -1;
}
inline int rings_rank(const Clipper2Lib::ClipperBase* c, const Clipper2Lib::OutRec* o) {
  int r = 0;
  for (size_t j = 0; j < o->idx && j < c->outrec_list_.size(); ++j) if (!c->outrec_list_[j]->is_open) ++r;
  return r;
}
inline std::string rings_pt(const Clipper2Lib::Point64& p) { return " " + std::to_string(p.x) + " " + std::to_string(p.y); }

// U items for every announced edge that went through UpdateEdgeIntoAEL since the last hook
// `swapped` (kIntersect only): the hook edge, which SwapPositionsInAEL has just moved one place to the right; the U items precede the X item,
// so their positions are those before the swap
inline void rings_flush_updates(const Clipper2Lib::ClipperBase* c, const Clipper2Lib::Active* swapped = nullptr) {
  using namespace Clipper2Lib;
  RingsTrace& t = rings_trace();
  t.flushed_now.clear();
  const Active* latest = nullptr;
  for (const Active* e = c->actives_; e; e = e->next_in_ael) {
    if (e->top.y == e->bot.y) t.has_horz = true;
    if (!t.known.count(e)) continue;
    Active& sh = t.shadow[e];
    if (sh.vertex_top == e->vertex_top) continue;
    int idx = rings_index(c, e), steps = 0, nupd = 0;
    if (swapped && e == swapped) idx -= 1;
    else if (swapped && e == swapped->prev_in_ael) idx += 1;
    // replay UpdateEdgeIntoAEL on the copy.  TrimHorz may skip vertices of a horizontal run (those are never emitted); it runs *after* the
    // kSplit hook inside UpdateEdgeIntoAEL, so the real edge may be seen updated but not yet trimmed: the copy is trimmed lazily.
    bool& needs_trim = t.needs_trim[e];
    while (sh.vertex_top != e->vertex_top && steps < 100000) {
      ++steps;
      if (needs_trim) { TrimHorz(sh, c->preserve_collinear_); needs_trim = false; continue; }
      t.items.push_back(" U " + std::to_string(idx) + rings_pt(sh.top));
      t.n_update++; ++nupd;
      sh.bot = sh.top;
      sh.vertex_top = NextVertex(sh);
      sh.top = sh.vertex_top->pt;
      sh.curr_x = sh.bot.x;
      SetDx(sh);
      needs_trim = IsHorizontal(sh) && !IsOpen(sh);
    }
    if (nupd > 1) t.n_multi_update++;
    if (sh.vertex_top != e->vertex_top || !(sh.top == e->top) || !(sh.bot == e->bot)) rings_fail("replay of UpdateEdgeIntoAEL on the shadow edge did not reach the edge's state");
    sh = *e;
    if (nupd == 0) continue;   // only the delayed TrimHorz was seen
    t.flushed_now.insert(e);
    t.updates_since_ip = true;
    if (!latest || e->bot.y <= latest->bot.y) latest = e;   // latest scanline (smallest y), rightmost
  }
  if (latest) t.last_updated = latest;
}

inline void rings_snapshot(const Clipper2Lib::ClipperBase* c) {
  using namespace Clipper2Lib;
  RingsTrace& t = rings_trace();
  t.n_snap++;
  int k = 0;
  for (const Active* e = c->actives_; e; e = e->next_in_ael) ++k;
  std::string s = " S " + std::to_string(k);
  for (const Active* e = c->actives_; e; e = e->next_in_ael) {
    bool hot = e->outrec != nullptr || e->join_with != JoinWith::NoJoin;
    bool open = e->local_min->is_open;
    int join = e->join_with == JoinWith::NoJoin ? 0 : (e->join_with == JoinWith::Left ? 1 : 2);
    int orec = (!open && e->outrec) ? rings_rank(c, e->outrec) : -1;
    bool front = (!open && e->outrec) ? (e == e->outrec->front_edge) : false;
    s += " " + std::to_string(e->local_min->polytype == PathType::Subject ? 0 : 1) + " " + std::to_string(open ? 1 : 0) +
         " " + std::to_string(e->wind_dx) + " " + std::to_string(e->wind_cnt) + " " + std::to_string(e->wind_cnt2) + " " + (hot ? "1" : "0") +
         " " + std::to_string(join) + " " + std::to_string(orec) + " " + (front ? "1" : "0");
  }
  int m = 0;
  for (const OutRec* o : c->outrec_list_) if (!o->is_open) ++m;
  s += " " + std::to_string(m);
  size_t nops = 0;
  t.last_done = t.last_gone = t.last_live = 0;
  for (const OutRec* o : c->outrec_list_) {
    if (o->is_open) continue;
    t.n_rings_dumped++;
    if (!o->pts) { s += " 0 0"; t.last_gone++; continue; }
    if (o->front_edge) t.last_live++; else t.last_done++;
    int n = 0;
    std::string pts;
    const OutPt* op = o->pts;
    do {
      if (op->next->prev != op || op->prev->next != op) { rings_fail("ring of record " + std::to_string(o->idx) + " is not a consistent doubly linked list"); break; }
      pts += rings_pt(op->pt);
      ++n;
      op = op->prev;
    } while (op != o->pts && n < 1000000);
    nops += n;
    t.n_ring_points += n;
    s += std::string(o->front_edge ? " 1 " : " 2 ") + std::to_string(n) + pts;
  }
  if (nops < t.nops_seen) rings_fail("the number of OutPts of closed records decreased during the sweep");
  t.nops_seen = nops;
  t.items.push_back(s);
  t.last_snap_end = t.items.size();
}

inline void rings_patch_sp(const Clipper2Lib::Point64& p) {
  RingsTrace& t = rings_trace();
  for (size_t i : t.pending_sp) { t.items[i] += rings_pt(p); t.n_sp_patched++; }
  t.pending_sp.clear();
}

// Is this kIntersect one of the loop of InsertLocalMinimaIntoAEL that moves the new right bound (pt = right_bound->bot)?  The hook edge must be
// the right bound of the last kInsertPair with no other hook and no UpdateEdgeIntoAEL since; that still leaves DoMaxima / DoHorizontal reaching
// the same edge first.  DoTopOfScanbeam has then set curr_x = top.x (decisive unless the edge is vertical) and bot_y_ is the bottom of the
// scanbeam above the local minimum (= bot.y; during InsertLocalMinimaIntoAEL it still is the previous, larger, bottom - or its initial 0).
inline bool rings_in_locmin_loop(const Clipper2Lib::ClipperBase* c, const Clipper2Lib::Active* a, const Clipper2Lib::Active* other) {
  using namespace Clipper2Lib;
  RingsTrace& t = rings_trace();
  if (a != t.loop_rb || t.updates_since_ip) return false;
  if (IsHorizontal(*a)) return !(other && other->curr_x > a->bot.x);   // DoHorizontal(right bound) moving right crosses edges beyond bot.x
  bool at_top = a->curr_x == a->top.x, at_bot = a->curr_x == a->bot.x;
  if (at_top && !at_bot) return false;
  if (at_top && at_bot && c->bot_y_ == a->bot.y) {
    if (a->bot.y != 0) return false;
    // vertical edge starting at y == 0, possibly on the first scanline (bot_y_ still 0): let the other edge's curr_x decide
    if (other && !IsHorizontal(*other) && other->curr_x == TopX(*other, a->top.y) && other->curr_x != TopX(*other, a->bot.y)) return false;
  }
  return true;
}

inline void rings_join_item(const Clipper2Lib::ClipperBase* c, const Clipper2Lib::Active* a, bool deferred) {
  using namespace Clipper2Lib;
  RingsTrace& t = rings_trace();
  const Active* b = a->next_in_ael;
  Point64 p = a->bot;
  if (t.prev_x && t.have_last_x && t.flushed_now.empty() && !deferred) { p = t.last_x_pt; t.n_join_node++; }
  else if (b && b->bot.y < a->bot.y) p = b->bot;
  else if (b && b->bot.y == a->bot.y && !(b->bot == a->bot)) {
    t.n_join_tie++;
    if (deferred || b == t.last_updated) p = b->bot;      // CheckJoinLeft(left_bound) / CheckJoinLeft(e) in UpdateEdgeIntoAEL(e)
    else p = a->bot;                                       // CheckJoinRight(right_bound) / CheckJoinRight(e)
  }
  t.items.push_back(" J " + std::to_string(rings_index(c, a)) + rings_pt(p));
}

inline void rings_sink_fn(int ev, const Clipper2Lib::ClipperBase* c, const Clipper2Lib::Active* a) {
  using namespace Clipper2Lib;
  RingsTrace& t = rings_trace();
  auto ptype = [](const Active* e) { return std::to_string(e->local_min->polytype == PathType::Subject ? 0 : 1); };
  if (t.has_horz_join) return;
  if (!c->horz_join_list_.empty()) {
    // ConvertHorzSegsToJoins has made a join since the last hook (it inserts duplicated OutPts): keep the trace up to the last snapshot
    t.has_horz_join = true;
    t.items.resize(t.last_snap_end);
    t.pending_sp.clear(); t.pending_joins.clear();
    return;
  }
  rings_flush_updates(c, ev == verif::kIntersect ? a : nullptr);
  if (ev != verif::kJoin && ev != verif::kSnapshot) t.prev_x = (ev == verif::kIntersect);
  switch (ev) {
    case verif::kInsertPair: {
      t.n_ip++;
      t.items.push_back(" IP " + std::to_string(rings_index(c, a)) + " " + ptype(a) + " " + std::to_string(a->local_min->is_open ? 1 : 0) + " " +
                        std::to_string(a->wind_dx) + rings_pt(a->bot));
      t.known.insert(a); t.shadow[a] = *a;
      if (a->next_in_ael) { t.known.insert(a->next_in_ael); t.shadow[a->next_in_ael] = *a->next_in_ael; }
      if (a->top.y == a->bot.y || (a->next_in_ael && a->next_in_ael->top.y == a->next_in_ael->bot.y)) t.has_horz = true;
      for (const Active* j : t.pending_joins) { rings_join_item(c, j, true); t.n_deferred++; }
      t.pending_joins.clear();
      t.loop_rb = a->next_in_ael; t.updates_since_ip = false;
      rings_snapshot(c); break; }
    case verif::kInsertOne:
      t.items.push_back(" I1 " + std::to_string(rings_index(c, a)) + " " + ptype(a) + " " + std::to_string(a->wind_dx));
      t.known.insert(a); t.shadow[a] = *a;
      if (a->top.y == a->bot.y) t.has_horz = true;
      t.loop_rb = nullptr;
      rings_snapshot(c); break;
    case verif::kIntersect: {
      t.n_x++;
      Point64 p = a->top;
      const Active* other = a->prev_in_ael;   // after SwapPositionsInAEL the hook edge is the right one of the two
      if (!c->intersect_nodes_.empty()) {
        bool found = false;
        for (const IntersectNode& nd : c->intersect_nodes_)
          if (nd.edge1 == a && nd.edge2 == other) { p = nd.pt; found = true; break; }
        if (!found) rings_fail("kIntersect inside ProcessIntersectList without a matching node");
        t.n_x_node++;
        t.loop_rb = nullptr;
      } else if (rings_in_locmin_loop(c, a, other)) { p = a->bot; t.n_x_locmin++; }
      else {
        t.loop_rb = nullptr;
        bool ha = IsHorizontal(*a), ho = other && IsHorizontal(*other);
        if (ha && ho) {
          // two horizontals: the one DoHorizontal is processing has been popped from sel_, the one it crosses is still waiting there
          auto in_sel = [&](const Active* x) { int n = 0; for (const Active* q = c->sel_; q && n < 100000; q = q->next_in_sel, ++n) if (q == x) return true; return false; };
          bool sa = in_sel(a), so = in_sel(other);
          if (so && !sa) p = Point64(other->curr_x, a->bot.y);          // left to right: horz = hook edge
          else if (sa && !so) p = Point64(a->curr_x, other->bot.y);     // right to left: horz = the other one
          else t.hh_cross = true;
          t.n_x_horz++; t.n_x_hh++;
        }
        else if (ha) { p = Point64(other->curr_x, a->bot.y); t.n_x_horz++; }        // DoHorizontal left to right: horz is the hook edge
        else if (ho) { p = Point64(a->curr_x, other->bot.y); t.n_x_horz++; }        // DoHorizontal right to left; or DoMaxima across a horizontal (same point)
        else t.n_x_maxima++;                                                        // DoMaxima: e.top
      }
      t.last_x_pt = p; t.have_last_x = true;
      rings_patch_sp(p);
      t.items.push_back(" X " + std::to_string(rings_index(c, a) - 1) + rings_pt(p));
      rings_snapshot(c); break; }
    case verif::kRemovePair:
      t.n_rp++;
      rings_patch_sp(a->top);
      t.items.push_back(" RP " + std::to_string(rings_index(c, a)) + rings_pt(a->top));
      t.known.erase(a); t.shadow.erase(a);
      if (a->next_in_ael) { t.known.erase(a->next_in_ael); t.shadow.erase(a->next_in_ael); }
      t.loop_rb = nullptr;
      break;
    case verif::kRemoveOne:
      t.items.push_back(" R1 " + std::to_string(rings_index(c, a)));
      t.known.erase(a); t.shadow.erase(a);
      t.loop_rb = nullptr;
      break;
    case verif::kSnapshot:
      rings_snapshot(c); break;
    case verif::kJoin:
      t.n_join++;
      if (!t.known.count(a) || !a->next_in_ael || !t.known.count(a->next_in_ael)) { t.pending_joins.push_back(a); break; }
      rings_join_item(c, a, false);
      t.loop_rb = nullptr;
      rings_snapshot(c); break;
    case verif::kSplit:
      t.n_split++;
      if (t.flushed_now.count(a)) { t.items.push_back(" SP " + std::to_string(rings_index(c, a)) + rings_pt(a->bot)); t.n_sp_update++; }
      else { t.items.push_back(" SP " + std::to_string(rings_index(c, a))); t.pending_sp.push_back(t.items.size() - 1); }
      break;
  }
}
struct RingsTraceScope {
  RingsTraceScope() { rings_trace().clear(); Clipper2Lib::verif::ael_sink() = rings_sink_fn; }
  ~RingsTraceScope() { Clipper2Lib::verif::ael_sink() = nullptr; }
  bool usable() const { const RingsTrace& t = rings_trace(); return !t.hh_cross && t.pending_sp.empty() && t.pending_joins.empty(); }
  std::string request(int ct, int fr) const {
    const RingsTrace& t = rings_trace();
    std::string s = "AELRINGS " + std::to_string(ct) + " " + std::to_string(fr) + " " + std::to_string(t.items.size());
    for (const std::string& it : t.items) s += it;
    return s;
  }
};
}  // namespace vh
