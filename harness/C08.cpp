// C08 harness: RectClip (real code, in-process).  Spec level: `RECTCLIPCHECK rect path result probes` is judged by the
// exact Spec in Lean (winding numbers at probe points, containment, orientation, new vertices on the boundary).
// Model level: bounds shortcuts, StartLocsAreClockwise, AddCorner (both overloads), the corner loop, and the three
// generated Location helpers; `RCAUTO rect path -> raw ring + start_locs_`: the location/corner automaton
// RectClip64::ExecuteInternal called directly (private members read through `#define private public`), its result
// ring results_[0] read before CheckEdges/TidyEdges run, compared bit for bit with Model/RectClipAuto.lean.
#include <algorithm>
#include <cmath>
#include <cstdint>
#include <cstdlib>
#include <cstdio>
#include <cstring>
#include <deque>
#include <functional>
#include <map>
#include <numeric>
#include <sstream>
#include <string>
#include <vector>
#include <limits>
#define private public
#define protected public
#include "common.h"
#include "clipper.rectclip.cpp"  // the library source itself (found through -I <repo>/CPP/Clipper2Lib/src)
#undef private
#undef protected
using namespace vh;

static const int64_t B40 = (int64_t)1 << 40;
static std::string SR(const Rect64& r) { return S(r.left) + " " + S(r.top) + " " + S(r.right) + " " + S(r.bottom); }

static std::string g_current;
extern "C" void __sanitizer_set_death_callback(void (*)(void));
static void on_death() { fprintf(stderr, "VERIF-CURRENT: %s\n", g_current.c_str()); }

// access to protected members
struct RCX : RectClip64 {
  explicit RCX(const Rect64& r) : RectClip64(r) {}
  Point64 corner1(Location prev, Location curr) { AddCorner(prev, curr); return results_.back()->pt; }
  Point64 corner2(Location& loc, bool cw) { AddCorner(loc, cw); return results_.back()->pt; }
};

static int64_t clamp40(int64_t v) { return std::max(-B40, std::min(B40, v)); }
static Point64 corner(const Rect64& r, int k) {
  switch (k & 3) { case 0: return Point64(r.left, r.top); case 1: return Point64(r.right, r.top); case 2: return Point64(r.right, r.bottom); default: return Point64(r.left, r.bottom); }
}

// ---- exact helpers (statistics and generator control only; the judgement is made in Lean)
typedef __int128 i128;
static int sgn128(i128 v) { return v > 0 ? 1 : (v < 0 ? -1 : 0); }
static int orient(const Point64& a, const Point64& b, const Point64& c) {
  return sgn128((i128)(b.x - a.x) * (c.y - a.y) - (i128)(b.y - a.y) * (c.x - a.x));
}
static bool on_seg(const Point64& p, const Point64& a, const Point64& b) {
  return orient(a, b, p) == 0 && std::min(a.x, b.x) <= p.x && p.x <= std::max(a.x, b.x) && std::min(a.y, b.y) <= p.y && p.y <= std::max(a.y, b.y);
}
static bool segs_meet(const Point64& a, const Point64& b, const Point64& c, const Point64& d) {
  int d1 = orient(a, b, c), d2 = orient(a, b, d), d3 = orient(c, d, a), d4 = orient(c, d, b);
  if (d1 * d2 < 0 && d3 * d4 < 0) return true;
  return (d1 == 0 && on_seg(c, a, b)) || (d2 == 0 && on_seg(d, a, b)) || (d3 == 0 && on_seg(a, c, d)) || (d4 == 0 && on_seg(b, c, d));
}
static bool is_simple(const Path64& p) {
  size_t n = p.size();
  if (n < 3) return false;
  for (size_t i = 0; i < n; ++i) for (size_t j = i + 1; j < n; ++j) {
    Point64 e1 = p[i], e2 = p[(i + 1) % n], f1 = p[j], f2 = p[(j + 1) % n];
    if (j == i + 1 || (i == 0 && j == n - 1)) {
      Point64 shared, p1, p2;
      if (j == i + 1) { shared = e2; p1 = e1; p2 = f2; } else { shared = e1; p1 = e2; p2 = f1; }
      if (p1 == shared || p2 == shared || on_seg(p1, shared, p2) || on_seg(p2, shared, p1)) return false;
    } else if (segs_meet(e1, e2, f1, f2)) return false;
  }
  return true;
}
static int sgn(double d) { return d == 0 ? 0 : (d > 0 ? 1 : -1); }
// same class as C09's known finding kf.lost_crossing: a (corner, edge) pair for which the double CrossProduct is not
// sign-antisymmetric, so the two GetIntersection calls of a "passing right through" step can disagree.
static bool in_lost_crossing_class(const Rect64& r, const Path64& p) {
  size_t n = p.size();
  for (size_t i = 0; i < n; ++i)
    for (int k = 0; k < 4; ++k) {
      Point64 c = corner(r, k);
      const Point64& a = p[i]; const Point64& b = p[(i + 1) % n];
      if (sgn(CrossProduct(c, a, b)) != -sgn(CrossProduct(c, b, a))) return true;
    }
  return false;
}

// ---- probes in doubled coordinates
static std::string probes_for(Rng& g, const Rect64& r, const Path64& p, size_t& count) {
  std::vector<int64_t> xs{2 * r.left, 2 * r.right}, ys{2 * r.top, 2 * r.bottom};
  for (auto& q : p) { xs.push_back(2 * q.x); ys.push_back(2 * q.y); }
  auto prep = [](std::vector<int64_t>& v) {
    std::sort(v.begin(), v.end()); v.erase(std::unique(v.begin(), v.end()), v.end());
    v.insert(v.begin(), v.front() - 12); v.push_back(v.back() + 12);
  };
  prep(xs); prep(ys);
  std::vector<Point64> cand;
  size_t cells = (xs.size() - 1) * (ys.size() - 1);
  const size_t K = 90;
  for (size_t i = 0; i + 1 < xs.size(); ++i) for (size_t j = 0; j + 1 < ys.size(); ++j) {
    if (cells > K && g.next() % cells >= K) continue;
    cand.emplace_back((xs[i] + xs[i + 1]) / 2, (ys[j] + ys[j + 1]) / 2);
  }
  int64_t w2 = 2 * (r.right - r.left), h2 = 2 * (r.bottom - r.top);
  for (int i = 0; i < 8; ++i)  // strictly inside the rectangle (odd doubled coordinates = half-integer points)
    if (w2 > 1 && h2 > 1) cand.emplace_back(2 * r.left + g.range(1, w2 - 1), 2 * r.top + g.range(1, h2 - 1));
  for (int i = 0; i < 6; ++i) {  // outside, beyond one unit
    int64_t d = g.range(3, 3 + std::min<int64_t>(w2 + h2, B40));
    switch (g.next() % 4) {
      case 0: cand.emplace_back(2 * r.left - d, 2 * r.top + g.range(-h2, 2 * h2)); break;
      case 1: cand.emplace_back(2 * r.right + d, 2 * r.top + g.range(-h2, 2 * h2)); break;
      case 2: cand.emplace_back(2 * r.left + g.range(-w2, 2 * w2), 2 * r.top - d); break;
      default: cand.emplace_back(2 * r.left + g.range(-w2, 2 * w2), 2 * r.bottom + d); break;
    }
  }
  count = cand.size();
  std::string s = std::to_string(cand.size());
  for (auto& q : cand) { s += ' '; s += S(q); }
  return s;
}

// The corner loops of ExecuteInternal, `do { ... } while (prev != loc)`, cannot end when `loc == Inside`; that happens exactly
// when GetIntersection reports "no crossing" for a segment whose end point GetNextLocation classified Inside (strictly inside
// the rectangle) although its other end is not strictly inside.  Decided here with the real GetIntersection *before* the
// real RectClip is called: a hit would be a hang of the library (F record), not of the harness.
static bool strictly_inside(const Rect64& r, const Point64& q) { return q.x > r.left && q.x < r.right && q.y > r.top && q.y < r.bottom; }
static bool would_hang(const Rect64& r, const Path64& p, std::string& why) {
  if (r.IsEmpty() || p.size() < 3) return false;
  Rect64 b = GetBounds(p);
  if (!r.Intersects(b) || r.Contains(b)) return false;
  Path64 rp = r.AsPath();
  size_t n = p.size();
  for (size_t i = 0; i < n; ++i) {
    const Point64& cur = p[i]; const Point64& prv = p[(i + n - 1) % n];
    if (!strictly_inside(r, cur) || strictly_inside(r, prv)) continue;
    Location l = Location::Inside; Point64 ip;
    if (!GetIntersection(rp, cur, prv, l, ip)) { why = "segment " + S(prv) + " -> " + S(cur); return true; }
  }
  return false;
}

// model level: the automaton.  Replicates the per-path steps of RectClip64::Execute up to ExecuteInternal.
static void do_auto(const std::string& label, const Rect64& r, const Path64& p) {
  if (r.IsEmpty() || p.size() < 3) return;
  RectClip64 rc(r);
  rc.path_bounds_ = GetBounds(p);
  if (!rc.rect_.Intersects(rc.path_bounds_) || rc.rect_.Contains(rc.path_bounds_)) return;
  g_current = "RCAUTO " + SR(r) + " " + S(p);
  rc.ExecuteInternal(p);
  std::string exp;
  if (rc.results_.empty()) exp = "0";
  else {
    if (rc.results_.size() != 1) emitF(label + ".auto", "ExecuteInternal left more than one ring in results_: " + g_current);
    Path64 ring; OutPt2* op = rc.results_[0]; OutPt2* q = op; size_t guard = 0;
    do { ring.push_back(q->pt); if (q->next->prev != q) { emitF(label + ".auto", "ring links inconsistent: " + g_current); break; } q = q->next; }
    while (q != op && ++guard < 100000000);
    exp = S(ring);
    stat("auto.ring_points", (long long)ring.size());
  }
  exp += " " + std::to_string(rc.start_locs_.size());
  for (Location l : rc.start_locs_) exp += " " + std::to_string((int)l);
  emitM(label + ".auto.model", "RCAUTO " + SR(r) + " " + S(p), exp);
  stat(rc.results_.empty() ? "auto.empty" : "auto.ring");
  stat("auto.start_locs", (long long)rc.start_locs_.size());
}

static void do_clip(Rng& g, const std::string& label, const Rect64& r, const Path64& p, bool force = false) {
  g_current = "RECTCLIP " + SR(r) + " " + S(p);
  { std::string why;
    if (would_hang(r, p, why)) { emitF(label + ".hang", "GetIntersection finds no crossing for a segment entering the rectangle (" + why + "): ExecuteInternal would not terminate: " + g_current); stat("would_hang"); return; } }
  do_auto(label, r, p);
  g_current = "RECTCLIP " + SR(r) + " " + S(p);
  Paths64 out = RectClip(r, Paths64{p});
  // "path by path": clipping several paths in one call must give the results of the single-path calls, one after the other.
  // The previous inputs for the same rectangle are kept and re-submitted together with this one, in both orders.
  {
    static Rect64 last_r; static std::vector<std::pair<Path64, Paths64>> hist;
    if (!(last_r.left == r.left && last_r.top == r.top && last_r.right == r.right && last_r.bottom == r.bottom)) { hist.clear(); last_r = r; }
    if (!hist.empty()) {
      size_t k = std::min<size_t>(hist.size(), 1 + g.next() % 3);
      Paths64 in_fwd, want_fwd, in_bwd, want_bwd;
      for (size_t i = hist.size() - k; i < hist.size(); ++i) { in_fwd.push_back(hist[i].first); want_fwd.insert(want_fwd.end(), hist[i].second.begin(), hist[i].second.end()); }
      in_fwd.push_back(p); want_fwd.insert(want_fwd.end(), out.begin(), out.end());
      in_bwd.push_back(p); want_bwd = out;
      for (size_t i = hist.size() - k; i < hist.size(); ++i) { in_bwd.push_back(hist[i].first); want_bwd.insert(want_bwd.end(), hist[i].second.begin(), hist[i].second.end()); }
      g_current = "RECTCLIP " + SR(r) + " several paths " + S(in_fwd);
      Paths64 got_fwd = RectClip(r, in_fwd), got_bwd = RectClip(r, in_bwd);
      stat("multi_path.calls", 2);
      if (got_fwd != want_fwd) emitF(label + ".path_by_path", "RectClip of several paths differs from the single-path results: rect " + SR(r) + " paths " + S(in_fwd) + " got " + S(got_fwd) + " want " + S(want_fwd));
      if (got_bwd != want_bwd) emitF(label + ".path_by_path", "RectClip of several paths differs from the single-path results: rect " + SR(r) + " paths " + S(in_bwd) + " got " + S(got_bwd) + " want " + S(want_bwd));
      g_current = "RECTCLIP " + SR(r) + " " + S(p);
    }
    hist.emplace_back(p, out);
    if (hist.size() > 6) hist.erase(hist.begin());
  }
  // model level: bounds shortcuts
  std::string exp;
  if (r.IsEmpty()) exp = "";
  else if (p.size() < 3) exp = "0";
  else {
    Rect64 b = GetBounds(p);
    if (!r.Intersects(b)) exp = "0";
    else if (r.Contains(b)) exp = "1 " + S(p);
    else exp = "general";
  }
  if (!exp.empty()) {
    emitM(label + ".shortcut.model", "RCSHORT " + SR(r) + " " + S(p), exp);
    if (exp != "general" && exp != S(out)) emitF(label + ".shortcut", "RectClip result differs from the shortcut of Execute: " + g_current);
    stat(exp == "general" ? "class.general" : (exp == "0" ? "class.shortcut_empty" : "class.shortcut_inside"));
  }
  if (!force && !r.IsEmpty() && in_lost_crossing_class(r, p)) { stat("skipped_spec.kf_lost_crossing_class"); return; }
  if (exp == "general") emitS(label + ".auto.hyp", "RCAUTOHYP " + SR(r) + " " + S(p));
  size_t np = 0;
  std::string probes = probes_for(g, r, p, np);
  emitS(label + ".spec", "RECTCLIPCHECK " + SR(r) + " " + S(p) + " " + S(out) + " " + probes);
  stat("probes.proposed", (long long)np);
  stat(is_simple(p) ? "poly.simple" : "poly.not_simple");
  stat("result.paths", (long long)out.size());
  if (out.empty()) stat("result.empty"); else if (out.size() == 1) stat("result.one"); else stat("result.several");
}

// ---------------------------------------------------------------------------------------------- generators
static Rect64 gen_rect(Rng& g, int kind) {
  switch (kind) {
    case 0: { int64_t l = g.range(-50, 50), t = g.range(-50, 50); return Rect64(l, t, l + g.range(8, 80), t + g.range(8, 80)); }
    case 1: { int64_t l = g.range(-100000, 100000), t = g.range(-100000, 100000); return Rect64(l, t, l + g.range(10, 200000), t + g.range(10, 200000)); }
    case 2: { int64_t l = g.range(-B40, B40 / 2), t = g.range(-B40, B40 / 2); return Rect64(l, t, g.range(l + 1, B40), g.range(t + 1, B40)); }
    default: {
      int64_t w = g.range(8, 1000), h = g.range(8, 1000);
      int64_t l = g.coin() ? B40 - w - g.range(0, 1000) : -B40 + g.range(0, 1000), t = g.coin() ? B40 - h - g.range(0, 1000) : -B40 + g.range(0, 1000);
      return Rect64(l, t, l + w, t + h); }
  }
}
static int64_t around(Rng& g, int64_t lo, int64_t hi) {
  int64_t span = hi - lo;
  switch (g.next() % 9) {
    case 0: return lo;
    case 1: return hi;
    case 2: return clamp40(lo - g.range(1, span + 2));
    case 3: return clamp40(hi + g.range(1, span + 2));
    case 4: return g.coin() ? clamp40(lo - g.range(1, 8 * span + 8)) : clamp40(hi + g.range(1, 8 * span + 8));
    default: return g.range(lo, hi);
  }
}
static Point64 pt_around(Rng& g, const Rect64& r) { return Point64(around(g, r.left, r.right), around(g, r.top, r.bottom)); }
// point in the outside region `side` (0 left,1 top,2 right,3 bottom) at distance about d
static Point64 region_pt(Rng& g, const Rect64& r, int side, int64_t d) {
  int64_t w = r.right - r.left, h = r.bottom - r.top;
  switch (side & 3) {
    case 0: return Point64(clamp40(r.left - d), clamp40(r.top + g.range(-d, h + d)));
    case 1: return Point64(clamp40(r.left + g.range(-d, w + d)), clamp40(r.top - d));
    case 2: return Point64(clamp40(r.right + d), clamp40(r.top + g.range(-d, h + d)));
    default: return Point64(clamp40(r.left + g.range(-d, w + d)), clamp40(r.bottom + d));
  }
}

static Path64 gen_poly(Rng& g, const Rect64& r, std::string& kind) {
  int64_t w = r.right - r.left, h = r.bottom - r.top;
  int64_t m = std::max<int64_t>(4, std::min<int64_t>(w, h));
  Path64 p;
  switch (g.next() % 10) {
    case 0: {  // star-shaped (simple) polygon overlapping the rectangle
      kind = "star";
      int n = (int)g.range(3, 14);
      int64_t rmax = std::max<int64_t>(8, std::min<int64_t>(B40 / 4, g.range(m / 2, 2 * (w + h))));
      int64_t cx = clamp40(r.left + g.range(-w / 2, w + w / 2)), cy = clamp40(r.top + g.range(-h / 2, h + h / 2));
      p = star_poly(g, n, std::max<int64_t>(2, rmax / (int64_t)g.range(2, 6)), rmax, 0, 0);
      for (auto& q : p) q = Point64(clamp40(q.x + cx), clamp40(q.y + cy));
      break; }
    case 1: {  // random polygon (self-intersecting in general)
      kind = "random";
      int n = (int)g.range(3, 10);
      for (int i = 0; i < n; ++i) p.push_back(pt_around(g, r));
      break; }
    case 2: {  // running along sides: many vertices on the side lines, axis-parallel edges
      kind = "along_sides";
      int n = (int)g.range(3, 10);
      for (int i = 0; i < n; ++i) {
        Point64 q = pt_around(g, r);
        if (i && g.chance(60)) { if (g.coin()) q.x = p[i - 1].x; else q.y = p[i - 1].y; }
        if (g.chance(40)) { if (g.coin()) q.x = g.coin() ? r.left : r.right; else q.y = g.coin() ? r.top : r.bottom; }
        p.push_back(q);
      }
      break; }
    case 3: {  // through corners: corners as vertices, or edges passing exactly through a corner
      kind = "through_corners";
      int n = (int)g.range(2, 5);
      for (int i = 0; i < n; ++i) {
        Point64 c = corner(r, (int)(g.next() % 4));
        if (g.chance(35)) p.push_back(c);
        else {
          int64_t lim = std::max<int64_t>(2, std::min<int64_t>(m, (int64_t)1 << 20));
          int64_t dx = g.range(-lim, lim), dy = g.range(-lim, lim), k1 = g.range(1, 3), k2 = g.range(1, 3);
          p.emplace_back(clamp40(c.x - k1 * dx), clamp40(c.y - k1 * dy));
          p.emplace_back(clamp40(c.x + k2 * dx), clamp40(c.y + k2 * dy));
        }
      }
      if (p.size() < 3) p.push_back(pt_around(g, r));
      break; }
    case 4: {  // enclosing the rectangle
      kind = "enclosing";
      int64_t d1 = g.range(0, m), d2 = g.range(0, m), d3 = g.range(0, m), d4 = g.range(0, m);
      p = Path64{Point64(clamp40(r.left - d1), clamp40(r.top - d2)), Point64(clamp40(r.right + d3), clamp40(r.top - d2 - g.range(0, 3))),
                 Point64(clamp40(r.right + d3), clamp40(r.bottom + d4)), Point64(clamp40(r.left - d1 - g.range(0, 3)), clamp40(r.bottom + d4))};
      if (g.coin()) { Point64 e = region_pt(g, r, (int)(g.next() % 4), g.range(1, 2 * m)); p.insert(p.begin() + (long)(g.next() % 4), e); }
      if (g.coin()) std::reverse(p.begin(), p.end());
      std::rotate(p.begin(), p.begin() + (long)(g.next() % p.size()), p.end());
      break; }
    case 5: {  // spiral around the rectangle: several turns through the four outside regions, optionally dipping inside
      kind = "spiral";
      int turns = (int)g.range(1, 3);
      bool cw = g.coin();
      int side = (int)(g.next() % 4);
      int64_t d = g.range(1, m);
      for (int t = 0; t < turns * 4 + (int)g.range(0, 3); ++t) {
        p.push_back(region_pt(g, r, side, d));
        if (g.chance(20)) p.emplace_back(g.range(r.left, r.right), g.range(r.top, r.bottom));
        side = (side + (cw ? 1 : 3)) & 3;
        d += g.range(0, m / 2 + 1);
      }
      break; }
    case 6: {  // the rectangle itself and near copies (coincident edges everywhere)
      kind = "rect_like";
      int64_t a = g.range(-2, 2), b = g.range(-2, 2), c = g.range(-2, 2), d = g.range(-2, 2);
      if (g.chance(30)) a = b = c = d = 0;
      p = rect_path(r.left + a, r.top + b, r.right + c, r.bottom + d);
      if (g.coin()) std::reverse(p.begin(), p.end());
      std::rotate(p.begin(), p.begin() + (long)(g.next() % 4), p.end());
      if (g.chance(30)) p.insert(p.begin() + 1, Point64((p[0].x + p[1].x) / 2, (p[0].y + p[1].y) / 2));
      break; }
    case 7: {  // degenerate: duplicates, collinear, spikes, few points
      kind = "degenerate";
      int n = (int)g.range(0, 8);
      Point64 a = pt_around(g, r), b = pt_around(g, r);
      for (int i = 0; i < n; ++i) {
        switch (g.next() % 4) {
          case 0: p.push_back(i ? p[i - 1] : a); break;
          case 1: { int64_t k = g.range(-2, 3); p.emplace_back(clamp40(a.x + k * ((b.x - a.x) / 4)), clamp40(a.y + k * ((b.y - a.y) / 4))); break; }
          case 2: p.push_back(i >= 2 ? p[i - 2] : b); break;
          default: p.push_back(pt_around(g, r)); break;
        }
      }
      break; }
    case 8: {  // entirely inside / entirely outside / touching from outside
      kind = "inside_or_outside";
      int n = (int)g.range(3, 8);
      int mode = (int)(g.next() % 3);
      for (int i = 0; i < n; ++i) {
        if (mode == 0) p.emplace_back(g.range(r.left, r.right), g.range(r.top, r.bottom));
        else if (mode == 1) p.emplace_back(clamp40(r.right + g.range(1, m)), clamp40(r.top + g.range(-m, h + m)));
        else p.emplace_back(clamp40(r.left - g.range(0, m)), clamp40(r.top + g.range(-m, h + m)));
      }
      break; }
    default: {  // convex-ish polygon cut by one or two sides: large triangle / quad
      kind = "big_triangle";
      int n = (int)g.range(3, 4);
      for (int i = 0; i < n; ++i) p.push_back(region_pt(g, r, (int)(g.next() % 4), g.range(1, 4 * m)));
      if (g.coin()) p[0] = Point64(g.range(r.left, r.right), g.range(r.top, r.bottom));
      break; }
  }
  return p;
}

static int64_t gcd_ext(int64_t a, int64_t b, int64_t& x, int64_t& y) {
  if (b == 0) { x = 1; y = 0; return a; }
  int64_t x1, y1; int64_t d = gcd_ext(b, a % b, x1, y1);
  x = y1; y = x1 - (a / b) * y1; return d;
}
// an edge a b passing corner k of r at a distance far below one unit: cross(a - c, b - c) = t, |t| small
static bool graze_corner(Rng& g, const Rect64& r, int k, int64_t mag, int64_t tmax, Point64& a, Point64& b) {
  Point64 c = corner(r, k);
  int64_t u = g.range(1, mag), v = g.range(1, mag);
  int64_t x, y; int64_t d = gcd_ext(u, v, x, y);
  u /= d; v /= d;
  gcd_ext(u, v, x, y);
  int64_t t = g.range(-tmax, tmax);
  i128 q0 = (i128)t * x, p0 = -(i128)t * y;
  i128 sh = p0 >= 0 ? -(p0 / u) : ((-p0) / u + 1);
  i128 p = p0 + sh * u, q = q0 + sh * v;
  i128 extra = g.range(0, std::max<int64_t>(0, mag / std::max(u, v)));
  p += extra * u; q += extra * v;
  if (p <= 0 || q <= 0 || p > 4 * (i128)mag || q > 4 * (i128)mag) return false;
  int sx = (k == 0 || k == 3) ? 1 : -1, sy = (k == 0 || k == 1) ? 1 : -1;
  a = Point64(c.x - sx * u, c.y + sy * v);
  b = Point64(c.x + sx * (int64_t)p, c.y - sy * (int64_t)q);
  if (std::llabs(a.x) > B40 || std::llabs(a.y) > B40 || std::llabs(b.x) > B40 || std::llabs(b.y) > B40) return false;
  if (g.coin()) std::swap(a, b);
  return true;
}

static std::string L(Location l) { return std::to_string((int)l); }

int main(int argc, char** argv) {
  Rng g(seed_from_args(argc, argv));
  bool thorough = thorough_from_args(argc, argv);
  __sanitizer_set_death_callback(on_death);

  // ---- model level: finite tables, exhaustively
  for (int a = 0; a < 5; ++a) for (int cw = 0; cw < 2; ++cw)
    emitM("adjacent.model", "ADJ " + std::to_string(a) + " " + std::to_string(cw), L(GetAdjacentLocation((Location)a, cw != 0)));
  for (int a = 0; a < 5; ++a) for (int b = 0; b < 5; ++b) {
    emitM("heading.model", "HCW " + std::to_string(a) + " " + std::to_string(b), HeadingClockwise((Location)a, (Location)b) ? "1" : "0");
    emitM("opposites.model", "OPP " + std::to_string(a) + " " + std::to_string(b), AreOpposites((Location)a, (Location)b) ? "1" : "0");
  }
  {
    Rect64 r(-7, 3, 20, 40);
    for (int a = 0; a < 4; ++a) for (int b = 0; b < 4; ++b) {
      RCX rc(r);
      emitM("addcorner1.model", "ADDCORNER1 " + SR(r) + " " + std::to_string(a) + " " + std::to_string(b), S(rc.corner1((Location)a, (Location)b)));
    }
    for (int a = 0; a < 4; ++a) for (int cw = 0; cw < 2; ++cw) {
      RCX rc(r); Location loc = (Location)a;
      Point64 q = rc.corner2(loc, cw != 0);
      emitM("addcorner2.model", "ADDCORNER2 " + SR(r) + " " + std::to_string(a) + " " + std::to_string(cw), S(q) + " " + L(loc));
    }
    for (int a = 0; a < 4; ++a) for (int b = 0; b < 4; ++b) for (int cw = 0; cw < 2; ++cw) {
      RCX rc(r); Location prev = (Location)a, loc = (Location)b;
      Path64 pts; int steps = 0;
      do { pts.push_back(rc.corner2(prev, cw != 0)); ++steps; } while (prev != loc && steps < 10);
      emitM("cornerloop.model", "CORNERLOOP " + SR(r) + " " + std::to_string(a) + " " + std::to_string(b) + " " + std::to_string(cw), S(pts));
      if (steps > 4) emitF("cornerloop", "corner loop ran more than 4 steps");
    }
  }
  int NS = thorough ? 20000 : 1000;
  for (int t = 0; t < NS; ++t) {
    int n = (int)g.range(0, 9);
    std::vector<Location> locs; std::string s = std::to_string(n);
    int cur = (int)(g.next() % 4);
    for (int i = 0; i < n; ++i) {
      if (g.chance(70)) cur = (cur + (g.coin() ? 1 : 3)) & 3; else cur = (int)(g.next() % 5);
      locs.push_back((Location)cur); s += " " + std::to_string(cur);
      if (cur == 4) cur = 0;
    }
    emitM("startlocs.model", "SLCW " + s, StartLocsAreClockwise(locs) ? "1" : "0");
  }

  // ---- corpus
  {
    Rect64 r(0, 0, 24, 24);
    do_clip(g, "corpus", r, Path64{});
    do_clip(g, "corpus", r, Path64{Point64(5, 5), Point64(30, 30)});
    do_clip(g, "corpus", r, rect_path(0, 0, 24, 24));
    do_clip(g, "corpus", r, rect_path(-8, -8, 32, 32));
    do_clip(g, "corpus", r, rect_path(8, 8, 16, 16));
    do_clip(g, "corpus", r, rect_path(-8, 8, 32, 16));
    do_clip(g, "corpus", r, rect_path(0, 8, 24, 16));
    do_clip(g, "corpus", r, rect_path(24, 0, 48, 24));
    do_clip(g, "corpus", r, Path64{Point64(-8, 12), Point64(12, -8), Point64(32, 12), Point64(12, 32)});
    do_clip(g, "corpus", r, Path64{Point64(-12, 12), Point64(12, -12), Point64(36, 12), Point64(12, 36)});  // diamond through all 4 corners
    do_clip(g, "corpus", Rect64(0, 0, 0, 24), rect_path(-8, 8, 32, 16));
    do_clip(g, "corpus", Rect64(-B40, -B40, B40, B40), Path64{Point64(-B40, -B40), Point64(B40, (int64_t)0), Point64((int64_t)0, B40)});
  }

  // ---- known finding kf.lost_crossing (same root cause as C09's): the edge a -> b misses the corner (347,434) by 1e-8 units;
  // CrossProduct(corner, b, a) == 0 but CrossProduct(corner, a, b) == 1 in doubles, the second GetIntersection call of the
  // "passing right through" branch of RectClip64::ExecuteInternal fails, its result is ignored and ip2 = (0,0) is added:
  // result (1000,1000) (347,1690) (0,0) (347,434) (1535,434) has a vertex 347/434 units outside the rectangle.
  {
    Rect64 r(347, 434, 67109211, 67109298);
    Path64 p{Point64(-28115609, 29720495), Point64(95231410, -100663865), Point64(1000, 1000)};
    do_auto("kf.lost_crossing", r, p);
    Paths64 out = RectClip(r, Paths64{p});
    emitS("kf.lost_crossing.spec", "RECTCLIPCHECK " + SR(r) + " " + S(p) + " " + S(out) + " 2 1500 1500 100 100");
  }

  // ---- finding candidate kf.boundary_sliver, judged by the letter of the property (RECTCLIPCHECK_STRICT: every probe strictly
  // inside the rectangle).  The edge (-176,73) -> (316,38) crosses the right side x = 63 at y = 55.998; GetSegmentIntersectPt
  // computes 316 + t * (-492) = 62.99999999999999 and truncates it (static_cast) to x = 62, so the result polygon has the
  // edge (62,55) -> (63,13) and the point (62.5, 39.5) - strictly inside the rectangle, 0.5 from its side, far from the input
  // path, winding -1 in the input - is not covered.  The generic generator judges probes more than one unit inside only.
  {
    Rect64 r(22, 3, 63, 56);
    Path64 p{Point64(-176, 73), Point64(316, 38), Point64(34, 11)};
    do_auto("kf.boundary_sliver", r, p);
    Paths64 out = RectClip(r, Paths64{p});
    emitS("kf.boundary_sliver.spec", "RECTCLIPCHECK_STRICT " + SR(r) + " " + S(p) + " " + S(out) + " 3 125 79 80 60 200 200");
  }

  // ---- lattice polygons: grid -2..5 (spacing 8) around the rectangle [0,3]^2 * 8
  {
    const int64_t SP = 8;
    Rect64 r(0, 0, 3 * SP, 3 * SP);
    std::vector<Point64> grid;
    for (int x = -2; x <= 5; ++x) for (int y = -2; y <= 5; ++y) grid.emplace_back(x * SP, y * SP);
    size_t G = grid.size();
    if (thorough) {
      // every triangle, both orientations alternately by index parity plus a second pass on a third of them
      for (size_t i = 0; i < G; ++i) for (size_t j = i + 1; j < G; ++j) for (size_t k = j + 1; k < G; ++k) {
        bool flip = ((i + j + k) & 1) != 0;
        do_clip(g, "lattice.tri", r, flip ? Path64{grid[i], grid[k], grid[j]} : Path64{grid[i], grid[j], grid[k]});
        if ((i + 2 * j + 3 * k) % 3 == 0) do_clip(g, "lattice.tri", r, !flip ? Path64{grid[i], grid[k], grid[j]} : Path64{grid[i], grid[j], grid[k]});
      }
    } else {
      for (int t = 0; t < 3000; ++t) do_clip(g, "lattice.tri", r, Path64{g.pick(grid), g.pick(grid), g.pick(grid)});
    }
    int NP = thorough ? 80000 : 5000;
    for (int t = 0; t < NP; ++t) {
      int n = (int)g.range(4, 8);
      Path64 p; for (int i = 0; i < n; ++i) p.push_back(g.pick(grid));
      do_clip(g, "lattice.poly" , r, p);
    }
  }

  // ---- random scenes
  int N = thorough ? 150000 : 8000;
  for (int t = 0; t < N; ++t) {
    int rkind = (int)(g.next() % 4);
    Rect64 r = gen_rect(g, rkind);
    std::string kind;
    Path64 p = gen_poly(g, r, kind);
    if (t % 12 == 0) {  // an edge grazing a corner at a tiny distance
      Point64 a, b;
      int64_t mag = std::max<int64_t>(16, std::min<int64_t>(B40 / 4, 4 * (r.right - r.left + r.bottom - r.top)));
      if (graze_corner(g, r, (int)(g.next() % 4), mag, rkind >= 2 ? ((int64_t)1 << (int)g.range(0, 30)) : 3, a, b)) {
        kind = "graze";
        p = Path64{a, b, g.coin() ? Point64(g.range(r.left, r.right), g.range(r.top, r.bottom)) : pt_around(g, r)};
        if (g.coin()) std::reverse(p.begin(), p.end());
      }
    }
    stat("gen.rect" + std::to_string(rkind));
    stat("gen.poly." + kind);
    do_clip(g, "rand." + kind, r, p);
  }
  flush_stats();
  return 0;
}
