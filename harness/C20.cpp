// C20 harness: path utilities (TrimCollinear, RDP/RamerDouglasPeucker, SimplifyPath, StripDuplicates, StripNearEqual,
// TranslatePath, GetBounds, PerpendicDistFromLineSqrd).  Every modelled function is compared bit for bit with its Lean
// model (M records) and every clause of the property is judged on the real output by the exact Lean Spec (S records).
#include "common.h"
using namespace vh;

typedef __int128 i128;

static std::string B(bool b) { return b ? "1" : "0"; }
static std::string SF(const std::vector<bool>& f) {
  std::string s = std::to_string(f.size());
  for (bool b : f) s += b ? " 1" : " 0";
  return s;
}
static int64_t max_abs(const Path64& p) {
  int64_t m = 0;
  for (auto& q : p) { m = std::max(m, q.x < 0 ? -q.x : q.x); m = std::max(m, q.y < 0 ? -q.y : q.y); }
  return m;
}
static bool collinear3(const Point64& a, const Point64& b, const Point64& c) {
  return (i128)(b.x - a.x) * (c.y - b.y) == (i128)(b.y - a.y) * (c.x - b.x);
}
// hypothesis of the corner clause: no repeated point, no 180-degree reversal (exact)
static bool forward_only(const Path64& p, bool closed) {
  size_t n = p.size();
  if (n < 3) return true;
  size_t cnt = closed ? n : n - 2;
  for (size_t i = 0; i < cnt; ++i) {
    const Point64 &a = p[i], &b = p[(i + 1) % n], &c = p[(i + 2) % n];
    if (!collinear3(a, b, c)) continue;
    i128 dot = (i128)(b.x - a.x) * (c.x - b.x) + (i128)(b.y - a.y) * (c.y - b.y);
    if (dot <= 0) return false;
  }
  return true;
}

// ------------------------------------------------------------------------------------------ generators (G-PATH)
static int64_t coord(Rng& g, int cls) {
  switch (cls) {
    case 0: return g.range(-2, 2);
    case 1: return g.range(-6, 6);
    case 2: return g.range(-40, 40);
    case 3: return g.range(-1000000, 1000000);
    default: return g.range(-((int64_t)1 << 40), (int64_t)1 << 40);
  }
}
static Path64 gen_random(Rng& g, int n, int cls) {
  Path64 p;
  for (int i = 0; i < n; ++i) p.emplace_back(coord(g, cls), coord(g, cls));
  return p;
}
static Path64 gen_collinear(Rng& g, int n, int cls) {
  int64_t dx = coord(g, std::min(cls, 3)), dy = coord(g, std::min(cls, 3));
  Point64 o(coord(g, cls), coord(g, cls));
  Path64 p;
  for (int i = 0; i < n; ++i) { int64_t k = g.range(-5, 5); p.emplace_back(o.x + k * dx, o.y + k * dy); }
  return p;
}
static Path64 with_repeats(Rng& g, const Path64& src) {
  Path64 p;
  for (auto& q : src) { int k = g.chance(40) ? (int)g.range(2, 3) : 1; for (int i = 0; i < k; ++i) p.push_back(q); }
  if (!src.empty() && g.chance(50)) p.push_back(src[0]);
  if (!src.empty() && g.chance(20)) p.push_back(src[0]);
  return p;
}
static Path64 with_spikes(Rng& g, const Path64& src, int cls) {
  Path64 p;
  for (auto& q : src) {
    p.push_back(q);
    if (g.chance(35)) { p.emplace_back(q.x + coord(g, std::min(cls, 3)), q.y + coord(g, std::min(cls, 3))); p.push_back(q); }
  }
  return p;
}
// polygon whose edges are subdivided by extra collinear vertices; start rotated onto an arbitrary vertex
static Path64 gen_subdivided(Rng& g, int corners, int cls) {
  int64_t r = cls == 0 ? 4 : cls == 1 ? 12 : cls == 2 ? 60 : cls == 3 ? 100000 : ((int64_t)1 << 34);
  Path64 base = g.coin() ? star_poly(g, corners, r / 2 + 1, r) : rand_poly(g, corners, r);
  Path64 p;
  int64_t K = g.range(1, 4);
  for (size_t i = 0; i < base.size(); ++i) {
    Point64 a(base[i].x * K, base[i].y * K), b(base[(i + 1) % base.size()].x * K, base[(i + 1) % base.size()].y * K);
    p.push_back(a);
    if (K > 1 && g.chance(70)) {
      std::vector<int64_t> js;
      for (int64_t j = 1; j < K; ++j) if (g.chance(60)) js.push_back(j);
      for (int64_t j : js) p.emplace_back(a.x + (b.x - a.x) / K * j, a.y + (b.y - a.y) / K * j);
    }
  }
  if (!p.empty()) std::rotate(p.begin(), p.begin() + (g.next() % p.size()), p.end());
  return p;
}
// rectilinear staircase with runs
static Path64 gen_stairs(Rng& g, int n, int cls) {
  Path64 p; int64_t x = coord(g, cls), y = coord(g, cls);
  int64_t step = cls >= 4 ? ((int64_t)1 << 30) : cls == 3 ? 1000 : 1;
  for (int i = 0; i < n; ++i) {
    p.emplace_back(x, y);
    int d = (int)(g.next() % 4);
    int64_t s = step * g.range(1, 3);
    if (d == 0) x += s; else if (d == 1) y += s; else if (d == 2) x -= s; else { if (g.coin()) x += s; else y += s; }
  }
  return p;
}

// ------------------------------------------------------------------------------------------ per-path checks
static const double TINY = 1e-9, HUGE_EPS = 1e100;

static void do_trim(const Path64& p, const std::string& kind) {
  for (int open = 0; open < 2; ++open) {
    Path64 r = TrimCollinear(p, open != 0);
    emitM("trim.model", "TRIM " + B(open) + " " + S(p), S(r));
    emitS("trim.subseq", "SPEC_SUBSEQ " + S(p) + " " + S(r));
    if (open) {
      if (p.size() >= 3 || (p.size() == 2 && p[0] != p[1])) emitS("trim.keeps_ends", "SPEC_KEEPS_ENDS " + S(p) + " " + S(r));
      else stat("trim.keeps_ends.degenerate_open_input_returns_empty");
    } else {
      emitS("trim.area", "SPEC_TRIM_AREA " + S(p) + " " + S(r));
    }
    if (forward_only(p, !open) && p.size() >= 3) {
      Path64 r2 = TrimCollinear(r, open != 0);
      emitS("trim.no_collinear", "SPEC_NO_COLLINEAR " + B(!open) + " " + S(p) + " " + S(r));
      emitS("trim.idempotent", "SPEC_TRIM_IDEM " + B(!open) + " " + S(p) + " " + S(r) + " " + S(r2));
      stat("trim.forward_only." + kind);
      if (r.size() < p.size()) stat("trim.forward_only.removed_something");
    }
    if (r.size() < p.size()) stat("trim.removed_something"); else stat("trim.unchanged");
  }
}

static void do_rdp(const Path64& p, double eps, bool exact_range) {
  Path64 r = RamerDouglasPeucker(p, eps);
  emitM("rdp.model", "RDP " + hexd(eps) + " " + S(p), S(r));
  emitS("rdp.subseq", "SPEC_SUBSEQ " + S(p) + " " + S(r));
  if (p.empty()) return;
  size_t len = p.size();
  std::vector<bool> flags(len);
  flags[0] = true; flags[len - 1] = true;
  RDP(p, 0, len - 1, Sqr(eps), flags);
  emitM("rdp.flags.model", "RDPFLAGS " + hexd(eps) + " " + S(p), SF(flags));
  if (len >= 2 && p.front() == p.back()) stat("rdp.spec.front_eq_back");
  emitS("rdp.keeps_ends", "SPEC_KEEPS_ENDS " + S(p) + " " + S(r));
  if (exact_range && len >= 5) {
    emitS("rdp.eps", "SPEC_RDP_EPS " + hexd(eps) + " " + S(p) + " " + SF(flags) + " " + S(r));
    if (r.size() < len) stat("rdp.removed_something"); else stat("rdp.unchanged");
  }
}

static void do_simplify(const Path64& p, double eps, bool exact_range) {
  for (int closed = 0; closed < 2; ++closed) {
    Path64 r = SimplifyPath(p, eps, closed != 0);
    emitM("simplify.model", "SIMPLIFY " + hexd(eps) + " " + B(closed) + " " + S(p), S(r));
    emitS("simplify.subseq", "SPEC_SUBSEQ " + S(p) + " " + S(r));
    if (!closed) emitS("simplify.keeps_ends", "SPEC_KEEPS_ENDS " + S(p) + " " + S(r));
    if (exact_range && p.size() >= 4) {
      emitS("simplify.fixpoint", "SPEC_SIMPLIFY_FIXPOINT " + hexd(eps) + " " + B(closed) + " " + S(r));
      if (r.size() < p.size()) stat("simplify.removed_something"); else stat("simplify.unchanged");
    }
  }
}

static void do_strip(Rng& g, const Path64& p) {
  for (int closed = 0; closed < 2; ++closed) {
    Path64 r = p;
    StripDuplicates(r, closed != 0);
    emitM("stripdup.model", "STRIPDUP " + B(closed) + " " + S(p), S(r));
    emitS("stripdup.spec", "SPEC_STRIPDUP " + B(closed) + " " + S(p) + " " + S(r));
    static const double ds[] = {0.0, 1.0, 2.5, 4.0, 26.0, 1e12, 1e100};
    double md = ds[g.next() % 7];
    Path64 r2 = StripNearEqual(p, md, closed != 0);
    emitM("stripnear.model", "STRIPNEAR " + hexd(md) + " " + B(closed) + " " + S(p), S(r2));
    emitS("stripnear.subseq", "SPEC_SUBSEQ " + S(p) + " " + S(r2));
  }
}

static void do_misc(Rng& g, const Path64& p) {
  Rect64 b = GetBounds(p);
  std::string bs = S(b.left) + " " + S(b.top) + " " + S(b.right) + " " + S(b.bottom);
  emitM("bounds.model", "BOUNDS " + S(p), bs);
  emitS("bounds.spec", "SPEC_BOUNDS " + S(p) + " " + bs);
  // the other overloads of GetBounds (PathD, Paths64, PathsD and the converting <T,T2> templates): same min/max clause; the
  // double results are integer-valued for integer input below 2^53 and are handed to the Lean judge as integers
  {
    bool small = true;
    for (auto& q : p) if (std::llabs(q.x) > ((int64_t)1 << 52) || std::llabs(q.y) > ((int64_t)1 << 52)) small = false;
    auto judgeD = [&](const char* label, const RectD& r, const Path64& all) {
      if (all.empty()) {
        const double mx = (std::numeric_limits<double>::max)(), lo = std::numeric_limits<double>::lowest();
        if (!(r.left == mx && r.top == mx && r.right == lo && r.bottom == lo)) emitF(label, "empty input: invalid rect expected");
        stat("bounds.D.empty");
        return;
      }
      if (r.left != std::floor(r.left) || r.top != std::floor(r.top) || r.right != std::floor(r.right) || r.bottom != std::floor(r.bottom) ||
          std::fabs(r.left) > 9.1e15 || std::fabs(r.top) > 9.1e15 || std::fabs(r.right) > 9.1e15 || std::fabs(r.bottom) > 9.1e15) {
        emitF(label, "bounds of integer-valued input are not integers of the input's magnitude: " + S(all) + " -> " + hexd(r.left) + " " + hexd(r.top) + " " + hexd(r.right) + " " + hexd(r.bottom));
        return;
      }
      emitS(label, "SPEC_BOUNDS " + S(all) + " " + S((int64_t)r.left) + " " + S((int64_t)r.top) + " " + S((int64_t)r.right) + " " + S((int64_t)r.bottom));
    };
    if (small) {
      PathD pd; for (auto& q : p) pd.emplace_back((double)q.x, (double)q.y);
      judgeD("bounds.spec.PathD", GetBounds(pd), p);
      judgeD("bounds.spec.PathD_from_Path64", GetBounds<double, int64_t>(p), p);
      // a second path: the mirror image through the origin (all signs flipped), so all-negative inputs occur as often as all-positive ones
      Path64 m; for (auto& q : p) m.emplace_back(-q.x, -q.y);
      PathD md; for (auto& q : m) md.emplace_back((double)q.x, (double)q.y);
      judgeD("bounds.spec.PathD", GetBounds(md), m);
      Paths64 two{p, m}; PathsD twoD{pd, md};
      Path64 all = p; all.insert(all.end(), m.begin(), m.end());
      judgeD("bounds.spec.PathsD", GetBounds(twoD), all);
      judgeD("bounds.spec.PathsD", GetBounds(PathsD{md}), m);
      judgeD("bounds.spec.PathsD_from_Paths64", GetBounds<double, int64_t>(Paths64{m}), m);
      Rect64 b2 = GetBounds(two);
      if (!all.empty()) emitS("bounds.spec.Paths64", "SPEC_BOUNDS " + S(all) + " " + S(b2.left) + " " + S(b2.top) + " " + S(b2.right) + " " + S(b2.bottom));
      Rect64 b3 = GetBounds<int64_t, double>(md);
      if (!m.empty()) emitS("bounds.spec.Path64_from_PathD", "SPEC_BOUNDS " + S(m) + " " + S(b3.left) + " " + S(b3.top) + " " + S(b3.right) + " " + S(b3.bottom));
    }
  }
  int64_t dx = coord(g, (int)(g.next() % 5)), dy = coord(g, (int)(g.next() % 5));
  Path64 t = TranslatePath(p, dx, dy);
  emitM("translate.model", "TRANSLATE " + S(dx) + " " + S(dy) + " " + S(p), S(t));
  emitS("translate.spec", "SPEC_TRANSLATE " + S(dx) + " " + S(dy) + " " + S(p) + " " + S(t));
  if (p.size() >= 3) {
    for (int k = 0; k < 3; ++k) {
      Point64 q = p[g.next() % p.size()], a = p[g.next() % p.size()], c = p[g.next() % p.size()];
      if (k == 1) q = a; if (k == 2) q = c;
      double d = PerpendicDistFromLineSqrd(q, a, c);
      emitM("pdist.model", "PDIST " + S(q) + " " + S(a) + " " + S(c), hexd(d));
      if ((q == a || q == c) && d != 0) emitF("pdist.zero_at_line_ends", "PDIST " + S(q) + " " + S(a) + " " + S(c));
    }
  }
}

static void do_length(const Path64& p) {
  for (int closed = 0; closed < 2; ++closed) {
    double L = Length(p, closed != 0);
    emitM("length.model", "LENGTH " + B(closed) + " " + S(p), hexd(L));
    emitS("length.spec", "SPEC_LENGTH " + B(closed) + " " + S(p) + " " + hexd(L));
  }
}

static void do_ellipse(Rng& g, bool thorough) {
  static const double rs[] = {0.0, -1.0, 0.3, 0.5, 1.0, 2.5, 10.0, 100.0, 12345.678, 1e6};
  static const size_t st[] = {0, 1, 2, 3, 4, 7, 16, 100};
  int N = thorough ? 600 : 60;
  for (int it = 0; it < N; ++it) {
    Point64 c(coord(g, (int)(g.next() % 5)), coord(g, (int)(g.next() % 5)));
    double rx = rs[g.next() % 10], ry = rs[g.next() % 10];
    if (g.chance(30)) rx = g.unit() * 1000.0;
    if (g.chance(30)) ry = g.unit() * 50.0;
    size_t steps = st[g.next() % 8];
    if ((rx > 1e5 || ry > 1e5) && !thorough && steps <= 2) steps = 16;
    Path64 e = Ellipse<int64_t>(c, rx, ry, steps);
    std::string args = S(c) + " " + hexd(rx) + " " + hexd(ry) + " " + std::to_string(steps);
    emitM("ellipse.model", "ELLIPSE " + args, S(e));
    emitS("ellipse.spec", "SPEC_ELLIPSE " + args + " " + S(e));
    stat(e.empty() ? "ellipse.empty" : steps <= 2 ? "ellipse.default_steps" : "ellipse.given_steps");
  }
  // the Rect overload: centre and radii are those of the rectangle
  for (int it = 0; it < N / 4; ++it) {
    int64_t l = coord(g, 3), t = coord(g, 3), w = g.range(0, 2000), h = g.range(0, 2000);
    Rect64 r(l, t, l + w, t + h);
    size_t steps = st[g.next() % 8];
    Path64 e = Ellipse(r, steps);
    Point64 mp = r.MidPoint();
    std::string args = S(mp) + " " + hexd((double)w * 0.5) + " " + hexd((double)h * 0.5) + " " + std::to_string(steps);
    emitS("ellipse.rect.spec", "SPEC_ELLIPSE " + args + " " + S(e));
  }
}

static void do_path(Rng& g, const Path64& p, const std::string& kind) {
  stat("paths." + kind);
  stat("paths.len." + std::to_string(std::min<size_t>(p.size(), 8)) + (p.size() >= 8 ? "+" : ""));
  int64_t m = max_abs(p);
  bool exact_range = m <= ((int64_t)1 << 24);
  stat(exact_range ? "paths.range.exact(<=2^24)" : "paths.range.large");
  do_trim(p, kind);
  do_strip(g, p);
  do_misc(g, p);
  do_length(p);
  std::vector<double> eps = {0.0, TINY, 1.0, 2.5, HUGE_EPS};
  // scale-relative epsilons so that some, not all, vertices go
  double sc = (double)std::max<int64_t>(m, 1);
  eps.push_back(sc * g.unit() * 0.5);
  eps.push_back(std::floor(sc * g.unit()) * 0.5);
  if (g.chance(30)) eps.push_back(4.9406564584124654e-324);
  for (double e : eps) { do_rdp(p, e, exact_range); do_simplify(p, e, exact_range); }
}

int main(int argc, char** argv) {
  Rng g(seed_from_args(argc, argv));
  bool thorough = thorough_from_args(argc, argv);

  // corpus record and known finding: fixed inputs under their own labels --------------------------------------------------------
  {
    Path64 w = {{0, 0}, {10, 0}, {20, 0}, {20, 1000}, {0, 0}};
    double eps = 1.0;
    Path64 r = RamerDouglasPeucker(w, eps);
    std::vector<bool> flags(w.size());
    flags[0] = true; flags[w.size() - 1] = true;
    RDP(w, 0, w.size() - 1, Sqr(eps), flags);
    emitM("rdp.model", "RDP " + hexd(eps) + " " + S(w), S(r));
    // corpus: the input of the RDP front()==back() defect (repaired in /repo by `fix:` 890f843), kept as a regression record
    emitS("corpus.rdp-front-back", "SPEC_RDP_EPS " + hexd(eps) + " " + S(w) + " " + SF(flags) + " " + S(r));
    emitS("corpus.rdp-front-back", "SPEC_KEEPS_ENDS " + S(w) + " " + S(r));
    Path64 o = {{0, 0}, {10, 1}, {20, 5}, {30, 2}, {40, 0}};
    double big = 1e200;
    Path64 r2 = SimplifyPath(o, big, false);
    emitM("simplify.model", "SIMPLIFY " + hexd(big) + " 0 " + S(o), S(r2));
    emitS("kf.simplify-open-huge-eps", "SPEC_KEEPS_ENDS " + S(o) + " " + S(r2));
  }

  // degenerate and tiny paths, exhaustively on a 3x3 lattice for n <= 3 and sampled for n = 4 ------------------
  do_path(g, Path64(), "empty");
  std::vector<Point64> lat;
  for (int x = -1; x <= 1; ++x) for (int y = -1; y <= 1; ++y) lat.emplace_back(x, y);
  for (auto& a : lat) do_path(g, Path64{a}, "n1");
  for (size_t i = 0; i < lat.size(); ++i) for (size_t j = 0; j < lat.size(); ++j)
    if (thorough || (i * 9 + j) % 4 == 0) do_path(g, Path64{lat[i], lat[j]}, "n2");
  int n3 = thorough ? 729 : 60;
  for (int k = 0; k < n3; ++k) {
    size_t i = thorough ? k / 81 : g.next() % 9, j = thorough ? (k / 9) % 9 : g.next() % 9, l = thorough ? k % 9 : g.next() % 9;
    do_path(g, Path64{lat[i], lat[j], lat[l]}, "n3");
  }
  int n4 = thorough ? 1500 : 80;
  for (int k = 0; k < n4; ++k) do_path(g, Path64{lat[g.next() % 9], lat[g.next() % 9], lat[g.next() % 9], lat[g.next() % 9]}, "n4");

  // structured and random paths ---------------------------------------------------------------------------------
  int N = thorough ? 9000 : 900;
  for (int it = 0; it < N; ++it) {
    int cls = (int)(g.next() % 5);
    int n = (int)g.range(1, thorough ? 16 : 12);
    switch (g.next() % 8) {
      case 0: do_path(g, gen_random(g, n, cls), "random"); break;
      case 1: do_path(g, gen_collinear(g, n, cls), "all-collinear"); break;
      case 2: do_path(g, with_repeats(g, gen_random(g, n, cls)), "repeated"); break;
      case 3: do_path(g, with_spikes(g, gen_random(g, n, cls), cls), "spikes"); break;
      case 4: do_path(g, gen_subdivided(g, (int)g.range(3, 8), cls), "subdivided-polygon"); break;
      case 5: do_path(g, gen_stairs(g, n + 3, cls), "stairs"); break;
      case 6: do_path(g, with_repeats(g, gen_subdivided(g, (int)g.range(3, 6), cls)), "subdivided+repeats"); break;
      default: {
        Path64 p = gen_random(g, n + 2, cls);   // closed-looking: last == first
        p.push_back(p[0]);
        do_path(g, p, "front==back");
      }
    }
  }
  do_ellipse(g, thorough);
  flush_stats();
  return 0;
}
