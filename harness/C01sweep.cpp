// C01 harness "the active edge list stays sorted through the whole sweep": correspondence of the scanbeam model
// lean/ClipperVerif/Model/SweepOrder.lean (theorems Props/C01Sweep.lean, driver Driver/SweepOrder.lean).
//
// For every input (closed subject + clip paths) and a random (clip type, fill rule):
//  (a) the REAL Clipper64::Execute runs with a sink on hook H1 that logs, at every event, the event kind and the AEL as a list of
//      edge identities (identity of an Active = the input edge it currently represents, found by its bot/top end points);
//  (b) a second Clipper64 object with the same input is driven STEP BY STEP through the statements of ClipperBase::ExecuteInternal
//      (the real private member functions Reset, PopScanline, InsertLocalMinimaIntoAEL, DoHorizontal, ConvertHorzSegsToJoins,
//      DoIntersections, DoTopOfScanbeam, ProcessHorzJoins, BuildPaths64 - nothing of /repo is changed), with the same sink; between the
//      calls the AEL is read: after InsertLocalMinimaIntoAEL(y0) [+ horizontals], after DoIntersections(y1), after
//      DoTopOfScanbeam(y1); before DoIntersections the real TopX(e, y1) of every active edge is evaluated.
//      The two event logs and the two solutions must be identical (F record `replica` otherwise): the stepwise driving IS the sweep
//      of ExecuteInternal.
//  Records:
//   S SWEEPHYP  paths  n {y0 y1 k {id TopX}*k}*n      -> ok | ok notgp <why> | ok notnear <why>     every input: Lean decides the hypotheses
//        of sweep_keeps_sorted (general position at every scanline, ...) and checks that the real TopX values are within 1/2 of the
//        exact x (required for |coordinates| <= 2^24); vacuous cases are counted by ./check.
//   M SWEEPISECT k {id TopX}*k -> X k id*k             every scanbeam with at least two edges, every input (horizontal edges, joins,
//        any magnitude included): step (2) of the model on the real keys must give the real AEL after DoIntersections.
//   M SWEEPORDER paths -> B n {y0 y1 I.. X.. T..}*n    inputs that are in scope by this harness's own exact test (the same definitions
//        as Model/SweepOrder.lean `Built.Hyp`, __int128 arithmetic, |coordinates| <= 2^24): the Lean model replays the whole sweep
//        from the input paths ALONE and must predict the AEL order at all three stages of every scanbeam.  If Lean finds the input
//        out of scope the record fails (the two scope tests are compared as well).
#define VERIF_PRIVATE_ACCESS
#include "unity.h"
#include "gp.h"
#include <set>
#ifndef CLIPPER2_VERIF
#error "C01sweep.cpp needs the hooks: compile with -DCLIPPER2_VERIF"
#endif
using namespace vh;
typedef __int128 i128;

static const ClipType CTS[] = {ClipType::Intersection, ClipType::Union, ClipType::Difference, ClipType::Xor};
static const FillRule FRS[] = {FillRule::EvenOdd, FillRule::NonZero, FillRule::Positive, FillRule::Negative};
static const int64_t BOUND = (int64_t)1 << 24;

// ------------------------------------------------------------------------------------------------ edges of the input, as the Lean `build`
struct SEdge { int id; Point64 bot, top; };
struct Key4 { int64_t a, b, c, d; bool operator<(const Key4& o) const { return std::tie(a, b, c, d) < std::tie(o.a, o.b, o.c, o.d); } };
static Key4 key_of(const Point64& bot, const Point64& top) { return {bot.x, bot.y, top.x, top.y}; }

struct Built {
  std::vector<SEdge> edges;
  std::map<int, int> next;                     // edge id -> successor id
  std::vector<std::pair<int, int>> mins;       // (left bound id, right bound id)
  std::vector<int64_t> ys;                     // descending, unique
  std::map<Key4, int> by_geom;
  std::map<int, size_t> index_of_id;
  bool ambiguous = false;
  const SEdge& E(int id) const { return edges[index_of_id.at(id)]; }
};

static i128 exD(const SEdge& e) { return (i128)e.bot.y - e.top.y; }
static i128 exN(const SEdge& e, int64_t y) { return (i128)e.bot.x * ((i128)e.bot.y - e.top.y) + ((i128)e.top.x - e.bot.x) * ((i128)e.bot.y - y); }
static i128 runx(const SEdge& e) { return (i128)e.top.x - e.bot.x; }
static bool slt(const SEdge& a, const SEdge& b) { return runx(a) * exD(b) < runx(b) * exD(a); }
static bool xltBy1(int64_t y, const SEdge& a, const SEdge& b) { return (exN(a, y) + exD(a)) * exD(b) < exN(b, y) * exD(a); }
static bool far(int64_t y, const SEdge& a, const SEdge& b) { return xltBy1(y, a, b) || xltBy1(y, b, a); }
static bool up(const SEdge& e) { return e.top.y < e.bot.y; }

static Built build(const Paths64& ps) {
  Built b;
  int off = 0;
  std::set<int64_t> ys;
  for (const Path64& p : ps) {
    int n = (int)p.size();
    if (n >= 3) {
      std::vector<SEdge> es;
      for (int i = 0; i < n; ++i) {
        const Point64 &a = p[i], &c = p[(i + 1) % n];
        SEdge e; e.id = off + i;
        if (a.y > c.y) { e.bot = a; e.top = c; } else { e.bot = c; e.top = a; }
        es.push_back(e);
        ys.insert(a.y);
      }
      for (int i = 0; i < n; ++i) {
        const SEdge &e = es[i], &f = es[(i + 1) % n];
        const Point64& v = p[(i + 1) % n];
        if (e.top == v && f.bot == v) { if (!b.next.count(e.id)) b.next[e.id] = f.id; }
        else if (e.bot == v && f.top == v) { if (!b.next.count(f.id)) b.next[f.id] = e.id; }
        if (e.bot == v && f.bot == v) { if (slt(e, f)) b.mins.emplace_back(e.id, f.id); else b.mins.emplace_back(f.id, e.id); }
      }
      for (auto& e : es) b.edges.push_back(e);
    }
    off += n;
  }
  for (size_t i = 0; i < b.edges.size(); ++i) {
    b.index_of_id[b.edges[i].id] = i;
    Key4 k = key_of(b.edges[i].bot, b.edges[i].top);
    if (b.by_geom.count(k)) b.ambiguous = true; else b.by_geom[k] = b.edges[i].id;
  }
  b.ys.assign(ys.rbegin(), ys.rend());
  return b;
}

// the same decision as Lean's `inScope` (Built.Hyp with the regenerated predicate, which holds by validGen_ok, and NoTopInside, which
// holds by construction of ys), plus the coordinate bound under which TopX is within 1/2 of the exact x
static bool in_scope(const Built& b, const Paths64& ps, std::string& why) {
  for (auto& p : ps) for (auto& q : p) if (std::llabs(q.x) > BOUND || std::llabs(q.y) > BOUND) { why = "magnitude"; return false; }
  if (b.edges.empty()) { why = "empty"; return false; }
  for (auto& e : b.edges) if (!up(e)) { why = "horizontal-edge"; return false; }
  if (b.ambiguous) { why = "coincident-edges"; return false; }
  // NextOK: the successor starts at the old top and is not the bound of a local minimum on its scanline
  std::set<int> min_bounds;
  for (auto& m : b.mins) {
    if (min_bounds.count(m.first) || min_bounds.count(m.second) || m.first == m.second) { why = "localmin-structure"; return false; }
    min_bounds.insert(m.first); min_bounds.insert(m.second);
    if (!slt(b.E(m.first), b.E(m.second))) { why = "localmin-structure"; return false; }
  }
  for (auto& kv : b.next) {
    const SEdge &e = b.E(kv.first), &s = b.E(kv.second);
    if (!(s.bot == e.top) || min_bounds.count(s.id)) { why = "bound-continuation"; return false; }
  }
  for (size_t k = 0; k + 1 < b.ys.size(); ++k) {
    int64_t y0 = b.ys[k], y1 = b.ys[k + 1];
    for (auto& m : b.mins) {
      const SEdge &l = b.E(m.first), &r = b.E(m.second);
      if (l.bot.y != y0) continue;
      for (auto& e : b.edges) {
        if (!(e.top.y < y0 && y0 <= e.bot.y) || e.id == l.id || e.id == r.id) continue;
        if (!far(y0, e, l) || !far(y0, e, r)) { why = "gp-localmin"; return false; }
      }
    }
    for (size_t i = 0; i < b.edges.size(); ++i) for (size_t j = 0; j < b.edges.size(); ++j) {
      if (i == j) continue;
      const SEdge &a = b.edges[i], &c = b.edges[j];
      if (!(a.top.y <= y1 && y1 < a.bot.y) || !(c.top.y <= y1 && y1 < c.bot.y)) continue;
      if (far(y1, a, c)) continue;
      if (a.top == c.top && a.top.y == y1 && !b.next.count(a.id) && !b.next.count(c.id)) continue;
      why = "gp-top"; return false;
    }
  }
  return true;
}

// ------------------------------------------------------------------------------------------------ reading the AEL
struct Ctx {
  const Built* b = nullptr;
  std::vector<std::string> log;      // one entry per hook event: kind + AEL identities
  long unknown = 0, joined = 0, horizontal = 0;
};
static Ctx& ctx() { static Ctx c; return c; }

static int id_of(const Active* e) {
  auto it = ctx().b->by_geom.find(key_of(e->bot, e->top));
  return it == ctx().b->by_geom.end() ? -1 : it->second;
}
static std::vector<int> ael_ids(const ClipperBase* c) {
  std::vector<int> v;
  for (const Active* e = c->actives_; e; e = e->next_in_ael) {
    int id = id_of(e);
    if (id < 0) ctx().unknown++;
    if (e->join_with != JoinWith::NoJoin) ctx().joined++;
    if (e->top.y == e->bot.y) ctx().horizontal++;
    v.push_back(id);
  }
  return v;
}
static std::string ids_str(const char* tag, const std::vector<int>& v) {
  std::string s = std::string(tag) + " " + std::to_string(v.size());
  for (int x : v) s += " " + std::to_string(x);
  return s;
}
static void log_sink(int ev, const ClipperBase* c, const Active*) {
  ctx().log.push_back(std::to_string(ev) + ":" + ids_str("", ael_ids(c)));
}

struct Beam {
  int64_t y0, y1;
  std::vector<int> ins, isect, top;
  std::vector<std::pair<int, int64_t>> topx;   // (id, TopX(e, y1)) of the AEL before DoIntersections, left to right
};

// ClipperBase::ExecuteInternal, statement by statement, on the real object
static bool step_sweep(Clipper64& c, ClipType ct, FillRule fr, std::vector<Beam>& beams) {
  c.cliptype_ = ct;
  c.fillrule_ = fr;
  c.using_polytree_ = false;
  c.Reset();
  int64_t y;
  if (ct == ClipType::NoClip || !c.PopScanline(y)) return true;
  while (c.succeeded_) {
    c.InsertLocalMinimaIntoAEL(y);
    Active* e;
    while (c.PopHorz(e)) c.DoHorizontal(*e);
    if (c.horz_seg_list_.size() > 0) {
      c.ConvertHorzSegsToJoins();
      c.horz_seg_list_.clear();
    }
    c.bot_y_ = y;
    Beam bm;
    bm.y0 = y;
    bm.ins = ael_ids(&c);
    if (!c.PopScanline(y)) break;
    bm.y1 = y;
    for (const Active* a = c.actives_; a; a = a->next_in_ael) bm.topx.emplace_back(id_of(a), TopX(*a, y));
    c.DoIntersections(y);
    bm.isect = ael_ids(&c);
    c.DoTopOfScanbeam(y);
    bm.top = ael_ids(&c);
    beams.push_back(bm);
    while (c.PopHorz(e)) c.DoHorizontal(*e);
  }
  if (c.succeeded_) c.ProcessHorzJoins();
  return c.succeeded_;
}

static long g_order_budget = 0, g_isect_budget = 0;

static void run_one(Rng& g, const Paths64& subj, const Paths64& clip, const std::string& kind, int64_t R) {
  ClipType ct = CTS[g.next() % 4]; FillRule fr = FRS[g.next() % 4];
  Paths64 all = subj; all.insert(all.end(), clip.begin(), clip.end());
  Built b = build(all);
  Ctx& k = ctx();
  k.b = &b; k.unknown = k.joined = k.horizontal = 0;
  std::string in = "kind=" + kind + " ct=" + std::to_string((int)ct) + " fr=" + std::to_string((int)fr) + " subj=" + S(subj) + " clip=" + S(clip);
  fprintf(stderr, "VERIF-CURRENT: %s\n", in.c_str());

  // (a) the real Execute
  std::vector<std::string> log_real;
  Paths64 sol_real, open_real;
  bool ok_real;
  {
    Clipper64 c;
    c.AddSubject(subj); c.AddClip(clip);
    k.log.clear();
    verif::ael_sink() = log_sink;
    ok_real = c.Execute(ct, fr, sol_real, open_real);
    verif::ael_sink() = nullptr;
    log_real.swap(k.log);
  }
  // (b) the same sweep driven stepwise
  std::vector<Beam> beams;
  Paths64 sol_step, open_step;
  bool ok_step;
  {
    Clipper64 c;
    c.AddSubject(subj); c.AddClip(clip);
    k.log.clear();
    k.unknown = k.joined = k.horizontal = 0;
    verif::ael_sink() = log_sink;
    ok_step = step_sweep(c, ct, fr, beams);
    verif::ael_sink() = nullptr;
    if (ok_step) c.BuildPaths64(sol_step, &open_step);
    c.CleanUp();
  }
  if (ok_real != ok_step || sol_real != sol_step || log_real != k.log) {
    size_t d = 0; while (d < log_real.size() && d < k.log.size() && log_real[d] == k.log[d]) ++d;
    emitF("replica", "the stepwise sweep differs from ExecuteInternal (events " + std::to_string(log_real.size()) + " vs " + std::to_string(k.log.size()) +
          ", first difference at event " + std::to_string(d) + ", solutions " + (sol_real == sol_step ? "equal" : "differ") + "): " + in);
    stat("replica.diverged");
    return;
  }
  if (!ok_real) emitF("execute-returned-false", in);
  stat("runs");
  stat("runs.kind." + kind);
  stat("evaluations.replica_equals_execute");
  stat("hook_events_compared", (long long)log_real.size());
  stat("beams", (long long)beams.size());
  bool small = true;
  for (auto& p : all) for (auto& q : p) if (std::llabs(q.x) > BOUND || std::llabs(q.y) > BOUND) small = false;
  stat(std::string("magnitude.") + (R <= 400 ? "le400" : R <= 100000 ? "le1e5" : R <= BOUND ? "le2p24" : R <= ((int64_t)1 << 40) ? "le2p40" : "gt2p40"));

  // S: hypotheses + the real TopX values
  {
    std::string req = "SWEEPHYP " + S(all) + " " + std::to_string(beams.size());
    for (auto& bm : beams) {
      std::vector<std::pair<int, int64_t>> ks;
      for (auto& p : bm.topx) if (p.first >= 0 && up(b.E(p.first))) ks.push_back(p);
      req += " " + S(bm.y0) + " " + S(bm.y1) + " " + std::to_string(ks.size());
      for (auto& p : ks) req += " " + std::to_string(p.first) + " " + S(p.second);
    }
    emitS(small ? "sweep-hyp" : "sweep-hyp.large", req, "ok");
  }
  // M: step (2) on the real keys, every scanbeam
  for (auto& bm : beams) {
    if (bm.topx.size() < 2) continue;
    bool ok_ids = true;
    for (auto& p : bm.topx) if (p.first < 0) ok_ids = false;
    if (!ok_ids) { stat("isect.skipped_unknown_edge"); continue; }
    // an edge joined to its left neighbour is swept with the neighbour's curr_x (AdjustCurrXAndCopyToSEL), not with TopX: not the model's key
    if (k.joined) { stat("isect.skipped_run_with_joins"); continue; }
    bool changed = bm.ins != bm.isect;
    std::set<int64_t> xs; for (auto& p : bm.topx) xs.insert(p.second);
    bool ties = xs.size() < bm.topx.size();
    if (!changed && !ties && g.chance(70)) { stat("isect.unchanged_beams_not_emitted"); continue; }
    if (g_isect_budget <= 0) { stat("isect.over_budget"); continue; }
    --g_isect_budget;
    std::string req = "SWEEPISECT " + std::to_string(bm.topx.size());
    for (auto& p : bm.topx) req += " " + std::to_string(p.first) + " " + S(p.second);
    emitM("sweep-isect", req, ids_str("X", bm.isect));
    stat(changed ? "isect.emitted.with_swaps" : "isect.emitted.without_swaps");
    if (ties) stat("isect.emitted.with_curr_x_ties");
  }
  // M: the whole sweep from the input alone
  std::string why;
  bool scope = in_scope(b, all, why);
  stat(std::string("scope.") + (scope ? "in" : "out." + why));
  if (scope) {
    if (k.joined) stat("scope.in.runs_with_joined_edges");
    if (k.unknown) emitF("unknown-edge", "an Active of an in-scope input does not carry an input edge: " + in);
    if (g_order_budget > 0) {
      --g_order_budget;
      std::string exp = "B " + std::to_string(beams.size());
      long swaps = 0;
      for (auto& bm : beams) {
        exp += " " + S(bm.y0) + " " + S(bm.y1) + " " + ids_str("I", bm.ins) + " " + ids_str("X", bm.isect) + " " + ids_str("T", bm.top);
        if (bm.ins != bm.isect) ++swaps;
      }
      emitM("sweep-order", "SWEEPORDER " + S(all), exp);
      stat("order.beams_replayed", (long long)beams.size());
      stat("order.beams_with_swaps", swaps);
      stat("order.kind." + kind);
      stat(std::string("order.edges.") + (b.edges.size() <= 6 ? "3-6" : b.edges.size() <= 12 ? "7-12" : b.edges.size() <= 24 ? "13-24" : "25+"));
    } else stat("order.over_budget");
  }
}

// ------------------------------------------------------------------------------------------------ generators
// n-gon with vertices on distinct heights (no horizontal edge) scattered in a box
static Path64 scatter_poly(Rng& g, int n, int64_t r, int64_t cx, int64_t cy) {
  Path64 p;
  std::set<int64_t> used;
  for (int i = 0; i < n; ++i) {
    int64_t y;
    int tries = 0;
    do y = cy + g.range(-r, r); while (used.count(y) && ++tries < 50);
    used.insert(y);
    p.emplace_back(cx + g.range(-r, r), y);
  }
  return p;
}
static Path64 tri(Rng& g, int64_t r, int64_t cx, int64_t cy) { return scatter_poly(g, 3, r, cx, cy); }

int main(int argc, char** argv) {
  Rng g(seed_from_args(argc, argv));
  bool thorough = thorough_from_args(argc, argv);
  g_order_budget = thorough ? 60000 : 4000;
  g_isect_budget = thorough ? 200000 : 12000;
  // fixed corpus: the two crossing triangles of Props/C01Sweep.lean, a pentagram, two squares standing on a corner
  run_one(g, {Path64{Point64(0, 40), Point64(30, 3), Point64(-30, 11)}}, {Path64{Point64(-10, 33), Point64(-31, 0), Point64(34, 20)}}, "corpus.triangles", 40);
  run_one(g, {Path64{Point64(0, 1000), Point64(588, -809), Point64(-951, 309), Point64(951, 311), Point64(-588, -807)}}, {Path64{Point64(-400, -390), Point64(410, -397), Point64(417, 400), Point64(-405, 393)}}, "corpus.pentagram", 1000);
  run_one(g, {Path64{Point64(0, 100), Point64(97, 3), Point64(2, -100), Point64(-101, -2)}}, {Path64{Point64(40, 131), Point64(150, 22), Point64(43, -77), Point64(-64, 27)}}, "corpus.diamonds", 150);
  run_one(g, {rect_path(0, 0, 100, 100)}, {rect_path(50, 37, 150, 141)}, "corpus.squares(horizontal)", 150);
  int N = thorough ? 30000 : 1500;
  for (int i = 0; i < N; ++i) {
    switch (i % 6) {
      case 0: case 1: {   // general position generator of C01, all families and magnitudes
        GpInput in = gen_gp(g);
        run_one(g, in.subj, in.clip, in.kind == "nearparallel" || in.kind == "stairs" || in.kind == "stale-x-coincidence" ? "gp." + in.kind : "gp.plain", in.R);
        break; }
      case 2: {   // triangles: many scanbeams with crossings, few edges
        int64_t r = g.pick(std::vector<int64_t>{30, 100, 1000, 100000, BOUND / 2});
        Paths64 s, c;
        for (int k = (int)g.range(1, 3); k > 0; --k) s.push_back(tri(g, r, g.range(-r / 3, r / 3), g.range(-r / 3, r / 3)));
        for (int k = (int)g.range(1, 2); k > 0; --k) c.push_back(tri(g, r, g.range(-r / 3, r / 3), g.range(-r / 3, r / 3)));
        run_one(g, s, c, "triangles", r);
        break; }
      case 3: {   // scattered self-intersecting polygons, no horizontal edges
        int64_t r = g.pick(std::vector<int64_t>{60, 300, 5000, 1000000, BOUND / 2});
        Paths64 s, c;
        s.push_back(scatter_poly(g, (int)g.range(4, 12), r, 0, 0));
        if (g.chance(70)) c.push_back(scatter_poly(g, (int)g.range(3, 9), r, g.range(-r / 4, r / 4), g.range(-r / 4, r / 4)));
        run_one(g, s, c, "scatter", r);
        break; }
      case 4: {   // stars (mostly convex position of the tips, long AELs)
        int64_t r = g.pick(std::vector<int64_t>{200, 3000, 1000000});
        Paths64 s, c;
        s.push_back(star_poly(g, (int)g.range(5, 14), r / 4, r, 0, 0));
        c.push_back(star_poly(g, (int)g.range(5, 14), r / 4, r, g.range(-r / 3, r / 3), g.range(-r / 3, r / 3)));
        run_one(g, s, c, "stars", r);
        break; }
      default: {  // tiny coordinates: rounding ties and near-ties everywhere (mostly out of scope: counted)
        int64_t r = g.pick(std::vector<int64_t>{6, 12, 25});
        Paths64 s, c;
        s.push_back(scatter_poly(g, (int)g.range(3, 7), r, 0, 0));
        c.push_back(scatter_poly(g, (int)g.range(3, 6), r, 0, 0));
        run_one(g, s, c, "tiny", r);
        break; }
    }
  }
  flush_stats();
  return 0;
}
