// C14 harness (built with -fsanitize=thread): N threads, each working on its own Clipper64 / ClipperD / ClipperOffset /
// RectClip64 / RectClipLines64 objects and free functions (Minkowski, path utilities) on its own data, plus clippers
// fed from ReuseableDataContainer64s shared read-only by all threads.  Every task's result is hashed; the same task
// lists are then run one after another on the main thread and the hashes compared (F records on mismatch).
// A data race is reported by ThreadSanitizer on stderr and makes the process exit with code 66.
#include "common.h"
#include "clipper.engine.cpp"
#include "clipper.offset.cpp"
#include "clipper.rectclip.cpp"
#include <thread>
#include <atomic>
#include <memory>
using namespace vh;

static uint64_t fnv(const std::string& s, uint64_t h = 1469598103934665603ull) {
  for (unsigned char c : s) { h ^= c; h *= 1099511628211ull; }
  return h;
}
static std::string ser_tree(const PolyPath64& pp) {
  std::string s = "(" + S(pp.Polygon()) + " c" + std::to_string(pp.Count());
  for (size_t i = 0; i < pp.Count(); ++i) s += ser_tree(*pp.Child(i));
  return s + ")";
}

// shared, read-only after construction (before any thread starts)
static std::vector<std::unique_ptr<ReuseableDataContainer64>> g_shared;
static std::vector<Paths64> g_shared_paths;   // plain path vectors read by all threads

static const ClipType CTS[] = {ClipType::Intersection, ClipType::Union, ClipType::Difference, ClipType::Xor};
static const FillRule FRS[] = {FillRule::EvenOdd, FillRule::NonZero, FillRule::Positive, FillRule::Negative};
static const JoinType JTS[] = {JoinType::Square, JoinType::Bevel, JoinType::Round, JoinType::Miter};
static const EndType ETS[] = {EndType::Polygon, EndType::Joined, EndType::Butt, EndType::Square, EndType::Round};

static Paths64 gen_polys(Rng& g, int maxn) {
  Paths64 ps;
  int np = (int)g.range(1, 3);
  for (int i = 0; i < np; ++i)
    ps.push_back(g.coin() ? star_poly(g, (int)g.range(3, maxn), 20, 300, g.range(-100, 100), g.range(-100, 100)) : rand_poly(g, (int)g.range(3, maxn), 250));
  return ps;
}

enum { T_BOOL64, T_BOOLD, T_TREE, T_OFFSET, T_RECT, T_RECTLINES, T_MINK, T_SHARED, T_SHARED_PATHS, T_UTIL, T_REUSE_OBJECT, N_TASKS };
static const char* TNAME[] = {"bool64", "boolD", "tree", "offset", "rectclip", "rectcliplines", "minkowski", "shared_container", "shared_paths", "utilities", "reused_object"};

struct Worker {
  Rng g;
  Clipper64 persistent;          // an object that lives across tasks (history inside one thread)
  ClipperOffset persistent_off;
  std::vector<uint64_t> results;
  std::vector<int> kinds;
  explicit Worker(uint64_t seed) : g(seed) {}

  void task() {
    int kind = (int)(g.next() % N_TASKS);
    kinds.push_back(kind);
    std::string r;
    switch (kind) {
      case T_BOOL64: {
        Clipper64 c;
        c.AddSubject(gen_polys(g, 10)); c.AddClip(gen_polys(g, 10));
        if (g.chance(30)) c.AddOpenSubject(Paths64{rand_poly(g, (int)g.range(2, 6), 300)});
        Paths64 a, o;
        bool ok = c.Execute(CTS[g.next() % 4], FRS[g.next() % 4], a, o);
        r = (ok ? "1 " : "0 ") + S(a) + "|" + S(o);
        break;
      }
      case T_BOOLD: {
        ClipperD c(2);
        PathsD s, cl;
        for (auto& p : gen_polys(g, 8)) { PathD q; for (auto& pt : p) q.emplace_back(pt.x * 0.37, pt.y * 0.37); s.push_back(q); }
        for (auto& p : gen_polys(g, 8)) { PathD q; for (auto& pt : p) q.emplace_back(pt.x * 0.37, pt.y * 0.37); cl.push_back(q); }
        c.AddSubject(s); c.AddClip(cl);
        PathsD a;
        bool ok = c.Execute(CTS[g.next() % 4], FRS[g.next() % 2], a);
        r = (ok ? "1 " : "0 ") + SD(a);
        break;
      }
      case T_TREE: {
        Clipper64 c;
        c.AddSubject(gen_polys(g, 12)); c.AddClip(gen_polys(g, 6));
        PolyTree64 t;
        bool ok = c.Execute(CTS[g.next() % 4], FRS[g.next() % 2], t);
        r = (ok ? "1 " : "0 ") + ser_tree(t);
        break;
      }
      case T_OFFSET: {
        int et = (int)(g.next() % 5);
        Paths64 in = et == 0 ? Paths64{star_poly(g, (int)g.range(3, 9), 50, 300)} : Paths64{rand_poly(g, (int)g.range(2, 6), 300)};
        double d = (double)g.range(2, 40) * (et == 0 && g.coin() ? -1 : 1);
        r = S(InflatePaths(in, d, JTS[g.next() % 4], ETS[et], 2.0, g.coin() ? 0.0 : 0.5));
        break;
      }
      case T_RECT: {
        Rect64 rc(g.range(-150, -10), g.range(-150, -10), g.range(10, 150), g.range(10, 150));
        r = S(RectClip(rc, gen_polys(g, 10)));
        break;
      }
      case T_RECTLINES: {
        Rect64 rc(g.range(-150, -10), g.range(-150, -10), g.range(10, 150), g.range(10, 150));
        r = S(RectClipLines(rc, Paths64{rand_poly(g, (int)g.range(2, 9), 300), rand_poly(g, (int)g.range(2, 9), 300)}));
        break;
      }
      case T_MINK: {
        Path64 pat = star_poly(g, (int)g.range(3, 6), 5, 30), path = rand_poly(g, (int)g.range(2, 7), 200);
        r = g.coin() ? S(MinkowskiSum(pat, path, g.coin())) : S(MinkowskiDiff(pat, path, g.coin()));
        break;
      }
      case T_SHARED: {   // own clipper, data shared by every thread
        Clipper64 c;
        size_t i = g.next() % g_shared.size(), j = g.next() % g_shared.size();
        c.AddReuseableData(*g_shared[i]);
        if (j != i) c.AddReuseableData(*g_shared[j]);   // (the same container twice hangs: C12 finding)
        c.AddClip(gen_polys(g, 8));
        Paths64 a;
        bool ok = c.Execute(CTS[g.next() % 4], FRS[g.next() % 2], a);
        r = (ok ? "1 " : "0 ") + S(a);
        break;
      }
      case T_SHARED_PATHS: {   // const path vectors read concurrently
        const Paths64& sp = g_shared_paths[g.next() % g_shared_paths.size()];
        Paths64 a = Intersect(sp, gen_polys(g, 8), FillRule::NonZero);
        r = S(a) + " " + hexd(Area(sp)) + " " + S(InflatePaths(sp, 5, JoinType::Round, EndType::Polygon));
        break;
      }
      case T_UTIL: {
        Path64 p = rand_poly(g, (int)g.range(3, 14), 120);
        Point64 q(g.range(-120, 120), g.range(-120, 120));
        r = S(TrimCollinear(p)) + "|" + S(SimplifyPath(p, 3.0)) + "|" + S(RamerDouglasPeucker(p, 4.0)) + "|" + std::to_string((int)PointInPolygon(q, p)) + "|" + hexd(Area(p)) + "|" +
            S(Ellipse(q, 30.0, 20.0)) + "|" + S(Union(Paths64{p}, FillRule::NonZero));
        break;
      }
      default: {   // objects kept across tasks
        if (g.chance(25)) persistent.Clear();
        persistent.AddSubject(gen_polys(g, 8));
        if (g.coin()) persistent.AddClip(gen_polys(g, 8));
        Paths64 a;
        bool ok = persistent.Execute(CTS[g.next() % 4], FRS[g.next() % 2], a);
        if (g.chance(25)) persistent_off.Clear();
        persistent_off.AddPaths(Paths64{star_poly(g, 5, 40, 200)}, JTS[g.next() % 4], EndType::Polygon);
        Paths64 o;
        persistent_off.Execute((double)g.range(2, 20), o);
        r = (ok ? "1 " : "0 ") + S(a) + "|" + S(o);
        break;
      }
    }
    results.push_back(fnv(r));
  }
};

int main(int argc, char** argv) {
  uint64_t seed = seed_from_args(argc, argv);
  bool thorough = thorough_from_args(argc, argv);
  const int NT = thorough ? 16 : 8;
  const int TASKS = thorough ? 20000 : 2000;
#if !defined(__SANITIZE_THREAD__)
  emitF("c14.not-built-with-tsan", "harness/C14.cpp must be compiled with -fsanitize=thread");
#endif
  {
    Rng g(seed * 7919 + 13);
    for (int i = 0; i < 6; ++i) {
      g_shared.emplace_back(new ReuseableDataContainer64());
      Paths64 ps = gen_polys(g, 12);
      g_shared.back()->AddPaths(ps, PathType::Subject, false);
      if (i % 2) g_shared.back()->AddPaths(Paths64{rand_poly(g, 5, 300)}, PathType::Subject, true);
      g_shared_paths.push_back(ps);
    }
  }
  // concurrent run
  std::vector<std::unique_ptr<Worker>> par, seq;
  for (int t = 0; t < NT; ++t) { par.emplace_back(new Worker(seed * 1000 + t)); seq.emplace_back(new Worker(seed * 1000 + t)); }
  std::atomic<int> ready{0};
  std::atomic<bool> go{false};
  std::vector<std::thread> th;
  for (int t = 0; t < NT; ++t)
    th.emplace_back([&, t] {
      ready.fetch_add(1);
      while (!go.load(std::memory_order_acquire)) std::this_thread::yield();
      for (int k = 0; k < TASKS; ++k) par[t]->task();
    });
  while (ready.load() < NT) std::this_thread::yield();
  go.store(true, std::memory_order_release);
  for (auto& x : th) x.join();
  // sequential reference: the same programs, one thread after another
  for (int t = 0; t < NT; ++t)
    for (int k = 0; k < TASKS; ++k) seq[t]->task();
  long long mism = 0;
  for (int t = 0; t < NT; ++t)
    for (int k = 0; k < TASKS; ++k) {
      stat(std::string("tasks.") + TNAME[seq[t]->kinds[k]]);
      if (par[t]->results[k] != seq[t]->results[k] || par[t]->kinds[k] != seq[t]->kinds[k]) {
        if (++mism <= 20)
          emitF(std::string("c14.concurrent-vs-sequential.") + TNAME[seq[t]->kinds[k]],
                "seed " + std::to_string(seed) + " thread " + std::to_string(t) + " task " + std::to_string(k) + ": result hash differs between the concurrent and the sequential run");
      }
    }
  stat("threads", NT);
  stat("tasks_per_thread", TASKS);
  stat("result_mismatches", mism);
  stat("shared_containers", (long long)g_shared.size());
  flush_stats();
  g_shared.clear();
  return 0;
}
