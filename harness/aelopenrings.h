// Sink for hook H1 (clipper.verif.h) for the open-path assembly model (property C05): everything aelrings.h records (events with the points
// the sweep hands to the output, the AEL with its side bookkeeping, every closed OutPt ring) plus, for open paths, the record of every open
// edge, every open output record point by point with its front_edge / back_edge flags, and the open-specific event data.  Produces the item
// list of the driver command AELOPENRINGS (lean/ClipperVerif/Driver/AelOpenRings.lean), which replays the events on Model/AelOpenRings.lean.
// (Copied from aelrings.h, which stays untouched; identifiers renamed rings_ -> orings_.)
//
// Needs unity.h included with VERIF_PRIVATE_ACCESS.  No hook beyond H1: the point of an event is read from the engine's state at the hook.
// A wrong rule cannot make a wrong model pass: all records are compared after every event.
//
// Items (positions count the edges already announced to the model):
//   U i x y                      as in aelrings.h (also for open edges: `if (IsHotEdge(*e)) AddOutPt(*e, e->top)` of DoTopOfScanbeam / DoHorizontal)
//   IP pos pt isOpen dxLeft x y  (x,y) = left_bound->bot
//   I1 pos pt dx x y             open path end that is a local minimum; (x,y) = left_bound->bot, the point of StartOpenPath
//   X i x y                      (x,y) = the pt of IntersectEdges, by the rules of aelrings.h
//   XL i x y e3                  an X whose pair is one open and one closed edge and for which `pt == edge_o->local_min->vertex->pt &&
//                                !IsOpenEnd(*edge_o->local_min->vertex)`; e3 = position of the edge FindEdgeWithMatchingLocMin(edge_o) returns
//                                (re-computed on the AEL order before the swap), -1 for nullptr
//   RP i x y                     (x,y) = e.top
//   R1 i x y                     open path end that is a local maximum; (x,y) = e.top, the point of `if (IsHotEdge(e)) AddOutPt(e, e.top)`
//   J i x y | SP i x y           as in aelrings.h
//   S k (9 fields)*k  cmp m (stat n (x y)*n)*m  (oorec ofront)*k  mo (stat fheld bheld n (x y)*n)*mo
//                                snapshot: the AEL as in aelsides.h; cmp = 1 while the closed rings are comparable with the model, then every closed
//                                record as in aelrings.h; for every edge the rank of its *open* record among the open records (-1: none / closed edge)
//                                and IsFront; every open record by rank: stat 0 = pts == nullptr, 1 otherwise, front_edge != nullptr,
//                                back_edge != nullptr, the points from outrec->pts following ->prev.
//
// Horizontal joins (ConvertHorzSegsToJoins inserts duplicated OutPts into *closed* rings) are not modelled: unlike aelrings.h the trace is not cut
// there - the side state and the open records are unaffected - but the closed rings are no longer compared (cmp = 0) from the first such join on.
//
// Independently of Lean the sink checks on the real data structure: every ring (open and closed) is a consistent circular doubly linked list; an open
// edge with an outrec owns an open record and is its front_edge or back_edge, which point back; at every open removePair neither edge's vertex_top is an
// open end (the premise under which the IsOpenEnd quirk of JoinOutrecPaths is not modelled).
#pragma once
#include "common.h"
#include <unordered_set>
#include <unordered_map>
#ifndef CLIPPER2_VERIF
#error "aelopenrings.h needs the hooks: compile with -DCLIPPER2_VERIF"
#endif
namespace vh {
struct ORingsTrace {
  std::vector<std::string> items;
  std::vector<size_t> pending_sp;      // SP items waiting for the point of the enclosing IntersectEdges / DoMaxima
  std::unordered_set<const Clipper2Lib::Active*> known;
  std::unordered_map<const Clipper2Lib::Active*, Clipper2Lib::Active> shadow;   // copy of each announced edge as of the last hook
  std::vector<const Clipper2Lib::Active*> pending_joins;
  std::unordered_map<const Clipper2Lib::Active*, bool> needs_trim;   // the copy went through an update that made it horizontal, TrimHorz not yet applied
  std::unordered_set<const Clipper2Lib::Active*> flushed_now;
  const Clipper2Lib::Active* loop_rb = nullptr;
  const Clipper2Lib::Active* last_updated = nullptr;
  Clipper2Lib::Point64 last_x_pt = Clipper2Lib::Point64(0, 0);
  bool have_last_x = false;
  bool has_horz = false;           // a horizontal edge was seen (statistics only)
  bool has_horz_join = false;      // ConvertHorzSegsToJoins made a join (it duplicates OutPts of closed rings): closed rings are not compared from here on
  size_t last_snap_end = 0;        // number of items up to and including the last snapshot
  bool hh_cross = false;           // a horizontal edge crossed another horizontal edge: the point cannot be read off the state
  bool updates_since_ip = false;   // a U item was written since the last kInsertPair
  bool prev_x = false;             // the previous hook was kIntersect (or a kJoin following one)
  size_t nops_seen = 0;                // OutPts of closed records at the previous snapshot
  size_t open_ops_seen = 0;            // OutPts of open records at the previous snapshot
  long last_open_recs = 0, last_open_gone = 0, last_open_held = 0, last_open_finished = 0, last_open_single = 0;   // open records at the last snapshot
  long last_done = 0, last_gone = 0, last_live = 0;   // closed records by state at the last snapshot
  std::string first_error;
  // totals over the process
  long n_update = 0, n_ip = 0, n_x = 0, n_rp = 0, n_join = 0, n_split = 0, n_snap = 0, n_deferred = 0, n_sp_patched = 0, n_sp_update = 0,
       n_x_node = 0, n_x_locmin = 0, n_x_maxima = 0, n_x_horz = 0, n_x_hh = 0, n_join_tie = 0, n_join_node = 0, n_multi_update = 0, n_ring_points = 0, n_orings_dumped = 0,
       n_i1 = 0, n_r1 = 0, n_xl = 0, n_xl_e3 = 0, n_x_open_closed = 0, n_x_open_open = 0, n_rp_open = 0, n_open_rings_dumped = 0, n_open_ring_points = 0, n_update_open = 0;
  void clear() {
    items.clear(); pending_sp.clear(); known.clear(); shadow.clear(); needs_trim.clear(); pending_joins.clear(); flushed_now.clear();
    loop_rb = nullptr; last_updated = nullptr; have_last_x = false; has_horz = false; has_horz_join = false; last_snap_end = 0; hh_cross = false; prev_x = false; nops_seen = 0; open_ops_seen = 0; first_error.clear();
    last_done = last_gone = last_live = 0; last_open_recs = last_open_gone = last_open_held = last_open_finished = last_open_single = 0;
  }
};
inline ORingsTrace& orings_trace() { static thread_local ORingsTrace t; return t; }

inline void orings_fail(const std::string& why) {
  ORingsTrace& t = orings_trace();
  if (t.first_error.empty()) t.first_error = why;
}
// position among the edges already announced to the model
inline int orings_index(const Clipper2Lib::ClipperBase* c, const Clipper2Lib::Active* a) {
  ORingsTrace& t = orings_trace();
  int i = 0;
  for (const Clipper2Lib::Active* e = c->actives_; e; e = e->next_in_ael) {
    if (e == a) return i;
    if (t.known.count(e)) ++i;
  }
  return -1;
}
inline int orings_rank(const Clipper2Lib::ClipperBase* c, const Clipper2Lib::OutRec* o) {
  int r = 0;
  for (size_t j = 0; j < o->idx && j < c->outrec_list_.size(); ++j) if (!c->outrec_list_[j]->is_open) ++r;
  return r;
}
// rank of an open output record among the open ones
inline int orings_orank(const Clipper2Lib::ClipperBase* c, const Clipper2Lib::OutRec* o) {
  int r = 0;
  for (size_t j = 0; j < o->idx && j < c->outrec_list_.size(); ++j) if (c->outrec_list_[j]->is_open) ++r;
  return r;
}
inline std::string orings_pt(const Clipper2Lib::Point64& p) { return " " + std::to_string(p.x) + " " + std::to_string(p.y); }

// U items for every announced edge that went through UpdateEdgeIntoAEL since the last hook
// `swapped` (kIntersect only): the hook edge, which SwapPositionsInAEL has just moved one place to the right; the U items precede the X item,
// so their positions are those before the swap
inline void orings_flush_updates(const Clipper2Lib::ClipperBase* c, const Clipper2Lib::Active* swapped = nullptr) {
  using namespace Clipper2Lib;
  ORingsTrace& t = orings_trace();
  t.flushed_now.clear();
  const Active* latest = nullptr;
  for (const Active* e = c->actives_; e; e = e->next_in_ael) {
    if (e->top.y == e->bot.y) t.has_horz = true;
    if (!t.known.count(e)) continue;
    Active& sh = t.shadow[e];
    if (sh.vertex_top == e->vertex_top) continue;
    int idx = orings_index(c, e), steps = 0, nupd = 0;
    if (swapped && e == swapped) idx -= 1;
    else if (swapped && e == swapped->prev_in_ael) idx += 1;
    // replay UpdateEdgeIntoAEL on the copy.  TrimHorz may skip vertices of a horizontal run (those are never emitted); it runs *after* the
    // kSplit hook inside UpdateEdgeIntoAEL, so the real edge may be seen updated but not yet trimmed: the copy is trimmed lazily.
    bool& needs_trim = t.needs_trim[e];
    while (sh.vertex_top != e->vertex_top && steps < 100000) {
      ++steps;
      if (needs_trim) { TrimHorz(sh, c->preserve_collinear_); needs_trim = false; continue; }
      t.items.push_back(" U " + std::to_string(idx) + orings_pt(sh.top));
      t.n_update++; ++nupd;
      if (IsOpen(sh)) t.n_update_open++;
      sh.bot = sh.top;
      sh.vertex_top = NextVertex(sh);
      sh.top = sh.vertex_top->pt;
      sh.curr_x = sh.bot.x;
      SetDx(sh);
      needs_trim = IsHorizontal(sh) && !IsOpen(sh);
    }
    if (nupd > 1) t.n_multi_update++;
    if (sh.vertex_top != e->vertex_top || !(sh.top == e->top) || !(sh.bot == e->bot)) orings_fail("replay of UpdateEdgeIntoAEL on the shadow edge did not reach the edge's state");
    sh = *e;
    if (nupd == 0) continue;   // only the delayed TrimHorz was seen
    t.flushed_now.insert(e);
    t.updates_since_ip = true;
    if (!latest || e->bot.y <= latest->bot.y) latest = e;   // latest scanline (smallest y), rightmost
  }
  if (latest) t.last_updated = latest;
}

inline void orings_snapshot(const Clipper2Lib::ClipperBase* c) {
  using namespace Clipper2Lib;
  ORingsTrace& t = orings_trace();
  t.n_snap++;
  int k = 0;
  for (const Active* e = c->actives_; e; e = e->next_in_ael) ++k;
  std::string s = " S " + std::to_string(k);
  for (const Active* e = c->actives_; e; e = e->next_in_ael) {
    bool hot = e->outrec != nullptr || e->join_with != JoinWith::NoJoin;
    bool open = e->local_min->is_open;
    int join = e->join_with == JoinWith::NoJoin ? 0 : (e->join_with == JoinWith::Left ? 1 : 2);
    int orec = (!open && e->outrec) ? orings_rank(c, e->outrec) : -1;
    bool front = (!open && e->outrec) ? (e == e->outrec->front_edge) : false;
    s += " " + std::to_string(e->local_min->polytype == PathType::Subject ? 0 : 1) + " " + std::to_string(open ? 1 : 0) +
         " " + std::to_string(e->wind_dx) + " " + std::to_string(e->wind_cnt) + " " + std::to_string(e->wind_cnt2) + " " + (hot ? "1" : "0") +
         " " + std::to_string(join) + " " + std::to_string(orec) + " " + (front ? "1" : "0");
  }
  int m = 0;
  for (const OutRec* o : c->outrec_list_) if (!o->is_open) ++m;
  s += std::string(t.has_horz_join ? " 0 " : " 1 ") + std::to_string(m);
  size_t nops = 0;
  t.last_done = t.last_gone = t.last_live = 0;
  for (const OutRec* o : c->outrec_list_) {
    if (o->is_open) continue;
    t.n_orings_dumped++;
    if (!o->pts) { s += " 0 0"; t.last_gone++; continue; }
    if (o->front_edge) t.last_live++; else t.last_done++;
    int n = 0;
    std::string pts;
    const OutPt* op = o->pts;
    do {
      if (op->next->prev != op || op->prev->next != op) { orings_fail("ring of record " + std::to_string(o->idx) + " is not a consistent doubly linked list"); break; }
      pts += orings_pt(op->pt);
      ++n;
      op = op->prev;
    } while (op != o->pts && n < 1000000);
    nops += n;
    t.n_ring_points += n;
    s += std::string(o->front_edge ? " 1 " : " 2 ") + std::to_string(n) + pts;
  }
  if (nops < t.nops_seen) orings_fail("the number of OutPts of closed records decreased during the sweep");
  t.nops_seen = nops;
  // open part: the record of every edge, then every open record
  for (const Active* e = c->actives_; e; e = e->next_in_ael) {
    bool open = e->local_min->is_open;
    if (open && e->outrec) {
      const OutRec* o = e->outrec;
      if (!o->is_open) orings_fail("open edge owns a closed outrec");
      if (e != o->front_edge && e != o->back_edge) orings_fail("open edge is neither front nor back edge of its outrec");
      if ((o->front_edge && o->front_edge->outrec != o) || (o->back_edge && o->back_edge->outrec != o)) orings_fail("front_edge / back_edge of an open outrec do not point back");
      if (!o->pts) orings_fail("open edge owns an outrec without points");
      s += " " + std::to_string(orings_orank(c, o)) + (e == o->front_edge ? " 1" : " 0");
    } else s += " -1 0";
  }
  int mo = 0;
  for (const OutRec* o : c->outrec_list_) if (o->is_open) ++mo;
  s += " " + std::to_string(mo);
  size_t oops = 0;
  t.last_open_recs = mo; t.last_open_gone = t.last_open_held = t.last_open_finished = t.last_open_single = 0;
  for (const OutRec* o : c->outrec_list_) {
    if (!o->is_open) continue;
    t.n_open_rings_dumped++;
    if (!o->pts) { s += " 0 0 0 0"; t.last_open_gone++; if (o->front_edge || o->back_edge) orings_fail("emptied open record still has an edge"); continue; }
    if (o->front_edge || o->back_edge) t.last_open_held++; else t.last_open_finished++;
    int n = 0;
    std::string pts;
    const OutPt* op = o->pts;
    do {
      if (op->next->prev != op || op->prev->next != op) { orings_fail("list of open record " + std::to_string(o->idx) + " is not a consistent doubly linked list"); break; }
      pts += orings_pt(op->pt);
      ++n;
      op = op->prev;
    } while (op != o->pts && n < 1000000);
    oops += n;
    t.n_open_ring_points += n;
    if (n == 1 && !o->front_edge && !o->back_edge) t.last_open_single++;
    s += std::string(" 1 ") + (o->front_edge ? "1 " : "0 ") + (o->back_edge ? "1 " : "0 ") + std::to_string(n) + pts;
  }
  if (oops < t.open_ops_seen) orings_fail("the number of OutPts of open records decreased during the sweep");
  t.open_ops_seen = oops;
  t.items.push_back(s);
  t.last_snap_end = t.items.size();
}

inline void orings_patch_sp(const Clipper2Lib::Point64& p) {
  ORingsTrace& t = orings_trace();
  for (size_t i : t.pending_sp) { t.items[i] += orings_pt(p); t.n_sp_patched++; }
  t.pending_sp.clear();
}

// Is this kIntersect one of the loop of InsertLocalMinimaIntoAEL that moves the new right bound (pt = right_bound->bot)?  The hook edge must be
// the right bound of the last kInsertPair with no other hook and no UpdateEdgeIntoAEL since; that still leaves DoMaxima / DoHorizontal reaching
// the same edge first.  DoTopOfScanbeam has then set curr_x = top.x (decisive unless the edge is vertical) and bot_y_ is the bottom of the
// scanbeam above the local minimum (= bot.y; during InsertLocalMinimaIntoAEL it still is the previous, larger, bottom - or its initial 0).
inline bool orings_in_locmin_loop(const Clipper2Lib::ClipperBase* c, const Clipper2Lib::Active* a, const Clipper2Lib::Active* other) {
  using namespace Clipper2Lib;
  ORingsTrace& t = orings_trace();
  if (a != t.loop_rb || t.updates_since_ip) return false;
  if (IsHorizontal(*a)) return !(other && other->curr_x > a->bot.x);   // DoHorizontal(right bound) moving right crosses edges beyond bot.x
  bool at_top = a->curr_x == a->top.x, at_bot = a->curr_x == a->bot.x;
  if (at_top && !at_bot) return false;
  if (at_top && at_bot && c->bot_y_ == a->bot.y) {
    if (a->bot.y != 0) return false;
    // vertical edge starting at y == 0, possibly on the first scanline (bot_y_ still 0): let the other edge's curr_x decide
    if (other && !IsHorizontal(*other) && other->curr_x == TopX(*other, a->top.y) && other->curr_x != TopX(*other, a->bot.y)) return false;
  }
  return true;
}

inline void orings_join_item(const Clipper2Lib::ClipperBase* c, const Clipper2Lib::Active* a, bool deferred) {
  using namespace Clipper2Lib;
  ORingsTrace& t = orings_trace();
  const Active* b = a->next_in_ael;
  Point64 p = a->bot;
  if (t.prev_x && t.have_last_x && t.flushed_now.empty() && !deferred) { p = t.last_x_pt; t.n_join_node++; }
  else if (b && b->bot.y < a->bot.y) p = b->bot;
  else if (b && b->bot.y == a->bot.y && !(b->bot == a->bot)) {
    t.n_join_tie++;
    if (deferred || b == t.last_updated) p = b->bot;      // CheckJoinLeft(left_bound) / CheckJoinLeft(e) in UpdateEdgeIntoAEL(e)
    else p = a->bot;                                       // CheckJoinRight(right_bound) / CheckJoinRight(e)
  }
  t.items.push_back(" J " + std::to_string(orings_index(c, a)) + orings_pt(p));
}

inline void orings_sink_fn(int ev, const Clipper2Lib::ClipperBase* c, const Clipper2Lib::Active* a) {
  using namespace Clipper2Lib;
  ORingsTrace& t = orings_trace();
  auto ptype = [](const Active* e) { return std::to_string(e->local_min->polytype == PathType::Subject ? 0 : 1); };
  // ConvertHorzSegsToJoins has made a join since the last hook (it inserts duplicated OutPts into closed rings): closed rings are not compared any more
  if (!c->horz_join_list_.empty()) t.has_horz_join = true;
  orings_flush_updates(c, ev == verif::kIntersect ? a : nullptr);
  if (ev != verif::kJoin && ev != verif::kSnapshot) t.prev_x = (ev == verif::kIntersect);
  switch (ev) {
    case verif::kInsertPair: {
      t.n_ip++;
      t.items.push_back(" IP " + std::to_string(orings_index(c, a)) + " " + ptype(a) + " " + std::to_string(a->local_min->is_open ? 1 : 0) + " " +
                        std::to_string(a->wind_dx) + orings_pt(a->bot));
      t.known.insert(a); t.shadow[a] = *a;
      if (a->next_in_ael) { t.known.insert(a->next_in_ael); t.shadow[a->next_in_ael] = *a->next_in_ael; }
      if (a->top.y == a->bot.y || (a->next_in_ael && a->next_in_ael->top.y == a->next_in_ael->bot.y)) t.has_horz = true;
      for (const Active* j : t.pending_joins) { orings_join_item(c, j, true); t.n_deferred++; }
      t.pending_joins.clear();
      t.loop_rb = a->next_in_ael; t.updates_since_ip = false;
      orings_snapshot(c); break; }
    case verif::kInsertOne:
      t.n_i1++;
      t.items.push_back(" I1 " + std::to_string(orings_index(c, a)) + " " + ptype(a) + " " + std::to_string(a->wind_dx) + orings_pt(a->bot));
      t.known.insert(a); t.shadow[a] = *a;
      if (a->top.y == a->bot.y) t.has_horz = true;
      t.loop_rb = nullptr;
      orings_snapshot(c); break;
    case verif::kIntersect: {
      t.n_x++;
      Point64 p = a->top;
      const Active* other = a->prev_in_ael;   // after SwapPositionsInAEL the hook edge is the right one of the two
      if (!c->intersect_nodes_.empty()) {
        bool found = false;
        for (const IntersectNode& nd : c->intersect_nodes_)
          if (nd.edge1 == a && nd.edge2 == other) { p = nd.pt; found = true; break; }
        if (!found) orings_fail("kIntersect inside ProcessIntersectList without a matching node");
        t.n_x_node++;
        t.loop_rb = nullptr;
      } else if (orings_in_locmin_loop(c, a, other)) { p = a->bot; t.n_x_locmin++; }
      else {
        t.loop_rb = nullptr;
        bool ha = IsHorizontal(*a), ho = other && IsHorizontal(*other);
        if (ha && ho) {
          // two horizontals: the one DoHorizontal is processing has been popped from sel_, the one it crosses is still waiting there
          auto in_sel = [&](const Active* x) { int n = 0; for (const Active* q = c->sel_; q && n < 100000; q = q->next_in_sel, ++n) if (q == x) return true; return false; };
          bool sa = in_sel(a), so = in_sel(other);
          if (so && !sa) p = Point64(other->curr_x, a->bot.y);          // left to right: horz = hook edge
          else if (sa && !so) p = Point64(a->curr_x, other->bot.y);     // right to left: horz = the other one
          else t.hh_cross = true;
          t.n_x_horz++; t.n_x_hh++;
        }
        else if (ha) { p = Point64(other->curr_x, a->bot.y); t.n_x_horz++; }        // DoHorizontal left to right: horz is the hook edge
        else if (ho) { p = Point64(a->curr_x, other->bot.y); t.n_x_horz++; }        // DoHorizontal right to left; or DoMaxima across a horizontal (same point)
        else t.n_x_maxima++;                                                        // DoMaxima: e.top
      }
      t.last_x_pt = p; t.have_last_x = true;
      orings_patch_sp(p);
      {
        bool ao = IsOpen(*a), oo = other && IsOpen(*other);
        const Active* eo = (other && ao != oo) ? (ao ? a : other) : nullptr;
        if (other && ao && oo) t.n_x_open_open++;
        if (eo) t.n_x_open_closed++;
        if (eo && p == eo->local_min->vertex->pt && !IsOpenEnd(*eo->local_min->vertex)) {
          // FindEdgeWithMatchingLocMin(edge_o), re-computed on the AEL as it was before SwapPositionsInAEL (the hook edge was the left one of the two)
          std::vector<const Active*> v;
          for (const Active* e = c->actives_; e; e = e->next_in_ael) v.push_back(e);
          int ia = -1, io = -1;
          for (size_t j = 0; j < v.size(); ++j) if (v[j] == a) ia = (int)j;
          if (ia >= 1) std::swap(v[ia - 1], v[ia]);
          for (size_t j = 0; j < v.size(); ++j) if (v[j] == eo) io = (int)j;
          const Active* e3 = nullptr;
          for (int j = io + 1; j < (int)v.size(); ++j) {
            if (v[j]->local_min == eo->local_min) { e3 = v[j]; break; }
            if (!IsHorizontal(*v[j]) && eo->bot != v[j]->bot) break;
          }
          if (!e3) for (int j = io - 1; j >= 0; --j) {
            if (v[j]->local_min == eo->local_min) { e3 = v[j]; break; }
            if (!IsHorizontal(*v[j]) && eo->bot != v[j]->bot) break;
          }
          t.n_xl++; if (e3) t.n_xl_e3++;
          if (e3 && !t.known.count(e3)) orings_fail("FindEdgeWithMatchingLocMin returned an edge the trace has not announced");
          t.items.push_back(" XL " + std::to_string(orings_index(c, a) - 1) + orings_pt(p) + " " + std::to_string(e3 ? orings_index(c, e3) : -1));
        } else
          t.items.push_back(" X " + std::to_string(orings_index(c, a) - 1) + orings_pt(p));
      }
      orings_snapshot(c); break; }
    case verif::kRemovePair:
      t.n_rp++;
      if (a->local_min->is_open) {
        t.n_rp_open++;
        if (IsOpenEnd(*a) || (a->next_in_ael && IsOpenEnd(*a->next_in_ael))) orings_fail("open removePair at an open end vertex (IsOpenEnd quirk of JoinOutrecPaths not modelled)");
      }
      orings_patch_sp(a->top);
      t.items.push_back(" RP " + std::to_string(orings_index(c, a)) + orings_pt(a->top));
      t.known.erase(a); t.shadow.erase(a);
      if (a->next_in_ael) { t.known.erase(a->next_in_ael); t.shadow.erase(a->next_in_ael); }
      t.loop_rb = nullptr;
      break;
    case verif::kRemoveOne:
      t.n_r1++;
      if (!IsOpenEnd(*a)) orings_fail("kRemoveOne for an edge whose vertex_top is not an open end");
      t.items.push_back(" R1 " + std::to_string(orings_index(c, a)) + orings_pt(a->top));
      t.known.erase(a); t.shadow.erase(a);
      t.loop_rb = nullptr;
      break;
    case verif::kSnapshot:
      orings_snapshot(c); break;
    case verif::kJoin:
      t.n_join++;
      if (!t.known.count(a) || !a->next_in_ael || !t.known.count(a->next_in_ael)) { t.pending_joins.push_back(a); break; }
      orings_join_item(c, a, false);
      t.loop_rb = nullptr;
      orings_snapshot(c); break;
    case verif::kSplit:
      t.n_split++;
      if (t.flushed_now.count(a)) { t.items.push_back(" SP " + std::to_string(orings_index(c, a)) + orings_pt(a->bot)); t.n_sp_update++; }
      else { t.items.push_back(" SP " + std::to_string(orings_index(c, a))); t.pending_sp.push_back(t.items.size() - 1); }
      break;
  }
}
struct ORingsTraceScope {
  ORingsTraceScope() { orings_trace().clear(); Clipper2Lib::verif::ael_sink() = orings_sink_fn; }
  ~ORingsTraceScope() { Clipper2Lib::verif::ael_sink() = nullptr; }
  bool usable() const { const ORingsTrace& t = orings_trace(); return !t.hh_cross && t.pending_sp.empty() && t.pending_joins.empty(); }
  std::string final_item;   // " F rev np path*np": ReverseSolution and the real open solution, set by the harness after Execute
  void set_final(bool reverse_solution, const Clipper2Lib::Paths64& solution_open) { final_item = " F " + std::string(reverse_solution ? "1 " : "0 ") + S(solution_open); }
  std::string request(int ct, int fr) const {
    const ORingsTrace& t = orings_trace();
    std::string s = "AELOPENRINGS " + std::to_string(ct) + " " + std::to_string(fr) + " " + std::to_string(t.items.size() + 1);
    for (const std::string& it : t.items) s += it;
    return s + final_item;
  }
};
}  // namespace vh
