import ClipperVerif.Driver.All
open Clipper

partial def loop (h : IO.FS.Stream) (out : IO.FS.Stream) : IO Unit := do
  let line ← h.getLine
  if line.isEmpty then return ()
  let toks := (line.trimAscii.toString.splitOn " ").filter (· ≠ "")
  match toks with
  | [] => out.putStrLn ""
  | cmd :: args =>
    match Driver.dispatch cmd with
    | some p => out.putStrLn (Proto.run p args)
    | none => out.putStrLn s!"PROTO-ERROR unknown command {cmd}"
  loop h out

def main : IO Unit := do
  let out ← IO.getStdout
  loop (← IO.getStdin) out
  out.flush
