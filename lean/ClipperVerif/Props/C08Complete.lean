/-
C08, completeness of the location / corner automaton `RectClip64::ExecuteInternal` for sign-exact arithmetic
(model `Model/RectClipAuto.lean`; first part in `Props/C08.lean`).

1. `RunFine` removal.  For an arithmetic that reports the exact sign of every cross product (`SignExact`) and always
   delivers an intersection point (`IsectTotal`), and a non-empty rectangle, the run hypothesis `RunFine` of
   `Props.C08.executeInternal_total` holds for **every** path (`runFine_exact`): no crossing is missed — neither an
   entering one (`Props.C08.entering_crossing_found_exact`) nor an exiting one (`exit_crossing_found_exact`) — and the
   location a successful `GetIntersection` call reports always consumes the current vertex, except in the `ip == ip2`
   case which the code handles by `GetLocation` (`crossing_location_ready_exact`).  Hence `ExecuteInternal` terminates
   within `2n+2` iterations without any fault for every path (`executeInternal_total_exact`,
   `executeInternal_no_fault_exact`).  Moreover the second `GetIntersection` call of a passing-right-through step,
   whose result the C++ ignores, always succeeds (`through_crossing_found_exact`), so the hypothesis `NoLostCrossingA`
   of `added_points_in_rect` / `raw_ring_in_rect` holds for every path too (`noLostCrossing_exact`,
   `raw_ring_in_rect_exact`).
2. Completeness before `CheckEdges`.  Every input vertex strictly inside the rectangle is passed to `Add`, tagged with
   its index (`inside_vertices_kept_exact`), hence is on the raw ring (`inside_vertices_in_ring_exact`); the `Add` calls
   come in the order of the path — the main loop runs `i` from `0` to `highI` once, there is no wrap-around, the cyclic
   start only fixes the initial location, and the closing corners come last — (`emits_in_path_order`, for every
   arithmetic); the strictly-inside vertices in input order are a sublist of the points passed to `Add`
   (`inside_vertices_sublist_exact`), and `Add` drops a point only when it equals its predecessor (`raw_ring_order`);
   between two consecutive kept vertices only rectangle corners and results of successful `GetIntersection` calls on the
   segments in between are added (`between_kept_vertices_exact`; for an arbitrary arithmetic
   `between_kept_vertices_provenance` and, under `NoLostCrossingA`, `between_kept_vertices`).
   Summary: `raw_ring_complete_exact`.
Everything here is fully proved (no `_partial` theorem); the hypotheses are exactness of the arithmetic, totality of
`PointInPolygon` where the closing logic is involved, and a non-empty rectangle (which `Execute` guarantees).
-/
import ClipperVerif.Props.C08
import ClipperVerif.Lemmas.RectClipComplete
namespace Clipper.Props.C08
open Clipper Clipper.Model.RC Clipper.Lemmas.RC Clipper.Lemmas.RCA Clipper.Lemmas.RCE Clipper.Lemmas.RCG
  Clipper.Lemmas.RCC

/-! ## 1. `RunFine` holds for every path -/

/-- **`exit_crossing_found_exact`: an exiting crossing cannot be missed with exact signs.**  For a sign-exact
arithmetic, a non-empty rectangle, a point `prv` of the closed rectangle and a point `cur` strictly outside it which
the `Inside` case of `GetNextLocation` classifies as `L` (`outsideLoc`): `GetIntersection(cur, prv, L)` succeeds, i.e.
the three arms the code tries for `L` (the edge `L`, the guarded neighbour, the other neighbour) are complete.
Counterpart of `entering_crossing_found_exact`. -/
theorem exit_crossing_found_exact (A : Arith) (hA : SignExact A) (ht : IsectTotal A) (r : Rect)
    (hne : r.isEmpty = false) (cur prv : Pt) (L : Location) (hout : outsideLoc r cur = some L)
    (hin : inRect r prv = true) (ip : Pt) : (getIntersection A r cur prv L ip).1 = true :=
  getIntersection_exit_exact hA ht r (nonempty_dims hne).1 (nonempty_dims hne).2 L cur prv ip hout hin

/-- the exact-sign arithmetic of `Props.C09` satisfies the hypotheses; `(−3, 4)` is classified `left`, `(10, 10)` is a
corner of the rectangle -/
example : SignExact (Props.C09.exampleArith ⟨0, 0, 10, 10⟩) ∧ IsectTotal (Props.C09.exampleArith ⟨0, 0, 10, 10⟩) ∧
    (⟨0, 0, 10, 10⟩ : Rect).isEmpty = false ∧ outsideLoc ⟨0, 0, 10, 10⟩ ⟨-3, 4⟩ = some .left ∧
    inRect ⟨0, 0, 10, 10⟩ ⟨10, 10⟩ = true := by
  refine ⟨fun a b c => ⟨by simp [Props.C09.exampleArith, Int.sign_eq_zero_iff_zero], ?_⟩, fun a b c d => rfl,
    by decide, by decide, by decide⟩
  simp only [Props.C09.exampleArith, gt_iff_lt]
  exact Int.sign_pos_iff

/-- **`crossing_location_ready_exact`: the location reported by a successful `GetIntersection` consumes the vertex.**
`cur` is a vertex that `GetNextLocation` would consume from the side `L` (`Ready r L cur`: it lies at or beyond the
line of the edge `L`) and `GetIntersection(cur, prv, L)` succeeds reporting the side `L'`.  Then `cur` is consumed from
`L'` as well, so that the next iteration advances — except in one configuration (`Special`): `cur` lies on the edge
`L`, `prv` on the same line at or beyond the far end of that edge; there the third arm answers with the far corner,
the automaton necessarily comes from the side `specialFrom L`, and the reversed call `GetIntersection(prv, cur,
specialFrom L)` reports the same corner — this is exactly the `ip == ip2` case of the passing-right-through branch,
which re-classifies `cur` by `GetLocation`. -/
theorem crossing_location_ready_exact (A : Arith) (hA : SignExact A) (ht : IsectTotal A) (r : Rect)
    (hne : r.isEmpty = false) (L : Location) (hL : L ≠ .inside) (cur prv ip : Pt)
    (hx : (getIntersection A r cur prv L ip).1 = true) (hr : Ready r L cur) :
    Ready r (getIntersection A r cur prv L ip).2.1 cur ∨
    (Special r L cur prv ∧ ∀ ip', (getIntersection A r cur prv L ip).2.2 =
      (getIntersection A r prv cur (specialFrom L) ip').2.2) :=
  getIntersection_ready_exact hA ht r (nonempty_dims hne).1 (nonempty_dims hne).2 L hL cur prv ip hx hr

/-- the special configuration occurs: `cur = (0, 5)` on the left edge, `prv = (0, 12)` below the rectangle on the same
line; `GetIntersection(cur, prv, left)` answers `bottom` with the corner `(0, 10)` although `cur` is not below the
rectangle, and the reversed call from `bottom` reports the same corner -/
example : let A := Props.C09.exampleArith ⟨0, 0, 10, 10⟩
    getIntersection A ⟨0, 0, 10, 10⟩ ⟨0, 5⟩ ⟨0, 12⟩ .left ⟨0, 0⟩ = (true, .bottom, ⟨0, 10⟩) ∧
    Ready ⟨0, 0, 10, 10⟩ .left ⟨0, 5⟩ ∧ ¬ Ready ⟨0, 0, 10, 10⟩ .bottom ⟨0, 5⟩ ∧
    Special ⟨0, 0, 10, 10⟩ .left ⟨0, 5⟩ ⟨0, 12⟩ ∧
    (getIntersection A ⟨0, 0, 10, 10⟩ ⟨0, 12⟩ ⟨0, 5⟩ .bottom ⟨0, 0⟩).2.2 = ⟨0, 10⟩ := by
  refine ⟨by decide, by simp [Ready], by simp [Ready], by simp [Special], by decide⟩

/-- **`runFine_exact`: the run hypothesis of `executeInternal_total` holds for every path.**  For a sign-exact arithmetic
and a non-empty rectangle, `StepFine` (no missed crossing; a crossing found on an iteration that does not advance `i`
leaves a location from which the next iteration advances) holds in every control state the main loop of
`ExecuteInternal` goes through, whatever the path.  (Loop invariant `Lemmas.RCC.InvC`: the vertex at `i` is consumed
from `loc`, or the vertex before it would have been; the geometric content is `entering_crossing_found_exact`,
`exit_crossing_found_exact` and `crossing_location_ready_exact`.) -/
theorem runFine_exact (A : Arith) (hA : SignExact A) (ht : IsectTotal A) (r : Rect) (hne : r.isEmpty = false)
    (path : Path) : RunFine A r path :=
  fun last loc0 hl hs c hr _ => Clipper.Lemmas.RCC.runFine_exact hA ht r hne path last loc0 hl hs c hr

/-- **`executeInternal_total_exact`.**  With exact signs, a non-empty rectangle and a total `PointInPolygon`,
`ExecuteInternal` returns for **every** path: the main loop ends within `2 * path.size() + 2` iterations, every
`do { … } while (prev != loc)` corner loop ends within 4 iterations, no `rect_as_path_[…]` or `path[…]` index is out of
range, and `start_locs_` never contains `Inside`.  (`executeInternal_total` without its run hypothesis.) -/
theorem executeInternal_total_exact (A : Arith) (hA : SignExact A) (ht : IsectTotal A)
    (pip : Pt → Path → Option PipResult) (hpip : ∀ q poly, (pip q poly).isSome = true) (r : Rect)
    (hne : r.isEmpty = false) (path : Path) :
    ∃ res, executeInternalA A pip r path = .ok res ∧ ∀ l ∈ res.startLocs, l ≠ .inside :=
  executeInternal_total A pip r path (runFine_exact A hA ht r hne path) hpip

/-- **`executeInternal_no_fault_exact`.**  Same hypotheses: the model raises no fault of any kind (no index out of
range, no endless corner loop, no exhausted fuel), for every path. -/
theorem executeInternal_no_fault_exact (A : Arith) (hA : SignExact A) (ht : IsectTotal A)
    (pip : Pt → Path → Option PipResult) (hpip : ∀ q poly, (pip q poly).isSome = true) (r : Rect)
    (hne : r.isEmpty = false) (path : Path) : faultOf (executeInternalA A pip r path) = none := by
  obtain ⟨res, h, _⟩ := executeInternal_total_exact A hA ht pip hpip r hne path
  rw [h]; rfl

/-- the exact `PointInPolygon` of property C18 and the `double` one used by the correspondence are total -/
example : (∀ q poly, (pipX q poly).isSome = true) ∧ (∀ q poly, (pipFloat q poly).isSome = true) :=
  ⟨fun q poly => pipG_total _ q poly, fun q poly => pipG_total _ q poly⟩

/-- **`through_crossing_found_exact`: the first crossing of a through-going segment is never lost with exact signs.**
`prv` is a vertex consumed from the side `L0` (it lies at or beyond the line of that edge), `cur` is not, and some
`GetIntersection` call for the segment, made from `cur`'s side, succeeds.  Then the call
`GetIntersection(prv, cur, L0)` — the second call of the passing-right-through branch, whose result the C++ ignores —
succeeds as well: the three arms tried for `L0` are complete for a segment that meets the rectangle at all. -/
theorem through_crossing_found_exact (A : Arith) (hA : SignExact A) (ht : IsectTotal A) (r : Rect)
    (hne : r.isEmpty = false) (L0 : Location) (h0 : L0 ≠ .inside) (cur prv : Pt) (hp : Ready r L0 prv)
    (hc : ¬ Ready r L0 cur) (L : Location) (ip ip' : Pt) (hx : (getIntersection A r cur prv L ip).1 = true) :
    (getIntersection A r prv cur L0 ip').1 = true :=
  getIntersection_through_exact hA ht r (nonempty_dims hne).1 (nonempty_dims hne).2 L0 h0 cur prv hp hc L ip ip' hx

/-- a through-going segment from the left region to the right region: both calls succeed -/
example : let A := Props.C09.exampleArith ⟨0, 0, 10, 10⟩
    Ready ⟨0, 0, 10, 10⟩ .left ⟨-5, 5⟩ ∧ ¬ Ready ⟨0, 0, 10, 10⟩ .left ⟨15, 7⟩ ∧
    (getIntersection A ⟨0, 0, 10, 10⟩ ⟨15, 7⟩ ⟨-5, 5⟩ .right ⟨0, 0⟩).1 = true ∧
    (getIntersection A ⟨0, 0, 10, 10⟩ ⟨-5, 5⟩ ⟨15, 7⟩ .left ⟨0, 0⟩).1 = true := by
  refine ⟨by simp [Ready], by simp [Ready], by decide, by decide⟩

/-- **`noLostCrossing_exact`.**  With exact signs and a non-empty rectangle the hypothesis `NoLostCrossingA` of
`added_points_in_rect`, `new_vertices_on_boundary` and `raw_ring_in_rect` holds for **every** path: no `Add` call of
`ExecuteInternal` passes the point left behind by a failed `GetIntersection` call.  (The finding kf.lost_crossing,
`raw_ring_needs_hyp`, needs a cross product whose sign the `double` computation rounds to zero.) -/
theorem noLostCrossing_exact (A : Arith) (hA : SignExact A) (ht : IsectTotal A)
    (pip : Pt → Path → Option PipResult) (r : Rect) (hne : r.isEmpty = false) (path : Path) :
    NoLostCrossingA A pip r path :=
  fun _ h e he => exec_no_lost hA ht hne h e he

/-- **`raw_ring_in_rect_exact`.**  `raw_ring_in_rect` without its run hypotheses: for a sign-exact arithmetic whose
intersection points lie on the boundary of the rectangle (`EdgeSat … OnBoundary`) and in `R ⊇ rect`, a total
`PointInPolygon`, a non-empty rectangle and **every** path, `ExecuteInternal` returns, and every vertex of the raw
result ring lies in `R` and is an input vertex or a point of the rectangle's boundary. -/
theorem raw_ring_in_rect_exact (A : Arith) (hA : SignExact A) (ht : IsectTotal A)
    (pip : Pt → Path → Option PipResult) (hpip : ∀ q poly, (pip q poly).isSome = true) (r R : Rect)
    (hne : r.isEmpty = false) (hi : IsectIn A R) (hsub : Subrect r R) (hQ : EdgeSat A r (OnBoundary r))
    (path : Path) :
    ∃ res, executeInternalA A pip r path = .ok res ∧
      ∀ p ∈ ringOf res.es, inRect R p = true ∧ (p ∈ path ∨ OnBoundary r p) := by
  obtain ⟨res, h, _⟩ := executeInternal_total_exact A hA ht pip hpip r hne path
  exact ⟨res, h, raw_ring_in_rect A pip r R path hne (crossZeroExact_of_signExact hA) hi hsub hQ
    (noLostCrossing_exact A hA ht pip r hne path) res h⟩

/-- the exact-sign arithmetic of `Props.C09` (every intersection "computed" as the corner `c0`) satisfies the
hypotheses with `R = rect` -/
example : let A := Props.C09.exampleArith ⟨0, 0, 10, 10⟩
    IsectIn A ⟨0, 0, 10, 10⟩ ∧ Subrect ⟨0, 0, 10, 10⟩ ⟨0, 0, 10, 10⟩ ∧
    EdgeSat A ⟨0, 0, 10, 10⟩ (OnBoundary ⟨0, 0, 10, 10⟩) := by
  refine ⟨?_, by simp [Subrect], ⟨?_, ?_⟩⟩
  · intro a b c d q h; simp [Props.C09.exampleArith] at h; subst h; decide
  · intro c hc
    simp only [Rect.asPath, List.mem_cons, List.not_mem_nil, or_false] at hc
    rcases hc with rfl | rfl | rfl | rfl <;> simp [OnBoundary, Rect.c0, Rect.c1, Rect.c2, Rect.c3]
  · intro a b c d q _ h; simp [Props.C09.exampleArith] at h; subst h; simp [OnBoundary, Rect.c0]

/-! ## 2. nothing is lost before `CheckEdges` -/

/-- **`inside_vertices_kept_exact`.**  With exact signs and a non-empty rectangle, every input vertex strictly inside
the rectangle is passed to `Add` as an input vertex, tagged with its own index: `⟨k, path[k], vertex⟩` is among the
recorded `Add` calls.  (From an outside location `GetNextLocation` stops at the first vertex that is not beyond the
current side; if that vertex is strictly inside, the entering crossing is found — `entering_crossing_found_exact` —, the
automaton switches to `Inside` without advancing `i`, and the `Inside` case of `GetNextLocation` adds the vertex.) -/
theorem inside_vertices_kept_exact (A : Arith) (hA : SignExact A) (ht : IsectTotal A)
    (pip : Pt → Path → Option PipResult) (r : Rect) (hne : r.isEmpty = false) (path : Path) (res : AResult)
    (h : executeInternalA A pip r path = .ok res) (k : Nat) (q : Pt) (hq : path[k]? = some q) (hsi : SI r q) :
    (⟨k, q, .vertex⟩ : AEmit) ∈ res.es := by
  rcases exec_cases h with ⟨hl, _⟩ | ⟨last, hl, hs⟩ | ⟨last, loc0, o, fin, hl, hs, hlo, _, hes⟩
  · rw [List.getLast?_eq_none_iff] at hl
    rw [hl] at hq; simp at hq
  · obtain ⟨hes, _⟩ := startLoc_inl hl hs
    rw [hes]
    have := indexFrom_mem 0 path k q hq
    rw [Nat.zero_add] at this
    exact List.mem_map.mpr ⟨(k, q), this, rfl⟩
  · rw [hes]
    apply List.mem_append_left
    exact aloop_keeps hA ht (nonempty_dims hne).1 (nonempty_dims hne).2 _ _ o (invC_init hne hl hs) hlo k q
      (Nat.zero_le _) hq hsi

/-- a run (exact signs) on a pentagon with the vertices `(3,3)` and `(5,6)` strictly inside: both are kept -/
example : (executeInternalA (Props.C09.exampleArith ⟨0, 0, 10, 10⟩) pipX ⟨0, 0, 10, 10⟩
      [⟨-5, 5⟩, ⟨3, 3⟩, ⟨15, 7⟩, ⟨5, 6⟩, ⟨-7, 30⟩]).toOption.map
        (fun res => (res.es.map (fun e => (e.k, e.kind)))) =
      some [(1, .cross), (1, .vertex), (2, .cross), (3, .cross), (3, .vertex), (4, .cross), (5, .corner)] ∧
    SI ⟨0, 0, 10, 10⟩ ⟨3, 3⟩ ∧ SI ⟨0, 0, 10, 10⟩ ⟨5, 6⟩ := by
  refine ⟨by decide, by simp [SI], by simp [SI]⟩

/-- **`emits_in_path_order`.**  For **every** arithmetic: the recorded `Add` calls of `ExecuteInternal` come in the order
of the path (`EOrd`): along the list of calls the index `k` never decreases, and an input vertex `path[k]` is followed
only by calls with a strictly larger index (so every vertex is added at most once, vertices are added in input order,
and whatever is added after `path[k]` belongs to a later segment).  A crossing carries the index of the vertex its
segment ends in, the corners added together with it carry the same index, the corners added by the closing logic carry
the index `path.size()`.  There is no cyclic shift: the main loop runs `i` once from `0` to `highI`; the backward scan
at the start (`startLoc`) only chooses the initial location, and `first_cross_` / `start_locs_` only produce the
closing corners, which come last. -/
theorem emits_in_path_order (A : Arith) (pip : Pt → Path → Option PipResult) (r : Rect) (path : Path) (res : AResult)
    (h : executeInternalA A pip r path = .ok res) :
    res.es.Pairwise EOrd ∧ ∀ e ∈ res.es, e.k ≤ path.length ∧ (e.kind = .vertex → e.k < path.length) := by
  rcases exec_cases h with ⟨_, hes⟩ | ⟨last, hl, hs⟩ | ⟨last, loc0, o, fin, hl, hs, hlo, hfin, hes⟩
  · rw [hes]; simp
  · obtain ⟨hes, _⟩ := startLoc_inl hl hs
    rw [hes]
    refine ⟨vtxEmits_sorted (indexFrom_pairwise 0 path), ?_⟩
    intro e he
    simp only [vtxEmits, List.mem_map] at he
    obtain ⟨⟨k, q⟩, hm, rfl⟩ := he
    have := mem_indexFrom 0 path k q hm
    exact ⟨by simp only; omega, fun _ => by simp only; omega⟩
  · obtain ⟨hb, hs'⟩ := aloop_sorted A r path _ _ o (Nat.zero_le _) hlo
    have hf := afinish_shape pip r path loc0 o fin hfin
    rw [hes]
    refine ⟨?_, ?_⟩
    · rw [List.pairwise_append]
      refine ⟨hs', ?_, ?_⟩
      · apply List.pairwise_of_forall_mem_list
        intro a ha b hb2
        have h1 := hf a ha
        have h2 := hf b hb2
        exact ⟨by omega, fun hk => absurd hk h1.2⟩
      · intro a ha b hb2
        have h1 := hb a ha
        have h2 := hf b hb2
        exact ⟨by omega, fun hk => by have := h1.2.2 hk; omega⟩
    · intro e he
      rcases List.mem_append.mp he with he | he
      · have := hb e he; exact ⟨this.2.1, this.2.2⟩
      · have := hf e he; exact ⟨by omega, fun hk => absurd hk this.2⟩

/-- **`raw_ring_order`.**  The raw result ring (`results_[0]` when `ExecuteInternal` returns) lists the points passed to
`Add` in the order of the calls: `Add` only drops a point equal to the one added just before it. -/
theorem raw_ring_order (es : List AEmit) : (ringOf es).Sublist (es.map (·.pt)) := ringOf_sublist es

/-- **`inside_vertices_in_ring_exact`.**  With exact signs every input vertex strictly inside the rectangle is a
vertex of the raw result ring. -/
theorem inside_vertices_in_ring_exact (A : Arith) (hA : SignExact A) (ht : IsectTotal A)
    (pip : Pt → Path → Option PipResult) (r : Rect) (hne : r.isEmpty = false) (path : Path) (res : AResult)
    (h : executeInternalA A pip r path = .ok res) (q : Pt) (hq : q ∈ path) (hsi : SI r q) : q ∈ ringOf res.es := by
  obtain ⟨k, hk, hkq⟩ := List.getElem_of_mem hq
  have := inside_vertices_kept_exact A hA ht pip r hne path res h k q
    (by rw [List.getElem?_eq_getElem hk, hkq]) hsi
  exact mem_ringOf_of_mem this

/-- **`between_kept_vertices_provenance`.**  For **every** arithmetic: split the list of `Add` calls at two input
vertices `v1` (earlier) and `v2`: `res.es = pre ++ v1 :: mid ++ v2 :: post`.  Then every call `e` in between has an index
with `v1.k < e.k ≤ v2.k` (`< v2.k` if `e` is itself an input vertex) and is (`AGood`) an input vertex of the closed
rectangle, a rectangle corner, the point a **successful** `GetIntersection` call reported for the segment ending in
`path[e.k]` (`cross`), or the point the second `GetIntersection` call of a passing-right-through step for that segment
left in `ip2` (`thru1 f`, `f` the result of that call, which the C++ ignores).  For an arbitrary arithmetic `f` may be
`false` (finding kf.lost_crossing, `raw_ring_needs_hyp`); under `NoLostCrossingA` it is not (`between_kept_vertices`),
and for sign-exact arithmetic it never is (`between_kept_vertices_exact`). -/
theorem between_kept_vertices_provenance (A : Arith) (pip : Pt → Path → Option PipResult) (r : Rect) (path : Path)
    (hne : r.isEmpty = false) (res : AResult) (h : executeInternalA A pip r path = .ok res)
    (pre mid post : List AEmit) (v1 v2 : AEmit) (hv1 : v1.kind = .vertex)
    (hsplit : res.es = pre ++ v1 :: (mid ++ v2 :: post)) :
    ∀ e ∈ mid, v1.k < e.k ∧ e.k ≤ v2.k ∧ (e.kind = .vertex → e.k < v2.k) ∧ AGood A r path e := by
  have hord := (emits_in_path_order A pip r path res h).1
  have hgood := added_points_provenance A pip r path hne res h
  rw [hsplit] at hord hgood
  obtain ⟨_, h2, _⟩ := List.pairwise_append.mp hord
  obtain ⟨h3, h4⟩ := List.pairwise_cons.mp h2
  obtain ⟨h5, _, h6⟩ := List.pairwise_append.mp h4
  intro e he
  have a1 := h3 e (List.mem_append_left _ he)
  have a2 := h6 e he v2 (List.mem_cons_self ..)
  exact ⟨a1.2 hv1, a2.1, a2.2,
    hgood e (List.mem_append_right _ (List.mem_cons_of_mem _ (List.mem_append_left _ he)))⟩

/-- **`between_kept_vertices`.**  If no first crossing of a through-going segment is lost (`NoLostCrossingA`), then
between two *consecutive* kept input vertices `v1`, `v2` (no input vertex is added in between) only rectangle corners
and results of successful `GetIntersection` calls on the segments `path[k-1] path[k]`, `v1.k < k ≤ v2.k`, are added. -/
theorem between_kept_vertices (A : Arith) (pip : Pt → Path → Option PipResult) (r : Rect) (path : Path)
    (hne : r.isEmpty = false) (hnl : NoLostCrossingA A pip r path) (res : AResult)
    (h : executeInternalA A pip r path = .ok res)
    (pre mid post : List AEmit) (v1 v2 : AEmit) (hv1 : v1.kind = .vertex)
    (hsplit : res.es = pre ++ v1 :: (mid ++ v2 :: post)) (hmid : ∀ e ∈ mid, e.kind ≠ .vertex) :
    ∀ e ∈ mid, v1.k < e.k ∧ e.k ≤ v2.k ∧ CornerOrCrossing A r path e := by
  intro e he
  obtain ⟨a1, a2, _, hg⟩ := between_kept_vertices_provenance A pip r path hne res h pre mid post v1 v2 hv1 hsplit e he
  refine ⟨a1, a2, ?_⟩
  have hmem : e ∈ res.es := by
    rw [hsplit]
    exact List.mem_append_right _ (List.mem_cons_of_mem _ (List.mem_append_left _ he))
  have hl := hnl res h e hmem
  have hv := hmid e he
  unfold AGood at hg
  split at hg
  · rename_i hk; exact absurd hk hv
  · exact Or.inl hg
  · obtain ⟨cur, prv, loc, hc, hp, h1, h2⟩ := hg
    exact Or.inr ⟨cur, prv, loc, hc, hp, Or.inl ⟨h1, h2⟩⟩
  · rename_i f hk
    obtain ⟨cur, prv, loc, hc, hp, h1, h2⟩ := hg
    cases f with
    | false => exact absurd hk hl
    | true => exact Or.inr ⟨cur, prv, loc, hc, hp, Or.inr ⟨h1, h2⟩⟩

/-- the hypotheses of `between_kept_vertices` on the pentagon of the example above: `v1 = path[1]`, `v2 = path[3]`, in
between the exiting crossing of segment 2 and the entering crossing of segment 3 -/
example : let A := Props.C09.exampleArith ⟨0, 0, 10, 10⟩
    let path : Path := [⟨-5, 5⟩, ⟨3, 3⟩, ⟨15, 7⟩, ⟨5, 6⟩, ⟨-7, 30⟩]
    (executeInternalA A pipX ⟨0, 0, 10, 10⟩ path).toOption.map (·.es) =
      some ([⟨1, ⟨0, 0⟩, .cross⟩] ++ ⟨1, ⟨3, 3⟩, .vertex⟩ ::
        ([⟨2, ⟨0, 0⟩, .cross⟩, ⟨3, ⟨0, 0⟩, .cross⟩] ++ ⟨3, ⟨5, 6⟩, .vertex⟩ ::
          [⟨4, ⟨0, 0⟩, .cross⟩, ⟨5, ⟨0, 10⟩, .corner⟩])) ∧
    NoLostCrossingA A pipX ⟨0, 0, 10, 10⟩ path := by
  refine ⟨by decide, ?_⟩
  intro res hres e he
  have : (executeInternalA (Props.C09.exampleArith ⟨0, 0, 10, 10⟩) pipX ⟨0, 0, 10, 10⟩
      [⟨-5, 5⟩, ⟨3, 3⟩, ⟨15, 7⟩, ⟨5, 6⟩, ⟨-7, 30⟩]).toOption.map
      (·.es.all (fun e => e.kind != .thru1 false)) = some true := by decide
  rw [hres] at this
  simp only [Except.toOption, Option.map_some, Option.some.injEq, List.all_eq_true, bne_iff_ne] at this
  exact this e he

/-- **`between_kept_vertices_exact`.**  With exact signs and a non-empty rectangle, for every path: between two
*consecutive* kept input vertices `v1`, `v2` only rectangle corners and results of successful `GetIntersection` calls on
the segments `path[k-1] path[k]`, `v1.k < k ≤ v2.k`, are passed to `Add`. -/
theorem between_kept_vertices_exact (A : Arith) (hA : SignExact A) (ht : IsectTotal A)
    (pip : Pt → Path → Option PipResult) (r : Rect) (hne : r.isEmpty = false) (path : Path) (res : AResult)
    (h : executeInternalA A pip r path = .ok res)
    (pre mid post : List AEmit) (v1 v2 : AEmit) (hv1 : v1.kind = .vertex)
    (hsplit : res.es = pre ++ v1 :: (mid ++ v2 :: post)) (hmid : ∀ e ∈ mid, e.kind ≠ .vertex) :
    ∀ e ∈ mid, v1.k < e.k ∧ e.k ≤ v2.k ∧ CornerOrCrossing A r path e :=
  between_kept_vertices A pip r path hne (noLostCrossing_exact A hA ht pip r hne path) res h pre mid post v1 v2 hv1
    hsplit hmid

/-- **`inside_vertices_sublist_exact`.**  With exact signs: the input vertices strictly inside the rectangle, in input
order (with repetitions, if the path repeats a vertex), form a sublist of the sequence of points passed to `Add`.
Together with `raw_ring_order` (the raw ring is that sequence with every point equal to its predecessor dropped) this
is the order statement at ring level. -/
theorem inside_vertices_sublist_exact (A : Arith) (hA : SignExact A) (ht : IsectTotal A)
    (pip : Pt → Path → Option PipResult) (r : Rect) (hne : r.isEmpty = false) (path : Path) (res : AResult)
    (h : executeInternalA A pip r path = .ok res) :
    (path.filter (fun q => decide (SI r q))).Sublist (res.es.map (·.pt)) :=
  kept_sublist (fun k q hq hsi => inside_vertices_kept_exact A hA ht pip r hne path res h k q hq hsi)
    (emits_in_path_order A pip r path res h).1

/-- on the pentagon: the strictly-inside vertices `(3,3)`, `(5,6)` inside the sequence of added points -/
example : ([⟨-5, 5⟩, ⟨3, 3⟩, ⟨15, 7⟩, ⟨5, 6⟩, ⟨-7, 30⟩] : Path).filter (fun q => decide (SI ⟨0, 0, 10, 10⟩ q)) =
    [⟨3, 3⟩, ⟨5, 6⟩] := by decide

/-- **`raw_ring_complete_exact`: nothing is lost before `CheckEdges`** (summary).  For sign-exact arithmetic, a total
`PointInPolygon`, a non-empty rectangle and **every** path, `ExecuteInternal` returns a result `res` such that
* every input vertex strictly inside the rectangle is passed to `Add` with its own index, and is a vertex of the raw
  result ring;
* the `Add` calls come in the order of the path (`EOrd`: non-decreasing indices, input vertices strictly increasing),
  the strictly-inside vertices in input order are a sublist of the points added, and the raw ring lists the points added
  in the order of the calls;
* every `Add` call is an input vertex `path[k]` of the closed rectangle, a rectangle corner, or the point a **successful**
  `GetIntersection` call reported for the segment ending in `path[k]`. -/
theorem raw_ring_complete_exact (A : Arith) (hA : SignExact A) (ht : IsectTotal A)
    (pip : Pt → Path → Option PipResult) (hpip : ∀ q poly, (pip q poly).isSome = true) (r : Rect)
    (hne : r.isEmpty = false) (path : Path) :
    ∃ res, executeInternalA A pip r path = .ok res ∧
      (∀ k q, path[k]? = some q → SI r q → (⟨k, q, .vertex⟩ : AEmit) ∈ res.es ∧ q ∈ ringOf res.es) ∧
      res.es.Pairwise EOrd ∧
      (path.filter (fun q => decide (SI r q))).Sublist (res.es.map (·.pt)) ∧
      (ringOf res.es).Sublist (res.es.map (·.pt)) ∧
      ∀ e ∈ res.es, VertexCornerOrCrossing A r path e := by
  obtain ⟨res, h, _⟩ := executeInternal_total_exact A hA ht pip hpip r hne path
  refine ⟨res, h, ?_, (emits_in_path_order A pip r path res h).1,
    inside_vertices_sublist_exact A hA ht pip r hne path res h, raw_ring_order _, ?_⟩
  · intro k q hq hsi
    have := inside_vertices_kept_exact A hA ht pip r hne path res h k q hq hsi
    exact ⟨this, mem_ringOf_of_mem this⟩
  · intro e he
    exact agood_not_lost (added_points_provenance A pip r path hne res h e he)
      (noLostCrossing_exact A hA ht pip r hne path res h e he)

end Clipper.Props.C08
