/-
C09 — RectClipLines returns exactly the parts of each polyline inside the rectangle.

Theorems about the model `ClipperVerif/Model/RectClipLines.lean` (bit-exact correspondence with the C++ is
checked by harness/C09.cpp on every run).  `GetLocation` is the definition *generated* from the C++ source.
The `double` arithmetic (`CrossProduct`, `GetSegmentIntersectPt`) is the parameter `A : Arith`; every theorem
holds for every `A` satisfying the stated hypotheses.

Proved here: the exact characterisation of `GetLocation`; termination and index safety of every loop
(`rectClipLines_total`); all output vertices lie in the rectangle (`lines_in_rect`, under the hypothesis
`NoLostCrossing`, which the unchanged C++ code violates — `lines_in_rect_needs_hyp` is the witness); the output is,
in order and direction, input vertices in the rectangle plus crossing points of the segment they are tagged with
(`lines_order`), with a new piece for exactly the entering crossings (`lines_pieces_count`).

Not proved (stated in comments at the end): `lines_cover`, the metric claims (distance 1.5, length).
-/
import ClipperVerif.Lemmas.RectClip
namespace Clipper.Props.C09
open Clipper Clipper.Model.RC Clipper.Lemmas.RC

/-- `GetLocation` (generated from the C++ source) returns `false` exactly for the points of the rectangle
boundary, reporting the side (precedence left, right, top, bottom); otherwise it returns `true` and one of the nine
regions, the corner regions counting as left / right.  Holds for every rectangle, empty ones included. -/
theorem getLocation_spec (r : Rect) (p : Pt) (l0 : Location) :
    ((getLocation r p l0).1 = false ↔ OnBoundary r p) ∧
    ((getLocation r p l0).1 = false → (getLocation r p l0).2 = sideOf r p) ∧
    ((getLocation r p l0).1 = true → (getLocation r p l0).2 = region r p) :=
  ⟨getLocation_fst r p l0, getLocation_snd_false r p l0, getLocation_snd_true r p l0⟩

/-- Corollary: the answer `(true, inside)` means strictly inside. -/
theorem getLocation_inside_iff (r : Rect) (p : Pt) (l0 : Location) :
    getLocation r p l0 = (true, .inside) ↔
      (r.left < p.x ∧ p.x < r.right ∧ r.top < p.y ∧ p.y < r.bottom) := by
  have h := getLocation_spec r p l0
  constructor
  · intro e
    have h1 : ¬ OnBoundary r p := by
      intro hb; have := h.1.mpr hb; rw [e] at this; simp at this
    have h2 : region r p = .inside := by
      have := h.2.2 (by rw [e]); rw [e] at this; exact this.symm
    unfold OnBoundary at h1
    revert h2; unfold region
    repeat' split
    all_goals simp
    all_goals omega
  · intro hin
    have h1 : ¬ OnBoundary r p := by unfold OnBoundary; omega
    have ht : (getLocation r p l0).1 = true := by
      cases hb : (getLocation r p l0).1
      · exact absurd (h.1.mp hb) h1
      · rfl
    have h2 := h.2.2 ht
    have h3 : region r p = .inside := by
      unfold region
      rw [if_neg (by omega), if_neg (by omega), if_neg (by omega), if_neg (by omega)]
    exact Prod.ext ht (by rw [h2, h3])

/-! ### termination and index safety -/

theorem emits_total (A : Arith) (r : Rect) (path : Path) : (emits A r path).isSome = true := by
  cases hne : r.isEmpty
  · obtain ⟨es, he, _⟩ := emits_spec A r path hne
    rw [he]; rfl
  · unfold emits; rw [hne]; rfl

theorem execute_total (A : Arith) (r : Rect) (ps : Paths) : (execute A r ps).isSome = true := by
  induction ps with
  | nil => rfl
  | cons p ps ih =>
    unfold execute
    split
    · rfl
    · split
      · exact ih
      · have h1 := emits_total A r p
        unfold executeInternal
        cases he : emits A r p with
        | none => rw [he] at h1; simp at h1
        | some es =>
          cases hx : execute A r ps with
          | none => rw [hx] at ih; simp at ih
          | some o => rfl

/-- **Termination and index safety (C10 obligations of this code).**  The model's loops run on fuel
`2 * path.length + 2` and read the path through the checked accessor `path[i]?`; a `none` result would mean that
the fuel ran out or that an index was out of range.  For every arithmetic, rectangle and input this never happens:
`GetNextLocation`'s scans stop at `highI`, `path[i]` / `path[i-1]` are only read for `1 ≤ i ≤ highI`, and the main
`while` loop of `ExecuteInternal` makes progress at least every second iteration. -/
theorem rectClipLines_total (A : Arith) (r : Rect) (lines : Paths) :
    (rectClipLines A r lines).isSome = true := by
  unfold rectClipLines
  split
  · rfl
  · exact execute_total A r lines

/-! ### all output vertices lie in the rectangle -/

/-- The second `GetIntersection` call of a "passing right through" step — whose result the C++ ignores —
found the first crossing, for every such step of the run on `path`. -/
def NoLostCrossing (A : Arith) (r : Rect) (path : Path) : Prop :=
  ∀ es, emits A r path = some es → ∀ e ∈ es, e.kind ≠ .thru1 false

theorem good_inR {A : Arith} {r R : Rect} {path : Path} (hne : r.isEmpty = false) (hce : CrossZeroExact A)
    (hi : IsectIn A R) (hsub : Subrect r R) {e : Emit} (hg : Good A r path e) (hl : e.kind ≠ .thru1 false) :
    inRect R e.pt = true := by
  unfold Good at hg
  split at hg
  · exact inRect_mono hsub hg.2.2
  · obtain ⟨_, cur, prv, _, loc, h1, h2⟩ := hg
    rw [← h2]; exact getIntersection_inR hne hce hi hsub _ _ _ _ h1
  · obtain ⟨_, cur, prv, _, loc, h1, h2⟩ := hg
    rw [← h2]; exact getIntersection_inR hne hce hi hsub _ _ _ _ h1
  · obtain ⟨_, cur, prv, _, loc, h1, h2⟩ := hg
    rw [← h2]; exact getIntersection_inR hne hce hi hsub _ _ _ _ h1
  · rename_i f hk
    obtain ⟨_, cur, prv, _, loc, h1, h2⟩ := hg
    cases f with
    | false => exact absurd hk hl
    | true => rw [← h2]; exact getIntersection_inR hne hce hi hsub _ _ _ _ h1

theorem executeInternal_in_rect {A : Arith} {r R : Rect} {path : Path} (hne : r.isEmpty = false)
    (hce : CrossZeroExact A) (hi : IsectIn A R) (hsub : Subrect r R) (hnl : NoLostCrossing A r path)
    {out : Paths} (ho : executeInternal A r path = some out) :
    ∀ piece ∈ out, ∀ p ∈ piece, inRect R p = true := by
  obtain ⟨es, he, _, hgood⟩ := emits_spec A r path hne
  unfold executeInternal at ho
  rw [he] at ho
  simp only [Option.map_some, Option.some.injEq] at ho
  subst ho
  intro piece hp p hpp
  obtain ⟨e, hem, rfl⟩ := mem_assemble hp hpp
  exact good_inR hne hce hi hsub (hgood e hem) (hnl es he e hem)

theorem execute_mem {A : Arith} {r : Rect} {ps : Paths} {out : Paths} (h : execute A r ps = some out) :
    ∀ piece ∈ out, ∃ path ∈ ps, ∃ o, executeInternal A r path = some o ∧ piece ∈ o := by
  induction ps generalizing out with
  | nil => simp [execute] at h; subst h; simp
  | cons p ps ih =>
    unfold execute at h
    split at h
    · simp at h; subst h; simp
    · split at h
      · intro piece hp
        obtain ⟨path, hm, o, ho, hpo⟩ := ih h piece hp
        exact ⟨path, by simp [hm], o, ho, hpo⟩
      · cases h1 : executeInternal A r p with
        | none => rw [h1] at h; simp at h
        | some a =>
          cases h2 : execute A r ps with
          | none => rw [h1, h2] at h; simp at h
          | some b =>
            rw [h1, h2] at h
            simp only [Option.some.injEq] at h
            subst h
            intro piece hp
            rcases List.mem_append.mp hp with hp | hp
            · exact ⟨p, by simp, a, h1, hp⟩
            · obtain ⟨path, hm, o, ho, hpo⟩ := ih h2 piece hp
              exact ⟨path, by simp [hm], o, ho, hpo⟩

/-- **`lines_in_rect`.**  Every vertex returned by `RectClipLines(rect, lines)` lies in the closed rectangle `R`,
where `R ⊇ rect` is any rectangle into which `GetSegmentIntersectPt` delivers its points (`R = rect` for an exact
intersection routine, `rect` widened by one unit for the rounding of the real one), provided
* `CrossProduct(a, b, c) == 0` is decided exactly when `b c` is axis-parallel (`CrossZeroExact`), and
* no first crossing of a through-going segment is lost (`NoLostCrossing`).
The second hypothesis is not an artefact: see `lines_in_rect_needs_hyp`. -/
theorem lines_in_rect (A : Arith) (r R : Rect) (lines : Paths)
    (hce : CrossZeroExact A) (hi : IsectIn A R) (hsub : Subrect r R)
    (hnl : ∀ path ∈ lines, NoLostCrossing A r path)
    (out : Paths) (ho : rectClipLines A r lines = some out) :
    ∀ piece ∈ out, ∀ p ∈ piece, inRect R p = true := by
  unfold rectClipLines at ho
  split at ho
  · simp at ho; subst ho; simp
  · rename_i hcond
    have hne : r.isEmpty = false := by
      cases h : r.isEmpty
      · rfl
      · simp [h] at hcond
    intro piece hp p hpp
    obtain ⟨path, hm, o, hoi, hpo⟩ := execute_mem ho piece hp
    exact executeInternal_in_rect hne hce hi hsub (hnl path hm) hoi piece hpo p hpp

/-- exact integer arithmetic: sign of the exact cross product, intersection by the rectangle's own corner
(any point of the rectangle would do for this example) -/
def exampleArith (r : Rect) : Arith := ⟨fun a b c => Int.sign (crossZ a b c), fun _ _ _ _ => some r.c0⟩

/-- the hypotheses of `lines_in_rect` are satisfiable on a run that has a through-going segment -/
example : CrossZeroExact (exampleArith ⟨0, 0, 10, 10⟩) ∧ IsectIn (exampleArith ⟨0, 0, 10, 10⟩) ⟨0, 0, 10, 10⟩ ∧
    Subrect ⟨0, 0, 10, 10⟩ ⟨0, 0, 10, 10⟩ ∧
    NoLostCrossing (exampleArith ⟨0, 0, 10, 10⟩) ⟨0, 0, 10, 10⟩ [⟨-5, 5⟩, ⟨15, 7⟩, ⟨3, 3⟩] ∧
    (emits (exampleArith ⟨0, 0, 10, 10⟩) ⟨0, 0, 10, 10⟩ [⟨-5, 5⟩, ⟨15, 7⟩, ⟨3, 3⟩]).map (·.map (·.kind)) =
      some [.thru1 true, .thru2, .enter, .vertex] := by
  refine ⟨?_, ?_, by simp [Subrect], ?_, by decide⟩
  · intro a b c _; simp [exampleArith, Int.sign_eq_zero_iff_zero]
  · intro a b c d q h; simp [exampleArith] at h; subst h; decide
  · intro es he e hm
    have : emits (exampleArith ⟨0, 0, 10, 10⟩) ⟨0, 0, 10, 10⟩ [⟨-5, 5⟩, ⟨15, 7⟩, ⟨3, 3⟩] =
        some [⟨1, ⟨0, 0⟩, true, .thru1 true⟩, ⟨1, ⟨0, 0⟩, false, .thru2⟩, ⟨2, ⟨0, 0⟩, true, .enter⟩, ⟨2, ⟨3, 3⟩, false, .vertex⟩] := by
      decide
    rw [this] at he
    simp only [Option.some.injEq] at he
    subst he
    simp only [List.mem_cons, List.not_mem_nil, or_false] at hm
    rcases hm with rfl | rfl | rfl | rfl <;> simp

/-! ### the hypothesis `NoLostCrossing` is necessary: witness of the defect in the C++ code

Real input (harness label `kf.lost_crossing`): `RectClipLines(Rect64(347, 434, 67109211, 67109298),
{(-28115609, 29720495), (95231410, -100663865)})` returns the piece `(0,0) → (347,434)`, although the segment
misses the rectangle (it crosses `x = 347` at `y = 433.99999999`).  Cause: in `double`,
`CrossProduct(c, b, a) = 0` but `CrossProduct(c, a, b) = 1` for the corner `c = (347, 434)`, so the first
`GetIntersection` call reports the corner and the second one — whose return value `ExecuteInternal` ignores —
finds nothing and leaves `ip2` at its default `(0,0)`, which is then added to the output.
`Float` is opaque to the kernel, so the witness below uses an arithmetic that is exact except for that one
rounded product; the bit-exact reproduction is the harness record. -/

def wA : Pt := ⟨-28115609, 29720495⟩
def wB : Pt := ⟨95231410, -100663865⟩
def wRect : Rect := ⟨347, 434, 67109211, 67109298⟩
/-- exact signs, except `CrossProduct(c0, b, a)`, rounded to zero as the C++ `double` computation does -/
def witnessArith : Arith :=
  ⟨fun a b c => if a = wRect.c0 ∧ b = wB ∧ c = wA then 0 else Int.sign (crossZ a b c), fun _ _ _ _ => none⟩

/-- `CrossZeroExact` holds for the witness arithmetic: the altered triple is not axis-parallel. -/
theorem witnessArith_crossZeroExact : CrossZeroExact witnessArith := by
  intro a b c hax
  simp only [witnessArith]
  split
  · rename_i h
    obtain ⟨_, rfl, rfl⟩ := h
    simp [wA, wB] at hax
  · exact Int.sign_eq_zero_iff_zero

/-- **Negation of `lines_in_rect` without `NoLostCrossing`.**  With an arithmetic satisfying the other two
hypotheses (no intersection point is ever computed, so `IsectIn` holds trivially) the model — like the C++ code on
this input — returns the vertex `(0,0)`, which is outside the rectangle `[347, 67109211] × [434, 67109298]`. -/
theorem lines_in_rect_needs_hyp :
    CrossZeroExact witnessArith ∧ IsectIn witnessArith wRect ∧
    rectClipLines witnessArith wRect [[wA, wB]] = some [[⟨0, 0⟩, ⟨347, 434⟩]] ∧
    inRect wRect ⟨0, 0⟩ = false := by
  refine ⟨witnessArith_crossZeroExact, ?_, by decide, by decide⟩
  intro a b c d q h; simp [witnessArith] at h

/-! ### order, direction and provenance of the output -/

/-- **`lines_order`.**  For a non-empty rectangle the run of `ExecuteInternal` on `path` is described by a list
`es` of `Add` calls such that
* the result is `assemble es` (consecutive duplicates removed, a new piece at every `start_new`, single points dropped);
* the segment indices `k` of the calls are non-decreasing and `< path.length`: input order and direction;
* every call is `Good`: a `vertex` call adds `path[k]`, which lies in the closed rectangle, without `start_new`;
  an `enter` / `exit` / `thru2` call adds a point that a successful `GetIntersection` reported for the segment
  `path[k-1] path[k]` (so a point of `{path[k-1], path[k], a rectangle corner, isect …}`), `thru1` the point left in
  `ip2` by the second call; `start_new` is set exactly for `enter` and `thru1` (an entering crossing);
* the concatenated output is a subsequence of the added points. -/
theorem lines_order (A : Arith) (r : Rect) (path : Path) (hne : r.isEmpty = false) :
    ∃ es, emits A r path = some es ∧ executeInternal A r path = some (assemble es) ∧
      es.Pairwise (fun a b => a.k ≤ b.k) ∧
      (∀ e ∈ es, e.k < path.length ∧ Good A r path e) ∧
      ((assemble es).flatten).Sublist (es.map (·.pt)) := by
  obtain ⟨es, he, hseg, hgood⟩ := emits_spec A r path hne
  refine ⟨es, he, by simp [executeInternal, he], hseg.2, ?_, assemble_sublist es⟩
  intro e hm
  refine ⟨?_, hgood e hm⟩
  have hg := hgood e hm
  have hsome : ∀ {q : Pt}, path[e.k]? = some q → e.k < path.length := by
    intro q hq
    rcases Nat.lt_or_ge e.k path.length with h | h
    · exact h
    · rw [List.getElem?_eq_none h] at hq; simp at hq
  unfold Good at hg
  split at hg
  · exact hsome hg.2.1
  · obtain ⟨_, cur, prv, hs, _⟩ := hg; exact hsome hs.2.1
  · obtain ⟨_, cur, prv, hs, _⟩ := hg; exact hsome hs.2.1
  · obtain ⟨_, cur, prv, hs, _⟩ := hg; exact hsome hs.2.1
  · obtain ⟨_, cur, prv, hs, _⟩ := hg; exact hsome hs.2.1

/-- `start_new` marks exactly the entering crossings (`enter`, and the first point `thru1` of a through-going
segment). -/
theorem startNew_iff_entering {A : Arith} {r : Rect} {path : Path} {e : Emit} (hg : Good A r path e) :
    e.startNew = true ↔ (e.kind = .enter ∨ ∃ f, e.kind = .thru1 f) := by
  unfold Good at hg
  split at hg <;> rename_i hk
  · simp [hk, hg.1]
  · simp [hk, hg.1]
  · simp [hk, hg.1]
  · simp [hk, hg.1]
  · simp [hk, hg.1]

/-- **A new piece starts exactly at an entering crossing.**  The number of rings `Add` builds is one (for the
first point, whatever it is) plus the number of later `start_new` calls; by `startNew_iff_entering` these are the
entering crossings. -/
theorem lines_pieces_count (e : Emit) (es : List Emit) :
    (addAll ((e :: es).map (fun e => (e.pt, e.startNew)))).length = 1 + (es.filter (·.startNew)).length := by
  rw [List.map_cons, addAll_length]
  congr 1
  induction es with
  | nil => rfl
  | cons a es ih =>
    simp only [List.map_cons, List.filter_cons]
    cases a.startNew <;> simp [ih]

/-
Not proved.
`lines_cover` (M-, idealised): for exact arithmetic and no segment along a side, the pieces are exactly the maximal
sub-polylines inside the rectangle.  Needs the geometric completeness of `GetIntersection` (a segment between two
outside regions that meets the rectangle meets one of the three edges tried), which is a nonlinear argument over
12 region pairs and was not attempted.  The metric claims of the property (within 1.5 units of the polyline, length
within 2 units per crossing) are about the rounding of `GetSegmentIntersectPt`; they are checked on the real code by
the exact-rational judge `LINESCHECK` (Driver/C09.lean), not proved.
-/

end Clipper.Props.C09
