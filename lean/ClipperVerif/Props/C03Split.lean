/-
C03 — `FixSelfIntersects` / `DoSplitOp` (clipper.engine.cpp:1566-1685, Clipper2 1.5.2) create no equal neighbours;
this discharges the hypothesis `FixOk` of `Props.C03.solutionPath_shape_partial`.

Model: `ClipperVerif/Model/SplitOp.lean`.  The theorems hold for **every** intersection-point function `isect`
(so for both variants of `GetSegmentIntersectPt`, and for any `zCallback_` that rewrites `ip`), for every
cross-product sign `cs` that vanishes when its first point equals one of the other two (`CsSound`) and every area
decision that makes a new outrec only from three different points (`AdecSound`).  The exact integer instantiation
`csX`, `adecX` satisfies both (`csSound_csX`, `adecSound_adecX`) and is the one `fixMain` uses.

Vocabulary: `CycNoDup`, `FixOk`, `builtPath` from `Lemmas/CleanUp.lean` (index readings in `Props/C03.lean`);
`view r = some (prev, op2, next, nextNext, nextNextNext)` for the ring `r` seen from `op2`;
`segsInt csX a b c d` = `SegmentsIntersect(a, b, c, d)`; `FsiRes.done main splits dups` = the loop ended with the
outrec's ring `main` (`none` = disposed), the split-off rings `splits` and `dups` executions of the
`DuplicateOp` ("adjacent intersections") branch.
-/
import ClipperVerif.Lemmas.SplitOp
import ClipperVerif.Lemmas.SplitOpAdv
import ClipperVerif.Props.C03
namespace Clipper.Props.C03Split
open Clipper Clipper.Model Clipper.Model.CleanUp Clipper.Model.SplitOp Clipper.Lemmas.CleanUp Clipper.Lemmas.SplitOp

/-! ### 0. what the tests mean -/

/-- `SegmentsIntersect` with exact cross products is the proper-crossing test of `Model/CleanUp.lean`
(`segsIntersect`, stated with the Spec-level cross product): both end points of each segment lie strictly on
opposite sides of the other segment's line. -/
theorem segsInt_eq_segsIntersect (a b c d : Pt) : segsInt csX a b c d = segsIntersect a b c d := by
  have e : ∀ p q r : Pt, crossProduct p q r = cross p q r := by
    intro p q r; unfold crossProduct cross; grind
  simp [segsInt, segsIntersect, csX, e]

/-- A proper crossing forces the four end points apart: no end point of one segment is an end point of the other. -/
theorem segsInt_endpoints_distinct (cs : Pt → Pt → Pt → Int) (hcs : CsSound cs) (a b c d : Pt)
    (h : segsInt cs a b c d = true) : a ≠ c ∧ a ≠ d ∧ b ≠ c ∧ b ≠ d := segsInt_ne hcs h

/-- the exact instantiation meets the two requirements -/
theorem exact_instance_sound : CsSound csX ∧ AdecSound adecX := ⟨csSound_csX, adecSound_adecX⟩

example : segsInt csX ⟨0,0⟩ ⟨10,10⟩ ⟨10,0⟩ ⟨0,10⟩ = true := by decide
/-- touching is not crossing -/
example : segsInt csX ⟨0,0⟩ ⟨10,10⟩ ⟨5,5⟩ ⟨0,10⟩ = false := by decide

/-! ### 1. `DoSplitOp` -/

/-- `DoSplitOp` creates no equal neighbours.  Precondition = the situation in which `FixSelfIntersects` calls it:
for the ring `r` seen from `splitOp`, `prevOp → splitOp` properly crosses `splitOp.next → nextNextOp`.
If `r` has no equal cyclic neighbours then neither has the outrec's ring afterwards, and a split-off ring is a
triangle of three pairwise different points.  The proof uses both halves of the guard
`ip == prevOp->pt || ip == nextNextOp->pt` (`cycNoDup_split_insert`) and, when the guard fires, that the crossing
makes `prevOp->pt ≠ nextNextOp->pt` (`cycNoDup_split_link`). -/
theorem doSplitOp_no_equal_neighbours (cs : Pt → Pt → Pt → Int) (hcs : CsSound cs)
    (isect : Pt → Pt → Pt → Pt → Pt) (adec : Ring → Pt → Pt → Pt → AreaDec) (had : AdecSound adec)
    (r m : Ring) (nr : Option Ring)
    (pv o nx nn nnn : Pt) (hv : view r = some (pv, o, nx, nn, nnn)) (hx : segsInt cs pv o nx nn = true)
    (hs : doSplitOp isect adec r = some ⟨some m, nr⟩) (h : CycNoDup r) :
    CycNoDup m ∧ ∀ q, nr = some q → CycNoDup q ∧ q.length = 3 :=
  cycNoDup_doSplitOp isect hcs had hv hx hs h

/-- the hypotheses are satisfiable: the crossing is at (5,5); the triangle (5,5),(10,10),(10,0) is split off -/
example :
    view [⟨10,10⟩,⟨10,0⟩,⟨0,10⟩,⟨-5,5⟩,⟨0,0⟩] = some (⟨0,0⟩,⟨10,10⟩,⟨10,0⟩,⟨0,10⟩,⟨-5,5⟩) ∧
    segsInt csX ⟨0,0⟩ ⟨10,10⟩ ⟨10,0⟩ ⟨0,10⟩ = true ∧
    doSplitOp (fun _ _ _ _ => ⟨5,5⟩) adecX [⟨10,10⟩,⟨10,0⟩,⟨0,10⟩,⟨-5,5⟩,⟨0,0⟩] =
      some ⟨some [⟨0,0⟩,⟨5,5⟩,⟨0,10⟩,⟨-5,5⟩], some [⟨5,5⟩,⟨10,10⟩,⟨10,0⟩]⟩ ∧
    CycNoDup [⟨10,10⟩,⟨10,0⟩,⟨0,10⟩,⟨-5,5⟩,⟨0,0⟩] := by decide

/-- Both halves of the guard are needed.  If the intersection point comes out as `prevOp->pt` (first witness: the
crossing of (0,0)→(10,1) with (0,-1)→(1,1) is at (10/19, 1/19), which `GetSegmentIntersectPt` truncates to (0,0))
or as `nextNextOp->pt`, inserting it unconditionally would create an equal neighbour; the guarded code does not. -/
theorem guard_both_halves_needed :
    -- ip = prevOp->pt
    (let r : Ring := [⟨10,1⟩,⟨0,-1⟩,⟨1,1⟩,⟨-9,9⟩,⟨0,0⟩]
     let isect : Pt → Pt → Pt → Pt → Pt := fun _ _ _ _ => ⟨0,0⟩
     segsInt csX ⟨0,0⟩ ⟨10,1⟩ ⟨0,-1⟩ ⟨1,1⟩ = true ∧ CycNoDup r ∧
     doSplitOp isect adecX r = some ⟨some [⟨0,0⟩,⟨1,1⟩,⟨-9,9⟩], some [⟨0,0⟩,⟨10,1⟩,⟨0,-1⟩]⟩ ∧
     ¬ CycNoDup [⟨0,0⟩, isect ⟨0,0⟩ ⟨10,1⟩ ⟨0,-1⟩ ⟨1,1⟩, ⟨1,1⟩, ⟨-9,9⟩]) ∧
    -- ip = nextNextOp->pt
    (let r : Ring := [⟨10,1⟩,⟨0,-1⟩,⟨1,1⟩,⟨-9,9⟩,⟨0,0⟩]
     let isect : Pt → Pt → Pt → Pt → Pt := fun _ _ _ _ => ⟨1,1⟩
     doSplitOp isect adecX r = some ⟨some [⟨0,0⟩,⟨1,1⟩,⟨-9,9⟩], some [⟨1,1⟩,⟨10,1⟩,⟨0,-1⟩]⟩ ∧
     ¬ CycNoDup [⟨0,0⟩, isect ⟨0,0⟩ ⟨10,1⟩ ⟨0,-1⟩ ⟨1,1⟩, ⟨1,1⟩, ⟨-9,9⟩]) := by decide

/-- Every `DoSplitOp` that does not dispose the ring shortens it by one node (intersection point inserted) or by
two (guard fired); the ring it is applied to has at least four nodes. -/
theorem doSplitOp_shrinks (isect : Pt → Pt → Pt → Pt → Pt) (adec : Ring → Pt → Pt → Pt → AreaDec)
    (r m : Ring) (nr : Option Ring) (hs : doSplitOp isect adec r = some ⟨some m, nr⟩) :
    r.length ≥ 4 ∧ m.length < r.length ∧ r.length ≤ m.length + 2 :=
  ⟨doSplitOp_some_len isect adec hs, (doSplitOp_length isect adec hs).1, (doSplitOp_length isect adec hs).2⟩

/-! ### 2. `FixSelfIntersects` -/

/-- The loop of `FixSelfIntersects` preserves "no equal cyclic neighbours" — through stepping, through the
`DuplicateOp` branch (the inserted node carries `nextNext`'s point, which the crossing separates from both new
neighbours) and through `DoSplitOp`. -/
theorem fsiLoop_no_equal_neighbours (cs : Pt → Pt → Pt → Int) (hcs : CsSound cs)
    (isect : Pt → Pt → Pt → Pt → Pt) (adec : Ring → Pt → Pt → Pt → AreaDec) (had : AdecSound adec)
    (fuel : Nat) (r : Ring) (pts : Nat)
    (acc : List Ring) (k : Nat) (m : Option Ring) (sp : List Ring) (k' : Nat)
    (h : fsiLoop cs isect adec fuel r pts acc k = .done m sp k') (hr : CycNoDup r)
    (hacc : ∀ q, q ∈ acc → CycNoDup q ∧ q.length = 3) :
    (∀ m', m = some m' → CycNoDup m') ∧ ∀ q, q ∈ sp → CycNoDup q ∧ q.length = 3 :=
  fsiLoop_inv cs isect adec CycNoDup (fun q => CycNoDup q ∧ q.length = 3)
    cycNoDup_rot1
    (fun _ _ _ _ _ _ hv h1 _ hI => cycNoDup_dup hcs hv h1 hI)
    (fun _ _ _ _ _ _ _ _ hv h1 hs hI => cycNoDup_doSplitOp isect hcs had hv h1 hs hI)
    fuel r pts acc k m sp k' h hr hacc

/-- **`FixSelfIntersects` creates no equal neighbours**, for every `isect`: if the ring handed to it has none,
then neither has the ring it leaves to the outrec, and every ring it appends to `outrec_list_` is a triangle of
three pairwise different points. -/
theorem fixSelfIntersects_no_equal_neighbours (cs : Pt → Pt → Pt → Int) (hcs : CsSound cs)
    (isect : Pt → Pt → Pt → Pt → Pt) (adec : Ring → Pt → Pt → Pt → AreaDec) (had : AdecSound adec)
    (fuel : Nat) (ring : Ring) (m : Option Ring) (sp : List Ring) (k : Nat)
    (h : fixSelfIntersects cs isect adec fuel ring = .done m sp k) (hr : CycNoDup ring) :
    (∀ m', m = some m' → CycNoDup m') ∧ ∀ q, q ∈ sp → CycNoDup q ∧ q.length = 3 := by
  unfold fixSelfIntersects at h
  split at h
  · cases h
  · cases h; exact ⟨fun m' e => by cases e; exact hr, by simp⟩
  · cases h; exact ⟨fun m' e => by cases e; exact hr, by simp⟩
  · exact fsiLoop_no_equal_neighbours cs hcs isect adec had fuel ring 0 [] 0 m sp k h hr (by simp)

example : fixX (fun _ _ _ _ => ⟨5,5⟩) 100 [⟨0,0⟩,⟨10,10⟩,⟨10,0⟩,⟨0,10⟩,⟨-5,5⟩] =
      .done (some [⟨0,0⟩,⟨5,5⟩,⟨0,10⟩,⟨-5,5⟩]) [[⟨5,5⟩,⟨10,10⟩,⟨10,0⟩]] 0 ∧
    CycNoDup [⟨0,0⟩,⟨10,10⟩,⟨10,0⟩,⟨0,10⟩,⟨-5,5⟩] := by decide

/-- Every point of every ring `FixSelfIntersects` produces is a point of the ring it was given or a value of
`isect` (any cross-product, any area arithmetic). -/
theorem fixSelfIntersects_points (cs : Pt → Pt → Pt → Int) (isect : Pt → Pt → Pt → Pt → Pt)
    (adec : Ring → Pt → Pt → Pt → AreaDec) (fuel : Nat) (ring : Ring)
    (m : Option Ring) (sp : List Ring) (k : Nat)
    (h : fixSelfIntersects cs isect adec fuel ring = .done m sp k) :
    ∀ q, (m = some q ∨ q ∈ sp) → ∀ x, x ∈ q → x ∈ ring ∨ ∃ a b c d, x = isect a b c d := by
  let Q : Pt → Prop := fun x => x ∈ ring ∨ ∃ a b c d, x = isect a b c d
  have key : ∀ fuel r pts acc k m sp k', fsiLoop cs isect adec fuel r pts acc k = .done m sp k' →
      (∀ x, x ∈ r → Q x) → (∀ q, q ∈ acc → ∀ x, x ∈ q → Q x) →
      (∀ m', m = some m' → ∀ x, x ∈ m' → Q x) ∧ ∀ q, q ∈ sp → ∀ x, x ∈ q → Q x := by
    apply fsiLoop_inv cs isect adec (fun r => ∀ x, x ∈ r → Q x) (fun r => ∀ x, x ∈ r → Q x)
    · intro r hI x hx; exact hI x ((mem_rot1 r x).mp hx)
    · intro r pv o nx nn nnn hv h1 _ hI x hx
      rcases List.mem_append.mp hx with hx | hx
      · exact hI x hx
      · simp only [List.mem_singleton] at hx; subst hx
        -- `nn` is a point of `r`
        apply hI
        match r, hv with
        | [a], hv => simp [view] at hv; obtain ⟨_, _, _, rfl, _⟩ := hv; simp
        | [a, b], hv => simp [view] at hv; obtain ⟨_, _, _, rfl, _⟩ := hv; simp
        | [a, b, c], hv => simp [view] at hv; obtain ⟨_, _, _, rfl, _⟩ := hv; simp
        | a :: b :: c :: d :: rest, hv => simp [view] at hv; obtain ⟨_, _, _, rfl, _⟩ := hv; simp
    · intro r pv o nx nn nnn m nr _ _ hs hI
      obtain ⟨s, sn, nn', mid, pv', rfl, _, hm, hnr⟩ := doSplitOp_main isect adec hs
      have hip : Q (isect pv' s sn nn') := Or.inr ⟨_, _, _, _, rfl⟩
      constructor
      · subst hm
        intro x hx
        split at hx
        · apply hI; simp at hx ⊢; rcases hx with hx | hx | hx <;> simp [hx]
        · simp only [List.mem_cons] at hx
          rcases hx with hx | hx | hx | hx
          · apply hI; simp [hx]
          · rw [hx]; exact hip
          · apply hI; simp [hx]
          · apply hI; simp [hx]
      · intro q hq x hx
        subst hnr
        split at hq
        · cases hq
          simp only [List.mem_cons, List.not_mem_nil, or_false] at hx
          rcases hx with hx | hx | hx
          · rw [hx]; exact hip
          · apply hI; simp [hx]
          · apply hI; simp [hx]
        · cases hq
  intro q hq x hx
  unfold fixSelfIntersects at h
  split at h
  · cases h
  · cases h
    rcases hq with hq | hq
    · cases hq; exact Or.inl hx
    · simp at hq
  · cases h
    rcases hq with hq | hq
    · cases hq; exact Or.inl hx
    · simp at hq
  · have := key fuel ring 0 [] 0 m sp k h (fun x hx => Or.inl hx) (by simp)
    rcases hq with hq | hq
    · exact this.1 q hq x hx
    · exact this.2 q hq x hx

/-- The model never faults: it never follows a null pointer and never calls `DoSplitOp` on a ring of fewer than
four nodes (there `prevOp`, `splitOp`, `splitOp->next`, `nextNextOp` would alias). -/
theorem fixSelfIntersects_no_fault (cs : Pt → Pt → Pt → Int) (hcs : CsSound cs) (isect : Pt → Pt → Pt → Pt → Pt)
    (adec : Ring → Pt → Pt → Pt → AreaDec)
    (fuel : Nat) (ring : Ring) (hne : ring ≠ []) : fixSelfIntersects cs isect adec fuel ring ≠ .fault := by
  unfold fixSelfIntersects
  split
  · exact absurd rfl hne
  · simp
  · simp
  · exact fsiLoop_no_fault_aux isect hcs adec fuel ring 0 [] 0 hne

/-! ### 3. termination -/

/-
Full statement asked for: `∃ fuel, ∀ isect ring, fixX isect fuel ring` is not `outOfFuel` with `fuel` a function of
`ring.length`.  In Clipper2 1.5.2 the loop has, besides `DoSplitOp` (ring shrinks by 1 or 2), the "adjacent
intersections" branch that *inserts* a node with `DuplicateOp`, so the ring length is not a measure.  Proved: the
bound below, in which the number `K` of `DuplicateOp` executions is a parameter — the loop cannot run for ever
without executing that branch infinitely often — and that for arbitrary `isect` no bound on `K` exists
(`fixSelfIntersects_diverges_for_some_isect`).  Not proved: a bound on `K` for the compiled `GetSegmentIntersectPt`
(that needs the geometry of the intersection point; 3.6 million random lattice rings of 4–27 nodes gave `K ≤ 12`,
and the real function is run under a 60 s alarm in the harness).
-/
/-- `fsiFuel n K = (n+K)(2(n+K)+3) + n + K + 1` iterations suffice for a ring of `n` nodes unless the
`DuplicateOp` branch is executed more than `K` times: if the model gives up with that fuel, its `DuplicateOp`
counter exceeds `K`.  Measure: `W(2W+3) + (nodes left in the current pass) + K` with `W = n + K`;
every `DoSplitOp` decreases `W`, every `DuplicateOp` decreases `K` at constant `W`, every step decreases the middle
term.  Holds for every cross-product, `isect` and area arithmetic. -/
theorem fixSelfIntersects_fuel_partial (cs : Pt → Pt → Pt → Int) (isect : Pt → Pt → Pt → Pt → Pt)
    (adec : Ring → Pt → Pt → Pt → AreaDec) (ring : Ring) (K k' : Nat)
    (h : fixSelfIntersects cs isect adec (fsiFuel ring.length K) ring = .outOfFuel k') : k' > K := by
  unfold fixSelfIntersects at h
  split at h
  · cases h
  · cases h
  · cases h
  · have := fsiLoop_fuel_aux cs isect adec (fsiFuel ring.length K) ring 0 [] 0 K k'
      (by simp [fsiFuel, mu]) h
    omega

/-- the general form, from any loop state -/
theorem fsiLoop_fuel (cs : Pt → Pt → Pt → Int) (isect : Pt → Pt → Pt → Pt → Pt)
    (adec : Ring → Pt → Pt → Pt → AreaDec) (fuel : Nat) (r : Ring) (pts : Nat) (acc : List Ring) (k K k' : Nat)
    (hf : fuel > (r.length + K) * (2 * (r.length + K) + 3) + (if pts = 0 then r.length else pts) + K)
    (h : fsiLoop cs isect adec fuel r pts acc k = .outOfFuel k') : k' > k + K :=
  fsiLoop_fuel_aux cs isect adec fuel r pts acc k K k' hf h

/-- the bound is not vacuous: too little fuel does run out (here before any `DuplicateOp`) -/
example : fixX (fun _ _ _ _ => ⟨5,5⟩) 2 [⟨0,0⟩,⟨10,10⟩,⟨10,0⟩,⟨0,10⟩,⟨-5,5⟩] = .outOfFuel 0 := by decide
/-- a ring on which the `DuplicateOp` branch runs: (6,5)→(0,-5) crosses both (0,0)→(10,0) and (10,0)→(4,5); a node
carrying (10,0) is inserted before the first node, and because `op2 == outrec->pts` there the loop ends at once -/
example : fixX (fun _ _ _ _ => ⟨0,0⟩) (fsiFuel 6 1) [⟨0,-5⟩,⟨0,0⟩,⟨10,0⟩,⟨4,5⟩,⟨5,-1⟩,⟨6,5⟩] =
    .done (some [⟨0,-5⟩,⟨0,0⟩,⟨10,0⟩,⟨4,5⟩,⟨5,-1⟩,⟨6,5⟩,⟨10,0⟩]) [] 1 := by decide

/-- the ring of the divergence witness: nine nodes, no equal neighbours -/
def advRing : Ring := [⟨-3,1⟩,⟨-2,-3⟩,⟨3,3⟩,⟨3,1⟩,⟨-3,-1⟩,⟨2,-1⟩,⟨-3,-3⟩,⟨-2,-3⟩,⟨-2,-1⟩]

/-- **Termination is not a property of the control flow alone.**  For the intersection-point function that always
answers `ln1b` (`= splitOp->pt`, the value `GetSegmentIntersectPt` returns on its `t ≥ 1` branch) the loop never
ends on `advRing`: after 14 iterations (two `DuplicateOp` insertions, two `DoSplitOp` calls that each remove one
node net) it is back in its first state.  So every termination proof must use what `GetSegmentIntersectPt`
computes; `fixSelfIntersects_fuel_partial` is what holds without it. -/
theorem fixSelfIntersects_diverges_for_some_isect :
    CycNoDup advRing ∧ advRing.length = 9 ∧
    ∀ fuel, ∃ k, fixX Lemmas.SplitOpAdv.isectAdv fuel advRing = .outOfFuel k := by
  refine ⟨by decide, rfl, fun fuel => ?_⟩
  exact Lemmas.SplitOpAdv.advCycle_outOfFuel fuel (advRing, 0) (by simp [advRing, Lemmas.SplitOpAdv.advCycle]) [] 0

/-! ### 4. `FixOk` and the hypothesis-free structural theorem -/

/-- **`FixOk` for the modelled `FixSelfIntersects`** (every `isect`, every `fuel`). -/
theorem fixOk_fixMain (isect : Pt → Pt → Pt → Pt → Pt) (fuel : Nat) : FixOk (fixMain isect fuel) := by
  intro r r' _ hc h _
  unfold fixMain at h
  split at h
  · rename_i m sp k hd
    exact (fixSelfIntersects_no_equal_neighbours csX csSound_csX isect adecX adecSound_adecX fuel r m sp k hd hc).1 r' h
  · cases h

/-- **Structural part of C03, `FixSelfIntersects` included** (single outrec).  For every `isect`: every closed path
that `CleanCollinear` + `FixSelfIntersects` + `BuildPath64` emit for an outrec has at least three vertices and no
two cyclically consecutive vertices are equal (last/first included); it is `builtPath r' rev` for the ring `r'`
that `FixSelfIntersects` left.  (`fixMain` returns a ring only for runs of the model that finish within `fuel`;
see `fixSelfIntersects_fuel_partial`.) -/
theorem solutionPath_shape (pc rev : Bool) (isect : Pt → Pt → Pt → Pt → Pt) (fuel : Nat) (ring : Ring) (p : Path)
    (h : solutionPath pc rev (fixMain isect fuel) ring = some (some p)) :
    p.length ≥ 3 ∧ CycNoDup p ∧
    ∃ r r', cleanLoop pc (cleanFuel ring.length) [] ring 0 = some (some r) ∧ fixMain isect fuel r = some r' ∧
      p = builtPath r' rev :=
  C03.solutionPath_shape_partial pc rev (fixMain isect fuel) ring p (fixOk_fixMain isect fuel) h

example : solutionPath false false (fixMain (fun _ _ _ _ => ⟨5,5⟩) 100)
      [⟨0,0⟩,⟨5,5⟩,⟨10,10⟩,⟨10,0⟩,⟨0,10⟩,⟨-5,5⟩]
    = some (some [⟨5,5⟩,⟨0,10⟩,⟨-5,5⟩,⟨0,0⟩]) := by decide

/-- `cleanCollinearX` is `cleanCollinear` with `fix := fixMain` whenever it finishes -/
theorem cleanCollinearX_eq (pc : Bool) (isect : Pt → Pt → Pt → Pt → Pt) (fuel : Nat) (ring : Ring)
    (m : Option Ring) (sp : List Ring) (k : Nat) (h : cleanCollinearX pc isect fuel ring = .done m sp k) :
    cleanCollinear pc (fixMain isect fuel) ring = some m := by
  unfold cleanCollinearX cleanCollinearG at h
  unfold cleanCollinear
  split
  · rename_i hv; rw [if_pos hv] at h; cases h; rfl
  · rename_i hv; rw [if_neg hv] at h
    split at h
    · cases h
    · rename_i e; rw [e]; cases h; rfl
    · rename_i r e; rw [e]; simp only [fixMain, h]

/-- **Structural part of C03 for the whole closed branch of `BuildPaths64`**, split-off outrecs included: whatever
rings the sweep leaves in `outrec_list_`, every closed path of the solution — those built from outrecs that
`FixSelfIntersects` appended while the list was being traversed too — has at least three vertices and no two
cyclically consecutive equal vertices.  For every `isect` and all fuels, whenever the model finishes. -/
theorem buildPaths_shape (pc rev : Bool) (isect : Pt → Pt → Pt → Pt → Pt) (fuel : Nat) :
    ∀ (wf : Nat) (work : List Ring) (out : List Path), buildPathsX pc rev isect fuel wf work = some out →
      ∀ p, p ∈ out → p.length ≥ 3 ∧ CycNoDup p := by
  intro wf
  induction wf with
  | zero =>
    intro work out h p hp
    cases work with
    | nil => simp [buildPathsX, buildPathsG] at h; subst h; simp at hp
    | cons a rest => simp [buildPathsX, buildPathsG] at h
  | succ wf ih =>
    intro work out h p hp
    cases work with
    | nil => simp [buildPathsX, buildPathsG] at h; subst h; simp at hp
    | cons ring rest =>
      simp only [buildPathsX, buildPathsG] at h
      split at h
      · exact ih rest out h p hp
      · split at h
        · rename_i m sp k hcc
          split at h
          · cases h
          · rename_i out' hrec
            have hcc' := cleanCollinearX_eq pc isect fuel ring m sp k hcc
            split at h
            · rename_i p' hb
              cases h
              rcases List.mem_cons.mp hp with e | hp'
              · subst e
                have hsp : solutionPath pc rev (fixMain isect fuel) ring = some (some p) := by
                  unfold solutionPath
                  rw [hcc']
                  cases m with
                  | none => simp at hb
                  | some r => simpa using hb
                have := solutionPath_shape pc rev isect fuel ring p hsp
                exact ⟨this.1, this.2.1⟩
              · exact ih _ _ hrec p hp'
            · cases h; exact ih _ _ hrec p hp
        · cases h

example : buildPathsX false false (fun _ _ _ _ => ⟨5,5⟩) 100 10 [[⟨0,0⟩,⟨5,5⟩,⟨10,10⟩,⟨10,0⟩,⟨0,10⟩,⟨-5,5⟩]]
    = some [[⟨5,5⟩,⟨0,10⟩,⟨-5,5⟩,⟨0,0⟩], [⟨10,10⟩,⟨10,0⟩,⟨5,5⟩]] := by decide

end Clipper.Props.C03Split
