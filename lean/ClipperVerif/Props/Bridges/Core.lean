/-
Bridge theorems (tie T, DESIGN.md §2.3), clipper.core.h (`Rect64`) against `Model/RectClipLines.lean`, `Model/RectClipAuto.lean`, `Model/Owner.lean`.
For every definition that `tools/cpp2lean.py` regenerates from the C++ source and that a hand-written model re-implements:
`generated = hand` for ALL arguments.  The generated side is re-created from /repo's current sources on every `./check`
run, so a change of the C++ function changes the left-hand side and the proof below stops compiling (the theorem named in
the error is the obligation that broke).

Conventions of the generated side (see the head of `tools/cpp2lean.py`): a record parameter is passed field by field
(`e_wind_cnt`), a pointer used as a truth value is the Boolean `…_nonnull`, pointers compared with each other are `Nat`
identities (`e_addr` = which record `e` is), a skeleton returns the scalar members it assigns followed by the log `acts` of
the untranslated calls / pointer assignments it performs, a value read after an untranslated call that may have assigned
it is a separate argument `…_after<k>`.
Core Lean only.
-/
import ClipperVerif.Lemmas.Bridges
import ClipperVerif.Generated.Core
import ClipperVerif.Model.RectClipAuto
import ClipperVerif.Model.Owner
set_option linter.unusedSimpArgs false
namespace Clipper.Props.Bridges
open Clipper Clipper.Model Clipper.Lemmas.Bridges

/-! ## clipper.core.h: `Rect64`, `MidPoint` -/

/-- C++ `Rect64::IsEmpty` = hand `Model.RC.Rect.isEmpty` (Model/RectClipLines.lean) -/
theorem rectIsEmpty_bridge (r : RC.Rect) :
    Gen.RectIsEmpty (bottom := r.bottom) (left := r.left) (right := r.right) (top := r.top) = r.isEmpty := rfl

/-- C++ `Rect64::IsEmpty` = hand `Model.Owner.Rect.isEmpty` (Model/Owner.lean) -/
theorem rectIsEmpty_owner_bridge (a : Owner.Rect) :
    Gen.RectIsEmpty (bottom := a.b) (left := a.l) (right := a.r) (top := a.t) = a.isEmpty := rfl

/-- C++ `Rect64::Contains(const Rect64&)` = hand `Model.RC.Rect.containsRect` -/
theorem rectContainsRect_bridge (a b : RC.Rect) :
    Gen.RectContainsRect (bottom := a.bottom) (left := a.left) (right := a.right) (top := a.top)
      (rec_bottom := b.bottom) (rec_left := b.left) (rec_right := b.right) (rec_top := b.top) = a.containsRect b := rfl

/-- C++ `Rect64::Contains(const Rect64&)` = hand `Model.Owner.Rect.contains` (the bounds test of `CheckSplitOwner` /
`RecursiveCheckOwners`) -/
theorem rectContainsRect_owner_bridge (a b : Owner.Rect) :
    Gen.RectContainsRect (bottom := a.b) (left := a.l) (right := a.r) (top := a.t)
      (rec_bottom := b.b) (rec_left := b.l) (rec_right := b.r) (rec_top := b.t) = a.contains b := rfl

/-- C++ `Rect64::Intersects` = hand `Model.RC.Rect.intersects` -/
theorem rectIntersects_bridge (a b : RC.Rect) :
    Gen.RectIntersects (bottom := a.bottom) (left := a.left) (right := a.right) (top := a.top)
      (rec_bottom := b.bottom) (rec_left := b.left) (rec_right := b.right) (rec_top := b.top) = a.intersects b := rfl

/-- C++ `Rect64::MidPoint` = hand `Model.RC.Rect.midPoint` (Model/RectClipAuto.lean; `/` on `int64_t` truncates) -/
theorem rectMidPoint_bridge (r : RC.Rect) :
    Gen.RectMidPoint (bottom := r.bottom) (left := r.left) (right := r.right) (top := r.top) =
      (r.midPoint.x, r.midPoint.y) := rfl

/-- C++ `Rect64::Contains(const Point64&)` is the *open* rectangle; hand `Model.RC.inRect` is the closed one: the open one implies
the closed one (no hand model uses the open test directly). -/
theorem rectContainsPt_inRect (r : RC.Rect) (p : Pt) :
    Gen.RectContainsPt (bottom := r.bottom) (left := r.left) (right := r.right) (top := r.top) (pt_x := p.x) (pt_y := p.y) = true →
      RC.inRect r p = true := by
  simp only [Gen.RectContainsPt, RC.inRect, Bool.and_eq_true, decide_eq_true_eq]
  omega

end Clipper.Props.Bridges
