/-
Bridge theorems (tie T, DESIGN.md §2.3), clipper.engine.cpp: the rest of `TrimHorz` (the first round bridged the `while` condition and
the `preserveCollinear` break test: `trimHorz_loop_bridge` in `Props/Bridges/CleanUp.lean`, still the current `Model/TrimHorz.lean`):
the second `break` test and the tail.
`generated = hand` for ALL arguments; the generated side is re-created from /repo's current sources on every `./check` run.
Core Lean only.
-/
import ClipperVerif.Lemmas.Bridges
import ClipperVerif.Generated.Engine
import ClipperVerif.Model.TrimHorz
import ClipperVerif.Model.AddPathsRings
set_option linter.unusedSimpArgs false
namespace Clipper.Props.Bridges
open Clipper Clipper.Model Clipper.Lemmas.Bridges

open Clipper.Model.TrimHorz in
/-- C++ `TrimHorz`: `if (IsMaxima(horzEdge)) break;` after `horzEdge.vertex_top = NextVertex(horzEdge)` tests the `LocalMax` flag of the
vertex just reached — the field `V.isMax` of hand `Model.TrimHorz.loop` (`fl` = that vertex's flags as `Model.AddPathsRings.VFlags`);
with `trimHorz_loop_bridge` every test of the loop is now the generated one -/
theorem trimHorz_isMax_bridge (pc : Bool) (botX topX topY : Int) (adv : Nat) (v : V) (rest : List V)
    (fl : Clipper.Model.AddPathsRings.VFlags) (hfl : fl.localMax = v.isMax) :
    loop pc botX topX topY adv (v :: rest) =
      if !Gen.TrimHorz_cond (horzEdge_top_y := topY) (pt_y := v.y) then ⟨topX, topY, adv, false⟩
      else if Gen.TrimHorz_break (preserveCollinear := pc) (horzEdge_bot_x := botX) (horzEdge_top_x := topX) (pt_x := v.x)
        then ⟨topX, topY, adv, false⟩
      else if Gen.TrimHorz_isMax (horzEdge_vertex_top_flags := UInt64.ofNat fl.bits) then ⟨v.x, v.y, adv + 1, false⟩
      else loop pc botX v.x v.y (adv + 1) rest := by
  have hm : Gen.TrimHorz_isMax (horzEdge_vertex_top_flags := UInt64.ofNat fl.bits) = v.isMax := by
    rw [← hfl]
    rcases fl with ⟨a, b, c, d⟩
    cases a <;> cases b <;> cases c <;> cases d <;> decide
  rw [hm]
  simp only [loop, Gen.TrimHorz_cond, Gen.TrimHorz_break]
  by_cases h1 : v.y = topY <;> cases pc <;> by_cases h2 : v.x < topX <;> by_cases h3 : botX < topX <;> simp [h1, h2, h3]

/-- non-vacuity of `hfl`: a vertex flagged `LocalMax` -/
example : ({ localMax := true } : Clipper.Model.AddPathsRings.VFlags).localMax = (⟨3, 4, true⟩ : Clipper.Model.TrimHorz.V).isMax := rfl

open Clipper.Model.TrimHorz in
/-- C++ `TrimHorz`: `if (wasTrimmed) SetDx(horzEdge);` — `wasTrimmed` is `0 < adv` of hand `Model.TrimHorz.Out` -/
theorem trimHorz_tail_bridge (o : Out) :
    Gen.TrimHorz_tail (wasTrimmed := decide (0 < o.adv)) = (if 0 < o.adv then [("SetDx(horzEdge)", [])] else []) := by
  by_cases h : 0 < o.adv <;> simp [Gen.TrimHorz_tail, h]

end Clipper.Props.Bridges
