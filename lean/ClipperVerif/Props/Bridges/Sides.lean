/-
Bridge theorems (tie T, DESIGN.md §2.3), clipper.engine.cpp (output-record sides: `Split`, `AddLocalMinPoly`, `AddLocalMaxPoly`, `SwapOutrecs`, `GetPrevHotEdge`) against `Model/AelSides.lean`.
For every definition that `tools/cpp2lean.py` regenerates from the C++ source and that a hand-written model re-implements:
`generated = hand` for ALL arguments.  The generated side is re-created from /repo's current sources on every `./check`
run, so a change of the C++ function changes the left-hand side and the proof below stops compiling (the theorem named in
the error is the obligation that broke).

Conventions of the generated side (see the head of `tools/cpp2lean.py`): a record parameter is passed field by field
(`e_wind_cnt`), a pointer used as a truth value is the Boolean `…_nonnull`, pointers compared with each other are `Nat`
identities (`e_addr` = which record `e` is), a skeleton returns the scalar members it assigns followed by the log `acts` of
the untranslated calls / pointer assignments it performs, a value read after an untranslated call that may have assigned
it is a separate argument `…_after<k>`.
Core Lean only.
-/
import ClipperVerif.Lemmas.BridgesEngine
set_option linter.unusedSimpArgs false
namespace Clipper.Props.Bridges
open Clipper Clipper.Model Clipper.Lemmas.Bridges

/-! ## clipper.engine.cpp: side bookkeeping (`Model/AelSides.lean`) -/

/-- C++ `IsHotEdge(e) || IsJoined(e)` = the *logical* hotness of hand `Model.Edge.hot` as `Model.localOK` states it for a closed edge
(`x.orec.isSome || x.join != .none`) -/
theorem isHot_logical_bridge (x : SEdge) (j : JoinWith) (hj : toJoin j = x.join) :
    (Gen.IsHotEdge (e_outrec_nonnull := x.orec.isSome) || Gen.IsJoined (e_join_with := j)) = (x.orec.isSome || x.join != .none) := by
  cases j <;> simp [toJoin] at hj <;> simp [Gen.IsHotEdge, Gen.IsJoined, ← hj]

/-- C++ `IsFront(e)` and `OutrecIsAscending(e)` are the same test `e.outrec->front_edge == &e`: the field `Model.Rec.front` by definition -/
theorem isFront_bridge (a fe : Nat) : Gen.IsFront (e_addr := a) (e_outrec_front_edge := fe) = decide (fe = a) ∧
    Gen.OutrecIsAscending (hotEdge_addr := a) (hotEdge_outrec_front_edge := fe) = decide (fe = a) := by
  simp [Gen.IsFront, Gen.OutrecIsAscending, eq_comm]

/-- C++ `GetPrevHotEdge`, the `while (prev && (IsOpen(*prev) || !IsHotEdge(*prev)))` condition, is the test of hand `Model.prevHot`
(through `Model.tracked`): the walk continues exactly when `tracked x = none`, and stops with `IsFront` of the edge found … -/
theorem prevHot_cons_bridge (x : SEdge) (xs : List SEdge) :
    prevHot (x :: xs) =
      if Gen.GetPrevHotEdge_cond (prev_local_min_is_open := x.e.isOpen) (prev_nonnull := true) (prev_outrec_nonnull := x.orec.isSome)
      then prevHot xs else x.orec.map (·.front) := by
  rcases x with ⟨e, j, _ | r⟩ <;> cases h : e.isOpen <;>
    simp [prevHot, tracked, Gen.GetPrevHotEdge_cond, Gen.IsOpen, Gen.IsHotEdge, h]

/-- … or at the null pointer -/
theorem prevHot_nil_bridge (o h : Bool) :
    Gen.GetPrevHotEdge_cond (prev_local_min_is_open := o) (prev_nonnull := false) (prev_outrec_nonnull := h) = false ∧
      prevHot [] = none := by
  simp [Gen.GetPrevHotEdge_cond, prevHot]

/-- C++ `ClipperBase::Split` = the partner choice of hand `Model.splitJoined` (`Right`: `next_in_ael`, otherwise `prev_in_ael`), both
`join_with` cleared as in `Model.splitPair`, then `AddLocalMinPoly(…, pt, true)` on the pair in AEL order -/
theorem split_bridge (j jn jp : JoinWith) :
    Gen.Split (e_join_with := j) (e_next_in_ael_join_with := jn) (e_prev_in_ael_join_with := jp) =
      match toJoin j with
      | .right => (.noJoin, .noJoin, jp, [("AddLocalMinPoly(e,e_next_in_ael,pt,·)", [1])])
      | _ => (.noJoin, jn, .noJoin, [("AddLocalMinPoly(e_prev_in_ael,e,pt,·)", [1])]) := by
  cases j <;> simp [Gen.Split, toJoin]

/-- C++ `AddLocalMinPoly`, closed path: which edge becomes the front edge of the new record is hand `Model.minFront1`
(`prev = some asc` when `GetPrevHotEdge` found an edge and `OutrecIsAscending` returned `asc`) -/
theorem addLocalMinPoly_closed_bridge (isNew up nn : Bool) (a fe opa : Nat) (dx : Int) (io : Bool) :
    Gen.AddLocalMinPoly (is_new := isNew) (e1_local_min_is_open := false) (e1_wind_dx := dx) (op_addr := opa)
      (outrec_is_open_after1 := io) (prevHotEdge_addr := a) (prevHotEdge_nonnull := nn) (prevHotEdge_outrec_front_edge := fe)
      (using_polytree_ := up) =
    (opa, io,
      [("outrec := NewOutRec()", []), ("e1_outrec := outrec", []), ("e2_outrec := outrec", [])] ++
      (if nn then (if up then [("SetOwner(outrec,prevHotEdge_outrec)", [])] else []) else [("outrec_owner := nullptr", [])]) ++
      [(if minFront1 (if nn then some (decide (a = fe)) else none) isNew then "SetSides(outrec,e1,e2)" else "SetSides(outrec,e2,e1)", [])] ++
      [("op := new OutPt", []), ("outrec_pts := op", [])]) := by
  cases nn <;> cases up <;> cases isNew <;> by_cases h : a = fe <;>
    simp [Gen.AddLocalMinPoly, Gen.AddLocalMinPoly.m2, Gen.AddLocalMinPoly.m3, Gen.AddLocalMinPoly.m4, Gen.IsOpen,
      Gen.OutrecIsAscending, minFront1, h]

/-- C++ `AddLocalMaxPoly`, the `if (IsFront(e1) == IsFront(e2))` block for two edges that are not open ends: it returns `nullptr`
with `succeeded_ = false` exactly when hand `Model.addLocalMaxFn` reports `sidesEqual` -/
theorem addLocalMax_sides_bridge (a1 fe1 a2 fe2 ida idb : Nat) (u1 u2 : UInt64) (acts : Log) (succ : Bool)
    (h1 : Gen.IsOpenEnd (ae_vertex_top_flags := u1) = false) (h2 : Gen.IsOpenEnd (ae_vertex_top_flags := u2) = false) :
    Gen.AddLocalMaxPoly.m4 a1 fe1 a2 fe2 u1 acts succ u2 =
      (match addLocalMaxFn ⟨ida, decide (fe1 = a1)⟩ ⟨idb, decide (fe2 = a2)⟩ with
        | .error .sidesEqual => (true, 0, false, acts)
        | _ => (false, default, succ, acts)) := by
  by_cases e1 : fe1 = a1 <;> by_cases e2 : fe2 = a2 <;>
    simp [Gen.AddLocalMaxPoly.m4, Gen.AddLocalMaxPoly.m3, Gen.IsFront, addLocalMaxFn, h1, h2, e1, e2, eq_comm] <;>
    (repeat' split) <;> simp_all <;> (repeat' split at *) <;> simp_all


/-- C++ `AddLocalMaxPoly`, closed path with two different records: `JoinOutrecPaths` keeps the record with the smaller `idx`, as hand
`Model.addLocalMaxFn` (`ra.id < rb.id` ⇒ `rb` is relabelled to `ra`) -/
theorem addLocalMax_join_bridge (ida idb : Nat) (ha : ida < 2 ^ 64) (hb : idb < 2 ^ 64) (acts : Log) :
    Gen.AddLocalMaxPoly.m6 (UInt64.ofNat ida) (UInt64.ofNat idb) acts =
      acts ++ [(if ida < idb then "JoinOutrecPaths(e1,e2)" else "JoinOutrecPaths(e2,e1)", [])] := by
  have : (UInt64.ofNat ida < UInt64.ofNat idb) ↔ ida < idb := by
    rw [UInt64.lt_iff_toNat_lt, UInt64.toNat_ofNat_of_lt' ha, UInt64.toNat_ofNat_of_lt' hb]
  by_cases h : ida < idb <;> simp [Gen.AddLocalMaxPoly.m6, this, h]

/-- C++ `SwapOutrecs`, both edges on ONE record (`or1 == or2`): the record's `front_edge` and `back_edge` are exchanged — hand
`Model.swapOutrecs` flips `front` of both `Rec`s -/
theorem swapOutrecs_same_bridge (a1 a2 r fe1 fe2 : Nat) (n1 n2 : Bool) :
    Gen.SwapOutrecs (e1_addr := a1) (e1_outrec := r) (e1_outrec_front_edge := fe1) (e1_outrec_nonnull := n1)
      (e2_addr := a2) (e2_outrec := r) (e2_outrec_front_edge := fe2) (e2_outrec_nonnull := n2) =
      [("e1_outrec_front_edge := e1_outrec_back_edge", []), ("e1_outrec_back_edge := e1_outrec_front_edge", [])] := by
  simp [Gen.SwapOutrecs]

/-- C++ `SwapOutrecs`, two different hot records: on each record the side that pointed to its edge now points to the other edge, and the
edges exchange `outrec` — each edge inherits the other's record *and side*: hand `Model.swapOutrecs` returns `(r2, r1)` -/
theorem swapOutrecs_diff_bridge (a1 a2 r1 r2 fe1 fe2 : Nat) (h : r1 ≠ r2) :
    Gen.SwapOutrecs (e1_addr := a1) (e1_outrec := r1) (e1_outrec_front_edge := fe1) (e1_outrec_nonnull := true)
      (e2_addr := a2) (e2_outrec := r2) (e2_outrec_front_edge := fe2) (e2_outrec_nonnull := true) =
      [(if a1 = fe1 then "e1_outrec_front_edge := e2" else "e1_outrec_back_edge := e2", []),
       (if a2 = fe2 then "e2_outrec_front_edge := e1" else "e2_outrec_back_edge := e1", []),
       ("e1_outrec := e2_outrec", []), ("e2_outrec := e1_outrec", [])] := by
  by_cases h1 : a1 = fe1 <;> by_cases h2 : a2 = fe2 <;> simp [Gen.SwapOutrecs, h, h1, h2]

end Clipper.Props.Bridges
