/-
Bridge theorems (tie T, DESIGN.md §2.3), clipper.engine.cpp (`EdgesAdjacentInAEL`) against `Model/IntersectList.lean`.
For every definition that `tools/cpp2lean.py` regenerates from the C++ source and that a hand-written model re-implements:
`generated = hand` for ALL arguments.  The generated side is re-created from /repo's current sources on every `./check`
run, so a change of the C++ function changes the left-hand side and the proof below stops compiling (the theorem named in
the error is the obligation that broke).

Conventions of the generated side (see the head of `tools/cpp2lean.py`): a record parameter is passed field by field
(`e_wind_cnt`), a pointer used as a truth value is the Boolean `…_nonnull`, pointers compared with each other are `Nat`
identities (`e_addr` = which record `e` is), a skeleton returns the scalar members it assigns followed by the log `acts` of
the untranslated calls / pointer assignments it performs, a value read after an untranslated call that may have assigned
it is a separate argument `…_after<k>`.
Core Lean only.
-/
import ClipperVerif.Lemmas.Bridges
import ClipperVerif.Generated.Engine
import ClipperVerif.Model.IntersectList
set_option linter.unusedSimpArgs false
namespace Clipper.Props.Bridges
open Clipper Clipper.Model Clipper.Lemmas.Bridges

/-! ## clipper.engine.cpp: `EdgesAdjacentInAEL` (`Model/IntersectList.lean`) -/

open Clipper.Model.IntersectList in
/-- C++ `EdgesAdjacentInAEL(inode)` = hand `Model.IntersectList.adjacent` on the AEL as a duplicate-free list of keys (pointer identity of
the edge with key `k` is `k + 1`, 0 is `nullptr`) -/
theorem adjacent_bridge : ∀ (π : List Nat) (a b : Nat), π.Nodup →
    adjacent π (a, b) =
      Gen.EdgesAdjacentInAEL (inode_edge1_next_in_ael := enc (nextOf π a)) (inode_edge1_prev_in_ael := enc (prevOf π a))
        (inode_edge2 := b + 1)
  | [], a, b, _ => by simp [adjacent, nextOf, prevOf, enc, Gen.EdgesAdjacentInAEL]
  | [x], a, b, _ => by simp [adjacent, nextOf, prevOf, enc, Gen.EdgesAdjacentInAEL]
  | x :: y :: t, a, b, hn => by
    have hn' : (y :: t).Nodup := (List.nodup_cons.mp hn).2
    have hxy : x ≠ y := fun e => (List.nodup_cons.mp hn).1 (by simp [e])
    have hxt : x ∉ y :: t := (List.nodup_cons.mp hn).1
    have ih := adjacent_bridge (y :: t) a b hn'
    unfold adjacent
    rw [ih]
    by_cases hxa : x = a
    · subst hxa
      have hya : y ≠ x := fun e => hxy e.symm
      have hp : prevOf (y :: t) x = none := prevOf_none_of_not_mem _ _ hxt
      have hnx : nextOf (y :: t) x = none := nextOf_none_of_not_mem _ _ hxt
      simp [nextOf, prevOf, hya, hp, hnx, enc, Gen.EdgesAdjacentInAEL]
      by_cases hyb : y = b <;> simp [hyb]
      intro _; exact hya
    · by_cases hya : y = a
      · subst hya
        have hyt : y ∉ t := (List.nodup_cons.mp hn').1
        have hp : prevOf (y :: t) y = none := by
          cases t with
          | nil => rfl
          | cons z t' =>
            have hz : z ≠ y := fun e => hyt (by simp [e])
            have : y ∉ z :: t' := hyt
            simp [prevOf, hz, prevOf_none_of_not_mem _ _ this]
        simp [nextOf, prevOf, hxa, hp, enc, Gen.EdgesAdjacentInAEL]
        have hxy' : (x == y) = false := by simp [hxa]
        by_cases hxb : x = b
        · simp [hxb]
        · have hxb' : (x == b) = false := by simp [hxb]
          simp [hxb', hxy', hxb]
          exact decide_eq_decide.mpr Iff.rfl
      · simp [nextOf, prevOf, hxa, hya, Gen.EdgesAdjacentInAEL]

end Clipper.Props.Bridges
