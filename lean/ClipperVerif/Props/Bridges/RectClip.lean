/-
Bridge theorems (tie T, DESIGN.md §2.3), clipper.rectclip.cpp against `Model/RectClip.lean`, `Model/RectClipLines.lean`.
For every definition that `tools/cpp2lean.py` regenerates from the C++ source and that a hand-written model re-implements:
`generated = hand` for ALL arguments.  The generated side is re-created from /repo's current sources on every `./check`
run, so a change of the C++ function changes the left-hand side and the proof below stops compiling (the theorem named in
the error is the obligation that broke).

Conventions of the generated side (see the head of `tools/cpp2lean.py`): a record parameter is passed field by field
(`e_wind_cnt`), a pointer used as a truth value is the Boolean `…_nonnull`, pointers compared with each other are `Nat`
identities (`e_addr` = which record `e` is), a skeleton returns the scalar members it assigns followed by the log `acts` of
the untranslated calls / pointer assignments it performs, a value read after an untranslated call that may have assigned
it is a separate argument `…_after<k>`.
Core Lean only.
-/
import ClipperVerif.Lemmas.Bridges
import ClipperVerif.Generated.RectClip
import ClipperVerif.Model.RectClipAuto
set_option linter.unusedSimpArgs false
namespace Clipper.Props.Bridges
open Clipper Clipper.Model Clipper.Lemmas.Bridges

/-! ## clipper.rectclip.cpp (`Model/RectClip.lean`, `Model/RectClipLines.lean`) -/

section RectClip
open Clipper.Model.RC

/-- `locIdx` is the position of the corner hand `cornerAt` picks in `rect_as_path_ = [c0, c1, c2, c3]` -/
theorem cornerAt_locIdx (r : RC.Rect) (l : Location) : RC.cornerAt r l = r.asPath[(locIdx l).toNat]? := by
  cases l <;> rfl

/-- C++ `RectClip64::AddCorner(Location prev, Location curr)` = hand `Model.RC.addCorner1`: the one `Add(rect_as_path_[k])` it logs
is the corner hand `addCorner1` returns -/
theorem addCorner1_bridge (r : Rect) (prev curr : Location) :
    let l := if Gen.HeadingClockwise prev curr then prev else curr
    Gen.AddCorner1 (prev := prev) (curr := curr) = [("Add(rect_as_path_[·],default)", [locIdx l])] ∧
      addCorner1 r prev curr = cornerAt r l := by
  cases h : Gen.HeadingClockwise prev curr <;> simp [Gen.AddCorner1, addCorner1, h, locIdx]

/-- C++ `RectClip64::AddCorner(Location& loc, bool isClockwise)` = hand `Model.RC.addCorner2` (the new `loc`, and the corner added) -/
theorem addCorner2_bridge (r : Rect) (loc : Location) (cw : Bool) :
    let l := if cw then loc else Gen.GetAdjacentLocation loc false
    Gen.AddCorner2 (loc := loc) (isClockwise := cw) = ((addCorner2 r loc cw).2, [("Add(rect_as_path_[·],default)", [locIdx l])]) ∧
      (addCorner2 r loc cw).1 = cornerAt r l := by
  cases cw <;> simp [Gen.AddCorner2, addCorner2, locIdx]

/-- C++ `StartLocsAreClockwise`, one iteration of its `for` loop, is one summand of hand `Model.RC.startLocsSum` -/
theorem startLocsSum_cons_bridge (a b : Location) (rest : List Location) (i : UInt64) (acc : Int) :
    acc + startLocsSum (a :: b :: rest) =
      Gen.StartLocsAreClockwise_step (i := i) (result := acc) (startlocs_at_i := b) (startlocs_at_i_sub_1 := a) +
        startLocsSum (b :: rest) := by
  cases a <;> cases b <;> simp [startLocsSum, Gen.StartLocsAreClockwise_step, Gen.enumToInt, Gen.CEnum.toInt, Location.toNat] <;> omega
/-- C++ `RectClip64::GetNextLocation`, the `if … else if …` chains after the four skipping loops (blocks `m3`, `m6`, `m9`, `m12` of the
generated skeleton; `q = path[i]` after the loop), inside hand `Model.RC.getNextLocation` -/
theorem getNextLocation_side_bridge (r : Rect) (path : Path) (loc : Location) (i : Nat) (hl : loc ≠ .inside) :
    getNextLocation r path loc i =
      let j := (getNextLocation r path loc i).2.1
      match path[j]? with
      | none => (loc, j, [])
      | some q =>
        (match loc with
          | .left => Gen.GetNextLocation.m3 q.x r.right q.y r.top r.bottom
          | .top => Gen.GetNextLocation.m6 q.y r.bottom q.x r.left r.right
          | .right => Gen.GetNextLocation.m9 q.x r.left q.y r.top r.bottom
          | .bottom => Gen.GetNextLocation.m12 q.y r.top q.x r.left r.right
          | .inside => .inside, j, []) := by
  cases loc <;> simp only [getNextLocation] at hl ⊢
  all_goals first
    | contradiction
    | (split <;> rename_i h <;> simp only [h] <;>
        simp [Gen.GetNextLocation.m3, Gen.GetNextLocation.m2, Gen.GetNextLocation.m1, Gen.GetNextLocation.m6, Gen.GetNextLocation.m5,
          Gen.GetNextLocation.m4, Gen.GetNextLocation.m9, Gen.GetNextLocation.m8, Gen.GetNextLocation.m7, Gen.GetNextLocation.m12,
          Gen.GetNextLocation.m11, Gen.GetNextLocation.m10] <;> (repeat' split) <;> simp_all)
/-- C++ `IsClockwise(prev, curr, prev_pt, curr_pt, rect_mp)` = hand `Model.RC.isClockwise` (the `double` `CrossProduct` is the hand
model's abstract `A.cross`) -/
theorem isClockwise_bridge (A : Arith) (r : Rect) (prev curr : Location) (prevPt currPt : Pt) :
    Gen.IsClockwise (D := Int) (CrossProduct := fun a b c d e f => A.cross ⟨a, b⟩ ⟨c, d⟩ ⟨e, f⟩) (prev := prev) (curr := curr)
      (prev_pt_x := prevPt.x) (prev_pt_y := prevPt.y) (curr_pt_x := currPt.x) (curr_pt_y := currPt.y)
      (rect_mp_x := r.midPoint.x) (rect_mp_y := r.midPoint.y) = isClockwise A r prev curr prevPt currPt := by
  simp [Gen.IsClockwise, isClockwise]

/-- C++ `GetSegmentIntersection(p1, p2, p3, p4, ip)` = hand `Model.RC.segIntersection` (`CrossProduct` is `A.cross`,
`GetSegmentIntersectPt` is `A.isect`, which leaves `ip` alone when it returns false) -/
theorem segIntersection_bridge (A : Arith) (p1 p2 p3 p4 ip : Pt) :
    Gen.GetSegmentIntersection (D := Int) (CrossProduct := fun a b c d e f => A.cross ⟨a, b⟩ ⟨c, d⟩ ⟨e, f⟩)
      (GetSegmentIntersectPt := fun a b c d e f g h ix iy =>
        match A.isect ⟨a, b⟩ ⟨c, d⟩ ⟨e, f⟩ ⟨g, h⟩ with | some q => (true, q.x, q.y) | none => (false, ix, iy))
      (ip_x := ip.x) (ip_y := ip.y) (p1_x := p1.x) (p1_y := p1.y) (p2_x := p2.x) (p2_y := p2.y)
      (p3_x := p3.x) (p3_y := p3.y) (p4_x := p4.x) (p4_y := p4.y) =
      ((segIntersection A p1 p2 p3 p4 ip).1, (segIntersection A p1 p2 p3 p4 ip).2.x, (segIntersection A p1 p2 p3 p4 ip).2.y) := by
  have pe (a b : Pt) : (a = b) ↔ (a.x = b.x ∧ a.y = b.y) := by
    cases a; cases b; simp
  rcases p1 with ⟨x1, y1⟩; rcases p2 with ⟨x2, y2⟩; rcases p3 with ⟨x3, y3⟩; rcases p4 with ⟨x4, y4⟩; rcases ip with ⟨xi, yi⟩
  simp only [Gen.GetSegmentIntersection, segIntersection, onSpan, between, Gen.IsHorizontalPts, pe, bool_int_eq]
  by_cases h1 : A.cross ⟨x1, y1⟩ ⟨x3, y3⟩ ⟨x4, y4⟩ = 0
  · by_cases h2 : A.cross ⟨x2, y2⟩ ⟨x3, y3⟩ ⟨x4, y4⟩ = 0
    · simp [h1, h2]
    · by_cases hp : (x1 = x3 ∧ y1 = y3) ∨ (x1 = x4 ∧ y1 = y4) <;> by_cases hy : y3 = y4 <;> (try subst hy) <;> simp [*]
  · by_cases h2 : A.cross ⟨x2, y2⟩ ⟨x3, y3⟩ ⟨x4, y4⟩ = 0
    · by_cases hp : (x2 = x3 ∧ y2 = y3) ∨ (x2 = x4 ∧ y2 = y4) <;> by_cases hy : y3 = y4 <;> (try subst hy) <;> simp [*]
    · by_cases h12 : decide (A.cross ⟨x1, y1⟩ ⟨x3, y3⟩ ⟨x4, y4⟩ > 0) = decide (A.cross ⟨x2, y2⟩ ⟨x3, y3⟩ ⟨x4, y4⟩ > 0)
      · simp [h1, h2, h12]
      · by_cases h3 : A.cross ⟨x3, y3⟩ ⟨x1, y1⟩ ⟨x2, y2⟩ = 0
        · by_cases hp : (x3 = x1 ∧ y3 = y1) ∨ (x3 = x2 ∧ y3 = y2) <;> by_cases hy : y1 = y2 <;> (try subst hy) <;> simp [*]
        · by_cases h4 : A.cross ⟨x4, y4⟩ ⟨x1, y1⟩ ⟨x2, y2⟩ = 0
          · by_cases hp : (x4 = x1 ∧ y4 = y1) ∨ (x4 = x2 ∧ y4 = y2) <;> by_cases hy : y1 = y2 <;> (try subst hy) <;> simp [*]
          · by_cases h34 : decide (A.cross ⟨x3, y3⟩ ⟨x1, y1⟩ ⟨x2, y2⟩ > 0) = decide (A.cross ⟨x4, y4⟩ ⟨x1, y1⟩ ⟨x2, y2⟩ > 0)
            · simp [h1, h2, h12, h3, h4, h34]
            · cases hi : A.isect ⟨x1, y1⟩ ⟨x2, y2⟩ ⟨x3, y3⟩ ⟨x4, y4⟩ <;> simp [h1, h2, h12, h3, h4, h34, hi]

end RectClip

end Clipper.Props.Bridges
