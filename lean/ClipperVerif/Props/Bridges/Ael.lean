/-
Bridge theorems (tie T, DESIGN.md §2.3), clipper.engine.cpp (winding counts, `IntersectEdges`) against `Model/Ael.lean` and the decision of `Model/AelSides.lean`.
For every definition that `tools/cpp2lean.py` regenerates from the C++ source and that a hand-written model re-implements:
`generated = hand` for ALL arguments.  The generated side is re-created from /repo's current sources on every `./check`
run, so a change of the C++ function changes the left-hand side and the proof below stops compiling (the theorem named in
the error is the obligation that broke).

Conventions of the generated side (see the head of `tools/cpp2lean.py`): a record parameter is passed field by field
(`e_wind_cnt`), a pointer used as a truth value is the Boolean `…_nonnull`, pointers compared with each other are `Nat`
identities (`e_addr` = which record `e` is), a skeleton returns the scalar members it assigns followed by the log `acts` of
the untranslated calls / pointer assignments it performs, a value read after an untranslated call that may have assigned
it is a separate argument `…_after<k>`.
Core Lean only.
-/
import ClipperVerif.Lemmas.BridgesEngine
set_option linter.unusedSimpArgs false
namespace Clipper.Props.Bridges
open Clipper Clipper.Model Clipper.Lemmas.Bridges

/-! ## clipper.engine.cpp: winding counts (`Model/Ael.lean`) -/

/-- C++ `SetWindCountForClosedPathEdge`, the `while (e2 && (GetPolyType(*e2) != pt || IsOpen(*e2)))` condition, is the test of
hand `Model.findPrev`: the search stops at a null pointer … -/
theorem findPrev_nil_bridge (t : PathType) (o : Bool) (p : PathType) :
    Gen.SetWindClosed_findCond (e2_local_min_is_open := o) (e2_local_min_polytype := p) (e2_nonnull := false) (pt := t) = false ∧
      findPrev t [] = (none, []) := by
  simp [Gen.SetWindClosed_findCond, findPrev]

/-- … and otherwise continues exactly when `Model.findPrev` does -/
theorem findPrev_cons_bridge (t : PathType) (x : Edge) (xs : List Edge) :
    findPrev t (x :: xs) =
      if Gen.SetWindClosed_findCond (e2_local_min_is_open := x.isOpen) (e2_local_min_polytype := x.pt) (e2_nonnull := true) (pt := t)
      then ((findPrev t xs).1, (findPrev t xs).2 ++ [x]) else (some x, []) := by
  cases hx : x.isOpen <;> cases hp : x.pt <;> cases t <;> simp [findPrev, Gen.SetWindClosed_findCond, Gen.IsOpen, hx, hp]

/-- C++ `SetWindCountForClosedPathEdge`, one iteration of either `while (e2 != &e)` loop, is one step of hand `Model.wc2Loop` -/
theorem wc2Loop_cons_bridge (fr : FillRule) (t : PathType) (x : Edge) (xs : List Edge) (w : Int) :
    wc2Loop fr t (x :: xs) w = wc2Loop fr t xs
      (if fr = .evenOdd then
        Gen.SetWindClosed_wc2StepEvenOdd (e2_local_min_is_open := x.isOpen) (e2_local_min_polytype := x.pt) (e_wind_cnt2 := w) (pt := t)
       else
        Gen.SetWindClosed_wc2Step (e2_local_min_is_open := x.isOpen) (e2_local_min_polytype := x.pt) (e2_wind_dx := x.dx)
          (e_wind_cnt2 := w) (pt := t)) := by
  cases hx : x.isOpen <;> cases hp : x.pt <;> cases t <;> cases fr <;>
    simp [wc2Loop, Gen.SetWindClosed_wc2StepEvenOdd, Gen.SetWindClosed_wc2Step, Gen.SetWindClosed_wc2StepEvenOdd.m1,
      Gen.SetWindClosed_wc2Step.m1, Gen.IsOpen, hx, hp]

/-- C++ `SetWindCountForClosedPathEdge`, the `if (!e2) … else if (fillrule_ == EvenOdd) … else …` chain between the loops
(it contains hand `Model.wcFrom`), inside hand `Model.setWindClosed` -/
theorem setWindClosed_bridge (fr : FillRule) (left : List Edge) (e : Edge) :
    setWindClosed fr left e =
      let f := findPrev e.pt left.reverse
      let r := match f.1 with
        | none => Gen.SetWindClosed_windCnt (e2_nonnull := false) (e2_wind_cnt := 0) (e2_wind_cnt2 := 0) (e2_wind_dx := 0)
            (e_local_min_is_open := e.isOpen) (e_wind_cnt2 := e.wc2) (e_wind_dx := e.dx) (fillrule_ := fr)
        | some e2 => Gen.SetWindClosed_windCnt (e2_nonnull := true) (e2_wind_cnt := e2.wc) (e2_wind_cnt2 := e2.wc2) (e2_wind_dx := e2.dx)
            (e_local_min_is_open := e.isOpen) (e_wind_cnt2 := e.wc2) (e_wind_dx := e.dx) (fillrule_ := fr)
      { e with wc := r.1, wc2 := wc2Loop fr e.pt f.2 r.2 } := by
  unfold setWindClosed
  rcases h : findPrev e.pt left.reverse with ⟨_ | e2, between⟩
  · simp [Gen.SetWindClosed_windCnt]
  · cases fr <;> simp [Gen.SetWindClosed_windCnt, Gen.SetWindClosed_windCnt.m1, Gen.SetWindClosed_windCnt.m2,
      Gen.SetWindClosed_windCnt.m3, wcFrom, Gen.iabs, iabs, Gen.IsOpen] <;> (repeat' split) <;> simp_all

/-- the same chain against hand `Model.wcFrom` alone (NonZero / Positive / Negative, a same-type closed edge to the left) -/
theorem wcFrom_bridge (fr : FillRule) (hfr : fr ≠ .evenOdd) (isOpen : Bool) (e2wc e2wc2 e2dx edx ewc2 : Int) :
    Gen.SetWindClosed_windCnt (e2_nonnull := true) (e2_wind_cnt := e2wc) (e2_wind_cnt2 := e2wc2) (e2_wind_dx := e2dx)
      (e_local_min_is_open := isOpen) (e_wind_cnt2 := ewc2) (e_wind_dx := edx) (fillrule_ := fr) =
      (wcFrom isOpen e2wc e2dx edx, e2wc2) := by
  cases fr <;> simp [Gen.SetWindClosed_windCnt, Gen.SetWindClosed_windCnt.m1, Gen.SetWindClosed_windCnt.m2,
      Gen.SetWindClosed_windCnt.m3, wcFrom, Gen.iabs, iabs, Gen.IsOpen] at hfr ⊢ <;> (repeat' split) <;> simp_all

/-- C++ `SetWindCountForOpenPathEdge`, one iteration of the EvenOdd loop, is one step of hand `Model.openCounts` -/
theorem openCounts_cons_bridge (x : Edge) (xs : List Edge) (c : Nat × Nat) :
    openCounts (x :: xs) c = openCounts xs
      ((Gen.SetWindOpen_stepEvenOdd (cnt1 := c.1) (cnt2 := c.2) (e2_local_min_is_open := x.isOpen) (e2_local_min_polytype := x.pt)).1.toNat,
       (Gen.SetWindOpen_stepEvenOdd (cnt1 := c.1) (cnt2 := c.2) (e2_local_min_is_open := x.isOpen) (e2_local_min_polytype := x.pt)).2.toNat) := by
  cases hx : x.isOpen <;> cases hp : x.pt <;>
    simp [openCounts, Gen.SetWindOpen_stepEvenOdd, Gen.SetWindOpen_stepEvenOdd.m1, Gen.SetWindOpen_stepEvenOdd.m2, Gen.IsOpen, hx, hp] <;> rfl

/-- C++ `SetWindCountForOpenPathEdge`, one iteration of the other loop, is one step of hand `Model.openSums` -/
theorem openSums_cons_bridge (x : Edge) (xs : List Edge) (w : Int × Int) :
    openSums (x :: xs) w = openSums xs
      (Gen.SetWindOpen_step (e2_local_min_is_open := x.isOpen) (e2_local_min_polytype := x.pt) (e2_wind_dx := x.dx)
        (e_wind_cnt := w.1) (e_wind_cnt2 := w.2)) := by
  cases hx : x.isOpen <;> cases hp : x.pt <;>
    simp [openSums, Gen.SetWindOpen_step, Gen.SetWindOpen_step.m1, Gen.SetWindOpen_step.m2, Gen.IsOpen, hx, hp]

/-- C++ `SetWindCountForOpenPathEdge` around its loops (whose results are the arguments `…_after<k>`) = hand `Model.setWindOpen` -/
theorem setWindOpen_bridge (fr : FillRule) (left : List Edge) (e : Edge) :
    setWindOpen fr left e =
      let c := openCounts left (0, 0)
      let w := openSums left (e.wc, e.wc2)
      let r := Gen.SetWindOpen (cnt1_after1 := c.1) (cnt2_after1 := c.2) (e_wind_cnt_after2 := w.1) (e_wind_cnt2_after2 := w.2)
        (fillrule_ := fr)
      { e with wc := r.1, wc2 := r.2 } := by
  cases fr <;> simp [setWindOpen, Gen.SetWindOpen, isOdd_nat]

/-! ## clipper.engine.cpp: `IntersectEdges` (`Model/Ael.lean`, `Model/AelSides.lean`) -/

/-- **C++ `IntersectEdges`, closed branch** ("MANAGING CLOSED PATHS FROM HERE ON") = hand `Model.updateWinds` for the four winding
counts and hand `Model.decideActB` (the decision of `Model.decideAct` / `Model.intersectCore`; `Model.decideHotB` is its hot-flag
shadow) for which of `AddLocalMaxPoly`, `AddLocalMinPoly`, `AddOutPt`+`SwapOutrecs` run, preceded by the two optional `Split`s.
`hot1`, `hot2` are `IsHotEdge(e1)`, `IsHotEdge(e2)` *after* the `Split`s; `a1 = fe1` is `IsFront(e1)`, `or1 = or2` is
`e1.outrec == e2.outrec`.  `fillpos` is the member `FillRule fillpos = FillRule::Positive` that no function assigns. -/
theorem intersectEdges_closed_bridge (ct : ClipType) (fr : FillRule) (e1 e2 : Edge) (j1 j2' j2 : JoinWith)
    (hot1 hot2 : Bool) (a1 fe1 or1 or2 a2 : Nat) (hop : Bool)
    (u1 u2 : UInt64) (x1 y1 x2 y2 px py : Int) (n1 n2 : Nat) (b1 b2 b3 b4 : Bool)
    (h : hop = false ∨ (e1.isOpen = false ∧ e2.isOpen = false)) :
    Gen.IntersectEdges (cliptype_ := ct) (fillrule_ := fr) (fillpos := .positive) (has_open_paths_ := hop)
      (e1_addr := a1) (e1_join_with := j1) (e1_local_min_is_open := e1.isOpen) (e1_local_min_polytype := e1.pt)
      (e1_local_min_vertex_flags := u1) (e1_local_min_vertex_pt_x := x1) (e1_local_min_vertex_pt_y := y1)
      (e1_outrec_after1_front_edge_after1 := n1) (e1_outrec_after1_nonnull := b1)
      (e1_outrec_after9 := or1) (e1_outrec_after9_front_edge_after9 := fe1) (e1_outrec_after9_nonnull := hot1)
      (e1_wind_cnt := e1.wc) (e1_wind_cnt2 := e1.wc2) (e1_wind_dx := e1.dx)
      (e2_addr := a2) (e2_join_with := j2) (e2_join_with_after8 := j2') (e2_local_min_is_open := e2.isOpen) (e2_local_min_polytype := e2.pt)
      (e2_local_min_vertex_flags := u2) (e2_local_min_vertex_pt_x := x2) (e2_local_min_vertex_pt_y := y2)
      (e2_outrec_after1_front_edge_after1 := n2) (e2_outrec_after1_nonnull := b2)
      (e2_outrec_after9 := or2) (e2_outrec_after9_nonnull := hot2)
      (e2_wind_cnt := e2.wc) (e2_wind_cnt2 := e2.wc2) (e2_wind_dx := e2.dx)
      (e3_nonnull := b3) (e3_outrec_after1_nonnull := b4) (pt_x := px) (pt_y := py) =
    let w := updateWinds fr e1 e2
    (w.1.wc, w.1.wc2, w.2.wc, w.2.wc2,
      splitLog j1 "Split(e1,pt)" ++ splitLog j2' "Split(e2,pt)" ++
      actLog hot1 hot2 (decideActB hot1 hot2 (in01 (oldWc fr w.1.wc)) (in01 (oldWc fr w.2.wc))
        (oldWc fr w.1.wc == 1) (oldWc fr w.2.wc == 1) (e1.pt != e2.pt) (ct != .xor)
        (goSame ct e1.pt (oldWc fr w.1.wc2) (oldWc fr w.2.wc2)) (decide (a1 = fe1)) (decide (or1 = or2)))) := by
  have hb : (hop && (e1.isOpen || e2.isOpen)) = false := by
    rcases h with h | ⟨h1, h2⟩ <;> simp [*]
  have hm := ie_m14_eq fr e1 e2 default
  generalize hw : updateWinds fr e1 e2 = w at hm ⊢
  unfold Gen.IntersectEdges
  simp only [Gen.IsOpen, hb, Bool.false_eq_true, if_false, ie_m5_eq, ie_m9_eq, hm, ie_m16_eq, Gen.IsHotEdge, in01_or]
  by_cases hr : ((!hot1 && !in01 (oldWc fr w.1.wc)) || (!hot2 && !in01 (oldWc fr w.2.wc))) = true
  · simp only [hr, if_true]
    rcases hot1 <;> rcases hot2 <;> simp_all [decideActB, actLog]
  · simp only [hr]
    have hr' := Bool.eq_false_iff.mpr hr
    by_cases hh : (hot1 && hot2) = true
    · simp only [hh, if_true]
      have : hot1 = true ∧ hot2 = true := by simpa using hh
      rw [this.1, this.2, ie_m18_eq (go := goSame ct e1.pt (oldWc fr w.1.wc2) (oldWc fr w.2.wc2))]
      simp [List.append_assoc]
    · simp only [hh]
      rw [ie_m28_eq ct fr e1.pt e2.pt _ _ _ _ hot1 hot2 _ (decide (a1 = fe1)) (decide (or1 = or2)) (Bool.eq_false_iff.mpr hh) hr']
      simp

/-- **C++ `IntersectEdges`, open branch, `e1` open and `e2` closed** = hand `Model.intersectOpen` (with `Model.openSkipCt`,
`Model.openSkipFr`): the wind counts are left alone; after the optional `Split(e2)` the function returns without touching the
open edge exactly when `openSkip` (the three tests of `intersectOpen`) holds, and otherwise logs `toggleLog1`.
`eo.hot` / `ec.hot` are `IsHotEdge` after the `Split`. -/
theorem intersectEdges_open1_bridge (ct : ClipType) (fr : FillRule) (eo ec : Edge) (j1 j2' j2 : JoinWith)
    (hot1 hot2 : Bool) (a1 fe1 or1 or2 a2 : Nat)
    (u1 u2 : UInt64) (x1 y1 x2 y2 px py : Int) (n1 n2 : Nat) (b3 b4 : Bool) (fp : FillRule)
    (ho : eo.isOpen = true) (hc : ec.isOpen = false) :
    Gen.IntersectEdges (cliptype_ := ct) (fillrule_ := fr) (fillpos := fp) (has_open_paths_ := true)
      (e1_addr := a1) (e1_join_with := j1) (e1_local_min_is_open := eo.isOpen) (e1_local_min_polytype := eo.pt)
      (e1_local_min_vertex_flags := u1) (e1_local_min_vertex_pt_x := x1) (e1_local_min_vertex_pt_y := y1)
      (e1_outrec_after1_front_edge_after1 := n1) (e1_outrec_after1_nonnull := eo.hot)
      (e1_outrec_after9 := or1) (e1_outrec_after9_front_edge_after9 := fe1) (e1_outrec_after9_nonnull := hot1)
      (e1_wind_cnt := eo.wc) (e1_wind_cnt2 := eo.wc2) (e1_wind_dx := eo.dx)
      (e2_addr := a2) (e2_join_with := j2) (e2_join_with_after8 := j2') (e2_local_min_is_open := ec.isOpen) (e2_local_min_polytype := ec.pt)
      (e2_local_min_vertex_flags := u2) (e2_local_min_vertex_pt_x := x2) (e2_local_min_vertex_pt_y := y2)
      (e2_outrec_after1_front_edge_after1 := n2) (e2_outrec_after1_nonnull := ec.hot)
      (e2_outrec_after9 := or2) (e2_outrec_after9_nonnull := hot2)
      (e2_wind_cnt := ec.wc) (e2_wind_cnt2 := ec.wc2) (e2_wind_dx := ec.dx)
      (e3_nonnull := b3) (e3_outrec_after1_nonnull := b4) (pt_x := px) (pt_y := py) =
    (eo.wc, eo.wc2, ec.wc, ec.wc2,
      splitLog j2 "Split(e2,pt)" ++
        if openSkip ct fr ec then []
        else toggleLog1 eo.hot (decide (a1 = n1)) ((decide (px = x1) && decide (py = y1)) && !Gen.IsOpenEndV u1) (b3 && b4) eo.dx) := by
  rcases eo with ⟨po, oo, d1, w1, v1, h1⟩
  rcases ec with ⟨pc, oc, d2, w2, v2, h2⟩
  simp only at ho hc
  subst ho hc
  unfold Gen.IntersectEdges
  simp only [Gen.IsOpen, ie_m1_eq, ie_m2_eq, ie_m3_eq, Gen.IsHotEdge, Gen.IsFront, Gen.IntersectEdges.m4, gen_iabs, openSkip,
    Bool.true_and, Bool.or_true, Bool.false_or, Bool.true_or, Bool.or_false, Bool.false_and, Bool.and_true, Bool.and_false,
    if_true, Bool.false_eq_true, if_false]
  by_cases hA : iabs w2 = 1 <;> by_cases hB : openSkipCt ct pc h2 = true <;> by_cases hC : openSkipFr fr w2 = true <;>
    cases h1 <;> simp [hA, hB, hC, toggleLog1] <;> (repeat' split) <;> simp_all

/-- **C++ `IntersectEdges`, open branch, `e2` open and `e1` closed** (`edge_o = &e2`, `edge_c = &e1`) = hand `Model.intersectOpen` -/
theorem intersectEdges_open2_bridge (ct : ClipType) (fr : FillRule) (ec eo : Edge) (j1 j2' j2 : JoinWith)
    (hot1 hot2 : Bool) (a1 fe1 or1 or2 a2 : Nat)
    (u1 u2 : UInt64) (x1 y1 x2 y2 px py : Int) (n1 n2 : Nat) (b3 b4 : Bool) (fp : FillRule)
    (ho : eo.isOpen = true) (hc : ec.isOpen = false) :
    Gen.IntersectEdges (cliptype_ := ct) (fillrule_ := fr) (fillpos := fp) (has_open_paths_ := true)
      (e1_addr := a1) (e1_join_with := j1) (e1_local_min_is_open := ec.isOpen) (e1_local_min_polytype := ec.pt)
      (e1_local_min_vertex_flags := u1) (e1_local_min_vertex_pt_x := x1) (e1_local_min_vertex_pt_y := y1)
      (e1_outrec_after1_front_edge_after1 := n1) (e1_outrec_after1_nonnull := ec.hot)
      (e1_outrec_after9 := or1) (e1_outrec_after9_front_edge_after9 := fe1) (e1_outrec_after9_nonnull := hot1)
      (e1_wind_cnt := ec.wc) (e1_wind_cnt2 := ec.wc2) (e1_wind_dx := ec.dx)
      (e2_addr := a2) (e2_join_with := j2) (e2_join_with_after8 := j2') (e2_local_min_is_open := eo.isOpen) (e2_local_min_polytype := eo.pt)
      (e2_local_min_vertex_flags := u2) (e2_local_min_vertex_pt_x := x2) (e2_local_min_vertex_pt_y := y2)
      (e2_outrec_after1_front_edge_after1 := n2) (e2_outrec_after1_nonnull := eo.hot)
      (e2_outrec_after9 := or2) (e2_outrec_after9_nonnull := hot2)
      (e2_wind_cnt := eo.wc) (e2_wind_cnt2 := eo.wc2) (e2_wind_dx := eo.dx)
      (e3_nonnull := b3) (e3_outrec_after1_nonnull := b4) (pt_x := px) (pt_y := py) =
    (ec.wc, ec.wc2, eo.wc, eo.wc2,
      splitLog j1 "Split(e1,pt)" ++
        if openSkip ct fr ec then []
        else toggleLog2 eo.hot (decide (a2 = n2)) ((decide (px = x2) && decide (py = y2)) && !Gen.IsOpenEndV u2) (b3 && b4) eo.dx) := by
  rcases eo with ⟨po, oo, d1, w1, v1, h1⟩
  rcases ec with ⟨pc, oc, d2, w2, v2, h2⟩
  simp only at ho hc
  subst ho hc
  unfold Gen.IntersectEdges
  simp only [Gen.IsOpen, ie_m5_eq, ie_m6_eq, ie_m7_eq, Gen.IsHotEdge, Gen.IsFront, Gen.IntersectEdges.m8, gen_iabs, openSkip,
    Bool.true_and, Bool.or_true, Bool.false_or, Bool.true_or, Bool.or_false, Bool.false_and, Bool.and_true, Bool.and_false,
    if_true, Bool.false_eq_true, if_false]
  by_cases hA : iabs w2 = 1 <;> by_cases hB : openSkipCt ct pc h2 = true <;> by_cases hC : openSkipFr fr w2 = true <;>
    cases h1 <;> simp [hA, hB, hC, toggleLog2] <;> (repeat' split) <;> simp_all

/-- the open edge's hot flag after the logged steps is the one of hand `Model.intersectOpen` (`e1` open) -/
theorem intersectOpen_hot_bridge (ct : ClipType) (fr : FillRule) (eo ec : Edge) (front loc e3 : Bool) (dx : Int) :
    hotAfterToggle eo.hot (if openSkip ct fr ec then [] else toggleLog1 eo.hot front loc e3 dx) = (intersectOpen ⟨ct, fr⟩ eo ec).hot := by
  rw [intersectOpen_eq]
  cases openSkip ct fr ec <;> cases h : eo.hot <;> simp [hotAfterToggle, toggleLog1, h] <;> (repeat' split) <;> simp_all

/-- **C++ `IntersectEdges`, both edges open**: nothing happens (hand `Model.intersectPair`: `(e1, e2)`) -/
theorem intersectEdges_bothOpen_bridge (ct : ClipType) (fr fp : FillRule) (e1 e2 : Edge) (j1 j2' j2 : JoinWith)
    (hot1 hot2 : Bool) (a1 fe1 or1 or2 a2 : Nat)
    (u1 u2 : UInt64) (x1 y1 x2 y2 px py : Int) (n1 n2 : Nat) (b1 b2 b3 b4 : Bool)
    (h1 : e1.isOpen = true) (h2 : e2.isOpen = true) :
    (Gen.IntersectEdges (cliptype_ := ct) (fillrule_ := fr) (fillpos := fp) (has_open_paths_ := true)
      (e1_addr := a1) (e1_join_with := j1) (e1_local_min_is_open := e1.isOpen) (e1_local_min_polytype := e1.pt)
      (e1_local_min_vertex_flags := u1) (e1_local_min_vertex_pt_x := x1) (e1_local_min_vertex_pt_y := y1)
      (e1_outrec_after1_front_edge_after1 := n1) (e1_outrec_after1_nonnull := b1)
      (e1_outrec_after9 := or1) (e1_outrec_after9_front_edge_after9 := fe1) (e1_outrec_after9_nonnull := hot1)
      (e1_wind_cnt := e1.wc) (e1_wind_cnt2 := e1.wc2) (e1_wind_dx := e1.dx)
      (e2_addr := a2) (e2_join_with := j2) (e2_join_with_after8 := j2') (e2_local_min_is_open := e2.isOpen) (e2_local_min_polytype := e2.pt)
      (e2_local_min_vertex_flags := u2) (e2_local_min_vertex_pt_x := x2) (e2_local_min_vertex_pt_y := y2)
      (e2_outrec_after1_front_edge_after1 := n2) (e2_outrec_after1_nonnull := b2)
      (e2_outrec_after9 := or2) (e2_outrec_after9_nonnull := hot2)
      (e2_wind_cnt := e2.wc) (e2_wind_cnt2 := e2.wc2) (e2_wind_dx := e2.dx)
      (e3_nonnull := b3) (e3_outrec_after1_nonnull := b4) (pt_x := px) (pt_y := py)) =
    ((intersectPair ⟨ct, fr⟩ e1 e2).1.wc, (intersectPair ⟨ct, fr⟩ e1 e2).1.wc2, (intersectPair ⟨ct, fr⟩ e1 e2).2.wc,
      (intersectPair ⟨ct, fr⟩ e1 e2).2.wc2, []) := by
  simp [Gen.IntersectEdges, Gen.IsOpen, intersectPair, h1, h2]

end Clipper.Props.Bridges
