/-
Bridge theorems (tie T, DESIGN.md §2.3), clipper.offset.cpp against `Model/OffsetFrame.lean`.
For every definition that `tools/cpp2lean.py` regenerates from the C++ source and that a hand-written model re-implements:
`generated = hand` for ALL arguments.  The generated side is re-created from /repo's current sources on every `./check`
run, so a change of the C++ function changes the left-hand side and the proof below stops compiling (the theorem named in
the error is the obligation that broke).

Conventions of the generated side (see the head of `tools/cpp2lean.py`): a record parameter is passed field by field
(`e_wind_cnt`), a pointer used as a truth value is the Boolean `…_nonnull`, pointers compared with each other are `Nat`
identities (`e_addr` = which record `e` is), a skeleton returns the scalar members it assigns followed by the log `acts` of
the untranslated calls / pointer assignments it performs, a value read after an untranslated call that may have assigned
it is a separate argument `…_after<k>`.
Core Lean only.
-/
import ClipperVerif.Lemmas.Bridges
import ClipperVerif.Generated.Offset
import ClipperVerif.Model.OffsetFrame
set_option linter.unusedSimpArgs false
namespace Clipper.Props.Bridges
open Clipper Clipper.Lemmas.Bridges

/-! ## clipper.offset.cpp (`Model/OffsetFrame.lean`) -/

section Offset
open Clipper.OffsetFrame

/-- C++ `GetLowestClosedPathIdx`, the `if (…) continue;` test of its inner loop, is the test of hand `OffsetFrame.lowestStep` -/
theorem lowestStep_bridge (i : Nat) (st : Option Nat × Pt) (pt : Pt) :
    lowestStep i st pt =
      if Gen.GetLowestClosedPathIdx_skip (botPt_x := st.2.x) (botPt_y := st.2.y) (pt_x := pt.x) (pt_y := pt.y) then st else (some i, pt) := by
  simp only [lowestStep, Gen.GetLowestClosedPathIdx_skip]
  by_cases h1 : pt.y < st.2.y <;> by_cases h2 : pt.y = st.2.y <;> by_cases h3 : pt.x ≥ st.2.x <;> simp [h1, h2, h3]

/-- C++ `ClipperOffset::Group::Group`, the initialiser of `is_joined` (and `IsClosedPath`, the same test) = the flag hand
`OffsetFrame.mkGroup` passes to `stripDuplicates` -/
theorem group_isJoined_bridge (paths : Paths) (jt : JoinType) (et : EndType) :
    (mkGroup paths jt et).paths = paths.map (stripDuplicates (Gen.Group_isJoined (end_type := et))) ∧
      Gen.IsClosedPath (et := et) = Gen.Group_isJoined (end_type := et) := by
  cases et <;> simp [mkGroup, Gen.Group_isJoined, Gen.IsClosedPath] <;> intros <;> rfl
end Offset

end Clipper.Props.Bridges
