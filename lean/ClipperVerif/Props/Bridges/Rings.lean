/-
Bridge theorems (tie T, DESIGN.md §2.3), clipper.engine.cpp: the DECISIONS of the ring surgery — `AddOutPt` (which end, the duplicate
tests), `JoinOutrecPaths` (the `IsFront(e1)` branch, which record survives, which edge is handed over), `StartOpenPath`, `SetSides`,
the open branch of `AddLocalMinPoly` — against `Model/AelRings.lean`, `Model/AelSides.lean`, `Model/AelOpenRings.lean`.
For every definition that `tools/cpp2lean.py` regenerates from the C++ source and that a hand-written model re-implements:
`generated = hand` for ALL arguments.  The generated side is re-created from /repo's current sources on every `./check`
run, so a change of the C++ function changes the left-hand side and the proof below stops compiling (the theorem named in
the error is the obligation that broke).

Conventions of the generated side (see the head of `tools/cpp2lean.py`): a record parameter is passed field by field, a pointer used
as a truth value is the Boolean `…_nonnull`, pointers compared with each other are `Nat` identities (`e_addr` = which record `e` is), a
skeleton returns the C++ return value (a pointer: the identity of the record), the scalar members it assigns, and the log `acts` of
untranslated calls and pointer assignments `location := record` (names on the right: the records the paths led to on entry).
The pointer assignments themselves stay tied by correspondence (`AELRINGS`, every ring of the real engine compared point by point);
what is proved here is that the hand models branch on the same tests and pick the same end / record / edge as the source.
Core Lean only.
-/
import ClipperVerif.Lemmas.Bridges
import ClipperVerif.Generated.Engine
import ClipperVerif.Model.AelRings
import ClipperVerif.Model.AelOpenRings
set_option linter.unusedSimpArgs false
namespace Clipper.Props.Bridges
open Clipper Clipper.Model Clipper.Lemmas.Bridges

/-! ## `AddOutPt` (`Model/AelRings.lean`, `addPt`) -/

/-- C++ `ClipperBase::AddOutPt(e, pt)` = hand `Model.addPt`, on a ring with at least one point: `fp` = `op_front->pt` (the head of the
model's list, which is read from `outrec->pts` following `->prev`), `bp` = `op_back->pt` (its last element), `F`, `B`, `N` the identities of
`op_front`, `op_back` and of the `OutPt` that `new` returns.  `to_front = IsFront(e)`; with `to_front` ONLY `op_front->pt` is compared with
`pt`, otherwise ONLY `op_back->pt` (the seeded change C02b-m2 compares `op_back->pt` first in both cases); a duplicate returns the existing
end and writes nothing; otherwise the new node is linked between `op_front` and `op_back` and `outrec->pts` moves to it exactly when
`to_front` — in the model `pt :: pts` resp. `pts ++ [pt]`. -/
theorem addOutPt_bridge (a fe F B N : Nat) (pt : Pt) (r : Ring) (fp bp : Pt) (hf : r.pts.head? = some fp) (hb : r.pts.getLast? = some bp) :
    let front := decide (a = fe)
    Gen.AddOutPt (e_addr := a) (e_outrec_front_edge := fe) (e_outrec_pts := F) (e_outrec_pts_next := B)
      (e_outrec_pts_next_pt_x := bp.x) (e_outrec_pts_next_pt_y := bp.y) (e_outrec_pts_pt_x := fp.x) (e_outrec_pts_pt_y := fp.y)
      (new_op_addr := N) (pt_x := pt.x) (pt_y := pt.y) =
    (match (addPt front pt r).2.1 with
      | .dup => (if front then F else B, [])
      | _ => (N, [("new_op := new OutPt", []), ("e_outrec_pts_next_prev := new_op", []), ("new_op_prev := e_outrec_pts", []),
                  ("new_op_next := e_outrec_pts_next", []), ("e_outrec_pts_next := new_op", [])] ++
                 (if front then [("e_outrec_pts := new_op", [])] else []))) ∧
    (addPt front pt r).1.pts =
      (match (addPt front pt r).2.1 with | .dup => r.pts | _ => if front then pt :: r.pts else r.pts ++ [pt]) := by
  have pe (p q : Pt) : (decide (p.x = q.x) && decide (p.y = q.y)) = decide (p = q) := by
    cases p; cases q; simp [Bool.decide_and]
  by_cases h : a = fe
  · by_cases h2 : pt = fp <;>
      simp [Gen.AddOutPt, Gen.AddOutPt.m1, Gen.IsFront, addPt, endPt, Ring.setLast, hf, hb, h, pe, h2]
  · by_cases h2 : pt = bp <;>
      simp [Gen.AddOutPt, Gen.AddOutPt.m1, Gen.IsFront, addPt, endPt, Ring.setLast, hf, hb, h, pe, h2]

/-- non-vacuity of the hypotheses of `addOutPt_bridge` -/
example : ([⟨0, 0⟩, ⟨1, 1⟩] : List Pt).head? = some ⟨0, 0⟩ ∧ ([⟨0, 0⟩, ⟨1, 1⟩] : List Pt).getLast? = some ⟨1, 1⟩ := ⟨rfl, rfl⟩

/-- non-vacuity: adding to the back of a two-point ring -/
example : (addPt false ⟨3, 3⟩ ⟨[⟨0, 0⟩, ⟨1, 1⟩], .live, 0, 1, ⟨0, 0⟩, ⟨1, 1⟩⟩).1.pts = [⟨0, 0⟩, ⟨1, 1⟩, ⟨3, 3⟩] := by decide

/-! ## `JoinOutrecPaths` (`Model/AelRings.lean` `joinPaths`, `Model/AelSides.lean` `relabelFn`) -/

/-- C++ `ClipperBase::JoinOutrecPaths(e1, e2)` for closed paths (`e1` is not an open end): everything depends on ONE test,
`f = IsFront(e1)`.
* `f`: the ring of `e2` is linked in FRONT of the ring of `e1` and `e1.outrec->pts` moves to `p2_st`; `e1.outrec` takes over
  `e2.outrec->front_edge`, and that edge (if any) is re-pointed to `e1.outrec`;
* `¬f`: the ring of `e2` is linked BEHIND, `pts` stays; `e1.outrec` takes over `e2.outrec->back_edge`, which is re-pointed.
Then `e2.outrec` is emptied (`front_edge`, `back_edge`, `pts` null), `SetOwner(e2.outrec, e1.outrec)`, and both edges lose their record.
`fnn`, `bnn` = `e2.outrec->front_edge` / `->back_edge` is non-null. -/
theorem joinOutrecPaths_bridge (a fe : Nat) (flags : UInt64) (fnn bnn : Bool)
    (hc : Gen.IsOpenEnd (ae_vertex_top_flags := flags) = false) :
    Gen.JoinOutrecPaths (e1_addr := a) (e1_outrec_front_edge := fe) (e1_vertex_top_flags := flags)
      (e2_outrec_back_edge_nonnull := bnn) (e2_outrec_front_edge_nonnull := fnn) =
    (if decide (a = fe) then
      [("e2_outrec_pts_next_prev := e1_outrec_pts", []), ("e1_outrec_pts_next := e2_outrec_pts_next", []),
       ("e2_outrec_pts_next := e1_outrec_pts_next", []), ("e1_outrec_pts_next_prev := e2_outrec_pts", []),
       ("e1_outrec_pts := e2_outrec_pts", []), ("e1_outrec_front_edge := e2_outrec_front_edge", [])] ++
      (if fnn then [("e2_outrec_front_edge_outrec := e1_outrec", [])] else [])
     else
      [("e1_outrec_pts_next_prev := e2_outrec_pts", []), ("e2_outrec_pts_next := e1_outrec_pts_next", []),
       ("e1_outrec_pts_next := e2_outrec_pts_next", []), ("e2_outrec_pts_next_prev := e1_outrec_pts", []),
       ("e1_outrec_back_edge := e2_outrec_back_edge", [])] ++
      (if bnn then [("e2_outrec_back_edge_outrec := e1_outrec", [])] else [])) ++
    [("e2_outrec_front_edge := nullptr", []), ("e2_outrec_back_edge := nullptr", []), ("e2_outrec_pts := nullptr", []),
     ("SetOwner(e2_outrec,e1_outrec)", []), ("e1_outrec := nullptr", []), ("e2_outrec := nullptr", [])] := by
  by_cases h : a = fe <;> cases fnn <;> cases bnn <;> simp [Gen.JoinOutrecPaths, Gen.IsFront, hc, h]

/-- non-vacuity: a vertex without flags is not an open end -/
example : Gen.IsOpenEnd (ae_vertex_top_flags := 0) = false := by decide

/-- … and hand `Model.joinPaths A B f` branches on the same test the same way: with `f` the points of ring `B` come first and the
front run / last front point of `B` are inherited (`front_edge` taken over), otherwise they come last and the back run is inherited;
ring `B` is emptied and marked `gone`; the first point of the list (`outrec->pts`) changes exactly when `f` -/
theorem joinPaths_by_front (A B : Nat) (f : Bool) (o : Out) (ra rb : Ring) (hA : o.rings[A]? = some ra) (hB : o.rings[B]? = some rb)
    (hne : A ≠ B) (hla : ra.stat = .live) (hlb : rb.stat = .live) :
    (joinPaths A B f o).rings[A]? =
      some (if f then { ra with pts := rb.pts ++ ra.pts, frun := rb.frun, flast := rb.flast }
            else { ra with pts := ra.pts ++ rb.pts, brun := rb.brun, blast := rb.blast }) ∧
    (joinPaths A B f o).rings[B]? = some { rb with pts := [], stat := .gone } := by
  have hAlt : A < o.rings.length := by
    rcases Nat.lt_or_ge A o.rings.length with h | h
    · exact h
    · rw [List.getElem?_eq_none h] at hA; cases hA
  have hBlt : B < o.rings.length := by
    rcases Nat.lt_or_ge B o.rings.length with h | h
    · exact h
    · rw [List.getElem?_eq_none h] at hB; cases hB
  simp only [joinPaths, hA, hB]
  simp [hne, hla, hlb, List.getElem?_set, hAlt, hBlt, Ne.symm hne]

/-- non-vacuity of `joinPaths_by_front`: two live rings, `JoinOutrecPaths(e1, e2)` with `e1` the front edge of record 0 -/
example : ((joinPaths 0 1 true ⟨[⟨[⟨0, 0⟩, ⟨1, 0⟩], .live, 0, 1, ⟨0, 0⟩, ⟨1, 0⟩⟩, ⟨[⟨5, 5⟩, ⟨6, 5⟩], .live, 2, 3, ⟨5, 5⟩, ⟨6, 5⟩⟩], [], [], 4⟩).rings[0]?).map (·.pts) =
    some [⟨5, 5⟩, ⟨6, 5⟩, ⟨0, 0⟩, ⟨1, 0⟩] := by decide

/-- the edge that is re-pointed: hand `Model.relabelFn B f A` (what `JoinOutrecPaths(e1, e2)` does to a third edge in the side model,
`f = IsFront(e1)`) moves exactly the edge holding side `f` of record `B` — the `front_edge` when `f`, the `back_edge` otherwise, as the
log of `joinOutrecPaths_bridge` names it — to side `f` of record `A`, and no other -/
theorem relabelFn_side (A B : Nat) (f : Bool) (x : SEdge) (r : Rec) (hx : x.orec = some r) :
    (relabelFn B f A x).orec = (if r.id = B ∧ r.front = f then some ⟨A, f⟩ else some r) := by
  simp only [relabelFn, hx]
  split <;> simp [hx]

/-! ## `StartOpenPath`, `SetSides`, the open branch of `AddLocalMinPoly` (`Model/AelOpenRings.lean`) -/

/-- C++ `ClipperBase::StartOpenPath(e, pt)` = hand `Model.startOpen`: a new open record with one point whose front end is held by `e` when
`e.wind_dx > 0` (`Model.isFrontDx`) and whose back end is held by `e` otherwise; the OTHER end is null — the end the model marks as free -/
theorem startOpenPath_bridge (dx : Int) (opa : Nat) (pt : Pt) (kind : MarkKind) (oo : Out) (om : List EndMarks) :
    Gen.StartOpenPath (e_wind_dx := dx) (op_addr := opa) =
      (opa, true, [("outrec := NewOutRec()", []),
        (if isFrontDx dx then "outrec_front_edge := e" else "outrec_front_edge := nullptr", []),
        (if isFrontDx dx then "outrec_back_edge := nullptr" else "outrec_back_edge := e", []),
        ("e_outrec := outrec", []), ("op := new OutPt", []), ("outrec_pts := op", [])]) ∧
    (startOpen dx pt kind oo om).1 = ⟨oo.rings.length, isFrontDx dx⟩ ∧
    (startOpen dx pt kind oo om).2.1 = newRec pt oo ∧
    (startOpen dx pt kind oo om).2.2 = om ++ [if isFrontDx dx then ⟨none, some ⟨pt, kind⟩⟩ else ⟨some ⟨pt, kind⟩, none⟩] := by
  by_cases h : dx > 0 <;> simp [Gen.StartOpenPath, startOpen, isFrontDx, EndMarks.put, h]

/-- C++ `SetSides(outrec, start_edge, end_edge)`: the first edge argument becomes the front edge, the second the back edge — the reading
on which `Model.minFront1` ("is `e1` the front edge") and the `⟨id, front⟩` pairs of `Model.minRecs` / `Model.oInsertPair` rest -/
theorem setSides_bridge :
    Gen.SetSides = [("outrec_front_edge := start_edge", []), ("outrec_back_edge := end_edge", [])] := rfl

/-- C++ `AddLocalMinPoly`, open path: `if (e1.wind_dx > 0) SetSides(outrec, e1, e2) else SetSides(outrec, e2, e1)` — `e1` (the left bound in
`InsertLocalMinimaIntoAEL`) holds the front end exactly when `Model.isFrontDx e1.wind_dx`, as hand `Model.oInsertPair` records it; the
record is open and gets one point -/
theorem addLocalMinPoly_open_bridge (isNew up nn io : Bool) (a fe opa : Nat) (dx : Int) :
    Gen.AddLocalMinPoly (is_new := isNew) (e1_local_min_is_open := true) (e1_wind_dx := dx) (op_addr := opa)
      (outrec_is_open_after1 := io) (prevHotEdge_addr := a) (prevHotEdge_nonnull := nn) (prevHotEdge_outrec_front_edge := fe)
      (using_polytree_ := up) =
    (opa, true,
      [("outrec := NewOutRec()", []), ("e1_outrec := outrec", []), ("e2_outrec := outrec", []), ("outrec_owner := nullptr", []),
       (if isFrontDx dx then "SetSides(outrec,e1,e2)" else "SetSides(outrec,e2,e1)", []),
       ("op := new OutPt", []), ("outrec_pts := op", [])]) := by
  by_cases h : dx > 0 <;> simp [Gen.AddLocalMinPoly, Gen.AddLocalMinPoly.m1, Gen.IsOpen, isFrontDx, h]

end Clipper.Props.Bridges
