/-
Bridge theorems (tie T, DESIGN.md §2.3), clipper.core.h (`PointInPolygon`) against `Model/Geom.lean`.
For every definition that `tools/cpp2lean.py` regenerates from the C++ source and that a hand-written model re-implements:
`generated = hand` for ALL arguments.  The generated side is re-created from /repo's current sources on every `./check`
run, so a change of the C++ function changes the left-hand side and the proof below stops compiling (the theorem named in
the error is the obligation that broke).

The `double` arithmetic of `CrossProduct` is not translated: the callee is a function parameter of the generated definitions
(values of an abstract ordered type `D`, compared with 0 only), instantiated here with the hand model's own parameter `cp`.
Core Lean only.
-/
import ClipperVerif.Lemmas.Bridges
import ClipperVerif.Generated.Core
import ClipperVerif.Model.Geom
set_option linter.unusedSimpArgs false
namespace Clipper.Props.Bridges
open Clipper Clipper.Model Clipper.Lemmas.Bridges

/-- C++ `PointInPolygon<int64_t>`, what the main loop does with one vertex `c = *curr` (and `pr = *prev`) after the skipping loops
(the `if (curr->y == pt.y)` test with its on-the-line condition, and the `if … else if … else` crossing step with its early
`return IsOn`) = hand `Model.vertexStep` -/
theorem vertexStep_bridge (cp : Pt → Pt → Pt → Int) (pt pr c : Pt) (isAbove : Bool) (val : Int) :
    vertexStep cp pt pr c isAbove val =
      if c.y = pt.y then
        (if Gen.PointInPolygon_onLine (curr_x := c.x) (curr_y := c.y) (prev_x := pr.x) (prev_y := pr.y) (pt_x := pt.x)
          then .on else .onLine)
      else
        let r := Gen.PointInPolygon_cross (D := Int) (CrossProduct := fun a b c d e f => cp ⟨a, b⟩ ⟨c, d⟩ ⟨e, f⟩)
          (curr_x := c.x) (curr_y := c.y) (is_above := isAbove) (prev_x := pr.x) (prev_y := pr.y) (pt_x := pt.x) (pt_y := pt.y)
          (val := val)
        if r.1 then .on else .cross r.2.2 := by
  simp only [vertexStep, Gen.PointInPolygon_onLine, Gen.PointInPolygon_cross, Gen.PointInPolygon_cross.m2,
    Gen.PointInPolygon_cross.m1, bool_int_eq]
  by_cases hy : c.y = pt.y
  · by_cases h1 : c.x = pt.x <;> by_cases h2 : c.y = pr.y <;> by_cases h3 : pt.x < pr.x <;> by_cases h4 : pt.x < c.x <;>
      simp [hy, h1, h2, h3, h4, bne]
  · by_cases h1 : pt.x < c.x ∧ pt.x < pr.x
    · simp [hy, h1]
    · by_cases h2 : pt.x > pr.x ∧ pt.x > c.x
      · simp [hy, h1, h2]
      · by_cases hd : cp pr c pt = 0
        · simp [hy, h1, h2, hd]
        · by_cases hl : cp pr c pt < 0 <;> cases isAbove <;> simp [hy, h1, h2, hd, hl]

end Clipper.Props.Bridges
