/-
Bridge theorems (tie T, DESIGN.md §2.3), clipper.engine.cpp: the horizontal-join pass (`GetLastOp`, `SetHorzSegHeadingForward`, the
walks and the marking of `UpdateHorzSegment`, `HorzSegSorter`, `DuplicateOp`) against `Model/HorzJoins.lean`.
For every definition that `tools/cpp2lean.py` regenerates from the C++ source and that a hand-written model re-implements:
`generated = hand` for ALL arguments.  The generated side is re-created from /repo's current sources on every `./check`
run, so a change of the C++ function changes the left-hand side and the proof below stops compiling (the theorem named in
the error is the obligation that broke).

Conventions of the generated side (see the head of `tools/cpp2lean.py`): a record parameter is passed field by field
(`e_wind_cnt`), a pointer used as a truth value is the Boolean `…_nonnull`, pointers compared with each other are `Nat`
identities (`e_addr` = which record `e` is), a skeleton returns the scalar members it assigns followed by the log `acts` of
the untranslated calls / pointer assignments it performs (`location := record`; the names on the right denote the records the paths
led to when the function was entered).
Core Lean only.
-/
import ClipperVerif.Lemmas.BridgesHorz
set_option linter.unusedSimpArgs false
namespace Clipper.Props.Bridges
open Clipper Clipper.Model Clipper.Model.HorzJoins Clipper.Lemmas.Bridges

/-! ## `GetLastOp` -/

/-- C++ `GetLastOp(hot_edge)` = hand `Model.HorzJoins.getLastOp`: on a heap where record `ri` has `pts = p` and `p->next = nx`, with `a` the
identity of the edge and `fe` that of `outrec->front_edge`, the model (given `isFront = (&hot_edge == outrec->front_edge)`) returns the
`OutPt` the generated definition selects: `pts` for the front edge, `pts->next` otherwise (the seeded change C02-m2 inverts the test) -/
theorem getLastOp_bridge (H : Heap) (ri p : Nat) (r : ORec) (n : Node) (a fe : Nat)
    (hr : H.orec ri = .ok r) (hp : r.pts = some p) (hn : H.node p = .ok n) :
    getLastOp H ri (decide (a = fe)) =
      .ok (Gen.GetLastOp (hot_edge_addr := a) (hot_edge_outrec_front_edge := fe) (hot_edge_outrec_pts := p)
        (hot_edge_outrec_pts_next := n.next)) := by
  by_cases h : a = fe <;> simp [getLastOp, Gen.GetLastOp, hr, hp, stepOp, hn, h]

/-- non-vacuity: a two-node ring -/
example : getLastOp ⟨#[⟨⟨0, 0⟩, 1, 1, 0, false⟩, ⟨⟨5, 0⟩, 0, 0, 0, false⟩], #[{ pts := some 0 }]⟩ 0 (decide (7 = 8)) =
    .ok (Gen.GetLastOp 7 8 0 1) := by
  simp [getLastOp, Heap.orec, Heap.node, stepOp, Gen.GetLastOp]

/-! ## `SetHorzSegHeadingForward` -/

/-- C++ `SetHorzSegHeadingForward(hs, opP, opN)` = hand `Model.HorzJoins.setHeading`: return value, `left_to_right`, and which of
`opP`, `opN` becomes `left_op` / `right_op` (`xP = opP->pt.x`, `xN = opN->pt.x`) -/
theorem setHeading_bridge (hs : HorzSeg) (opP opN : Nat) (xP xN : Int) :
    let g := Gen.SetHorzSegHeadingForward (hs_left_to_right := hs.ltr) (opN_pt_x := xN) (opP_pt_x := xP)
    let m := setHeading hs opP opN xP xN
    g.1 = m.2 ∧ g.2.1 = m.1.ltr ∧
    g.2.2 = (if xP = xN then [] else if xP < xN then [("hs_left_op := opP", []), ("hs_right_op := opN", [])]
             else [("hs_left_op := opN", []), ("hs_right_op := opP", [])]) ∧
    m.1.leftOp = (if xP = xN then hs.leftOp else if xP < xN then opP else opN) ∧
    m.1.rightOp = (if xP = xN then hs.rightOp else if xP < xN then some opN else some opP) := by
  by_cases h1 : xP = xN <;> by_cases h2 : xP < xN <;> simp [Gen.SetHorzSegHeadingForward, setHeading, h1, h2]

/-! ## the walks of `UpdateHorzSegment` -/

/-- one test of `while (opP != opZ && opP->prev->pt.y == curr_y) opP = opP->prev;` (the record still has edges) is one step of hand
`Model.HorzJoins.walk` as `runEnds` instantiates it -/
theorem runEnds_walkP1_bridge (H : Heap) (y : Int) (opZ cur nx f : Nat) (nn : Node)
    (hs : stepOp H false cur = .ok nx) (hn : H.node nx = .ok nn) :
    walk H false (fun c => c == opZ) (fun _ m => m.pt.y == y) (f + 1) cur =
      if Gen.UpdateHorzSegment_condP1 (curr_y := y) (opP_addr := cur) (opP_prev_pt_y := nn.pt.y) (opZ_addr := opZ)
      then walk H false (fun c => c == opZ) (fun _ m => m.pt.y == y) f nx else .ok cur := by
  by_cases h1 : cur = opZ <;> by_cases h2 : nn.pt.y = y <;> simp [walk, hs, hn, Gen.UpdateHorzSegment_condP1, h1, h2]

/-- … `while (opN != opA && opN->next->pt.y == curr_y) opN = opN->next;` -/
theorem runEnds_walkN1_bridge (H : Heap) (y : Int) (opA cur nx f : Nat) (nn : Node)
    (hs : stepOp H true cur = .ok nx) (hn : H.node nx = .ok nn) :
    walk H true (fun c => c == opA) (fun _ m => m.pt.y == y) (f + 1) cur =
      if Gen.UpdateHorzSegment_condN1 (curr_y := y) (opA_addr := opA) (opN_addr := cur) (opN_next_pt_y := nn.pt.y)
      then walk H true (fun c => c == opA) (fun _ m => m.pt.y == y) f nx else .ok cur := by
  by_cases h1 : cur = opA <;> by_cases h2 : nn.pt.y = y <;> simp [walk, hs, hn, Gen.UpdateHorzSegment_condN1, h1, h2]

/-- … `while (opP->prev != opN && opP->prev->pt.y == curr_y) opP = opP->prev;` (a finished ring; `opN` is still `op`) -/
theorem runEnds_walkP2_bridge (H : Heap) (y : Int) (op cur nx f : Nat) (nn : Node)
    (hs : stepOp H false cur = .ok nx) (hn : H.node nx = .ok nn) :
    walk H false (fun _ => false) (fun x m => x != op && m.pt.y == y) (f + 1) cur =
      if Gen.UpdateHorzSegment_condP2 (curr_y := y) (opN_addr := op) (opP_prev := nx) (opP_prev_pt_y := nn.pt.y)
      then walk H false (fun _ => false) (fun x m => x != op && m.pt.y == y) f nx else .ok cur := by
  by_cases h1 : nx = op
  · subst h1; by_cases h2 : nn.pt.y = y <;> simp [walk, hs, hn, Gen.UpdateHorzSegment_condP2, h2]
  · by_cases h2 : nn.pt.y = y <;> simp [walk, hs, hn, Gen.UpdateHorzSegment_condP2, h1, h2]

/-- … `while (opN->next != opP && opN->next->pt.y == curr_y) opN = opN->next;` -/
theorem runEnds_walkN2_bridge (H : Heap) (y : Int) (opP cur nx f : Nat) (nn : Node)
    (hs : stepOp H true cur = .ok nx) (hn : H.node nx = .ok nn) :
    walk H true (fun _ => false) (fun x m => x != opP && m.pt.y == y) (f + 1) cur =
      if Gen.UpdateHorzSegment_condN2 (curr_y := y) (opN_next := nx) (opN_next_pt_y := nn.pt.y) (opP_addr := opP)
      then walk H true (fun _ => false) (fun x m => x != opP && m.pt.y == y) f nx else .ok cur := by
  by_cases h1 : nx = opP
  · subst h1; by_cases h2 : nn.pt.y = y <;> simp [walk, hs, hn, Gen.UpdateHorzSegment_condN2, h2]
  · by_cases h2 : nn.pt.y = y <;> simp [walk, hs, hn, Gen.UpdateHorzSegment_condN2, h1, h2]

/-- non-vacuity of the hypotheses of the four walk bridges (and of `markSegment_bridge`): node 0 of a two-node ring -/
example : let H : Heap := ⟨#[⟨⟨0, 0⟩, 1, 1, 0, false⟩, ⟨⟨5, 0⟩, 0, 0, 0, false⟩], #[{ pts := some 0 }]⟩
    stepOp H false 0 = .ok 1 ∧ stepOp H true 0 = .ok 1 ∧ H.node 1 = .ok ⟨⟨5, 0⟩, 0, 0, 0, false⟩ := by
  simp [stepOp, Heap.node]

/-! ## the end of `UpdateHorzSegment` -/

/-- `bool result = SetHorzSegHeadingForward(…) && !hs.left_op->horz; if (result) hs.left_op->horz = &hs; else hs.right_op = nullptr;`
= hand `Model.HorzJoins.markSegment` (`ok` = what `SetHorzSegHeadingForward` returned, `nL` = `*hs.left_op` afterwards): the second
conjunct is the generated `UpdateHorzSegment_unmarked`, the branch taken and what it assigns the generated `UpdateHorzSegment_mark`.
(The `&&` itself joins a call of a skeleton with this conjunct and is not translated.) -/
theorem markSegment_bridge (H : Heap) (hs : HorzSeg) (ok : Bool) (nL : Node) (hn : H.node hs.leftOp = .ok nL) :
    let result := ok && Gen.UpdateHorzSegment_unmarked (hs_left_op_horz_nonnull := nL.horz)
    Gen.UpdateHorzSegment_mark result = [(if result then "hs_left_op_horz := hs" else "hs_right_op := nullptr", [])] ∧
    markSegment H hs ok =
      (if result then (H.updNode hs.leftOp (fun x => { x with horz := true })).map (fun H1 => (H1, hs, true))
       else .ok (H, { hs with rightOp := none }, false)) := by
  cases ok <;> cases h : nL.horz <;>
    simp [Gen.UpdateHorzSegment_unmarked, Gen.UpdateHorzSegment_mark, markSegment, hn, h, Except.map] <;>
    (split <;> simp_all)

/-! ## `HorzSegSorter` -/

/-- the order `std::stable_sort(…, HorzSegSorter())` sorts by in hand `Model.HorzJoins.sortSegs` IS the generated comparator (the model
calls it; nothing is re-implemented): a segment without `right_op` sorts after every segment with one, otherwise by `left_op->pt.x` -/
theorem horzSegSorter_bridge (a b : HorzSeg × Int) :
    segBefore a b =
      Gen.HorzSegSorter (hs1_left_op_pt_x := a.2) (hs1_right_op_nonnull := a.1.rightOp.isSome)
        (hs2_left_op_pt_x := b.2) (hs2_right_op_nonnull := b.1.rightOp.isSome) ∧
    segBefore a b = (if a.1.rightOp.isNone || b.1.rightOp.isNone then a.1.rightOp.isSome else decide (a.2 < b.2)) := by
  refine ⟨rfl, ?_⟩
  cases h1 : a.1.rightOp <;> cases h2 : b.1.rightOp <;> simp [segBefore, Gen.HorzSegSorter, h1, h2]

/-! ## `DuplicateOp` -/

/-- C++ `DuplicateOp(op, insert_after)`: the four pointer assignments of either branch, in order, as hand `Model.HorzJoins.duplicateOp`
performs them (`insert_after`: the new node gets `next = op->next`, `prev = op`; `op->next->prev` and `op->next` become the new node;
otherwise mirrored) -/
theorem duplicateOp_log_bridge (ia : Bool) (ra : Nat) :
    Gen.DuplicateOp (insert_after := ia) (result_addr := ra) =
      (ra, ("result := new OutPt", []) ::
        (if ia then [("result_next := op_next", []), ("op_next_prev := result", []), ("result_prev := op", []), ("op_next := result", [])]
         else [("result_prev := op_prev", []), ("op_prev_next := result", []), ("result_next := op", []), ("op_prev := result", [])])) := by
  cases ia <;> rfl

/-- C++ `DuplicateOp(op, insert_after)` = hand `Model.HorzJoins.duplicateOp`, semantically: EXECUTING the log of the generated skeleton
(`Lemmas.Bridges.runDupLog`: `new OutPt` allocates a self-linked node as the constructor leaves it, then each `location := record` is one
write of a `next` / `prev` field, the names resolved on the heap at entry as the translator defines them) yields exactly the heap and the new
node the hand model returns — for every heap in which `op` and its two neighbours exist.  (Without `hnext` / `hprev` the hand model and the
C++ order of writes differ only if `op->next` is the very cell `new` returns, which no C++ heap can contain.) -/
theorem duplicateOp_bridge (H : Heap) (op : Nat) (ia : Bool) (n : Node) (hn : H.node op = .ok n)
    (hnext : n.next < H.ops.size) (hprev : n.prev < H.ops.size) :
    runDupLog H op (Gen.DuplicateOp (insert_after := ia) (result_addr := H.ops.size)).2 = duplicateOp H op ia := by
  have hop : op < H.ops.size := by
    unfold Heap.node at hn
    by_cases h : op < H.ops.size
    · exact h
    · simp [Array.getElem?_eq_none (Nat.le_of_not_lt h)] at hn
  have h1 : n.next < H.ops.size + 1 := Nat.lt_succ_of_lt hnext
  have h2 : n.prev < H.ops.size + 1 := Nat.lt_succ_of_lt hprev
  have h3 : op < H.ops.size + 1 := Nat.lt_succ_of_lt hop
  cases ia
  · have hlog : (Gen.DuplicateOp (insert_after := false) (result_addr := H.ops.size)).2 =
        [("result := new OutPt", []), ("result_prev := op_prev", []), ("op_prev_next := result", []),
         ("result_next := op", []), ("op_prev := result", [])] := rfl
    rw [hlog]
    simp only [runDupLog, hn, duplicateOp, runAssigns, dupAssign, setLink, Heap.updNode, Array.size_push, Array.size_modify,
      h1, h2, h3, if_true, Nat.lt_succ_self, Bool.false_eq_true, if_false]
    refine congrArg (fun a => (Except.ok (({ ops := a, recs := H.recs } : Heap), H.ops.size) : R (Heap × Nat))) ?_
    apply Array.ext
    · simp
    · intro i hi1 hi2
      simp only [Array.size_modify, Array.size_push] at hi1 hi2
      simp only [Array.getElem_modify, Array.getElem_push]
      rcases Nat.lt_or_ge i H.ops.size with hlt | hge
      · have hne : H.ops.size ≠ i := by omega
        by_cases ho : op = i <;> by_cases hp : n.prev = i <;> simp [ho, hp, hne, hlt]
      · have hi : H.ops.size = i := by omega
        have e1 : op ≠ i := by omega
        have e2 : n.prev ≠ i := by omega
        have e3 : ¬ i < H.ops.size := by omega
        simp [e1, e2, e3, hi]
  · have hlog : (Gen.DuplicateOp (insert_after := true) (result_addr := H.ops.size)).2 =
        [("result := new OutPt", []), ("result_next := op_next", []), ("op_next_prev := result", []),
         ("result_prev := op", []), ("op_next := result", [])] := rfl
    rw [hlog]
    simp only [runDupLog, hn, duplicateOp, runAssigns, dupAssign, setLink, Heap.updNode, Array.size_push, Array.size_modify,
      h1, h2, h3, if_true, Nat.lt_succ_self, Bool.false_eq_true, if_false]
    refine congrArg (fun a => (Except.ok (({ ops := a, recs := H.recs } : Heap), H.ops.size) : R (Heap × Nat))) ?_
    apply Array.ext
    · simp
    · intro i hi1 hi2
      simp only [Array.size_modify, Array.size_push] at hi1 hi2
      simp only [Array.getElem_modify, Array.getElem_push]
      rcases Nat.lt_or_ge i H.ops.size with hlt | hge
      · have hne : H.ops.size ≠ i := by omega
        by_cases ho : op = i <;> by_cases hp : n.next = i <;> simp [ho, hp, hne, hlt]
      · have hi : H.ops.size = i := by omega
        have e1 : op ≠ i := by omega
        have e2 : n.next ≠ i := by omega
        have e3 : ¬ i < H.ops.size := by omega
        simp [e1, e2, e3, hi]

/-- non-vacuity: node 0 of a two-node ring satisfies the hypotheses -/
example : let H : Heap := ⟨#[⟨⟨0, 0⟩, 1, 1, 0, false⟩, ⟨⟨5, 0⟩, 0, 0, 0, false⟩], #[{ pts := some 0 }]⟩
    H.node 0 = .ok ⟨⟨0, 0⟩, 1, 1, 0, false⟩ ∧ (1 : Nat) < H.ops.size := by
  simp [Heap.node]

end Clipper.Props.Bridges
