/-
Bridge theorems (tie T, DESIGN.md §2.3), clipper.engine.cpp: the JOIN DECISIONS `CheckJoinLeft` / `CheckJoinRight` and their call
sites against `Model/JoinCond.lean`, and the link from the decision to the models of what a join does (`Model/AelSides.lean`
`joinS`, `Model/AelRings.lean` `joinOut`).
For every definition that `tools/cpp2lean.py` regenerates from the C++ source and that a hand-written model re-implements:
`generated = hand` for ALL arguments.  The generated side is re-created from /repo's current sources on every `./check`
run, so a change of the C++ function changes the left-hand side and the proof below stops compiling (the theorem named in
the error is the obligation that broke).

Conventions of the generated side (see the head of `tools/cpp2lean.py`): a record parameter is passed field by field
(`e_wind_cnt`), a pointer used as a truth value is the Boolean `…_nonnull`, pointers compared with each other are `Nat`
identities (`e_addr` = which record `e` is), a skeleton returns the scalar members it assigns followed by the log `acts` of
the untranslated calls / pointer assignments it performs, a value read after an untranslated call that may have assigned
it is a separate argument `…_after<k>`.  New here: `PerpendicDistFromLineSqrd(pt, prev->bot, prev->top) > 0.25` (double arithmetic,
not entered) is ONE Boolean argument whose NAME spells out callee, arguments, comparison and threshold; the theorems bind it by that
name, so a change of any of the four makes the statement itself ill-formed.
Core Lean only.
-/
import ClipperVerif.Lemmas.BridgesJoins
import ClipperVerif.Lemmas.AelOrder
import ClipperVerif.Model.AelRings
set_option linter.unusedSimpArgs false
namespace Clipper.Props.Bridges
open Clipper Clipper.Model Clipper.Model.JoinCond Clipper.Lemmas.Bridges

/-! ## (a) generated = specification -/

/-- C++ `ClipperBase::CheckJoinLeft` = hand `Model.JoinCond.joinLeftDecision`, for all arguments: the early-return guard with every
one of its terms, the #490 test, the `check_curr_x` branch, the exact collinearity test (`Gen.IsCollinear` = `cross = 0`), which of
`AddLocalMaxPoly(*prev, e, pt)` / `JoinOutrecPaths(e, *prev)` / `JoinOutrecPaths(*prev, e)` runs, and the two `join_with` values.
`pn` = `prev != nullptr`; `idx` values are `size_t`. -/
theorem checkJoinLeft_bridge (ccx far pn : Bool) (e p : JEdge) (pt : Pt) (je jp : JoinWith)
    (he : e.idx < 2 ^ 64) (hp : p.idx < 2 ^ 64) :
    Gen.CheckJoinLeft (check_curr_x := ccx)
      (PerpendicDistFromLineSqrd_pt_e_prev_in_ael_bot_e_prev_in_ael_top_gt_0_25 := far)
      (e_bot_y := e.bot.y) (e_curr_x := e.currX) (e_join_with := je) (e_local_min_is_open := e.isOpen)
      (e_outrec_idx := UInt64.ofNat e.idx) (e_outrec_nonnull := e.hot)
      (e_prev_in_ael_bot_y := p.bot.y) (e_prev_in_ael_curr_x := p.currX) (e_prev_in_ael_join_with := jp)
      (e_prev_in_ael_local_min_is_open := p.isOpen) (e_prev_in_ael_nonnull := pn)
      (e_prev_in_ael_outrec_idx := UInt64.ofNat p.idx) (e_prev_in_ael_outrec_nonnull := p.hot)
      (e_prev_in_ael_top_x := p.top.x) (e_prev_in_ael_top_y := p.top.y) (e_top_x := e.top.x) (e_top_y := e.top.y)
      (pt_x := pt.x) (pt_y := pt.y) =
    encodeLeft (joinLeftDecision ccx far e (if pn then some p else none) pt je jp) := by
  have hc := Clipper.Lemmas.AelOrder.isCollinear_eq e.top pt p.top
  have hlt := u64_lt e.idx p.idx he hp
  have heq := u64_eq e.idx p.idx he hp
  cases pn
  · simp [Gen.CheckJoinLeft, joinLeftDecision, leftLog, encodeLeft]
  · simp only [Gen.CheckJoinLeft, Gen.CheckJoinLeft.m1, Gen.CheckJoinLeft.m2, Gen.CheckJoinLeft.m3, Gen.IsHotEdge,
      Gen.IsHorizontal, Gen.IsOpen, hc, joinLeftDecision, JEdge.horizontal, hlt, heq, decide_eq_true_eq, Bool.not_true,
      Bool.false_or, if_true]
    generalize (!e.hot || !p.hot || decide (e.top.y = e.bot.y) || decide (p.top.y = p.bot.y) || e.isOpen || p.isOpen) = g1
    generalize ((decide (pt.y < e.top.y + 2) || decide (pt.y < p.top.y + 2)) && (decide (e.bot.y > pt.y) || decide (p.bot.y > pt.y))) = g2
    cases g1
    · cases g2
      · cases ccx <;> cases far <;> by_cases h3 : e.currX = p.currX <;> by_cases h4 : cross e.top pt p.top = 0 <;>
          by_cases h5 : e.idx = p.idx <;> by_cases h6 : e.idx < p.idx <;> simp [encodeLeft, leftLog, h3, h4, h5, h6]
      · simp [encodeLeft, leftLog]
    · simp [encodeLeft, leftLog]

/-- C++ `ClipperBase::CheckJoinRight` = hand `Model.JoinCond.joinRightDecision`, for all arguments (threshold 0.35; `nn` =
`next != nullptr`) -/
theorem checkJoinRight_bridge (ccx far nn : Bool) (e n : JEdge) (pt : Pt) (je jn : JoinWith)
    (he : e.idx < 2 ^ 64) (hn : n.idx < 2 ^ 64) :
    Gen.CheckJoinRight (check_curr_x := ccx)
      (PerpendicDistFromLineSqrd_pt_e_next_in_ael_bot_e_next_in_ael_top_gt_0_34999999999999998 := far)
      (e_bot_y := e.bot.y) (e_curr_x := e.currX) (e_join_with := je) (e_local_min_is_open := e.isOpen)
      (e_outrec_idx := UInt64.ofNat e.idx) (e_outrec_nonnull := e.hot)
      (e_next_in_ael_bot_y := n.bot.y) (e_next_in_ael_curr_x := n.currX) (e_next_in_ael_join_with := jn)
      (e_next_in_ael_local_min_is_open := n.isOpen) (e_next_in_ael_nonnull := nn)
      (e_next_in_ael_outrec_idx := UInt64.ofNat n.idx) (e_next_in_ael_outrec_nonnull := n.hot)
      (e_next_in_ael_top_x := n.top.x) (e_next_in_ael_top_y := n.top.y) (e_top_x := e.top.x) (e_top_y := e.top.y)
      (pt_x := pt.x) (pt_y := pt.y) =
    encodeRight (joinRightDecision ccx far e (if nn then some n else none) pt je jn) := by
  have hc := Clipper.Lemmas.AelOrder.isCollinear_eq e.top pt n.top
  have hlt := u64_lt e.idx n.idx he hn
  have heq := u64_eq e.idx n.idx he hn
  cases nn
  · simp [Gen.CheckJoinRight, joinRightDecision, rightLog, encodeRight]
  · simp only [Gen.CheckJoinRight, Gen.CheckJoinRight.m1, Gen.CheckJoinRight.m2, Gen.CheckJoinRight.m3, Gen.IsHotEdge,
      Gen.IsHorizontal, Gen.IsOpen, hc, joinRightDecision, JEdge.horizontal, hlt, heq, decide_eq_true_eq, Bool.not_true,
      Bool.false_or, if_true]
    generalize (!e.hot || !n.hot || decide (e.top.y = e.bot.y) || decide (n.top.y = n.bot.y) || e.isOpen || n.isOpen) = g1
    generalize ((decide (pt.y < e.top.y + 2) || decide (pt.y < n.top.y + 2)) && (decide (e.bot.y > pt.y) || decide (n.bot.y > pt.y))) = g2
    cases g1
    · cases g2
      · cases ccx <;> cases far <;> by_cases h3 : e.currX = n.currX <;> by_cases h4 : cross e.top pt n.top = 0 <;>
          by_cases h5 : e.idx = n.idx <;> by_cases h6 : e.idx < n.idx <;> simp [encodeRight, rightLog, h3, h4, h5, h6]
      · simp [encodeRight, rightLog]
    · simp [encodeRight, rightLog]

/-! ## (b) the two decisions are mirror images -/

/-- `CheckJoinLeft` is `CheckJoinRight` seen in a mirror: the same predicate on (`e`, neighbour, `pt`, `check_curr_x`, distance flag)
with `prev` for `next` and `Left` for `Right` in `join_with`.  (What the mirror does NOT cover is inside the distance flag: the C++
compares with 0.25 on the left and 0.35 on the right; the two thresholds are part of the names of the generated arguments that
`checkJoinLeft_bridge` / `checkJoinRight_bridge` bind.)  A term dropped from one guard only — the seeded changes C02r3-m1, C02b-m1 —
breaks the bridge of that side; were both bridges repaired by editing both specifications differently, this theorem would break. -/
theorem joinLeft_right_mirror (ccx far : Bool) (e : JEdge) (nb : Option JEdge) (pt : Pt) (je jn : JoinWith) :
    joinLeftDecision ccx far e nb pt je jn = (joinRightDecision ccx far e nb pt (mirrorJoin je) (mirrorJoin jn)).mirror := by
  cases nb with
  | none => simp [joinLeftDecision, joinRightDecision, Outcome.mirror, mirrorJoin_mirrorJoin]
  | some p =>
    rw [joinLeft_some, joinRight_some]
    cases passes ccx far e p pt <;> simp [Outcome.mirror, mirrorJoin_mirrorJoin] <;> exact ⟨rfl, rfl⟩

/-! ## (c) what a join guarantees -/

/-- `CheckJoinLeft` joins (its decision is not `none`) EXACTLY when: `prev` exists; both edges are hot (`outrec != nullptr`); neither
is open; neither is horizontal; the join is not "trivial" (#490), which is: (`pt.y ≥ e.top.y + 2` and `pt.y ≥ prev->top.y + 2`) or
(`e.bot.y ≤ pt.y` and `prev->bot.y ≤ pt.y`) — the negation of the C++ test; with `check_curr_x` the distance flag is false (`pt` is
within √0.25 of the line through `prev`), without it `e.curr_x == prev->curr_x`; and `e.top`, `pt`, `prev->top` are collinear by the
exact integer test.  These are the facts the join-soundness check of `harness/aeltrace.h` (joined edges come within 2 units of each
other) and `Model.joinS` (both closed and hot, else `reject`) rely on. -/
theorem joinLeft_requires (ccx far : Bool) (e : JEdge) (prev : Option JEdge) (pt : Pt) (je jp : JoinWith) :
    (joinLeftDecision ccx far e prev pt je jp).act ≠ .none ↔
      ∃ p, prev = some p ∧ e.hot = true ∧ p.hot = true ∧ e.isOpen = false ∧ p.isOpen = false ∧
        e.top.y ≠ e.bot.y ∧ p.top.y ≠ p.bot.y ∧
        ((e.top.y + 2 ≤ pt.y ∧ p.top.y + 2 ≤ pt.y) ∨ (e.bot.y ≤ pt.y ∧ p.bot.y ≤ pt.y)) ∧
        (if ccx then far = false else e.currX = p.currX) ∧ cross e.top pt p.top = 0 := by
  cases prev with
  | none => simp [joinLeftDecision]
  | some p =>
    rw [joinLeft_some]
    simp only [Option.some.injEq, exists_eq_left', ← passes_iff]
    cases passes ccx far e p pt <;> simp [idxAct_ne_none]

/-- the same for `CheckJoinRight` -/
theorem joinRight_requires (ccx far : Bool) (e : JEdge) (next : Option JEdge) (pt : Pt) (je jn : JoinWith) :
    (joinRightDecision ccx far e next pt je jn).act ≠ .none ↔
      ∃ n, next = some n ∧ e.hot = true ∧ n.hot = true ∧ e.isOpen = false ∧ n.isOpen = false ∧
        e.top.y ≠ e.bot.y ∧ n.top.y ≠ n.bot.y ∧
        ((e.top.y + 2 ≤ pt.y ∧ n.top.y + 2 ≤ pt.y) ∨ (e.bot.y ≤ pt.y ∧ n.bot.y ≤ pt.y)) ∧
        (if ccx then far = false else e.currX = n.currX) ∧ cross e.top pt n.top = 0 := by
  have h := joinLeft_requires ccx far e next pt (mirrorJoin je) (mirrorJoin jn)
  rw [joinLeft_right_mirror] at h
  simpa [Outcome.mirror, mirrorJoin_mirrorJoin] using h

/-- both sides at once, plus what the call leaves behind: a join sets `join_with` to (`Left`, `Right`) resp. (`Right`, `Left`), keeps
the record with the smaller `idx` (`JoinOutrecPaths(keep, gone)`), and closes the ring when both edges are on one record; no join
leaves `join_with` alone -/
theorem join_requires (ccx far : Bool) (e nb : JEdge) (pt : Pt) (je jn : JoinWith) :
    let L := joinLeftDecision ccx far e (some nb) pt je jn
    let R := joinRightDecision ccx far e (some nb) pt je jn
    (L.act = .none ↔ R.act = .none) ∧ L.act = R.act ∧
    (L.act = .none → L.joinE = je ∧ L.joinNb = jn ∧ R.joinE = je ∧ R.joinNb = jn) ∧
    (L.act ≠ .none → L.joinE = .left ∧ L.joinNb = .right ∧ R.joinE = .right ∧ R.joinNb = .left ∧
      e.hot = true ∧ nb.hot = true ∧ e.isOpen = false ∧ nb.isOpen = false ∧ e.top.y ≠ e.bot.y ∧ nb.top.y ≠ nb.bot.y ∧
      cross e.top pt nb.top = 0 ∧
      L.act = (if e.idx = nb.idx then .sameRecordClose else if e.idx < nb.idx then .joinInto .e .nb else .joinInto .nb .e)) := by
  intro L R
  have hL : L = if passes ccx far e nb pt then ⟨idxAct e nb, .left, .right⟩ else ⟨.none, je, jn⟩ := joinLeft_some ..
  have hR : R = if passes ccx far e nb pt then ⟨idxAct e nb, .right, .left⟩ else ⟨.none, je, jn⟩ := joinRight_some ..
  rw [hL, hR]
  cases hp : passes ccx far e nb pt
  · simp
  · have := (passes_iff ccx far e nb pt).mp hp
    have hne := idxAct_ne_none e nb
    simp only [if_true, hne, ne_eq, not_false_eq_true, false_iff, not_true_eq_false, iff_self, true_and, false_imp_iff,
      true_imp_iff, this.1, this.2.1, this.2.2.1, this.2.2.2.1, this.2.2.2.2.1, this.2.2.2.2.2.1, this.2.2.2.2.2.2.2.2, and_self,
      not_false_eq_true]
    rfl

/-! ## the call sites -/

/-- C++ `ClipperBase::UpdateEdgeIntoAEL` (whole function) = hand `Model.JoinCond.updateEdgeIntoAEL`: the new `bot`, `top`, `curr_x`,
and after `e_vertex_top := NextVertex(e)`, `SetDx(e)` the steps `Split` (if joined), then either `TrimHorz` (new edge horizontal and
closed) or `InsertScanline(top.y)`, `CheckJoinLeft(e, e->bot)`, `CheckJoinRight(e, e->bot, true)` — the two call sites with their
`check_curr_x` arguments (the seeded change C01a-m2 drops the `true`) -/
theorem updateEdgeIntoAEL_bridge (top nv bot : Pt) (j : JoinWith) (isOpen pc : Bool) :
    Gen.UpdateEdgeIntoAEL (e_NextVertex_pt_x := nv.x) (e_NextVertex_pt_y := nv.y) (e_bot_x := bot.x) (e_bot_y := bot.y)
      (e_join_with := j) (e_local_min_is_open := isOpen) (e_top_x := top.x) (e_top_y := top.y) (preserve_collinear_ := pc) =
    let r := updateEdgeIntoAEL top nv (decide (j ≠ .noJoin)) isOpen pc
    (r.bot.x, r.bot.y, r.currX, r.top.x, r.top.y,
      [("e_vertex_top := e_NextVertex", []), ("SetDx(e)", [])] ++ r.steps.map stepLog) := by
  simp only [Gen.UpdateEdgeIntoAEL, Gen.UpdateEdgeIntoAEL.m1, Gen.UpdateEdgeIntoAEL.m2, Gen.IsJoined, Gen.IsHorizontal, Gen.IsOpen,
    updateEdgeIntoAEL, updateSites, List.map, stepLog, siteLog_updateLeft, siteLog_updateRight]
  cases j <;> cases isOpen <;> cases pc <;> by_cases h : nv.y = top.y <;>
    simp only [h, decide_true, decide_false, if_true, if_false, ne_eq, not_true_eq_false, not_false_eq_true, reduceCtorEq, Bool.not_true,
      Bool.not_false, Bool.false_eq_true, List.map, List.nil_append, List.cons_append, List.append_nil, stepLog, siteLog_updateLeft,
      siteLog_updateRight] <;> rfl

/-- every call of `CheckJoinLeft` / `CheckJoinRight` in the source, with its edge, `pt` and `check_curr_x` argument, is an entry of
hand `Model.JoinCond.callSites` (the table `Model.JoinCond.explained` — the run-time check `JOINCOND` — draws `check_curr_x` from):
the generated fragments of `InsertLocalMinimaIntoAEL`, `ProcessIntersectList`, `DoHorizontal` log exactly these calls (for
`UpdateEdgeIntoAEL` see `updateEdgeIntoAEL_bridge`) -/
theorem joinCallSites_bridge :
    (callSites.filter (fun c => c.caller != "UpdateEdgeIntoAEL")).map siteLog =
      Gen.InsertLocalMinima_joinLeft ++ Gen.InsertLocalMinima_joinRight ++ Gen.ProcessIntersectList_joinLeft ++
        Gen.ProcessIntersectList_joinRight ++ Gen.DoHorizontal_joinLeft ++ Gen.DoHorizontal_joinRight := by
  decide

/-- what the table says about `check_curr_x`: with `pt = e->bot` the left check never uses it and the right check does in
`UpdateEdgeIntoAEL` only; at an intersection both use it; in `DoHorizontal` neither does -/
theorem siteFlags_table :
    siteFlags .left .botOfE = [false] ∧ siteFlags .right .botOfE = [false, true] ∧
    siteFlags .left .nodePt = [true] ∧ siteFlags .right .nodePt = [true] ∧
    siteFlags .left .horzPt = [false] ∧ siteFlags .right .horzPt = [false] := by decide

/-! ## from the decision to what a join does -/

/-- a join the engine decides on is an event the side model accepts: for the adjacent edges `a` (left), `b` (right) of a model state
that agree with the `Active`s in `IsOpen` and `IsHotEdge`, `Model.joinS` does not `reject` (it may still report the fault
`joinSameSide` / `sidesEqual`, which is the model's statement about `JoinOutrecPaths` without a side test) -/
theorem joinS_accepts_decided (i : Nat) (s : SState) (a b : SEdge) (rest : List SEdge) (h : s.ael.drop i = a :: b :: rest)
    (ccx far : Bool) (e p : JEdge) (pt : Pt) (je jp : JoinWith)
    (hp : p.isOpen = a.e.isOpen ∧ p.hot = a.orec.isSome) (he : e.isOpen = b.e.isOpen ∧ e.hot = b.orec.isSome)
    (hd : (joinLeftDecision ccx far e (some p) pt je jp).act ≠ .none) : joinS i s ≠ .error .reject := by
  obtain ⟨q, hq, a1, a2, a3, a4, _⟩ := (joinLeft_requires ccx far e (some p) pt je jp).mp hd
  cases hq
  rw [hp.2] at a2; rw [he.2] at a1; rw [hp.1] at a4; rw [he.1] at a3
  cases ha : a.orec <;> cases hb : b.orec <;> simp [ha, hb] at a1 a2
  simp only [joinS, h, ha, hb, a3, a4, Bool.or_self, Bool.false_eq_true, if_false]
  split
  · simp
  · split <;> simp

/-- the action of the decision is the branch `Model.joinOut` takes (ring model): one record ⇒ `localMaxOut` (a point is added, the
ring is closed); two records ⇒ `joinPaths keep gone` with `keep` the smaller `idx`, no point added.  `a`, `b` = the left and right
edge with records `ra`, `rb`; for `CheckJoinLeft` the argument `e` is the right edge. -/
theorem joinOut_by_decision (i : Nat) (pt : Pt) (s : SState) (o : Out) (a b : SEdge) (rest : List SEdge) (ra rb : Rec)
    (h : s.ael.drop i = a :: b :: rest) (ha : a.orec = some ra) (hb : b.orec = some rb)
    (ccx far : Bool) (e p : JEdge) (je jp : JoinWith) (hie : e.idx = rb.id) (hip : p.idx = ra.id)
    (hd : (joinLeftDecision ccx far e (some p) pt je jp).act ≠ .none) :
    joinOut i pt s o =
      match (joinLeftDecision ccx far e (some p) pt je jp).act with
      | .sameRecordClose => localMaxOut .joinMeet ra rb pt o
      | .joinInto .e .nb => joinPaths rb.id ra.id rb.front (logSeg .joinSeam ra.id ra.front rb.id rb.front o)
      | .joinInto .nb .e => joinPaths ra.id rb.id ra.front (logSeg .joinSeam ra.id ra.front rb.id rb.front o)
      | _ => o := by
  have hact : (joinLeftDecision ccx far e (some p) pt je jp).act = idxAct e p := by
    rw [joinLeft_some] at hd ⊢
    cases hp : passes ccx far e p pt <;> simp [hp] at hd ⊢
  rw [hact, idxAct, hie, hip]
  unfold joinOut
  rw [h]
  simp only [ha, hb]
  by_cases h1 : ra.id = rb.id
  · simp [h1]
  · have h1' : rb.id ≠ ra.id := fun x => h1 x.symm
    by_cases h2 : ra.id < rb.id
    · have : ¬ rb.id < ra.id := by omega
      simp [h1, h1', h2, this]
    · have : rb.id < ra.id := by omega
      simp [h1, h1', h2, this]

/-! ## non-vacuity -/

/-- the hypotheses of `joinS_accepts_decided` / `joinOut_by_decision` hold for a concrete state: two closed hot edges on records 1 and 0
(back, front), coincident vertical `Active`s -/
example : joinS 0 ⟨[⟨⟨.subject, false, 1, 1, 0, true⟩, .none, some ⟨1, false⟩⟩, ⟨⟨.subject, false, -1, 1, 0, true⟩, .none, some ⟨0, true⟩⟩], 2⟩ ≠
    .error .reject :=
  joinS_accepts_decided 0 _ _ _ [] rfl false false ⟨true, false, ⟨5, 10⟩, ⟨5, 0⟩, 5, 0⟩ ⟨true, false, ⟨5, 10⟩, ⟨5, 2⟩, 5, 1⟩ ⟨5, 10⟩ .noJoin .noJoin
    ⟨rfl, rfl⟩ ⟨rfl, rfl⟩ (by decide)

/-- a join that happens: two coincident vertical edges on different records -/
example : joinLeftDecision false false ⟨true, false, ⟨5, 10⟩, ⟨5, 0⟩, 5, 3⟩ (some ⟨true, false, ⟨5, 10⟩, ⟨5, 2⟩, 5, 1⟩) ⟨5, 10⟩ .noJoin .noJoin =
    ⟨.joinInto .nb .e, .left, .right⟩ := by decide

/-- the term the seeded changes drop: a horizontal neighbour is never joined -/
example : (joinLeftDecision false false ⟨true, false, ⟨5, 10⟩, ⟨5, 0⟩, 5, 3⟩ (some ⟨true, false, ⟨5, 10⟩, ⟨9, 10⟩, 5, 1⟩) ⟨5, 10⟩ .noJoin .noJoin).act =
    .none := by decide

end Clipper.Props.Bridges
