/-
Bridge theorems (tie T, DESIGN.md §2.3), clipper.engine.cpp (`IsMaxima`, `IsOpenEnd` on `VertexFlags`) against `Model/AddPathsRings.lean`.
For every definition that `tools/cpp2lean.py` regenerates from the C++ source and that a hand-written model re-implements:
`generated = hand` for ALL arguments.  The generated side is re-created from /repo's current sources on every `./check`
run, so a change of the C++ function changes the left-hand side and the proof below stops compiling (the theorem named in
the error is the obligation that broke).

Conventions of the generated side (see the head of `tools/cpp2lean.py`): a record parameter is passed field by field
(`e_wind_cnt`), a pointer used as a truth value is the Boolean `…_nonnull`, pointers compared with each other are `Nat`
identities (`e_addr` = which record `e` is), a skeleton returns the scalar members it assigns followed by the log `acts` of
the untranslated calls / pointer assignments it performs, a value read after an untranslated call that may have assigned
it is a separate argument `…_after<k>`.
Core Lean only.
-/
import ClipperVerif.Lemmas.Bridges
import ClipperVerif.Generated.Engine
import ClipperVerif.Model.AddPathsRings
set_option linter.unusedSimpArgs false
namespace Clipper.Props.Bridges
open Clipper Clipper.Model Clipper.Lemmas.Bridges

/-! ## clipper.engine.cpp: vertex flags (`Model/AddPathsRings.lean`) -/

open Clipper.Model.AddPathsRings in
/-- C++ `IsMaxima(const Vertex&)` on the `uint32_t` value of hand `AddPathsRings.VFlags` -/
theorem isMaximaV_bridge (f : VFlags) : Gen.IsMaximaV (v_flags := UInt64.ofNat f.bits) = f.localMax := by
  rcases f with ⟨a, b, c, d⟩
  cases a <;> cases b <;> cases c <;> cases d <;> decide


open Clipper.Model.AddPathsRings in
/-- C++ `IsOpenEnd(const Vertex&)` on the `uint32_t` value of hand `AddPathsRings.VFlags` -/
theorem isOpenEndV_bridge (f : VFlags) : Gen.IsOpenEndV (v_flags := UInt64.ofNat f.bits) = (f.openStart || f.openEnd) := by
  rcases f with ⟨a, b, c, d⟩
  cases a <;> cases b <;> cases c <;> cases d <;> decide

end Clipper.Props.Bridges
