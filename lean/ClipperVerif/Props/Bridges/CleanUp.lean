/-
Bridge theorems (tie T, DESIGN.md §2.3), clipper.engine.cpp (`IsVerySmallTriangle`, `IsValidClosedPath`, `BuildPath64`, `TrimHorz`) against `Model/CleanUp.lean`, `Model/TrimHorz.lean`.
For every definition that `tools/cpp2lean.py` regenerates from the C++ source and that a hand-written model re-implements:
`generated = hand` for ALL arguments.  The generated side is re-created from /repo's current sources on every `./check`
run, so a change of the C++ function changes the left-hand side and the proof below stops compiling (the theorem named in
the error is the obligation that broke).

Conventions of the generated side (see the head of `tools/cpp2lean.py`): a record parameter is passed field by field
(`e_wind_cnt`), a pointer used as a truth value is the Boolean `…_nonnull`, pointers compared with each other are `Nat`
identities (`e_addr` = which record `e` is), a skeleton returns the scalar members it assigns followed by the log `acts` of
the untranslated calls / pointer assignments it performs, a value read after an untranslated call that may have assigned
it is a separate argument `…_after<k>`.
Core Lean only.
-/
import ClipperVerif.Lemmas.Bridges
import ClipperVerif.Generated.Engine
import ClipperVerif.Model.CleanUp
import ClipperVerif.Model.TrimHorz
set_option linter.unusedSimpArgs false
namespace Clipper.Props.Bridges
open Clipper Clipper.Model Clipper.Lemmas.Bridges

/-! ## clipper.engine.cpp: `IsVerySmallTriangle`, `IsValidClosedPath`, `BuildPath64` (`Model/CleanUp.lean`) -/

section CleanUp
open Clipper.Model.CleanUp

/-! Rings: node `i` of a ring of `n` nodes has identity `i + 1` (0 is nullptr); `op` is node 0, `next` is `(i + 1) % n`, `prev` is `(i + n - 1) % n` -/

/-- C++ `IsVerySmallTriangle(op)` = hand `Model.CleanUp.isVerySmallTriangle`, ring of one node -/
theorem isVerySmallTriangle_one_bridge (op : Pt) :
    isVerySmallTriangle [op] =
      Gen.IsVerySmallTriangle (op_next_next := 1) (op_prev := 1) (op_next_pt_x := op.x) (op_next_pt_y := op.y)
        (op_prev_pt_x := op.x) (op_prev_pt_y := op.y) (op_pt_x := op.x) (op_pt_y := op.y) := by
  simp [isVerySmallTriangle, Gen.IsVerySmallTriangle, Gen.PtsReallyClose, Gen.iabs]

/-- … ring of two nodes -/
theorem isVerySmallTriangle_two_bridge (op nx : Pt) :
    isVerySmallTriangle [op, nx] =
      Gen.IsVerySmallTriangle (op_next_next := 1) (op_prev := 2) (op_next_pt_x := nx.x) (op_next_pt_y := nx.y)
        (op_prev_pt_x := nx.x) (op_prev_pt_y := nx.y) (op_pt_x := op.x) (op_pt_y := op.y) := by
  simp [isVerySmallTriangle, Gen.IsVerySmallTriangle]

/-- … ring of three nodes -/
theorem isVerySmallTriangle_three_bridge (op nx pv : Pt) :
    isVerySmallTriangle [op, nx, pv] =
      Gen.IsVerySmallTriangle (op_next_next := 3) (op_prev := 3) (op_next_pt_x := nx.x) (op_next_pt_y := nx.y)
        (op_prev_pt_x := pv.x) (op_prev_pt_y := pv.y) (op_pt_x := op.x) (op_pt_y := op.y) := by
  simp [isVerySmallTriangle, Gen.IsVerySmallTriangle, ptsReallyClose]

/-- … ring of four or more nodes (`op.next->next` is node 2, `op.prev` the last node) -/
theorem isVerySmallTriangle_many_bridge (op nx nn q : Pt) (rest : List Pt) (pv : Pt) :
    isVerySmallTriangle (op :: nx :: nn :: q :: rest) =
      Gen.IsVerySmallTriangle (op_next_next := 3) (op_prev := rest.length + 4) (op_next_pt_x := nx.x) (op_next_pt_y := nx.y)
        (op_prev_pt_x := pv.x) (op_prev_pt_y := pv.y) (op_pt_x := op.x) (op_pt_y := op.y) := by
  simp [isVerySmallTriangle, Gen.IsVerySmallTriangle]

/-- `IsValidClosedPath(op)` for a null pointer -/
theorem isValidClosedPath_nil_bridge (a n nn p : Nat) (x1 y1 x2 y2 x3 y3 : Int) :
    isValidClosedPath [] =
      Gen.IsValidClosedPath (op_addr := a) (op_next := n) (op_next_next := nn) (op_next_pt_x := x1) (op_next_pt_y := y1)
        (op_nonnull := false) (op_prev := p) (op_prev_pt_x := x2) (op_prev_pt_y := y2) (op_pt_x := x3) (op_pt_y := y3) := by
  simp [isValidClosedPath, Gen.IsValidClosedPath]

/-- C++ `IsValidClosedPath(op)` = hand `Model.CleanUp.isValidClosedPath`, ring of one node -/
theorem isValidClosedPath_one_bridge (op : Pt) :
    isValidClosedPath [op] =
      Gen.IsValidClosedPath (op_addr := 1) (op_next := 1) (op_next_next := 1) (op_next_pt_x := op.x) (op_next_pt_y := op.y)
        (op_nonnull := true) (op_prev := 1) (op_prev_pt_x := op.x) (op_prev_pt_y := op.y) (op_pt_x := op.x) (op_pt_y := op.y) := by
  simp [isValidClosedPath, Gen.IsValidClosedPath]

/-- … ring of two nodes -/
theorem isValidClosedPath_two_bridge (op nx : Pt) :
    isValidClosedPath [op, nx] =
      Gen.IsValidClosedPath (op_addr := 1) (op_next := 2) (op_next_next := 1) (op_next_pt_x := nx.x) (op_next_pt_y := nx.y)
        (op_nonnull := true) (op_prev := 2) (op_prev_pt_x := nx.x) (op_prev_pt_y := nx.y) (op_pt_x := op.x) (op_pt_y := op.y) := by
  simp [isValidClosedPath, Gen.IsValidClosedPath]

/-- … ring of three nodes -/
theorem isValidClosedPath_three_bridge (op nx pv : Pt) :
    isValidClosedPath [op, nx, pv] =
      Gen.IsValidClosedPath (op_addr := 1) (op_next := 2) (op_next_next := 3) (op_next_pt_x := nx.x) (op_next_pt_y := nx.y)
        (op_nonnull := true) (op_prev := 3) (op_prev_pt_x := pv.x) (op_prev_pt_y := pv.y) (op_pt_x := op.x) (op_pt_y := op.y) := by
  simp [isValidClosedPath, isVerySmallTriangle, Gen.IsValidClosedPath, Gen.IsVerySmallTriangle, ptsReallyClose]

/-- … ring of four or more nodes -/
theorem isValidClosedPath_many_bridge (op nx nn q : Pt) (rest : List Pt) (pv : Pt) :
    isValidClosedPath (op :: nx :: nn :: q :: rest) =
      Gen.IsValidClosedPath (op_addr := 1) (op_next := 2) (op_next_next := 3) (op_next_pt_x := nx.x) (op_next_pt_y := nx.y)
        (op_nonnull := true) (op_prev := rest.length + 4) (op_prev_pt_x := pv.x) (op_prev_pt_y := pv.y) (op_pt_x := op.x) (op_pt_y := op.y) := by
  simp [isValidClosedPath, isVerySmallTriangle, Gen.IsValidClosedPath, Gen.IsVerySmallTriangle]

/-- the guard of `BuildPath64` against the first three cases of hand `buildPath64` -/
theorem buildPath64_guard_bridge (ring : Ring) (reverse isOpen : Bool) (a n p : Nat) (nn : Bool)
    (h0 : ring = [] → nn = false)
    (h1 : ring ≠ [] → nn = true ∧ a = 1 ∧ n = (if ring.length = 1 then 1 else 2) ∧ p = ring.length) :
    Gen.BuildPath64_guard (isOpen := isOpen) (op_addr := a) (op_next := n) (op_nonnull := nn) (op_prev := p) = true →
      buildPath64 ring reverse isOpen = none := by
  intro hg
  match ring, h0, h1 with
  | [], h0, _ => rfl
  | [_], _, _ => rfl
  | op :: q :: rest, _, h1 =>
    obtain ⟨hnn, ha, hn, hp⟩ := h1 (by simp)
    subst hnn ha hn hp
    simp [Gen.BuildPath64_guard] at hg
    cases rest with
    | nil => simp [buildPath64, hg]
    | cons r rs => simp at hg
/-- C++ `CleanCollinear`, the removal test of its loop (`IsCollinear(prev, op2, next) && (op2 == prev || op2 == next ||
!preserve_collinear_ || DotProduct(prev, op2, next) < 0)`) = hand `Model.CleanUp.removable`; the `double` `DotProduct` is the hand
model's integer `dot` (only its sign is used, and only for collinear points, where it is exact: see `Model/CleanUp.lean`) -/
theorem removable_bridge (pc : Bool) (prev cur next : Pt) :
    Gen.CleanCollinear_removable (D := Int) (DotProduct := fun a b c d e f => dot ⟨a, b⟩ ⟨c, d⟩ ⟨e, f⟩)
      (op2_prev_pt_x := prev.x) (op2_prev_pt_y := prev.y) (op2_pt_x := cur.x) (op2_pt_y := cur.y)
      (op2_next_pt_x := next.x) (op2_next_pt_y := next.y) (preserve_collinear_ := pc) = removable pc prev cur next := by
  have pe (a b : Pt) : (a == b) = (decide (a.x = b.x) && decide (a.y = b.y)) := by
    cases a; cases b; simp [BEq.beq, Bool.decide_and]
  simp [Gen.CleanCollinear_removable, removable, isCollinear, pe]

end CleanUp

/-! ## clipper.engine.cpp: `TrimHorz` (`Model/TrimHorz.lean`) -/

open Clipper.Model.TrimHorz in
/-- C++ `TrimHorz`: the `while` condition and the `if (preserveCollinear && …) break;` test are the two tests of hand
`Model.TrimHorz.loop` -/
theorem trimHorz_loop_bridge (pc : Bool) (botX topX topY : Int) (adv : Nat) (v : V) (rest : List V) :
    loop pc botX topX topY adv (v :: rest) =
      if !Gen.TrimHorz_cond (horzEdge_top_y := topY) (pt_y := v.y) then ⟨topX, topY, adv, false⟩
      else if Gen.TrimHorz_break (preserveCollinear := pc) (horzEdge_bot_x := botX) (horzEdge_top_x := topX) (pt_x := v.x)
        then ⟨topX, topY, adv, false⟩
      else if v.isMax then ⟨v.x, v.y, adv + 1, false⟩
      else loop pc botX v.x v.y (adv + 1) rest := by
  simp only [loop, Gen.TrimHorz_cond, Gen.TrimHorz_break]
  by_cases h1 : v.y = topY <;> cases pc <;> by_cases h2 : v.x < topX <;> by_cases h3 : botX < topX <;> simp [h1, h2, h3]

end Clipper.Props.Bridges
