/-
C15, Z accounting for OPEN paths: theorems on `Model/AelOpenRingsZ.lean`, the Z layer of the open-path assembly model (`Model/AelOpenRings.lean`, C05), tied to a
USINGZ build of the real engine by replaying hook traces with every open output record compared triple for triple, the real `solution_open` with z, and the callback
log (`harness/aelopenringsz.h`, `harness/C15openrings.cpp`, driver command `AELOPENRINGSZ`).

Proved for **every** event list from the empty state, every callback family, every `DefaultZ`, every clip type and fill rule:

* `eraseOZ_step`, `eraseOZ_run` — forgetting the Z parts, a step / run *is* the step / run of the open model on the events with z forgotten;
  `zo_records_agree` — forgetting the z of every point, the open Z records are the open model's records (and the closed Z rings the ring model's rings, also in
  sweeps with open paths), logs included: the theorems of `Props/C05Rings.lean` hold for the x, y of the open Z records.
* `open_record_z_provenance` — every triple of every open record is (a) the triple an event handed over by value: the input vertex with the input's z for a path end
  (`StartOpenPath` in `InsertLocalMinimaIntoAEL`, `AddOutPt(e, e.top)` at `IsOpenEnd`), a local minimum / maximum inside the path, a passed vertex; or (b) `setZ` of the `pt`
  of an `IntersectEdges` event **with the open edge as `e1`** (the event's end points as they stand if the open edge is the left one, exchanged otherwise) and the callback's
  `k`-th call — only if a callback is installed; without one the `pt` is stored as handed over.
* `open_solution_z_provenance` — the same for every vertex of the open solution that `BuildPath64` returns (open paths are not cleaned up: the returned triples are
  triples of the records); `open_solution_erase` — and forgetting z it is the open solution of the open model.
* `open_records_conserve_triples` — conservation of triples for the open records; `callback_log_sound_open` — one callback counter runs through closed and open
  emissions: the calls are numbered consecutively, every answer is the family's answer to the recorded arguments.

Not covered: `BuildPathD`'s extra test is modelled as it is (recorded finding kf.d-api.ClipperD.open-3pt: `ClipperD` drops open 3-`OutPt` records with two points closer than 2
scaled units), no theorem is claimed about it; `PolyTree` output uses the same `BuildPath64`.
-/
import ClipperVerif.Lemmas.AelOpenRingsZ
import ClipperVerif.Props.C15Rings
import ClipperVerif.Props.C05Rings
namespace Clipper.Props.C15OpenRings
open Clipper Clipper.Model Clipper.Model.ZFill

/-! ## (1) the Z model refines the open model -/

/-- **eraseOZ_step.** Forgetting the Z parts, an accepted event is the same event (z forgotten) of the open model `Model.stepO`; the closed Z rings change by `Model.outStepZ`,
the open Z records by `Model.openStepZ`, both computed from the state before the event, the callback counter running through both. -/
theorem eraseOZ_step (cfg : Cfg) (zc : ZCfg) (st st' : ZOState) (op : ZOOp) (h : stepOZ cfg zc st op = .ok st') :
    stepO cfg st.o op.erase = .ok st'.o ∧
    st'.zo = openStepZ cfg zc st.o.x (st.zo.withCounter (outStepZ cfg zc st.o.r.s st.z op.toZOp)) op ∧
    st'.z = (outStepZ cfg zc st.o.r.s st.z op.toZOp).withCounter st'.zo := by
  unfold stepOZ at h
  cases hs : stepO cfg st.o op.erase with
  | ok o' => simp only [hs] at h; cases h; exact ⟨rfl, rfl, rfl⟩
  | error e => simp [hs] at h

/-- **eraseOZ_run.** A run of the Z model projects to a run of the open model on the events with z forgotten. -/
theorem eraseOZ_run (cfg : Cfg) (zc : ZCfg) (ops : List ZOOp) : ∀ (st st' : ZOState), runOZ cfg zc st ops = .ok st' →
    runO cfg st.o (ops.map ZOOp.erase) = .ok st'.o := by
  induction ops with
  | nil => intro st st' h; simp only [runOZ] at h; cases h; rfl
  | cons op ops ih =>
    intro st st' h
    simp only [runOZ] at h
    cases hs : stepOZ cfg zc st op with
    | error e => simp [hs] at h
    | ok st1 =>
      simp only [hs] at h
      have h1 := (eraseOZ_step cfg zc st st1 op hs).1
      simp only [List.map_cons, runO, h1]
      exact ih st1 st' h

/-- the ring model sees the same event whether it is reached through the open model or through the closed Z layer -/
theorem outStep_erase_eq (cfg : Cfg) (s : SState) (o : Out) (op : ZOOp) : outStep cfg s o op.erase.erase = outStep cfg s o op.toZOp.erase := by
  cases op <;> rfl

/-! ## (2) the invariants along every run -/

/-- how an open-layer log entry arose: as `Model.EmitFromU` (the open layer never starts a record by value inside `IntersectEdges`), `SetZ` having been called with the open edge first -/
def FromOpenEvents (zc : ZCfg) (E : List ZOOp) (e : ZEmit) : Prop :=
  ∃ op ∈ E, EmitFromU zc op.isX op.ends op.ptz e ∨ EmitFromU zc op.isX op.ends.swap op.ptz e

structure ZOInv (zc : ZCfg) (E : List ZOOp) (st : ZOState) : Prop where
  agreeC : Agree st.z st.o.r.o
  agreeO : Agree st.zo st.o.x.oo
  sync : st.z.ncb = st.zo.ncb ∧ st.z.calls = st.zo.calls
  permO : PermZOK st.zo
  provO : ProvOK st.zo
  calls : CallsOK zc st.zo
  callsC : ∀ e ∈ st.z.log, ∀ k, e.src = .setz k → k < st.z.ncb
  fromO : ∀ e ∈ st.zo.log, FromOpenEvents zc E e

theorem zoinv_empty (zc : ZCfg) : ZOInv zc [] ZOState.empty := by
  refine ⟨⟨rfl, rfl⟩, ⟨rfl, rfl⟩, ⟨rfl, rfl⟩, ?_, ?_, ⟨rfl, ?_, ?_⟩, ?_, ?_⟩
  · simp [PermZOK, ZOState.empty, ZOut.empty, allPtsZ, overOld, storedZ]
  · intro g hg; simp [ZOState.empty, ZOut.empty] at hg
  · intro c hc; simp [ZOState.empty, ZOut.empty] at hc
  · intro e he; simp [ZOState.empty, ZOut.empty] at he
  · intro e he; simp [ZOState.empty, ZOut.empty] at he
  · intro e he; simp [ZOState.empty, ZOut.empty] at he

theorem isX_toZOp (op : ZOOp) : op.toZOp.isX = op.isX := by cases op <;> rfl
theorem ends_toZOp (op : ZOOp) : op.toZOp.ends = op.ends := by cases op <;> rfl

theorem zoinv_step (cfg : Cfg) (zc : ZCfg) (E : List ZOOp) (st st' : ZOState) (op : ZOOp) (h : ZOInv zc E st) (hs : stepOZ cfg zc st op = .ok st') :
    ZOInv zc (op :: E) st' := by
  obtain ⟨h1, h2, h3⟩ := eraseOZ_step cfg zc st st' op hs
  obtain ⟨hR, hX⟩ := C05Rings.erase_open_rings_step cfg st.o st'.o op.erase h1
  have ho : st'.o.r.o = outStep cfg st.o.r.s st.o.r.o op.toZOp.erase := by
    rw [← outStep_erase_eq]; exact (C01Rings.erase_ring_step cfg st.o.r st'.o.r op.erase.erase hR).2
  -- the closed layer's Z effect
  have hz1 := rel_outStepZ cfg zc st.o.r.s st.z st.o.r.o op.toZOp
  have monoC : st.z.ncb ≤ (outStepZ cfg zc st.o.r.s st.z op.toZOp).ncb :=
    hz1 _ (ncbMono_prim st.z.ncb zc _ _ _ _) (Nat.le_refl _)
  have callsC1 : CallsOK zc (outStepZ cfg zc st.o.r.s st.z op.toZOp) := by
    have hc : CallsOK zc st.z := ⟨by rw [h.sync.1, h.sync.2]; exact h.calls.1, by rw [h.sync.2]; exact h.calls.2.1, h.callsC⟩
    exact hz1 _ (callsOK_prim zc _ _ _ _) hc
  -- the open layer starts from the closed layer's counter
  have calls0 : CallsOK zc (st.zo.withCounter (outStepZ cfg zc st.o.r.s st.z op.toZOp)) :=
    callsOK_withCounter zc _ _ callsC1 (fun e he k hk => Nat.lt_of_lt_of_le (h.calls.2.2 e he k hk) (by rw [← h.sync.1]; exact monoC))
  have lift : ∀ (S : Bool) (R : ZOut → Out → Prop), PrimRel zc op.isX S op.ends op.ptz R → PrimRel zc op.isX S op.ends.swap op.ptz R →
      R (st.zo.withCounter (outStepZ cfg zc st.o.r.s st.z op.toZOp)) st.o.x.oo → R st'.zo st'.o.x.oo := by
    intro S R p1 p2 hr
    rw [h2]; exact rel_openStepZ cfg zc S st.o.x st'.o.x _ op R p1 p2 hX hr
  have monoO : (outStepZ cfg zc st.o.r.s st.z op.toZOp).ncb ≤ st'.zo.ncb :=
    lift true _ (ncbMono_prim _ zc _ _ _ _) (ncbMono_prim _ zc _ _ _ _) (Nat.le_refl _)
  refine ⟨?_, ?_, ?_, ?_, ?_, ?_, ?_, ?_⟩
  · -- closed rings
    rw [h3]
    have := hz1 Agree (by rw [isX_toZOp, ends_toZOp]; exact agree_prim zc _ _ _ _) h.agreeC
    rw [ho]; exact this
  · exact lift true Agree (agree_prim zc _ _ _ _) (agree_prim zc _ _ _ _) h.agreeO
  · rw [h3]; exact ⟨rfl, rfl⟩
  · exact lift true _ (permZOK_prim zc _ _ _ _) (permZOK_prim zc _ _ _ _) h.permO
  · exact lift true _ (provOK_prim zc _ _ _ _) (provOK_prim zc _ _ _ _) h.provO
  · exact lift true _ (callsOK_prim zc _ _ _ _) (callsOK_prim zc _ _ _ _) calls0
  · intro e he k hk
    rw [h3] at he ⊢
    exact Nat.lt_of_lt_of_le (callsC1.2.2 e he k hk) monoO
  · -- provenance of the open log
    let R : ZOut → Out → Prop := fun z _ => ∀ e ∈ z.log, (e ∈ st.zo.log ∨ EmitFromU zc op.isX op.ends.swap op.ptz e) ∨ EmitFromU zc op.isX op.ends op.ptz e
    have p1 : PrimRel zc op.isX false op.ends op.ptz R := logFromUG_prim (fun e => e ∈ st.zo.log ∨ EmitFromU zc op.isX op.ends.swap op.ptz e) zc _ _ _
    have p2 : PrimRel zc op.isX false op.ends.swap op.ptz R :=
      primRel_congr (R := fun z _ => LogFromUG (fun e => e ∈ st.zo.log ∨ EmitFromU zc op.isX op.ends op.ptz e) zc op.isX op.ends.swap op.ptz z)
        (by
          intro z o
          constructor
          · intro hh e he
            rcases hh e he with (h' | h') | h'
            · exact Or.inl (Or.inl h')
            · exact Or.inr h'
            · exact Or.inl (Or.inr h')
          · intro hh e he
            rcases hh e he with (h' | h') | h'
            · exact Or.inl (Or.inl h')
            · exact Or.inr h'
            · exact Or.inl (Or.inr h'))
        (logFromUG_prim _ zc _ _ _)
    have := lift false R p1 p2 (fun e he => Or.inl (Or.inl he))
    intro e he
    rcases this e he with (h' | h') | h'
    · obtain ⟨op', hop', hf⟩ := h.fromO e h'
      exact ⟨op', List.mem_cons_of_mem _ hop', hf⟩
    · exact ⟨op, List.mem_cons_self, Or.inr h'⟩
    · exact ⟨op, List.mem_cons_self, Or.inl h'⟩

theorem zoinv_run (cfg : Cfg) (zc : ZCfg) (ops : List ZOOp) : ∀ (E : List ZOOp) (st st' : ZOState), ZOInv zc E st → runOZ cfg zc st ops = .ok st' →
    ZOInv zc (ops.reverse ++ E) st' := by
  induction ops with
  | nil => intro E st st' h hr; simp only [runOZ] at hr; cases hr; simpa using h
  | cons op ops ih =>
    intro E st st' h hr
    simp only [runOZ] at hr
    cases hs : stepOZ cfg zc st op with
    | error e => simp [hs] at hr
    | ok st1 =>
      simp only [hs] at hr
      have := ih (op :: E) st1 st' (zoinv_step cfg zc E st st1 op h hs) hr
      simpa [List.append_assoc] using this

theorem zoinv_reachable (cfg : Cfg) (zc : ZCfg) (ops : List ZOOp) (st : ZOState) (hr : runOZ cfg zc ZOState.empty ops = .ok st) : ZOInv zc ops.reverse st := by
  have := zoinv_run cfg zc ops [] ZOState.empty st (zoinv_empty zc) hr
  simpa using this

/-! ## (3) the property theorems -/

/-- **zo_records_agree.** In every reachable state, forgetting the z of every point: the open Z records are the open records of the open model (same records, same state, same points
in the same order) with its emission log; the closed Z rings are the rings of the ring model with its log — also in sweeps with open paths. -/
theorem zo_records_agree (cfg : Cfg) (zc : ZCfg) (ops : List ZOOp) (st : ZOState) (hr : runOZ cfg zc ZOState.empty ops = .ok st) :
    (st.zo.rings.map ZRing.erase = st.o.x.oo.rings.map Ring.core ∧ st.zo.log.map ZEmit.erase = st.o.x.oo.log) ∧
    (st.z.rings.map ZRing.erase = st.o.r.o.rings.map Ring.core ∧ st.z.log.map ZEmit.erase = st.o.r.o.log) :=
  ⟨(zoinv_reachable cfg zc ops st hr).agreeO, (zoinv_reachable cfg zc ops st hr).agreeC⟩

/-- **open_record_z_provenance.** Every triple `q` of every open output record is the triple of a log entry that stored it, made by one of the events `op`:
* by value: `q = op.ptz`, the triple the event was handed, z included (path ends, local minima / maxima inside the path, passed vertices: input vertices with the input's z;
  an `IntersectEdges` event only if no callback is installed);
* through `SetZ`: `op` is an `IntersectEdges` event (`intersect` or `locMinX`) with point `pt` and edge end points `ends`, a callback family `F` is installed, and
  `q = setZ (some (F k)) subj o.e1bot o.e1top o.e2bot o.e2top pt DefaultZ` where `o = ends` or `o = ends.swap`: `SetZ(*edge_o, *edge_c, …)` passes the open edge as `e1`. -/
theorem open_record_z_provenance (cfg : Cfg) (zc : ZCfg) (ops : List ZOOp) (st : ZOState) (hr : runOZ cfg zc ZOState.empty ops = .ok st)
    (g : ZRing) (hg : g ∈ st.zo.rings) (q : PtZ) (hq : q ∈ g.pts) :
    ∃ op ∈ ops,
      (q = op.ptz ∧ (op.isX = true → zc.cb = none)) ∨
      (op.isX = true ∧ ∃ F k subj o, zc.cb = some F ∧ (o = op.ends ∨ o = op.ends.swap) ∧
        q = setZ (some (F k)) subj o.e1bot o.e1top o.e2bot o.e2top op.ptz zc.defaultZ) := by
  have h := zoinv_reachable cfg zc ops st hr
  obtain ⟨e, he, _, h2⟩ := h.provO g hg q hq
  obtain ⟨op, hop, hf⟩ := h.fromO e he
  refine ⟨op, by simpa using hop, ?_⟩
  have key : ∀ o, EmitFromU zc op.isX o op.ptz e →
      (q = op.ptz ∧ (op.isX = true → zc.cb = none)) ∨
      (op.isX = true ∧ ∃ F k subj, zc.cb = some F ∧ q = setZ (some (F k)) subj o.e1bot o.e1top o.e2bot o.e2top op.ptz zc.defaultZ) := by
    intro o hf
    rcases hf with ⟨_, f2, f3⟩ | ⟨hX, F, k, subj, hF, _, f3⟩
    · left; exact ⟨by rw [← h2, f2], f3⟩
    · right; exact ⟨hX, F, k, subj, hF, by rw [← h2, f3]⟩
  rcases hf with hf | hf
  · rcases key _ hf with h' | ⟨hX, F, k, subj, hF, hq'⟩
    · exact Or.inl h'
    · exact Or.inr ⟨hX, F, k, subj, _, hF, Or.inl rfl, hq'⟩
  · rcases key _ hf with h' | ⟨hX, F, k, subj, hF, hq'⟩
    · exact Or.inl h'
    · exact Or.inr ⟨hX, F, k, subj, _, hF, Or.inr rfl, hq'⟩

/-- **open_solution_z_provenance.** Every vertex `q` of every path of the open solution (`BuildPath64` / `BuildPathD` on the open records, either orientation) is a triple of an open
record — `BuildPath64` copies `pt` with its z and only skips points; open paths are not cleaned up — and therefore accounted for as in `open_record_z_provenance`:
the triple an event handed over by value (with no callback also the `pt` of an `IntersectEdges`), or `setZ` of an `IntersectEdges` event's point, open edge first. -/
theorem open_solution_z_provenance (cfg : Cfg) (zc : ZCfg) (ops : List ZOOp) (st : ZOState) (hr : runOZ cfg zc ZOState.empty ops = .ok st)
    (rev dApi : Bool) (path : List PtZ) (hp : path ∈ openSolutionZ rev dApi st.zo.rings) (q : PtZ) (hq : q ∈ path) :
    ∃ op ∈ ops,
      (q = op.ptz ∧ (op.isX = true → zc.cb = none)) ∨
      (op.isX = true ∧ ∃ F k subj o, zc.cb = some F ∧ (o = op.ends ∨ o = op.ends.swap) ∧
        q = setZ (some (F k)) subj o.e1bot o.e1top o.e2bot o.e2top op.ptz zc.defaultZ) := by
  unfold openSolutionZ at hp
  obtain ⟨g, hg, hb⟩ := List.mem_filterMap.mp hp
  exact open_record_z_provenance cfg zc ops st hr g hg q (buildOpenPathZ_mem rev dApi g.pts path hb q hq)

/-- **open_solution_accounting** — the Z clause of C15 for the open solution, with a callback `F` installed: every vertex of every returned open path either is, z included, the
triple a vertex event supplied (an input vertex of an open path with its z), or was passed to the callback by an `IntersectEdges` event and carries its answer: the callback's
`k`-th call received `(sb, st, cb, ct)` = the end points of the two edges, **the open (subject) edge first** unless `subj` is false, and the point `seen` with the x, y of the
crossing and the z of the first of them the crossing coincides with, else `DefaultZ`. -/
theorem open_solution_accounting (cfg : Cfg) (zc : ZCfg) (F : Nat → Callback) (hF : zc.cb = some F) (ops : List ZOOp) (st : ZOState)
    (hr : runOZ cfg zc ZOState.empty ops = .ok st) (rev dApi : Bool) (path : List PtZ) (hp : path ∈ openSolutionZ rev dApi st.zo.rings) (q : PtZ) (hq : q ∈ path) :
    ∃ op ∈ ops,
      (op.isX = false ∧ q = op.ptz) ∨
      (op.isX = true ∧ ∃ k sb st' cb ct seen,
        ((sb, st', cb, ct) = (op.ends.e1bot, op.ends.e1top, op.ends.e2bot, op.ends.e2top) ∨ (sb, st', cb, ct) = (op.ends.e2bot, op.ends.e2top, op.ends.e1bot, op.ends.e1top)) ∧
        C15Rings.Shown zc.defaultZ sb st' cb ct op.ptz seen ∧ q.x = op.ptz.x ∧ q.y = op.ptz.y ∧ q.z = F k sb st' cb ct seen) := by
  obtain ⟨op, hop, h⟩ := open_solution_z_provenance cfg zc ops st hr rev dApi path hp q hq
  refine ⟨op, hop, ?_⟩
  rcases h with ⟨h1, h2⟩ | ⟨hX, F', k, subj, o, hF', ho, h3⟩
  · left
    refine ⟨?_, h1⟩
    cases hX : op.isX with
    | false => rfl
    | true => rw [h2 hX] at hF; cases hF
  · right
    rw [hF] at hF'; cases hF'
    refine ⟨hX, k, ?_⟩
    have spec := Clipper.Props.C15.setZ_spec (F k) subj o.e1bot o.e1top o.e2bot o.e2top op.ptz zc.defaultZ
    have sw : op.ends.swap = ⟨op.ends.e2bot, op.ends.e2top, op.ends.e1bot, op.ends.e1top⟩ := rfl
    cases subj with
    | true =>
      simp only [if_true] at spec
      refine ⟨o.e1bot, o.e1top, o.e2bot, o.e2top, _, ?_, C15Rings.shown_pickZ _ _ _ _ _ op.ptz, by rw [h3, spec], by rw [h3, spec], by rw [h3, spec]⟩
      rcases ho with rfl | rfl
      · exact Or.inl rfl
      · exact Or.inr rfl
    | false =>
      simp only [Bool.false_eq_true, if_false] at spec
      refine ⟨o.e2bot, o.e2top, o.e1bot, o.e1top, _, ?_, C15Rings.shown_pickZ _ _ _ _ _ op.ptz, by rw [h3, spec], by rw [h3, spec], by rw [h3, spec]⟩
      rcases ho with rfl | rfl
      · exact Or.inr rfl
      · exact Or.inl rfl

/-- **open_solution_erase.** Forgetting z, the open solution built from the Z records by `BuildPath64` is the open solution the open model builds (`Model.openSolution`, which
`Props/C05Rings.lean` characterises and `AELOPENRINGS` compares with the real one). -/
theorem open_solution_erase (cfg : Cfg) (zc : ZCfg) (ops : List ZOOp) (st : ZOState) (hr : runOZ cfg zc ZOState.empty ops = .ok st) (rev : Bool) :
    (openSolutionZ rev false st.zo.rings).map (·.map xy) = openSolution rev st.o.x.oo.rings := by
  have ha := (zo_records_agree cfg zc ops st hr).1.1
  have key : ∀ (zl : List ZRing) (ol : List Ring), zl.map ZRing.erase = ol.map Ring.core →
      (openSolutionZ rev false zl).map (·.map xy) = openSolution rev ol := by
    intro zl
    induction zl with
    | nil =>
      intro ol h
      cases ol with
      | nil => rfl
      | cons _ _ => simp at h
    | cons g gs ih =>
      intro ol h
      cases ol with
      | nil => simp at h
      | cons r rs =>
        simp only [List.map_cons, List.cons.injEq, ZRing.erase, Ring.core, Prod.mk.injEq] at h
        obtain ⟨⟨_, hp⟩, ht⟩ := h
        have e := buildOpenPathZ_erase rev g.pts
        rw [hp] at e
        simp only [openSolutionZ, openSolution, List.filterMap_cons]
        have ih' := ih rs ht
        simp only [openSolutionZ, openSolution] at ih'
        cases hb : buildOpenPathZ rev false g.pts with
        | none =>
          rw [hb] at e
          simp only [Option.map_none] at e
          simp only [← e]
          exact ih'
        | some path =>
          rw [hb] at e
          simp only [Option.map_some] at e
          simp only [← e, List.map_cons]
          rw [ih']
  exact key _ _ ha

/-- **open_records_conserve_triples.** Conservation of `(x, y, z)` triples for the open records: the triples in all open records together with those `SetZ` overwrote are, as a multiset,
exactly the triples stored; `JoinOutrecPaths` on open records, `SetSides` and the release of record ends write no z. -/
theorem open_records_conserve_triples (cfg : Cfg) (zc : ZCfg) (ops : List ZOOp) (st : ZOState) (hr : runOZ cfg zc ZOState.empty ops = .ok st) :
    (allPtsZ st.zo.rings ++ (st.zo.log.filter (fun e => e.kind == .over)).map (·.old)).Perm ((st.zo.log.filter ZEmit.stored).map (·.ptz)) :=
  (zoinv_reachable cfg zc ops st hr).permO

/-- **callback_log_sound_open.** One callback counter runs through the closed and the open emissions: in every reachable state both Z outputs carry the same counter and log, the
calls are numbered `ncb-1, …, 0`, every recorded answer is the family's answer to the recorded arguments, and every `setz k` entry of either log refers to a call made. -/
theorem callback_log_sound_open (cfg : Cfg) (zc : ZCfg) (ops : List ZOOp) (st : ZOState) (hr : runOZ cfg zc ZOState.empty ops = .ok st) :
    st.z.ncb = st.zo.ncb ∧ st.z.calls = st.zo.calls ∧
    st.zo.calls.map (·.k) = (List.range st.zo.ncb).reverse ∧
    (∀ c ∈ st.zo.calls, ∃ F, zc.cb = some F ∧ c.ret = F c.k c.a c.b c.c c.d c.seen) ∧
    (∀ e ∈ st.zo.log ++ st.z.log, ∀ k, e.src = .setz k → k < st.zo.ncb) := by
  have h := zoinv_reachable cfg zc ops st hr
  refine ⟨h.sync.1, h.sync.2, h.calls.1, h.calls.2.1, ?_⟩
  intro e he k hk
  rcases List.mem_append.mp he with he | he
  · exact h.calls.2.2 e he k hk
  · rw [← h.sync.1]; exact h.callsC e he k hk

/-! ## (4) the executable checker -/

theorem checkAgreeO_sound (st : ZOState) (h : checkAgreeO st = true) : Agree st.zo st.o.x.oo ∧ Agree st.z st.o.r.o ∧ st.z.ncb = st.zo.ncb := by
  unfold checkAgreeO at h
  simp only [Bool.and_eq_true, beq_iff_eq] at h
  exact ⟨⟨h.1.1.1.1, h.1.1.1.2⟩, ⟨h.1.1.2, h.1.2⟩, h.2⟩

/-! ## (5) non-vacuity: the event list of a real trace (`harness/C15openrings.cpp`, corpus.segment-through-square), with z labels -/

/-- clip quadrilateral (0,0,z=3) (100,3,6) (103,101,9) (2,98,12), open subject segment (-50,40,z=21) → (160,61,24): the events of the real sweep -/
def segmentThroughSquare : List ZOOp :=
  [ .ev (.insertPair 0 .clip false 1 ⟨103, 101, 9⟩),
    .ev (.update 0 ⟨2, 98, 12⟩),
    .insertOne 2 .subject (-1) ⟨160, 61, 24⟩,
    .ev (.intersect 1 ⟨101, 55, 0⟩ ⟨⟨103, 101, 9⟩, ⟨100, 3, 6⟩, ⟨160, 61, 24⟩, ⟨-50, 40, 21⟩⟩),
    .ev (.intersect 0 ⟨0, 45, 0⟩ ⟨⟨2, 98, 12⟩, ⟨0, 0, 3⟩, ⟨160, 61, 24⟩, ⟨-50, 40, 21⟩⟩),
    .removeOne 0 ⟨-50, 40, 21⟩,
    .ev (.update 1 ⟨100, 3, 6⟩),
    .ev (.removePair 0 ⟨0, 0, 3⟩) ]

def solutionOf (zc : ZCfg) (ct : ClipType) (rev : Bool) : Option (List (List PtZ)) :=
  (runOZ ⟨ct, .nonZero⟩ zc ZOState.empty segmentThroughSquare).toOption.map (fun st => openSolutionZ rev false st.zo.rings)

/-- Intersection with the counting callback: the inside piece, both ends made by the callback (calls 0 and 1); the callback was shown the open edge's end points first although
the open edge is the *right* one of the two at both crossings -/
example : solutionOf C15Rings.fresh .intersection false = some [[⟨0, 45, 1001⟩, ⟨101, 55, 1000⟩]] := by decide
example : (runOZ ⟨.intersection, .nonZero⟩ C15Rings.fresh ZOState.empty segmentThroughSquare).toOption.map (fun st => st.zo.calls.map (fun c => (c.k, c.a, c.b, c.c, c.d))) =
    some [(1, ⟨160, 61, 24⟩, ⟨-50, 40, 21⟩, ⟨2, 98, 12⟩, ⟨0, 0, 3⟩), (0, ⟨160, 61, 24⟩, ⟨-50, 40, 21⟩, ⟨103, 101, 9⟩, ⟨100, 3, 6⟩)] := by decide
/-- Difference: the two outside pieces; their outer ends are the input's end vertices with the input's z -/
example : solutionOf C15Rings.fresh .difference false = some [[⟨101, 55, 1000⟩, ⟨160, 61, 24⟩], [⟨-50, 40, 21⟩, ⟨0, 45, 1001⟩]] := by decide
/-- without a callback the crossings keep z = 0; `ReverseSolution` reverses the path, triples intact -/
example : solutionOf C15Rings.nocb .intersection true = some [[⟨101, 55, 0⟩, ⟨0, 45, 0⟩]] := by decide
/-- `BuildPath64` drops a point equal in x, y to the one just copied and keeps the first one's z; `BuildPathD` also drops a three-`OutPt` record with two points less than 2 apart -/
example : buildOpenPathZ true false [⟨0, 0, 1⟩, ⟨0, 0, 2⟩, ⟨5, 5, 3⟩] = some [⟨0, 0, 1⟩, ⟨5, 5, 3⟩] := by decide
example : (buildOpenPathZ false false [⟨10, 9, 1⟩, ⟨8, 12, 2⟩, ⟨11, 9, 3⟩], buildOpenPathZ false true [⟨10, 9, 1⟩, ⟨8, 12, 2⟩, ⟨11, 9, 3⟩]) =
    (some [⟨11, 9, 3⟩, ⟨8, 12, 2⟩, ⟨10, 9, 1⟩], none) := by decide

end Clipper.Props.C15OpenRings
