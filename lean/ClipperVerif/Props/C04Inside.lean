/-
C04 — PolyTree nesting: **what `Path1InsidePath2` guarantees.**

The ownership theorems of `Props/C04.lean` take the containment test as an abstract parameter `inside`.  This file is about the
executable model of that test, `Model.HorzJoins.path1InsidePath2` (`PointInOpPolygon`, `GetCleanPath`, `Path1InsidePath2` of
clipper.engine.cpp:490-596, compared with the real functions on thousands of ring pairs by the horizontal-join harness,
`HORZJOINS INSIDE`), judged against the exact even-odd rule `Spec.pipEvenOdd` of C18 (0 = on the boundary, 1 = strictly inside,
2 = strictly outside).

  * `pointInOpPolygon_is_evenOdd`       the ring-walking `PointInOpPolygon` used by the vote loop *is* the exact even-odd rule
                                        (same hypotheses as `C18Geom.pointInPolygon_exact`); for "strictly inside" / "strictly
                                        outside" no hypothesis is needed (`classify_inside`, `classify_outside`);
  * `vote_semantics`, `vote_closed_form`, `vote_undecided_iff`
                                        the vote loop as a function of the sequence of classifications of ring1's vertices in
                                        traversal order: it returns at the first vertex where `|outside_cnt|` reaches **2**
                                        (`true` iff the count is −2), else falls back; the closed form speaks of prefix scores;
  * `vote_threshold_witness`, `boundary_midpoint_witness`
                                        concrete rings on which the threshold `2` (not `1`) and "boundary counts as inside"
                                        are decisive — the two seeded changes C04r3-m1 and C04r3-m2 contradict these theorems;
  * `inside_of_all_strictly_inside`, `outside_of_all_strictly_outside` (need ≥ 2 vertices: exactly two votes);
  * `fallback_semantics`, `fallback_degenerate`, and `GetCleanPath` (`cleanPath_sublist`, `cleanPath_ne_nil`,
    `cleanPath_id_of_axisClean`, `cleanPath_keeps_collinear_witness`);
  * `inside_respects_nesting`           for rings in nesting position (all vertices of ring1 strictly on one side of ring2) the
                                        test answers true iff ring1's vertices are strictly inside ring2;
  * `tree_parent_geometric`, `tree_depth_parity_geometric`
                                        `C04.tree_parent_sound` / `C04.tree_depth_parity` instantiated with the concrete test.

Trusted base: the model `path1InsidePath2` itself (tied to the compiled function by the harness); `PointInPolygon` of the
fallback is the C18 model with exact integer `CrossProduct` (the C++ uses doubles: exact for |coordinates| ≤ 2^25).
Not proved: that removing the vertices `GetCleanPath` removes leaves the even-odd region unchanged (false for rings with
spikes, see the witness), and any Jordan-curve fact (that simple non-crossing rings *are* in nesting position).
-/
import ClipperVerif.Lemmas.Path1Inside
import ClipperVerif.Props.C04
import ClipperVerif.Props.C18Geom
namespace Clipper.Props.C04Inside
open Clipper Clipper.Model Clipper.Model.HorzJoins Clipper.Model.Owner Clipper.Lemmas.Path1Inside

/-! ## the classifier of the vote loop -/

/-- **`PointInOpPolygon` is the exact even-odd rule** for every ring with ≥ 3 vertices that has a vertex off the horizontal
line through the point (result code 0 = IsOn, 1 = IsInside, 2 = IsOutside). -/
theorem pointInOpPolygon_is_evenOdd (pt : Pt) (ring : List Pt) (hn : 3 ≤ ring.length) (hoff : ∃ v ∈ ring, v.y ≠ pt.y) :
    pipCode (pointInOpPolygon pt ring) = pipEvenOdd ring pt :=
  pointInOpPolygon_exact pt ring hn hoff

example : 3 ≤ ([⟨0,0⟩, ⟨10,0⟩, ⟨10,10⟩, ⟨0,10⟩] : List Pt).length ∧
    ∃ v ∈ ([⟨0,0⟩, ⟨10,0⟩, ⟨10,10⟩, ⟨0,10⟩] : List Pt), v.y ≠ (⟨3, 0⟩ : Pt).y := by decide

/-- strictly inside by the exact rule ⇒ classified `IsInside` (no side condition) -/
theorem classify_inside (q : Pt) (ring : List Pt) (h : pipEvenOdd ring q = 1) : pointInOpPolygon q ring = .isInside :=
  pointInOpPolygon_of_inside q ring h

/-- strictly outside by the exact rule ⇒ classified `IsOutside` (no side condition) -/
theorem classify_outside (q : Pt) (ring : List Pt) (h : pipEvenOdd ring q = 2) : pointInOpPolygon q ring = .isOutside :=
  pointInOpPolygon_of_outside q ring h

example : pipEvenOdd [⟨0,0⟩, ⟨10,0⟩, ⟨10,10⟩, ⟨0,10⟩] ⟨3, 4⟩ = 1 ∧ pipEvenOdd [⟨0,0⟩, ⟨10,0⟩, ⟨10,10⟩, ⟨0,10⟩] ⟨13, 4⟩ = 2 := by
  decide

/-! ## the vote loop -/

/-- the classifications `PointInOpPolygon(op->pt, op2)` of ring1's vertices, in traversal order starting at `op1` -/
def classes (ring1 ring2 : List Pt) : List PipResult := ring1.map (fun q => pointInOpPolygon q ring2)

/-- the fallback: `PointInPolygon(GetBounds(GetCleanPath(op1)).MidPoint(), GetCleanPath(op2)) != IsOutside` -/
def fallback (ring1 ring2 : List Pt) : Bool :=
  pointInPolygon (boundsMidPoint (getCleanPath ring1)) (getCleanPath ring2) != .isOutside

/-- **`vote_semantics`.**  `Path1InsidePath2` is the following function of the classification sequence: run
`decideVotes 0` (add `+1` per `IsOutside`, `−1` per `IsInside`, `0` per `IsOn`; stop as soon as the absolute value of the
count is no longer `< 2`, answering `count < 0`); if the sequence is exhausted first — `|outside_cnt| > 1` fails — answer
with the fallback. -/
theorem vote_semantics (ring1 ring2 : List Pt) :
    path1InsidePath2 ring1 ring2 =
      match decideVotes 0 (classes ring1 ring2) with
      | some b => b
      | none => fallback ring1 ring2 := by
  have h := insideVotes_spec ring2 ring1 0 (by decide)
  unfold path1InsidePath2 classes fallback
  simp only
  cases hd : decideVotes 0 (ring1.map (fun q => pointInOpPolygon q ring2)) with
  | some b =>
    rw [hd] at h
    simp only [h.1, if_true]; exact h.2
  | none =>
    rw [hd] at h
    simp only [h, if_false]

/-- **closed form of the vote**: the loop stops with answer `b` iff some prefix of the classification sequence has
`#outside − #inside` equal to `−2` (`b = true`) resp. `+2` (`b = false`) while every shorter prefix has `|score| < 2`. -/
theorem vote_closed_form (ring1 ring2 : List Pt) (b : Bool) :
    decideVotes 0 (classes ring1 ring2) = some b ↔
      ∃ k, k ≤ ring1.length ∧ score ((classes ring1 ring2).take k) = (if b then -2 else 2) ∧
        ∀ j, j < k → (score ((classes ring1 ring2).take j)).natAbs < 2 := by
  have := decideVotes_eq_some_iff (classes ring1 ring2) 0 (by decide) b
  simpa [classes] using this

/-- the vote is undecided (the fallback answers) iff every prefix of the classification sequence has `|score| < 2` -/
theorem vote_undecided_iff (ring1 ring2 : List Pt) :
    decideVotes 0 (classes ring1 ring2) = none ↔
      ∀ k, k ≤ ring1.length → (score ((classes ring1 ring2).take k)).natAbs < 2 := by
  have := decideVotes_eq_none_iff (classes ring1 ring2) 0 (by decide)
  simpa [classes] using this

/-- the square `[0,10]²` -/
def sq10 : List Pt := [⟨0,0⟩, ⟨10,0⟩, ⟨10,10⟩, ⟨0,10⟩]

/-- **The threshold is 2, not 1.**  ring1 starts at a vertex strictly outside the square and continues with three vertices
strictly inside: classifications `[out, in, in, in]`, counts `1, 0, −1, −2` — the answer is `true` (a single stray vertex, "a
rounding error", does not decide).  With the threshold lowered to 1 (seeded change C04r3-m1) the loop would stop after
the first vertex and answer `false`. -/
theorem vote_threshold_witness :
    classes [⟨12, 5⟩, ⟨8, 2⟩, ⟨8, 8⟩, ⟨2, 5⟩] sq10 = [.isOutside, .isInside, .isInside, .isInside] ∧
    path1InsidePath2 [⟨12, 5⟩, ⟨8, 2⟩, ⟨8, 8⟩, ⟨2, 5⟩] sq10 = true := by decide

/-! ## all vertices on one side -/

/-- every vertex of ring1 strictly inside ring2 (exact even-odd rule) -/
def AllStrictlyInside (ring1 ring2 : List Pt) : Prop := ∀ q ∈ ring1, pipEvenOdd ring2 q = 1
/-- every vertex of ring1 strictly outside ring2 -/
def AllStrictlyOutside (ring1 ring2 : List Pt) : Prop := ∀ q ∈ ring1, pipEvenOdd ring2 q = 2

/-- the first two votes decide: two vertices strictly inside ⇒ `true` -/
theorem inside_of_first_two_inside (q1 q2 : Pt) (rest ring2 : List Pt)
    (h1 : pipEvenOdd ring2 q1 = 1) (h2 : pipEvenOdd ring2 q2 = 1) :
    path1InsidePath2 (q1 :: q2 :: rest) ring2 = true := by
  rw [vote_semantics]
  simp [classes, decideVotes, classify_inside _ _ h1, classify_inside _ _ h2, voteOf]

/-- the first two votes decide: two vertices strictly outside ⇒ `false` -/
theorem outside_of_first_two_outside (q1 q2 : Pt) (rest ring2 : List Pt)
    (h1 : pipEvenOdd ring2 q1 = 2) (h2 : pipEvenOdd ring2 q2 = 2) :
    path1InsidePath2 (q1 :: q2 :: rest) ring2 = false := by
  rw [vote_semantics]
  simp [classes, decideVotes, classify_outside _ _ h1, classify_outside _ _ h2, voteOf]

/-- **`inside_of_all_strictly_inside`.**  If every vertex of ring1 is strictly inside polygon ring2 (exact even-odd rule)
and ring1 has at least **two** vertices — the vote loop needs exactly two concordant votes — the test answers `true`.
No hypothesis on ring2 (a point can only be strictly inside a ring with ≥ 3 vertices not on one horizontal line). -/
theorem inside_of_all_strictly_inside (ring1 ring2 : List Pt) (h2 : 2 ≤ ring1.length)
    (h : AllStrictlyInside ring1 ring2) : path1InsidePath2 ring1 ring2 = true := by
  match ring1, h2 with
  | q1 :: q2 :: rest, _ =>
    exact inside_of_first_two_inside q1 q2 rest ring2 (h q1 (by simp)) (h q2 (by simp))

/-- **`outside_of_all_strictly_outside`.**  If every vertex of ring1 is strictly outside ring2 and ring1 has at least
**two** vertices, the test answers `false`.  (With a single vertex the count only reaches 1 and the fallback decides:
`one_vertex_falls_back`.) -/
theorem outside_of_all_strictly_outside (ring1 ring2 : List Pt) (h2 : 2 ≤ ring1.length)
    (h : AllStrictlyOutside ring1 ring2) : path1InsidePath2 ring1 ring2 = false := by
  match ring1, h2 with
  | q1 :: q2 :: rest, _ =>
    exact outside_of_first_two_outside q1 q2 rest ring2 (h q1 (by simp)) (h q2 (by simp))

/-- the count "2" is sharp: a one-vertex ring is never decided by the vote -/
theorem one_vertex_falls_back (q : Pt) (ring2 : List Pt) : path1InsidePath2 [q] ring2 = fallback [q] ring2 := by
  rw [vote_semantics]
  have hv := voteOf_range (pointInOpPolygon q ring2)
  have : decideVotes 0 (classes [q] ring2) = none := by
    simp only [classes, List.map_cons, List.map_nil, decideVotes]
    rw [if_pos (by omega)]
  rw [this]

example : AllStrictlyInside [⟨2, 2⟩, ⟨8, 2⟩, ⟨5, 8⟩] sq10 ∧ 2 ≤ ([⟨2, 2⟩, ⟨8, 2⟩, ⟨5, 8⟩] : List Pt).length := by
  refine ⟨?_, by decide⟩
  intro q hq
  simp only [List.mem_cons, List.not_mem_nil, or_false] at hq
  rcases hq with rfl | rfl | rfl <;> decide

example : AllStrictlyOutside [⟨12, 2⟩, ⟨18, 2⟩, ⟨15, 8⟩] sq10 := by
  intro q hq
  simp only [List.mem_cons, List.not_mem_nil, or_false] at hq
  rcases hq with rfl | rfl | rfl <;> decide

/-! ## the fallback -/

/-- **`fallback_semantics`.**  When the vote is undecided, the answer is the exact even-odd classification of the midpoint of
the bounding box of the cleaned ring1 against the cleaned ring2, **with the boundary counted as inside** (`≠ IsOutside`),
provided the cleaned ring2 has ≥ 3 vertices, one of them off the horizontal through the midpoint. -/
theorem fallback_semantics (ring1 ring2 : List Pt) (hv : decideVotes 0 (classes ring1 ring2) = none)
    (hn : 3 ≤ (getCleanPath ring2).length)
    (hoff : ∃ v ∈ getCleanPath ring2, v.y ≠ (boundsMidPoint (getCleanPath ring1)).y) :
    path1InsidePath2 ring1 ring2 =
      decide (pipEvenOdd (getCleanPath ring2) (boundsMidPoint (getCleanPath ring1)) ≠ 2) := by
  rw [vote_semantics, hv]
  simp only [fallback]
  have h := Clipper.Props.C18Geom.pointInPolygon_exact (boundsMidPoint (getCleanPath ring1)) (getCleanPath ring2) hn hoff
  rw [← h]
  cases pointInPolygon (boundsMidPoint (getCleanPath ring1)) (getCleanPath ring2) <;> simp [pipCode]

/-- … and `false` when the cleaned ring2 is degenerate (fewer than three vertices, or all on the horizontal through the
midpoint): `PointInPolygon` answers `IsOutside` there whatever the geometry. -/
theorem fallback_degenerate (ring1 ring2 : List Pt) (hv : decideVotes 0 (classes ring1 ring2) = none)
    (hdeg : (getCleanPath ring2).length < 3 ∨
      ∀ v ∈ getCleanPath ring2, v.y = (boundsMidPoint (getCleanPath ring1)).y) :
    path1InsidePath2 ring1 ring2 = false := by
  rw [vote_semantics, hv]
  simp only [fallback]
  rw [Clipper.Props.C18Geom.pointInPolygon_degenerate _ _ hdeg]
  rfl

-- non-vacuity of `fallback_degenerate`: an undecided vote against a two-point "ring"
example : decideVotes 0 (classes [⟨5, 5⟩] [⟨0, 0⟩, ⟨10, 10⟩]) = none ∧ (getCleanPath [⟨0, 0⟩, ⟨10, 10⟩]).length < 3 := by
  decide

/-- a bow-tie whose vertices alternate outside / inside the square: the vote stays equivocal (counts 1, 0, 1, 0) -/
def bowtie : List Pt := [⟨2, -3⟩, ⟨2, 3⟩, ⟨8, -3⟩, ⟨8, 3⟩]

/-- **The boundary counts as inside.**  For the bow-tie the vote is undecided, `GetCleanPath` changes neither ring, the
midpoint of ring1's bounds is `(5, 0)`, which lies *on* the boundary of the square, and the test answers `true`.  With
"boundary midpoint no longer counted" (seeded change C04r3-m2) it would answer `false`. -/
theorem boundary_midpoint_witness :
    decideVotes 0 (classes bowtie sq10) = none ∧ getCleanPath bowtie = bowtie ∧ getCleanPath sq10 = sq10 ∧
    boundsMidPoint (getCleanPath bowtie) = ⟨5, 0⟩ ∧ pipEvenOdd sq10 ⟨5, 0⟩ = 0 ∧
    path1InsidePath2 bowtie sq10 = true := by
  have h1 : decideVotes 0 (classes bowtie sq10) = none := by decide
  have h2 : getCleanPath bowtie = bowtie := by decide
  have h3 : getCleanPath sq10 = sq10 := by decide
  have h4 : boundsMidPoint (getCleanPath bowtie) = ⟨5, 0⟩ := by rw [h2]; decide
  have h5 : pipEvenOdd sq10 ⟨5, 0⟩ = 0 := by decide
  refine ⟨h1, h2, h3, h4, h5, ?_⟩
  rw [fallback_semantics bowtie sq10 h1 (by rw [h3]; decide) (by rw [h3, h4]; decide), h3, h4, h5]
  decide

/-! ### `GetCleanPath` -/

/-- `GetCleanPath` only removes vertices: its result is a sublist of the ring (same order, starting from `op`). -/
theorem cleanPath_sublist (ring : List Pt) : (getCleanPath ring).Sublist ring := getCleanPath_sublist ring

/-- it never returns an empty path for a non-empty ring -/
theorem cleanPath_ne_nil (ring : List Pt) (h : ring ≠ []) : getCleanPath ring ≠ [] := getCleanPath_ne_nil ring h

/-- what is removed: a vertex `c` is dropped iff it has the same `x` as both the last *kept* vertex `pv` and its ring
successor `nx`, or the same `y` as both (`axisCollinear pv c nx`) — axis-parallel collinearity only; a vertex that is
collinear with its neighbours on a slanted line is kept. -/
theorem cleanPath_step (first pv c : Pt) (rest : List Pt) :
    cleanRest first pv (c :: rest) =
      if axisCollinear pv c (nextOr first rest) then cleanRest first pv rest else c :: cleanRest first c rest :=
  cleanRest_cons first pv c rest

/-- **identity on clean rings**: if no vertex of the ring has the same `x` (or the same `y`) as both its predecessor and its
successor, cyclically (`AxisClean`), `GetCleanPath` returns the ring unchanged. -/
theorem cleanPath_id_of_axisClean (ring : List Pt) (h : AxisClean ring) : getCleanPath ring = ring :=
  getCleanPath_id ring h

example : AxisClean sq10 := by
  simp only [sq10, AxisClean, ChainClean, axisCollinear, nextOr, Clipper.Lemmas.Geom.lastOf]
  decide

/-- rectilinear collinear vertices are removed … -/
example : getCleanPath [⟨0,0⟩, ⟨5,0⟩, ⟨10,0⟩, ⟨10,10⟩, ⟨0,10⟩] = sq10 := by decide
/-- … including the ones at the start of the traversal (the first loop skips them) … -/
example : getCleanPath [⟨5,0⟩, ⟨10,0⟩, ⟨10,10⟩, ⟨0,10⟩, ⟨0,0⟩] = [⟨10,0⟩, ⟨10,10⟩, ⟨0,10⟩, ⟨0,0⟩] := by decide
/-- … slanted collinear vertices are not -/
example : getCleanPath [⟨0,0⟩, ⟨5,5⟩, ⟨10,10⟩, ⟨0,10⟩] = [⟨0,0⟩, ⟨5,5⟩, ⟨10,10⟩, ⟨0,10⟩] := by decide

/-- **The result is not always free of axis-parallel collinear triples**: the removal test looks at the ring successor, not
at the next *kept* vertex.  On a ring with a spike `(5,0) → (5,3) → (5,0)` the output contains `(0,0), (5,0), (9,0)` in a row.
(Such a ring is not a valid solution polygon; the statement "no three consecutive axis-collinear vertices" therefore holds
for the output only under a no-spike hypothesis, which is not proved here.) -/
theorem cleanPath_keeps_collinear_witness :
    getCleanPath [⟨0,0⟩, ⟨5,0⟩, ⟨5,3⟩, ⟨5,0⟩, ⟨9,0⟩, ⟨9,9⟩, ⟨0,9⟩] = [⟨0,0⟩, ⟨5,0⟩, ⟨9,0⟩, ⟨9,9⟩, ⟨0,9⟩] := by decide

/-! ## nesting -/

/-- **`inside_respects_nesting`.**  Let ring1 (≥ 2 vertices) and ring2 be in *nesting position*: all vertices of ring1 are
strictly on one side of ring2 — all strictly inside or all strictly outside by the exact even-odd rule; in particular no
vertex of ring1 lies on ring2's boundary.  (Two simple polygons whose boundaries do not meet are in nesting position; that
Jordan-curve fact is not formalised.)  Then the test answers `true` **iff** ring1's vertices are strictly inside ring2. -/
theorem inside_respects_nesting (ring1 ring2 : List Pt) (h2 : 2 ≤ ring1.length)
    (hpos : AllStrictlyInside ring1 ring2 ∨ AllStrictlyOutside ring1 ring2) :
    path1InsidePath2 ring1 ring2 = true ↔ AllStrictlyInside ring1 ring2 := by
  constructor
  · intro ht
    rcases hpos with h | h
    · exact h
    · rw [outside_of_all_strictly_outside ring1 ring2 h2 h] at ht
      exact absurd ht (by decide)
  · exact inside_of_all_strictly_inside ring1 ring2 h2

/-- the hypothesis is satisfiable both ways -/
example : 2 ≤ ([⟨2, 2⟩, ⟨8, 2⟩, ⟨5, 8⟩] : List Pt).length ∧
    (AllStrictlyInside [⟨2, 2⟩, ⟨8, 2⟩, ⟨5, 8⟩] sq10 ∨ AllStrictlyOutside [⟨2, 2⟩, ⟨8, 2⟩, ⟨5, 8⟩] sq10) := by
  refine ⟨by decide, Or.inl ?_⟩
  intro q hq
  simp only [List.mem_cons, List.not_mem_nil, or_false] at hq
  rcases hq with rfl | rfl | rfl <;> decide

/-- the concrete containment test on a family of rings `ring i` (= the points of `outrec i`'s `pts` ring at the time
`Path1InsidePath2(i->pts, j->pts)` is evaluated) -/
def insideOf (ring : Nat → List Pt) (c p : Nat) : Bool := path1InsidePath2 (ring c) (ring p)

/-- every pair of different rings is in nesting position and every ring has ≥ 2 vertices -/
def NestingPosition (ring : Nat → List Pt) : Prop :=
  ∀ c p, c ≠ p → 2 ≤ (ring c).length ∧
    (AllStrictlyInside (ring c) (ring p) ∨ AllStrictlyOutside (ring c) (ring p))

/-- **`C04.tree_parent_sound` with the concrete test.**  If the rings are pairwise in nesting position, then every outrec
`c` that received a tree node below level 1 has a final owner `p ≠ c` that owns the parent node, and **all vertices of
`c`'s ring are strictly inside `p`'s ring** by the exact even-odd rule. -/
theorem tree_parent_geometric {clean : Nat → CleanRes} {openPath : Nat → Option Path} {fuel : Nat} {T : Table} {S : St}
    (ring : Nat → List Pt) (hN : NestingPosition ring) (hF : Fresh T) (hA : Acyclic T)
    (h : buildTree clean (insideOf ring) openPath fuel T = some S) :
    ∀ (c : Nat) (r : OutRec) (a : List Nat), S.recs[c]? = some r → r.polypath = some a → level a ≠ 1 →
      ∃ (p : Nat) (rp : OutRec) (pa : List Nat), r.owner = some p ∧ p ≠ c ∧ S.recs[p]? = some rp ∧
        rp.polypath = some pa ∧ parentAddr a = some pa ∧ rp.bounds.contains r.bounds = true ∧
        AllStrictlyInside (ring c) (ring p) := by
  intro c r a hc ha hl
  obtain ⟨_, _, _, _, _, _, _, hown⟩ := C04.tree_parent_sound hF hA h c r a hc ha
  obtain ⟨p, rp, pa, ho, hp, hppa, hpar, hcont, hins, _⟩ := hown hl
  have hne : p ≠ c := by
    intro e
    subst e
    rw [hc] at hp
    injection hp with hp
    subst hp
    rw [ha] at hppa
    injection hppa with hppa
    subst hppa
    unfold parentAddr at hpar
    split at hpar
    · exact absurd hpar (by simp)
    · injection hpar with hpar
      have := congrArg List.length hpar
      rw [List.length_dropLast] at this
      have : a.length ≠ 0 := by
        intro h0; exact absurd (List.eq_nil_of_length_eq_zero h0) ‹a ≠ []›
      omega
  obtain ⟨h2, hpos⟩ := hN c p (Ne.symm hne)
  exact ⟨p, rp, pa, ho, hne, hp, hppa, hpar, hcont,
    (inside_respects_nesting (ring c) (ring p) h2 hpos).mp hins⟩

/-- `c = p`, or a chain `c = a₀, a₁, …, a_k = p` with all vertices of each ring strictly inside the next -/
def NestChain (ring : Nat → List Pt) (c p : Nat) : Prop :=
  c = p ∨ Relation.TransGen (fun a b => AllStrictlyInside (ring a) (ring b)) c p

theorem NestChain.trans {ring : Nat → List Pt} {a b c : Nat} (h1 : NestChain ring a b) (h2 : NestChain ring b c) :
    NestChain ring a c := by
  rcases h1 with rfl | h1
  · exact h2
  · rcases h2 with rfl | h2
    · exact Or.inr h1
    · exact Or.inr (h1.trans h2)

/-- the concrete test respects `NestChain` when the rings are pairwise in nesting position — the hypothesis `G1` of
`C04.tree_depth_parity` -/
theorem insideOf_respects (ring : Nat → List Pt) (hN : NestingPosition ring) :
    ∀ c p, insideOf ring c p = true → NestChain ring c p := by
  intro c p h
  by_cases e : c = p
  · exact Or.inl e
  · obtain ⟨h2, hpos⟩ := hN c p e
    exact Or.inr (Relation.TransGen.single ((inside_respects_nesting (ring c) (ring p) h2 hpos).mp h))

/-- **`C04.tree_depth_parity` with the concrete test.**  With rings pairwise in nesting position: `IsHole()` ⇔ even level,
hole / outer alternation between child and parent, and every placed outrec `c` is linked to each of its `level − 1` ancestors
by a chain of rings each of which has all its vertices strictly inside the next (exact even-odd rule). -/
theorem tree_depth_parity_geometric {clean : Nat → CleanRes} {openPath : Nat → Option Path} {fuel : Nat} {T : Table}
    {S : St} (ring : Nat → List Pt) (hN : NestingPosition ring) (hF : Fresh T) (hA : Acyclic T)
    (h : buildTree clean (insideOf ring) openPath fuel T = some S) :
    ∀ (c : Nat) (r : OutRec) (a : List Nat), S.recs[c]? = some r → r.polypath = some a →
      1 ≤ level a ∧ isHole a = decide (level a % 2 = 0) ∧ (level a = 1 → isHole a = false) ∧
      (∀ (p : Nat) (rp : OutRec) (pa : List Nat), r.owner = some p → S.recs[p]? = some rp → rp.polypath = some pa →
        level a = level pa + 1 ∧ isHole a = !isHole pa) ∧
      (∀ k, 1 ≤ k → k < level a → ∃ (anc : Nat) (ra : OutRec), ownerSteps S.recs k c = some anc ∧
        S.recs[anc]? = some ra ∧ ra.polypath = some (a.take (level a - k)) ∧ NestChain ring c anc) :=
  C04.tree_depth_parity hF hA h (insideOf_respects ring hN) (fun _ _ _ h1 h2 => h1.trans h2)

/-- non-vacuity: three nested squares (0 ⊃ 1 ⊃ 2) are pairwise in nesting position, and the tree of `C04.exT` is built
with the concrete test -/
def exRing (i : Nat) : List Pt :=
  match i with
  | 0 => C04.square 0 100 | 1 => C04.square 10 90 | 2 => C04.square 20 80 | _ => C04.square (1000 * (i : Int)) (1000 * (i : Int) + 1)

theorem mem_square {lo hi : Int} {q : Pt} (h : q ∈ C04.square lo hi) : q.y = lo ∨ q.y = hi := by
  simp only [C04.square, List.mem_cons, List.not_mem_nil, or_false] at h
  rcases h with rfl | rfl | rfl | rfl <;> simp

theorem exRing_far (n : Nat) : exRing (n + 3) = C04.square (1000 * ((n + 3 : Nat) : Int)) (1000 * ((n + 3 : Nat) : Int) + 1) := rfl

/-- the rings of the example are pairwise in nesting position (the hypothesis of the two corollaries is satisfiable) -/
theorem exRing_nestingPosition : NestingPosition exRing := by
  have small : ∀ i, i < 3 → ∃ lo hi : Int, exRing i = C04.square lo hi ∧ 0 ≤ lo ∧ lo ≤ hi ∧ hi ≤ 100 := by
    intro i hi
    match i, hi with
    | 0, _ => exact ⟨0, 100, rfl, by decide, by decide, by decide⟩
    | 1, _ => exact ⟨10, 90, rfl, by decide, by decide, by decide⟩
    | 2, _ => exact ⟨20, 80, rfl, by decide, by decide, by decide⟩
  have len : ∀ i, 2 ≤ (exRing i).length := by
    intro i
    match i with
    | 0 => decide
    | 1 => decide
    | 2 => decide
    | n + 3 => rw [exRing_far]; simp [C04.square]
  intro c p hne
  refine ⟨len c, ?_⟩
  by_cases hc : c < 3
  · by_cases hp : p < 3
    · -- the nine small pairs: decided vertex by vertex
      have i10 : ∀ q ∈ exRing 1, pipEvenOdd (exRing 0) q = 1 := by decide
      have i20 : ∀ q ∈ exRing 2, pipEvenOdd (exRing 0) q = 1 := by decide
      have i21 : ∀ q ∈ exRing 2, pipEvenOdd (exRing 1) q = 1 := by decide
      have o01 : ∀ q ∈ exRing 0, pipEvenOdd (exRing 1) q = 2 := by decide
      have o02 : ∀ q ∈ exRing 0, pipEvenOdd (exRing 2) q = 2 := by decide
      have o12 : ∀ q ∈ exRing 1, pipEvenOdd (exRing 2) q = 2 := by decide
      match c, p, hc, hp, hne with
      | 0, 0, _, _, h => exact absurd rfl h
      | 1, 1, _, _, h => exact absurd rfl h
      | 2, 2, _, _, h => exact absurd rfl h
      | 1, 0, _, _, _ => exact Or.inl i10
      | 2, 0, _, _, _ => exact Or.inl i20
      | 2, 1, _, _, _ => exact Or.inl i21
      | 0, 1, _, _, _ => exact Or.inr o01
      | 0, 2, _, _, _ => exact Or.inr o02
      | 1, 2, _, _, _ => exact Or.inr o12
      | c + 3, _, h, _, _ => omega
      | 0, p + 3, _, h, _ => omega
      | 1, p + 3, _, h, _ => omega
      | 2, p + 3, _, h, _ => omega
    · -- ring p is far above ring c
      right
      obtain ⟨lo, hi, e, h0, h1, h2⟩ := small c hc
      obtain ⟨n, rfl⟩ : ∃ n, p = n + 3 := ⟨p - 3, by omega⟩
      intro q hq
      rw [e] at hq
      have hqy := mem_square hq
      apply pipEvenOdd_of_below
      intro v hv
      rw [exRing_far] at hv
      have hvy := mem_square hv
      omega
  · obtain ⟨m, rfl⟩ : ∃ m, c = m + 3 := ⟨c - 3, by omega⟩
    right
    intro q hq
    rw [exRing_far] at hq
    have hqy := mem_square hq
    by_cases hp : p < 3
    · obtain ⟨lo, hi, e, h0, h1, h2⟩ := small p hp
      apply pipEvenOdd_of_above
      intro v hv
      rw [e] at hv
      have hvy := mem_square hv
      omega
    · obtain ⟨n, rfl⟩ : ∃ n, p = n + 3 := ⟨p - 3, by omega⟩
      rcases Nat.lt_or_gt_of_ne hne with hlt | hgt
      · apply pipEvenOdd_of_below
        intro v hv
        rw [exRing_far] at hv
        have hvy := mem_square hv
        omega
      · apply pipEvenOdd_of_above
        intro v hv
        rw [exRing_far] at hv
        have hvy := mem_square hv
        omega

example : NestingPosition exRing ∧ Fresh C04.exT ∧ Acyclic C04.exT := ⟨exRing_nestingPosition, C04.exT_fresh, C04.exT_acyclic⟩

example : (buildTree C04.exClean (insideOf exRing) C04.exOpen 10 C04.exT).map
    (fun S => S.recs.toList.map (·.polypath)) = some [some [0], some [0, 0], some [0, 0, 0], none] := by decide

end Clipper.Props.C04Inside
