/-
C03 / C02 — `TrimHorz`: what the merge of consecutive horizontal edges guarantees (model `Model/TrimHorz.lean`, tied to the
compiled function by calling it on hand-built vertex rings: harness/C03.cpp, records `TRIMHORZ`).

A horizontal edge that is swept must be the *whole* run of horizontal input edges of its bound (with PreserveCollinear off, and
for 180-degree spikes always): a run that is cut short leaves a spike in the bound, which is then swept as two opposite
horizontals and produces zero-area / self-crossing output rings (the clause "no path has zero area or a 180-degree spike" of C03,
exactness of C02).
-/
import ClipperVerif.Model.TrimHorz
namespace Clipper.Props.C03Trim
open Clipper.Model.TrimHorz

/-- the vertices consumed are a prefix of the supplied ones -/
theorem loop_adv_le (pc : Bool) (botX : Int) (rest : List V) : ∀ (topX topY : Int) (adv : Nat),
    adv ≤ (loop pc botX topX topY adv rest).adv ∧ (loop pc botX topX topY adv rest).adv ≤ adv + rest.length := by
  induction rest with
  | nil => intro topX topY adv; simp [loop]
  | cons v rest ih =>
    intro topX topY adv
    have h := ih v.x v.y (adv + 1)
    simp only [loop, List.length_cons]
    split
    · exact ⟨Nat.le_refl _, by simp⟩
    · split
      · exact ⟨Nat.le_refl _, by simp⟩
      · split
        · exact ⟨by simp, by simp⟩
        · omega

/-- **Every vertex passed over lies on the row of the edge**, and the new top is the last of them (or the old top when nothing
was merged): the edge stays horizontal. -/
theorem loop_row (pc : Bool) (botX : Int) (rest : List V) : ∀ (topX topY : Int) (adv : Nat),
    (loop pc botX topX topY adv rest).topY = topY
      ∧ (∀ v ∈ rest.take ((loop pc botX topX topY adv rest).adv - adv), v.y = topY)
      ∧ (((loop pc botX topX topY adv rest).adv = adv ∧ (loop pc botX topX topY adv rest).topX = topX)
          ∨ (adv < (loop pc botX topX topY adv rest).adv
              ∧ ∃ v, rest[(loop pc botX topX topY adv rest).adv - adv - 1]? = some v ∧ v.x = (loop pc botX topX topY adv rest).topX)) := by
  induction rest with
  | nil => intro topX topY adv; simp [loop]
  | cons v rest ih =>
    intro topX topY adv
    simp only [loop]
    split
    · simp
    · rename_i hy
      have hy' : v.y = topY := by simpa using hy
      split
      · simp
      · split
        · refine ⟨hy', ?_, Or.inr ⟨by simp, v, by simp, rfl⟩⟩
          intro w hw; simp at hw; simp [hw, hy']
        · have hle := loop_adv_le pc botX rest v.x v.y (adv + 1)
          obtain ⟨h1, h2, h3⟩ := ih v.x v.y (adv + 1)
          refine ⟨by rw [h1, hy'], ?_, Or.inr ⟨by omega, ?_⟩⟩
          · intro w hw
            have e : (loop pc botX v.x v.y (adv + 1) rest).adv - adv = ((loop pc botX v.x v.y (adv + 1) rest).adv - (adv + 1)) + 1 := by omega
            rw [e, List.take_succ_cons] at hw
            rcases List.mem_cons.mp hw with rfl | hw
            · exact hy'
            · rw [← hy']; exact h2 w hw
          · rcases h3 with ⟨heq, htop⟩ | ⟨hlt, w, hw, hx⟩
            · refine ⟨v, ?_, htop.symm⟩
              rw [heq]; simp
            · refine ⟨w, ?_, hx⟩
              have e : (loop pc botX v.x v.y (adv + 1) rest).adv - adv - 1 = ((loop pc botX v.x v.y (adv + 1) rest).adv - (adv + 1) - 1) + 1 := by omega
              rw [e, List.getElem?_cons_succ]; exact hw

/-- **Why the loop stops** (PreserveCollinear off): at a local maximum that it has just made the top, or because the next vertex
leaves the row, or because the supplied vertices are exhausted.  In particular it never stops *before* a vertex of the row that is
not preceded by a maximum: the whole horizontal run up to the first maximum is merged. -/
theorem loop_stops_nopc (botX : Int) (rest : List V) : ∀ (topX topY : Int) (adv : Nat),
    let o := loop false botX topX topY adv rest
    o.ranOff = true
    ∨ (∃ v, rest[o.adv - adv]? = some v ∧ v.y ≠ topY ∧ ∀ w ∈ rest.take (o.adv - adv), w.isMax = false)
    ∨ (adv < o.adv ∧ ∃ v, rest[o.adv - adv - 1]? = some v ∧ v.isMax = true ∧ ∀ w ∈ rest.take (o.adv - adv - 1), w.isMax = false) := by
  induction rest with
  | nil => intro topX topY adv; simp [loop]
  | cons v rest ih =>
    intro topX topY adv
    simp only [loop, Bool.false_and, Bool.false_eq_true, if_false]
    split
    · rename_i hy
      right; left; exact ⟨v, by simp, by simpa using hy, by simp⟩
    · rename_i hy
      have hy' : v.y = topY := by simpa using hy
      split
      · rename_i hm
        right; right; refine ⟨by simp, v, by simp, hm, by simp⟩
      · rename_i hm
        have hm' : v.isMax = false := by simpa using hm
        have hle := loop_adv_le false botX rest v.x v.y (adv + 1)
        rcases ih v.x v.y (adv + 1) with h | h | h
        · left; exact h
        · right; left
          obtain ⟨w, hw, hwy, hall⟩ := h
          have e : (loop false botX v.x v.y (adv + 1) rest).adv - adv = ((loop false botX v.x v.y (adv + 1) rest).adv - (adv + 1)) + 1 := by omega
          refine ⟨w, ?_, by rw [← hy']; exact hwy, ?_⟩
          · rw [e, List.getElem?_cons_succ]; exact hw
          · intro u hu; rw [e, List.take_succ_cons] at hu
            rcases List.mem_cons.mp hu with rfl | hu
            · exact hm'
            · exact hall u hu
        · right; right
          obtain ⟨hlt, w, hw, hwm, hall⟩ := h
          refine ⟨by omega, w, ?_, hwm, ?_⟩
          · have e : (loop false botX v.x v.y (adv + 1) rest).adv - adv - 1 = ((loop false botX v.x v.y (adv + 1) rest).adv - (adv + 1) - 1) + 1 := by omega
            rw [e, List.getElem?_cons_succ]; exact hw
          · intro u hu
            have e : (loop false botX v.x v.y (adv + 1) rest).adv - adv - 1 = ((loop false botX v.x v.y (adv + 1) rest).adv - (adv + 1) - 1) + 1 := by omega
            rw [e, List.take_succ_cons] at hu
            rcases List.mem_cons.mp hu with rfl | hu
            · exact hm'
            · exact hall u hu

/-- **The merged run is maximal** (PreserveCollinear off): if the first `k+1` supplied vertices are all on the row and none of the
first `k` is a maximum, at least `k+1` of them are merged — the loop cannot stop one vertex short of a maximum that ends the run. -/
theorem trimHorz_merges_run (botX topX topY : Int) (rest : List V) (k : Nat) (hk : k < rest.length)
    (hrow : ∀ v ∈ rest.take (k + 1), v.y = topY) (hmax : ∀ v ∈ rest.take k, v.isMax = false) :
    k + 1 ≤ (trimHorz false botX topX topY rest).adv := by
  unfold trimHorz
  suffices h : ∀ (rest : List V) (k : Nat) (topX : Int) (adv : Nat), k < rest.length →
      (∀ v ∈ rest.take (k + 1), v.y = topY) → (∀ v ∈ rest.take k, v.isMax = false) →
      adv + k + 1 ≤ (loop false botX topX topY adv rest).adv by
    have := h rest k topX 0 hk hrow hmax; omega
  intro rest
  induction rest with
  | nil => intro k _ _ hk; simp at hk
  | cons v rest ih =>
    intro k topX adv hk hrow hmax
    have hvy : v.y = topY := hrow v (by simp [List.take_succ_cons])
    simp only [loop, Bool.false_and, Bool.false_eq_true, if_false, hvy, ne_eq, not_true_eq_false]
    cases k with
    | zero =>
      split
      · simp
      · have := (loop_adv_le false botX rest v.x topY (adv + 1)).1; omega
    | succ k =>
      have hvm : v.isMax = false := hmax v (by simp [List.take_succ_cons])
      simp only [hvm, Bool.false_eq_true, if_false]
      have hk' : k < rest.length := by simpa using hk
      have := ih k v.x (adv + 1) hk'
        (fun w hw => hrow w (by rw [List.take_succ_cons]; exact List.mem_cons_of_mem _ hw))
        (fun w hw => hmax w (by rw [List.take_succ_cons]; exact List.mem_cons_of_mem _ hw))
      omega

/-- non-vacuity: a flat top `(2,1) → (0,1) → (2,1)` whose last vertex is the local maximum: both horizontal pieces (the spike
included) are merged, the edge ends at the maximum -/
example : trimHorz false 2 2 1 [⟨0, 1, false⟩, ⟨2, 1, true⟩, ⟨2, 2, false⟩] = ⟨2, 1, 2, false⟩ := by decide
example : (1 : Nat) + 1 ≤ (trimHorz false 2 2 1 [⟨0, 1, false⟩, ⟨2, 1, true⟩, ⟨2, 2, false⟩]).adv :=
  trimHorz_merges_run 2 2 1 _ 1 (by decide) (by decide) (by decide)
/-- with PreserveCollinear on, a collinear continuation in the same direction is kept as a vertex, a reversal is still merged -/
example : trimHorz true 0 2 1 [⟨5, 1, false⟩, ⟨5, 3, false⟩] = ⟨2, 1, 0, false⟩ := by decide
example : trimHorz true 0 2 1 [⟨1, 1, false⟩, ⟨1, 3, false⟩] = ⟨1, 1, 1, false⟩ := by decide

end Clipper.Props.C03Trim
