/-
C01 — THE OUTPUT RINGS OF THE EXACT SWEEP SELECT EXACTLY THE REGION  (the crown of C01's model-level story; helpers `Lemmas/C01Crown*.lean`).

What existed (`Props/C01Region`, `Props/C01Output`; all proved, tied to the compiled engine): on every scanline strictly inside a scanbeam the hot
edges delimit `inR ct fr (wind subj p) (wind clip p)` (`scanline_region`); `Spec.wind` around a rational point = Σ `wind_dx` over the input edges
crossing its scanline left of it (`ray_winding`); the decorated events of the exact sweep are accepted by the ring model, every emission lies on
the input edge of its `Active`, the event list is bottom-up, every side of every finished ring lies on ONE input edge.  Missing were (i) the
correspondence between the sides of the FINISHED rings that cross a scanline and the hot edges of that scanline, with directions, and (ii) the
summation of `Spec.crossing` over the ring sides.  This file closes both:

 1. `finished_rings_sides_cross_scanline_sum`   the correspondence (i), RAY BY RAY: split the decorated event list at a rational height
        `yn/yd` strictly inside a scanbeam and through no crossing; `ra` = the state of the ring model at that moment.  Its AEL lists exactly the
        input edges crossing the scanline, in left-to-right order ON that scanline (`Lemmas/C01CrownSorted.isect_split_sorted`: the case "between
        two crossings of a scanbeam" that `output_edges_cross_scanline_partial` left open); an edge is hot iff it holds a ring end, whose end point
        lies on the edge's input segment BELOW the scanline; the sides alternate front, back, … .  And for EVERY probe `(xn/yd, yn/yd)` on no
        edge: the winding number of the output paths (the rings finished by the END of the sweep, read as `BuildPath64` reads them) around the
        probe equals the signed number of hot edges of `ra` passing RIGHT of the probe, a BACK edge counted `+1` and a FRONT edge `−1`.
        That is the bijection "sides of finished rings crossing the scanline ↔ hot edges of the scanline, a side on a front edge traversed
        upwards, on a back edge downwards (in `BuildPath64` order)" as seen by every horizontal ray; what it does not exclude is a pair of sides at
        the same x traversed in opposite directions (invisible to every winding number);
 2. `output_region`   hence `wind (output paths) p = 1` if `inR ct fr (wind subj p) (wind clip p)` and `= 0` otherwise: the sign convention of the
        engine with `ReverseSolution = false` is `s = +1` in `Spec.wind`'s convention (positive = counter-clockwise with y up = clockwise on
        the screen's y-down axes; outer rings positive, holes negative; a point inside a hole of the region has winding number 0);
 3. `c01_model_level`   the same in the words of C01, with the list of what separates it from the property for the real engine;
 4. `sweep_end_no_ring_open`   a sweep that ends with an empty AEL leaves no ring under construction (counting: twice the live rings = the
        edges owning a ring end), and records emptied by `JoinOutrecPaths` have no points.

HOW (Lemmas/C01Crown*): for an antisymmetric weight `c` of directed segments the ray sum `phi` of all rings (consecutive pairs, plus the closing
pair of a finished ring) changes under `AddOutPt` / ring closing / `JoinOutrecPaths` by the weight of the pair that BECOMES neighbours
(`C01CrownSum`, `C01CrownMax`); an event adds exactly the emissions on the edges it touches and leaves every other edge's ring end alone
(`C01CrownStep`); below the probe's scanline nothing counts; above it `phi + pend` is constant, `pend` = what the hot edges whose ring end still
ends below the scanline will contribute when their next point is emitted — a multiple of the crossing number of the INPUT EDGE the `Active`
currently is, because both points lie on it (`C01CrownRun`, `C01CrownGeom`); at the moment of passing, `pend` is the alternating sum over the hot
edges right of the probe (`C01CrownEval`); at the end the AEL is empty.

HYPOTHESES: `Built.Hyp` / `Built.HypR` (general position at every scanline, no horizontal edge, structural facts; decidable, decided per input by
`SWEEPHYP`), `DenOK` (true for `sweepDen`), `ct ≠ NoClip`, and `rs.s.ael = []` for the final state of the run (decidable by evaluation; it says
that the scanline list ends at the topmost vertex — `HypR.TopStart` is the same statement for the bottom; judged per input by the proposed
driver command `SWEEPDONE`).
-/
import ClipperVerif.Lemmas.C01CrownWind
namespace Clipper.Props.C01Crown
open Clipper Clipper.Model Clipper.Model.AelOrder Clipper.Model.SweepOrder Clipper.Model.SweepEvents Clipper.Model.SweepPoints
open Clipper.Lemmas.SweepOrder Clipper.Lemmas.C01Region Clipper.Lemmas.C01Output Clipper.Lemmas.C01Crown
open Clipper.Props.C01Sweep Clipper.Props.C01Region Clipper.Props.C01Output

/-- the winding number of the output paths (coordinates scaled by `D`) around the rational point `(xn/yd, yn/yd)`: `Spec.wind` of the paths scaled
once more by `yd` around the integer point `(D·xn, D·yn)` (`Props/C13Spec.wind_scale`) -/
def windOut (D : Int) (rs : RState) (xn yn yd : Int) : Int :=
  wind ((outputPaths rs).map (fun p => p.map (Pt.scale yd))) ⟨D * xn, D * yn⟩

/-- the signed number of hot edges of the state `ael` (in step with the geometric AEL `es`) that do NOT pass strictly left of the probe: `+1` for an edge
holding a front end, `−1` for a back end (`= Lemmas/C01CrownEval.rsum`) -/
def hotRight (xn yn yd : Int) (ael : List Model.SEdge) (es : List GEdge) : Int := rsum xn yn yd ael es

/-! ## (4) the end of the sweep -/

/-- **sweep_end_no_ring_open.**  Any event list of `insertPair` (closed), `intersect`, `removePair`, `update` events (`PlainOp`: no join, split or open
path — `sweepEventsP_accepted` proves the derived list is one) accepted from the empty state: in every state reached
`2 · (rings under construction) = (edges owning a ring end)`; so if the AEL is empty at the end, every record is either FINISHED or was emptied
by `JoinOutrecPaths` and has no points: `outputPaths` misses nothing. -/
theorem sweep_end_no_ring_open (cfg : Cfg) (hct : cfg.ct ≠ .noClip) (ops : List ROp) (rs : RState) (hop : ∀ op ∈ ops, PlainOp op)
    (hr : runR cfg RState.empty ops = .ok rs) :
    2 * liveN rs.o = hotN rs.s.ael ∧ (rs.s.ael = [] → ∀ g ∈ rs.o.rings, g.stat = .done ∨ g.pts = []) := by
  refine ⟨?_, sweep_end_clean cfg hct ops rs hop hr⟩
  have hb := bal_run cfg hct ops RState.empty rs hop hr ⟨[], rfl⟩ (fun x hx => by simp [RState.empty, SState.empty] at hx)
  simp [liveN, hotN, RState.empty, Out.empty, SState.empty] at hb
  simp only [liveN, hotN]; omega

/-! ## (1) the sides of the finished rings that cross a scanline -/

/-- **finished_rings_sides_cross_scanline_sum.**  `subj`, `clip`: closed paths; hypotheses of `Props/C01Output.output_rings_on_input_edges`
(`Built.Hyp`, `Built.HypR`, `Near cx`, `ct ≠ NoClip`, `DenOK D`).  `r`: a scanbeam of the decorated run, `[y1, y0]` its scanlines; `yn/yd` a rational
height STRICTLY inside it that is the height of NO crossing point of the scanbeam (`hcr`).  Then the decorated event list splits as `A ++ B`, every
event of `A` strictly below the scanline `yn/yd` and every event of `B` strictly above it (heights in coordinates scaled by `D`), and with `ra` the
state of the ring model after `A`, `rs` the state after the whole list, `es` the geometric AEL after `A`:
 (a) `es` is a permutation of the scanbeam's edges — exactly the input edges crossing the scanline (`beam_alive`) — in left-to-right order ON the
     scanline `yn/yd`;
 (b) position by position (`GeoAll`): the geometric edge is an input edge; the `Active` is HOT iff it holds a ring end `(outrec, IsFront)`; the END
     POINT of that ring end lies on the closed input segment of the edge, strictly BELOW the scanline.  So the side of the ring that leaves this end
     point — whichever later event emits its other end, on the same `Active`, hence (`ring_ends_on_edges`) on the same input edge — crosses the
     scanline along that edge; the sides of the hot edges alternate front, back, front, … from the left (`altFrom`);
 (c) THE CORRESPONDENCE, ray by ray: if the AEL is empty at the end of the sweep, then for every `xn` with `(xn/yd, yn/yd)` on no edge of the scanbeam
     the winding number of the OUTPUT PATHS (all rings finished by the end, in `BuildPath64` order) around that point is
         `− hotRight xn yn yd ra.s.ael es`  =  (back edges of `ra` right of the point) − (front edges of `ra` right of the point):
     a ring side on a FRONT edge crosses the scanline UPWARDS (towards smaller y; `Spec.crossing` counts `−1` for it when it is right of the probe),
     one on a BACK edge downwards, and there are no other sides crossing — up to pairs of opposite sides at one x, which no winding number sees. -/
theorem finished_rings_sides_cross_scanline_sum (subj clip : Paths) (cfg : Cfg) (hct : cfg.ct ≠ .noClip) (cx : GEdge → Int → Int)
    (hn : Near cx) (info : GEdge → OInfo) (h : (build (subj ++ clip)).Hyp (validGen cx info))
    (hR : Built.HypR (build (subj ++ clip)) (labOf subj clip)) (D : Int) (hD : DenOK D (builtDens subj clip cx info))
    (pre : List BeamRunP) (r : BeamRunP) (post : List BeamRunP)
    (hruns : beamRunsP D (validGen cx info) cx (build (subj ++ clip)).next (build (subj ++ clip)).mins (labOf subj clip) []
      (build (subj ++ clip)).ys = pre ++ r :: post)
    (yn yd : Int) (hd : 0 < yd) (hlo : r.snap.y1 * yd < yn) (hhi : yn < r.snap.y0 * yd)
    (hcr : ∀ op ∈ r.evIsect, op.pt.y * yd ≠ D * yn) :
    ∃ (rs ra : RState) (A B : List ROp) (es : List GEdge),
      builtEventsP D subj clip cx info = A ++ B ∧
      runR cfg RState.empty A = .ok ra ∧ runR cfg ra B = .ok rs ∧ runR cfg RState.empty (builtEventsP D subj clip cx info) = .ok rs ∧
      (∀ op ∈ A, D * yn < op.pt.y * yd) ∧ (∀ op ∈ B, op.pt.y * yd < D * yn) ∧
      es.Perm r.snap.inserted ∧ es.Pairwise (fun u v => leAt yn yd u v = true) ∧
      GeoAll (fun x e => e ∈ (build (subj ++ clip)).edges ∧ x.e.hot = x.orec.isSome ∧
        ∀ k, x.orec = some k → ∃ p, endOf ra.o k = some p ∧ OnE D e p ∧ D * yn < p.y * yd) ra.s.ael es ∧
      altFrom true ra.s.ael = true ∧
      (rs.s.ael = [] → ∀ xn : Int, (∀ e ∈ r.snap.inserted, ¬ onEdgeLine e xn yn yd) →
        windOut D rs xn yn yd = -hotRight xn yn yd ra.s.ael es) := by
  obtain ⟨rs, ra, A, B, es, aelEnd, c1, c2, c3, c4, c5, c6, c7, _, c9, c10, c11, _, c13, c14, c15, c16⟩ :=
    crown_main cfg hct D _ (validGen cx info) cx _ _ (labOf subj clip) _ h.1 h.2.2.1 hn h.2.2.2 hR hD pre r post hruns yn yd hd hlo hhi hcr
  have hreA : Reach cfg ra := ⟨A, c2⟩
  obtain ⟨hOA, _, _⟩ := reach_facts hct hreA
  have hS := sweepP_empty cfg hct D _ (validGen cx info) cx _ _ (labOf subj clip) _ h.1 h.2.2.1 hn h.2.2.2 hR hD
  refine ⟨rs, ra, A, B, es, c1, c2, c3, c4, c5, c6, c9, c10, ?_, c15, ?_⟩
  · refine geoAll_mono _ _ ?_ c11
    intro x hx e hh
    refine ⟨hh.1, (c14 x hx).2, ?_⟩
    intro k hk
    obtain ⟨p, hp⟩ := endAt_some_of_live (hOA.hot x hx k hk) k.front
    have hp' : endOf ra.o k = some p := hp
    obtain ⟨g, hgm, hg, hep⟩ := endOf_endPt hp'
    obtain ⟨g', hg', hl, _⟩ := hOA.hot x hx k hk
    rw [hg] at hg'; cases hg'
    have := c13 g hgm hl p (by cases hf' : k.front <;> rw [hf'] at hep <;> simp [hep])
    exact ⟨p, hp', hh.2 k p hk hp', (level_iff D yn yd hd _).1 this⟩
  · intro hend xn hoff
    obtain ⟨_, e2, _, e4⟩ := c16 xn hoff
    have hclean := sweep_end_clean cfg hct _ rs hS.plainOps c4 hend
    have hw := wind_output D xn yn yd rs hclean
    rw [hend] at e4
    simp only [pend] at e4
    unfold windOut hotRight
    have : (⟨D * xn, D * yn⟩ : Pt) = probePt D xn yn := rfl
    rw [this, hw]
    obtain ⟨_, _, e3, _⟩ := c16 xn hoff
    rw [e3]; omega

/-! ## (2) the region of the output -/

/-- **output_region.**  Same hypotheses.  For every scanbeam `r` of the exact sweep, every rational height `yn/yd` strictly inside it that is the
height of no crossing point of the scanbeam, and every `xn` with `(xn/yd, yn/yd)` on no input edge: if the sweep ends with an empty AEL, the winding
number of the OUTPUT PATHS — the rings of the exact sweep finished by its end, read as `BuildPath64` does for `ReverseSolution = false` — around
the point is

        `1`  if  `inR ct fr (wind subj p) (wind clip p)`,        `0`  otherwise.

In particular it is `0` or `s = +1` (the orientation convention of the engine: in `Spec.wind`'s convention, positive = counter-clockwise with y up,
outer rings wind `+1` and holes `−1`), and it is non-zero exactly on the region the fill rule and the clip type select. -/
theorem output_region (subj clip : Paths) (cfg : Cfg) (hct : cfg.ct ≠ .noClip) (cx : GEdge → Int → Int)
    (hn : Near cx) (info : GEdge → OInfo) (h : (build (subj ++ clip)).Hyp (validGen cx info))
    (hR : Built.HypR (build (subj ++ clip)) (labOf subj clip)) (D : Int) (hD : DenOK D (builtDens subj clip cx info))
    (pre : List BeamRunP) (r : BeamRunP) (post : List BeamRunP)
    (hruns : beamRunsP D (validGen cx info) cx (build (subj ++ clip)).next (build (subj ++ clip)).mins (labOf subj clip) []
      (build (subj ++ clip)).ys = pre ++ r :: post)
    (yn yd : Int) (hd : 0 < yd) (hlo : r.snap.y1 * yd < yn) (hhi : yn < r.snap.y0 * yd)
    (hcr : ∀ op ∈ r.evIsect, op.pt.y * yd ≠ D * yn) :
    ∃ rs, runR cfg RState.empty (builtEventsP D subj clip cx info) = .ok rs ∧
      (rs.s.ael = [] → ∀ xn : Int, (∀ e ∈ r.snap.inserted, ¬ onEdgeLine e xn yn yd) →
        windOut D rs xn yn yd = if inR cfg.ct cfg.fr (windQ subj xn yn yd) (windQ clip xn yn yd) then 1 else 0) := by
  obtain ⟨rs, ra, A, B, es, aelEnd, _, _, _, c4, _, _, _, _, _, _, _, _, _, _, _, c16⟩ :=
    crown_main cfg hct D _ (validGen cx info) cx _ _ (labOf subj clip) _ h.1 h.2.2.1 hn h.2.2.2 hR hD pre r post hruns yn yd hd hlo hhi hcr
  have hS := sweepP_empty cfg hct D _ (validGen cx info) cx _ _ (labOf subj clip) _ h.1 h.2.2.1 hn h.2.2.2 hR hD
  obtain ⟨_, _, _, _, _, _, _, _, _, _, _, hf, _, _⟩ := hS.beams pre r post hruns
  refine ⟨rs, c4, ?_⟩
  intro hend xn hoff
  obtain ⟨_, _, _, e4⟩ := c16 xn hoff
  have hclean := sweep_end_clean cfg hct _ rs hS.plainOps c4 hend
  have hw := wind_output D xn yn yd rs hclean
  rw [hend] at e4
  simp only [pend] at e4
  obtain ⟨hal, hvt⟩ := beam_alive hf hd hlo hhi
  obtain ⟨wS, wC⟩ := ray_winding subj clip xn yn yd hd hR.1 hvt (fun e he ha => hoff e ((hal e).2 ⟨he, ha⟩))
  unfold windOut
  have : (⟨D * xn, D * yn⟩ : Pt) = probePt D xn yn := rfl
  rw [this, hw, wS, wC]
  omega

/-! ## (3) C01 at model level -/

/-- **c01_model_level — C01 for the exact sweep.**  Inputs: closed paths `subj`, `clip` satisfying `Built.Hyp` / `Built.HypR` (no horizontal edge, general
position at every scanline, the structural facts); every clip type but NoClip, every fill rule.  `rs`: the state of the ring model after the whole
decorated event list of the exact sweep (it exists: `sweepEventsP_accepted`), its AEL empty.  Then AT EVERY RATIONAL POINT `p = (xn/yd, yn/yd)` whose
height lies strictly inside a scanbeam (so it is no scanline), is the height of no crossing point of that scanbeam, and which lies on no input edge:

        the output paths wind around `p` exactly `0` or `1` times,   and   `wind (output) p ≠ 0  ⟺  inR ct fr (wind subj p) (wind clip p)`.

The exact output rings select exactly the region C01 defines.

WHAT SEPARATES THIS FROM C01 FOR THE REAL ENGINE (each item tied or judged elsewhere, none proved here):
 * ROUNDING: the engine stores every crossing point rounded to integers; its rings have the same structure as the exact rings and every vertex
   within 1 unit of the exact one (`SWEEPRINGS`, per input) — whence C01's tolerance band of 2 units around the boundary; that the region of the
   rounded rings differs from the region of the exact rings only inside that band is not a theorem;
 * `CleanCollinear` / `FixSelfIntersects` / `BuildPath64` (C03: shape theorems; that they keep the region is judged by `REGIONS`, not proved);
 * HORIZONTAL EDGES (`Props/C01Horz` proves the ORDER of the AEL through `DoHorizontal`; points on scanlines that carry horizontal edges and the
   rings through horizontal runs are outside), JOINS (`join_with`, horizontal joins: do not occur in the derived run), open paths (C05);
 * the HEIGHTS EXCLUDED: scanlines and crossing heights (finitely many; the region of a polygon set is determined by its restriction to the other
   heights up to its boundary), points on input edges;
 * the hypotheses `Built.Hyp` / `Built.HypR` / `rs.s.ael = []` are hypotheses HERE; `Props/C01Build` proves them of `build` from the input-only
   precondition `InputGP` plus `GPAll` (`c01_model_level_reduced`); inputs not in general position
   (coincident vertices, collinear overlapping edges, vertices on edges) are outside;
 * the tie of the decorated event list to the engine is by replay (`SWEEPORDER`, `SWEEPHOT`, `SWEEPRINGS`), |coord| ≤ 2^24. -/
theorem c01_model_level (subj clip : Paths) (cfg : Cfg) (hct : cfg.ct ≠ .noClip) (cx : GEdge → Int → Int)
    (hn : Near cx) (info : GEdge → OInfo) (h : (build (subj ++ clip)).Hyp (validGen cx info))
    (hR : Built.HypR (build (subj ++ clip)) (labOf subj clip)) (D : Int) (hD : DenOK D (builtDens subj clip cx info))
    (rs : RState) (hrs : runR cfg RState.empty (builtEventsP D subj clip cx info) = .ok rs) (hend : rs.s.ael = [])
    (pre : List BeamRunP) (r : BeamRunP) (post : List BeamRunP)
    (hruns : beamRunsP D (validGen cx info) cx (build (subj ++ clip)).next (build (subj ++ clip)).mins (labOf subj clip) []
      (build (subj ++ clip)).ys = pre ++ r :: post)
    (xn yn yd : Int) (hd : 0 < yd) (hlo : r.snap.y1 * yd < yn) (hhi : yn < r.snap.y0 * yd)
    (hcr : ∀ op ∈ r.evIsect, op.pt.y * yd ≠ D * yn) (hoff : ∀ e ∈ r.snap.inserted, ¬ onEdgeLine e xn yn yd) :
    (windOut D rs xn yn yd = 0 ∨ windOut D rs xn yn yd = 1) ∧
    (windOut D rs xn yn yd ≠ 0 ↔ inR cfg.ct cfg.fr (windQ subj xn yn yd) (windQ clip xn yn yd) = true) := by
  obtain ⟨rs', h1, h2⟩ := output_region subj clip cfg hct cx hn info h hR D hD pre r post hruns yn yd hd hlo hhi hcr
  rw [hrs] at h1
  cases h1
  have := h2 hend xn hoff
  rw [this]
  by_cases hin : inR cfg.ct cfg.fr (windQ subj xn yn yd) (windQ clip xn yn yd) = true <;> simp [hin]

/-! ## non-vacuity: the two crossing triangles of `Props/C01Output`, Union and Intersection, scanline `y = 59/2`

`A = (0,40) (30,3) (-30,11)` (subject) and `B = (-10,33) (-31,0) (34,20)` (clip); `D = 36351017860465560`.  The scanline `59/2` lies strictly inside the
second scanbeam `[20, 33]`, between its crossings (heights 32.4, 26.9, 26.1 …): the case the earlier partial theorem could not reach. -/

private def triA : Path := [⟨0, 40⟩, ⟨30, 3⟩, ⟨-30, 11⟩]
private def triB : Path := [⟨-10, 33⟩, ⟨-31, 0⟩, ⟨34, 20⟩]
private def triD : Int := 36351017860465560

private theorem tri_hyp : (build ([triA] ++ [triB])).Hyp (validGen rhe default) := by decide +kernel
private theorem tri_hypR : Built.HypR (build ([triA] ++ [triB])) (labOf [triA] [triB]) := by decide +kernel
private theorem tri_den : DenOK triD (builtDens [triA] [triB] rhe default) := by decide +kernel

private def triRuns : List BeamRunP :=
  beamRunsP triD (validGen rhe default) rhe (build ([triA] ++ [triB])).next (build ([triA] ++ [triB])).mins (labOf [triA] [triB]) []
    (build ([triA] ++ [triB])).ys

private theorem tri_split : triRuns = triRuns.take 1 ++ triRuns.getD 1 default :: triRuns.drop 2 :=
  split_at triRuns 1 (by decide +kernel)

/-- the scanline `59/2` is strictly inside the second scanbeam and through none of its crossing points -/
private theorem tri_inside : (triRuns.getD 1 default).snap.y1 * 2 < 59 ∧ 59 < (triRuns.getD 1 default).snap.y0 * 2 ∧
    ∀ op ∈ (triRuns.getD 1 default).evIsect, op.pt.y * 2 ≠ triD * 59 := by decide +kernel

/-- the final AEL is empty (Union, Intersection) -/
private theorem tri_end (cfg : Cfg) (hc : cfg = ⟨.union, .nonZero⟩ ∨ cfg = ⟨.intersection, .nonZero⟩) (rs : RState)
    (h : runR cfg RState.empty (builtEventsP triD [triA] [triB] rhe default) = .ok rs) : rs.s.ael = [] := by
  have key : ∀ c : Cfg, (c = ⟨.union, .nonZero⟩ ∨ c = ⟨.intersection, .nonZero⟩) →
      (match runR c RState.empty (builtEventsP triD [triA] [triB] rhe default) with
       | .ok rs => rs.s.ael.length | .error _ => 1) = 0 := by
    intro c hc'
    rcases hc' with rfl | rfl <;> decide +kernel
  have := key cfg hc
  rw [h] at this
  exact List.length_eq_zero_iff.1 this

/-- **`output_region` applies to the two triangles** (UNION): at EVERY point of the scanline `y = 59/2` that is on no edge, the exact output ring winds
`1` around it if `inR` holds and `0` otherwise — a theorem's instance, where `Props/C01Output` had an evaluation at 40 points -/
example : ∃ rs, runR ⟨.union, .nonZero⟩ RState.empty (builtEventsP triD [triA] [triB] rhe default) = .ok rs ∧
    ∀ xn : Int, (∀ e ∈ (triRuns.getD 1 default).snap.inserted, ¬ onEdgeLine e xn 59 2) →
      windOut triD rs xn 59 2 = if inR .union .nonZero (windQ [triA] xn 59 2) (windQ [triB] xn 59 2) then 1 else 0 := by
  obtain ⟨rs, h1, h2⟩ := output_region [triA] [triB] ⟨.union, .nonZero⟩ (by decide) rhe rhe_near default tri_hyp tri_hypR triD tri_den
    _ _ _ tri_split 59 2 (by decide) tri_inside.1 tri_inside.2.1 tri_inside.2.2
  exact ⟨rs, h1, h2 (tri_end _ (Or.inl rfl) rs h1)⟩

/-- … and INTERSECTION -/
example : ∃ rs, runR ⟨.intersection, .nonZero⟩ RState.empty (builtEventsP triD [triA] [triB] rhe default) = .ok rs ∧
    ∀ xn : Int, (∀ e ∈ (triRuns.getD 1 default).snap.inserted, ¬ onEdgeLine e xn 59 2) →
      windOut triD rs xn 59 2 = if inR .intersection .nonZero (windQ [triA] xn 59 2) (windQ [triB] xn 59 2) then 1 else 0 := by
  obtain ⟨rs, h1, h2⟩ := output_region [triA] [triB] ⟨.intersection, .nonZero⟩ (by decide) rhe rhe_near default tri_hyp tri_hypR triD tri_den
    _ _ _ tri_split 59 2 (by decide) tri_inside.1 tri_inside.2.1 tri_inside.2.2
  exact ⟨rs, h1, h2 (tri_end _ (Or.inr rfl) rs h1)⟩

/-- a concrete point: `(1/2, 59/2)` is on no edge, inside the union and inside the intersection; the theorem gives winding number 1 of the exact
output — compare the evaluation in `Props/C01Output` -/
example : (∀ e ∈ (triRuns.getD 1 default).snap.inserted, ¬ onEdgeLine e 1 59 2) ∧
    inR .union .nonZero (windQ [triA] 1 59 2) (windQ [triB] 1 59 2) = true ∧
    inR .intersection .nonZero (windQ [triA] 1 59 2) (windQ [triB] 1 59 2) = true := by decide +kernel

/-- `finished_rings_sides_cross_scanline_sum` applies (its hypotheses are satisfiable), and `c01_model_level` at the point `(1/2, 59/2)`:
the exact union ring winds once around it -/
example : ∃ rs, runR ⟨.union, .nonZero⟩ RState.empty (builtEventsP triD [triA] [triB] rhe default) = .ok rs ∧ windOut triD rs 1 59 2 = 1 := by
  obtain ⟨⟨rs, hrs⟩, _, _⟩ := sweepEventsP_accepted ⟨.union, .nonZero⟩ (by decide) triD _ (validGen rhe default) rhe _ _ (labOf [triA] [triB]) _
    tri_hyp.1 tri_hyp.2.2.1 rhe_near tri_hyp.2.2.2 tri_hypR tri_den
  have hpt : (∀ e ∈ (triRuns.getD 1 default).snap.inserted, ¬ onEdgeLine e 1 59 2) ∧
      inR .union .nonZero (windQ [triA] 1 59 2) (windQ [triB] 1 59 2) = true := by decide +kernel
  obtain ⟨h01, hiff⟩ := c01_model_level [triA] [triB] ⟨.union, .nonZero⟩ (by decide) rhe rhe_near default tri_hyp tri_hypR triD tri_den rs hrs
    (tri_end _ (Or.inl rfl) rs hrs) _ _ _ tri_split 1 59 2 (by decide) tri_inside.1 tri_inside.2.1 tri_inside.2.2 hpt.1
  refine ⟨rs, hrs, ?_⟩
  rcases h01 with h0 | h1
  · exact absurd h0 (hiff.2 hpt.2)
  · exact h1

end Clipper.Props.C01Crown
