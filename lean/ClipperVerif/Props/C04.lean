/-
Property C04: the PolyTree built by `BuildTree64` (model: `ClipperVerif/Model/Owner.lean`).

Trusted base: the model itself (checked against the C++ by the correspondence harness); the abstract parameters
`clean i` (= `CleanCollinear` + `BuildPath64` of outrec `i`), `inside i j` (= `Path1InsidePath2`), `openPath i`;
the assumption that the outrec table does not grow while the tree is built.
-/
import ClipperVerif.Lemmas.Owner
namespace Clipper.Props.C04
open Clipper Clipper.Model.Owner

/-! ## example data used to show that the hypotheses of the theorems are satisfiable -/

/-- an axis-parallel square ring -/
def square (lo hi : Int) : Path := [⟨lo, lo⟩, ⟨hi, lo⟩, ⟨hi, hi⟩, ⟨lo, hi⟩]
/-- outer ring 0, hole 1 (owner 0), island 2 (owner 1); outrec 3 is dead and owned by 2 -/
def exClean (i : Nat) : CleanRes :=
  match i with
  | 0 => .path (square 0 100) | 1 => .path (square 10 90) | 2 => .path (square 20 80) | _ => .invalid
def exInside (i j : Nat) : Bool := decide (j < i)
def exOpen : Nat → Option Path := fun _ => none
def exT : Table := #[{}, { owner := some 0 }, { owner := some 1, splits := [3] }, { owner := some 2, hasPts := false }]

theorem exT_fresh : Fresh exT := fun _ r h =>
  (by decide : ∀ r ∈ exT.toList, r.polypath = none ∧ r.bounds.isEmpty = true) r
    (Array.mem_toList_iff.mpr (Array.mem_of_getElem? h))

theorem exT_rank : RankOK exT id := by
  intro j r o h ho
  have hlt : j < 4 := getElem?_lt h
  match j, h with
  | 0, h => simp [exT] at h; subst h; simp at ho
  | 1, h => simp [exT] at h; subst h; simp at ho; subst ho; decide
  | 2, h => simp [exT] at h; subst h; simp at ho; subst ho; decide
  | 3, h => simp [exT] at h; subst h; simp at ho; subst ho; decide
  | j + 4, _ => omega

theorem exT_acyclic : Acyclic exT := ⟨id, exT_rank⟩

theorem exT_inRange : OwnersInRange exT := by
  intro j r o h ho
  have := exT_rank j r o h ho
  have hlt : j < 4 := getElem?_lt h
  show o < 4
  simp only [id] at this
  omega

theorem exT_builds : ∃ S, buildTree exClean exInside exOpen 10 exT = some S :=
  Option.isSome_iff_exists.mp (by decide)

/-- the tree that is built for the example: 0 ⊃ 1 ⊃ 2 -/
example : (buildTree exClean exInside exOpen 10 exT).map (fun S => S.recs.toList.map (·.polypath)) =
    some [some [0], some [0, 0], some [0, 0, 0], none] := by decide

/-- a tree with a valid address `[0]` -/
def exTree : Tree := .node [] [.node (square 0 100) []]

/-! ## A. the tree layer -/

/-- A1. `AddChild` adds exactly one path to the flattened tree (`PolyPathToPaths64` of the node). -/
theorem addChild_toPaths {t t' : Tree} {a a' : List Nat} {q : Path}
    (h : addChild t a q = some (t', a')) : t'.toPaths.Perm (q :: t.toPaths) :=
  addChild_toPaths' h

/-- A1'. the same for `PolyTreeToPaths64` (which omits the root's own empty polygon). -/
theorem addChild_polyTreeToPaths {t t' : Tree} {a a' : List Nat} {q : Path}
    (h : addChild t a q = some (t', a')) : (polyTreeToPaths t').Perm (q :: polyTreeToPaths t) :=
  addChild_polyTreeToPaths' h

example : ∃ t' a', addChild exTree [0] (square 10 90) = some (t', a') := ⟨_, _, rfl⟩

/-- A2. `AddChild(q)` adds `Area(q)` to `PolyPath64::Area()` of the tree (in units of one half). -/
theorem addChild_area2 {t t' : Tree} {a a' : List Nat} {q : Path}
    (h : addChild t a q = some (t', a')) : t'.area2 = t.area2 + shoelace2 q :=
  addChild_area2' h

/-- A3. the new child sits one level below its parent, holds the new polygon and has no children;
the parent address was valid, the new address was unused, and every existing node keeps its address and polygon. -/
theorem addChild_at {t t' : Tree} {a a' : List Nat} {q : Path}
    (h : addChild t a q = some (t', a')) :
    (∃ k, a' = a ++ [k]) ∧ parentAddr a' = some a ∧ level a' = level a + 1 ∧
    t'.at? a' = some (.node q []) ∧ t.at? a' = none ∧ (∃ n, t.at? a = some n) ∧
    ∀ b n, t.at? b = some n → ∃ n', t'.at? b = some n' ∧ n'.path = n.path := by
  obtain ⟨k, hk⟩ := addChild_addr h
  refine ⟨⟨k, hk⟩, ?_, ?_, addChild_at_new h, addChild_at_fresh h, addChild_parent_valid h,
    fun b n hb => addChild_at_old h hb⟩
  · subst hk; simp [parentAddr]
  · subst hk; simp [level]

/-- A4. `PolyPath64::Area()` of any node is the sum of the shoelace areas of the flattened paths. -/
theorem tree_area (t : Tree) : t.area2 = (t.toPaths.map shoelace2).sum := tree_area2_eq t

/-- A4'. for the root of a PolyTree (its own polygon is empty) the area is the sum over `PolyTreeToPaths64`. -/
theorem root_area (ks : List Tree) :
    (Tree.node [] ks).area2 = ((polyTreeToPaths (.node [] ks)).map shoelace2).sum := by
  rw [tree_area]
  simp [Tree.toPaths, polyTreeToPaths, Tree.kids, shoelace2_nil]

/-- A4''. flattened path lists that are permutations of each other have the same total area. -/
theorem area_perm {ps qs : List Path} (h : ps.Perm qs) : (ps.map shoelace2).sum = (qs.map shoelace2).sum :=
  perm_sum_int (h.map _)

/-! ## B. ownership resolution -/

/-- B3. Soundness of the parent relation of the PolyTree.  `T` is the outrec table before `BuildTree64`
(`Fresh`: no polypaths, no bounds yet) and its owner graph is acyclic (this hypothesis is *needed*: with a cyclic
owner chain `RecursiveCheckOwners` re-enters the outrec it is working on, see the report).
Then for every outrec `c` that received a node at address `a`: the node holds `c`'s path, which is the cleaned
ring `clean c`, with the recorded bounds; its level is ≥ 1; at level 1 the final owner is null; otherwise the final
owner `p` owns the parent node, and the containment test was evaluated positively on the final data:
bounds of `p` contain bounds of `c`, `Path1InsidePath2(c, p)`, and `p`'s path is `clean p`. -/
theorem tree_parent_sound {clean : Nat → CleanRes} {inside : Nat → Nat → Bool} {openPath : Nat → Option Path}
    {fuel : Nat} {T : Table} {S : St} (hF : Fresh T) (hA : Acyclic T)
    (h : buildTree clean inside openPath fuel T = some S) :
    ∀ (c : Nat) (r : OutRec) (a : List Nat), S.recs[c]? = some r → r.polypath = some a →
      (∃ n, S.tree.at? a = some n ∧ n.path = r.path) ∧
      r.hasPts = true ∧ clean c = .path r.path ∧ r.bounds = getBounds r.path ∧ r.bounds.isEmpty = false ∧
      level a ≥ 1 ∧
      (level a = 1 → r.owner = none) ∧
      (level a ≠ 1 → ∃ (p : Nat) (rp : OutRec) (pa : List Nat),
        r.owner = some p ∧ S.recs[p]? = some rp ∧ rp.polypath = some pa ∧ parentAddr a = some pa ∧
        rp.bounds.contains r.bounds = true ∧ inside c p = true ∧ clean p = .path rp.path) := by
  obtain ⟨_, hB, hT⟩ := buildTree_ginv (clean := clean) (inside := inside) hF hA h
  intro c r a hc ha
  obtain ⟨hnode, hne, hdis⟩ := hT c r a hc ha
  obtain ⟨b1, b2, b3⟩ := hB c r hc hne
  refine ⟨hnode, b1, b2, b3, hne, hT.level_pos hc ha, ?_, ?_⟩
  · intro hl
    rcases hdis with ⟨ho, _⟩ | ⟨p, rp, pa, k, _, hp, hppa, hak, _⟩
    · exact ho
    · have := hT.level_pos hp hppa
      rw [hak] at hl
      simp only [level, List.length_append, List.length_singleton] at hl
      omega
  · intro hl
    rcases hdis with ⟨_, k, hk⟩ | ⟨p, rp, pa, k, ho, hp, hppa, hak, hcont, hins⟩
    · simp [level, hk] at hl
    · obtain ⟨_, hpne, _⟩ := hT p rp pa hp hppa
      exact ⟨p, rp, pa, ho, hp, hppa, by simp [parentAddr, hak], hcont, hins, (hB p rp hp hpne).2.1⟩

example : Fresh exT ∧ Acyclic exT ∧ ∃ S, buildTree exClean exInside exOpen 10 exT = some S :=
  ⟨exT_fresh, exT_acyclic, exT_builds⟩

/-- B3, corollary: `Level()` is well defined and the owner chain of a placed outrec is acyclic:
following `owner` from `c` reaches an outrec without owner in exactly `level a - 1` steps. -/
theorem owner_chain_length {clean : Nat → CleanRes} {inside : Nat → Nat → Bool} {openPath : Nat → Option Path}
    {fuel : Nat} {T : Table} {S : St} (hF : Fresh T) (hA : Acyclic T)
    (h : buildTree clean inside openPath fuel T = some S)
    {c : Nat} {r : OutRec} {a : List Nat} (hc : S.recs[c]? = some r) (ha : r.polypath = some a) :
    ∃ (root : Nat) (rr : OutRec), ownerSteps S.recs (level a - 1) c = some root ∧
      S.recs[root]? = some rr ∧ rr.owner = none := by
  obtain ⟨_, _, hT⟩ := buildTree_ginv (clean := clean) (inside := inside) hF hA h
  exact hT.chain a.length a c r rfl hc ha

/-- B3, frame: the owner graph is still acyclic after `BuildTree64`. -/
theorem buildTree_acyclic {clean : Nat → CleanRes} {inside : Nat → Nat → Bool} {openPath : Nat → Option Path}
    {fuel : Nat} {T : Table} {S : St} (hF : Fresh T) (hA : Acyclic T)
    (h : buildTree clean inside openPath fuel T = some S) : Acyclic S.recs :=
  (buildTree_ginv (clean := clean) (inside := inside) hF hA h).1

/-! ## B5. the tree holds the same paths as `BuildPaths64` -/

/- Full statement aimed at (not proved in this generality):
   `Fresh T → Acyclic T → (H1) → (H2: owner/splits of closed outrecs refer to closed outrecs) →
    buildTree … fuel T = some S →
    (polyTreeToPaths S.tree).Perm (buildPaths clean openPath T).1 ∧ S.openPaths = (buildPaths clean openPath T).2`.
   Proved below: the two inclusions on the level of outrecs.  Missing for the full permutation: (i) the multiset
   bookkeeping "tree paths = paths of placed outrecs" (each outrec is placed at most once, which follows from the
   untouched-clause of `rco_spec`, but the `Perm` invariant was not threaded through), (ii) "placed ⇒ closed",
   which needs (H2) threaded through `checkSplitOwner`/`ownerLoop`, (iii) the open-path list. -/

/-- B5, completeness (partial): every closed outrec that has points before `BuildTree64` and whose cleaned ring is a
valid path — i.e. every outrec that contributes a path to `BuildPaths64` — owns a node of the tree holding that
path.  (H1) = cleaned rings have non-empty bounds (C03). -/
theorem tree_paths_complete_partial {clean : Nat → CleanRes} {inside : Nat → Nat → Bool}
    {openPath : Nat → Option Path} {fuel : Nat} {T : Table} {S : St} (hF : Fresh T) (hA : Acyclic T)
    (H1 : ∀ i p, clean i = .path p → (getBounds p).isEmpty = false)
    (h : buildTree clean inside openPath fuel T = some S) :
    ∀ (i : Nat) (r : OutRec) (p : Path), T[i]? = some r → r.isOpen = false → r.hasPts = true → clean i = .path p →
      ∃ (r' : OutRec) (a : List Nat) (n : Tree), S.recs[i]? = some r' ∧ r'.polypath = some a ∧
        S.tree.at? a = some n ∧ n.path = p := by
  obtain ⟨⟨_, hB, hT⟩, _, _, hdone⟩ := buildTree_loopInv (clean := clean) (inside := inside) hF hA h
  intro i r p hi hop hpts hc
  have hlt := getElem?_lt hi
  obtain ⟨r', hr', hs⟩ := hdone i (List.mem_range.mpr hlt) r p hi hop hpts hc (H1 i p hc)
  obtain ⟨a, ha⟩ := Option.isSome_iff_exists.mp hs
  obtain ⟨⟨n, hn, hnp⟩, hne, _⟩ := hT i r' a hr' ha
  have := (hB i r' hr' hne).2.1
  rw [hc] at this
  simp only [CleanRes.path.injEq] at this
  exact ⟨r', a, n, hr', ha, hn, hnp.trans this.symm⟩

example : Fresh exT ∧ Acyclic exT ∧ (∀ i p, exClean i = .path p → (getBounds p).isEmpty = false) ∧
    ∃ S, buildTree exClean exInside exOpen 10 exT = some S := by
  refine ⟨exT_fresh, exT_acyclic, fun i p h => ?_, exT_builds⟩
  match i, h with
  | 0, h => simp only [exClean, CleanRes.path.injEq] at h; subst h; decide
  | 1, h => simp only [exClean, CleanRes.path.injEq] at h; subst h; decide
  | 2, h => simp only [exClean, CleanRes.path.injEq] at h; subst h; decide
  | _ + 3, h => simp [exClean] at h

/-- B5, soundness (partial): no path is invented — an outrec that owns a node had points before `BuildTree64`,
kept its `is_open` flag, and the node holds exactly its cleaned ring `clean c`. -/
theorem tree_paths_sound_partial {clean : Nat → CleanRes} {inside : Nat → Nat → Bool}
    {openPath : Nat → Option Path} {fuel : Nat} {T : Table} {S : St} (hF : Fresh T) (hA : Acyclic T)
    (h : buildTree clean inside openPath fuel T = some S) :
    ∀ (c : Nat) (r' : OutRec) (a : List Nat), S.recs[c]? = some r' → r'.polypath = some a →
      ∃ (r : OutRec) (n : Tree), T[c]? = some r ∧ r.hasPts = true ∧ r.isOpen = r'.isOpen ∧
        clean c = .path n.path ∧ S.tree.at? a = some n := by
  obtain ⟨⟨_, hB, hT⟩, hFr, _⟩ := buildTree_loopInv (clean := clean) (inside := inside) hF hA h
  intro c r' a hc ha
  obtain ⟨⟨n, hn, hnp⟩, hne, _⟩ := hT c r' a hc ha
  obtain ⟨b1, b2, _⟩ := hB c r' hc hne
  have hlt : c < T.size := by
    have h1 := getElem?_lt hc
    have h2 : S.recs.size = T.size := hFr.1
    omega
  obtain ⟨r0, hr0, rs, _⟩ := hFr.2 c T[c] (by simp [hlt])
  rw [hc] at hr0; simp only [Option.some.injEq] at hr0; subst hr0
  exact ⟨T[c], n, by simp [hlt], rs.hasPts_mono b1, rs.isOpen.symm, hnp ▸ b2, hn⟩

/-- B5, multiset invariant (step (1) of the full permutation): after `BuildTree64` the flattened tree
(`PolyTreeToPaths64`) is a permutation of the paths of the outrecs that own a node, taken in outrec order
(`placedPaths`): every `AddChild` is matched by exactly one outrec receiving its polypath, no outrec is placed twice,
and the path of a placed outrec never changes afterwards.  Together with `tree_paths_complete_partial` and
`tree_paths_sound_partial` (placed ⇔ live ∧ cleaned ring valid, up to closedness) what is still missing for the
full `tree_paths_perm` is: "placed ⇒ closed" from (H2), the conversion of the `foldl` in `buildPaths` into the same
`filterMap` over `List.range size`, and the open-path list. -/
theorem tree_paths_perm_placed {clean : Nat → CleanRes} {inside : Nat → Nat → Bool}
    {openPath : Nat → Option Path} {fuel : Nat} {T : Table} {S : St} (hF : Fresh T) (hA : Acyclic T)
    (h : buildTree clean inside openPath fuel T = some S) :
    (polyTreeToPaths S.tree).Perm (placedPaths S.recs) :=
  (buildTree_loopInv (clean := clean) (inside := inside) hF hA h).2.2.1

example : (buildTree exClean exInside exOpen 10 exT).map (fun S => placedPaths S.recs) =
    some [square 0 100, square 10 90, square 20 80] := by decide

/-! ## B6. termination (fuel) and acyclicity of the owner graph -/

/-- B6(b). `IsValidOwner(outrec, testOwner)` is sound: it answers true only if `outrec` is not on the owner
chain of `testOwner`, and false only if it is. -/
theorem isValidOwner_sound {T : Table} {f i s : Nat} :
    (isValidOwner T f i (some s) = some true → ¬ Reach T s i) ∧
    (isValidOwner T f i (some s) = some false → Reach T s i) := by
  refine ⟨fun h => isValidOwner_true h s rfl, fun h => ?_⟩
  obtain ⟨t, ht, hr⟩ := isValidOwner_false h
  simp only [Option.some.injEq] at ht
  exact ht ▸ hr

example : isValidOwner exT 5 2 (some 1) = some true ∧ isValidOwner exT 5 0 (some 2) = some false := by decide

/-- B6(a). `IsValidOwner` terminates within `size + 1` iterations when the owner graph is acyclic and all owner
indices are in range. -/
theorem isValidOwner_terminates {T : Table} (hA : Acyclic T) (hO : OwnersInRange T) (i t : Nat) (ht : t < T.size) :
    ∃ b, isValidOwner T (T.size + 1) i (some t) = some b := by
  have := isValidOwner_fuel hA hO i (some t) (fun t' h => by simp only [Option.some.injEq] at h; exact h ▸ ht)
  cases h : isValidOwner T (T.size + 1) i (some t) with
  | none => exact absurd h this
  | some b => exact ⟨b, rfl⟩

/-- B6(a). `GetRealOutRec` terminates within `size + 1` iterations under the same hypotheses. -/
theorem getRealOutRec_terminates {T : Table} (hA : Acyclic T) (hO : OwnersInRange T) (t : Nat) (ht : t < T.size) :
    ∃ o, getRealOutRec T (T.size + 1) (some t) = some o := by
  have := getRealOutRec_fuel hA hO (some t) (fun t' h => by simp only [Option.some.injEq] at h; exact h ▸ ht)
  cases h : getRealOutRec T (T.size + 1) (some t) with
  | none => exact absurd h this
  | some b => exact ⟨b, rfl⟩

example : Acyclic exT ∧ OwnersInRange exT ∧ 3 < exT.size := ⟨exT_acyclic, exT_inRange, by decide⟩

/-- B6(b). `outrec->owner = split` after `IsValidOwner(outrec, split)` keeps the owner graph acyclic. -/
theorem set_valid_owner_acyclic {T : Table} {f i s : Nat} (hA : Acyclic T)
    (hv : isValidOwner T f i (some s) = some true) :
    Acyclic (T.modify i (fun x => { x with owner := some s })) :=
  hA.set_valid (isValidOwner_true hv s rfl)

example : Acyclic exT ∧ isValidOwner exT 5 2 (some 0) = some true := ⟨exT_acyclic, by decide⟩

/-- B6(b). `outrec->owner = outrec->owner->owner` keeps the owner graph acyclic. -/
theorem skip_owner_acyclic {T : Table} {i o : Nat} {ri ro : OutRec} (hA : Acyclic T)
    (hi : T[i]? = some ri) (hio : ri.owner = some o) (ho : T[o]? = some ro) :
    Acyclic (T.modify i (fun x => { x with owner := ro.owner })) :=
  hA.skip_owner hi hio ho

example : Acyclic exT ∧ exT[2]? = some { owner := some 1, splits := [3] } ∧ exT[1]? = some { owner := some 0 } :=
  ⟨exT_acyclic, rfl, rfl⟩

/-- B6(b). `CheckSplitOwner` preserves acyclicity of the owner graph, changes no `owner` except that of `outrec`
(and that only when it answers true), and when it answers true the new owner passed the containment test. -/
theorem checkSplitOwner_sound {clean : Nat → CleanRes} {inside : Nat → Nat → Bool} {f i : Nat} {T T' : Table}
    {L : List Nat} {b : Bool} (h : checkSplitOwner clean inside f T i L = some (T', b)) :
    (Acyclic T → Acyclic T') ∧ T'.size = T.size ∧
    (∀ j r, T[j]? = some r → (j ≠ i ∨ b = false) → ∃ r', T'[j]? = some r' ∧ r'.owner = r.owner) ∧
    (b = true → ∃ ri s rs, T'[i]? = some ri ∧ ri.owner = some s ∧ T'[s]? = some rs ∧
      rs.bounds.contains ri.bounds = true ∧ inside i s = true) := by
  have hs := checkSplitOwner_spec _ _ _ _ _ h
  cases b with
  | false =>
    obtain ⟨hst, hac⟩ := hs.1 rfl
    refine ⟨hac, hst.1, fun j r hj _ => ?_, fun hb => by simp at hb⟩
    obtain ⟨r', hr', _, _, ow⟩ := hst.2 j r hj
    exact ⟨r', hr', ow (by simp)⟩
  | true =>
    obtain ⟨⟨hst, hac⟩, hok⟩ := hs.2 rfl
    refine ⟨hac, hst.1, fun j r hj hji => ?_, fun _ => hok⟩
    obtain ⟨r', hr', _, _, ow⟩ := hst.2 j r hj
    rcases hji with hji | hji
    · exact ⟨r', hr', ow (by simpa using hji)⟩
    · simp at hji

example : (checkSplitOwner exClean exInside 10 exT 2 [3]).isSome = true := by decide

/-- B6(b/c). the `while (outrec->owner)` loop of `RecursiveCheckOwners` preserves acyclicity, changes no owner
except that of `outrec`, and ends with `outrec->owner` null or an owner that passed the containment test. -/
theorem ownerLoop_sound {clean : Nat → CleanRes} {inside : Nat → Nat → Bool} {f i : Nat} {T T' : Table}
    (h : ownerLoop clean inside f T i = some T') :
    (Acyclic T → Acyclic T') ∧ T'.size = T.size ∧
    (∀ j r, T[j]? = some r → j ≠ i → ∃ r', T'[j]? = some r' ∧ r'.owner = r.owner) ∧
    ((∃ ri, T'[i]? = some ri ∧ ri.owner = none) ∨
     (∃ ri s rs, T'[i]? = some ri ∧ ri.owner = some s ∧ T'[s]? = some rs ∧
      rs.bounds.contains ri.bounds = true ∧ inside i s = true)) := by
  obtain ⟨⟨hst, hac⟩, hd⟩ := ownerLoop_spec _ _ _ h
  refine ⟨hac, hst.1, fun j r hj hji => ?_, hd⟩
  obtain ⟨r', hr', _, _, ow⟩ := hst.2 j r hj
  exact ⟨r', hr', ow (by simpa using hji)⟩

example : (ownerLoop exClean exInside 10 exT 2).isSome = true := by decide


/-! ### B6(c,d): what termination of `ownerLoop` / `checkSplitOwner` needs

Not proved: fuel sufficiency for `ownerLoop` and `checkSplitOwner`.  The hypotheses that a proof needs are
* `Acyclic T ∧ OwnersInRange T` (for `GetRealOutRec`, `IsValidOwner` and for the owner loop itself: every
  iteration that does not `break` replaces `outrec->owner` by `outrec->owner->owner`, which strictly shortens the
  owner chain of `outrec`; acyclicity is preserved by every update, see `checkSplitOwner_sound`/`ownerLoop_sound`);
* all indices in `splits` in range;
* for the recursion of `CheckSplitOwner` through real outrecs: nothing — the `recursive_split == outrec` mark bounds
  it (every real outrec is entered at most once per `outrec`);
* for the *first* recursive call (the `//#942` line, taken for `!split->pts && split->splits`), which is **not**
  guarded by the mark: the `splits` relation restricted to outrecs that are without points (now, or after
  `CheckBounds` disposes them: `clean j = .disposed`) must be well founded,
  `∃ rank, ∀ j r s, T[j]? = some r → (r.hasPts = false ∨ clean j = .disposed) → s ∈ r.splits → rank s < rank j`.
  Nothing in `CheckSplitOwner` establishes this locally; `divergence_942` shows that without it the function
  does not terminate (in the C++: unbounded recursion). -/

/-- a table in which the points-less outrec 1 lists itself in its `splits` -/
def loopT : Table := #[{}, { hasPts := false, splits := [1] }]

/-- B6(d), finding: the `//#942` recursion of `CheckSplitOwner` is not protected by the `recursive_split` mark.
On a table where a points-less outrec is (directly) its own split, no amount of fuel suffices: the C++ recursion
`CheckSplitOwner(outrec, split->splits)` never returns. -/
theorem divergence_942 (clean : Nat → CleanRes) (inside : Nat → Nat → Bool) :
    ∀ fuel, checkSplitOwner clean inside fuel loopT 0 [1] = none := by
  intro fuel
  induction fuel with
  | zero => rfl
  | succ f ih =>
    rw [cso_unfold]
    have h1 : loopT[1]? = some { hasPts := false, splits := [1] } := rfl
    simp only [h1, Bool.not_false, List.isEmpty_cons, Bool.and_self, if_true, ih]


/-! ## C. `SetOwner` -/

/-- C. `SetOwner(outrec, new_owner)`: afterwards `outrec->owner == new_owner`; the table keeps its size; every
outrec other than `outrec` and `new_owner` is unchanged; and if the owner graph was acyclic and
`outrec != new_owner` it is acyclic afterwards (Lean forced the hypothesis `i ≠ no`: `SetOwner(x, x)` creates the
self-loop `x->owner == x`). -/
theorem setOwner_spec {T T' : Table} {fuel i no : Nat} (h : setOwner T fuel i no = some T') :
    T'.size = T.size ∧ (∃ r : OutRec, T'[i]? = some r ∧ r.owner = some no) ∧
    (∀ j : Nat, j ≠ i → j ≠ no → T'[j]? = T[j]?) ∧ (Acyclic T → i ≠ no → Acyclic T') :=
  setOwner_spec' h

/-- example: `SetOwner(0, 2)` on the chain 2 → 1 → 0 (the case `tmp != nullptr`: 0 is on the owner chain of 2) -/
example : (setOwner exT 5 0 2).map (fun T => T.toList.map (·.owner)) = some [some 2, some 0, none, some 2] ∧
    Acyclic exT ∧ (0 : Nat) ≠ 2 := ⟨by decide, exT_acyclic, by decide⟩

end Clipper.Props.C04
