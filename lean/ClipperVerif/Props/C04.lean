/-
Property C04: the PolyTree built by `BuildTree64` (model: `ClipperVerif/Model/Owner.lean`).

Trusted base: the model itself (checked against the C++ by the correspondence harness); the abstract parameters
`clean i` (= `CleanCollinear` + `BuildPath64` of outrec `i`), `inside i j` (= `Path1InsidePath2`), `openPath i`;
the assumption that the outrec table does not grow while the tree is built.
-/
import ClipperVerif.Lemmas.Owner
namespace Clipper.Props.C04
open Clipper Clipper.Model.Owner

/-! ## example data used to show that the hypotheses of the theorems are satisfiable -/

/-- an axis-parallel square ring -/
def square (lo hi : Int) : Path := [⟨lo, lo⟩, ⟨hi, lo⟩, ⟨hi, hi⟩, ⟨lo, hi⟩]
/-- outer ring 0, hole 1 (owner 0), island 2 (owner 1); outrec 3 is dead and owned by 2 -/
def exClean (i : Nat) : CleanRes :=
  match i with
  | 0 => .path (square 0 100) | 1 => .path (square 10 90) | 2 => .path (square 20 80) | _ => .invalid
def exInside (i j : Nat) : Bool := decide (j < i)
def exOpen : Nat → Option Path := fun _ => none
def exT : Table := #[{}, { owner := some 0 }, { owner := some 1, splits := [3] }, { owner := some 2, hasPts := false }]

theorem exT_fresh : Fresh exT := fun _ r h =>
  (by decide : ∀ r ∈ exT.toList, r.polypath = none ∧ r.bounds.isEmpty = true) r
    (Array.mem_toList_iff.mpr (Array.mem_of_getElem? h))

theorem exT_rank : RankOK exT id := by
  intro j r o h ho
  have hlt : j < 4 := getElem?_lt h
  match j, h with
  | 0, h => simp [exT] at h; subst h; simp at ho
  | 1, h => simp [exT] at h; subst h; simp at ho; subst ho; decide
  | 2, h => simp [exT] at h; subst h; simp at ho; subst ho; decide
  | 3, h => simp [exT] at h; subst h; simp at ho; subst ho; decide
  | j + 4, _ => omega

theorem exT_acyclic : Acyclic exT := ⟨id, exT_rank⟩

theorem exT_inRange : OwnersInRange exT := by
  intro j r o h ho
  have := exT_rank j r o h ho
  have hlt : j < 4 := getElem?_lt h
  show o < 4
  simp only [id] at this
  omega

theorem exT_builds : ∃ S, buildTree exClean exInside exOpen 10 exT = some S :=
  Option.isSome_iff_exists.mp (by decide)

/-- the tree that is built for the example: 0 ⊃ 1 ⊃ 2 -/
example : (buildTree exClean exInside exOpen 10 exT).map (fun S => S.recs.toList.map (·.polypath)) =
    some [some [0], some [0, 0], some [0, 0, 0], none] := by decide

/-- a tree with a valid address `[0]` -/
def exTree : Tree := .node [] [.node (square 0 100) []]

/-! ## A. the tree layer -/

/-- A1. `AddChild` adds exactly one path to the flattened tree (`PolyPathToPaths64` of the node). -/
theorem addChild_toPaths {t t' : Tree} {a a' : List Nat} {q : Path}
    (h : addChild t a q = some (t', a')) : t'.toPaths.Perm (q :: t.toPaths) :=
  addChild_toPaths' h

/-- A1'. the same for `PolyTreeToPaths64` (which omits the root's own empty polygon). -/
theorem addChild_polyTreeToPaths {t t' : Tree} {a a' : List Nat} {q : Path}
    (h : addChild t a q = some (t', a')) : (polyTreeToPaths t').Perm (q :: polyTreeToPaths t) :=
  addChild_polyTreeToPaths' h

example : ∃ t' a', addChild exTree [0] (square 10 90) = some (t', a') := ⟨_, _, rfl⟩

/-- A2. `AddChild(q)` adds `Area(q)` to `PolyPath64::Area()` of the tree (in units of one half). -/
theorem addChild_area2 {t t' : Tree} {a a' : List Nat} {q : Path}
    (h : addChild t a q = some (t', a')) : t'.area2 = t.area2 + shoelace2 q :=
  addChild_area2' h

/-- A3. the new child sits one level below its parent, holds the new polygon and has no children;
the parent address was valid, the new address was unused, and every existing node keeps its address and polygon. -/
theorem addChild_at {t t' : Tree} {a a' : List Nat} {q : Path}
    (h : addChild t a q = some (t', a')) :
    (∃ k, a' = a ++ [k]) ∧ parentAddr a' = some a ∧ level a' = level a + 1 ∧
    t'.at? a' = some (.node q []) ∧ t.at? a' = none ∧ (∃ n, t.at? a = some n) ∧
    ∀ b n, t.at? b = some n → ∃ n', t'.at? b = some n' ∧ n'.path = n.path := by
  obtain ⟨k, hk⟩ := addChild_addr h
  refine ⟨⟨k, hk⟩, ?_, ?_, addChild_at_new h, addChild_at_fresh h, addChild_parent_valid h,
    fun b n hb => addChild_at_old h hb⟩
  · subst hk; simp [parentAddr]
  · subst hk; simp [level]

/-- A4. `PolyPath64::Area()` of any node is the sum of the shoelace areas of the flattened paths. -/
theorem tree_area (t : Tree) : t.area2 = (t.toPaths.map shoelace2).sum := tree_area2_eq t

/-- A4'. for the root of a PolyTree (its own polygon is empty) the area is the sum over `PolyTreeToPaths64`. -/
theorem root_area (ks : List Tree) :
    (Tree.node [] ks).area2 = ((polyTreeToPaths (.node [] ks)).map shoelace2).sum := by
  rw [tree_area]
  simp [Tree.toPaths, polyTreeToPaths, Tree.kids, shoelace2_nil]

/-- A4''. flattened path lists that are permutations of each other have the same total area. -/
theorem area_perm {ps qs : List Path} (h : ps.Perm qs) : (ps.map shoelace2).sum = (qs.map shoelace2).sum :=
  perm_sum_int (h.map _)

/-! ## B. ownership resolution -/

/-- B3. Soundness of the parent relation of the PolyTree.  `T` is the outrec table before `BuildTree64`
(`Fresh`: no polypaths, no bounds yet) and its owner graph is acyclic (this hypothesis is *needed*: with a cyclic
owner chain `RecursiveCheckOwners` re-enters the outrec it is working on, see the report).
Then for every outrec `c` that received a node at address `a`: the node holds `c`'s path, which is the cleaned
ring `clean c`, with the recorded bounds; its level is ≥ 1; at level 1 the final owner is null; otherwise the final
owner `p` owns the parent node, and the containment test was evaluated positively on the final data:
bounds of `p` contain bounds of `c`, `Path1InsidePath2(c, p)`, and `p`'s path is `clean p`. -/
theorem tree_parent_sound {clean : Nat → CleanRes} {inside : Nat → Nat → Bool} {openPath : Nat → Option Path}
    {fuel : Nat} {T : Table} {S : St} (hF : Fresh T) (hA : Acyclic T)
    (h : buildTree clean inside openPath fuel T = some S) :
    ∀ (c : Nat) (r : OutRec) (a : List Nat), S.recs[c]? = some r → r.polypath = some a →
      (∃ n, S.tree.at? a = some n ∧ n.path = r.path) ∧
      r.hasPts = true ∧ clean c = .path r.path ∧ r.bounds = getBounds r.path ∧ r.bounds.isEmpty = false ∧
      level a ≥ 1 ∧
      (level a = 1 → r.owner = none) ∧
      (level a ≠ 1 → ∃ (p : Nat) (rp : OutRec) (pa : List Nat),
        r.owner = some p ∧ S.recs[p]? = some rp ∧ rp.polypath = some pa ∧ parentAddr a = some pa ∧
        rp.bounds.contains r.bounds = true ∧ inside c p = true ∧ clean p = .path rp.path) := by
  obtain ⟨_, hB, hT⟩ := buildTree_ginv (clean := clean) (inside := inside) hF hA h
  intro c r a hc ha
  obtain ⟨hnode, hne, hdis⟩ := hT c r a hc ha
  obtain ⟨b1, b2, b3⟩ := hB c r hc hne
  refine ⟨hnode, b1, b2, b3, hne, hT.level_pos hc ha, ?_, ?_⟩
  · intro hl
    rcases hdis with ⟨ho, _⟩ | ⟨p, rp, pa, k, _, hp, hppa, hak, _⟩
    · exact ho
    · have := hT.level_pos hp hppa
      rw [hak] at hl
      simp only [level, List.length_append, List.length_singleton] at hl
      omega
  · intro hl
    rcases hdis with ⟨_, k, hk⟩ | ⟨p, rp, pa, k, ho, hp, hppa, hak, hcont, hins⟩
    · simp [level, hk] at hl
    · obtain ⟨_, hpne, _⟩ := hT p rp pa hp hppa
      exact ⟨p, rp, pa, ho, hp, hppa, by simp [parentAddr, hak], hcont, hins, (hB p rp hp hpne).2.1⟩

example : Fresh exT ∧ Acyclic exT ∧ ∃ S, buildTree exClean exInside exOpen 10 exT = some S :=
  ⟨exT_fresh, exT_acyclic, exT_builds⟩

/-- B3, corollary: `Level()` is well defined and the owner chain of a placed outrec is acyclic:
following `owner` from `c` reaches an outrec without owner in exactly `level a - 1` steps. -/
theorem owner_chain_length {clean : Nat → CleanRes} {inside : Nat → Nat → Bool} {openPath : Nat → Option Path}
    {fuel : Nat} {T : Table} {S : St} (hF : Fresh T) (hA : Acyclic T)
    (h : buildTree clean inside openPath fuel T = some S)
    {c : Nat} {r : OutRec} {a : List Nat} (hc : S.recs[c]? = some r) (ha : r.polypath = some a) :
    ∃ (root : Nat) (rr : OutRec), ownerSteps S.recs (level a - 1) c = some root ∧
      S.recs[root]? = some rr ∧ rr.owner = none := by
  obtain ⟨_, _, hT⟩ := buildTree_ginv (clean := clean) (inside := inside) hF hA h
  exact hT.chain a.length a c r rfl hc ha

/-- B3, frame: the owner graph is still acyclic after `BuildTree64`. -/
theorem buildTree_acyclic {clean : Nat → CleanRes} {inside : Nat → Nat → Bool} {openPath : Nat → Option Path}
    {fuel : Nat} {T : Table} {S : St} (hF : Fresh T) (hA : Acyclic T)
    (h : buildTree clean inside openPath fuel T = some S) : Acyclic S.recs :=
  (buildTree_ginv (clean := clean) (inside := inside) hF hA h).1

/-! ## B5. the tree holds the same paths as `BuildPaths64` -/

/- The full statement is `tree_paths_perm` below.  Its ingredients are kept as theorems of their own:
   `tree_paths_complete_partial` / `tree_paths_sound_partial` (the two inclusions on the level of outrecs) and
   `tree_paths_perm_placed` (the multiset bookkeeping "tree paths = paths of placed outrecs"). -/

/-- B5, completeness (partial): every closed outrec that has points before `BuildTree64` and whose cleaned ring is a
valid path — i.e. every outrec that contributes a path to `BuildPaths64` — owns a node of the tree holding that
path.  (H1) = cleaned rings have non-empty bounds (C03). -/
theorem tree_paths_complete_partial {clean : Nat → CleanRes} {inside : Nat → Nat → Bool}
    {openPath : Nat → Option Path} {fuel : Nat} {T : Table} {S : St} (hF : Fresh T) (hA : Acyclic T)
    (H1 : ∀ i p, clean i = .path p → (getBounds p).isEmpty = false)
    (h : buildTree clean inside openPath fuel T = some S) :
    ∀ (i : Nat) (r : OutRec) (p : Path), T[i]? = some r → r.isOpen = false → r.hasPts = true → clean i = .path p →
      ∃ (r' : OutRec) (a : List Nat) (n : Tree), S.recs[i]? = some r' ∧ r'.polypath = some a ∧
        S.tree.at? a = some n ∧ n.path = p := by
  obtain ⟨⟨_, hB, hT⟩, _, _, hdone⟩ := buildTree_loopInv (clean := clean) (inside := inside) hF hA h
  intro i r p hi hop hpts hc
  have hlt := getElem?_lt hi
  obtain ⟨r', hr', hs⟩ := hdone i (List.mem_range.mpr hlt) r p hi hop hpts hc (H1 i p hc)
  obtain ⟨a, ha⟩ := Option.isSome_iff_exists.mp hs
  obtain ⟨⟨n, hn, hnp⟩, hne, _⟩ := hT i r' a hr' ha
  have := (hB i r' hr' hne).2.1
  rw [hc] at this
  simp only [CleanRes.path.injEq] at this
  exact ⟨r', a, n, hr', ha, hn, hnp.trans this.symm⟩

example : Fresh exT ∧ Acyclic exT ∧ (∀ i p, exClean i = .path p → (getBounds p).isEmpty = false) ∧
    ∃ S, buildTree exClean exInside exOpen 10 exT = some S := by
  refine ⟨exT_fresh, exT_acyclic, fun i p h => ?_, exT_builds⟩
  match i, h with
  | 0, h => simp only [exClean, CleanRes.path.injEq] at h; subst h; decide
  | 1, h => simp only [exClean, CleanRes.path.injEq] at h; subst h; decide
  | 2, h => simp only [exClean, CleanRes.path.injEq] at h; subst h; decide
  | _ + 3, h => simp [exClean] at h

/-- B5, soundness (partial): no path is invented — an outrec that owns a node had points before `BuildTree64`,
kept its `is_open` flag, and the node holds exactly its cleaned ring `clean c`. -/
theorem tree_paths_sound_partial {clean : Nat → CleanRes} {inside : Nat → Nat → Bool}
    {openPath : Nat → Option Path} {fuel : Nat} {T : Table} {S : St} (hF : Fresh T) (hA : Acyclic T)
    (h : buildTree clean inside openPath fuel T = some S) :
    ∀ (c : Nat) (r' : OutRec) (a : List Nat), S.recs[c]? = some r' → r'.polypath = some a →
      ∃ (r : OutRec) (n : Tree), T[c]? = some r ∧ r.hasPts = true ∧ r.isOpen = r'.isOpen ∧
        clean c = .path n.path ∧ S.tree.at? a = some n := by
  obtain ⟨⟨_, hB, hT⟩, hFr, _⟩ := buildTree_loopInv (clean := clean) (inside := inside) hF hA h
  intro c r' a hc ha
  obtain ⟨⟨n, hn, hnp⟩, hne, _⟩ := hT c r' a hc ha
  obtain ⟨b1, b2, _⟩ := hB c r' hc hne
  have hlt : c < T.size := by
    have h1 := getElem?_lt hc
    have h2 : S.recs.size = T.size := hFr.1
    omega
  obtain ⟨r0, hr0, rs, _⟩ := hFr.2 c T[c] (by simp [hlt])
  rw [hc] at hr0; simp only [Option.some.injEq] at hr0; subst hr0
  exact ⟨T[c], n, by simp [hlt], rs.hasPts_mono b1, rs.isOpen.symm, hnp ▸ b2, hn⟩

/-- B5, multiset invariant (step (1) of the full permutation): after `BuildTree64` the flattened tree
(`PolyTreeToPaths64`) is a permutation of the paths of the outrecs that own a node, taken in outrec order
(`placedPaths`): every `AddChild` is matched by exactly one outrec receiving its polypath, no outrec is placed twice,
and the path of a placed outrec never changes afterwards.  `tree_paths_perm` combines it with
`tree_paths_complete_partial`, `tree_paths_sound_partial`, "placed ⇒ closed" (from (H2)) and `buildPaths_filterMap`. -/
theorem tree_paths_perm_placed {clean : Nat → CleanRes} {inside : Nat → Nat → Bool}
    {openPath : Nat → Option Path} {fuel : Nat} {T : Table} {S : St} (hF : Fresh T) (hA : Acyclic T)
    (h : buildTree clean inside openPath fuel T = some S) :
    (polyTreeToPaths S.tree).Perm (placedPaths S.recs) :=
  (buildTree_loopInv (clean := clean) (inside := inside) hF hA h).2.2.1

example : (buildTree exClean exInside exOpen 10 exT).map (fun S => placedPaths S.recs) =
    some [square 0 100, square 10 90, square 20 80] := by decide

/-- B5. `BuildPaths64` written as two `filterMap`s over the outrec table: the closed solution is `clean i` of the
live closed outrecs whose cleaned ring is a valid path, the open solution is `openPath i` of the live open outrecs,
both in outrec order. -/
theorem buildPaths_filterMap (clean : Nat → CleanRes) (openPath : Nat → Option Path) (T : Table) :
    buildPaths clean openPath T =
      ((List.range T.size).filterMap (closedPathOf clean T), (List.range T.size).filterMap (openPathOf openPath T)) :=
  buildPaths_eq clean openPath T

/-- the hypotheses of `tree_paths_perm` on the example table (checked through their decidable versions) -/
theorem exT_closedWorld : ClosedWorld exT := closedWorldB_sound (by decide)
theorem exT_h1 : ∀ (i : Nat) (r : OutRec) (p : Path), exT[i]? = some r → r.isOpen = false → r.hasPts = true →
    exClean i = .path p → (getBounds p).isEmpty = false := h1B_sound (by decide)

/-- **B5, `tree_paths_perm` in full.**  `T` is the outrec table handed to `BuildTree64` (`Fresh`), its owner graph is
acyclic, (H1) the cleaned ring of every live closed outrec has non-empty bounds (a consequence of C03: a cleaned ring
has ≥ 3 points that are not all collinear), and (H2 = `ClosedWorld`) `owner` and `splits` of closed outrecs name closed
outrecs of the table.  Then, whatever the containment test answers and however much fuel was given, if the tree is built
at all, `PolyTreeToPaths64` of the tree is a permutation of the closed paths `BuildPaths64` returns for the same table
(nothing lost, nothing duplicated, nothing invented), and the open paths are identical, in the same order.
The decidable versions of all four hypotheses are evaluated on every real table by the harness (`OWNERSHYP`). -/
theorem tree_paths_perm {clean : Nat → CleanRes} {inside : Nat → Nat → Bool} {openPath : Nat → Option Path}
    {fuel : Nat} {T : Table} {S : St} (hF : Fresh T) (hA : Acyclic T)
    (H1 : ∀ (i : Nat) (r : OutRec) (p : Path), T[i]? = some r → r.isOpen = false → r.hasPts = true →
      clean i = .path p → (getBounds p).isEmpty = false)
    (H2 : ClosedWorld T) (h : buildTree clean inside openPath fuel T = some S) :
    (polyTreeToPaths S.tree).Perm (buildPaths clean openPath T).1 ∧
    S.openPaths = (buildPaths clean openPath T).2 := by
  obtain ⟨hI, hX⟩ := buildTree_loopInvX hF hA H2 h
  rw [buildPaths_eq]
  refine ⟨?_, hX.2.2.2⟩
  have := hI.2.2.1
  unfold PInv at this
  rw [placedPaths_eq_closed H1 hI hX] at this
  exact this

example : Fresh exT ∧ Acyclic exT ∧ ClosedWorld exT ∧ ∃ S, buildTree exClean exInside exOpen 10 exT = some S :=
  ⟨exT_fresh, exT_acyclic, exT_closedWorld, exT_builds⟩

/-- the example with an open outrec: 0 closed, 1 open (with points, never placed, its path is an open solution path) -/
def exT2 : Table := #[{}, { isOpen := true }, { owner := some 0 }]
def exOpen2 : Nat → Option Path := fun i => if i = 1 then some [⟨0, 0⟩, ⟨5, 5⟩] else none
example : (buildTree exClean exInside exOpen2 10 exT2).map (fun S => (polyTreeToPaths S.tree, S.openPaths)) =
      some (buildPaths exClean exOpen2 exT2) ∧
    (buildPaths exClean exOpen2 exT2) = ([square 0 100, square 20 80], [[⟨0, 0⟩, ⟨5, 5⟩]]) ∧
    ClosedWorld exT2 := ⟨by decide, by decide, closedWorldB_sound (by decide)⟩

/-- B5, necessity of (H2): if a closed outrec is owned by an open one, the open outrec receives a tree node, so the
tree holds a path the Paths execution does not return.  (Real tables satisfy (H2): `OWNERSHYP`.) -/
def badT : Table := #[{ isOpen := true }, { owner := some 0 }]
theorem h2_needed :
    Fresh badT ∧ Acyclic badT ∧ ¬ ClosedWorld badT ∧
    (buildTree exClean (fun _ _ => true) (fun _ => none) 10 badT).map (fun S => (polyTreeToPaths S.tree).length) = some 2 ∧
    (buildPaths exClean (fun _ => none) badT).1.length = 1 := by
  refine ⟨freshB_sound (by decide), ownerRankB_acyclic (rk := fun j => j) (by decide), ?_, by decide, by decide⟩
  intro h
  obtain ⟨r, hr, ho⟩ := (h 1 { owner := some 0 } rfl rfl).1 0 rfl
  have : r = { isOpen := true } := by
    have e : badT[0]? = some { isOpen := true } := rfl
    rw [e] at hr
    simpa using hr.symm
  subst this
  simp at ho

/-- B5, corollary (`tree_area` of the design): `PolyTree64::Area()` equals the sum of the areas of the closed paths the
Paths execution returns (in units of one half, exact). -/
theorem tree_area_eq_paths_area {clean : Nat → CleanRes} {inside : Nat → Nat → Bool} {openPath : Nat → Option Path}
    {fuel : Nat} {T : Table} {S : St} (hF : Fresh T) (hA : Acyclic T)
    (H1 : ∀ (i : Nat) (r : OutRec) (p : Path), T[i]? = some r → r.isOpen = false → r.hasPts = true →
      clean i = .path p → (getBounds p).isEmpty = false)
    (H2 : ClosedWorld T) (h : buildTree clean inside openPath fuel T = some S) :
    S.tree.area2 = ((buildPaths clean openPath T).1.map shoelace2).sum := by
  have hroot := buildTree_root hF hA h
  have hp := (tree_paths_perm hF hA H1 H2 h).1
  rw [← area_perm hp]
  cases hS : S.tree with
  | node p ks =>
    rw [hS] at hroot
    simp only [Tree.path] at hroot
    subst hroot
    exact root_area ks

/-! ## B6. termination (fuel) and acyclicity of the owner graph -/

/-- B6(b). `IsValidOwner(outrec, testOwner)` is sound: it answers true only if `outrec` is not on the owner
chain of `testOwner`, and false only if it is. -/
theorem isValidOwner_sound {T : Table} {f i s : Nat} :
    (isValidOwner T f i (some s) = some true → ¬ Reach T s i) ∧
    (isValidOwner T f i (some s) = some false → Reach T s i) := by
  refine ⟨fun h => isValidOwner_true h s rfl, fun h => ?_⟩
  obtain ⟨t, ht, hr⟩ := isValidOwner_false h
  simp only [Option.some.injEq] at ht
  exact ht ▸ hr

example : isValidOwner exT 5 2 (some 1) = some true ∧ isValidOwner exT 5 0 (some 2) = some false := by decide

/-- B6(a). `IsValidOwner` terminates within `size + 1` iterations when the owner graph is acyclic and all owner
indices are in range. -/
theorem isValidOwner_terminates {T : Table} (hA : Acyclic T) (hO : OwnersInRange T) (i t : Nat) (ht : t < T.size) :
    ∃ b, isValidOwner T (T.size + 1) i (some t) = some b := by
  have := isValidOwner_fuel hA hO i (some t) (fun t' h => by simp only [Option.some.injEq] at h; exact h ▸ ht)
  cases h : isValidOwner T (T.size + 1) i (some t) with
  | none => exact absurd h this
  | some b => exact ⟨b, rfl⟩

/-- B6(a). `GetRealOutRec` terminates within `size + 1` iterations under the same hypotheses. -/
theorem getRealOutRec_terminates {T : Table} (hA : Acyclic T) (hO : OwnersInRange T) (t : Nat) (ht : t < T.size) :
    ∃ o, getRealOutRec T (T.size + 1) (some t) = some o := by
  have := getRealOutRec_fuel hA hO (some t) (fun t' h => by simp only [Option.some.injEq] at h; exact h ▸ ht)
  cases h : getRealOutRec T (T.size + 1) (some t) with
  | none => exact absurd h this
  | some b => exact ⟨b, rfl⟩

example : Acyclic exT ∧ OwnersInRange exT ∧ 3 < exT.size := ⟨exT_acyclic, exT_inRange, by decide⟩

/-- B6(b). `outrec->owner = split` after `IsValidOwner(outrec, split)` keeps the owner graph acyclic. -/
theorem set_valid_owner_acyclic {T : Table} {f i s : Nat} (hA : Acyclic T)
    (hv : isValidOwner T f i (some s) = some true) :
    Acyclic (T.modify i (fun x => { x with owner := some s })) :=
  hA.set_valid (isValidOwner_true hv s rfl)

example : Acyclic exT ∧ isValidOwner exT 5 2 (some 0) = some true := ⟨exT_acyclic, by decide⟩

/-- B6(b). `outrec->owner = outrec->owner->owner` keeps the owner graph acyclic. -/
theorem skip_owner_acyclic {T : Table} {i o : Nat} {ri ro : OutRec} (hA : Acyclic T)
    (hi : T[i]? = some ri) (hio : ri.owner = some o) (ho : T[o]? = some ro) :
    Acyclic (T.modify i (fun x => { x with owner := ro.owner })) :=
  hA.skip_owner hi hio ho

example : Acyclic exT ∧ exT[2]? = some { owner := some 1, splits := [3] } ∧ exT[1]? = some { owner := some 0 } :=
  ⟨exT_acyclic, rfl, rfl⟩

/-- B6(b). `CheckSplitOwner` preserves acyclicity of the owner graph, changes no `owner` except that of `outrec`
(and that only when it answers true), and when it answers true the new owner passed the containment test. -/
theorem checkSplitOwner_sound {clean : Nat → CleanRes} {inside : Nat → Nat → Bool} {f i : Nat} {T T' : Table}
    {L : List Nat} {b : Bool} (h : checkSplitOwner clean inside f T i L = some (T', b)) :
    (Acyclic T → Acyclic T') ∧ T'.size = T.size ∧
    (∀ j r, T[j]? = some r → (j ≠ i ∨ b = false) → ∃ r', T'[j]? = some r' ∧ r'.owner = r.owner) ∧
    (b = true → ∃ ri s rs, T'[i]? = some ri ∧ ri.owner = some s ∧ T'[s]? = some rs ∧
      rs.bounds.contains ri.bounds = true ∧ inside i s = true) := by
  have hs := checkSplitOwner_spec _ _ _ _ _ h
  cases b with
  | false =>
    obtain ⟨hst, hac⟩ := hs.1 rfl
    refine ⟨hac, hst.1, fun j r hj _ => ?_, fun hb => by simp at hb⟩
    obtain ⟨r', hr', _, _, ow⟩ := hst.2 j r hj
    exact ⟨r', hr', ow (by simp)⟩
  | true =>
    obtain ⟨⟨hst, hac⟩, hok⟩ := hs.2 rfl
    refine ⟨hac, hst.1, fun j r hj hji => ?_, fun _ => hok⟩
    obtain ⟨r', hr', _, _, ow⟩ := hst.2 j r hj
    rcases hji with hji | hji
    · exact ⟨r', hr', ow (by simpa using hji)⟩
    · simp at hji

example : (checkSplitOwner exClean exInside 10 exT 2 [3]).isSome = true := by decide

/-- B6(b/c). the `while (outrec->owner)` loop of `RecursiveCheckOwners` preserves acyclicity, changes no owner
except that of `outrec`, and ends with `outrec->owner` null or an owner that passed the containment test. -/
theorem ownerLoop_sound {clean : Nat → CleanRes} {inside : Nat → Nat → Bool} {f i : Nat} {T T' : Table}
    (h : ownerLoop clean inside f T i = some T') :
    (Acyclic T → Acyclic T') ∧ T'.size = T.size ∧
    (∀ j r, T[j]? = some r → j ≠ i → ∃ r', T'[j]? = some r' ∧ r'.owner = r.owner) ∧
    ((∃ ri, T'[i]? = some ri ∧ ri.owner = none) ∨
     (∃ ri s rs, T'[i]? = some ri ∧ ri.owner = some s ∧ T'[s]? = some rs ∧
      rs.bounds.contains ri.bounds = true ∧ inside i s = true)) := by
  obtain ⟨⟨hst, hac⟩, hd⟩ := ownerLoop_spec _ _ _ h
  refine ⟨hac, hst.1, fun j r hj hji => ?_, hd⟩
  obtain ⟨r', hr', _, _, ow⟩ := hst.2 j r hj
  exact ⟨r', hr', ow (by simpa using hji)⟩

example : (ownerLoop exClean exInside 10 exT 2).isSome = true := by decide


/-! ### B6(c,d): termination of `CheckSplitOwner`, the owner loop, `SetOwner`, `RecursiveCheckOwners`, `BuildTree64`

Hypotheses (all four are evaluated on every real table by the harness, `OWNERSHYP`):
* `Acyclic T`, `OwnersInRange T` — for `GetRealOutRec`, `IsValidOwner`, and for the owner loop itself;
* `SplitsInRange T` — every entry of every `splits` list is an index of the table;
* `SplitsWF clean T` — the `splits` relation restricted to outrecs that are without points (now, or after `CheckBounds`
  disposes them: `clean j = .disposed`) is well founded: `∃ rk, ∀ j r s, T[j]? = some r →
  (r.hasPts = false ∨ clean j = .disposed) → s ∈ r.splits → rk s < rk j`.  This is what the unguarded `//#942` call
  needs; `divergence_942` shows that without it the function does not return.

Measures (Lean forces them):
* `CheckSplitOwner(outrec, L)`: lexicographically (`unmarked T outrec` = number of outrecs with points that are not
  marked `recursive_split == outrec`, `maxRk rk L` = 1 + largest `rk` of an entry of `L`, `L.length`).  The call guarded
  by the mark decreases the first component (the mark is set before the call, nothing ever unmarks or revives);
  the `//#942` call leaves the first component alone and decreases the second (all entries of `split->splits` have
  smaller `rk` than `split`, which is an entry of `L`); the loop decreases the third.  As one number:
  `csoFuel R M u ρ ℓ = u·(R+1)·(M+1) + ρ·(M+1) + ℓ + 1` with `R` > every rank and `M` ≥ every `splits` length.
* the `while (outrec->owner)` loop: the rank of `outrec->owner` in the owner graph (`ownerRank`); every iteration that
  does not `break` replaces `outrec->owner` by `outrec->owner->owner`; `CheckSplitOwner`/`CheckBounds` change no owner.
* the first loop of `SetOwner`: the rank of `new_owner->owner`.
* `RecursiveCheckOwners`: the number of outrecs not on the stack of pending calls; the stacked outrecs are pairwise
  different because each reaches the current `outrec` by `owner` links and the owner graph is acyclic.  (That the
  dereference `outrec->owner->polypath->AddChild` is safe is part of the theorem: the owner passed the containment
  test, so its bounds are not empty, so the recursive call gave it a polypath.) -/

/-- the four hypotheses on the example table -/
theorem exT_splitsInRange : SplitsInRange exT := splitsInRangeB_sound (by decide)
theorem exT_splitsWF : SplitsWF exClean exT := splitsRankB_wf (rk := fun _ => 0) (by decide)

/-- a table in which `splits` matters: outrec 2 was split off outrec 1 and later lost its points (it lists 3),
outrec 3 is a hole of 0 that is only found through `splits`; the point-less outrec 2 is entered by the `//#942` call -/
def exT3 : Table :=
  #[{}, { owner := some 0, splits := [2] }, { owner := some 1, hasPts := false, splits := [3] }, { owner := some 1 }]
def exClean3 (i : Nat) : CleanRes :=
  match i with
  | 0 => .path (square 0 100) | 1 => .path (square 10 40) | 3 => .path (square 50 90) | _ => .invalid
theorem exT3_hyps : Fresh exT3 ∧ Acyclic exT3 ∧ OwnersInRange exT3 ∧ SplitsInRange exT3 ∧ SplitsWF exClean3 exT3 :=
  ⟨freshB_sound (by decide), ownerRankB_acyclic (rk := fun j => j) (by decide), ownersInRangeB_sound (by decide),
   splitsInRangeB_sound (by decide), splitsRankB_wf (rk := fun j => 10 - j) (by decide)⟩
example : (buildTree exClean3 (fun i j => decide (j = 0 ∧ i ≠ 0)) exOpen (treeFuel exT3) exT3).map
    (fun S => S.recs.toList.map (·.polypath)) = some [some [0], some [0, 0], none, some [0, 1]] := by decide

/-- B6(c). **Fuel sufficiency for `CheckSplitOwner`.**  There is a rank `rk ≤ size` witnessing `SplitsWF` such that
`csoFuel` of the measure `(unmarked, maxRk rk L, L.length)` is enough fuel for `CheckSplitOwner(i, L)`. -/
theorem checkSplitOwner_terminates {clean : Nat → CleanRes} {inside : Nat → Nat → Bool} {T : Table} {i : Nat}
    {L : List Nat} (hA : Acyclic T) (hO : OwnersInRange T) (hS : SplitsInRange T) (hW : SplitsWF clean T)
    (hi : i < T.size) (hL : ∀ s ∈ L, s < T.size) :
    ∃ rk : Nat → Nat, SplitsRank clean T rk ∧ (∀ j, rk j < T.size + 1) ∧
      ∀ f, csoFuel (T.size + 1) (maxSplits T) (unmarked T i) (maxRk rk L) L.length ≤ f →
        ∃ T' b, checkSplitOwner clean inside f T i L = some (T', b) := by
  obtain ⟨rk, hT⟩ := TermInv.of_hyps hA hO hS hW
  refine ⟨rk, hT.wf, hT.rkR, fun f hf => ?_⟩
  have := checkSplitOwner_total (inside := inside) f T L hT hi hL hf
  cases h : checkSplitOwner clean inside f T i L with
  | none => exact absurd h this
  | some p => exact ⟨p.1, p.2, rfl⟩

example : Acyclic exT3 ∧ OwnersInRange exT3 ∧ SplitsInRange exT3 ∧ SplitsWF exClean3 exT3 ∧ 3 < exT3.size ∧
    ∀ s ∈ [2], s < exT3.size :=
  ⟨exT3_hyps.2.1, exT3_hyps.2.2.1, exT3_hyps.2.2.2.1, exT3_hyps.2.2.2.2, by decide, by decide⟩

/-- B6(c), closed form: `csoMax (size+1) (maxSplits T) size` units of fuel suffice for every `CheckSplitOwner` call on a
`splits` list of the table. -/
theorem checkSplitOwner_terminates_splits {clean : Nat → CleanRes} {inside : Nat → Nat → Bool} {T : Table} {i o : Nat}
    {ro : OutRec} (hA : Acyclic T) (hO : OwnersInRange T) (hS : SplitsInRange T) (hW : SplitsWF clean T)
    (hi : i < T.size) (ho : T[o]? = some ro) :
    ∀ f, csoMax (T.size + 1) (maxSplits T) T.size ≤ f →
      ∃ T' b, checkSplitOwner clean inside f T i ro.splits = some (T', b) := by
  obtain ⟨rk, hT⟩ := TermInv.of_hyps hA hO hS hW
  intro f hf
  have hle : csoFuel (T.size + 1) (maxSplits T) (unmarked T i) (maxRk rk ro.splits) ro.splits.length ≤
      csoMax (T.size + 1) (maxSplits T) T.size :=
    csoFuel_mono (unmarked_le_size T i) (maxRk_le (fun s _ => hT.rkR s)) (hT.len o ro ho)
  have := checkSplitOwner_total (inside := inside) f T ro.splits hT hi (fun s hs => hS o ro s ho hs)
    (Nat.le_trans hle hf)
  cases h : checkSplitOwner clean inside f T i ro.splits with
  | none => exact absurd h this
  | some p => exact ⟨p.1, p.2, rfl⟩

/-- B6(c). **Fuel sufficiency for the `while (outrec->owner)` loop of `RecursiveCheckOwners`**: for every rank function
of the owner graph, `csoMax + ownerRank + 1` units suffice (`ownerRank` = 1 + rank of `outrec->owner`). -/
theorem ownerLoop_terminates {clean : Nat → CleanRes} {inside : Nat → Nat → Bool} {T : Table} {i : Nat}
    {rank : Nat → Nat} (hR : RankOK T rank) (hO : OwnersInRange T) (hS : SplitsInRange T) (hW : SplitsWF clean T)
    (hi : i < T.size) :
    ∀ f, csoMax (T.size + 1) (maxSplits T) T.size + ownerRank rank T i + 1 ≤ f →
      ∃ T', ownerLoop clean inside f T i = some T' := by
  obtain ⟨rk, hT⟩ := TermInv.of_hyps ⟨rank, hR⟩ hO hS hW
  intro f hf
  have := ownerLoop_total (inside := inside) f T hT hi hR hf
  cases h : ownerLoop clean inside f T i with
  | none => exact absurd h this
  | some T' => exact ⟨T', rfl⟩

example : RankOK exT3 (fun j => j) ∧ OwnersInRange exT3 ∧ SplitsInRange exT3 ∧ SplitsWF exClean3 exT3 ∧ 3 < exT3.size :=
  ⟨ownerRankB_sound (by decide), exT3_hyps.2.2.1, exT3_hyps.2.2.2.1, exT3_hyps.2.2.2.2, by decide⟩

/-- B6(c). **Fuel sufficiency for the first loop of `SetOwner`** (`while (new_owner->owner && !new_owner->owner->pts)`):
`ownerRank + 1` units suffice; and `SetOwner` as a whole terminates with `size + 2` units. -/
theorem skipDeadOwners_terminates {T : Table} {no : Nat} {rank : Nat → Nat} (hR : RankOK T rank)
    (hO : OwnersInRange T) (hno : no < T.size) :
    ∀ f, ownerRank rank T no + 1 ≤ f → ∃ T1, skipDeadOwners T f no = some T1 := by
  intro f hf
  obtain ⟨T1, h, _⟩ := skipDeadOwners_total f T no hR hO hno hf
  exact ⟨T1, h⟩

theorem setOwner_terminates {T : Table} {i no : Nat} (hA : Acyclic T) (hO : OwnersInRange T) (hi : i < T.size)
    (hno : no < T.size) : ∃ T', setOwner T (T.size + 2) i no = some T' := by
  have := setOwner_total hA hO hi hno
  cases h : setOwner T (T.size + 2) i no with
  | none => exact absurd h this
  | some T' => exact ⟨T', rfl⟩

example : RankOK exT (fun j => j) ∧ Acyclic exT ∧ OwnersInRange exT ∧ 0 < exT.size ∧ 2 < exT.size :=
  ⟨exT_rank, exT_acyclic, exT_inRange, by decide, by decide⟩

/-- B6(c). **Fuel sufficiency for `RecursiveCheckOwners`** from any state the outer loop of `BuildTree64` can be in
(`GInv` = acyclic owners, bounds computed by `CheckBounds`, the tree matches the polypaths — the invariant of
`tree_parent_sound`): `treeFuel` units suffice. -/
theorem recursiveCheckOwners_terminates {clean : Nat → CleanRes} {inside : Nat → Nat → Bool} {S : St} {i : Nat}
    (hG : GInv clean inside S) (hO : OwnersInRange S.recs) (hS : SplitsInRange S.recs) (hW : SplitsWF clean S.recs)
    (hi : i < S.recs.size) :
    ∀ f, treeFuel S.recs ≤ f → ∃ S', recursiveCheckOwners clean inside f S i = some S' := by
  obtain ⟨rk, hT⟩ := TermInv.of_hyps hG.1 hO hS hW
  intro f hf
  obtain ⟨S', h, _⟩ := rco_total (inside := inside) f S i [] hT hG.2.1 hG.2.2 hi List.nodup_nil (by simp)
    (by unfold treeFuel treeFuelOf at hf; simp only [List.length_nil]; omega)
  exact ⟨S', h⟩

example : GInv exClean3 exInside { recs := exT3 } ∧ OwnersInRange exT3 ∧ SplitsInRange exT3 ∧ SplitsWF exClean3 exT3 :=
  ⟨exT3_hyps.1.ginv exT3_hyps.2.1, exT3_hyps.2.2.1, exT3_hyps.2.2.2.1, exT3_hyps.2.2.2.2⟩

/-- B6(c,d). **`checkOwners_terminates`: fuel sufficiency for `BuildTree64`** and hence for every
`RecursiveCheckOwners`, owner loop and `CheckSplitOwner` it runs: on a fresh table with acyclic in-range owners, in-range
`splits` and a well-founded `splits` relation on point-less outrecs, `treeFuel T` units of fuel suffice, for every
containment test and every result of `CleanCollinear`. -/
theorem checkOwners_terminates {clean : Nat → CleanRes} {inside : Nat → Nat → Bool} {openPath : Nat → Option Path}
    {T : Table} (hF : Fresh T) (hA : Acyclic T) (hO : OwnersInRange T) (hS : SplitsInRange T)
    (hW : SplitsWF clean T) :
    ∀ fuel, treeFuel T ≤ fuel → ∃ S, buildTree clean inside openPath fuel T = some S := by
  obtain ⟨rk, hT⟩ := TermInv.of_hyps hA hO hS hW
  intro fuel hf
  exact buildTree_total hF hT hf

example : Fresh exT3 ∧ Acyclic exT3 ∧ OwnersInRange exT3 ∧ SplitsInRange exT3 ∧ SplitsWF exClean3 exT3 := exT3_hyps

/-- B6(d). `SplitsWF` holds whenever no outrec lists itself, directly or transitively, in `splits`
(`SplitsAcyclic`: the whole `splits` relation has a rank). -/
theorem splitsAcyclic_splitsWF {clean : Nat → CleanRes} {T : Table} (h : SplitsAcyclic T) : SplitsWF clean T := h.wf

example : SplitsAcyclic exT3 := splitsAllRankB_sound (rk := fun j => 10 - j) (by decide)

/-- a table in which the points-less outrec 1 lists itself in its `splits` -/
def loopT : Table := #[{}, { hasPts := false, splits := [1] }]

/-- B6(d), finding: the `//#942` recursion of `CheckSplitOwner` is not protected by the `recursive_split` mark.
On a table where a points-less outrec is (directly) its own split, no amount of fuel suffices: the C++ recursion
`CheckSplitOwner(outrec, split->splits)` never returns. -/
theorem divergence_942 (clean : Nat → CleanRes) (inside : Nat → Nat → Bool) :
    ∀ fuel, checkSplitOwner clean inside fuel loopT 0 [1] = none := by
  intro fuel
  induction fuel with
  | zero => rfl
  | succ f ih =>
    rw [cso_unfold]
    have h1 : loopT[1]? = some { hasPts := false, splits := [1] } := rfl
    simp only [h1, Bool.not_false, List.isEmpty_cons, Bool.and_self, if_true, ih]

/-- B6(d). The well-foundedness hypothesis of `checkOwners_terminates` is exactly what `loopT` violates: the point-less
outrec 1 lists itself. -/
theorem loopT_not_splitsWF (clean : Nat → CleanRes) : ¬ SplitsWF clean loopT := by
  intro ⟨rk, hr⟩
  have := hr 1 { hasPts := false, splits := [1] } 1 rfl (Or.inl rfl) (by simp)
  omega

/-- all other hypotheses of `checkOwners_terminates` hold for `loopT`, so `SplitsWF` cannot be dropped -/
theorem loopT_other_hyps : Fresh loopT ∧ Acyclic loopT ∧ OwnersInRange loopT ∧ SplitsInRange loopT :=
  ⟨freshB_sound (by decide), ownerRankB_acyclic (rk := fun j => j) (by decide), ownersInRangeB_sound (by decide),
   splitsInRangeB_sound (by decide)⟩


/-! ## D. depth parity -/

/-- D. **`tree_depth_parity`.**  `Geo c p` is any transitive relation ("the ring of outrec `c` lies inside the ring of
outrec `p`") that the containment test respects (`inside c p = true → Geo c p`).  Then for every outrec `c` that owns
a node at address `a` (`level a` = `PolyPath::Level()`, `isHole a` = `PolyPath::IsHole()`):
* `level a ≥ 1` and `IsHole()` ⇔ the level is even; a top-level node is not a hole, and a child is a hole exactly when
  its parent is not (hole / outer alternation);
* `c` is nested inside `level a − 1` rings of the tree: for every `k` with `1 ≤ k < level a` the `k`-th owner of `c`
  owns the ancestor node `k` levels up, and `Geo c` holds for it.
So `IsHole()` = "nested inside an odd number of ancestors".  That no *other* ring of the tree contains `c` needs
disjointness of sibling rings, which the model cannot know; it is judged on real trees with exact arithmetic
(`TREECHECK`: child inside parent, outside siblings, orientation = depth parity).  The model's `level`/`isHole` are
compared with `PolyPath::Level()`/`IsHole()` of every node of every replayed real tree (`OWNERSLVL`). -/
theorem tree_depth_parity {clean : Nat → CleanRes} {inside : Nat → Nat → Bool} {openPath : Nat → Option Path}
    {fuel : Nat} {T : Table} {S : St} (hF : Fresh T) (hA : Acyclic T)
    (h : buildTree clean inside openPath fuel T = some S)
    {Geo : Nat → Nat → Prop} (G1 : ∀ c p, inside c p = true → Geo c p) (G2 : ∀ a b c, Geo a b → Geo b c → Geo a c) :
    ∀ (c : Nat) (r : OutRec) (a : List Nat), S.recs[c]? = some r → r.polypath = some a →
      1 ≤ level a ∧ isHole a = decide (level a % 2 = 0) ∧ (level a = 1 → isHole a = false) ∧
      (∀ (p : Nat) (rp : OutRec) (pa : List Nat), r.owner = some p → S.recs[p]? = some rp → rp.polypath = some pa →
        level a = level pa + 1 ∧ isHole a = !isHole pa) ∧
      (∀ k, 1 ≤ k → k < level a → ∃ (anc : Nat) (ra : OutRec), ownerSteps S.recs k c = some anc ∧
        S.recs[anc]? = some ra ∧ ra.polypath = some (a.take (level a - k)) ∧ Geo c anc) := by
  obtain ⟨_, _, hT⟩ := buildTree_ginv (clean := clean) (inside := inside) hF hA h
  intro c r a hc ha
  have hpos : 1 ≤ level a := hT.level_pos hc ha
  refine ⟨hpos, ?_, ?_, ?_, fun k h1 h2 => hT.ancestors G1 G2 k c r a hc ha h1 h2⟩
  · rw [isHole_eq]; simp [hpos]
  · intro h1; rw [isHole_eq]; simp [h1]
  · intro p rp pa ho hp hppa
    rcases (hT c r a hc ha).2.2 with ⟨hnone, _⟩ | ⟨p', rp', pa', k, ho', hp', hppa', hak, _⟩
    · rw [hnone] at ho; simp at ho
    · rw [ho] at ho'; simp only [Option.some.injEq] at ho'; subst ho'
      rw [hp] at hp'; simp only [Option.some.injEq] at hp'; subst hp'
      rw [hppa] at hppa'; simp only [Option.some.injEq] at hppa'; subst hppa'
      have hne : pa ≠ [] := by
        intro e
        have := hT.level_pos hp hppa
        rw [e] at this
        simp at this
      subst hak
      exact ⟨by simp [level], isHole_child pa k hne⟩

example : Fresh exT ∧ Acyclic exT ∧ (∃ S, buildTree exClean exInside exOpen 10 exT = some S) ∧
    (∀ c p, exInside c p = true → (fun c p => p < c) c p) ∧
    (∀ a b c : Nat, (fun c p => p < c) a b → (fun c p => p < c) b c → (fun c p => p < c) a c) :=
  ⟨exT_fresh, exT_acyclic, exT_builds, fun c p h => by simpa [exInside] using h, fun a b c h1 h2 => by simp only at *; omega⟩

/-- the levels and hole flags of the example tree 0 ⊃ 1 ⊃ 2 -/
example : (buildTree exClean exInside exOpen 10 exT).map
    (fun S => S.recs.toList.map (fun r => r.polypath.map (fun a => (level a, isHole a)))) =
    some [some (1, false), some (2, true), some (3, false), none] := by decide

/-! ## C. `SetOwner` -/

/-- C. `SetOwner(outrec, new_owner)`: afterwards `outrec->owner == new_owner`; the table keeps its size; every
outrec other than `outrec` and `new_owner` is unchanged; and if the owner graph was acyclic and
`outrec != new_owner` it is acyclic afterwards (Lean forced the hypothesis `i ≠ no`: `SetOwner(x, x)` creates the
self-loop `x->owner == x`). -/
theorem setOwner_spec {T T' : Table} {fuel i no : Nat} (h : setOwner T fuel i no = some T') :
    T'.size = T.size ∧ (∃ r : OutRec, T'[i]? = some r ∧ r.owner = some no) ∧
    (∀ j : Nat, j ≠ i → j ≠ no → T'[j]? = T[j]?) ∧ (Acyclic T → i ≠ no → Acyclic T') :=
  setOwner_spec' h

/-- example: `SetOwner(0, 2)` on the chain 2 → 1 → 0 (the case `tmp != nullptr`: 0 is on the owner chain of 2) -/
example : (setOwner exT 5 0 2).map (fun T => T.toList.map (·.owner)) = some [some 2, some 0, none, some 2] ∧
    Acyclic exT ∧ (0 : Nat) ≠ 2 := ⟨by decide, exT_acyclic, by decide⟩

end Clipper.Props.C04
