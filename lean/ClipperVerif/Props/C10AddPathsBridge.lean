/-
Bridge between the two models of `AddPaths_`: the *counting* model of the C10 slice (`Model/AddPaths.lean`: which cells
are written — `written`, `stepPath`, `cursor`) and the *content* model of this slice (`Model/AddPathsRings.lean`: what is
written — rings, flags, minima).  They agree on every count, so C10's `writes ≤ allocation` theorem speaks about exactly
the slots whose content `Props/C13AddPaths.lean` describes.
-/
import ClipperVerif.Model.AddPaths
import ClipperVerif.Props.C13AddPaths
namespace Clipper.Props.C10AddPathsBridge
open Clipper Clipper.Model.AddPathsRings Clipper.Lemmas.AddPathsRings

theorem changes_eq (prev : Pt) (t : List Pt) : Clipper.Model.AddPaths.changes prev t = (pushPts (some prev) t).length := by
  induction t generalizing prev with
  | nil => rfl
  | cons b t ih =>
    simp only [Clipper.Model.AddPaths.changes, pushPts_some_cons]
    by_cases h : b = prev
    · subst h; simp [ih]
    · have h' : ¬ prev = b := fun e => h e.symm
      simp [h, h', ih]; omega

/-- **counting_model_cnt.**  The counting model's `written` is this model's `cnt` (slots written for the path). -/
theorem counting_model_cnt (isOpen : Bool) (p : List Pt) : Clipper.Model.AddPaths.written p = (addPath isOpen p).cnt := by
  rw [(addPath_sizes isOpen p).1]
  cases p with
  | nil => rfl
  | cons a t => simp [Clipper.Model.AddPaths.written, changes_eq]; omega

/-- **counting_model_cursor.**  One step of the counting model advances the cursor by this model's `used`. -/
theorem counting_model_cursor (isOpen : Bool) (c : Clipper.Model.AddPaths.Cur) (p : List Pt) :
    (Clipper.Model.AddPaths.stepPath c p).v = c.v + (addPath isOpen p).used := by
  have hr := Clipper.Props.C13AddPaths.addPath_ring isOpen p
  simp only [Clipper.Model.AddPaths.stepPath, counting_model_cnt isOpen p]
  by_cases h : (pushPts none p).length < 2
  · rw [hr.1, if_pos h, (hr.2.2.2.1 h).2.2.2]; rfl
  · rw [hr.1, if_neg h, (hr.2.2.2.2 (by omega)).2.2.1]

/-- all paths of a call: the counting model's final cursor is the sum of the `used` counts, i.e. the `base` the next path
would get in `addPathsFrom` -/
theorem counting_model_cursor_all (isOpen : Bool) (paths : List (List Pt)) (c : Clipper.Model.AddPaths.Cur) :
    (paths.foldl Clipper.Model.AddPaths.stepPath c).v = c.v + (paths.map (fun p => (addPath isOpen p).used)).sum := by
  induction paths generalizing c with
  | nil => simp
  | cons p ps ih =>
    simp only [List.foldl_cons, List.map_cons, List.sum_cons]
    rw [ih, counting_model_cursor isOpen]; omega

end Clipper.Props.C10AddPathsBridge
