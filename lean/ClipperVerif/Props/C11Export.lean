/-
C11, export clause: "an out-of-range clip type, fill rule or precision at the C boundary is rejected with a negative
return value; they are never silently accepted".

The validation prefixes below are *generated from the source on every run* (tools/extract_calls.py →
Generated/ExportCalls.lean): the leading `if (cond) return <constant>;` statements of each exported function, which
by construction precede every call and every assignment to an output parameter recorded in the same value.
The theorems quantify over all argument values (`Int`, hence every `uint8_t` / `int` value).
-/
import ClipperVerif.Model.ExportCalls
import ClipperVerif.Generated.ExportCalls
set_option linter.unusedSimpArgs false
namespace Clipper.Props.C11Export
open Clipper.Model.ExportCalls Clipper.Gen.Export

/-- the documented behaviour of the four `BooleanOp*` exports: -5 for a precision outside ±8 (double variants only),
-4 for a clip type above `Xor` (4), -3 for a fill rule above `Negative` (3), otherwise the call proceeds -/
def documentedCode (hasPrecision : Bool) (a : VArgs) : Option String :=
  if hasPrecision && (decide (a.precision < -8) || decide (a.precision > 8)) then some "-5"
  else if a.cliptype > 4 then some "-4"
  else if a.fillrule > 3 then some "-3"
  else none

/-- `BooleanOp64` returns exactly the documented code for every argument tuple. -/
theorem export_rejects_BooleanOp64 (a : VArgs) :
    evalGuards a fn_BooleanOp64.validation = documentedCode false a := by
  simp only [fn_BooleanOp64, evalGuards, evalAny, Atom.eval, documentedCode]
  by_cases h1 : a.cliptype > 4 <;> by_cases h2 : a.fillrule > 3 <;> simp [h1, h2]

theorem export_rejects_BooleanOp_PolyTree64 (a : VArgs) :
    evalGuards a fn_BooleanOp_PolyTree64.validation = documentedCode false a := by
  simp only [fn_BooleanOp_PolyTree64, evalGuards, evalAny, Atom.eval, documentedCode]
  by_cases h1 : a.cliptype > 4 <;> by_cases h2 : a.fillrule > 3 <;> simp [h1, h2]

theorem export_rejects_BooleanOpD (a : VArgs) :
    evalGuards a fn_BooleanOpD.validation = documentedCode true a := by
  simp only [fn_BooleanOpD, evalGuards, evalAny, Atom.eval, documentedCode]
  by_cases h0 : a.precision < -8 <;> by_cases h0' : a.precision > 8 <;>
  by_cases h1 : a.cliptype > 4 <;> by_cases h2 : a.fillrule > 3 <;> simp [h0, h0', h1, h2]

theorem export_rejects_BooleanOp_PolyTreeD (a : VArgs) :
    evalGuards a fn_BooleanOp_PolyTreeD.validation = documentedCode true a := by
  simp only [fn_BooleanOp_PolyTreeD, evalGuards, evalAny, Atom.eval, documentedCode]
  by_cases h0 : a.precision < -8 <;> by_cases h0' : a.precision > 8 <;>
  by_cases h1 : a.cliptype > 4 <;> by_cases h2 : a.fillrule > 3 <;> simp [h0, h0', h1, h2]

/-- Consequence in the words of the property: a bad argument is never silently accepted, and a good tuple is never rejected. -/
theorem export_rejects (a : VArgs) :
    ((a.cliptype > 4 ∨ a.fillrule > 3) → (evalGuards a fn_BooleanOp64.validation).isSome ∧ (evalGuards a fn_BooleanOp_PolyTree64.validation).isSome)
    ∧ ((a.cliptype > 4 ∨ a.fillrule > 3 ∨ a.precision < -8 ∨ a.precision > 8) →
        (evalGuards a fn_BooleanOpD.validation).isSome ∧ (evalGuards a fn_BooleanOp_PolyTreeD.validation).isSome)
    ∧ ((0 ≤ a.cliptype ∧ a.cliptype ≤ 4 ∧ 0 ≤ a.fillrule ∧ a.fillrule ≤ 3 ∧ -8 ≤ a.precision ∧ a.precision ≤ 8) →
        evalGuards a fn_BooleanOp64.validation = none ∧ evalGuards a fn_BooleanOpD.validation = none
        ∧ evalGuards a fn_BooleanOp_PolyTree64.validation = none ∧ evalGuards a fn_BooleanOp_PolyTreeD.validation = none) := by
  rw [export_rejects_BooleanOp64, export_rejects_BooleanOp_PolyTree64, export_rejects_BooleanOpD, export_rejects_BooleanOp_PolyTreeD]
  simp only [documentedCode]
  refine ⟨?_, ?_, ?_⟩
  · intro h
    by_cases h1 : a.cliptype > 4 <;> by_cases h2 : a.fillrule > 3 <;> simp_all <;> (repeat' split) <;> simp
  · intro h
    by_cases h0 : a.precision < -8 <;> by_cases h0' : a.precision > 8 <;>
    by_cases h1 : a.cliptype > 4 <;> by_cases h2 : a.fillrule > 3 <;> simp_all <;> (repeat' split) <;> simp
  · intro ⟨_, h1, _, h2, h3, h4⟩
    have e1 : ¬ a.cliptype > 4 := by omega
    have e2 : ¬ a.fillrule > 3 := by omega
    have e3 : ¬ a.precision < -8 := by omega
    have e4 : ¬ a.precision > 8 := by omega
    simp [e1, e2, e3, e4]

example : evalGuards ⟨5, 0, 2, false, false⟩ fn_BooleanOpD.validation = some "-4" := by decide
example : evalGuards ⟨1, 200, 2, false, false⟩ fn_BooleanOp64.validation = some "-3" := by decide
example : evalGuards ⟨1, 1, 9, false, false⟩ fn_BooleanOp_PolyTreeD.validation = some "-5" := by decide
example : evalGuards ⟨4, 3, -8, false, false⟩ fn_BooleanOpD.validation = none := by decide

/-- the pointer-returning double exports: `nullptr` for a precision outside ±8 or a null input … -/
def documentedNull (a : VArgs) : Option String :=
  if decide (a.precision < -8) || decide (a.precision > 8) || a.pathsNull then some "nullptr" else none

theorem export_rejects_InflatePathsD (a : VArgs) :
    evalGuards a fn_InflatePathsD.validation = documentedNull a := by
  simp only [fn_InflatePathsD, evalGuards, evalAny, Atom.eval, documentedNull]
  by_cases h0 : a.precision < -8 <;> by_cases h0' : a.precision > 8 <;> cases h : a.pathsNull <;> simp [h0, h0']

theorem export_rejects_InflatePathD (a : VArgs) :
    evalGuards a fn_InflatePathD.validation = documentedNull a := by
  simp only [fn_InflatePathD, evalGuards, evalAny, Atom.eval, documentedNull]
  by_cases h0 : a.precision < -8 <;> by_cases h0' : a.precision > 8 <;> cases h : a.pathsNull <;> simp [h0, h0']

/-- … and `RectClipD` / `RectClipLinesD` additionally for an empty rectangle -/
def documentedNullRect (hasPrecision : Bool) (a : VArgs) : Option String :=
  if a.rectEmpty || a.pathsNull || (hasPrecision && (decide (a.precision < -8) || decide (a.precision > 8))) then some "nullptr" else none

theorem export_rejects_RectClipD (a : VArgs) :
    evalGuards a fn_RectClipD.validation = documentedNullRect true a := by
  simp only [fn_RectClipD, evalGuards, evalAny, Atom.eval, documentedNullRect]
  by_cases h0 : a.precision < -8 <;> by_cases h0' : a.precision > 8 <;> cases h : a.pathsNull <;> cases h' : a.rectEmpty <;> simp [h0, h0', h, h']

theorem export_rejects_RectClipLinesD (a : VArgs) :
    evalGuards a fn_RectClipLinesD.validation = documentedNullRect true a := by
  simp only [fn_RectClipLinesD, evalGuards, evalAny, Atom.eval, documentedNullRect]
  by_cases h0 : a.precision < -8 <;> by_cases h0' : a.precision > 8 <;> cases h : a.pathsNull <;> cases h' : a.rectEmpty <;> simp [h0, h0', h, h']

theorem export_rejects_RectClip64 (a : VArgs) :
    evalGuards a fn_RectClip64.validation = documentedNullRect false a := by
  simp only [fn_RectClip64, evalGuards, evalAny, Atom.eval, documentedNullRect]
  cases h : a.pathsNull <;> cases h' : a.rectEmpty <;> simp [h, h']

theorem export_rejects_RectClipLines64 (a : VArgs) :
    evalGuards a fn_RectClipLines64.validation = documentedNullRect false a := by
  simp only [fn_RectClipLines64, evalGuards, evalAny, Atom.eval, documentedNullRect]
  cases h : a.pathsNull <;> cases h' : a.rectEmpty <;> simp [h, h']

end Clipper.Props.C11Export
