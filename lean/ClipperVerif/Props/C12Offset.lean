/-
C12, ClipperOffset and RectClip64 clauses.

`OffsetFrameLocal` — "the parameters in force while a path is offset depend only on delta, on that path and on its own
group's parameters, whatever was added before and in whatever order" — is **false** for the code as it stands:
two witnesses (`offset_frame_local_false_endtype`, `offset_frame_local_false_delta`), which are the inputs the harness
reports under kf.offset-endtype-leak / kf.offset-delta-abs-leak.  `offset_frame_local_partial` proves it under the two
hypotheses that exclude exactly these triggers.
-/
import ClipperVerif.Model.OffsetState
import ClipperVerif.Model.RectClipFrame
namespace Clipper.Props.C12
open Clipper Clipper.Model.OffsetState

/-- the full-strength statement (for every prior state of the object, every delta, every list of groups) -/
def OffsetFrameLocal : Prop :=
  ∀ (st : OState) (delta : Int) (gs : List Group), delta ≠ 0 →
    (executeFrames st delta gs).2 = gs.map (fun g => g.pathsIn.map (refFrame delta g))

/-! ### the two counterexamples -/

/-- (a) {(0,0),(100,0)}, {(1000,1000),(1100,1000),(1100,1100)}, Miter, Joined, delta 10 -/
def witnessA : List Group :=
  [mkGroup [[⟨0, 0⟩, ⟨100, 0⟩], [⟨1000, 1000⟩, ⟨1100, 1000⟩, ⟨1100, 1100⟩]] .miter .joined]

/-- (b) AddPaths({{}}, Miter, Polygon); AddPaths({square}, Miter, Polygon); delta −10 -/
def witnessB : List Group :=
  [mkGroup [[]] .miter .polygon, mkGroup [[⟨0, 0⟩, ⟨100, 0⟩, ⟨100, 100⟩, ⟨0, 100⟩]] .miter .polygon]

/-- the 3-point path of a Joined group is offset as an open path with square caps after a 2-point path … -/
theorem witnessA_frames :
    (executeFrames {} 10 witnessA).2 =
      [[⟨.openPath, 10, .miter, .square, none⟩, ⟨.openPath, 10, .miter, .square, none⟩]] := by decide
/-- … although on its own parameters it is offset as Joined -/
theorem witnessA_ref :
    witnessA.map (fun g => g.pathsIn.map (refFrame 10 g)) =
      [[⟨.openPath, 10, .miter, .square, none⟩, ⟨.joined, 10, .miter, .joined, none⟩]] := by decide

/-- the square is offset with +10 after the point-less group … -/
theorem witnessB_frames :
    (executeFrames {} (-10) witnessB).2 = [[⟨.polygon, 10, .miter, .polygon, none⟩], [⟨.polygon, 10, .miter, .polygon, none⟩]] := by decide
/-- … although its own parameters say −10 -/
theorem witnessB_ref :
    witnessB.map (fun g => g.pathsIn.map (refFrame (-10) g)) =
      [[⟨.polygon, 10, .miter, .polygon, none⟩], [⟨.polygon, -10, .miter, .polygon, none⟩]] := by decide

theorem offset_frame_local_false_endtype : ¬ OffsetFrameLocal := by
  intro h
  have := h {} 10 witnessA (by decide)
  rw [witnessA_frames, witnessA_ref] at this
  exact absurd this (by decide)

theorem offset_frame_local_false_delta : ¬ OffsetFrameLocal := by
  intro h
  have := h {} (-10) witnessB (by decide)
  rw [witnessB_frames, witnessB_ref] at this
  exact absurd this (by decide)

/-! ### the part that holds -/

/-- in a Joined group no 2-vertex path is followed by a path that has neither 1 nor 2 vertices -/
def joinedOk : Paths → Bool
  | [] => true
  | p :: ps => if p.length = 2 then ps.all (fun q => decide (q.length = 1) || decide (q.length = 2)) else joinedOk ps

/-- the members as `DoGroupOffset`'s header leaves them for group `g` -/
structure Hdr (delta : Int) (g : Group) (st : OState) : Prop where
  gd : st.groupDelta = refGroupDelta delta g
  jt : st.joinType = g.joinType
  steps : (g.joinType = .round ∨ g.endType = .round) → st.stepsFor = some (refGroupDelta delta g)

/-- frame of a single-point path -/
def pointFrame (g : Group) (st : OState) : Frame :=
  { kind := (if st.groupDelta < 1 then .skipped else .point), groupDelta := st.groupDelta,
    joinType := g.joinType, endType := .polygon,
    steps := (if g.joinType = .round then st.stepsFor else none) }

/-- the members after the `pathLen == 2 && Joined` statement -/
def pathState (g : Group) (st : OState) (p : Path) : OState :=
  if p.length = 2 ∧ g.endType = .joined then
    { st with endType := (if g.joinType = .round then .round else .square) } else st

/-- frame of a path with 0 or ≥ 2 vertices, from the members in force -/
def pathFrame (st1 : OState) : Frame :=
  { kind := (if st1.endType = .polygon then .polygon else if st1.endType = .joined then .joined else .openPath),
    groupDelta := st1.groupDelta, joinType := st1.joinType, endType := st1.endType,
    steps := (if usesRound st1.joinType st1.endType then st1.stepsFor else none) }

theorem pathLoop_point (g : Group) (st : OState) (p : Path) (ps : Paths) (hp : p.length = 1) :
    pathLoop g st (p :: ps) = ((pathLoop g st ps).1, pointFrame g st :: (pathLoop g st ps).2) := by
  rw [pathLoop]; simp only [hp, if_true]; rfl

theorem pathLoop_path (g : Group) (st : OState) (p : Path) (ps : Paths) (hp : p.length ≠ 1) :
    pathLoop g st (p :: ps) =
      ((pathLoop g (pathState g st p) ps).1, pathFrame (pathState g st p) :: (pathLoop g (pathState g st p) ps).2) := by
  rw [pathLoop]; simp only [hp, if_false]; rfl

private theorem frame_point (delta : Int) (g : Group) (st : OState) (h : Hdr delta g st) (p : Path) (hp : p.length = 1) :
    pointFrame g st = refFrame delta g p := by
  unfold refFrame pointFrame
  simp only [hp, if_true, h.gd]
  by_cases hj : g.joinType = .round
  · simp [hj, h.steps (Or.inl hj)]
  · simp [hj]

private theorem frame_path (delta : Int) (g : Group) (st1 : OState) (h : Hdr delta g st1) (p : Path) (hp : p.length ≠ 1)
    (het : st1.endType = refEndType g p.length) : pathFrame st1 = refFrame delta g p := by
  unfold refFrame pathFrame
  simp only [hp, if_false, h.gd, h.jt, het]
  by_cases hu : usesRound g.joinType (refEndType g p.length) = true
  · have hr : g.joinType = .round ∨ g.endType = .round := by
      unfold usesRound at hu
      simp only [Bool.or_eq_true, decide_eq_true_eq] at hu
      rcases hu with hu | hu
      · exact Or.inl hu
      · unfold refEndType at hu
        split at hu
        · split at hu
          · rename_i hjr; exact Or.inl hjr
          · cases hu
        · exact Or.inr hu
    simp [hu, h.steps hr]
  · simp [hu]

private theorem hdr_pathState {delta : Int} {g : Group} {st : OState} (h : Hdr delta g st) (p : Path) :
    Hdr delta g (pathState g st p) := by
  unfold pathState; split
  · exact ⟨h.gd, h.jt, h.steps⟩
  · exact h

private theorem delta_pathState (g : Group) (st : OState) (p : Path) : (pathState g st p).delta = st.delta := by
  unfold pathState; split <;> rfl

/-- the leaked state: every remaining path has 1 or 2 vertices, so the overwritten `end_type_` is the right one anyway -/
private theorem pathLoop_leaked (delta : Int) (g : Group) (hj : g.endType = .joined) :
    ∀ (ps : Paths) (st : OState), Hdr delta g st → st.endType = (if g.joinType = .round then .round else .square) →
      ps.all (fun q => decide (q.length = 1) || decide (q.length = 2)) = true →
      (pathLoop g st ps).2 = ps.map (refFrame delta g) ∧ (pathLoop g st ps).1.delta = st.delta
  | [], st, _, _, _ => by simp [pathLoop]
  | p :: ps, st, h, he, hall => by
    simp only [List.all_cons, Bool.and_eq_true, Bool.or_eq_true, decide_eq_true_eq] at hall
    obtain ⟨hp, hrest⟩ := hall
    rcases hp with hp | hp
    · have ih := pathLoop_leaked delta g hj ps st h he hrest
      rw [pathLoop_point g st p ps hp, List.map_cons]
      exact ⟨by rw [ih.1, frame_point delta g st h p hp], ih.2⟩
    · have hne : p.length ≠ 1 := by omega
      have hst1 : (pathState g st p).endType = (if g.joinType = .round then .round else .square) := by
        simp [pathState, hp, hj]
      have he1 : (pathState g st p).endType = refEndType g p.length := by
        rw [hst1]; simp [refEndType, hp, hj]
      have ih := pathLoop_leaked delta g hj ps (pathState g st p) (hdr_pathState h p) hst1 hrest
      rw [pathLoop_path g st p ps hne, List.map_cons]
      exact ⟨by rw [ih.1, frame_path delta g _ (hdr_pathState h p) p hne he1], by rw [ih.2, delta_pathState]⟩

private theorem pathLoop_ok (delta : Int) (g : Group) :
    ∀ (ps : Paths) (st : OState), Hdr delta g st → st.endType = g.endType → (g.endType = .joined → joinedOk ps = true) →
      (pathLoop g st ps).2 = ps.map (refFrame delta g) ∧ (pathLoop g st ps).1.delta = st.delta
  | [], st, _, _, _ => by simp [pathLoop]
  | p :: ps, st, h, he, hok => by
    by_cases hp : p.length = 1
    · have hok' : g.endType = .joined → joinedOk ps = true := by
        intro hj; have := hok hj; simpa [joinedOk, hp] using this
      have ih := pathLoop_ok delta g ps st h he hok'
      rw [pathLoop_point g st p ps hp, List.map_cons]
      exact ⟨by rw [ih.1, frame_point delta g st h p hp], ih.2⟩
    · rw [pathLoop_path g st p ps hp, List.map_cons]
      by_cases hc : p.length = 2 ∧ g.endType = .joined
      · -- the overwrite happens: the rest of the group must be short paths
        obtain ⟨hp2, hj⟩ := hc
        have hst1 : (pathState g st p).endType = (if g.joinType = .round then .round else .square) := by
          simp [pathState, hp2, hj]
        have he1 : (pathState g st p).endType = refEndType g p.length := by
          rw [hst1]; simp [refEndType, hp2, hj]
        have hrest : ps.all (fun q => decide (q.length = 1) || decide (q.length = 2)) = true := by
          have := hok hj; simpa [joinedOk, hp2] using this
        have ih := pathLoop_leaked delta g hj ps (pathState g st p) (hdr_pathState h p) hst1 hrest
        exact ⟨by rw [ih.1, frame_path delta g _ (hdr_pathState h p) p hp he1], by rw [ih.2, delta_pathState]⟩
      · have hps : pathState g st p = st := by simp [pathState, hc]
        have he1 : st.endType = refEndType g p.length := by simp [refEndType, hc, he]
        have hok' : g.endType = .joined → joinedOk ps = true := by
          intro hj
          have hp2 : p.length ≠ 2 := fun e => hc ⟨e, hj⟩
          have := hok hj; simpa [joinedOk, hp2] using this
        have ih := pathLoop_ok delta g ps st h he hok'
        rw [hps]
        exact ⟨by rw [ih.1, frame_path delta g st h p hp he1], ih.2⟩

private theorem header_ok (delta : Int) (g : Group) (st : OState) (hd : st.delta = delta)
    (hB : 0 < delta ∨ (g.endType = .polygon → g.lowest.isSome = true)) :
    Hdr delta g (groupHeader st g) ∧ (groupHeader st g).endType = g.endType ∧ (groupHeader st g).delta = delta := by
  have habs : 0 < delta → iabs delta = delta := by intro h; unfold iabs; omega
  have hD : refDelta delta g = delta := by
    unfold refDelta
    split
    · rename_i hc
      rcases hB with h | h
      · exact habs h
      · have := h hc.1; cases hlo : g.lowest <;> simp [hlo] at this hc
    · rfl
  subst hd
  by_cases hp : g.endType = .polygon
  · have hDp : (if g.lowest.isNone = true then iabs st.delta else st.delta) = st.delta := by
      have := hD; unfold refDelta at this; simpa [hp] using this
    have hgd : (if g.isReversed = true then -st.delta else st.delta) = refGroupDelta st.delta g := by
      simp [refGroupDelta, hp, hD]
    unfold groupHeader
    simp only [hp, if_true, hDp, reduceCtorEq, or_false]
    by_cases hjr : g.joinType = .round
    · simp only [hjr, if_true]
      exact ⟨⟨hgd, hjr.symm, fun _ => by rw [← hgd]⟩, by trivial, by trivial⟩
    · simp only [hjr, if_false]
      refine ⟨⟨hgd, rfl, fun h => ?_⟩, by trivial, by trivial⟩
      rcases h with h | h
      · exact absurd h hjr
      · rw [hp] at h; cases h
  · have hgd : iabs st.delta = refGroupDelta st.delta g := by simp [refGroupDelta, hp]
    unfold groupHeader
    simp only [hp, if_false]
    by_cases hr : g.joinType = .round ∨ g.endType = .round
    · simp only [hr, if_true]
      exact ⟨⟨hgd, rfl, fun _ => by rw [← hgd]⟩, by trivial, by trivial⟩
    · simp only [hr, if_false]
      exact ⟨⟨hgd, rfl, fun h => absurd h hr⟩, by trivial, by trivial⟩

private theorem groupLoop_ok (delta : Int) :
    ∀ (gs : List Group) (st : OState), st.delta = delta →
      (∀ g ∈ gs, g.endType = .joined → joinedOk g.pathsIn = true) →
      (0 < delta ∨ ∀ g ∈ gs, g.endType = .polygon → g.lowest.isSome = true) →
      (groupLoop st gs).2 = gs.map (fun g => g.pathsIn.map (refFrame delta g))
  | [], _, _, _, _ => by simp [groupLoop]
  | g :: gs, st, hd, hA, hB => by
    have hBg : 0 < delta ∨ (g.endType = .polygon → g.lowest.isSome = true) := by
      rcases hB with h | h
      · exact Or.inl h
      · exact Or.inr (h g List.mem_cons_self)
    obtain ⟨hh, he, hdel⟩ := header_ok delta g st hd hBg
    have hl := pathLoop_ok delta g g.pathsIn (groupHeader st g) hh he (hA g List.mem_cons_self)
    have hB' : 0 < delta ∨ ∀ g' ∈ gs, g'.endType = .polygon → g'.lowest.isSome = true := by
      rcases hB with h | h
      · exact Or.inl h
      · exact Or.inr (fun g' hg' => h g' (List.mem_cons_of_mem _ hg'))
    have ih := groupLoop_ok delta gs (doGroupOffset st g).1 (by unfold doGroupOffset; rw [hl.2, hdel])
      (fun g' hg' => hA g' (List.mem_cons_of_mem _ hg')) hB'
    simp only [groupLoop, List.map_cons]
    rw [ih]
    unfold doGroupOffset
    rw [hl.1]

/-- **Frame locality, the part that holds.**  For every state the object was left in, every delta and every list of
groups such that (A) in Joined groups no 2-vertex path precedes a path with 0 or ≥ 3 vertices, and (B) delta is
positive or no Polygon group is without points: each path is offset under parameters that depend only on delta, its own
group's parameters and its own number of vertices — in particular not on the order of paths in the group, on the other
groups, their order, or on earlier calls. -/
theorem offset_frame_local_partial (st : OState) (delta : Int) (gs : List Group)
    (hA : ∀ g ∈ gs, g.endType = .joined → joinedOk g.pathsIn = true)
    (hB : 0 < delta ∨ ∀ g ∈ gs, g.endType = .polygon → g.lowest.isSome = true) :
    (executeFrames st delta gs).2 = gs.map (fun g => g.pathsIn.map (refFrame delta g)) :=
  groupLoop_ok delta gs { st with delta := delta } rfl hA hB

/-- `refFrame` is what a fresh object uses when `p` is the only path of a group with `g`'s parameters (no hypothesis
needed when delta is positive; for a negative delta the group must have a lowest path, as every group with a point has) -/
theorem refFrame_is_alone (delta : Int) (g : Group) (p : Path)
    (hB : 0 < delta ∨ (g.endType = .polygon → g.lowest.isSome = true)) :
    (executeFrames {} delta [{ g with pathsIn := [p] }]).2 = [[refFrame delta g p]] := by
  have hA : ∀ g' ∈ [{ g with pathsIn := [p] }], g'.endType = .joined → joinedOk g'.pathsIn = true := by
    intro g' hg' _
    simp only [List.mem_singleton] at hg'
    subst hg'
    simp [joinedOk]
  have hB' : 0 < delta ∨ ∀ g' ∈ [{ g with pathsIn := [p] }], g'.endType = .polygon → g'.lowest.isSome = true := by
    rcases hB with h | h
    · exact Or.inl h
    · refine Or.inr (fun g' hg' => ?_)
      simp only [List.mem_singleton] at hg'
      subst hg'
      exact h
  have := offset_frame_local_partial {} delta [{ g with pathsIn := [p] }] hA hB'
  rw [this]
  simp only [List.map_cons, List.map_nil]
  rfl

example : (0 : Int) < 10 ∨ ((mkGroup [[⟨0, 0⟩, ⟨5, 0⟩]] .round .joined).endType = .polygon →
    (mkGroup [[⟨0, 0⟩, ⟨5, 0⟩]] .round .joined).lowest.isSome = true) := Or.inl (by decide)

/-- whenever a Round join or cap can be produced, the arc parameters in force were computed from the `group_delta_` in
force — for every input, including the ones that trigger the two leaks (no hypothesis on the paths). -/
theorem round_steps_fresh_in_group (g : Group) :
    ∀ (ps : Paths) (st : OState), ((g.joinType = .round ∨ g.endType = .round) → st.stepsFor = some st.groupDelta) →
      (st.endType = g.endType ∨ st.endType = (if g.joinType = .round then .round else .square)) → st.joinType = g.joinType →
      ∀ f ∈ (pathLoop g st ps).2, f.steps = none ∨ f.steps = some f.groupDelta
  | [], _, _, _, _ => by simp [pathLoop]
  | p :: ps, st, hs, he, hj => by
    intro f hf
    by_cases hp : p.length = 1
    · rw [pathLoop_point g st p ps hp] at hf
      rcases List.mem_cons.mp hf with rfl | hf
      · by_cases hr : g.joinType = .round
        · simp [pointFrame, hr, hs (Or.inl hr)]
        · simp [pointFrame, hr]
      · exact round_steps_fresh_in_group g ps st hs he hj f hf
    · rw [pathLoop_path g st p ps hp] at hf
      have h1 : (pathState g st p).groupDelta = st.groupDelta ∧ (pathState g st p).stepsFor = st.stepsFor ∧
          (pathState g st p).joinType = st.joinType ∧
          ((pathState g st p).endType = g.endType ∨ (pathState g st p).endType = (if g.joinType = .round then .round else .square)) := by
        unfold pathState; split
        · exact ⟨rfl, rfl, rfl, Or.inr rfl⟩
        · exact ⟨rfl, rfl, rfl, he⟩
      generalize pathState g st p = st1 at hf h1
      rcases List.mem_cons.mp hf with rfl | hf
      · by_cases hu : usesRound st1.joinType st1.endType = true
        · have hr : g.joinType = .round ∨ g.endType = .round := by
            unfold usesRound at hu
            simp only [Bool.or_eq_true, decide_eq_true_eq] at hu
            rcases hu with hu | hu
            · exact Or.inl (by rw [← hj, ← h1.2.2.1]; exact hu)
            · rcases h1.2.2.2 with h | h
              · exact Or.inr (by rw [← h]; exact hu)
              · rw [h] at hu; split at hu
                · rename_i hjr; exact Or.inl hjr
                · cases hu
          simp [pathFrame, hu, h1.1, h1.2.1, hs hr]
        · simp [pathFrame, hu]
      · exact round_steps_fresh_in_group g ps st1 (by rw [h1.1, h1.2.1]; exact hs) h1.2.2.2 (by rw [h1.2.2.1]; exact hj) f hf

/-! non-vacuity of the hypotheses of `offset_frame_local_partial`: three groups, mixed kinds, a 2-vertex path that is
*last* in its Joined group, negative delta -/
def demoGroups : List Group :=
  [mkGroup [[⟨0, 0⟩, ⟨100, 0⟩, ⟨100, 100⟩]] .round .polygon,
   mkGroup [[⟨500, 500⟩, ⟨600, 500⟩, ⟨600, 600⟩], [⟨900, 900⟩], [⟨700, 700⟩, ⟨800, 700⟩]] .miter .joined,
   mkGroup [[⟨0, 1000⟩, ⟨50, 1000⟩, ⟨50, 1000⟩]] .square .butt]
example : ∀ g ∈ demoGroups, g.endType = .joined → joinedOk g.pathsIn = true := by decide
example : (0 : Int) < -7 ∨ ∀ g ∈ demoGroups, g.endType = .polygon → g.lowest.isSome = true := Or.inr (by decide)
example : (executeFrames { delta := 3, groupDelta := 3, endType := .square, stepsFor := some 3 } (-7) demoGroups).2 =
    [[⟨.polygon, -7, .round, .polygon, some (-7)⟩],
     [⟨.joined, 7, .miter, .joined, none⟩, ⟨.point, 7, .miter, .polygon, none⟩, ⟨.openPath, 7, .miter, .square, none⟩],
     [⟨.openPath, 7, .square, .butt, none⟩]] := by decide

/-! ## RectClip64 -/
open Clipper.Model.RectClipFrame

section RectClip
variable {B : Type}

private theorem cleanLoop_clean (s : RScratch B) (h : s.edges.length = 8) : (cleanLoop s).clean := by
  refine ⟨rfl, rfl, ?_, rfl⟩
  simp only [cleanLoop]
  match hs : s.edges, h with
  | [_, _, _, _, _, _, _, _], _ => rfl

/-- what the per-path work receives: clean containers and the bounds of the path at hand -/
def startFor (r : Rect B) (p : Path) : RScratch B := { pathBounds := r.bounds p }

/-- result of `Execute` on the single path `p` by a fresh object -/
def executeOne (r : Rect B) (one : RScratch B → Path → Paths × RScratch B) (p : Path) : Paths :=
  if r.isEmpty then [] else
  if p.length < 3 then [] else
  if !r.intersects (r.bounds p) then [] else
  if r.contains (r.bounds p) then [p] else (one (startFor r p) p).1

private theorem loop_flatMap (r : Rect B) (one : RScratch B → Path → Paths × RScratch B)
    (hone : ∀ s p, (one s p).2.edges.length = 8) (hne : r.isEmpty = false) :
    ∀ (ps : Paths) (s : RScratch B), s.clean →
      (loop r one s ps).1 = ps.flatMap (executeOne r one) ∧ (loop r one s ps).2.clean
  | [], s, hs => by simp [loop]; exact hs
  | p :: ps, s, hs => by
    have hs1 : ({ s with pathBounds := r.bounds p } : RScratch B) = startFor r p := by
      obtain ⟨h1, h2, h3, h4⟩ := hs
      cases s; simp only at h1 h2 h3 h4; subst h1 h2 h3 h4; rfl
    have hclean1 : (startFor r p).clean := ⟨rfl, rfl, rfl, rfl⟩
    simp only [loop, List.flatMap_cons, executeOne, hne]
    by_cases h3 : p.length < 3
    · simp only [h3, if_true]
      have ih := loop_flatMap r one hone hne ps s hs
      exact ⟨by simpa [executeOne, hne] using ih.1, ih.2⟩
    · simp only [h3, if_false, hs1]
      cases hi : r.intersects (r.bounds p)
      · have ih := loop_flatMap r one hone hne ps (startFor r p) hclean1
        simp only [Bool.not_false, if_true]
        exact ih
      · cases hc : r.contains (r.bounds p)
        · have ih := loop_flatMap r one hone hne ps (cleanLoop (one (startFor r p) p).2) (cleanLoop_clean _ (hone _ _))
          simp only [Bool.not_true, Bool.false_eq_true, if_false]
          exact ⟨by rw [ih.1], ih.2⟩
        · have ih := loop_flatMap r one hone hne ps (startFor r p) hclean1
          simp only [Bool.not_true, Bool.false_eq_true, if_false, if_true]
          exact ⟨by rw [ih.1]; rfl, ih.2⟩

/-- **`RectClip64::Execute(paths)` is `paths.flatMap executeOne`** from any object whose scratch containers are empty
(a fresh one, or one that has executed before — see `rectclip_scratch_clean_after`), for every per-path routine `one`
(which may read and dirty all scratch members; `edges_` is a fixed array of 8 lists): no path's result depends on the
paths before it or on earlier calls. -/
theorem rectclip_per_path (r : Rect B) (one : RScratch B → Path → Paths × RScratch B)
    (hone : ∀ s p, (one s p).2.edges.length = 8) (s : RScratch B) (hs : s.clean) (ps : Paths) :
    (execute r one s ps).1 = ps.flatMap (executeOne r one) := by
  unfold execute
  cases hne : r.isEmpty
  · simpa using (loop_flatMap r one hone hne ps s hs).1
  · simp only [if_true]
    induction ps with
    | nil => rfl
    | cons p ps ih => simp [List.flatMap_cons, executeOne, hne]

/-- after `Execute` the scratch containers are empty again, so the next call starts like the first -/
theorem rectclip_scratch_clean_after (r : Rect B) (one : RScratch B → Path → Paths × RScratch B)
    (hone : ∀ s p, (one s p).2.edges.length = 8) (s : RScratch B) (hs : s.clean) (ps : Paths) :
    (execute r one s ps).2.clean := by
  unfold execute
  cases hne : r.isEmpty
  · simpa using (loop_flatMap r one hone hne ps s hs).2
  · simpa using hs

/-- hypotheses of `rectclip_per_path`: a per-path routine that reads the scratch it is given (its result would expose any
left-over) and leaves every container dirty; a fresh object's scratch -/
def demoOne : RScratch Nat → Path → Paths × RScratch Nat := fun s p =>
  ([p.take (3 + s.results.length + s.startLocs.length + s.opContainer.length)],
   { s with opContainer := [1, 2], results := [3], edges := [[1], [], [2], [], [], [3], [], []], startLocs := [4] })
example : ∀ s p, (demoOne s p).2.edges.length = 8 := fun _ _ => rfl
example : ({ pathBounds := 0 } : RScratch Nat).clean := ⟨rfl, rfl, rfl, rfl⟩

end RectClip

end Clipper.Props.C12
