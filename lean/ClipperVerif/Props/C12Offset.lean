/-
C12, ClipperOffset and RectClip64 clauses.

`offset_frame_local` — the parameters in force while a path is offset depend only on delta, on that path and on its own
group's parameters, whatever was added before and in whatever order — holds in full for `Model/OffsetState.lean`, which
follows the code after the `fix:` commits bd5ab48 (end_type_ restored per path), 058ce9d (delta_ no longer overwritten
by a point-less Polygon group) and 85fe8ed (empty paths skipped).  Before them it was false; the two former
counterexamples are kept below as regression examples and as fixed corpus inputs of harness/C12.cpp.
-/
import ClipperVerif.Model.OffsetState
import ClipperVerif.Model.RectClipFrame
namespace Clipper.Props.C12
open Clipper Clipper.Model.OffsetState

/-- the full-strength statement (for every prior state of the object, every significant delta, every list of groups) -/
def OffsetFrameLocal : Prop :=
  ∀ (st : OState) (delta : Int) (gs : List Group), delta ≠ 0 →
    (executeFrames st delta gs).2 = gs.map (fun g => g.pathsIn.map (refFrame delta g))

/-! ### the former counterexamples conform -/

/-- (a) {(0,0),(100,0)}, {(1000,1000),(1100,1000),(1100,1100)}, Miter, Joined, delta 10 -/
def witnessA : List Group :=
  [mkGroup [[⟨0, 0⟩, ⟨100, 0⟩], [⟨1000, 1000⟩, ⟨1100, 1000⟩, ⟨1100, 1100⟩]] .miter .joined]
/-- (b) AddPaths({{}}, Miter, Polygon); AddPaths({square}, Miter, Polygon); delta −10 -/
def witnessB : List Group :=
  [mkGroup [[]] .miter .polygon, mkGroup [[⟨0, 0⟩, ⟨100, 0⟩, ⟨100, 100⟩, ⟨0, 100⟩]] .miter .polygon]
example : (executeFrames {} 10 witnessA).2 =
    [[⟨.openPath, 10, .miter, .square, none⟩, ⟨.joined, 10, .miter, .joined, none⟩]] := by decide
example : (executeFrames {} (-10) witnessB).2 =
    [[⟨.skipped, 10, .miter, .polygon, none⟩], [⟨.polygon, -10, .miter, .polygon, none⟩]] := by decide

/-- the members as `DoGroupOffset`'s header leaves them for group `g` -/
structure Hdr (delta : Int) (g : Group) (st : OState) : Prop where
  gd : st.groupDelta = refGroupDelta delta g
  jt : st.joinType = g.joinType
  steps : (g.joinType = .round ∨ g.endType = .round) → st.stepsFor = some (refGroupDelta delta g)

/-- frame of an empty path -/
def emptyFrame (g : Group) (st : OState) : Frame :=
  { kind := .skipped, groupDelta := st.groupDelta, joinType := g.joinType, endType := .polygon, steps := none }

/-- frame of a single-point path -/
def pointFrame (g : Group) (st : OState) : Frame :=
  { kind := (if st.groupDelta < 1 then .skipped else .point), groupDelta := st.groupDelta,
    joinType := g.joinType, endType := .polygon,
    steps := (if g.joinType = .round then st.stepsFor else none) }

/-- the members after `end_type_ = group.end_type; if (pathLen == 2 && Joined) end_type_ = …` -/
def pathState (g : Group) (st : OState) (p : Path) : OState :=
  { st with endType := (if p.length = 2 ∧ g.endType = .joined then
      (if g.joinType = .round then .round else .square) else g.endType) }

/-- frame of a path with ≥ 2 vertices, from the members in force -/
def pathFrame (st1 : OState) : Frame :=
  { kind := (if st1.endType = .polygon then .polygon else if st1.endType = .joined then .joined else .openPath),
    groupDelta := st1.groupDelta, joinType := st1.joinType, endType := st1.endType,
    steps := (if usesRound st1.joinType st1.endType then st1.stepsFor else none) }

theorem pathLoop_empty (g : Group) (st : OState) (p : Path) (ps : Paths) (hp : p.length = 0) :
    pathLoop g st (p :: ps) = ((pathLoop g st ps).1, emptyFrame g st :: (pathLoop g st ps).2) := by
  rw [pathLoop]; simp only [hp, if_true]; rfl

theorem pathLoop_point (g : Group) (st : OState) (p : Path) (ps : Paths) (hp : p.length = 1) :
    pathLoop g st (p :: ps) = ((pathLoop g st ps).1, pointFrame g st :: (pathLoop g st ps).2) := by
  rw [pathLoop]; simp only [hp, if_true]; rfl

theorem pathLoop_path (g : Group) (st : OState) (p : Path) (ps : Paths) (h0 : p.length ≠ 0) (hp : p.length ≠ 1) :
    pathLoop g st (p :: ps) =
      ((pathLoop g (pathState g st p) ps).1, pathFrame (pathState g st p) :: (pathLoop g (pathState g st p) ps).2) := by
  rw [pathLoop]; simp only [h0, hp, if_false]; rfl

private theorem frame_empty (delta : Int) (g : Group) (st : OState) (h : Hdr delta g st) (p : Path) (hp : p.length = 0) :
    emptyFrame g st = refFrame delta g p := by
  unfold refFrame emptyFrame
  simp only [hp, if_true, h.gd]

private theorem frame_point (delta : Int) (g : Group) (st : OState) (h : Hdr delta g st) (p : Path) (hp : p.length = 1) :
    pointFrame g st = refFrame delta g p := by
  unfold refFrame pointFrame
  simp only [hp, if_true, h.gd]
  by_cases hj : g.joinType = .round
  · simp [hj, h.steps (Or.inl hj)]
  · simp [hj]

private theorem frame_path (delta : Int) (g : Group) (st1 : OState) (h : Hdr delta g st1) (p : Path)
    (h0 : p.length ≠ 0) (hp : p.length ≠ 1) (het : st1.endType = refEndType g p.length) :
    pathFrame st1 = refFrame delta g p := by
  unfold refFrame pathFrame
  simp only [h0, hp, if_false, h.gd, h.jt, het]
  by_cases hu : usesRound g.joinType (refEndType g p.length) = true
  · have hr : g.joinType = .round ∨ g.endType = .round := by
      unfold usesRound at hu
      simp only [Bool.or_eq_true, decide_eq_true_eq] at hu
      rcases hu with hu | hu
      · exact Or.inl hu
      · unfold refEndType at hu
        split at hu
        · split at hu
          · rename_i hjr; exact Or.inl hjr
          · cases hu
        · exact Or.inr hu
    simp [hu, h.steps hr]
  · simp [hu]

private theorem pathLoop_ok (delta : Int) (g : Group) :
    ∀ (ps : Paths) (st : OState), Hdr delta g st →
      (pathLoop g st ps).2 = ps.map (refFrame delta g) ∧ (pathLoop g st ps).1.delta = st.delta
  | [], st, _ => by simp [pathLoop]
  | p :: ps, st, h => by
    by_cases h0 : p.length = 0
    · have ih := pathLoop_ok delta g ps st h
      rw [pathLoop_empty g st p ps h0, List.map_cons]
      exact ⟨by rw [ih.1, frame_empty delta g st h p h0], ih.2⟩
    · by_cases hp : p.length = 1
      · have ih := pathLoop_ok delta g ps st h
        rw [pathLoop_point g st p ps hp, List.map_cons]
        exact ⟨by rw [ih.1, frame_point delta g st h p hp], ih.2⟩
      · have h1 : Hdr delta g (pathState g st p) := ⟨h.gd, h.jt, h.steps⟩
        have he1 : (pathState g st p).endType = refEndType g p.length := rfl
        have ih := pathLoop_ok delta g ps (pathState g st p) h1
        rw [pathLoop_path g st p ps h0 hp, List.map_cons]
        exact ⟨by rw [ih.1, frame_path delta g _ h1 p h0 hp he1], ih.2⟩

private theorem header_ok (delta : Int) (g : Group) (st : OState) (hd : st.delta = delta) :
    Hdr delta g (groupHeader st g) ∧ (groupHeader st g).delta = delta := by
  subst hd
  by_cases hp : g.endType = .polygon
  · have hgd : (if g.isReversed = true then -(if g.lowest.isNone = true then iabs st.delta else st.delta)
        else (if g.lowest.isNone = true then iabs st.delta else st.delta)) = refGroupDelta st.delta g := by
      simp [refGroupDelta, refDelta, hp]
    unfold groupHeader
    simp only [hp, if_true, reduceCtorEq, or_false]
    by_cases hjr : g.joinType = .round
    · simp only [hjr, if_true]
      exact ⟨⟨hgd, hjr.symm, fun _ => by rw [← hgd]⟩, by trivial⟩
    · simp only [hjr, if_false]
      refine ⟨⟨hgd, rfl, fun h => ?_⟩, by trivial⟩
      rcases h with h | h
      · exact absurd h hjr
      · rw [hp] at h; cases h
  · have hgd : iabs st.delta = refGroupDelta st.delta g := by simp [refGroupDelta, hp]
    unfold groupHeader
    simp only [hp, if_false]
    by_cases hr : g.joinType = .round ∨ g.endType = .round
    · simp only [hr, if_true]
      exact ⟨⟨hgd, rfl, fun _ => by rw [← hgd]⟩, by trivial⟩
    · simp only [hr, if_false]
      exact ⟨⟨hgd, rfl, fun h => absurd h hr⟩, by trivial⟩

private theorem groupLoop_ok (delta : Int) :
    ∀ (gs : List Group) (st : OState), st.delta = delta →
      (groupLoop st gs).2 = gs.map (fun g => g.pathsIn.map (refFrame delta g)) ∧ (groupLoop st gs).1.delta = delta
  | [], _, hd => by simp [groupLoop, hd]
  | g :: gs, st, hd => by
    obtain ⟨hh, hdel⟩ := header_ok delta g st hd
    have hl := pathLoop_ok delta g g.pathsIn (groupHeader st g) hh
    have ih := groupLoop_ok delta gs (doGroupOffset st g).1 (by unfold doGroupOffset; rw [hl.2, hdel])
    simp only [groupLoop, List.map_cons]
    refine ⟨?_, ih.2⟩
    rw [ih.1]
    unfold doGroupOffset
    rw [hl.1]

/-- **Frame locality (full).**  For every state the object was left in by earlier calls, every significant delta and
every list of groups, each path is offset under parameters that depend only on delta, its own group's parameters and
its own number of vertices — not on the order of paths in the group, on the other groups, their order, or on history. -/
theorem offset_frame_local : OffsetFrameLocal := by
  intro st delta gs hd
  unfold executeFrames
  simp only [hd, if_false]
  exact (groupLoop_ok delta gs { st with delta := delta } rfl).1

/-- `delta_` after a call is the call's delta: no group changes it for a later group or a later call -/
theorem delta_member_unchanged (st : OState) (delta : Int) (gs : List Group) (hd : delta ≠ 0) :
    (executeFrames st delta gs).1.delta = delta := by
  unfold executeFrames
  simp only [hd, if_false]
  exact (groupLoop_ok delta gs { st with delta := delta } rfl).2

/-- `refFrame` is what a fresh object uses when `p` is the only path of a group with `g`'s parameters -/
theorem refFrame_is_alone (delta : Int) (g : Group) (p : Path) (hd : delta ≠ 0) :
    (executeFrames {} delta [{ g with pathsIn := [p] }]).2 = [[refFrame delta g p]] := by
  rw [offset_frame_local {} delta _ hd]
  simp only [List.map_cons, List.map_nil]
  rfl

/-- whenever a Round join or cap can be produced, the arc parameters in force were computed from the `group_delta_` in
force (they are never left over from an earlier group or call) -/
theorem round_steps_fresh (st : OState) (delta : Int) (gs : List Group) (hd : delta ≠ 0) :
    ∀ fs ∈ (executeFrames st delta gs).2, ∀ f ∈ fs, f.steps = none ∨ f.steps = some f.groupDelta := by
  rw [offset_frame_local st delta gs hd]
  intro fs hfs f hf
  obtain ⟨g, _, rfl⟩ := List.mem_map.mp hfs
  obtain ⟨p, _, rfl⟩ := List.mem_map.mp hf
  unfold refFrame
  by_cases h0 : p.length = 0
  · simp [h0]
  · by_cases h1 : p.length = 1
    · by_cases hj : g.joinType = .round <;> simp [h1, hj]
    · by_cases hu : usesRound g.joinType (refEndType g p.length) = true <;> simp [h0, h1, hu]

/-- an insignificant delta (`|delta| < 0.5`) enters no frame and writes no member; what it copies is the Polygon groups'
paths, group by group -/
theorem insignificant_delta (st : OState) (gs gs' : List Group) :
    executeFrames st 0 gs = (st, []) ∧ insignificantCopy (gs ++ gs') = insignificantCopy gs ++ insignificantCopy gs' := by
  refine ⟨rfl, ?_⟩
  simp [insignificantCopy, List.filter_append, List.flatMap_append]

/-! a run exercising every branch: prior state left by another call, three groups of mixed kinds, 2-vertex paths before
and after longer ones in a Joined group, an empty path, a point-less Polygon group first, negative delta -/
def demoGroups : List Group :=
  [mkGroup [[]] .bevel .polygon,
   mkGroup [[⟨0, 0⟩, ⟨100, 0⟩, ⟨100, 100⟩]] .round .polygon,
   mkGroup [[⟨700, 700⟩, ⟨800, 700⟩], [⟨500, 500⟩, ⟨600, 500⟩, ⟨600, 600⟩], [], [⟨900, 900⟩], [⟨0, 5⟩, ⟨9, 5⟩]] .miter .joined,
   mkGroup [[⟨0, 1000⟩, ⟨50, 1000⟩, ⟨50, 1000⟩]] .square .butt]
example : (executeFrames { delta := 3, groupDelta := 3, endType := .square, stepsFor := some 3 } (-7) demoGroups).2 =
    [[⟨.skipped, 7, .bevel, .polygon, none⟩],
     [⟨.polygon, -7, .round, .polygon, some (-7)⟩],
     [⟨.openPath, 7, .miter, .square, none⟩, ⟨.joined, 7, .miter, .joined, none⟩, ⟨.skipped, 7, .miter, .polygon, none⟩,
      ⟨.point, 7, .miter, .polygon, none⟩, ⟨.openPath, 7, .miter, .square, none⟩],
     [⟨.openPath, 7, .square, .butt, none⟩]] := by decide

/-! ## RectClip64 -/
open Clipper.Model.RectClipFrame

section RectClip
variable {B : Type}

private theorem cleanLoop_clean (s : RScratch B) (h : s.edges.length = 8) : (cleanLoop s).clean := by
  refine ⟨rfl, rfl, ?_, rfl⟩
  simp only [cleanLoop]
  match hs : s.edges, h with
  | [_, _, _, _, _, _, _, _], _ => rfl

/-- what the per-path work receives: clean containers and the bounds of the path at hand -/
def startFor (r : Rect B) (p : Path) : RScratch B := { pathBounds := r.bounds p }

/-- result of `Execute` on the single path `p` by a fresh object -/
def executeOne (r : Rect B) (one : RScratch B → Path → Paths × RScratch B) (p : Path) : Paths :=
  if r.isEmpty then [] else
  if p.length < 3 then [] else
  if !r.intersects (r.bounds p) then [] else
  if r.contains (r.bounds p) then [p] else (one (startFor r p) p).1

private theorem loop_flatMap (r : Rect B) (one : RScratch B → Path → Paths × RScratch B)
    (hone : ∀ s p, (one s p).2.edges.length = 8) (hne : r.isEmpty = false) :
    ∀ (ps : Paths) (s : RScratch B), s.clean →
      (loop r one s ps).1 = ps.flatMap (executeOne r one) ∧ (loop r one s ps).2.clean
  | [], s, hs => by simp [loop]; exact hs
  | p :: ps, s, hs => by
    have hs1 : ({ s with pathBounds := r.bounds p } : RScratch B) = startFor r p := by
      obtain ⟨h1, h2, h3, h4⟩ := hs
      cases s; simp only at h1 h2 h3 h4; subst h1 h2 h3 h4; rfl
    have hclean1 : (startFor r p).clean := ⟨rfl, rfl, rfl, rfl⟩
    simp only [loop, List.flatMap_cons, executeOne, hne]
    by_cases h3 : p.length < 3
    · simp only [h3, if_true]
      have ih := loop_flatMap r one hone hne ps s hs
      exact ⟨by simpa [executeOne, hne] using ih.1, ih.2⟩
    · simp only [h3, if_false, hs1]
      cases hi : r.intersects (r.bounds p)
      · have ih := loop_flatMap r one hone hne ps (startFor r p) hclean1
        simp only [Bool.not_false, if_true]
        exact ih
      · cases hc : r.contains (r.bounds p)
        · have ih := loop_flatMap r one hone hne ps (cleanLoop (one (startFor r p) p).2) (cleanLoop_clean _ (hone _ _))
          simp only [Bool.not_true, Bool.false_eq_true, if_false]
          exact ⟨by rw [ih.1], ih.2⟩
        · have ih := loop_flatMap r one hone hne ps (startFor r p) hclean1
          simp only [Bool.not_true, Bool.false_eq_true, if_false, if_true]
          exact ⟨by rw [ih.1]; rfl, ih.2⟩

/-- **`RectClip64::Execute(paths)` is `paths.flatMap executeOne`** from any object whose scratch containers are empty
(a fresh one, or one that has executed before — see `rectclip_scratch_clean_after`), for every per-path routine `one`
(which may read and dirty all scratch members; `edges_` is a fixed array of 8 lists): no path's result depends on the
paths before it or on earlier calls. -/
theorem rectclip_per_path (r : Rect B) (one : RScratch B → Path → Paths × RScratch B)
    (hone : ∀ s p, (one s p).2.edges.length = 8) (s : RScratch B) (hs : s.clean) (ps : Paths) :
    (execute r one s ps).1 = ps.flatMap (executeOne r one) := by
  unfold execute
  cases hne : r.isEmpty
  · simpa using (loop_flatMap r one hone hne ps s hs).1
  · simp only [if_true]
    induction ps with
    | nil => rfl
    | cons p ps ih => simp [List.flatMap_cons, executeOne, hne]

/-- after `Execute` the scratch containers are empty again, so the next call starts like the first -/
theorem rectclip_scratch_clean_after (r : Rect B) (one : RScratch B → Path → Paths × RScratch B)
    (hone : ∀ s p, (one s p).2.edges.length = 8) (s : RScratch B) (hs : s.clean) (ps : Paths) :
    (execute r one s ps).2.clean := by
  unfold execute
  cases hne : r.isEmpty
  · simpa using (loop_flatMap r one hone hne ps s hs).2
  · simpa using hs

/-- hypotheses of `rectclip_per_path`: a per-path routine that reads the scratch it is given (its result would expose any
left-over) and leaves every container dirty; a fresh object's scratch -/
def demoOne : RScratch Nat → Path → Paths × RScratch Nat := fun s p =>
  ([p.take (3 + s.results.length + s.startLocs.length + s.opContainer.length)],
   { s with opContainer := [1, 2], results := [3], edges := [[1], [], [2], [], [], [3], [], []], startLocs := [4] })
example : ∀ s p, (demoOne s p).2.edges.length = 8 := fun _ _ => rfl
example : ({ pathBounds := 0 } : RScratch Nat).clean := ⟨rfl, rfl, rfl, rfl⟩

end RectClip

end Clipper.Props.C12
