/-
C19 — Minkowski sum and difference are the swept pattern.

What is proved here (about `Model/Minkowski.lean`, the statement-by-statement model of `detail::Minkowski`):
  * `minkowski_quads`   the quad list is exactly the closed form `Spec.Minkowski.quadsWith`: for every path edge
                        `g → i` (closing edge iff `isClosed`) and every cyclic pattern edge `h → j` the quad
                        `[P_g±Q_h, P_i±Q_h, P_i±Q_j, P_g±Q_j]`, reversed iff the orientation test rejects it;
                        for every orientation test, every pattern and path length.
  * `minkowski_index_safe`  every `tmp[·][·]` of the model is in range (the model uses checked access).
  * `quads_positive`    with the exact `IsPositive`, every quad handed to the union has shoelace ≥ 0
                        (`shoelace2_reverse_quad`: reversing negates the shoelace sum), so under NonZero no quad can
                        cancel another and the union's region is the set union of the quads.
  * `minkowski_empty`   empty pattern or empty path ⇒ empty list (hence `Union` of nothing).
  * `area2_eq_shoelace2`  the expression `Area` evaluates for a quad is the shoelace sum.
  * `inQuad_of_segment_sum` (stretch, one direction of `quad_is_segment_sum`): every point
                        `a ± b`, `a ∈ [P_g,P_i]`, `b ∈ [Q_h,Q_j]` (rational parameters written as integer
                        fractions) passes the cross-product test used by the `MINKCHECK` judgement.  The converse
                        (a point passing the test is such a sum) is not proved.

What is *not* proved here: that `Union(quads, NonZero)` returns the set union (engine, property C01; abstract
parameter), and that `double` `Area` has the sign of the exact sum (trusted IEEE fact for |coordinates| ≤ 2^23;
outside that regime a quad thinner than 2^-8 units may be misoriented, which the property's 2-unit band absorbs).
Those two are covered by the correspondence harness (`MINKF`, `MINKCHECK`).
-/
import ClipperVerif.Model.Minkowski
import ClipperVerif.Lemmas.Minkowski
namespace Clipper.Props.C19
open Clipper Clipper.Model.Minkowski Clipper.Spec.Minkowski Clipper.Lemmas.Minkowski

/-- The list built by `detail::Minkowski` is the closed form: path edges (closing edge iff `isClosed`) × cyclic
pattern edges, quad `[P_g±Q_h, P_i±Q_h, P_i±Q_j, P_g±Q_j]`, reversed iff `¬ isPos quad`.
The `some` also says that no subscript of the model is out of range. -/
theorem minkowski_quads (isPos : Path → Bool) (pattern path : Path) (isSum isClosed : Bool) :
    minkowskiWith isPos pattern path isSum isClosed
      = some (quadsWith (orient isPos) pattern path isSum isClosed) := by
  unfold minkowskiWith
  by_cases hpat : pattern.length = 0
  · have : pattern = [] := List.eq_nil_of_length_eq_zero hpat
    subst this
    simp [quadsWith, cyclicEdges]
  by_cases hpath : path.length = 0
  · have : path = [] := List.eq_nil_of_length_eq_zero hpath
    subst this
    cases isClosed <;> simp [quadsWith, pathEdges, cyclicEdges, segsOf]
  simp only [hpat, hpath, or_self, if_false]
  have hn : 0 < pattern.length := by omega
  have hrows : ∀ r ∈ tmpOf isSum pattern path, r.length = pattern.length := by
    intro r hr
    simp only [tmpOf, List.mem_map] at hr
    obtain ⟨p, _, rfl⟩ := hr
    simp [translate]
  have hlen : (tmpOf isSum pattern path).length = path.length := by simp [tmpOf]
  have hq : ∀ (es : List (Pt × Pt)),
      es.flatMap (fun e => patQuads isPos isSum pattern e.1 e.2)
        = es.flatMap (fun e => (cyclicEdges pattern).map (fun d => orient isPos (quadAt isSum e.1 e.2 d.1 d.2))) := by
    intro es; rfl
  cases isClosed with
  | true =>
    -- g = pathLen - 1, i runs over 0 … pathLen-1
    obtain ⟨z, hz⟩ : ∃ z, path[path.length - 1]? = some z :=
      ⟨_, List.getElem?_eq_getElem (l := path) (i := path.length - 1) (by omega)⟩
    have hg : (tmpOf isSum pattern path)[path.length - 1]? = some (translate isSum pattern z) := by
      simp [tmpOf, List.getElem?_map, hz]
    obtain ⟨g', hg'⟩ := outer_spec isPos (tmpOf isSum pattern path) pattern.length hn hrows
      path.length 0 (path.length - 1) [] _ (by omega) hg
    simp only [if_true, Nat.sub_zero]
    rw [hg']
    have hlast : path.getLast? = some z := by rw [List.getLast?_eq_getElem?]; exact hz
    have hce : cyclicEdges path = (z :: path).zip path := by simp [cyclicEdges, hlast]
    simp only [List.drop_zero, List.nil_append, tmpOf, quadsWith, pathEdges, if_true, hce]
    rw [allQuads_map, hq]
  | false =>
    -- g = 0, i runs over 1 … pathLen-1
    cases path with
    | nil => simp at hpath
    | cons a rest =>
      have hg : (tmpOf isSum pattern (a :: rest))[0]? = some (translate isSum pattern a) := by
        simp [tmpOf]
      obtain ⟨g', hg'⟩ := outer_spec isPos (tmpOf isSum pattern (a :: rest)) pattern.length hn hrows
        rest.length 1 0 [] _ (by simp [tmpOf]; omega) hg
      simp only [Bool.false_eq_true, if_false, List.length_cons, Nat.add_sub_cancel]
      rw [hg']
      simp only [List.nil_append, tmpOf, List.map_cons, List.drop_succ_cons, List.drop_zero, quadsWith, pathEdges,
        Bool.false_eq_true, if_false, segsOf]
      rw [allQuads_map, hq]

example : minkowskiWith isPositive [⟨0, 0⟩, ⟨2, 0⟩, ⟨0, 2⟩] [⟨10, 10⟩, ⟨20, 10⟩] true false
    = some [[⟨10, 10⟩, ⟨20, 10⟩, ⟨20, 12⟩, ⟨10, 12⟩], [⟨10, 10⟩, ⟨20, 10⟩, ⟨22, 10⟩, ⟨12, 10⟩],
            [⟨12, 10⟩, ⟨22, 10⟩, ⟨20, 12⟩, ⟨10, 12⟩]] := by decide

/-- Index safety: none of the `tmp[g][h]`, `tmp[i][h]`, `tmp[i][j]`, `tmp[g][j]` subscripts is out of range,
for any pattern and path (the model's checked accesses never return `none`). -/
theorem minkowski_index_safe (isPos : Path → Bool) (pattern path : Path) (isSum isClosed : Bool) :
    (minkowskiWith isPos pattern path isSum isClosed).isSome = true := by
  rw [minkowski_quads]; rfl

/-- Empty pattern or empty path gives the empty quad list. -/
theorem minkowski_empty (isPos : Path → Bool) (pattern path : Path) (isSum isClosed : Bool)
    (h : pattern = [] ∨ path = []) : minkowskiWith isPos pattern path isSum isClosed = some [] := by
  rcases h with rfl | rfl <;> simp [minkowskiWith]

/-- The number of quads: (path edges) × (pattern points). -/
theorem minkowski_count (isPos : Path → Bool) (pattern path : Path) (isSum isClosed : Bool) :
    (quadsWith (orient isPos) pattern path isSum isClosed).length
      = (pathEdges isClosed path).length * (cyclicEdges pattern).length := by
  simp only [quadsWith, List.length_flatMap, List.length_map]
  induction pathEdges isClosed path with
  | nil => simp
  | cons e es ih => simp [ih, Nat.add_mul, Nat.add_comm]

/-- The expression `Area` evaluates for four points is the shoelace sum (twice the signed area). -/
theorem area2_eq_shoelace2 (a b c d : Pt) : area2 [a, b, c, d] = shoelace2 [a, b, c, d] := by
  simp only [area2, area2Quad, shoelace2, edgesOf, List.zip_cons_cons, List.cons_append, List.nil_append, List.zip_nil_right,
    List.map_cons, List.map_nil, List.sum_cons, List.sum_nil]
  grind

/-- Reversing a quad negates its shoelace sum. -/
theorem shoelace2_reverse_quad (a b c d : Pt) : shoelace2 ([a, b, c, d].reverse) = - shoelace2 [a, b, c, d] := by
  simp only [List.reverse_cons, List.reverse_nil, List.nil_append, List.cons_append, shoelace2, edgesOf, List.zip_cons_cons,
    List.zip_nil_right, List.map_cons, List.map_nil, List.sum_cons, List.sum_nil]
  grind

/-- `orient isPositive` makes a quad non-negative. -/
theorem orient_positive (a b c d : Pt) : 0 ≤ shoelace2 (orient isPositive [a, b, c, d]) := by
  unfold orient isPositive
  by_cases h : 0 ≤ area2 [a, b, c, d]
  · simp only [h, decide_true, if_true]; rw [← area2_eq_shoelace2]; exact h
  · simp only [h, decide_false, Bool.false_eq_true, if_false]
    rw [shoelace2_reverse_quad, ← area2_eq_shoelace2]; omega

/-- Every quad handed to `Union(…, NonZero)` has non-negative shoelace sum (exact `IsPositive`): quads never
cancel each other's winding, so the NonZero region of the list is the set union of the quads. -/
theorem quads_positive (pattern path : Path) (isSum isClosed : Bool) (qs : Paths)
    (h : minkowski pattern path isSum isClosed = some qs) : ∀ q ∈ qs, 0 ≤ shoelace2 q := by
  unfold minkowski at h
  rw [minkowski_quads] at h
  injection h with h
  subst h
  intro q hq
  simp only [quadsWith, List.mem_flatMap, List.mem_map] at hq
  obtain ⟨e, _, d, _, rfl⟩ := hq
  exact orient_positive _ _ _ _

example : minkowski [⟨0, 0⟩, ⟨0, 2⟩, ⟨2, 0⟩] [⟨10, 10⟩, ⟨20, 10⟩, ⟨15, 30⟩] false true ≠ none := by decide

/-- Every element of the result is a 4-point path. -/
theorem quads_have_four_points (isPos : Path → Bool) (pattern path : Path) (isSum isClosed : Bool) :
    ∀ q ∈ quadsWith (orient isPos) pattern path isSum isClosed, q.length = 4 := by
  intro q hq
  simp only [quadsWith, List.mem_flatMap, List.mem_map] at hq
  obtain ⟨e, _, d, _, rfl⟩ := hq
  unfold orient
  split <;> simp [quadAt]

/-- The oriented quad is the raw parallelogram or its reversal: same point set, hence the same region.
(`MINKCHECK` judges the region with the raw parallelograms `Spec.Minkowski.quads`.) -/
theorem orient_eq_or_reverse (isPos : Path → Bool) (q : Path) : orient isPos q = q ∨ orient isPos q = q.reverse := by
  unfold orient; split <;> simp

/-! ### `quad_is_segment_sum`, the direction used by the judgement

A point of the swept set is `a ± b` with `a = P_g + s/m·(P_i−P_g)`, `b = Q_h + t/m·(Q_j−Q_h)`, `0 ≤ s,t ≤ m`.
Multiplied by `m` it is the integer point below; its four cross products against the quad's sides (scaled by `m`)
all have the sign of the quad's shoelace sum — the test `inQuad` performs.  The full statement (equality of the
two sets over ℚ, including the converse and the degenerate cases) is left as stated in DESIGN.md §5 C19:

  theorem quad_is_segment_sum : p ∈ convexHull (quadAt isSum pg pi qh qj) ↔
      ∃ a ∈ segment pg pi, ∃ b ∈ segment qh qj, p = a ± b
-/

/-- cross products of the sides of the parallelogram `o, o+u, o+u+v, o+v` against the point
`o + (s/m)u + (t/m)v` (times `m`): each is a non-negative multiple of `u × v`. -/
theorem segment_sum_cross_signs (ux uy vx vy s t m : Int) (hs0 : 0 ≤ s) (hsm : s ≤ m) (ht0 : 0 ≤ t) (htm : t ≤ m) :
    let w := ux * vy - uy * vx
    -- side o → o+u
    (ux * (t * vy + s * uy) - uy * (t * vx + s * ux) = t * w) ∧
    -- side o+u → o+u+v, point relative to o+u is ((s-m)u + t v)/m
    (vx * ((s - m) * uy + t * vy) - vy * ((s - m) * ux + t * vx) = (m - s) * w) ∧
    -- side o+u+v → o+v (direction -u), point relative to o+u+v is ((s-m)u + (t-m)v)/m
    ((-ux) * ((s - m) * uy + (t - m) * vy) - (-uy) * ((s - m) * ux + (t - m) * vx) = (m - t) * w) ∧
    -- side o+v → o (direction -v), point relative to o+v is (s u + (t-m) v)/m
    ((-vx) * (s * uy + (t - m) * vy) - (-vy) * (s * ux + (t - m) * vx) = s * w) ∧
    0 ≤ t ∧ 0 ≤ m - s ∧ 0 ≤ m - t ∧ 0 ≤ s := by
  refine ⟨by grind, by grind, by grind, by grind, ht0, by omega, by omega, hs0⟩

private theorem nonneg_of_mul (m a b w : Int) (hm : 0 < m) (hb : 0 ≤ b) (hw : 0 ≤ w) (h : m * a = b * w) : 0 ≤ a := by
  by_cases ha : 0 ≤ a
  · exact ha
  · have : m * a < 0 := Int.mul_neg_of_pos_of_neg hm (by omega)
    have : 0 ≤ b * w := Int.mul_nonneg hb hw
    omega

private theorem nonpos_of_mul (m a b w : Int) (hm : 0 < m) (hb : 0 ≤ b) (hw : w ≤ 0) (h : m * a = b * w) : a ≤ 0 := by
  have := nonneg_of_mul m (-a) b (-w) hm hb (by omega) (by rw [Int.mul_neg, Int.mul_neg, h])
  omega

/-- A point `o + (s/m)·u + (t/m)·v` with `0 ≤ s,t ≤ m` of a non-degenerate parallelogram `o, o+u, o+u+v, o+v`
passes the cross-product membership test. -/
theorem inQuad_parallelogram (o u v p : Pt) (s t m : Int) (hm : 0 < m)
    (hs0 : 0 ≤ s) (hsm : s ≤ m) (ht0 : 0 ≤ t) (htm : t ≤ m)
    (hx : m * p.x = m * o.x + s * u.x + t * v.x) (hy : m * p.y = m * o.y + s * u.y + t * v.y)
    (hne : u.x * v.y - u.y * v.x ≠ 0) :
    inQuad [o, o.add u, (o.add u).add v, o.add v] p = true := by
  have hsh : shoelace2 [o, o.add u, (o.add u).add v, o.add v] = 2 * (u.x * v.y - u.y * v.x) := by
    simp only [shoelace2, edgesOf, List.zip_cons_cons, List.cons_append, List.nil_append, List.zip_nil_right,
      List.map_cons, List.map_nil, List.sum_cons, List.sum_nil, Pt.add]
    grind
  have e1 : m * cross o (o.add u) p = t * (u.x * v.y - u.y * v.x) := by
    simp only [cross, Pt.add]; grind
  have e2 : m * cross (o.add u) ((o.add u).add v) p = (m - s) * (u.x * v.y - u.y * v.x) := by
    simp only [cross, Pt.add]; grind
  have e3 : m * cross ((o.add u).add v) (o.add v) p = (m - t) * (u.x * v.y - u.y * v.x) := by
    simp only [cross, Pt.add]; grind
  have e4 : m * cross (o.add v) o p = s * (u.x * v.y - u.y * v.x) := by
    simp only [cross, Pt.add]; grind
  unfold inQuad
  simp only [hsh]
  generalize u.x * v.y - u.y * v.x = w at *
  generalize cross o (o.add u) p = c1 at *
  generalize cross (o.add u) ((o.add u).add v) p = c2 at *
  generalize cross ((o.add u).add v) (o.add v) p = c3 at *
  generalize cross (o.add v) o p = c4 at *
  have h2w : 2 * w ≠ 0 := by omega
  by_cases hw : 0 ≤ w
  · have := nonneg_of_mul m c1 t w hm ht0 hw e1
    have := nonneg_of_mul m c2 (m - s) w hm (by omega) hw e2
    have := nonneg_of_mul m c3 (m - t) w hm (by omega) hw e3
    have := nonneg_of_mul m c4 s w hm hs0 hw e4
    simp [*]
  · have := nonpos_of_mul m c1 t w hm ht0 (by omega) e1
    have := nonpos_of_mul m c2 (m - s) w hm (by omega) (by omega) e2
    have := nonpos_of_mul m c3 (m - t) w hm (by omega) (by omega) e3
    have := nonpos_of_mul m c4 s w hm hs0 (by omega) e4
    simp [*]

/-- `quad_is_segment_sum`, the direction the `MINKCHECK` judgement relies on: every point `a ± b` with
`a = P_g + (s/m)(P_i − P_g)` on the path edge and `b = Q_h + (t/m)(Q_j − Q_h)` on the pattern edge
(`0 ≤ s, t ≤ m`; coordinates cleared of the denominator `m`) passes the cross-product membership test of the quad
`[P_g±Q_h, P_i±Q_h, P_i±Q_j, P_g±Q_j]`, provided the two edges are not parallel. -/
theorem inQuad_of_segment_sum (isSum : Bool) (pg pi qh qj p : Pt) (s t m : Int) (hm : 0 < m)
    (hs0 : 0 ≤ s) (hsm : s ≤ m) (ht0 : 0 ≤ t) (htm : t ≤ m)
    (hx : m * p.x = (m * pg.x + s * (pi.x - pg.x)) + (if isSum then 1 else -1) * (m * qh.x + t * (qj.x - qh.x)))
    (hy : m * p.y = (m * pg.y + s * (pi.y - pg.y)) + (if isSum then 1 else -1) * (m * qh.y + t * (qj.y - qh.y)))
    (hne : (pi.x - pg.x) * (qj.y - qh.y) - (pi.y - pg.y) * (qj.x - qh.x) ≠ 0) :
    inQuad (quadAt isSum pg pi qh qj) p = true := by
  cases isSum with
  | true =>
    have hq : quadAt true pg pi qh qj
        = [pg.add qh, (pg.add qh).add (pi.sub pg), ((pg.add qh).add (pi.sub pg)).add (qj.sub qh), (pg.add qh).add (qj.sub qh)] := by
      simp only [quadAt, pm, Pt.add, Pt.sub, if_true, List.cons.injEq, Pt.mk.injEq, and_true]
      refine ⟨trivial, ⟨by omega, by omega⟩, ⟨by omega, by omega⟩, by omega, by omega⟩
    rw [hq]
    refine inQuad_parallelogram _ _ _ p s t m hm hs0 hsm ht0 htm ?_ ?_ ?_
    · simp only [Pt.add, Pt.sub]; simp only [if_true] at hx; grind
    · simp only [Pt.add, Pt.sub]; simp only [if_true] at hy; grind
    · simpa [Pt.sub] using hne
  | false =>
    have hq : quadAt false pg pi qh qj
        = [pg.sub qh, (pg.sub qh).add (pi.sub pg), ((pg.sub qh).add (pi.sub pg)).add (qh.sub qj), (pg.sub qh).add (qh.sub qj)] := by
      simp only [quadAt, pm, Pt.add, Pt.sub, Bool.false_eq_true, if_false, List.cons.injEq, Pt.mk.injEq, and_true]
      refine ⟨trivial, ⟨by omega, by omega⟩, ⟨by omega, by omega⟩, by omega, by omega⟩
    rw [hq]
    refine inQuad_parallelogram _ _ _ p s t m hm hs0 hsm ht0 htm ?_ ?_ ?_
    · simp only [Pt.sub]; simp only [Bool.false_eq_true, if_false] at hx; grind
    · simp only [Pt.sub]; simp only [Bool.false_eq_true, if_false] at hy; grind
    · simp only [Pt.sub]
      intro h; apply hne; grind

example : inQuad (quadAt true ⟨0, 0⟩ ⟨10, 0⟩ ⟨0, 0⟩ ⟨2, 6⟩) ⟨6, 3⟩ = true := by decide

end Clipper.Props.C19
