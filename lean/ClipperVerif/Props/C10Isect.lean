/-
C10 (and C01's premise "the sweep presents intersections so that the AEL stays ordered") — `ClipperBase::BuildIntersectList`
produces exactly the inversion set, so the unbounded scan of `ProcessIntersectList` never leaves `intersect_nodes_`.

`Props/C10.lean` proves of the loop of `ProcessIntersectList` (model `Model/IntersectList.process`):
if the node list is a permutation of the inversions of the AEL order with respect to the target order, the scan
`while (!EdgesAdjacentInAEL(*node_iter2)) ++node_iter2;` stops inside the list, and the loop ends with the AEL in target
order.  That premise was a hypothesis.  This file proves it of the model of the code that builds the list
(`Model/BuildIntersectList.lean`: `AdjustCurrXAndCopyToSEL` + the bottom-up merge sort over the SEL with its `jump` runs
+ the recording walk `AddNewIntersectNode(*tmp, *right)`; compared with the real function, node order included, by
`harness/C10isect.cpp`), for every AEL: any length, any `curr_x` values, ties included.

Ties.  `if (right->curr_x < left->curr_x)` is strict: on equal `curr_x` the merge advances `left`, so edges with equal
`curr_x` are never recorded as a node and keep their AEL order in the SEL.  The final SEL is therefore the *stable* sort
of the AEL by `curr_x`, and the *rank* of an edge (the key under which `Model/IntersectList` knows it) is its position
in that stable sort: among edges of equal `curr_x`, the one further left in the AEL has the smaller rank.  With this
rank, "`a` before `b` in the AEL and `rank b < rank a`" is equivalent to "`a` before `b` and `b.curr_x < a.curr_x`"
(`rank_inversion_iff`), which is what makes the two notions of inversion coincide.

Helper lemmas: `Lemmas/BuildIntersectList.lean`, `Lemmas/BuildIntersectListRank.lean`.
-/
import ClipperVerif.Lemmas.BuildIntersectList
import ClipperVerif.Lemmas.BuildIntersectListRank
import ClipperVerif.Props.C10
namespace Clipper.Props.C10Isect
open Clipper Clipper.Model.BuildIntersectList Clipper.Model.IntersectList
open Clipper.Lemmas.BuildIntersectList Clipper.Lemmas.Inversions Clipper.Lemmas.StableSort

/-! ## (1) the nodes recorded are exactly the inversions -/

/-- **`buildIntersectList_nodes_eq_inversions`.**  For every AEL (list of `(id, curr_x)`, no assumption at all) the
nodes appended to `intersect_nodes_` are, as a multiset, the pairs `(a.id, b.id)` with `a` before `b` in the AEL and
`b.curr_x < a.curr_x` (`inversions`, `Model/BuildIntersectList.lean`): none is missed, none is recorded twice, none is
recorded for a tie or for a pair already in order. -/
theorem buildIntersectList_nodes_eq_inversions (ael : List Edge) :
    (buildIntersectList ael).nodes.Perm (inversions ael) :=
  (build_spec ael).2.2.2

/-- the same as a membership statement: a node `(x, y)` is recorded iff some edge `a` with identity `x` stands before
some edge `b` with identity `y` in the AEL and `b.curr_x < a.curr_x` (strict) -/
theorem mem_nodes_iff (ael : List Edge) (n : Node) :
    n ∈ (buildIntersectList ael).nodes ↔ ∃ a b, [a, b].Sublist ael ∧ b.2 < a.2 ∧ n = (a.1, b.1) := by
  rw [(buildIntersectList_nodes_eq_inversions ael).mem_iff]
  exact mem_inversions ael n

/-- with distinct edge identities no node occurs twice -/
theorem nodes_nodup (ael : List Edge) (hnd : (ids ael).Nodup) : (buildIntersectList ael).nodes.Nodup :=
  (buildIntersectList_nodes_eq_inversions ael).symm.nodup (inversions_nodup ael hnd)

/-- the number of nodes is the number of inversions; the return value `intersect_nodes_.size() > 0` says whether there
is one, i.e. whether the AEL is not already sorted by `curr_x` -/
theorem ret_iff_not_sorted (ael : List Edge) :
    (buildIntersectList ael).ret = true ↔ ¬ ael.Pairwise (fun a b => a.2 ≤ b.2) := by
  have hperm := buildIntersectList_nodes_eq_inversions ael
  have hret : (buildIntersectList ael).ret = !(buildIntersectList ael).nodes.isEmpty := by
    match ael with
    | [] => rfl
    | [_] => rfl
    | _ :: _ :: _ => rfl
  rw [hret]
  constructor
  · intro h hs
    have : inversions ael = [] := inversions_sorted ael hs
    rw [this] at hperm
    have := hperm.eq_nil
    simp [this] at h
  · intro h
    cases hn : (buildIntersectList ael).nodes with
    | nil =>
      exfalso; apply h
      rw [hn] at hperm
      exact sorted_of_inversions_nil ael hperm.symm.eq_nil
    | cons _ _ => rfl

/-! ## (2) the final SEL is the stable sort of the AEL by `curr_x` -/

/-- **`buildIntersectList_sorted`.**  The SEL left behind is core's `List.mergeSort` of the AEL by `curr_x` (`leX a b =
a.curr_x ≤ b.curr_x`), the stable sort: a permutation of the AEL, non-decreasing in `curr_x`, edges of equal `curr_x`
in AEL order (next theorem). -/
theorem buildIntersectList_sorted (ael : List Edge) :
    (buildIntersectList ael).sel = ael.mergeSort leX := by
  obtain ⟨hs, _, hc, _⟩ := build_spec ael
  exact eq_mergeSort_of_sorted_of_cls leX_trans leX_total _ ael ((sortedX_iff _).mp hs) hc

/-- spelled out: permutation, sorted, stable -/
theorem buildIntersectList_sorted_spelled (ael : List Edge) :
    (buildIntersectList ael).sel.Perm ael ∧
    (buildIntersectList ael).sel.Pairwise (fun a b => a.2 ≤ b.2) ∧
    (∀ k : Int, (buildIntersectList ael).sel.filter (fun e => e.2 == k) = ael.filter (fun e => e.2 == k)) := by
  obtain ⟨hs, hp, hc, _⟩ := build_spec ael
  refine ⟨hp, hs, ?_⟩
  intro k
  have h := hc (0, k)
  unfold cls at h
  have hfun : (fun x : Edge => leX ((0 : Nat), k) x && leX x ((0 : Nat), k)) = (fun e : Edge => e.2 == k) := by
    funext e
    simp only [leX]
    rw [Bool.eq_iff_iff]
    simp only [Bool.and_eq_true, decide_eq_true_eq, beq_iff_eq]
    omega
  rwa [hfun] at h

/-! ## (3) `BuildIntersectList` followed by `ProcessIntersectList` -/

/-- **ranks and `curr_x` agree on what an inversion is** (ties included): for `a` before `b` in an AEL with distinct
identities, `b` has the smaller rank (= position in the final SEL = position in the stable sort) iff `b.curr_x` is
strictly smaller.  For equal `curr_x` the rank follows the AEL order. -/
theorem rank_inversion_iff (ael : List Edge) (hnd : (ids ael).Nodup) (a b : Edge) (hs : [a, b].Sublist ael) :
    rankOf ael b.1 < rankOf ael a.1 ↔ b.2 < a.2 :=
  rank_order ael hnd a b hs

/-- **the hypothesis of `Props.C10.processIntersectList_no_fault` holds for what `BuildIntersectList` builds**: with
every edge named by its rank, any reordering `nodes` of the recorded node list (in particular the one
`std::sort(…, IntersectListSort)` produces) is a permutation of `invPairs` of the AEL's rank list; and the ranks are
distinct. -/
theorem built_nodes_are_rank_inversions (ael : List Edge) (hnd : (ids ael).Nodup) (nodes : List Node)
    (hperm : nodes.Perm (buildIntersectList ael).nodes) :
    (nodes.map (mapNode (rankOf ael))).Perm (invPairs ((ids ael).map (rankOf ael))) ∧
    ((ids ael).map (rankOf ael)).Nodup := by
  refine ⟨?_, ranks_nodup ael hnd⟩
  rw [invPairs_ranks ael hnd]
  exact (hperm.trans (buildIntersectList_nodes_eq_inversions ael)).map _

/-- **`processIntersectList_no_fault_built` (rank form).**  `processIntersectList_no_fault` without its inversion-set
hypothesis: for every AEL with distinct edge identities and every ordering of the nodes `BuildIntersectList` recorded,
the loop model on rank-named edges returns normally (never `scanPastEnd`) with the ranks in increasing order. -/
theorem processIntersectList_no_fault_built_ranks (ael : List Edge) (hnd : (ids ael).Nodup) (nodes : List Node)
    (hperm : nodes.Perm (buildIntersectList ael).nodes) :
    ∃ π', process nodes.length ((ids ael).map (rankOf ael)) (nodes.map (mapNode (rankOf ael))) = .ok π' ∧
      π'.Pairwise (· ≤ ·) ∧ π'.Perm ((ids ael).map (rankOf ael)) := by
  obtain ⟨h1, h2⟩ := built_nodes_are_rank_inversions ael hnd nodes hperm
  have := Clipper.Props.C10.processIntersectList_no_fault _ _ h2 h1
  simpa using this

/-- **`processIntersectList_no_fault_built`.**  The same on the edge identities themselves (the `Active*` of the C++),
with no hypothesis besides their distinctness: run `BuildIntersectList` on any AEL, hand its node list in **any order**
(the real code sorts it with `IntersectListSort`, by intersection point, of which the model knows nothing — and needs
nothing) to the loop of `ProcessIntersectList`: the adjacent-node scan never reads past the end of `intersect_nodes_`
(`process` does not return `.error scanPastEnd`), every node is processed, and the AEL ends in exactly the SEL order,
i.e. stably sorted by `curr_x`.

What `processIntersectList_no_fault` requires and this theorem supplies: distinct keys (`ranks_nodup`) and
`nodes ~ invPairs keys` (`built_nodes_are_rank_inversions`); it is independent of the order of `nodes`.  The transfer
from ranks to identities is `process_map` (the loop model only compares keys for equality). -/
theorem processIntersectList_no_fault_built (ael : List Edge) (hnd : (ids ael).Nodup) (nodes : List Node)
    (hperm : nodes.Perm (buildIntersectList ael).nodes) :
    process nodes.length (ids ael) nodes = .ok (ids (buildIntersectList ael).sel) := by
  obtain ⟨π', hok, hsorted, hpp⟩ := processIntersectList_no_fault_built_ranks ael hnd nodes hperm
  -- transfer along the renaming `rankOf`, injective on the identities present
  have hmem : ∀ n ∈ nodes, n.1 ∈ ids ael ∧ n.2 ∈ ids ael := fun n hn =>
    mem_ids_of_mem_inversions ael n ((hperm.trans (buildIntersectList_nodes_eq_inversions ael)).subset hn)
  have hmap := process_map (rankOf ael) (· ∈ ids ael) (fun x y hx _ h => rankOf_inj ael x y hx h)
    nodes.length (ids ael) nodes (fun _ h => h) hmem
  rw [hok] at hmap
  cases hres : process nodes.length (ids ael) nodes with
  | error e => rw [hres] at hmap; simp [Except.map] at hmap
  | ok ρ =>
    rw [hres] at hmap
    simp only [Except.map, Except.ok.injEq] at hmap
    -- `ρ` and the SEL identities are two arrangements of the same distinct edges, both increasing in rank
    have hρperm : ρ.Perm (ids ael) := process_perm _ _ _ _ hres
    have hJ := ids_sel_nodup ael hnd
    have hJperm := ids_sel_perm ael
    have hρsorted : ρ.Pairwise (fun x y => rankOf ael x ≤ rankOf ael y) := by
      rw [hmap] at hsorted; exact List.pairwise_map.mp hsorted
    have hJsorted : (ids (buildIntersectList ael).sel).Pairwise (fun x y => rankOf ael x ≤ rankOf ael y) := by
      refine List.pairwise_iff_forall_sublist.mpr ?_
      intro x y hs
      exact Nat.le_of_lt (idxOf_lt_of_sublist _ x y hJ hs)
    have := List.Perm.eq_of_pairwise (le := fun x y => decide (rankOf ael x ≤ rankOf ael y))
      (l₁ := ρ) (l₂ := ids (buildIntersectList ael).sel)
      (fun x y hx _ h1 h2 => rankOf_inj ael x y (hρperm.subset hx)
        (Nat.le_antisymm (by simpa using h1) (by simpa using h2)))
      (hρsorted.imp (by intro x y h; simpa using h)) (hJsorted.imp (by intro x y h; simpa using h))
      (hρperm.trans hJperm.symm)
    rw [this]

/-- corollary in the words of the property: the scan always finds its node -/
theorem scan_never_past_end (ael : List Edge) (hnd : (ids ael).Nodup) (nodes : List Node)
    (hperm : nodes.Perm (buildIntersectList ael).nodes) :
    process nodes.length (ids ael) nodes ≠ .error .scanPastEnd := by
  rw [processIntersectList_no_fault_built ael hnd nodes hperm]; exact fun h => nomatch h

/-! ## non-vacuity: concrete AELs with several inversions and ties -/

/-- five edges, `curr_x = 5 3 5 1 3` (two ties): six nodes in the order the C++ appends them (pass 1: runs of one; pass 2:
the walk from the end of the left run back to `left`), final SEL stably sorted; the six nodes are the six inversions;
tied pairs `(0,2)`, `(1,4)` are not nodes. -/
example : buildIntersectList [(0, 5), (1, 3), (2, 5), (3, 1), (4, 3)] =
    ⟨true, [(0, 1), (2, 3), (0, 3), (1, 3), (2, 4), (0, 4)], [(3, 1), (1, 3), (4, 3), (0, 5), (2, 5)]⟩ := by
  decide +kernel

example : inversions [(0, 5), (1, 3), (2, 5), (3, 1), (4, 3)] = [(0, 1), (0, 3), (0, 4), (1, 3), (2, 3), (2, 4)] := by
  decide

/-- the hypotheses of `processIntersectList_no_fault_built` are satisfiable, its conclusion is not trivial: the nodes in
reversed order make the scan skip non-adjacent nodes, and the loop still ends in SEL order -/
example : (ids [(0, 5), (1, 3), (2, 5), (3, 1), (4, 3)]).Nodup ∧
    process 6 [0, 1, 2, 3, 4] [(0, 4), (2, 4), (1, 3), (0, 3), (2, 3), (0, 1)] = .ok [3, 1, 4, 0, 2] ∧
    adjacent [0, 1, 2, 3, 4] (0, 4) = false :=
  ⟨by decide, rfl, rfl⟩

/-- and the instance of the theorem itself -/
example : process 6 (ids [(0, 5), (1, 3), (2, 5), (3, 1), (4, 3)]) [(0, 4), (2, 4), (1, 3), (0, 3), (2, 3), (0, 1)] =
    .ok (ids (buildIntersectList [(0, 5), (1, 3), (2, 5), (3, 1), (4, 3)]).sel) :=
  processIntersectList_no_fault_built [(0, 5), (1, 3), (2, 5), (3, 1), (4, 3)] (by decide)
    [(0, 4), (2, 4), (1, 3), (0, 3), (2, 3), (0, 1)] (by
    rw [show (buildIntersectList [(0, 5), (1, 3), (2, 5), (3, 1), (4, 3)]).nodes =
      [(0, 1), (2, 3), (0, 3), (1, 3), (2, 4), (0, 4)] from by decide +kernel]
    decide)

/-- all `curr_x` equal: no node, `ret = false`, SEL = AEL; reversed distinct: every pair is a node -/
example : buildIntersectList [(7, 2), (8, 2), (9, 2)] = ⟨false, [], [(7, 2), (8, 2), (9, 2)]⟩ ∧
    buildIntersectList [(0, 3), (1, 2), (2, 1)] = ⟨true, [(0, 1), (0, 2), (1, 2)], [(2, 1), (1, 2), (0, 3)]⟩ := by
  decide +kernel

/-- a node list that is **not** what `BuildIntersectList` builds (a tied pair recorded as a node) does make the loop
model fault: the premise is needed, and the strictness of `<` matters -/
example : process 1 [0, 1, 2] [(0, 2)] = .error .scanPastEnd := rfl

/-- `AdjustCurrXAndCopyToSEL`: an edge joined to its left neighbour takes that neighbour's `curr_x` (hence ties with it);
a first edge flagged so is the null dereference -/
example : adjustCurrX none [⟨0, 9, false⟩, ⟨1, 4, true⟩, ⟨2, 5, false⟩] = some [(0, 9), (1, 9), (2, 5)] ∧
    adjustCurrX none [⟨0, 9, true⟩] = none := by decide

end Clipper.Props.C10Isect
