/-
C03 — closed solution paths are well formed: the structural part, proved for the model
`ClipperVerif/Model/CleanUp.lean` of `IsValidClosedPath`, `CleanCollinear` and `BuildPath64`
(clipper.engine.cpp:436-453, 1525-1560, 2892-2928), with `FixSelfIntersects` as a parameter `fix`
(instantiated and discharged in `Props/C03Split.lean`).

Vocabulary (defined in `ClipperVerif/Lemmas/CleanUp.lean`):
* `LinPairs Q l`, `LinTriples P l`: `Q` / `P` holds for all linearly consecutive pairs / triples of `l`
  (index readings: `linPairs_iff_getElem`, `linTriples_iff_getElem`);
* `CycNoDup r`: no node of the ring equals its cyclic successor, last/first included
  (index reading `cycNoDup_index`: `∀ i < n, r[i] ≠ r[(i+1) % n]`);
* `CycTriples P r`: `P prev cur next` for every node of the ring with its two cyclic neighbours
  (index reading `cycTriples_index`: `∀ i < n, P r[(i+n-1) % n] r[i] r[(i+1) % n]`);
* `Kept pc a b c := removable pc a b c = false`: node `b` survives the removal test of `CleanCollinear`;
* `builtPath ring rev`: `rotl ring 1` (forward) resp. `head :: tail.reverse` (reverse);
* `FixOk fix`: `fix` applied to a ring of ≥ 3 nodes without equal cyclic neighbours returns (if anything of
  ≥ 3 nodes) a ring without equal cyclic neighbours.
-/
import ClipperVerif.Lemmas.CleanUp
namespace Clipper.Props.C03
open Clipper Clipper.Model.CleanUp Clipper.Lemmas.CleanUp

/-! ### index readings of the cyclic predicates (what a reader should trust) -/

/-- `CycNoDup r` says exactly: `r[i] ≠ r[(i+1) mod n]` for every index `i`. -/
theorem cycNoDup_index (r : List Pt) :
    CycNoDup r ↔ ∀ i (h : i < r.length), r[i] ≠ r[(i + 1) % r.length]'(Nat.mod_lt _ (by omega)) :=
  cycNoDup_iff_getElem r

/-- `CycTriples P r` says exactly: `P r[(i-1) mod n] r[i] r[(i+1) mod n]` for every index `i`. -/
theorem cycTriples_index (P : Pt → Pt → Pt → Prop) (r : List Pt) :
    CycTriples P r ↔ ∀ i (h : i < r.length),
      P (r[(i + r.length - 1) % r.length]'(Nat.mod_lt _ (by omega))) r[i]
        (r[(i + 1) % r.length]'(Nat.mod_lt _ (by omega))) :=
  cycTriples_iff_getElem P r

/-- `LinPairs Q p` says exactly: `Q p[i] p[i+1]` whenever `i + 1 < p.length`. -/
theorem linPairs_index (Q : Pt → Pt → Prop) (p : List Pt) :
    LinPairs Q p ↔ ∀ i (h : i + 1 < p.length), Q (p[i]'(by omega)) (p[i + 1]'h) :=
  linPairs_iff_getElem Q p

/-- The generated `IsCollinear(a, b, c)` (shared point in the middle) is the vanishing of the Spec-level
cross product. -/
theorem isCollinear_iff_cross (a b c : Pt) : isCollinear a b c = true ↔ cross a b c = 0 :=
  Lemmas.CleanUp.isCollinear_iff_cross a b c

/-! ### 1. termination of `CleanCollinear` -/

/-- The loop of `CleanCollinear` ends within `n*n + |todo| + 1` iterations, `n` the current ring size
(an advance shortens `todo`; a removal shrinks the ring and resets `todo` to the whole ring). -/
theorem cleanLoop_fuel (pc : Bool) (fuel : Nat) (done todo : List Pt) (pts : Nat)
    (h : fuel ≥ (done.length + todo.length) * (done.length + todo.length) + todo.length + 1) :
    cleanLoop pc fuel done todo pts ≠ none :=
  cleanLoop_fuel_aux pc fuel done todo pts h

example : cleanFuel 5 ≥ (([] : List Pt).length + 5) * (([] : List Pt).length + 5) + 5 + 1 := by decide
/-- the bound is not vacuous: too little fuel does run out -/
example : cleanLoop true 3 [] [⟨0,0⟩,⟨5,0⟩,⟨10,0⟩,⟨10,10⟩,⟨0,10⟩] 0 = none := by decide

/-- `cleanCollinear` never runs out of fuel: `cleanFuel` suffices for every ring, every `fix`. -/
theorem cleanCollinear_terminates (pc : Bool) (fix : Ring → Option Ring) (ring : Ring) :
    cleanCollinear pc fix ring ≠ none := by
  unfold cleanCollinear
  split
  · simp
  · have := cleanLoop_fuel pc (cleanFuel ring.length) [] ring 0 (by simp [cleanFuel])
    split <;> simp_all

/-! ### 2. what the loop of `CleanCollinear` guarantees -/

/-- If the loop of `CleanCollinear` leaves normally with ring `r` (started on a valid closed path `ring`), then
`r` is a valid closed path (≥ 3 nodes, not a very small triangle), it has at most as many nodes as `ring`, every
point occurs in `r` at most as often as in `ring` (so `r ⊆ ring`), and **every** node of `r` survives the removal
test with respect to its two cyclic neighbours. -/
theorem cleanLoop_shape (pc : Bool) (fuel : Nat) (ring r : Ring)
    (hv : isValidClosedPath ring = true) (h : cleanLoop pc fuel [] ring 0 = some (some r)) :
    r.length ≥ 3 ∧ isValidClosedPath r = true ∧ r.length ≤ ring.length ∧
    (∀ x, r.count x ≤ ring.count x) ∧ (∀ x, x ∈ r → x ∈ ring) ∧
    CycTriples (fun a b c => removable pc a b c = false) r := by
  obtain ⟨h1, h2, h3, h4⟩ := cleanLoop_inv pc fuel [] ring 0 r (by simpa using hv) (inv_nil pc ring) h
  refine ⟨isValid_length h1, h1, by simpa using h3, fun x => by simpa using h4 x, ?_, h2⟩
  intro x hx
  have := h4 x
  have hpos : 0 < r.count x := List.count_pos_iff.mpr hx
  exact List.count_pos_iff.mp (by simp at this; omega)

example : isValidClosedPath [⟨0,0⟩,⟨5,0⟩,⟨10,0⟩,⟨10,10⟩,⟨0,10⟩] = true ∧
    cleanLoop false (cleanFuel 5) [] [⟨0,0⟩,⟨5,0⟩,⟨10,0⟩,⟨10,10⟩,⟨0,10⟩] 0
      = some (some [⟨0,0⟩,⟨10,0⟩,⟨10,10⟩,⟨0,10⟩]) := by decide
example : isValidClosedPath [⟨0,0⟩,⟨5,0⟩,⟨10,0⟩,⟨7,0⟩,⟨10,10⟩,⟨0,10⟩] = true ∧
    cleanLoop true (cleanFuel 6) [] [⟨0,0⟩,⟨5,0⟩,⟨10,0⟩,⟨7,0⟩,⟨10,10⟩,⟨0,10⟩] 0
      = some (some [⟨0,0⟩,⟨5,0⟩,⟨7,0⟩,⟨10,10⟩,⟨0,10⟩]) := by decide

/-- A node that survives the removal test differs from both its neighbours
(`IsCollinear(a, a, c)` and `IsCollinear(a, c, c)` are true). -/
theorem clean_noAdjDup (pc : Bool) (a b c : Pt) (h : removable pc a b c = false) : b ≠ a ∧ b ≠ c :=
  removable_false_ne h

example : removable true ⟨0,0⟩ ⟨5,0⟩ ⟨10,0⟩ = false := by decide

/-- Hence a ring all of whose nodes survive the removal test has no two cyclically adjacent equal nodes. -/
theorem clean_cycNoDup (pc : Bool) (r : Ring)
    (h : CycTriples (fun a b c => removable pc a b c = false) r) : CycNoDup r :=
  cycNoDup_of_kept pc r h

example : CycTriples (fun a b c => removable true a b c = false)
    [⟨0,0⟩,⟨5,0⟩,⟨10,0⟩,⟨10,10⟩,⟨0,10⟩] := by decide

/-- With `preserveCollinear = false`, no cyclic triple of a cleaned ring is collinear: the cross product of
every node with its two neighbours is non-zero. -/
theorem clean_noCollinear (r : Ring) (h : CycTriples (fun a b c => removable false a b c = false) r) :
    CycTriples (fun a b c => isCollinear a b c = false) r ∧ CycTriples (fun a b c => cross a b c ≠ 0) r :=
  ⟨cycTriples_mono (fun _ _ _ hk => removable_false_pcFalse hk) r h,
   cycTriples_mono (fun a b c hk => (isCollinear_false_iff_cross a b c).mp (removable_false_pcFalse hk)) r h⟩

example : CycTriples (fun a b c => removable false a b c = false)
    [⟨0,0⟩,⟨10,0⟩,⟨10,10⟩,⟨0,10⟩] := by decide

/-- With `preserveCollinear = true`, no cyclic triple of a cleaned ring is a 180-degree spike or contains equal
neighbours: whenever a node is collinear with its neighbours, the dot product is strictly positive
(the node lies strictly between them). -/
theorem clean_noSpike (r : Ring) (h : CycTriples (fun a b c => removable true a b c = false) r) :
    CycTriples (fun a b c => cross a b c = 0 → dot a b c > 0) r :=
  cycTriples_mono
    (fun a b c hk hc => removable_false_pcTrue hk ((Lemmas.CleanUp.isCollinear_iff_cross a b c).mpr hc)) r h

example : CycTriples (fun a b c => removable true a b c = false)
    [⟨0,0⟩,⟨5,0⟩,⟨7,0⟩,⟨10,10⟩,⟨0,10⟩] := by decide
/-- the hypothesis excludes spikes: here (10,0) is a spike between (5,0) and (7,0) -/
example : ¬ CycTriples (fun a b c => removable true a b c = false)
    [⟨0,0⟩,⟨5,0⟩,⟨10,0⟩,⟨7,0⟩,⟨10,10⟩,⟨0,10⟩] := by decide

/-- The part of `CleanCollinear` before `FixSelfIntersects`: if `cleanCollinear` returns a ring `r'`, then
`r' = fix r` for a ring `r` with all the guarantees of `cleanLoop_shape`. -/
theorem cleanCollinear_shape (pc : Bool) (fix : Ring → Option Ring) (ring r' : Ring)
    (h : cleanCollinear pc fix ring = some (some r')) :
    ∃ r, cleanLoop pc (cleanFuel ring.length) [] ring 0 = some (some r) ∧ fix r = some r' ∧
      r.length ≥ 3 ∧ isValidClosedPath r = true ∧ r.length ≤ ring.length ∧
      (∀ x, r.count x ≤ ring.count x) ∧ (∀ x, x ∈ r → x ∈ ring) ∧
      CycTriples (fun a b c => removable pc a b c = false) r := by
  unfold cleanCollinear at h
  split at h
  · simp at h
  · rename_i hv
    have hv' : isValidClosedPath ring = true := by simpa using hv
    split at h
    · simp at h
    · simp at h
    · rename_i r hr
      exact ⟨r, hr, by simpa using h, cleanLoop_shape pc _ ring r hv' hr⟩

example : cleanCollinear false some [⟨0,0⟩,⟨5,0⟩,⟨10,0⟩,⟨10,10⟩,⟨0,10⟩]
    = some (some [⟨0,0⟩,⟨10,0⟩,⟨10,10⟩,⟨0,10⟩]) := by decide

/-! ### 3. what `BuildPath64` guarantees, and what it does not -/

/-- The exact guarantee of `BuildPath64` on an arbitrary ring: a returned path is non-empty, consists of points
of the ring, is no longer than the ring, and no two *linearly* consecutive points are equal; the ring had ≥ 2
nodes, and ≥ 3 nodes if the path is closed.  (Nothing is said about last/first: see
`buildPath_wraparound_not_checked`.) -/
theorem buildPath_shape (ring : Ring) (rev isOpen : Bool) (p : Path)
    (h : buildPath64 ring rev isOpen = some p) :
    p ≠ [] ∧ (∀ x, x ∈ p → x ∈ ring) ∧ LinPairs (fun a b => a ≠ b) p ∧
    (∀ i (h : i + 1 < p.length), p[i]'(by omega) ≠ p[i + 1]'h) ∧
    p.length ≤ ring.length ∧ ring.length ≥ 2 ∧ (isOpen = false → ring.length ≥ 3) := by
  obtain ⟨h1, h2, h3, h4, h5, h6⟩ := buildPath_shape_aux ring rev isOpen p h
  exact ⟨h1, h2, h3, (linPairs_iff_getElem _ p).mp h3, h4, h5, h6⟩

example : buildPath64 [⟨0,0⟩,⟨0,0⟩,⟨10,0⟩,⟨10,0⟩,⟨10,10⟩,⟨0,10⟩] true false
    = some [⟨0,0⟩,⟨0,10⟩,⟨10,10⟩,⟨10,0⟩,⟨0,0⟩] := by decide

/-- `BuildPath64` does not compare the last emitted point with the first: on the ring A,A,B,C it returns the
closed path A,B,C,A whose last and first vertices are equal.  (In `BuildPaths64` the ring comes out of
`CleanCollinear`, which excludes this: `solutionPath_shape_partial`.) -/
theorem buildPath_wraparound_not_checked :
    buildPath64 [⟨0,0⟩,⟨0,0⟩,⟨5,0⟩,⟨5,5⟩] false false = some [⟨0,0⟩,⟨5,0⟩,⟨5,5⟩,⟨0,0⟩] := by decide

/-- `BuildPath64` can return a closed path of two points as a success: ring A,B,B,B gives B,A. -/
theorem buildPath_short_possible :
    buildPath64 [⟨0,0⟩,⟨5,0⟩,⟨5,0⟩,⟨5,0⟩] false false = some [⟨5,0⟩,⟨0,0⟩] := by decide

/-- On a ring of ≥ 3 nodes without equal cyclic neighbours, `BuildPath64` (closed) fails exactly for very small
triangles and otherwise returns all nodes: the ring rotated by one (forward) resp. head followed by the
reversed tail (reverse). -/
theorem buildPath_of_clean (ring : Ring) (rev : Bool) (h3 : ring.length ≥ 3) (hc : CycNoDup ring) :
    buildPath64 ring rev false =
      if ring.length = 3 ∧ isVerySmallTriangle ring = true then none else some (builtPath ring rev) :=
  buildPath_of_clean_aux ring rev h3 hc

example : ([⟨0,0⟩,⟨5,0⟩,⟨10,0⟩,⟨10,10⟩,⟨0,10⟩] : Ring).length ≥ 3 ∧
    CycNoDup [⟨0,0⟩,⟨5,0⟩,⟨10,0⟩,⟨10,10⟩,⟨0,10⟩] := by decide
example : buildPath64 [⟨0,0⟩,⟨1,0⟩,⟨1,1⟩] true false = none ∧ CycNoDup [⟨0,0⟩,⟨1,0⟩,⟨1,1⟩] := by decide

/-- what `builtPath` is -/
theorem builtPath_eq (ring : Ring) :
    builtPath ring false = rotl ring 1 ∧
    (∀ op rest, ring = op :: rest → builtPath ring true = op :: rest.reverse) := by
  refine ⟨rfl, ?_⟩
  intro op rest e; subst e; rfl

/-- `builtPath ring rev` has the nodes of `ring` (a permutation), and cyclic properties transfer: `CycNoDup`,
and `CycTriples P` (forward) resp. `CycTriples` of the mirrored predicate (reverse). -/
theorem builtPath_props (ring : Ring) (rev : Bool) :
    (builtPath ring rev).length = ring.length ∧ (builtPath ring rev).Perm ring ∧
    (CycNoDup ring → CycNoDup (builtPath ring rev)) ∧
    (∀ P : Pt → Pt → Pt → Prop, CycTriples P ring → CycTriples P (builtPath ring false)) ∧
    (∀ P : Pt → Pt → Pt → Prop, CycTriples P ring →
      CycTriples (fun a b c => P c b a) (builtPath ring true)) :=
  ⟨length_builtPath ring rev, builtPath_perm ring rev, cycNoDup_builtPath ring rev,
   fun P => cycTriples_builtPath_fwd P ring, fun P => cycTriples_builtPath_rev P ring⟩

/-! ### 4. the closed branch of `BuildPaths64`: `CleanCollinear` then `BuildPath64` -/

/-- `solutionPath` never runs out of fuel. -/
theorem solutionPath_terminates (pc rev : Bool) (fix : Ring → Option Ring) (ring : Ring) :
    solutionPath pc rev fix ring ≠ none := by
  unfold solutionPath
  have := cleanCollinear_terminates pc fix ring
  split <;> simp_all

/-- Rings of fewer than three nodes are rejected by `BuildPath64` itself (closed paths). -/
theorem buildPath_rejects_short (ring : Ring) (rev : Bool) (h : ring.length < 3) :
    buildPath64 ring rev false = none := by
  cases hb : buildPath64 ring rev false with
  | none => rfl
  | some p => have := (buildPath_shape ring rev false p hb).2.2.2.2.2.2 rfl; omega

example : buildPath64 [⟨0,0⟩,⟨5,0⟩] true false = none := by decide

/-
Full statement of the structural part of C03:
  for the real `FixSelfIntersects`, `solutionPath pc rev FixSelfIntersects ring = some (some p)` implies
  `p.length ≥ 3 ∧ CycNoDup p`.
Here: the same under the hypothesis `FixOk fix` on the parameter.  `FixOk` is proved for the model of
`FixSelfIntersects`/`DoSplitOp` (clipper.engine.cpp:1566-1685) in `Props/C03Split.lean` (`fixOk_fixMain`), which also
states the hypothesis-free corollaries `C03Split.solutionPath_shape` and `C03Split.buildPaths_shape`.
-/
/-- Structural part of C03 relative to `fix`: if `FixSelfIntersects` does not create equal cyclic neighbours
(`FixOk`), every closed path that `BuildPaths64` emits for an outrec has at least three vertices, no two
consecutive vertices equal (last/first included), consists of points of the outrec's ring, and is exactly
`builtPath r' rev` for the ring `r'` that `FixSelfIntersects` left. -/
theorem solutionPath_shape_partial (pc rev : Bool) (fix : Ring → Option Ring) (ring : Ring) (p : Path)
    (hfix : FixOk fix) (h : solutionPath pc rev fix ring = some (some p)) :
    p.length ≥ 3 ∧ CycNoDup p ∧
    ∃ r r', cleanLoop pc (cleanFuel ring.length) [] ring 0 = some (some r) ∧ fix r = some r' ∧
      p = builtPath r' rev := by
  unfold solutionPath at h
  split at h
  · simp at h
  · simp at h
  · rename_i r' hcc
    simp only [Option.some.injEq] at h
    obtain ⟨r, hcl, hfr, hr3, _, _, _, _, hk⟩ := cleanCollinear_shape pc fix ring r' hcc
    have hr'3 : r'.length ≥ 3 := (buildPath_shape r' rev false p h).2.2.2.2.2.2 rfl
    have hnd : CycNoDup r' := hfix r r' hr3 (clean_cycNoDup pc r hk) hfr hr'3
    rw [buildPath_of_clean r' rev hr'3 hnd] at h
    split at h
    · simp at h
    · simp only [Option.some.injEq] at h
      subst h
      exact ⟨by rw [length_builtPath]; exact hr'3, cycNoDup_builtPath r' rev hnd, r, r', hcl, hfr, rfl⟩

example : FixOk some := fixOk_some
example : solutionPath false true some [⟨0,0⟩,⟨5,0⟩,⟨10,0⟩,⟨10,10⟩,⟨0,10⟩]
    = some (some [⟨0,0⟩,⟨0,10⟩,⟨10,10⟩,⟨10,0⟩]) := by decide

/-- When `FixSelfIntersects` has nothing to repair (`fix = some`): every vertex of the emitted path survives the
removal test with respect to its cyclic neighbours, so the path additionally has, with
`preserveCollinear = false`, no collinear cyclic triple (cross product ≠ 0 at every vertex), and with
`preserveCollinear = true`, no spike: every collinear cyclic triple has a strictly positive dot product.
Also every vertex of `p` is a node of `ring` and `p` has at most as many vertices. -/
theorem solutionPath_shape_nofix (pc rev : Bool) (ring : Ring) (p : Path)
    (h : solutionPath pc rev some ring = some (some p)) :
    p.length ≥ 3 ∧ CycNoDup p ∧ p.length ≤ ring.length ∧ (∀ x, x ∈ p → x ∈ ring) ∧
    CycTriples (fun a b c => removable pc a b c = false) p ∧
    (pc = false → CycTriples (fun a b c => cross a b c ≠ 0) p) ∧
    (pc = true → CycTriples (fun a b c => cross a b c = 0 → dot a b c > 0) p) := by
  obtain ⟨h3, hnd, r, r', hcl, hfr, hp⟩ := solutionPath_shape_partial pc rev some ring p fixOk_some h
  cases hfr
  have hv : isValidClosedPath ring = true := by
    cases hvv : isValidClosedPath ring with
    | true => rfl
    | false => simp [solutionPath, cleanCollinear, hvv] at h
  obtain ⟨_, _, hle, _, hmem, hk⟩ := cleanLoop_shape pc _ ring r hv hcl
  have hkp : CycTriples (fun a b c => removable pc a b c = false) p := by
    rw [hp]; exact cycTriples_kept_builtPath pc r rev hk
  refine ⟨h3, hnd, ?_, ?_, hkp, ?_, ?_⟩
  · rw [hp, length_builtPath]; exact hle
  · intro x hx; rw [hp, mem_builtPath] at hx; exact hmem x hx
  · intro e; subst e; exact (clean_noCollinear p hkp).2
  · intro e; subst e; exact clean_noSpike p hkp

example : solutionPath true true some [⟨0,0⟩,⟨5,0⟩,⟨10,0⟩,⟨7,0⟩,⟨10,10⟩,⟨0,10⟩]
    = some (some [⟨0,0⟩,⟨0,10⟩,⟨10,10⟩,⟨7,0⟩,⟨5,0⟩]) := by decide

/-! ### 5. a cleaned ring has a non-degenerate bounding box -/

/-- A ring of ≥ 3 nodes all of which survive the removal test is contained neither in a horizontal nor in a
vertical line (the node of maximal `x` resp. `y` would be a spike or a duplicate): its bounding box has
positive width and positive height. -/
theorem clean_bounds_nonempty (pc : Bool) (r : Ring) (h3 : r.length ≥ 3)
    (hk : CycTriples (fun a b c => removable pc a b c = false) r) :
    (¬ ∃ y0, ∀ p, p ∈ r → p.y = y0) ∧ (¬ ∃ x0, ∀ p, p ∈ r → p.x = x0) := by
  have hne : r ≠ [] := by intro e; subst e; simp at h3
  exact ⟨fun ⟨y0, h⟩ => kept_not_all_y pc r hne hk y0 h, fun ⟨x0, h⟩ => kept_not_all_x pc r hne hk x0 h⟩

example : ([⟨0,0⟩,⟨5,0⟩,⟨10,0⟩,⟨10,10⟩,⟨0,10⟩] : Ring).length ≥ 3 ∧
    CycTriples (fun a b c => removable true a b c = false)
      [⟨0,0⟩,⟨5,0⟩,⟨10,0⟩,⟨10,10⟩,⟨0,10⟩] := by decide

end Clipper.Props.C03
