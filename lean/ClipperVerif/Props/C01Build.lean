/-
C01 — THE PER-INPUT DECIDED HYPOTHESES OF THE MODEL-LEVEL THEOREMS, PROVED OF `build`  (helpers `Lemmas/C01Build{Wf,Idx,Scan,End}.lean`).

`Props/C01Crown.c01_model_level` assumes, per input: (H1) `Built.Hyp`, (H2) `Built.HypR`, (H3) `rs.s.ael = []`, (H4) `DenOK D`.  Until now (H1)–(H3) were
decided per input (driver, `decide +kernel` in examples).  This file proves them ONCE AND FOR ALL for `b := build (subj ++ clip)` of arbitrary closed
integer paths satisfying

  * `InputGP subj clip` (`Lemmas/C01BuildIdx`) — a decidable predicate on the INPUT PATHS ALONE: every path has at least 3 vertices; no edge is
    horizontal (cyclically; so consecutive vertices differ and no vertex has the y of a neighbour); at a vertex lower than both neighbours the two
    edges are not collinear (`NoSpikeAtMin`: the left/right bound of the local minimum is defined); all vertices of all paths are pairwise different;
  * `GPAll b` — general position AT THE SCANLINES, the existing decidable predicates `GPmin` / `GPtop` of `Model/SweepOrder` evaluated on `b` at every
    scanline.  These stay hypotheses: they speak about the relative position of edges of DIFFERENT parts of the input at the vertex heights (every other
    edge alive at a scanline is more than one unit away from a local-minimum vertex on it; two edges of a scanbeam are more than one unit apart at its
    top unless they end in one local maximum), which is exactly what makes `IsValidAelOrder` / `TopX` rounding harmless.  `NoTopInside`, `ValidOK`
    and everything else of `SweepOK` are discharged.

What is proved (all for arbitrary `subj`, `clip` with `InputGP`):
 1. `build_allUp`, `build_edges_distinct`, `build_nextOK`, `build_scanlines`, `build_minsOK`, `build_mins_iff`, `build_labels`, `build_starts`,
    `build_two_per_maximum`, `build_topStart` — the structural parts of (H1)/(H2); hence `build_hyp` ((H1) from `InputGP`, `GPAll`, `Near cx`) and
    `build_hypR` ((H2) from `InputGP` alone); `build_hyp_iff`: under `InputGP` and `Near cx`, `Built.Hyp` is EQUIVALENT to `GPAll` (nothing else is hidden in it);
 2. `build_sweep_ends_empty` — (H3): the exact run ends with an empty AEL (after the last scanbeam every surviving edge would top out strictly above the
    last scanline, which is the least vertex height);
 3. `c01_model_level_reduced`, `output_region_reduced` — the crown with the reduced hypothesis set, and `c01_model_level_reduced_lcm` with (H4) discharged too (`D = sweepDen`).

HOW: `build` filters its tables out of the list of CORNERS (vertex, edge arriving, edge leaving).  `Lemmas/C01BuildIdx` proves by index plumbing
(`rotateLeft`, `zip`, `zipIdx`) that the corner list of an `InputGP` input has the abstract shape `Wf`; `Lemmas/C01BuildWf` derives every structural
hypothesis from `Wf` without any index arithmetic (the vertex of a corner determines the corner; an edge arrives at one end point and leaves the
other).  "Exactly two edges per local maximum" is the corner at the maximum: the edges with that top are its two edges, because vertices are pairwise
different.  Core Lean only.
-/
import ClipperVerif.Props.C01Crown
import ClipperVerif.Lemmas.C01BuildIdx
import ClipperVerif.Lemmas.C01BuildEnd
namespace Clipper.Props.C01Build
open Clipper Clipper.Model Clipper.Model.AelOrder Clipper.Model.SweepOrder Clipper.Model.SweepEvents Clipper.Model.SweepPoints
open Clipper.Lemmas.SweepOrder Clipper.Lemmas.C01Output Clipper.Lemmas.C01Build
open Clipper.Props.C01Sweep Clipper.Props.C01Output Clipper.Props.C01Crown

/-- **general position at every scanline**: the part of `Built.Hyp` that remains a hypothesis (decidable; `GPmin`, `GPtop` of `Model/SweepOrder`) -/
def GPAll (b : Built) : Prop := ∀ y ∈ b.ys, GPmin b.edges (b.mins y) y ∧ GPtop b.edges b.next y
instance (b : Built) : Decidable (GPAll b) := by unfold GPAll; infer_instance

/-! ## 1. the structural hypotheses -/

/-- **build_allUp.**  No edge of `build` is horizontal. -/
theorem build_allUp (subj clip : Paths) (h : InputGP subj clip) : AllUp (build (subj ++ clip)).edges :=
  wf_allUp (build_wf subj clip h)

/-- **build_edges_distinct.**  The edges of `build` are pairwise different, and so are their identities. -/
theorem build_edges_distinct (subj clip : Paths) (h : InputGP subj clip) :
    (build (subj ++ clip)).edges.Nodup ∧ IdsInj (build (subj ++ clip)).edges ∧ ((build (subj ++ clip)).edges.map (·.id)).Nodup :=
  ⟨wf_nodup (build_wf subj clip h), wf_idsInj (build_wf subj clip h), (build_wf subj clip h).ids⟩

/-- **build_nextOK.**  `next` continues a bound: the successor is an input edge that starts where the edge ends and is no bound of a local minimum. -/
theorem build_nextOK (subj clip : Paths) (h : InputGP subj clip) :
    NextOK (build (subj ++ clip)).edges (build (subj ++ clip)).next (build (subj ++ clip)).mins :=
  wf_nextOK (build_wf subj clip h) (build_fromCorners _)

/-- **build_scanlines.**  The scanlines are the vertex heights of the paths (with ≥ 3 vertices), strictly descending; both end points of every edge lie on
scanlines; consequently no edge ends or starts strictly inside a scanbeam (two consecutive scanlines). -/
theorem build_scanlines (subj clip : Paths) (h : InputGP subj clip) :
    (∀ y, y ∈ (build (subj ++ clip)).ys ↔ ∃ p ∈ subj ++ clip, 3 ≤ p.length ∧ ∃ v ∈ p, v.y = y) ∧
    (build (subj ++ clip)).ys.Pairwise (fun a b => b < a) ∧
    (∀ e ∈ (build (subj ++ clip)).edges, e.top.y ∈ (build (subj ++ clip)).ys ∧ e.bot.y ∈ (build (subj ++ clip)).ys) ∧
    (∀ pre y0 y1 rest, (build (subj ++ clip)).ys = pre ++ y0 :: y1 :: rest →
      y1 < y0 ∧ NoTopInside (build (subj ++ clip)).edges y0 y1 ∧ NoBotInside (build (subj ++ clip)).edges y0 y1) := by
  have hw := build_wf subj clip h
  have hm : ∀ e ∈ (build (subj ++ clip)).edges, e.top.y ∈ (build (subj ++ clip)).ys ∧ e.bot.y ∈ (build (subj ++ clip)).ys :=
    fun e he => heights_mem hw (allCorners_height _) he
  refine ⟨scanlinesOf_mem _, scanlinesOf_sorted _, hm, ?_⟩
  intro pre y0 y1 rest hsplit
  obtain ⟨hlt, hno⟩ := between_of_sorted _ pre rest y0 y1 (scanlinesOf_sorted (subj ++ clip)) hsplit
  exact ⟨hlt, fun e he => hno _ (hm e he).1, fun e he => hno _ (hm e he).2⟩

/-- **build_minsOK.**  At every height: the local minima are pairs of input edges leaving one point of that height, left bound first (strictly: the
two edges are not collinear), and no edge belongs to two of them. -/
theorem build_minsOK (subj clip : Paths) (h : InputGP subj clip) (y : Int) :
    MinsOK (build (subj ++ clip)).edges ((build (subj ++ clip)).mins y) y :=
  wf_minsOK (build_wf subj clip h) (build_fromCorners _) y

/-- **build_mins_iff.**  The local minima are EXACTLY the vertices where both incident edges start (the vertex is lower than both neighbours): an edge is a
bound of a local minimum on the scanline `y` iff it is one of the two edges of a corner (`allCorners`: vertex, edge arriving, edge leaving) of height `y`
at which both edges have their bottom. -/
theorem build_mins_iff (subj clip : Paths) (e : GEdge) (y : Int) :
    e ∈ boundsOf ((build (subj ++ clip)).mins y) ↔
      ∃ c ∈ allCorners 0 (subj ++ clip), c.2.y = y ∧ c.1.1.bot = c.2 ∧ c.1.2.bot = c.2 ∧ (e = c.1.1 ∨ e = c.1.2) := by
  have hf := build_fromCorners (subj ++ clip)
  constructor
  · intro he
    obtain ⟨p, hp, hor⟩ := mem_boundsOf'.1 he
    obtain ⟨hpa, hpy⟩ := mem_mins.1 hp
    obtain ⟨c, hc, hm⟩ := (mem_allMins hf).1 hpa
    obtain ⟨h1, h2, h3⟩ := cornerMin_some hm
    refine ⟨c, hc, ?_, h1, h2, ?_⟩
    · rcases h3 with ⟨rfl, _⟩ | ⟨rfl, _⟩
      · rw [← h1]; exact hpy
      · rw [← h2]; exact hpy
    · rcases h3 with ⟨rfl, _⟩ | ⟨rfl, _⟩ <;> rcases hor with h' | h'
      · exact Or.inl h'
      · exact Or.inr h'
      · exact Or.inr h'
      · exact Or.inl h'
  · intro ⟨c, hc, hy, h1, h2, hor⟩
    have := bounds_of_corner hf hc h1 h2
    rw [hy] at this
    rcases hor with rfl | rfl
    · exact this.1
    · exact this.2

/-- **build_labels.**  `wind_dx = ±1`; a bound keeps its path type and direction; the two bounds of a local minimum have the same path type and opposite
directions. -/
theorem build_labels (subj clip : Paths) (h : InputGP subj clip) :
    DxOK (build (subj ++ clip)).edges (labOf subj clip) ∧
    NextLab (build (subj ++ clip)).edges (build (subj ++ clip)).next (labOf subj clip) ∧
    ∀ y, MinLab (labOf subj clip) ((build (subj ++ clip)).mins y) :=
  ⟨wf_dxOK (build_wf subj clip h), wf_nextLab (build_wf subj clip h) (build_fromCorners _),
    wf_minLab (build_wf subj clip h) (build_fromCorners _)⟩

/-- **build_starts.**  Every edge starts at a local minimum of its scanline or continues a bound. -/
theorem build_starts (subj clip : Paths) (h : InputGP subj clip) :
    Starts (build (subj ++ clip)).edges (build (subj ++ clip)).next (build (subj ++ clip)).mins :=
  wf_starts (build_wf subj clip h) (build_fromCorners _)

/-- **build_two_per_maximum.**  At every height `y`: an edge that ends on `y` and is not continued has EXACTLY ONE partner ending in the same point, also
not continued, of the same path type and the opposite direction, and no third edge ends there (`MaxOK`). -/
theorem build_two_per_maximum (subj clip : Paths) (h : InputGP subj clip) (y : Int) :
    MaxOK (build (subj ++ clip)).edges (build (subj ++ clip)).next (labOf subj clip) y :=
  wf_maxOK (build_wf subj clip h) (build_fromCorners _) y

theorem topStart_of (edges : List GEdge) : ∀ ys : List Int, ys.Pairwise (fun a b => b < a) → (∀ e ∈ edges, e.bot.y ∈ ys) → TopStart edges ys
  | [], _, _ => trivial
  | y :: t, hs, hm => fun e he => head_max (y :: t) y hs rfl _ (hm e he)

/-- **build_topStart.**  Nothing starts below the first scanline, and nothing ends above the last one. -/
theorem build_topStart (subj clip : Paths) (h : InputGP subj clip) :
    TopStart (build (subj ++ clip)).edges (build (subj ++ clip)).ys ∧
    ∀ y, (build (subj ++ clip)).ys.getLast? = some y → ∀ e ∈ (build (subj ++ clip)).edges, y ≤ e.top.y := by
  obtain ⟨_, hs, hm, _⟩ := build_scanlines subj clip h
  exact ⟨topStart_of _ _ hs (fun e he => (hm e he).2), fun y hy e he => last_min _ y hs hy _ (hm e he).1⟩

/-- **build_hyp — (H1).**  `Built.Hyp` for the regenerated `IsValidAelOrder`, from `InputGP`, general position at the scanlines, and `Near cx`. -/
theorem build_hyp (subj clip : Paths) (h : InputGP subj clip) (hgp : GPAll (build (subj ++ clip))) (cx : GEdge → Int → Int) (hn : Near cx)
    (info : GEdge → OInfo) : (build (subj ++ clip)).Hyp (validGen cx info) := by
  have hw := build_wf subj clip h
  have hf := build_fromCorners (subj ++ clip)
  refine ⟨wf_allUp hw, wf_idsInj hw, wf_nextOK hw hf, ?_⟩
  exact wf_sweepOK hw hf (validGen cx info) (fun y => validGen_ok _ cx info y (wf_allUp hw) hn) _ (allCorners_height _)
    (fun pre y0 y1 rest e => between_of_sorted _ pre rest y0 y1 (scanlinesOf_sorted (subj ++ clip)) e) hgp _ [] rfl

/-- **build_hypR — (H2).**  `Built.HypR` from `InputGP` alone. -/
theorem build_hypR (subj clip : Paths) (h : InputGP subj clip) : Built.HypR (build (subj ++ clip)) (labOf subj clip) := by
  have hw := build_wf subj clip h
  have hf := build_fromCorners (subj ++ clip)
  refine ⟨wf_nodup hw, wf_dxOK hw, wf_nextLab hw hf, wf_starts hw hf, (build_topStart subj clip h).1, ?_⟩
  exact wf_sweepR hw hf _ (allCorners_height _)
    (fun pre y0 y1 rest e => between_of_sorted _ pre rest y0 y1 (scanlinesOf_sorted (subj ++ clip)) e) _ [] rfl

theorem beamOK_of_sweepOK (edges : List GEdge) (valid : Int → GEdge → GEdge → Bool) (next : GEdge → Option GEdge)
    (mins : Int → List (GEdge × GEdge)) : ∀ (pre : List Int) (y0 y1 : Int) (rest : List Int),
    SweepOK edges valid next mins (pre ++ y0 :: y1 :: rest) → BeamOK edges valid next mins y0 y1 := by
  intro pre
  induction pre with
  | nil => intro y0 y1 rest h; exact h.1
  | cons a pre ih =>
    intro y0 y1 rest h
    cases pre with
    | nil => exact ih y0 y1 rest h.2
    | cons c pre' => exact ih y0 y1 rest h.2

/-- **gpAll_of_hyp.**  Conversely `GPAll` is no more than the general-position part of `Built.Hyp`: under `InputGP`, `Built.Hyp` (for any insertion
predicate) implies `GPAll` — at the last scanline there is no local minimum and at the first one no scanbeam ends. -/
theorem gpAll_of_hyp (subj clip : Paths) (h : InputGP subj clip) (valid : Int → GEdge → GEdge → Bool)
    (hh : (build (subj ++ clip)).Hyp valid) : GPAll (build (subj ++ clip)) := by
  obtain ⟨hup, _, _, hok⟩ := hh
  obtain ⟨_, hs, hm, _⟩ := build_scanlines subj clip h
  obtain ⟨htop, hend⟩ := build_topStart subj clip h
  intro y hy
  obtain ⟨pre, post, hsplit⟩ := List.append_of_mem hy
  constructor
  · cases post with
    | cons y1 rest =>
      rw [hsplit] at hok
      exact (beamOK_of_sweepOK _ valid _ _ pre y y1 rest hok).2.2.1
    | nil =>
      intro p hp
      exfalso
      have hmo := build_minsOK subj clip h y
      obtain ⟨e1, _, _, hby, _⟩ := hmo.1 p hp
      have := hend y (by rw [hsplit]; simp) _ e1
      have := hup _ e1
      unfold SEdge.Up at this
      omega
  · rcases List.eq_nil_or_concat pre with rfl | ⟨pre', y0, rfl⟩
    · intro a ha _ _ _ hal _
      exfalso
      rw [hsplit] at htop
      have := htop a ha
      unfold AliveBelow at hal
      omega
    · rw [hsplit] at hok
      have : pre'.concat y0 ++ y :: post = pre' ++ y0 :: y :: post := by simp
      rw [this] at hok
      exact (beamOK_of_sweepOK _ valid _ _ pre' y0 y post hok).2.2.2.2.2

/-- **build_hyp_iff.**  Under `InputGP` and `Near cx`, the whole of `Built.Hyp` for the regenerated `IsValidAelOrder` is EQUIVALENT to general position at the
scanlines: nothing else is hidden in it. -/
theorem build_hyp_iff (subj clip : Paths) (h : InputGP subj clip) (cx : GEdge → Int → Int) (hn : Near cx) (info : GEdge → OInfo) :
    (build (subj ++ clip)).Hyp (validGen cx info) ↔ GPAll (build (subj ++ clip)) :=
  ⟨gpAll_of_hyp subj clip h _, fun hgp => build_hyp subj clip h hgp cx hn info⟩

/-! ## 2. the end of the sweep -/

/-- **build_sweep_ends_empty — (H3).**  The exact run of the decorated event list ends with an EMPTY AEL: every edge is removed at its bound's local
maximum; after the last scanbeam an edge still alive would top out strictly above the last scanline, which is the least vertex height. -/
theorem build_sweep_ends_empty (subj clip : Paths) (cfg : Cfg) (hct : cfg.ct ≠ .noClip) (cx : GEdge → Int → Int) (hn : Near cx)
    (info : GEdge → OInfo) (h : InputGP subj clip) (hgp : GPAll (build (subj ++ clip))) (D : Int)
    (hD : DenOK D (builtDens subj clip cx info)) (rs : RState)
    (hrs : runR cfg RState.empty (builtEventsP D subj clip cx info) = .ok rs) : rs.s.ael = [] := by
  have h1 := build_hyp subj clip h hgp cx hn info
  exact sweep_ends_empty cfg hct D _ (validGen cx info) cx _ _ (labOf subj clip) _ h1.1 h1.2.2.1 hn h1.2.2.2 (build_hypR subj clip h) hD
    (build_topStart subj clip h).2 rs hrs

/-! ## 3. the crown with the reduced hypothesis set -/

/-- **output_region_reduced.**  `Props/C01Crown.output_region` with `Built.Hyp`, `Built.HypR` and the empty final AEL discharged: for closed paths with `InputGP` and
general position at the scanlines, the run is accepted and around every admissible point the exact output rings wind `1` if `inR` holds and `0` otherwise. -/
theorem output_region_reduced (subj clip : Paths) (cfg : Cfg) (hct : cfg.ct ≠ .noClip) (cx : GEdge → Int → Int) (hn : Near cx)
    (info : GEdge → OInfo) (hin : InputGP subj clip) (hgp : GPAll (build (subj ++ clip))) (D : Int)
    (hD : DenOK D (builtDens subj clip cx info))
    (pre : List BeamRunP) (r : BeamRunP) (post : List BeamRunP)
    (hruns : beamRunsP D (validGen cx info) cx (build (subj ++ clip)).next (build (subj ++ clip)).mins (labOf subj clip) []
      (build (subj ++ clip)).ys = pre ++ r :: post)
    (yn yd : Int) (hd : 0 < yd) (hlo : r.snap.y1 * yd < yn) (hhi : yn < r.snap.y0 * yd)
    (hcr : ∀ op ∈ r.evIsect, op.pt.y * yd ≠ D * yn) :
    ∃ rs, runR cfg RState.empty (builtEventsP D subj clip cx info) = .ok rs ∧
      ∀ xn : Int, (∀ e ∈ r.snap.inserted, ¬ onEdgeLine e xn yn yd) →
        windOut D rs xn yn yd = if inR cfg.ct cfg.fr (windQ subj xn yn yd) (windQ clip xn yn yd) then 1 else 0 := by
  obtain ⟨rs, h1, h2⟩ := output_region subj clip cfg hct cx hn info (build_hyp subj clip hin hgp cx hn info) (build_hypR subj clip hin) D hD
    pre r post hruns yn yd hd hlo hhi hcr
  exact ⟨rs, h1, h2 (build_sweep_ends_empty subj clip cfg hct cx hn info hin hgp D hD rs h1)⟩

/-- **c01_model_level_reduced — C01 for the exact sweep, reduced hypothesis set.**  Inputs: closed paths `subj`, `clip`; every clip type but NoClip, every fill rule.

REMAINING HYPOTHESES, each about the geometry of the input:
 * `InputGP subj clip` — on the paths alone: ≥ 3 vertices per path, no horizontal edge, no spike at a local minimum, all vertices pairwise different;
 * `GPAll (build (subj ++ clip))` — general position at the scanlines (`GPmin`, `GPtop`): at every vertex height, every edge passing by is more than one unit
   away from a local-minimum vertex, and two edges of a scanbeam are more than one unit apart at its top unless they end in one local maximum;
 * `Near cx` (a property of the rounding function, true for `rhe`: `rhe_near`) and `DenOK D` (true for `D = sweepDen`: `c01_model_level_reduced_lcm`);
 * about the probe point: its height lies strictly inside a scanbeam `r`, is the height of no crossing point of `r`, and the point is on no edge.
DISCHARGED (formerly decided per input): all of `Built.Hyp` except `GPmin`/`GPtop` (`AllUp`, `IdsInj`, `NextOK`, the scanline order, `MinsOK`, `ValidOK`,
`NoTopInside`), all of `Built.HypR`, the acceptance of the run (`rs` exists) and `rs.s.ael = []`.

Then the output paths wind around the point exactly `0` or `1` times, and `wind (output) p ≠ 0 ⟺ inR ct fr (wind subj p) (wind clip p)`. -/
theorem c01_model_level_reduced (subj clip : Paths) (cfg : Cfg) (hct : cfg.ct ≠ .noClip) (cx : GEdge → Int → Int) (hn : Near cx)
    (info : GEdge → OInfo) (hin : InputGP subj clip) (hgp : GPAll (build (subj ++ clip))) (D : Int)
    (hD : DenOK D (builtDens subj clip cx info))
    (pre : List BeamRunP) (r : BeamRunP) (post : List BeamRunP)
    (hruns : beamRunsP D (validGen cx info) cx (build (subj ++ clip)).next (build (subj ++ clip)).mins (labOf subj clip) []
      (build (subj ++ clip)).ys = pre ++ r :: post)
    (xn yn yd : Int) (hd : 0 < yd) (hlo : r.snap.y1 * yd < yn) (hhi : yn < r.snap.y0 * yd)
    (hcr : ∀ op ∈ r.evIsect, op.pt.y * yd ≠ D * yn) (hoff : ∀ e ∈ r.snap.inserted, ¬ onEdgeLine e xn yn yd) :
    ∃ rs, runR cfg RState.empty (builtEventsP D subj clip cx info) = .ok rs ∧ rs.s.ael = [] ∧
      (windOut D rs xn yn yd = 0 ∨ windOut D rs xn yn yd = 1) ∧
      (windOut D rs xn yn yd ≠ 0 ↔ inR cfg.ct cfg.fr (windQ subj xn yn yd) (windQ clip xn yn yd) = true) := by
  have h1 := build_hyp subj clip hin hgp cx hn info
  have h2 := build_hypR subj clip hin
  obtain ⟨⟨rs, hrs⟩, _, _⟩ := sweepEventsP_accepted cfg hct D _ (validGen cx info) cx _ _ (labOf subj clip) _ h1.1 h1.2.2.1 hn h1.2.2.2 h2 hD
  have hend := build_sweep_ends_empty subj clip cfg hct cx hn info hin hgp D hD rs hrs
  exact ⟨rs, hrs, hend, c01_model_level subj clip cfg hct cx hn info h1 h2 D hD rs hrs hend pre r post hruns xn yn yd hd hlo hhi hcr hoff⟩

/-- **c01_model_level_reduced_lcm.**  The same with the canonical scale `D = sweepDen …` (the least common multiple of the crossing denominators): `DenOK` is
discharged too (`Props/C01Output.crossing_dens_pos`).  Hypotheses left: `InputGP`, `GPAll`, `Near cx`, `ct ≠ NoClip`, and the conditions on the probe. -/
theorem c01_model_level_reduced_lcm (subj clip : Paths) (cfg : Cfg) (hct : cfg.ct ≠ .noClip) (cx : GEdge → Int → Int) (hn : Near cx)
    (info : GEdge → OInfo) (hin : InputGP subj clip) (hgp : GPAll (build (subj ++ clip))) (D : Int)
    (hDef : D = sweepDen (validGen cx info) cx (build (subj ++ clip)).next (build (subj ++ clip)).mins (build (subj ++ clip)).ys)
    (pre : List BeamRunP) (r : BeamRunP) (post : List BeamRunP)
    (hruns : beamRunsP D (validGen cx info) cx (build (subj ++ clip)).next (build (subj ++ clip)).mins (labOf subj clip) []
      (build (subj ++ clip)).ys = pre ++ r :: post)
    (xn yn yd : Int) (hd : 0 < yd) (hlo : r.snap.y1 * yd < yn) (hhi : yn < r.snap.y0 * yd)
    (hcr : ∀ op ∈ r.evIsect, op.pt.y * yd ≠ D * yn) (hoff : ∀ e ∈ r.snap.inserted, ¬ onEdgeLine e xn yn yd) :
    ∃ rs, runR cfg RState.empty (builtEventsP D subj clip cx info) = .ok rs ∧ rs.s.ael = [] ∧
      (windOut D rs xn yn yd = 0 ∨ windOut D rs xn yn yd = 1) ∧
      (windOut D rs xn yn yd ≠ 0 ↔ inR cfg.ct cfg.fr (windQ subj xn yn yd) (windQ clip xn yn yd) = true) := by
  have h1 := build_hyp subj clip hin hgp cx hn info
  have h2 := build_hypR subj clip hin
  have hD : DenOK D (builtDens subj clip cx info) := by
    rw [hDef]
    exact (crossing_dens_pos cfg _ (validGen cx info) cx _ _ (labOf subj clip) _ h1.1 h1.2.2.1 hn h1.2.2.2 h2).2
  exact c01_model_level_reduced subj clip cfg hct cx hn info hin hgp D hD pre r post hruns xn yn yd hd hlo hhi hcr hoff

/-! ## non-vacuity: the two crossing triangles of `Props/C01Crown`

`A = (0,40) (30,3) (-30,11)` (subject), `B = (-10,33) (-31,0) (34,20)` (clip).  `InputGP` by `decide`; `GPAll` by kernel evaluation.  The reduced theorem
applies: around `(1/2, 59/2)` the exact UNION ring winds once — with NO per-input evaluation of `Built.Hyp`, `Built.HypR` or the final AEL. -/

private def triA : Path := [⟨0, 40⟩, ⟨30, 3⟩, ⟨-30, 11⟩]
private def triB : Path := [⟨-10, 33⟩, ⟨-31, 0⟩, ⟨34, 20⟩]
private def triD : Int := 36351017860465560

/-- the two triangles satisfy the input-only precondition -/
theorem tri_inputGP : InputGP [triA] [triB] := by decide

/-- … and are in general position at their scanlines -/
theorem tri_gpAll : GPAll (build ([triA] ++ [triB])) := by decide +kernel

private theorem tri_den : DenOK triD (builtDens [triA] [triB] rhe default) := by decide +kernel

private def triRuns : List BeamRunP :=
  beamRunsP triD (validGen rhe default) rhe (build ([triA] ++ [triB])).next (build ([triA] ++ [triB])).mins (labOf [triA] [triB]) []
    (build ([triA] ++ [triB])).ys

private theorem tri_split : triRuns = triRuns.take 1 ++ triRuns.getD 1 default :: triRuns.drop 2 :=
  Clipper.Props.C01Region.split_at triRuns 1 (by decide +kernel)

private theorem tri_inside : (triRuns.getD 1 default).snap.y1 * 2 < 59 ∧ 59 < (triRuns.getD 1 default).snap.y0 * 2 ∧
    (∀ op ∈ (triRuns.getD 1 default).evIsect, op.pt.y * 2 ≠ triD * 59) ∧
    (∀ e ∈ (triRuns.getD 1 default).snap.inserted, ¬ onEdgeLine e 1 59 2) ∧
    inR .union .nonZero (windQ [triA] 1 59 2) (windQ [triB] 1 59 2) = true := by decide +kernel

/-- the hypotheses `Built.Hyp`, `Built.HypR` of the two triangles are now INSTANCES OF THEOREMS -/
example : (build ([triA] ++ [triB])).Hyp (validGen rhe default) ∧ Built.HypR (build ([triA] ++ [triB])) (labOf [triA] [triB]) :=
  ⟨build_hyp _ _ tri_inputGP tri_gpAll rhe rhe_near default, build_hypR _ _ tri_inputGP⟩

/-- `c01_model_level_reduced` applies to the two triangles (UNION): the run is accepted, ends with an empty AEL, and the exact union ring winds once around
`(1/2, 59/2)` -/
example : ∃ rs, runR ⟨.union, .nonZero⟩ RState.empty (builtEventsP triD [triA] [triB] rhe default) = .ok rs ∧ rs.s.ael = [] ∧
    windOut triD rs 1 59 2 = 1 := by
  obtain ⟨rs, hrs, hend, h01, hiff⟩ := c01_model_level_reduced [triA] [triB] ⟨.union, .nonZero⟩ (by decide) rhe rhe_near default tri_inputGP tri_gpAll
    triD tri_den _ _ _ tri_split 1 59 2 (by decide) tri_inside.1 tri_inside.2.1 tri_inside.2.2.1 tri_inside.2.2.2.1
  refine ⟨rs, hrs, hend, ?_⟩
  rcases h01 with h0 | h1
  · exact absurd h0 (hiff.2 tri_inside.2.2.2.2)
  · exact h1

/-- a second input: a concave "W" (two local minima, two local maxima, a hole-free octagon-like outline with intermediate vertices) clipped by a
slanted quadrilateral — `InputGP` by `decide`, `GPAll` by kernel evaluation; `Built.Hyp` / `Built.HypR` follow from the theorems -/
private def wSubj : Path := [⟨0, 50⟩, ⟨13, 21⟩, ⟨24, 38⟩, ⟨37, 5⟩, ⟨61, 44⟩, ⟨44, 71⟩, ⟨29, 57⟩, ⟨11, 80⟩]
private def wClip : Path := [⟨-12, 33⟩, ⟨52, 12⟩, ⟨70, 58⟩, ⟨20, 66⟩]

example : InputGP [wSubj] [wClip] := by decide
example : GPAll (build ([wSubj] ++ [wClip])) := by decide +kernel
example : (build ([wSubj] ++ [wClip])).Hyp (validGen rhe default) ∧ Built.HypR (build ([wSubj] ++ [wClip])) (labOf [wSubj] [wClip]) ∧
    ((build ([wSubj] ++ [wClip])).mins 80).length = 1 ∧ (build ([wSubj] ++ [wClip])).allMins.length = 4 :=
  ⟨build_hyp _ _ (by decide) (by decide +kernel) rhe rhe_near default, build_hypR _ _ (by decide), by decide +kernel, by decide +kernel⟩

/-- `InputGP` is not vacuous the other way either: a path with a horizontal edge, a spike at a local minimum, or a repeated vertex is rejected -/
example : ¬ InputGP [[⟨0, 0⟩, ⟨10, 0⟩, ⟨5, 5⟩]] [] ∧ ¬ InputGP [[⟨0, 0⟩, ⟨0, 10⟩, ⟨0, 5⟩, ⟨7, 7⟩]] [] ∧
    ¬ InputGP [[⟨0, 0⟩, ⟨4, 10⟩, ⟨9, 3⟩]] [[⟨0, 0⟩, ⟨-4, 10⟩, ⟨-9, 3⟩]] := by decide

end Clipper.Props.C01Build
