/-
C01 (also C13, C10) — the GEOMETRIC ORDER of the active edge list.

`Props/C01.lean` proves the winding-number bookkeeping for op sequences in which the *position* of every inserted edge is an
input.  This file supplies the link from positions to geometry:

 (1) `aelOrder_bridge`            the definition regenerated from the C++ `IsValidAelOrder` equals the hand-readable spec;
 (2) `isValidAelOrder_spec_gp`    what that predicate means: the order of `curr_x` when they differ, otherwise (no collinearity)
                                  the sign of an exact cross product, which says exactly that the newcomer runs to the right of
                                  the resident immediately above the scanline (exact rational x, compared without division);
 (3) `rounding_preserves_order`   rounding to nearest cannot reverse two exact x-coordinates that differ by at least 1;
 (4) `insertLeft_shape/_sorted`, `insertRight_shape/_sorted`
                                  InsertLeftEdge / InsertRightEdge + settling loop never lose or reorder residents, and put the
                                  newcomer at the position given by any strict order that agrees with the predicate.

Coordinates are mathematical integers (`Int`); y grows downwards, the sweep runs from large y to small y, so `top.y ≤ bot.y`
and "above the scanline" means smaller y.
-/
import ClipperVerif.Lemmas.AelOrder
namespace Clipper.Props.C01Order
open Clipper Clipper.Model.AelOrder Clipper.Lemmas.AelOrder

/-! ## (1) bridge -/

/-- **Bridge (Tie T).** `Gen.IsValidAelOrder` — regenerated from the current C++ source on every run — applied to the fields
of two edges equals the hand-readable `aelOrderSpec`, for all edges (all integers, all flag values).  A change of the C++
function changes the generated definition and breaks this proof. -/
theorem aelOrder_bridge (r n : OEdge) : isValidAelOrder r n = aelOrderSpec r n := by
  simp only [isValidAelOrder, Gen.IsValidAelOrder, aelOrderSpec, aelOrderSpecB, cps_eq, isCollinear_eq]
  generalize cross r.top n.bot n.top = c1
  generalize cross n.bot r.top r.nextVertexPt = c2
  generalize cross n.bot n.top n.nextVertexPt = c3
  generalize cross r.prevPrevVertexPt r.bot r.top = c4
  generalize cross r.prevPrevVertexPt n.bot n.prevPrevVertexPt = c5
  by_cases h0 : n.currX = r.currX
  · simp only [h0, ne_eq, not_true_eq_false, decide_false, if_false, Bool.false_eq_true]
    by_cases h1 : c1 = 0
    · subst h1
      simp only [Int.sign_zero, not_true_eq_false, decide_false, if_false, Bool.false_eq_true]
      simp only [Int.sign_nonpos_iff, Int.sign_nonneg_iff, Int.sign_pos_iff]
      by_cases a1 : r.isMaxima = false ∧ r.top.y > n.top.y
      · obtain ⟨a11, a12⟩ := a1; simp [a11, a12]
      · have a1' : (!r.isMaxima && decide (r.top.y > n.top.y)) = false := by
          cases hh : r.isMaxima <;> simp_all
        simp only [a1', a1, if_false, Bool.false_eq_true]
        by_cases a2 : n.isMaxima = false ∧ n.top.y > r.top.y
        · obtain ⟨a21, a22⟩ := a2; simp [a21, a22]
        · have a2' : (!n.isMaxima && decide (n.top.y > r.top.y)) = false := by
            cases hh : n.isMaxima <;> simp_all
          simp only [a2', a2, if_false, Bool.false_eq_true]
          by_cases a3 : ¬r.bot.y = n.bot.y ∨ ¬r.localMinY = n.bot.y
          · have a3' : (decide ¬r.bot.y = n.bot.y || decide ¬r.localMinY = n.bot.y) = true := by
              simpa using a3
            simp only [a3', a3, if_true]
          · have a3' : (decide ¬r.bot.y = n.bot.y || decide ¬r.localMinY = n.bot.y) = false := by
              rw [Bool.eq_false_iff]; simpa using a3
            simp only [a3', a3, if_false, Bool.false_eq_true]
            cases r.isLeftBound <;> cases n.isLeftBound <;> by_cases a4 : c4 = 0 <;> by_cases a5 : c5 > 0 <;> simp [a4, a5]
    · have : ¬ (Int.sign c1 = 0) := by simpa [Int.sign_eq_zero_iff_zero] using h1
      simp [this, h1, Int.sign_neg_iff]
  · simp [h0]

/-! ## (2) what the predicate means -/

/-- When the two `curr_x` differ, the answer is their comparison. -/
theorem isValidAelOrder_of_currX_ne (r n : OEdge) (h : r.currX ≠ n.currX) :
    isValidAelOrder r n = decide (r.currX < n.currX) := by
  rw [aelOrder_bridge]; simp [aelOrderSpec, aelOrderSpecB, Ne.symm h]

/-- When the `curr_x` are equal and `resident.top, newcomer.bot, newcomer.top` are not collinear, the answer is the sign of
the exact cross product. -/
theorem isValidAelOrder_of_cross_ne (r n : OEdge) (hx : r.currX = n.currX) (hc : cross r.top n.bot n.top ≠ 0) :
    isValidAelOrder r n = decide (cross r.top n.bot n.top < 0) := by
  rw [aelOrder_bridge]; simp [aelOrderSpec, aelOrderSpecB, hx, hc]

/-- **Geometry of the cross-product test.**  Resident edge `rb → rt`, newcomer `nb → nt`, both running upwards from the
scanline `y = nb.y` (`rt.y < nb.y`, `nt.y < nb.y`, resident not horizontal), the newcomer's bottom point lying exactly on the
resident's line (`cross rb rt nb = 0`; in particular when both emanate from the same point, `rb = nb`, or when the resident
passes through `nb`: the two have the same exact x at the scanline).  Then for EVERY rational height `yn/yd` strictly above
the scanline the sign of `cross rt nb nt` decides on which side the newcomer runs:
`< 0` iff the resident is strictly left of the newcomer at that height, `> 0` iff strictly right (and hence `= 0` iff the two
lines coincide there).  x-coordinates are the exact fractions `xNum/xDen` (both denominators positive), compared by
cross-multiplication. -/
theorem cross_sign_right_above (rb rt nb nt : Pt) (yn yd : Int)
    (hr : rt.y < rb.y) (hrt : rt.y < nb.y) (hn : nt.y < nb.y) (hon : cross rb rt nb = 0)
    (hyd : 0 < yd) (hy : yn < nb.y * yd) :
    (cross rt nb nt < 0 ↔ xLt rb rt nb nt yn yd) ∧ (cross rt nb nt > 0 ↔ xLt nb nt rb rt yn yd) ∧
      0 < xDen rb rt yd ∧ 0 < xDen nb nt yd := by
  refine ⟨?_, ?_, Int.mul_pos (by omega) hyd, Int.mul_pos (by omega) hyd⟩
  all_goals
  -- W : comparison of the two direction vectors;  V = - cross rt nb nt
  have hT : 0 < nb.y * yd - yn := by omega
  have hP : 0 < yd * (nb.y * yd - yn) := Int.mul_pos hyd hT
  have hD : xNum nb nt yn yd * xDen rb rt yd - xNum rb rt yn yd * xDen nb nt yd =
      (yd * (nb.y * yd - yn)) * ((rt.x - rb.x) * (nt.y - nb.y) - (nt.x - nb.x) * (rt.y - rb.y))
        - yd * yd * (nt.y - nb.y) * cross rb rt nb := by
    simp only [xNum, xDen, cross]; grind
  have hWV : (rt.y - nb.y) * ((rt.x - rb.x) * (nt.y - nb.y) - (nt.x - nb.x) * (rt.y - rb.y)) =
      (rt.y - rb.y) * (-(cross rt nb nt)) - cross rb rt nb * (nt.y - nb.y) := by
    simp only [cross]; grind
  rw [hon] at hD hWV
  simp only [Int.mul_zero, Int.zero_mul, Int.sub_zero] at hD hWV
  generalize hW : (rt.x - rb.x) * (nt.y - nb.y) - (nt.x - nb.x) * (rt.y - rb.y) = W at hD hWV
  have ha : rt.y - nb.y < 0 := by omega
  have hd : rt.y - rb.y < 0 := by omega
  have s1 : 0 < W ↔ 0 < -(cross rt nb nt) := pos_of_neg_mul_eq ha hd hWV
  have s2 : 0 < -W ↔ 0 < -(-(cross rt nb nt)) :=
    pos_of_neg_mul_eq ha hd (by rw [Int.mul_neg, Int.mul_neg, hWV])
  have p1 : 0 < (yd * (nb.y * yd - yn)) * W ↔ 0 < W := pos_of_pos_mul_eq hP rfl
  have p2 : 0 < (yd * (nb.y * yd - yn)) * (-W) ↔ 0 < -W := pos_of_pos_mul_eq hP rfl
  rw [Int.mul_neg] at p2
  unfold xLt
  generalize xNum nb nt yn yd * xDen rb rt yd = A at hD
  generalize xNum rb rt yn yd * xDen nb nt yd = B at hD
  generalize (yd * (nb.y * yd - yn)) * W = Q at hD p1 p2
  omega

/-- **isValidAelOrder_spec_gp.**  Characterisation of `IsValidAelOrder(resident, newcomer)` in exact arithmetic, away from the
collinear branches: if the `curr_x` differ the answer is their order; if they are equal and `resident.top, newcomer.bot,
newcomer.top` are not collinear the answer is `cross(resident.top, newcomer.bot, newcomer.top) < 0`, and — for a resident
whose line passes exactly through `newcomer.bot` (same point of departure, or same exact x at the scanline), both edges
continuing above the scanline — this is true iff the resident is strictly LEFT of the newcomer at every rational height
`yn/yd` strictly above the scanline, and false iff it is strictly RIGHT of it there. -/
theorem isValidAelOrder_spec_gp (r n : OEdge) :
    (r.currX ≠ n.currX → isValidAelOrder r n = decide (r.currX < n.currX)) ∧
    (r.currX = n.currX → cross r.top n.bot n.top ≠ 0 →
      isValidAelOrder r n = decide (cross r.top n.bot n.top < 0) ∧
      ∀ yn yd : Int, r.top.y < r.bot.y → r.top.y < n.bot.y → n.top.y < n.bot.y → cross r.bot r.top n.bot = 0 →
        0 < yd → yn < n.bot.y * yd →
          (isValidAelOrder r n = true ↔ xLt r.bot r.top n.bot n.top yn yd) ∧
          (isValidAelOrder r n = false ↔ xLt n.bot n.top r.bot r.top yn yd)) := by
  refine ⟨isValidAelOrder_of_currX_ne r n, fun hx hc => ⟨isValidAelOrder_of_cross_ne r n hx hc, ?_⟩⟩
  intro yn yd h1 h2 h3 h4 h5 h6
  obtain ⟨g1, g2, _, _⟩ := cross_sign_right_above r.bot r.top n.bot n.top yn yd h1 h2 h3 h4 h5 h6
  rw [isValidAelOrder_of_cross_ne r n hx hc]
  constructor
  · rw [decide_eq_true_iff]; exact g1
  · rw [decide_eq_false_iff_not, ← g2]; omega

/-- a resident through the origin going up-left, a newcomer from the origin going up-right: valid, and the resident is left
of the newcomer at height -1/2 -/
example :
    let r : OEdge := { currX := 0, bot := ⟨0, 0⟩, top := ⟨-3, -4⟩, isLeftBound := true, isMaxima := false,
                       nextVertexPt := ⟨0, -9⟩, prevPrevVertexPt := ⟨5, -5⟩, localMinY := 0, joinRight := false }
    let n : OEdge := { currX := 0, bot := ⟨0, 0⟩, top := ⟨2, -7⟩, isLeftBound := true, isMaxima := false,
                       nextVertexPt := ⟨0, -9⟩, prevPrevVertexPt := ⟨-5, -5⟩, localMinY := 0, joinRight := false }
    r.currX = n.currX ∧ cross r.top n.bot n.top ≠ 0 ∧ r.top.y < r.bot.y ∧ r.top.y < n.bot.y ∧ n.top.y < n.bot.y ∧
      cross r.bot r.top n.bot = 0 ∧ isValidAelOrder r n = true ∧ xLt r.bot r.top n.bot n.top (-1) 2 := by decide

/-- a resident from (10,5) through (4,-3) to (1,-7) — it passes through the newcomer's bottom point (4,-3) — and a newcomer
going up to the left of it: not valid, newcomer strictly left at height -7/2 -/
example :
    let r : OEdge := { currX := 4, bot := ⟨10, 5⟩, top := ⟨1, -7⟩, isLeftBound := false, isMaxima := true,
                       nextVertexPt := ⟨0, 0⟩, prevPrevVertexPt := ⟨0, 0⟩, localMinY := 5, joinRight := false }
    let n : OEdge := { currX := 4, bot := ⟨4, -3⟩, top := ⟨-2, -6⟩, isLeftBound := true, isMaxima := false,
                       nextVertexPt := ⟨0, -9⟩, prevPrevVertexPt := ⟨7, -9⟩, localMinY := -3, joinRight := false }
    cross r.bot r.top n.bot = 0 ∧ cross r.top n.bot n.top ≠ 0 ∧ isValidAelOrder r n = false ∧
      xLt n.bot n.top r.bot r.top (-7) 2 := by decide

/-! ## (3) rounding -/

/-- **rounding_preserves_order.**  Two exact x-coordinates `na/da` and `nb/db` (positive denominators) and two integers
`ca`, `cb` within 1/2 of them (as `TopX` produces by rounding to nearest; only `ca ≤ na/da + 1/2` and `nb/db - 1/2 ≤ cb` are
needed).  If the exact values differ by at least 1 (`na/da + 1 ≤ nb/db`) the rounded ones are not reversed (`ca ≤ cb`); if
by more than 1 they are strictly ordered. -/
theorem rounding_preserves_order (na da nb db ca cb : Int) (hda : 0 < da) (hdb : 0 < db)
    (ha1 : 2 * (ca * da - na) ≤ da) (hb2 : -db ≤ 2 * (cb * db - nb)) :
    (na * db + da * db ≤ nb * da → ca ≤ cb) ∧ (na * db + da * db < nb * da → ca < cb) := by
  have hP : 0 < da * db := Int.mul_pos hda hdb
  -- multiply the two "within 1/2" facts by the other denominator
  have e1 : 2 * (ca * (da * db)) - 2 * (na * db) ≤ da * db := by
    have := Int.mul_le_mul_of_nonneg_right ha1 (Int.le_of_lt hdb)
    have e : 2 * (ca * da - na) * db = 2 * (ca * (da * db)) - 2 * (na * db) := by grind
    rw [e] at this; exact this
  have e2 : -(da * db) ≤ 2 * (cb * (da * db)) - 2 * (nb * da) := by
    have := Int.mul_le_mul_of_nonneg_right hb2 (Int.le_of_lt hda)
    have e : 2 * (cb * db - nb) * da = 2 * (cb * (da * db)) - 2 * (nb * da) := by grind
    have e' : -db * da = -(da * db) := by grind
    rw [e, e'] at this; exact this
  constructor
  · intro h
    apply Int.not_lt.1
    intro hlt
    have h1 : 1 * (da * db) ≤ (ca - cb) * (da * db) := Int.mul_le_mul_of_nonneg_right (by omega) (Int.le_of_lt hP)
    have e : (ca - cb) * (da * db) = ca * (da * db) - cb * (da * db) := by grind
    rw [e] at h1
    generalize ca * (da * db) = X at *
    generalize cb * (da * db) = Y at *
    generalize da * db = P at *
    generalize na * db = U at *
    generalize nb * da = V at *
    omega
  · intro h
    apply Int.not_le.1
    intro hle
    have h1 : 0 * (da * db) ≤ (ca - cb) * (da * db) := Int.mul_le_mul_of_nonneg_right (by omega) (Int.le_of_lt hP)
    have e : (ca - cb) * (da * db) = ca * (da * db) - cb * (da * db) := by grind
    rw [e] at h1
    generalize ca * (da * db) = X at *
    generalize cb * (da * db) = Y at *
    generalize da * db = P at *
    generalize na * db = U at *
    generalize nb * da = V at *
    omega

/-- The same for a rounding FUNCTION on fractions `n/d` (the only assumptions on `round`: it is within 1/2 of the exact value
and monotone — `nearbyint` satisfies both, and so does any tie-breaking rule): exact values at least 1 apart are not
reversed, more than 1 apart stay strictly ordered, and two DIFFERENT rounded values are in the order of the exact ones. -/
theorem rounding_preserves_order_fn (round : Int → Int → Int)
    (hnear : ∀ n d, 0 < d → 2 * (round n d * d - n) ≤ d ∧ -d ≤ 2 * (round n d * d - n))
    (hmono : ∀ n d n' d', 0 < d → 0 < d' → n * d' ≤ n' * d → round n d ≤ round n' d')
    (na da nb db : Int) (hda : 0 < da) (hdb : 0 < db) :
    (na * db + da * db ≤ nb * da → round na da ≤ round nb db) ∧
    (na * db + da * db < nb * da → round na da < round nb db) ∧
    (round na da < round nb db → na * db < nb * da) := by
  obtain ⟨a1, a2⟩ := hnear na da hda
  obtain ⟨b1, b2⟩ := hnear nb db hdb
  obtain ⟨r1, r2⟩ := rounding_preserves_order na da nb db _ _ hda hdb a1 b2
  refine ⟨r1, r2, ?_⟩
  intro h
  apply Int.not_le.1
  intro hle
  have := hmono nb db na da hdb hda hle
  omega

/-- 7/2 and 9/2 are exactly 1 apart; rounding them to 4 and 4 (ties resolved towards each other) is allowed and not reversed -/
example : ((7 : Int) * 2 + 2 * 2 ≤ 9 * 2 → (4 : Int) ≤ 4) ∧ ((7 : Int) * 2 + 2 * 2 < 9 * 2 → (4 : Int) < 4) :=
  rounding_preserves_order 7 2 9 2 4 4 (by decide) (by decide) (by decide) (by decide)

/-! ## (4) the list walk -/
section Lists
variable {E : Type} (valid : E → E → Bool) (joinRight : E → Bool)

/-- **insertLeft_shape** (no hypothesis on the predicate, every AEL).  `InsertLeftEdge` either links the new edge somewhere
into the list, all residents keeping their relative order (`l₁ ++ e :: l₂` with `l₁ ++ l₂ = l`), or — the C++ path
`if (!e2) return` — leaves the list unchanged WITHOUT the new edge; the latter only if the last edge of the AEL is marked
`JoinWith::Right` (a join partner is always its right neighbour, so this state is unreachable: `insertLeft_shape_linked`). -/
theorem insertLeft_shape (l : List E) (e : E) :
    (∃ l₁ l₂, l = l₁ ++ l₂ ∧ insertLeft valid joinRight l e = l₁ ++ e :: l₂ ∧
        insertLeftPos valid joinRight l e = some l₁.length) ∨
    (insertLeft valid joinRight l e = l ∧ insertLeftPos valid joinRight l e = none ∧
        ∃ x, l.getLast? = some x ∧ joinRight x = true) := by
  cases h : insertLeftPos valid joinRight l e with
  | none =>
    right
    obtain ⟨h1, h2⟩ := insertLeft_of_none valid joinRight l e h
    exact ⟨h1, rfl, h2⟩
  | some k =>
    left
    obtain ⟨h1, h2⟩ := insertLeft_of_pos valid joinRight l e k h
    refine ⟨l.take k, l.drop k, (List.take_append_drop k l).symm, h1, ?_⟩
    simp [List.length_take, Nat.min_eq_left h2]

/-- when the last edge of the AEL is not joined to the right (the engine's invariant: `Right` is always followed by its
`Left` partner) the new edge is always linked -/
theorem insertLeft_shape_linked (l : List E) (e : E) (hlast : ∀ x, l.getLast? = some x → joinRight x = false) :
    ∃ l₁ l₂, l = l₁ ++ l₂ ∧ insertLeft valid joinRight l e = l₁ ++ e :: l₂ ∧
      insertLeftPos valid joinRight l e = some l₁.length := by
  rcases insertLeft_shape valid joinRight l e with h | ⟨_, _, x, hx, hj⟩
  · exact h
  · rw [hlast x hx] at hj; cases hj

/-- **insertLeft_sorted.**  Let `lt` be transitive, the AEL `l` sorted by it, the newcomer comparable with every resident
(`¬ lt r e → lt e r`), and let `IsValidAelOrder(r, e)` agree with `lt r e` for every resident `r`.  Joined pairs are treated
as a unit by `InsertLeftEdge` (the newcomer is never put between an edge marked `JoinWith::Right` and its right neighbour),
so `lt` has to treat them as a unit too: if the left edge of a joined pair is below `e`, so is its partner; and the last
edge is not marked `Right`.  Then `InsertLeftEdge` puts `e` behind exactly the residents below it:
the result is `l₁ ++ e :: l₂` with `l₁ ++ l₂ = l`, every edge of `l₁` below `e`, `e` below every edge of `l₂`; it is sorted by
`lt`, a permutation of `e :: l`, and the index of `e` is the number of residents below `e`. -/
theorem insertLeft_sorted (lt : E → E → Prop) (l : List E) (e : E)
    (htrans : ∀ a b c, lt a b → lt b c → lt a c)
    (hsorted : l.Pairwise lt)
    (hagree : ∀ r ∈ l, valid r e = true ↔ lt r e)
    (htotal : ∀ r ∈ l, ¬ lt r e → lt e r)
    (hjoin : ∀ l₁ a b l₂, l = l₁ ++ a :: b :: l₂ → joinRight a = true → lt a e → lt b e)
    (hlast : ∀ x, l.getLast? = some x → joinRight x = false) :
    ∃ l₁ l₂, l = l₁ ++ l₂ ∧ insertLeft valid joinRight l e = l₁ ++ e :: l₂ ∧
      (∀ r ∈ l₁, lt r e) ∧ (∀ r ∈ l₂, lt e r) ∧
      (insertLeft valid joinRight l e).Pairwise lt ∧
      (insertLeft valid joinRight l e).Perm (e :: l) ∧
      insertLeftPos valid joinRight l e = some (l.countP (fun r => valid r e)) ∧
      l₁.length = l.countP (fun r => valid r e) := by
  obtain ⟨l₁, l₂, hl, hv1, hv2⟩ := sorted_prefix valid lt e htrans l hsorted hagree
  have hhead : ∀ b, l₂.head? = some b → valid b e = false := by
    intro b hb; cases l₂ with
    | nil => simp at hb
    | cons c t => simp at hb; subst hb; exact hv2 _ (by simp)
  have hb1 : ∀ r ∈ l₁, lt r e := fun r hr => (hagree r (by simp [hl, hr])).1 (hv1 r hr)
  have hb2 : ∀ r ∈ l₂, lt e r := fun r hr =>
    htotal r (by simp [hl, hr]) (fun h => by
      have := (hagree r (by simp [hl, hr])).2 h
      rw [hv2 r hr] at this; cases this)
  have hcount : l.countP (fun r => valid r e) = l₁.length := by
    rw [hl, List.countP_append]
    have c1 : l₁.countP (fun r => valid r e) = l₁.length := List.countP_eq_length.2 (by simpa using hv1)
    have c2 : l₂.countP (fun r => valid r e) = 0 := List.countP_eq_zero.2 (by simpa using hv2)
    omega
  -- the value of insertLeft / insertLeftPos
  have key : insertLeft valid joinRight l e = l₁ ++ e :: l₂ ∧ insertLeftPos valid joinRight l e = some l₁.length := by
    cases l₁ with
    | nil =>
      cases l₂ with
      | nil => subst hl; simp [insertLeft, insertLeftPos]
      | cons b t =>
        have hb : valid b e = false := hhead b rfl
        subst hl; simp [insertLeft, insertLeftPos, hb]
    | cons cur l₁' =>
      have hcur : valid cur e = true := hv1 cur (by simp)
      have hv1' : ∀ r ∈ l₁', valid r e = true := fun r hr => hv1 r (by simp [hr])
      have hnj : joinRight ((cur :: l₁').getLast (by simp)) = false := by
        cases hj : joinRight ((cur :: l₁').getLast (by simp)) with
        | false => rfl
        | true =>
          exfalso
          have hmem : (cur :: l₁').getLast (by simp) ∈ cur :: l₁' := List.getLast_mem _
          cases l₂ with
          | nil =>
            have : l.getLast? = some ((cur :: l₁').getLast (by simp)) := by
              rw [hl, List.append_nil]; exact List.getLast?_eq_some_getLast (by simp)
            rw [hlast _ this] at hj; cases hj
          | cons b t =>
            have hsplit : cur :: l₁' = (cur :: l₁').dropLast ++ [(cur :: l₁').getLast (by simp)] :=
              (List.dropLast_concat_getLast (by simp)).symm
            have : l = (cur :: l₁').dropLast ++ (cur :: l₁').getLast (by simp) :: b :: t := by
              rw [hl]; conv => lhs; rw [hsplit]
              simp
            have hbe : lt b e := hjoin _ _ _ _ this hj (hb1 _ hmem)
            have := (hagree b (by simp [hl])).2 hbe
            rw [hhead b rfl] at this; cases this
      have w1 := walkInsert_split valid joinRight e l₁' cur l₂ hv1' hhead
      have w2 := walkPos_split valid joinRight e l₁' cur l₂ hv1' hhead
      simp only [hnj, Bool.false_eq_true, if_false] at w1 w2
      subst hl
      simp only [List.cons_append, insertLeft, insertLeftPos, hcur, Bool.not_true, Bool.false_eq_true, if_false]
      exact ⟨by simpa using w1, by simpa using w2⟩
  have hpw : (l₁ ++ e :: l₂).Pairwise lt := by
    rw [hl, List.pairwise_append] at hsorted
    obtain ⟨s1, s2, s3⟩ := hsorted
    rw [List.pairwise_append]
    refine ⟨s1, List.pairwise_cons.2 ⟨hb2, s2⟩, ?_⟩
    intro a ha c hc
    rcases List.mem_cons.1 hc with rfl | hc
    · exact hb1 a ha
    · exact s3 a ha c hc
  refine ⟨l₁, l₂, hl, key.1, hb1, hb2, by rw [key.1]; exact hpw, ?_, by rw [key.2, hcount], hcount.symm⟩
  rw [key.1, hl]
  exact List.perm_middle

/-- the common case without joined edges -/
theorem insertLeft_sorted_nojoin (lt : E → E → Prop) (l : List E) (e : E)
    (htrans : ∀ a b c, lt a b → lt b c → lt a c)
    (hsorted : l.Pairwise lt)
    (hagree : ∀ r ∈ l, valid r e = true ↔ lt r e)
    (htotal : ∀ r ∈ l, ¬ lt r e → lt e r)
    (hnojoin : ∀ r ∈ l, joinRight r = false) :
    (insertLeft valid joinRight l e).Pairwise lt ∧ (insertLeft valid joinRight l e).Perm (e :: l) ∧
      insertLeftPos valid joinRight l e = some (l.countP (fun r => valid r e)) := by
  obtain ⟨_, _, _, _, _, _, h1, h2, h3, _⟩ := insertLeft_sorted valid joinRight lt l e htrans hsorted hagree htotal
    (fun l₁ a b l₂ hl hj _ => by rw [hnojoin a (by simp [hl])] at hj; cases hj)
    (fun x hx => hnojoin x (List.mem_of_getLast? hx))
  exact ⟨h1, h2, h3⟩

/-- **insertRight_shape** (no hypothesis on the predicate).  `InsertRightEdge` + the settling loop link the right bound
somewhere behind the left bound (index `i`), all other edges keeping their order. -/
theorem insertRight_shape (l : List E) (i : Nat) (rb : E) :
    ∃ l₁ l₂, l = l₁ ++ l₂ ∧ insertRight valid l i rb = l₁ ++ rb :: l₂ ∧
      l₁.length = min (insertRightPos valid l i rb) l.length ∧
      insertRightPos valid l i rb ≥ i + 1 := by
  obtain ⟨h1, h2⟩ := bubble_shape valid rb (l.drop (i + 1))
  refine ⟨l.take (i + 1) ++ (l.drop (i + 1)).take (bubbleCount valid rb (l.drop (i + 1))),
    (l.drop (i + 1)).drop (bubbleCount valid rb (l.drop (i + 1))), ?_, ?_, ?_, ?_⟩
  · rw [List.append_assoc, List.take_append_drop, List.take_append_drop]
  · simp only [insertRight]; rw [h1, List.append_assoc]
  · simp only [insertRightPos, List.length_append, List.length_take, List.length_drop] at *
    omega
  · simp [insertRightPos]

/-- `insertRight` is `InsertRightEdge` followed by the settling loop run on the list -/
theorem insertRight_eq_settle (l : List E) (i : Nat) (rb : E) (hi : i < l.length) :
    insertRight valid l i rb = settleRight valid (insertRightEdge l i rb) (i + 1) := by
  have hlen : (l.take (i + 1)).length = i + 1 := by simp [List.length_take]; omega
  have hd : (insertRightEdge l i rb).drop (i + 1) = rb :: l.drop (i + 1) := by
    simp only [insertRightEdge]
    rw [List.drop_append_of_le_length (by omega)]
    simp [List.drop_eq_nil_of_le (Nat.le_of_eq hlen)]
  have ht : (insertRightEdge l i rb).take (i + 1) = l.take (i + 1) := by
    simp only [insertRightEdge]
    rw [List.take_append_of_le_length (by omega)]
    exact List.take_of_length_le (Nat.le_of_eq hlen)
  simp only [settleRight, hd, ht, insertRight]

/-- **insertRight_sorted.**  The AEL `l` (the left bound already at index `i`) is sorted by a transitive `lt`, the right
bound `rb` is above the left bound (`lt l[i] rb`), comparable with the residents behind the left bound, and
`IsValidAelOrder(r, rb)` agrees with `lt r rb` for those residents.  Then after `InsertRightEdge` and the settling loop the
list is sorted, a permutation of `rb :: l`, and the right bound sits at the index = number of edges below it. -/
theorem insertRight_sorted (lt : E → E → Prop) (l : List E) (i : Nat) (rb : E)
    (htrans : ∀ a b c, lt a b → lt b c → lt a c)
    (hsorted : l.Pairwise lt)
    (hi : i < l.length)
    (hleft : lt l[i] rb)
    (hagree : ∀ r ∈ l.drop (i + 1), valid r rb = true ↔ lt r rb)
    (htotal : ∀ r ∈ l.drop (i + 1), ¬ lt r rb → lt rb r) :
    ∃ l₁ l₂, l = l₁ ++ l₂ ∧ insertRight valid l i rb = l₁ ++ rb :: l₂ ∧
      (∀ r ∈ l₁, lt r rb) ∧ (∀ r ∈ l₂, lt rb r) ∧
      (insertRight valid l i rb).Pairwise lt ∧ (insertRight valid l i rb).Perm (rb :: l) ∧
      insertRightPos valid l i rb = l₁.length := by
  have hsplit : l = l.take (i + 1) ++ l.drop (i + 1) := (List.take_append_drop _ _).symm
  have hsd : (l.drop (i + 1)).Pairwise lt := by
    rw [hsplit, List.pairwise_append] at hsorted; exact hsorted.2.1
  obtain ⟨m₁, m₂, hm, hv1, hv2⟩ := sorted_prefix valid lt rb htrans (l.drop (i + 1)) hsd hagree
  have hhead : ∀ b, m₂.head? = some b → valid b rb = false := by
    intro b hb; cases m₂ with
    | nil => simp at hb
    | cons c t => simp at hb; subst hb; exact hv2 _ (by simp)
  obtain ⟨hbub, hcnt⟩ := bubble_split valid rb m₁ m₂ hv1 hhead
  -- every edge up to the left bound is below rb
  have htake : ∀ r ∈ l.take (i + 1), lt r rb := by
    intro r hr
    obtain ⟨j, hj, rfl⟩ := List.mem_iff_getElem.1 hr
    simp only [List.length_take] at hj
    rw [List.getElem_take]
    by_cases hji : j = i
    · subst hji; exact hleft
    · have : lt l[j] l[i] := List.pairwise_iff_getElem.1 hsorted j i (by omega) hi (by omega)
      exact htrans _ _ _ this hleft
  have hb1 : ∀ r ∈ l.take (i + 1) ++ m₁, lt r rb := by
    intro r hr
    rcases List.mem_append.1 hr with hr | hr
    · exact htake r hr
    · exact (hagree r (by rw [hm]; simp [hr])).1 (hv1 r hr)
  have hb2 : ∀ r ∈ m₂, lt rb r := fun r hr =>
    htotal r (by rw [hm]; simp [hr]) (fun h => by
      have := (hagree r (by rw [hm]; simp [hr])).2 h
      rw [hv2 r hr] at this; cases this)
  have hl : l = (l.take (i + 1) ++ m₁) ++ m₂ := by
    rw [List.append_assoc, ← hm]; exact hsplit
  have hval : insertRight valid l i rb = (l.take (i + 1) ++ m₁) ++ rb :: m₂ := by
    simp only [insertRight]; rw [hm, hbub, List.append_assoc]
  have hpw : ((l.take (i + 1) ++ m₁) ++ rb :: m₂).Pairwise lt := by
    have hs := hsorted
    rw [hl, List.pairwise_append] at hs
    obtain ⟨s1, s2, s3⟩ := hs
    rw [List.pairwise_append]
    refine ⟨s1, List.pairwise_cons.2 ⟨hb2, s2⟩, ?_⟩
    intro a ha c hc
    rcases List.mem_cons.1 hc with rfl | hc
    · exact hb1 a ha
    · exact s3 a ha c hc
  refine ⟨l.take (i + 1) ++ m₁, m₂, hl, hval, hb1, hb2, by rw [hval]; exact hpw, ?_, ?_⟩
  · rw [hval]
    have : (rb :: l).Perm (rb :: ((l.take (i + 1) ++ m₁) ++ m₂)) := by rw [← hl]
    exact List.perm_middle.trans this.symm
  · simp only [insertRightPos]
    rw [hm, hcnt, List.length_append, List.length_take]
    omega

end Lists

/-! ## non-vacuity of the list theorems: edges ordered by `curr_x` -/

private def mk (x : Int) (j : Bool := false) : OEdge :=
  { currX := x, bot := ⟨x, 10⟩, top := ⟨x, 0⟩, isLeftBound := true, isMaxima := false, nextVertexPt := ⟨x, -5⟩,
    prevPrevVertexPt := ⟨x + 1, 0⟩, localMinY := 10, joinRight := j }

/-- the hypotheses of `insertLeft_sorted` hold for the order "smaller curr_x" on an AEL with distinct curr_x, and the model
puts the newcomer at index 2 -/
example :
    let l := [mk 1, mk 4, mk 9, mk 12]
    let e := mk 7
    l.Pairwise (fun a b => a.currX < b.currX) ∧
    (∀ r ∈ l, isValidAelOrder r e = true ↔ r.currX < e.currX) ∧
    (∀ r ∈ l, ¬ r.currX < e.currX → e.currX < r.currX) ∧
    (∀ r ∈ l, r.joinRight = false) ∧
    insertLeft isValidAelOrder OEdge.joinRight l e = [mk 1, mk 4, mk 7, mk 9, mk 12] ∧
    insertLeftPos isValidAelOrder OEdge.joinRight l e = some 2 := by decide

/-- a joined pair (4 marked `Right`, 5 its partner) is not split: the newcomer 5' with the same x as the partner and pointing
left of it would go between them by the predicate alone, and lands behind the pair -/
example :
    let l := [mk 1, mk 4 true, { mk 4 with top := ⟨5, 0⟩ }, mk 12]
    let e := { mk 4 with top := ⟨4, 1⟩ }
    isValidAelOrder (mk 4 true) e = true ∧ isValidAelOrder { mk 4 with top := ⟨5, 0⟩ } e = false ∧
    insertLeftPos isValidAelOrder OEdge.joinRight l e = some 3 := by decide

/-- the order "smaller curr_x, then smaller top.x" -/
private def lt2 (a b : OEdge) : Prop := a.currX < b.currX ∨ (a.currX = b.currX ∧ a.top.x < b.top.x)
private instance (a b : OEdge) : Decidable (lt2 a b) := by unfold lt2; infer_instance

/-- the hypotheses of `insertLeft_sorted` (the version with joined edges) hold on an AEL that contains a joined pair -/
example :
    let l := [mk 1, mk 4 true, { mk 4 with top := ⟨5, 0⟩ }, mk 12]
    let e := mk 7
    l.Pairwise lt2 ∧ (∀ r ∈ l, isValidAelOrder r e = true ↔ lt2 r e) ∧ (∀ r ∈ l, ¬ lt2 r e → lt2 e r) ∧
    (∀ l₁ a b l₂, l = l₁ ++ a :: b :: l₂ → a.joinRight = true → lt2 a e → lt2 b e) ∧
    (∀ x, l.getLast? = some x → x.joinRight = false) := by
  refine ⟨by decide, by decide, by decide, ?_, by decide⟩
  intro l₁ a b l₂ h hj _
  rcases l₁ with _ | ⟨x, _ | ⟨y, _ | ⟨z, _ | ⟨w, l₁⟩⟩⟩⟩ <;> simp at h
  · obtain ⟨rfl, rfl, _⟩ := h; revert hj; decide
  · obtain ⟨_, rfl, rfl, _⟩ := h; decide
  · obtain ⟨_, _, rfl, rfl, _⟩ := h; revert hj; decide

/-- the `if (!e2) return` path exists in the model: last edge marked `Right` (not a reachable engine state) -/
example : insertLeft isValidAelOrder OEdge.joinRight [mk 1, mk 4 true] (mk 7) = [mk 1, mk 4 true] ∧
    insertLeftPos isValidAelOrder OEdge.joinRight [mk 1, mk 4 true] (mk 7) = none := by decide

/-- right bound: left bound at index 1; the right bound (x = 9) moves past the resident with x = 6 -/
example :
    let l := [mk 1, mk 4, mk 6, mk 12]
    insertRight isValidAelOrder l 1 (mk 9) = [mk 1, mk 4, mk 6, mk 9, mk 12] ∧
    insertRightPos isValidAelOrder l 1 (mk 9) = 3 ∧
    l.Pairwise (fun a b => a.currX < b.currX) ∧ (mk 4).currX < (mk 9).currX ∧
    (∀ r ∈ l.drop 2, isValidAelOrder r (mk 9) = true ↔ r.currX < (mk 9).currX) ∧
    (∀ r ∈ l.drop 2, ¬ r.currX < (mk 9).currX → (mk 9).currX < r.currX) := by decide

end Clipper.Props.C01Order
