/-
C01 — THE OUTPUT RINGS RUN ALONG THE INPUT EDGES  (the last geometric step of C01 at model level; glue `Model/SweepPoints.lean`).

What existed (all proved, all tied to the compiled engine):
 * `Props/C01Region`  — from the input paths alone the bookkeeping events are derived, never rejected, and on every scanline strictly inside a
   scanbeam the hot edges delimit exactly the region `inR ct fr (wind subj p) (wind clip p)` (`scanline_region`);
 * `Props/C01Rings`   — ring assembly as list operations: conservation, ring ends = last emissions, every pair of ring neighbours is a logged
   segment (`extend` / `meet` / join kinds) — for ANY points handed in with the events;
 * `Props/C11Sides`   — a front edge has the region on its right.
Missing was WHERE the emitted points lie.  In the exact scanbeam model every emission has a definite point: a local minimum's vertex, an edge's
top vertex, or the exact crossing point of two edges (a rational point).  This file:

 1. `sweepEventsP_accepted`  the derived events decorated with the exact points (`Model/SweepPoints.sweepEventsP`, coordinates scaled by a common
                             denominator `D` of all crossing points) are accepted by the ring model `runR`; they contain no join, split or open-path
                             event; forgetting the points, the insertion and the top-of-scanbeam events ARE those of `Model/SweepEvents`, and the
                             intersection events of every scanbeam are, like those of `Model/SweepEvents`, adjacent transpositions that turn the AEL
                             after the insertions into the AEL after `DoIntersections` — in BOTTOM-UP order of the exact crossing points (the order
                             of the real `ProcessIntersectList`) instead of insertion-sort order; the side state follows the scanbeam model's AEL at
                             all three stages of every scanbeam; `sweepEventsP_same_hot`: with the same hot flags as the run of `Props/C01Region`;
 2. `emission_on_edge`       every event's point lies on the closed input segment of every edge the event touches (`GEv`): the common bottom of the
                             two bounds of a local minimum, a point of BOTH segments at a crossing, the common top at a local maximum, top = bottom of the
                             successor at an intermediate vertex; `ring_ends_on_edges`: after every prefix of the sweep the end point of the ring end an
                             `Active` holds lies on the input edge that `Active` currently is; `sweepEventsP_bottom_up`: the event list is in bottom-up order
                             (the heights of its points never increase); `emissions_bottom_up`: every logged segment runs upwards (non-increasing
                             y from its older to its newer end point);
 3. `ring_segments_on_input_edges`  every pair of ring neighbours (cyclically for finished rings) lies on ONE input edge: `p, q ∈` the closed segment
                             of the same input edge (also for the `meet` segments: they are the stretch of the second edge up to the meeting point);
                             no join segment occurs.  This replaces `ring_segments_on_edges_partial` for the derived sweep.
 4. `output_edges_cross_scanline_partial`  PARTIAL: for the sweep's own state after the insertions of a scanbeam, at the heights where it is in
                             scanline order: hot ⇔ holds a ring end; that ring end's end point lies on the hot edge's input segment, not above the
                             bottom scanline; front ⇔ region on the right; the hot edges delimit `inR ct fr (wind subj p) (wind clip p)`.  The full
                             statement (bijection between the sides of the finished rings crossing a scanline and its hot edges) is EVALUATED only;
 5. `output_region` (`wind (output rings) p ≠ 0 ⟺ inR …`, winding number 0 / +1 in `BuildPath64` order) is NOT proved: it is evaluated by `decide`
                             on the two triangles (40 points of a scanline, Union and Intersection) and by `SWEEPRINGS` at probe points of every scanbeam
                             of every in-scope real input; missing: the bijection of (4) and the summation of `Spec.crossing` over ring sides.
 Also: `crossing_dens_pos` (the scale `sweepDen` is admissible), `output_rings_on_input_edges(_lcm)` (1–3 for inputs given as paths).

Orientation as in `Props/C01Sweep`: y grows downwards, the sweep climbs from large y to small y; "bottom-up" = non-increasing y.
Coordinates: `D > 0` a common multiple of the denominators of all crossing points of the sweep (`DenOK`; `sweepDen` is the least one); a vertex `v`
is `D·v = Pt.scale D v`, a crossing `(xn/d, yn/d)` is `(xn·(D/d), yn·(D/d))`; `OnE D e p` = `p` is on the closed segment `[D·e.bot, D·e.top]`
(`onE_iff_onSeg`: the specification's `onSeg`).

OUTSIDE (stated again in the report): the ROUNDING of crossing points (the engine stores them rounded to integers: its rings differ from these
exact rings by less than one unit per vertex — harness `C01output`, command `SWEEPRINGS`; C01's tolerance is 2 units), `CleanCollinear` /
`BuildPath` (C03), horizontal edges, joins, open paths; `Built.Hyp` / `Built.HypR` are decided per input (`DenOK` is a theorem for `sweepDen`).
-/
import ClipperVerif.Lemmas.C01OutputFinal
namespace Clipper.Props.C01Output
open Clipper Clipper.Model Clipper.Model.AelOrder Clipper.Model.SweepOrder Clipper.Model.SweepEvents Clipper.Model.SweepPoints
open Clipper.Lemmas.SweepOrder Clipper.Lemmas.C01Region Clipper.Lemmas.C01Output Clipper.Props.C01Sweep Clipper.Props.C01Region
open Clipper.Props.C01RegionRings (baseOps baseOf)

/-! ## the common denominator -/

/-- **the least common multiple of the crossing denominators is an admissible scale** (none of them is zero: under the hypotheses of the sweep
theorems they are positive, `crossing_dens_pos`) -/
theorem denOK_lcmList (ds : List Int) (h : ∀ d ∈ ds, d ≠ 0) : DenOK (lcmList ds) ds := by
  refine ⟨?_, ?_⟩
  · unfold lcmList
    exact Int.natCast_pos.2 (foldl_lcm_pos ds 1 (by omega) h)
  · intro d hd
    unfold lcmList
    have := (foldl_lcm_dvd ds 1).2 d hd
    rw [← Int.natAbs_dvd_natAbs, Int.natAbs_natCast]
    exact this

/-! ## (1) the decorated event list is accepted -/

/-- **sweepEventsP_accepted.**  ASSUMED: the hypotheses of `Props/C01Region.sweepEvents_accepted` (`AllUp`, `NextOK`, `Near cx`, `SweepOK`,
`HypR`; all but `Near` decidable), `ct ≠ NoClip`, and `D` a positive common multiple of the denominators of the crossing points of the sweep
(`DenOK`, decidable; `sweepDen` is one).
PROVED, for the ring model `Model/AelRings.lean` started in the empty state:
 * the decorated event list `sweepEventsP` is accepted (`runR … = .ok rs`): no event is rejected, none faults (`AddLocalMaxPoly` never meets two
   front or two back edges, no null dereference), every `update` names a position inside the AEL;
 * it consists of `insertPair` events of closed paths, `intersect`, `removePair` and `update` events only (`PlainOp`): no `join`, no `split`, no
   open-path event — joins do not occur in the derived run;
 * for every scanbeam `r` of the decorated run — it is `beamRunP … aelr y0 y1` for the AEL `aelr` the scanbeam model enters it with, and
   `q = beamRun … aelr y0 y1` is the same scanbeam of the run of `Props/C01Region` (same snapshots) —: forgetting points and `update`s, the insertion
   events of `r` ARE the insertion events of `q` and its top-of-scanbeam events ARE those of `q`; its intersection events are `intersect i` for a list
   `is` of adjacent transpositions with `applySwaps is inserted = some afterIsect` (exactly what `sortSwaps_spec` says of `q.evIsect`); the three
   groups are accepted one after the other from the state reached by the scanbeams before, and after each group the side state, its records
   forgotten, lists the same edges in the same order as the scanbeam model's AEL (`Tracks`); `BeamFacts`: that AEL consists of exactly the input
   edges crossing the scanbeam. -/
theorem sweepEventsP_accepted (cfg : Cfg) (hct : cfg.ct ≠ .noClip) (D : Int) (edges : List GEdge) (valid : Int → GEdge → GEdge → Bool)
    (cx : GEdge → Int → Int) (next : GEdge → Option GEdge) (mins : Int → List (GEdge × GEdge)) (lab : Lab) (ys : List Int)
    (hup : AllUp edges) (hnx : NextOK edges next mins) (hn : Near cx) (hok : SweepOK edges valid next mins ys)
    (hR : HypR edges next mins lab ys) (hD : DenOK D (sweepDens valid cx next mins ys)) :
    (∃ rs, runR cfg RState.empty (sweepEventsP D valid cx next mins lab ys) = .ok rs) ∧
    (∀ op ∈ sweepEventsP D valid cx next mins lab ys, PlainOp op) ∧
    ∀ (pre : List BeamRunP) (r : BeamRunP) (post : List BeamRunP), beamRunsP D valid cx next mins lab [] ys = pre ++ r :: post →
      ∃ (r1 : RState) (aelr : List GEdge) (y0 y1 : Int) (rI rX rT : RState),
        runR cfg RState.empty (pre.flatMap BeamRunP.events) = .ok r1 ∧
        r = beamRunP D valid cx next mins lab aelr y0 y1 ∧
        baseOps r.evIns = (beamRun valid cx next mins lab aelr y0 y1).evIns ∧
        baseOps r.evTop = (beamRun valid cx next mins lab aelr y0 y1).evTop ∧
        (∃ is, baseOps r.evIsect = is.map .intersect ∧ applySwaps is r.snap.inserted = some r.snap.afterIsect) ∧
        runR cfg r1 r.evIns = .ok rI ∧ Tracks lab (erase rI.s.ael) r.snap.inserted ∧
        runR cfg rI r.evIsect = .ok rX ∧ Tracks lab (erase rX.s.ael) r.snap.afterIsect ∧
        runR cfg rX r.evTop = .ok rT ∧ Tracks lab (erase rT.s.ael) r.snap.afterTop ∧
        BeamFacts edges r.snap := by
  have h := sweepP_empty cfg hct D edges valid cx next mins lab ys hup hnx hn hok hR hD
  obtain ⟨rEnd, _, e1, _⟩ := h.all
  refine ⟨⟨rEnd, e1⟩, h.plainOps, ?_⟩
  intro pre r post hsplit
  obtain ⟨r1, aelr, y0, y1, rI, rX, rT, f1, _, f3, f4, f5, _, _⟩ := h.beams pre r post hsplit
  exact ⟨r1, aelr, y0, y1, rI, rX, rT, f1, f3, f4.eraseIns, f4.eraseTop, f4.swaps, f4.runIns, f4.trIns, f4.runIsect, f4.trIsect,
    f4.runTop, f4.trTop, f5⟩

/-- **sweepEventsP_same_hot.**  The order of the transpositions does not matter for the hot flags: ANY state `rs` of the ring model reached from
the empty state whose side state lists, records forgotten, the same edges in the same order as a state `l` of the bookkeeping model reached from
the empty AEL (e.g. the states of `Props/C01Region.sweepEvents_accepted` / `scanline_region` at the same stage of the same scanbeam) has the
same hot flags as `l`; and there a closed edge is hot iff it owns a ring end. -/
theorem sweepEventsP_same_hot (cfg : Cfg) (hct : cfg.ct ≠ .noClip) (lab : Lab) (es : List GEdge) (rops : List ROp) (rs : RState)
    (hr : runR cfg RState.empty rops = .ok rs) (htr : Tracks lab (erase rs.s.ael) es)
    (evs : List Op) (l : Ael) (hl : Model.run cfg [] evs = some l) (htl : Tracks lab l es) :
    (erase rs.s.ael).map (·.hot) = l.map (·.hot) ∧
    ∀ x ∈ rs.s.ael, x.e.isOpen = false ∧ x.e.hot = (x.orec.isSome || x.join != .none) := by
  have hE := erased_run cfg hct rops rs hr
  have i1 := Clipper.Props.C01.inv_reachable cfg hct _ _ hE
  have i2 := Clipper.Props.C01.inv_reachable cfg hct _ _ hl
  refine ⟨hot_determined_by_order cfg _ _ i1 i2 (by rw [htr, htl]) (tracks_closed htr), ?_⟩
  intro x hx
  have hc : x.e.isOpen = false := tracks_closed htr x.e (List.mem_map_of_mem hx)
  refine ⟨hc, ?_⟩
  have hall := (Clipper.Props.C01Rings.sinv_rings cfg hct rops rs hr).side.1
  have := List.all_eq_true.1 hall x hx
  simp only [localOK, hc, Bool.false_eq_true, if_false, Bool.and_eq_true, beq_iff_eq] at this
  exact this.1

/-! ## (2) where the emitted points lie -/

/-- **emission_on_edge.**  Same hypotheses.  The decorated event list is GEOMETRIC (`GRun`, `GEv`): following the AEL of the scanbeam model
through the events (`insertPair` puts the two bounds in, `intersect` exchanges two neighbours, `removePair` takes a local maximum out, `update`
replaces an edge by the next edge of its bound), EVERY event's point lies on the closed input segment of EVERY edge it touches:
 * `insertPair i … pt`: `pt = D·l.bot = D·r.bot`, the common bottom vertex of the two bounds `l`, `r` that go in at positions `i`, `i+1`;
 * `intersect i pt`:    `pt` lies on the closed segment of the edge at `i` AND on the closed segment of the edge at `i+1` (`OnE`);
 * `removePair i pt`:   `pt = D·a.top = D·b.top`, the common top vertex of the edges at `i`, `i+1`;
 * `update i pt`:       `pt = D·a.top = D·a'.bot` for the edge `a` at `i` and its successor `a'` in the bound (an input edge), which takes its place.
The geometric AEL the events are read against IS the scanbeam model's: for every scanbeam `r` the insertion events lead from the AEL the scanbeam is
entered with to `r.snap.inserted`, the intersection events from there to `r.snap.afterIsect`, the top-of-scanbeam events to `r.snap.afterTop`
(the snapshots of `Props/C01Sweep`, tied to the engine by `SWEEPORDER`).  The points of the insertion events of a scanbeam `[y1, y0]` have height
`D·y0`, those of its intersection events heights in `(D·y1, D·y0]`, those of its top-of-scanbeam events height `D·y1`. -/
theorem emission_on_edge (cfg : Cfg) (hct : cfg.ct ≠ .noClip) (D : Int) (edges : List GEdge) (valid : Int → GEdge → GEdge → Bool)
    (cx : GEdge → Int → Int) (next : GEdge → Option GEdge) (mins : Int → List (GEdge × GEdge)) (lab : Lab) (ys : List Int)
    (hup : AllUp edges) (hnx : NextOK edges next mins) (hn : Near cx) (hok : SweepOK edges valid next mins ys)
    (hR : HypR edges next mins lab ys) (hD : DenOK D (sweepDens valid cx next mins ys)) :
    (∃ aelEnd, GRun D (· ∈ edges) [] (sweepEventsP D valid cx next mins lab ys) aelEnd) ∧
    ∀ (pre : List BeamRunP) (r : BeamRunP) (post : List BeamRunP), beamRunsP D valid cx next mins lab [] ys = pre ++ r :: post →
      ∃ aelr, GRun D (· ∈ edges) [] (pre.flatMap BeamRunP.events) aelr ∧
        GRun D (· ∈ edges) aelr r.evIns r.snap.inserted ∧ GRun D (· ∈ edges) r.snap.inserted r.evIsect r.snap.afterIsect ∧
        GRun D (· ∈ edges) r.snap.afterIsect r.evTop r.snap.afterTop ∧
        (∀ op ∈ r.evIns, op.pt.y = D * r.snap.y0) ∧
        (∀ op ∈ r.evIsect, D * r.snap.y1 < op.pt.y ∧ op.pt.y ≤ D * r.snap.y0) ∧
        (∀ op ∈ r.evTop, op.pt.y = D * r.snap.y1) := by
  have h := sweepP_empty cfg hct D edges valid cx next mins lab ys hup hnx hn hok hR hD
  obtain ⟨_, aelEnd, _, e2, _⟩ := h.all
  refine ⟨⟨aelEnd, e2⟩, ?_⟩
  intro pre r post hsplit
  obtain ⟨_, aelr, _, _, _, _, _, _, f2, _, f4, _, _, _⟩ := h.beams pre r post hsplit
  exact ⟨aelr, f2, f4.gIns, f4.gIsect, f4.gTop, f4.hIns, f4.heights, f4.hTop⟩

/-- **ring_ends_on_edges.**  Same hypotheses.  After EVERY prefix `a` of the decorated event list (`sweepEventsP = a ++ b`), in the state `ra`
of the ring model: the side state's AEL is in step with the AEL `es` of the scanbeam model at that moment (`GeoAll`: same length, position by
position), every geometric edge is an input edge, and for every `Active` that owns a ring end `(outrec, IsFront)` the END POINT of that ring end
— by `ring_ends_at_edges` the last point emitted on that `Active` — lies on the closed segment of the input edge that `Active` currently is.
Also: no edge is joined or open (`Plain`), and every segment logged so far lies on one input edge (`SegGeo`). -/
theorem ring_ends_on_edges (cfg : Cfg) (hct : cfg.ct ≠ .noClip) (D : Int) (edges : List GEdge) (valid : Int → GEdge → GEdge → Bool)
    (cx : GEdge → Int → Int) (next : GEdge → Option GEdge) (mins : Int → List (GEdge × GEdge)) (lab : Lab) (ys : List Int)
    (hup : AllUp edges) (hnx : NextOK edges next mins) (hn : Near cx) (hok : SweepOK edges valid next mins ys)
    (hR : HypR edges next mins lab ys) (hD : DenOK D (sweepDens valid cx next mins ys))
    (a b : List ROp) (hab : sweepEventsP D valid cx next mins lab ys = a ++ b) :
    ∃ (ra : RState) (es : List GEdge), runR cfg RState.empty a = .ok ra ∧ GRun D (· ∈ edges) [] a es ∧ Plain ra.s.ael ∧
      GeoAll (Holds D (· ∈ edges) ra.o) ra.s.ael es ∧ SegGeo D (· ∈ edges) ra.o := by
  have h := sweepP_empty cfg hct D edges valid cx next mins lab ys hup hnx hn hok hR hD
  obtain ⟨rEnd, aelEnd, e1, e2, _⟩ := h.all
  have e1' : runR cfg RState.empty (a ++ b) = .ok rEnd := by rw [← hab]; exact e1
  have e2' : GRun D (· ∈ edges) [] (a ++ b) aelEnd := by rw [← hab]; exact e2
  obtain ⟨es, g1, _⟩ := gRun_split D _ a b [] aelEnd e2'
  rw [runR_append] at e1'
  cases hra : runR cfg RState.empty a with
  | error e => simp [hra] at e1'
  | ok ra =>
    obtain ⟨_, p2, p3, p4⟩ := geo_run cfg hct D hD.1 (· ∈ edges) a [] es RState.empty ra g1 hra ⟨[], rfl⟩
      (fun x hx => by simp [RState.empty, SState.empty] at hx) (by simp [RState.empty, SState.empty, GeoAll])
      (fun sg hsg => by simp [RState.empty, Out.empty] at hsg)
    exact ⟨ra, es, rfl, g1, p2, p3, p4⟩

/-- **sweepEventsP_bottom_up.**  Same hypotheses.  The decorated event list is in BOTTOM-UP order: the heights of the events' points never
increase (`ySorted`; y grows downwards, the sweep climbs).  Within a scanbeam this is the statement that `Model/SweepPoints.geo` — which
exchanges, among the NEIGHBOURS that are in the wrong order for the top of the scanbeam, the pair whose exact crossing point is lowest — processes
the crossings of the scanbeam bottom-up, as the real `ProcessIntersectList` does with its sorted node list: the current list is always in
left-to-right order on the scanline of the last crossing, so every remaining crossing lies at or above it, and (the order on one scanline being
transitive) the lowest remaining crossing is between neighbours (`Lemmas/C01OutputMono.geo_heights`). -/
theorem sweepEventsP_bottom_up (cfg : Cfg) (hct : cfg.ct ≠ .noClip) (D : Int) (edges : List GEdge) (valid : Int → GEdge → GEdge → Bool)
    (cx : GEdge → Int → Int) (next : GEdge → Option GEdge) (mins : Int → List (GEdge × GEdge)) (lab : Lab) (ys : List Int)
    (hup : AllUp edges) (hnx : NextOK edges next mins) (hn : Near cx) (hok : SweepOK edges valid next mins ys)
    (hR : HypR edges next mins lab ys) (hD : DenOK D (sweepDens valid cx next mins ys)) :
    ySorted (sweepEventsP D valid cx next mins lab ys) = true := by
  have h := sweepP_empty cfg hct D edges valid cx next mins lab ys hup hnx hn hok hR hD
  cases ys with
  | nil => rfl
  | cons y t => exact ySorted_of_yChain _ _ (h.chain y rfl)

/-- **emissions_bottom_up.**  Same hypotheses; `rs` the state after the whole decorated event list.  Every segment the sweep logs — hence, by
`ring_segments_on_input_edges`, every side of every ring — runs from its older end point `p` UP to its newer end point `q` (`q.y ≤ p.y`):
consecutive emissions on one ring end, which lie on one bound (a chain of input edges joined at their vertices: `emission_on_edge`, `update`), are in
non-increasing y. -/
theorem emissions_bottom_up (cfg : Cfg) (hct : cfg.ct ≠ .noClip) (D : Int) (edges : List GEdge) (valid : Int → GEdge → GEdge → Bool)
    (cx : GEdge → Int → Int) (next : GEdge → Option GEdge) (mins : Int → List (GEdge × GEdge)) (lab : Lab) (ys : List Int)
    (hup : AllUp edges) (hnx : NextOK edges next mins) (hn : Near cx) (hok : SweepOK edges valid next mins ys)
    (hR : HypR edges next mins lab ys) (hD : DenOK D (sweepDens valid cx next mins ys))
    (rs : RState) (hr : runR cfg RState.empty (sweepEventsP D valid cx next mins lab ys) = .ok rs) :
    ∀ sg ∈ rs.o.segs, sg.q.y ≤ sg.p.y := by
  have h := sweepP_empty cfg hct D edges valid cx next mins lab ys hup hnx hn hok hR hD
  cases ys with
  | nil => simp only [sweepEventsP, beamRunsP, List.flatMap_nil, runR] at hr; cases hr; intro sg hsg; simp [RState.empty, Out.empty] at hsg
  | cons y t =>
    exact mono_run cfg hct _ RState.empty rs (D * y) h.plainOps (h.chain y rfl) hr ⟨[], rfl⟩
      (fun x hx => by simp [RState.empty, SState.empty] at hx)
      (fun g hg => by simp [RState.empty, Out.empty] at hg) (fun sg hsg => by simp [RState.empty, Out.empty] at hsg)

/-! ## (3) the sides of the rings lie on input edges -/

/-- **ring_segments_on_input_edges.**  Same hypotheses; `rs` the state of the ring model after the whole decorated event list (all rings finished
by the end of the sweep are in it, as `OutPt` rings before `CleanCollinear`).  EVERY pair of ring neighbours `(p, q)` of EVERY ring — cyclically
consecutive points of a finished ring, consecutive points of a ring still under construction — lies on ONE input edge: there is an input edge
`e` with `p` and `q` both on its closed segment `[D·e.bot, D·e.top]` (`OnE`; `onE_iff_onSeg`: `Spec.onSeg`).  This covers the `meet` pairs too
(the point of a local maximum / of a crossing handled as one, and the last point emitted on the SECOND edge: the stretch of that edge up to the
meeting point); duplicates `p = q` are the special case of a degenerate stretch.  And no join occurs: every logged segment is an `extend` or a
`meet` segment. -/
theorem ring_segments_on_input_edges (cfg : Cfg) (hct : cfg.ct ≠ .noClip) (D : Int) (edges : List GEdge)
    (valid : Int → GEdge → GEdge → Bool) (cx : GEdge → Int → Int) (next : GEdge → Option GEdge) (mins : Int → List (GEdge × GEdge))
    (lab : Lab) (ys : List Int)
    (hup : AllUp edges) (hnx : NextOK edges next mins) (hn : Near cx) (hok : SweepOK edges valid next mins ys)
    (hR : HypR edges next mins lab ys) (hD : DenOK D (sweepDens valid cx next mins ys))
    (rs : RState) (hr : runR cfg RState.empty (sweepEventsP D valid cx next mins lab ys) = .ok rs) :
    (∀ g ∈ rs.o.rings, ∀ pq ∈ (match g.stat with | .done => cycPairs g.pts | _ => linPairs g.pts),
      ∃ e ∈ edges, OnE D e pq.1 ∧ OnE D e pq.2) ∧
    (∀ sg ∈ rs.o.segs, sg.kind = .extend ∨ sg.kind = .meet) := by
  obtain ⟨ra, es, h1, _, _, _, h5⟩ := ring_ends_on_edges cfg hct D edges valid cx next mins lab ys hup hnx hn hok hR hD
    (sweepEventsP D valid cx next mins lab ys) [] (by simp)
  rw [hr] at h1; cases h1
  refine ⟨?_, fun sg hsg => (h5 sg hsg).1⟩
  intro g hg pq hpq
  obtain ⟨sg, hsg, hm⟩ := Clipper.Props.C01Rings.ring_segments_on_edges_partial cfg hct _ rs hr g hg pq hpq
  obtain ⟨_, e, he, hp, hq⟩ := h5 sg hsg
  rcases hm with ⟨m1, m2⟩ | ⟨m1, m2⟩
  · exact ⟨e, he, by rw [← m1]; exact hp, by rw [← m2]; exact hq⟩
  · exact ⟨e, he, by rw [← m2]; exact hq, by rw [← m1]; exact hp⟩

/-! ## the crossing denominators are positive: `sweepDen` is an admissible scale -/

/-- **crossing_dens_pos.**  Under the hypotheses of `sweepEvents_accepted` every crossing point of the sweep has a POSITIVE denominator (the two
edges exchanged are not parallel: they cross strictly inside their scanbeam), hence `sweepDen`, the least common multiple of the denominators,
is an admissible scale: the hypothesis `DenOK` of the theorems above can always be met. -/
theorem crossing_dens_pos (cfg : Cfg) (edges : List GEdge) (valid : Int → GEdge → GEdge → Bool)
    (cx : GEdge → Int → Int) (next : GEdge → Option GEdge) (mins : Int → List (GEdge × GEdge)) (lab : Lab) (ys : List Int)
    (hup : AllUp edges) (hnx : NextOK edges next mins) (hn : Near cx) (hok : SweepOK edges valid next mins ys)
    (hR : HypR edges next mins lab ys) :
    (∀ d ∈ sweepDens valid cx next mins ys, 0 < d) ∧
    DenOK (sweepDen valid cx next mins ys) (sweepDens valid cx next mins ys) := by
  have hpos : ∀ d ∈ sweepDens valid cx next mins ys, 0 < d := by
    intro d hd
    simp only [sweepDens, List.mem_flatMap, List.mem_map] at hd
    obtain ⟨s, hs, c, hc, rfl⟩ := hd
    -- the snapshot belongs to a scanbeam of the derived run
    rw [← sweepEvents_snaps valid cx next mins lab ys] at hs
    obtain ⟨q, hq, rfl⟩ := List.mem_map.1 hs
    obtain ⟨pre, post, hsplit⟩ := List.append_of_mem hq
    obtain ⟨_, htr⟩ := sweepEvents_accepted cfg edges valid cx next mins lab ys hup hnx hn hok hR
    obtain ⟨_, _, _, _, _, _, hf⟩ := htr pre q post hsplit
    have hsched := geoSwaps_spec q.snap.y0 q.snap.y1 hf.hy _ _ hf.sorted hf.isect_sorted hf.isect_perm
    have halive : ∀ e ∈ q.snap.inserted, e.top.y ≤ q.snap.y1 ∧ q.snap.y0 ≤ e.bot.y := by
      intro e he
      obtain ⟨_, h2, h3⟩ := hf.mem e he
      unfold AliveAbove at h2; unfold AliveBelow at h3
      omega
    -- walk the schedule to the exchange `c`
    suffices H : ∀ (evs : List (Nat × GEdge × GEdge)) (cur T : List GEdge), SchedOK (Crosses q.snap.y0 q.snap.y1) cur evs T →
        (∀ e ∈ cur, e.top.y ≤ q.snap.y1 ∧ q.snap.y0 ≤ e.bot.y) → ∀ c ∈ evs, 0 < (crossQ c.2.1 c.2.2).d from
      H _ _ _ hsched halive c hc
    intro evs
    induction evs with
    | nil => intro cur T _ _ c hc; cases hc
    | cons c0 rest ih =>
      intro cur T h hal c hc
      obtain ⟨pre', post', h1, h2, h3, h4⟩ := h
      rcases List.mem_cons.1 hc with rfl | hc
      · exact (crosses_onQ hf.hy h3 (hal _ (by rw [h1]; simp)) (hal _ (by rw [h1]; simp))).1
      · refine ih _ T h4 ?_ c hc
        intro e he
        apply hal e
        rw [h1]
        simp only [List.mem_append, List.mem_cons] at he ⊢
        rcases he with h | h | h | h
        · exact Or.inl h
        · exact Or.inr (Or.inr (Or.inl h))
        · exact Or.inr (Or.inl h)
        · exact Or.inr (Or.inr (Or.inr h))
  exact ⟨hpos, denOK_lcmList _ (fun d hd => by have := hpos d hd; omega)⟩

/-! ## the same for inputs given as paths -/

/-- the decorated event list of `build (subj ++ clip)`, in coordinates scaled by `D` -/
def builtEventsP (D : Int) (subj clip : Paths) (cx : GEdge → Int → Int) (info : GEdge → OInfo) : List ROp :=
  sweepEventsP D (validGen cx info) cx (build (subj ++ clip)).next (build (subj ++ clip)).mins (labOf subj clip) (build (subj ++ clip)).ys

/-- the denominators of its crossing points -/
def builtDens (subj clip : Paths) (cx : GEdge → Int → Int) (info : GEdge → OInfo) : List Int :=
  sweepDens (validGen cx info) cx (build (subj ++ clip)).next (build (subj ++ clip)).mins (build (subj ++ clip)).ys

/-- **output_rings_on_input_edges — items 1–3 for inputs given as paths.**  `subj`, `clip`: closed paths; `Built.Hyp`, `Built.HypR` as in
`Props/C01Region.scanline_region` (no horizontal edge, general position at every scanline, the structural facts; decidable), `cx` within 1/2 of
the exact x, `ct ≠ NoClip`, `D` an admissible scale (`DenOK`, decidable).  Then the decorated event list is accepted by the ring model, and EVERY
SIDE OF EVERY FINISHED RING — the `OutPt` rings the exact sweep hands to `CleanCollinear` / `BuildPath` — LIES ON AN INPUT EDGE: both end points
are on the closed segment `[D·e.bot, D·e.top]` of one edge `e` of `subj ++ clip` (`Spec.onSeg`). -/
theorem output_rings_on_input_edges (subj clip : Paths) (cfg : Cfg) (hct : cfg.ct ≠ .noClip) (cx : GEdge → Int → Int) (hn : Near cx)
    (info : GEdge → OInfo) (h : (build (subj ++ clip)).Hyp (validGen cx info))
    (hR : Built.HypR (build (subj ++ clip)) (labOf subj clip)) (D : Int) (hD : DenOK D (builtDens subj clip cx info)) :
    ∃ rs, runR cfg RState.empty (builtEventsP D subj clip cx info) = .ok rs ∧
      ∀ ring ∈ finishedRings rs, ∀ pq ∈ cycPairs ring, ∃ e ∈ (build (subj ++ clip)).edges,
        onSeg pq.1 (Pt.scale D e.bot) (Pt.scale D e.top) = true ∧ onSeg pq.2 (Pt.scale D e.bot) (Pt.scale D e.top) = true := by
  obtain ⟨⟨rs, hr⟩, _, _⟩ := sweepEventsP_accepted cfg hct D _ (validGen cx info) cx _ _ (labOf subj clip) _ h.1 h.2.2.1 hn h.2.2.2 hR hD
  obtain ⟨h1, _⟩ := ring_segments_on_input_edges cfg hct D _ (validGen cx info) cx _ _ (labOf subj clip) _ h.1 h.2.2.1 hn h.2.2.2 hR hD rs hr
  refine ⟨rs, hr, ?_⟩
  intro ring hring pq hpq
  simp only [finishedRings, List.mem_map, List.mem_filter, beq_iff_eq] at hring
  obtain ⟨g, ⟨hg, hst⟩, rfl⟩ := hring
  have := h1 g hg pq (by rw [hst]; exact hpq)
  obtain ⟨e, he, p1, p2⟩ := this
  exact ⟨e, he, (onE_iff_onSeg D e pq.1 hD.1 (h.1 e he)).1 p1, (onE_iff_onSeg D e pq.2 hD.1 (h.1 e he)).1 p2⟩

/-- `output_rings_on_input_edges` for the least admissible scale `sweepDen` (no hypothesis on the scale: `crossing_dens_pos`) -/
theorem output_rings_on_input_edges_lcm (subj clip : Paths) (cfg : Cfg) (hct : cfg.ct ≠ .noClip) (cx : GEdge → Int → Int) (hn : Near cx)
    (info : GEdge → OInfo) (h : (build (subj ++ clip)).Hyp (validGen cx info))
    (hR : Built.HypR (build (subj ++ clip)) (labOf subj clip)) :
    let D := sweepDen (validGen cx info) cx (build (subj ++ clip)).next (build (subj ++ clip)).mins (build (subj ++ clip)).ys
    0 < D ∧ ∃ rs, runR cfg RState.empty (builtEventsP D subj clip cx info) = .ok rs ∧
      ∀ ring ∈ finishedRings rs, ∀ pq ∈ cycPairs ring, ∃ e ∈ (build (subj ++ clip)).edges,
        onSeg pq.1 (Pt.scale D e.bot) (Pt.scale D e.top) = true ∧ onSeg pq.2 (Pt.scale D e.bot) (Pt.scale D e.top) = true := by
  intro D
  have hD := (crossing_dens_pos cfg _ (validGen cx info) cx _ _ (labOf subj clip) _ h.1 h.2.2.1 hn h.2.2.2 hR).2
  exact ⟨hD.1, output_rings_on_input_edges subj clip cfg hct cx hn info h hR D hD⟩

/-! ## (4) the output on a scanline — PARTIAL

Wanted (items 4 and 5 of the plan): for a scanline strictly inside a scanbeam, through no vertex and no crossing, the sides of the FINISHED rings
crossing it are in bijection with the hot edges of that scanline's state of `scanline_region`, each lying on its hot edge's input segment and
directed by front / back — hence (`ray_winding` applied to the output rings) `wind (output rings) p ≠ 0 ⟺ inR ct fr (wind subj p) (wind clip p)`,
the winding number of the output being 0 or +1 (rings read as `BuildPath64` does for `ReverseSolution = false`).

Proved here (`output_edges_cross_scanline_partial`): the statement for the sweep's OWN state after the insertions of a scanbeam, at the heights
where that state is in scanline order (all heights of the scanbeam below its lowest crossing): the hot edges are exactly the edges holding ring
ends; each such ring end's END POINT lies on that hot edge's input segment, at or below the bottom scanline of the scanbeam (so the side of the
ring that leaves this end point upwards along the edge — `ring_segments_on_input_edges` — is the one that crosses the scanline); a front end
is held by an edge with the region on its right, a back end by one with the region on its left; and the hot edges delimit the region
`inR ct fr (wind subj p) (wind clip p)` on that scanline.
MISSING for the full statements: (i) that no OTHER side of a finished ring crosses the scanline — the bijection (that the next point put at such a
ring end does not lie below it is `emissions_bottom_up`); (ii) the same for heights between two crossings of a scanbeam (by
`sweepEventsP_bottom_up` the state of such a scanline IS a state of the decorated run — after the crossings below it — but that it is in scanline
order there is not written out); (iii) the summation of `Spec.crossing` over the sides of the finished rings (`output_region`).  Both full statements are EVALUATED:
by `decide` on the two triangles below, and by the driver command `SWEEPRINGS` at probe points of every scanbeam of every in-scope real input. -/

/-- **output_edges_cross_scanline_partial.**  Hypotheses of `output_rings_on_input_edges`.  `r`: a scanbeam of the decorated run
(`beamRunsP … = pre ++ r :: post`), `[y1, y0]` its scanlines.  There is a state `rI` of the ring model — reached from the empty state by the
decorated events of the scanbeams before `r` and the insertion events of `r` — such that
 (a) its AEL is, edge by edge, the scanbeam model's AEL after the insertions (`GeoAll`), every geometric edge an input edge; an edge is HOT iff it
     holds a ring end `(outrec, IsFront)`; the END POINT `p` of that ring end lies on the closed input segment of the edge (`OnE`) and is not
     above the bottom scanline (`D·y0 ≤ p.y`);
 (b) at every rational height `yn/yd` strictly inside the scanbeam at which that AEL is in left-to-right order, for every `xn` with the point
     `(xn/yd, yn/yd)` on no edge: the number of hot edges left of the point is odd IFF `inR ct fr (wind subj p) (wind clip p)`; and the edge at
     position `j`, if it holds the ring end `k` and the point lies in the gap immediately left of it, holds the FRONT end iff the point is
     OUTSIDE that region (front edge: region on its right; back edge: region on its left). -/
theorem output_edges_cross_scanline_partial (subj clip : Paths) (cfg : Cfg) (hct : cfg.ct ≠ .noClip) (cx : GEdge → Int → Int) (hn : Near cx)
    (info : GEdge → OInfo) (h : (build (subj ++ clip)).Hyp (validGen cx info))
    (hR : Built.HypR (build (subj ++ clip)) (labOf subj clip)) (D : Int) (hD : DenOK D (builtDens subj clip cx info))
    (pre : List BeamRunP) (r : BeamRunP) (post : List BeamRunP)
    (hruns : beamRunsP D (validGen cx info) cx (build (subj ++ clip)).next (build (subj ++ clip)).mins (labOf subj clip) []
      (build (subj ++ clip)).ys = pre ++ r :: post) :
    ∃ rI, runR cfg RState.empty (pre.flatMap BeamRunP.events ++ r.evIns) = .ok rI ∧
      GeoAll (fun x e => e ∈ (build (subj ++ clip)).edges ∧ x.e.hot = x.orec.isSome ∧
        ∀ k, x.orec = some k → ∃ p, endOf rI.o k = some p ∧ OnE D e p ∧ D * r.snap.y0 ≤ p.y) rI.s.ael r.snap.inserted ∧
      ∀ (yn yd : Int), 0 < yd → r.snap.y1 * yd < yn → yn < r.snap.y0 * yd →
        r.snap.inserted.Pairwise (fun a b => leAt yn yd a b = true) →
        ∀ xn : Int, (∀ e ∈ r.snap.inserted, ¬ onEdgeLine e xn yn yd) →
          insideHot (hotEdges (erase rI.s.ael) r.snap.inserted) xn yn yd = inR cfg.ct cfg.fr (windQ subj xn yn yd) (windQ clip xn yn yd) ∧
          ∀ (j : Nat) (x : Model.SEdge) (k : Rec), rI.s.ael[j]? = some x → x.orec = some k →
            r.snap.inserted.filter (fun e => decide (leftOfPt e xn yn yd)) = r.snap.inserted.take j →
            k.front = !inR cfg.ct cfg.fr (windQ subj xn yn yd) (windQ clip xn yn yd) := by
  have hS := sweepP_empty cfg hct D _ (validGen cx info) cx _ _ (labOf subj clip) _ h.1 h.2.2.1 hn h.2.2.2 hR hD
  obtain ⟨r1, aelr, y0, y1, rI, rX, rT, f1, f2, f3, f4, hf, _, hEI⟩ := hS.beams pre r post hruns
  have hrI : runR cfg RState.empty (pre.flatMap BeamRunP.events ++ r.evIns) = .ok rI := by
    rw [runR_append, f1]; exact f4.runIns
  have hgI := gRun_append D _ _ _ _ _ _ f2 f4.gIns
  obtain ⟨hre, hP, hG, _⟩ := geo_run cfg hct D hD.1 (· ∈ (build (subj ++ clip)).edges) _ [] _ RState.empty rI hgI hrI ⟨[], rfl⟩
    (fun x hx => by simp [RState.empty, SState.empty] at hx) (by simp [RState.empty, SState.empty, GeoAll])
    (fun sg hsg => by simp [RState.empty, Out.empty] at hsg)
  obtain ⟨hO, _, _⟩ := reach_facts hct hre
  obtain ⟨_, hhot⟩ := sweepEventsP_same_hot cfg hct (labOf subj clip) r.snap.inserted _ rI hrI f4.trIns _ _
    (erased_run cfg hct _ rI hrI) f4.trIns
  refine ⟨rI, hrI, ?_, ?_⟩
  · refine geoAll_mono _ _ ?_ hG
    intro x hx e hh
    refine ⟨hh.1, ?_, ?_⟩
    · rw [(hhot x hx).2, (hP x hx).1]; simp
    · intro k hk
      obtain ⟨p, hp⟩ := endAt_some_of_live (hO.hot x hx k hk) k.front
      refine ⟨p, hp, hh.2 k p hk hp, ?_⟩
      obtain ⟨g, hgm, hg, he⟩ := endOf_endPt hp
      obtain ⟨g', hg', hl, _⟩ := hO.hot x hx k hk
      rw [hg] at hg'; cases hg'
      exact hEI g hgm hl p (by cases hf' : k.front <;> rw [hf'] at he <;> simp [he])
  · intro yn yd hd hlo hhi hs xn hoff
    obtain ⟨hal, hvt⟩ := beam_alive hf hd hlo hhi
    have hE := erased_run cfg hct _ rI hrI
    have hinv : Inv cfg (erase rI.s.ael) := Clipper.Props.C01.inv_reachable cfg hct _ _ hE
    have hndI : r.snap.inserted.Nodup := nodup_of_pairwise_irrefl (ltAbove_irrefl r.snap.y0) hf.sorted
    obtain ⟨wS, wC⟩ := ray_winding subj clip xn yn yd hd hR.1 hvt (fun e he ha => hoff e ((hal e).2 ⟨he, ha⟩))
    have hreg := region_on_scanline cfg (labOf subj clip) _ hR.1 h.1 (erase rI.s.ael) _ xn yn yd hd hinv f4.trIns hndI hal hs
    refine ⟨by rw [wS, wC]; exact hreg.symm, ?_⟩
    intro j x k hj hk hfil
    obtain ⟨_, _, _, _, hfront⟩ := Clipper.Props.C01RegionRings.region_of_rings_partial cfg hct (labOf subj clip) _ hR.1 _ _ _ hE f4.trIns
      yn yd hndI hal _ rI hrI rfl
    rw [wS, wC]
    exact hfront j x k hj hk xn hfil

/-! ## non-vacuity: the two crossing triangles of `Props/C01Sweep` / `Props/C01Region`, Union and Intersection

`A = (0,40) (30,3) (-30,11)` (subject, edges 0–2) and `B = (-10,33) (-31,0) (34,20)` (clip, edges 3–5).  Six crossings; the least common
denominator of the six crossing points is `D = 36351017860465560`. -/

private def triA : Path := [⟨0, 40⟩, ⟨30, 3⟩, ⟨-30, 11⟩]
private def triB : Path := [⟨-10, 33⟩, ⟨-31, 0⟩, ⟨34, 20⟩]
private def triD : Int := 36351017860465560

theorem triangles_hyp : (build ([triA] ++ [triB])).Hyp (validGen rhe default) := by decide +kernel
theorem triangles_hypR : Built.HypR (build ([triA] ++ [triB])) (labOf [triA] [triB]) := by decide +kernel

/-- the six crossing points `[position, left edge, right edge, xn, yn, d]`, scanbeam by scanbeam, bottom-up within a scanbeam -/
example : (sweepFrom (validGen rhe default) rhe (build ([triA] ++ [triB])).next (build ([triA] ++ [triB])).mins []
      (build ([triA] ++ [triB])).ys).map (fun s => (geoSwaps s.afterIsect s.inserted).map
        (fun c => [(c.1 : Int), c.2.1.id, c.2.2.id, (crossQ c.2.1 c.2.2).xn, (crossQ c.2.1 c.2.2).yn, (crossQ c.2.1 c.2.2).d])) =
    [[], [[1, 5, 2, -13140, 53938, 1666], [2, 5, 0, 13140, 33314, 1238], [0, 3, 2, -5490, 9933, 381]],
     [[2, 0, 4, 59400, 46940, 3005]], [[0, 1, 3, -52560, 22044, 2148], [1, 1, 4, -9900, 13360, 1720]], []] := by decide +kernel

/-- `triD` is the least admissible scale -/
example : sweepDen (validGen rhe default) rhe (build ([triA] ++ [triB])).next (build ([triA] ++ [triB])).mins (build ([triA] ++ [triB])).ys = triD := by
  decide +kernel
theorem triangles_den : DenOK triD (builtDens [triA] [triB] rhe default) := by decide +kernel

/-- the decorated events, with their points as rationals `(xn, yn, d)` = `(xn/d, yn/d)`: insertions at the two local minima, the three crossings of
the second scanbeam bottom-up (heights 32.4, 26.9, 26.1), … -/
private def q (xn yn d : Int) : Pt := (QPt.mk xn yn d).toPt triD

example : builtEventsP triD [triA] [triB] rhe default =
    [.base (.insertPair 0 .subject false (-1)) (q 0 40 1), .base (.insertPair 0 .clip false 1) (q (-10) 33 1),
     .base (.intersect 1) (q (-13140) 53938 1666), .base (.intersect 2) (q 13140 33314 1238), .base (.intersect 0) (q (-5490) 9933 381),
     .update 3 (q 34 20 1), .base (.intersect 2) (q 59400 46940 3005), .update 0 (q (-30) 11 1),
     .base (.intersect 0) (q (-52560) 22044 2148), .base (.intersect 1) (q (-9900) 13360 1720),
     .base (.removePair 2) (q 30 3 1), .base (.removePair 0) (q (-31) 0 1)] := by decide +kernel

/-- they are in bottom-up order (`sweepEventsP_bottom_up`) -/
example : ySorted (builtEventsP triD [triA] [triB] rhe default) = true := by decide +kernel

/-- UNION: one finished ring, the 12-gon whose vertices are the six triangle vertices and the six EXACT crossing points, in ring order -/
example : (match runR ⟨.union, .nonZero⟩ RState.empty (builtEventsP triD [triA] [triB] rhe default) with
    | .ok rs => some (finishedRings rs, rs.s.ael.length) | .error _ => none) =
    some ([[q (-31) 0 1, q (-52560) 22044 2148, q (-30) 11 1, q (-5490) 9933 381, q (-10) 33 1, q (-13140) 53938 1666, q 0 40 1,
      q 13140 33314 1238, q 34 20 1, q 59400 46940 3005, q 30 3 1, q (-9900) 13360 1720]], 0) := by decide +kernel

/-- INTERSECTION: one finished ring, the hexagon of the six exact crossing points -/
example : (match runR ⟨.intersection, .nonZero⟩ RState.empty (builtEventsP triD [triA] [triB] rhe default) with
    | .ok rs => some (finishedRings rs, rs.s.ael.length) | .error _ => none) =
    some ([[q (-9900) 13360 1720, q (-52560) 22044 2148, q (-5490) 9933 381, q (-13140) 53938 1666, q 13140 33314 1238,
      q 59400 46940 3005]], 0) := by decide +kernel

/-- the theorem applies: every side of the union 12-gon lies on an input edge -/
example : ∃ rs, runR ⟨.union, .nonZero⟩ RState.empty (builtEventsP triD [triA] [triB] rhe default) = .ok rs ∧
    ∀ ring ∈ finishedRings rs, ∀ pq ∈ cycPairs ring, ∃ e ∈ (build ([triA] ++ [triB])).edges,
      onSeg pq.1 (Pt.scale triD e.bot) (Pt.scale triD e.top) = true ∧ onSeg pq.2 (Pt.scale triD e.bot) (Pt.scale triD e.top) = true :=
  output_rings_on_input_edges [triA] [triB] ⟨.union, .nonZero⟩ (by decide) rhe rhe_near default triangles_hyp triangles_hypR triD triangles_den

/-! ### items 4 and 5 evaluated on the triangles, scanline `y = 59/2` (strictly inside the second scanbeam, between its crossings)

The hot edges of that scanline (`Props/C01Region`): `3` and `0` for Union (state `3 2 5 0`, hot flags `1 0 0 1`), `2` and `5` for Intersection. -/

private def triOut (cfg : Cfg) : Paths :=
  match runR cfg RState.empty (builtEventsP triD [triA] [triB] rhe default) with
  | .ok rs => outputPaths rs
  | .error _ => []

/-- **`output_edges_cross_scanline` evaluated**: exactly two sides of the finished ring cross the scanline, one on each hot edge (both end points
on that input edge); read as `BuildPath64` does, the side on the FRONT edge (`3`, the region on its right) runs upwards, the side on the BACK
edge (`0`) downwards … -/
example : sidesCrossing triD (build ([triA] ++ [triB])).edges (triOut ⟨.union, .nonZero⟩) 59 2 = [(some 0, false), (some 3, true)] := by
  decide +kernel
/-- … and for Intersection on the hot edges `2` (front) and `5` (back) -/
example : sidesCrossing triD (build ([triA] ++ [triB])).edges (triOut ⟨.intersection, .nonZero⟩) 59 2 = [(some 5, false), (some 2, true)] := by
  decide +kernel

/-- **`output_region` evaluated** at the 40 points `x = (4 i − 79)/2` of that scanline (none on an edge): the winding number of the EXACT output
rings (read as `BuildPath64` does) is `1` exactly where `inR ct fr (wind subj p) (wind clip p)` holds and `0` elsewhere — UNION … -/
example : (List.range 40).map (fun (i : Nat) =>
      let xn : Int := 4 * (i : Int) - 79
      (wind ((triOut ⟨.union, .nonZero⟩).map (fun p => p.map (Pt.scale 2))) ⟨xn * triD, 59 * triD⟩,
       inR .union .nonZero (windQ [triA] xn 59 2) (windQ [triB] xn 59 2))) =
    List.replicate 14 (0, false) ++ List.replicate 11 (1, true) ++ List.replicate 15 (0, false) := by
  decide +kernel
/-- … and INTERSECTION -/
example : (List.range 40).map (fun (i : Nat) =>
      let xn : Int := 4 * (i : Int) - 79
      (wind ((triOut ⟨.intersection, .nonZero⟩).map (fun p => p.map (Pt.scale 2))) ⟨xn * triD, 59 * triD⟩,
       inR .intersection .nonZero (windQ [triA] xn 59 2) (windQ [triB] xn 59 2))) =
    List.replicate 15 (0, false) ++ List.replicate 6 (1, true) ++ List.replicate 19 (0, false) := by
  decide +kernel

/-- `output_edges_cross_scanline_partial` applies to the second scanbeam (its hypotheses are satisfiable) -/
example : ∃ rI, runR ⟨.union, .nonZero⟩ RState.empty
      (((beamRunsP triD (validGen rhe default) rhe (build ([triA] ++ [triB])).next (build ([triA] ++ [triB])).mins (labOf [triA] [triB]) []
        (build ([triA] ++ [triB])).ys).take 1).flatMap BeamRunP.events ++
       ((beamRunsP triD (validGen rhe default) rhe (build ([triA] ++ [triB])).next (build ([triA] ++ [triB])).mins (labOf [triA] [triB]) []
        (build ([triA] ++ [triB])).ys).getD 1 default).evIns) = .ok rI := by
  obtain ⟨rI, h1, _, _⟩ := output_edges_cross_scanline_partial [triA] [triB] ⟨.union, .nonZero⟩ (by decide) rhe rhe_near default
    triangles_hyp triangles_hypR triD triangles_den _ _ _ (split_at _ 1 (by decide +kernel))
  exact ⟨rI, h1⟩

end Clipper.Props.C01Output
