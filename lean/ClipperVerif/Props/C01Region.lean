/-
C01 — ON EVERY SCANLINE THE HOT EDGES BOUND EXACTLY THE REGION THE FILL RULE AND CLIP TYPE SELECT  (composition of the C01 layers).

Layers that existed, each proved and tied to the compiled engine:
 (L1) `Spec/Basic.lean`        `wind` (winding number by ray casting), `inR ct fr ws wc` (the region C01 defines);
 (L2) `Model/Ael` + `Props/C01`  the bookkeeping model driven by an event list whose POSITIONS are inputs: `inv_reachable`, `coverage_1d`;
 (L3) `Model/SweepOrder` + `Props/C01Sweep`  the geometric order of the AEL through the scanbeams, from the input paths alone.
This file composes them (model glue `Model/SweepEvents.lean`):

 1. `sweepEvents_accepted`   the event list DERIVED from the scanbeam model (insert pair at the index of `InsertLeftEdge`, one
                             `intersect` per inversion, `removePair` at a local maximum) is never rejected by the bookkeeping model,
                             and at all three stages of every scanbeam the L2 state lists the same edges in the same order as the
                             scanbeam model (`Tracks`); the AEL of a scanbeam consists of EXACTLY the input edges that cross it;
 2. `ray_winding`            `Spec.wind` of the subject (clip) paths around a rational point = the sum of `wind_dx` over the subject (clip)
                             edges of `build` that cross the scanline of the point strictly LEFT of it;
 3. `scanline_region`        THE HEADLINE: for every scanbeam, every rational height strictly inside it and every x on no edge:
                             `(x, y)` has an ODD number of hot edges to its left IFF `inR ct fr (wind subj p) (wind clip p)`;
                             `scanline_region_intervals`: the same in the words of the property — the point lies between the `(2j+1)`-th
                             and the `(2j+2)`-th hot edge of the scanline for some `j` (`odd_left_iff_interval`; the hot edges are even in number);
                             `scanline_region_states`: the same for the sweep's OWN states (after the insertions / after `DoIntersections`)
                             at every height at which their list order is the left-to-right order;
                             (`scanline_sums`, `scanline_region_stage`, `region_on_scanline`: the same over abstract event data);
 4. `hot_determined_by_order` in a state satisfying the invariant the hot flags are a function of the labelled order of the list: "the hot
                             edges of the scanline `y`" does not depend on the order in which the crossings below `y` were processed;
                             `isect_order_irrelevant`: any two sequences of adjacent transpositions with the same result are both accepted
                             and give the same hot flags (the derived list uses insertion-sort order, the engine its intersect-list order).
 5. `Props/C01RegionRings.region_of_rings_partial`  (stretch) for any decoration of the derived events with points: the edges holding the ends
                             of the output rings under construction are exactly the hot edges, a ring's front end is held by an edge with the
                             region on its right.

Orientation as in `Props/C01Sweep`: y grows downwards, the sweep climbs from large y to small y, a scanbeam is `[y1, y0]`, `y1 < y0`.
A rational point is `(xn/yd, yn/yd)`, `yd > 0`; `windQ ps xn yn yd` is `Spec.wind` of the paths scaled by `yd` around `(xn, yn)`
(`Props/C13Spec.wind_scale`: the winding number of the unscaled paths around the unscaled point, where that is an integer point).

WHAT IS STILL NOT A THEOREM after this file (stated again in the report):
 * horizontal edges (excluded by `AllUp`), open paths, joins (`join_with` does not occur in the scanbeam model);
 * the rounding of intersection points: the crossings of the model are exact; where the engine PUTS the vertex of a crossing is not
   modelled, so nothing is said about the 2-unit tolerance of C01;
 * that the interior of the OUTPUT polygons (winding number of the output paths) is the union of these scanline intervals: needs the
   geometric step "consecutive emissions of one `Active` lie on one input edge" and ring closing (`Props/C01Rings` has the combinatorics);
 * the order in which `ProcessIntersectList` performs the transpositions of a scanbeam (the derived list uses insertion-sort order;
   the engine's own order is tied to `Model/Ael` by the trace replay `AELVERIFY`, and by (4) the flags do not depend on it);
 * the hypotheses `Built.Hyp` (general position at every scanline) and `Built.HypR` (structural facts about the event data of `build`,
   at most two edges ending in one local maximum) are DECIDED per input, not proved of `build` once and for all.
-/
import ClipperVerif.Lemmas.C01RegionCore
namespace Clipper.Props.C01Region
open Clipper Clipper.Model Clipper.Model.AelOrder Clipper.Model.SweepOrder Clipper.Model.SweepEvents
open Clipper.Lemmas.SweepOrder Clipper.Lemmas.C01Region Clipper.Props.C01Sweep

/-! ## (1) the derived event list is accepted and keeps the two models in step -/

/-- **sweepEvents_accepted.**  ASSUMED: the hypotheses of `sweep_keeps_sorted` (`AllUp`, `NextOK`, `Near cx`, `SweepOK` for the scanline
list `ys`) and `HypR` (all decidable): a labelling with directions `±1` that is constant along a bound and opposite across a local
minimum; every edge starts at a local minimum of its scanline or continues a bound; every vertex height is a scanline; a local
maximum is the end of exactly two edges of the scanbeam, of one path type and opposite directions.
PROVED, for the bookkeeping model of `Model/Ael.lean` started in the empty AEL, every clip type and fill rule:
 * the whole derived event list `sweepEvents` is accepted (`Model.run … = some _`: no position out of range, every `removePair` meets a
   maxima pair);
 * for every scanbeam `r` of the derived run (`pre` = the scanbeams before it): the events up to `r` are accepted, then the insertion
   events, the intersection events and the top-of-scanbeam events of `r` are accepted one group after the other, and after each group
   the L2 state has the same length and order as the AEL of the scanbeam model, edge by edge the same path type and `wind_dx`
   (`BeamTracked`, `Tracks`);
 * the AEL after the insertions consists of exactly the input edges that cross the scanbeam (`BeamFacts.mem`, `.complete`). -/
theorem sweepEvents_accepted (cfg : Cfg) (edges : List SEdge) (valid : Int → SEdge → SEdge → Bool) (cx : SEdge → Int → Int)
    (next : SEdge → Option SEdge) (mins : Int → List (SEdge × SEdge)) (lab : Lab) (ys : List Int)
    (hup : AllUp edges) (hnx : NextOK edges next mins) (hn : Near cx) (hok : SweepOK edges valid next mins ys)
    (hR : HypR edges next mins lab ys) :
    (∃ l', Model.run cfg [] (sweepEvents valid cx next mins lab ys) = some l') ∧
    ∀ (pre : List BeamRun) (r : BeamRun) (post : List BeamRun), beamRuns valid cx next mins lab [] ys = pre ++ r :: post →
      ∃ l1 lI lX lT, Model.run cfg [] (pre.flatMap BeamRun.events) = some l1 ∧ BeamTracked cfg lab l1 r lI lX lT ∧
        BeamFacts edges r.snap := by
  obtain ⟨_, hdx, hnl, hst, htop, hrr⟩ := hR
  have h0 : ∀ y, ys.head? = some y → AelAt edges mins y [] ∧ CompleteAt edges mins y [] := by
    intro y hy
    refine ⟨aelAt_nil edges mins y, ?_⟩
    cases ys with
    | nil => simp at hy
    | cons y' t =>
      simp at hy; subst hy
      exact completeAt_start edges next mins y' hup hnx hst htop
  exact ⟨sweep_accepted cfg edges valid cx next mins lab hup hnx hn hdx hnl hst ys [] [] hok hrr h0 rfl,
    beamRuns_tracked cfg edges valid cx next mins lab hup hnx hn hdx hnl hst ys [] [] hok hrr h0 rfl⟩

/-- the snapshots of the derived run ARE the sweep of `Props/C01Sweep` -/
theorem sweepEvents_snaps (valid : Int → SEdge → SEdge → Bool) (cx : SEdge → Int → Int) (next : SEdge → Option SEdge)
    (mins : Int → List (SEdge × SEdge)) (lab : Lab) (ys : List Int) :
    (beamRuns valid cx next mins lab [] ys).map (·.snap) = sweepFrom valid cx next mins [] ys :=
  beamRuns_snaps valid cx next mins lab ys []

/-! ## (4) hot flags are a function of the labelled order -/

/-- **hot_determined_by_order.**  Two states of the bookkeeping model that both satisfy the invariant (`inv_reachable`: every state
reachable from the empty AEL does) and list edges of the same path type, open flag and `wind_dx` in the same order, all closed, have
the same hot flags — whatever event lists led to them.  In particular the order in which the crossings of a scanbeam are processed
does not matter for the hot flags. -/
theorem hot_determined_by_order (cfg : Cfg) (l l' : Ael) (h : Inv cfg l) (h' : Inv cfg l') (hk : l.map key = l'.map key)
    (ho : ∀ e ∈ l, e.isOpen = false) : l.map (·.hot) = l'.map (·.hot) :=
  hot_of_inv cfg l l' 0 0 h h' hk ho

theorem tracks_closed {lab : Lab} {l : Ael} {es : List SEdge} (h : Tracks lab l es) : ∀ e ∈ l, e.isOpen = false := by
  intro e he
  have hk : key e ∈ es.map (labKey lab) := by rw [← h]; exact List.mem_map_of_mem he
  obtain ⟨s, _, hs⟩ := List.mem_map.1 hk
  have := congrArg (fun k => k.2.1) hs
  simpa [key, labKey] using this.symm

/-- **isect_order_irrelevant.**  The derived event list performs the transpositions of a scanbeam in insertion-sort order; the real
`ProcessIntersectList` performs them in the order of its sorted node list (with the adjacency fix-up of `Props/C10Isect`).  This does
not matter: from a state `l` satisfying the invariant that tracks the edge list `es`, ANY two sequences of adjacent transpositions
`is`, `js` that turn `es` into the same list `target` are both accepted by the bookkeeping model, both end in states that track `target`,
and these two states have the SAME HOT FLAGS. -/
theorem isect_order_irrelevant (cfg : Cfg) (hct : cfg.ct ≠ .noClip) (lab : Lab) (l : Ael) (es target : List SEdge)
    (hinv : Inv cfg l) (htr : Tracks lab l es) (is js : List Nat)
    (h1 : applySwaps is es = some target) (h2 : applySwaps js es = some target) :
    ∃ l1 l2, Model.run cfg l (is.map .intersect) = some l1 ∧ Model.run cfg l (js.map .intersect) = some l2 ∧
      Tracks lab l1 target ∧ Tracks lab l2 target ∧ l1.map (·.hot) = l2.map (·.hot) := by
  have k1 : applySwaps is (l.map key) = some (target.map (labKey lab)) := by
    rw [htr, applySwaps_map, h1]; rfl
  have k2 : applySwaps js (l.map key) = some (target.map (labKey lab)) := by
    rw [htr, applySwaps_map, h2]; rfl
  obtain ⟨l1, r1, t1⟩ := run_intersects cfg is l _ k1
  obtain ⟨l2, r2, t2⟩ := run_intersects cfg js l _ k2
  have i1 := Clipper.Props.C01.inv_run cfg hct _ l l1 hinv r1
  have i2 := Clipper.Props.C01.inv_run cfg hct _ l l2 hinv r2
  exact ⟨l1, l2, r1, r2, t1, t2, hot_determined_by_order cfg l1 l2 i1 i2 (by rw [t1, t2]) (tracks_closed t1)⟩

/-! ## (2) the winding number by ray casting, in sweep terms -/

/-- the edges of the built input that cross the scanline `yn/yd` strictly left of the point `(xn/yd, yn/yd)` -/
def leftEdges (edges : List SEdge) (xn yn yd : Int) : List SEdge :=
  edges.filter (fun e => decide (aliveAt e yn yd ∧ leftOfPt e xn yn yd))

theorem tbl_sum (subj clip : Paths) (hnd : (build (subj ++ clip)).edges.Nodup) (t : PathType) (xn yn yd : Int) :
    ((labelTbl subj clip).map (fun r => if r.2.1 = t then rowTerm xn yn yd r else 0)).sum =
      labSum (labOf subj clip) t (leftEdges (build (subj ++ clip)).edges xn yn yd) := by
  have h1 : (labelTbl subj clip).map (fun r => if r.2.1 = t then rowTerm xn yn yd r else 0) =
      ((labelTbl subj clip).map (·.1)).map (fun e => if decide (aliveAt e yn yd ∧ leftOfPt e xn yn yd) = true then
        (if (labOf subj clip e).1 = t then (labOf subj clip e).2 else 0) else 0) := by
    rw [List.map_map]
    apply List.map_congr_left
    intro r hr
    simp only [Function.comp, labOf_row subj clip hnd r hr, rowTerm, leftTerm, decide_eq_true_eq]
    split <;> split <;> rfl
  rw [h1, labelTbl_fst, sum_filter_ite]
  rfl

/-- **ray_winding.**  `subj`, `clip`: closed paths; `edges` = the sweep edges `build (subj ++ clip)` derives from them (pairwise
different), labelled by `labOf` (path type; `wind_dx = +1` iff the path runs from the edge's `bot` to its `top`).  A point
`(xn/yd, yn/yd)`, `yd > 0`, whose height is no end-point height of an edge and which lies on no edge.  Then the `Spec.wind` winding number
of the subject paths around the point is the sum of `wind_dx` over the SUBJECT edges that cross the scanline of the point strictly left
of it, and likewise for the clip paths — the prefix sums the bookkeeping model maintains (`Props/C01.wind_insert`, `coverage_1d`).
(Paths with fewer than three vertices have no edges in `build` and wind around nothing.) -/
theorem ray_winding (subj clip : Paths) (xn yn yd : Int) (hd : 0 < yd)
    (hnd : (build (subj ++ clip)).edges.Nodup)
    (hv : ∀ e ∈ (build (subj ++ clip)).edges, yn ≠ e.bot.y * yd ∧ yn ≠ e.top.y * yd)
    (hoff : ∀ e ∈ (build (subj ++ clip)).edges, aliveAt e yn yd → ¬ onEdgeLine e xn yn yd) :
    windQ subj xn yn yd = labSum (labOf subj clip) .subject (leftEdges (build (subj ++ clip)).edges xn yn yd) ∧
    windQ clip xn yn yd = labSum (labOf subj clip) .clip (leftEdges (build (subj ++ clip)).edges xn yn yd) := by
  have hmemS : ∀ r ∈ labelsFrom 0 .subject subj, r.1 ∈ (build (subj ++ clip)).edges := by
    intro r hr
    rw [← labelTbl_fst]
    exact List.mem_map_of_mem (f := fun q : SEdge × PathType × Int => q.1) (by simp only [labelTbl, List.mem_append]; exact Or.inl hr)
  have hmemC : ∀ r ∈ labelsFrom (totalLen subj) .clip clip, r.1 ∈ (build (subj ++ clip)).edges := by
    intro r hr
    rw [← labelTbl_fst]
    exact List.mem_map_of_mem (f := fun q : SEdge × PathType × Int => q.1) (by simp only [labelTbl, List.mem_append]; exact Or.inr hr)
  have wS := wind_scaled .subject xn yn yd hd subj 0 (fun r hr => hv _ (hmemS r hr)) (fun r hr => hoff _ (hmemS r hr))
  have wC := wind_scaled .clip xn yn yd hd clip (totalLen subj) (fun r hr => hv _ (hmemC r hr)) (fun r hr => hoff _ (hmemC r hr))
  have tS := tbl_sum subj clip hnd .subject xn yn yd
  have tC := tbl_sum subj clip hnd .clip xn yn yd
  simp only [labelTbl, List.map_append, List.sum_append] at tS tC
  have z1 : ((labelsFrom (totalLen subj) .clip clip).map (fun r => if r.2.1 = PathType.subject then rowTerm xn yn yd r else 0)).sum = 0 := by
    have : (labelsFrom (totalLen subj) .clip clip).map (fun r => if r.2.1 = PathType.subject then rowTerm xn yn yd r else 0) =
        (labelsFrom (totalLen subj) .clip clip).map (fun _ => (0 : Int)) := by
      apply List.map_congr_left
      intro r hr
      simp [labelsFrom_pt .clip clip _ r hr]
    rw [this]; exact Clipper.WindSpec.sum_map_zero _
  have z2 : ((labelsFrom 0 .subject subj).map (fun r => if r.2.1 = PathType.clip then rowTerm xn yn yd r else 0)).sum = 0 := by
    have : (labelsFrom 0 .subject subj).map (fun r => if r.2.1 = PathType.clip then rowTerm xn yn yd r else 0) =
        (labelsFrom 0 .subject subj).map (fun _ => (0 : Int)) := by
      apply List.map_congr_left
      intro r hr
      simp [labelsFrom_pt .subject subj _ r hr]
    rw [this]; exact Clipper.WindSpec.sum_map_zero _
  have e1 : (labelsFrom 0 .subject subj).map (fun r => if r.2.1 = PathType.subject then rowTerm xn yn yd r else 0) =
      (labelsFrom 0 .subject subj).map (rowTerm xn yn yd) := by
    apply List.map_congr_left
    intro r hr
    simp [labelsFrom_pt .subject subj _ r hr]
  have e2 : (labelsFrom (totalLen subj) .clip clip).map (fun r => if r.2.1 = PathType.clip then rowTerm xn yn yd r else 0) =
      (labelsFrom (totalLen subj) .clip clip).map (rowTerm xn yn yd) := by
    apply List.map_congr_left
    intro r hr
    simp [labelsFrom_pt .clip clip _ r hr]
  rw [z1, e1] at tS
  rw [z2, e2] at tC
  constructor
  · rw [wS, ← tS]; omega
  · rw [wC, ← tC]; omega

/-! ## (3) the region on a scanline -/

/-- **the region on one scanline, for any state that is in scanline order.**  `edges`: pairwise different non-horizontal sweep edges
under a labelling; `es`: exactly the edges that cross the scanline `yn/yd`, each once, listed in non-strict left-to-right order on it;
`l`: an L2 state satisfying the invariant that tracks `es`.  Then for every point of the scanline: the winding sums of the edges
strictly to its left satisfy `inR` IFF the number of hot edges strictly to its left is odd. -/
theorem region_on_scanline (cfg : Cfg) (lab : Lab) (edges : List SEdge) (hnd : edges.Nodup) (hup : AllUp edges) (l : Ael)
    (es : List SEdge) (xn yn yd : Int) (hd : 0 < yd) (hinv : Inv cfg l) (htr : Tracks lab l es) (hndes : es.Nodup)
    (hmem : ∀ e, e ∈ es ↔ e ∈ edges ∧ aliveAt e yn yd) (hs : es.Pairwise (fun a b => leAt yn yd a b = true)) :
    inR cfg.ct cfg.fr (labSum lab .subject (leftEdges edges xn yn yd)) (labSum lab .clip (leftEdges edges xn yn yd)) =
      insideHot (hotEdges l es) xn yn yd := by
  have hupes : ∀ e ∈ es, e.Up := fun e he => hup e ((hmem e).1 he).1
  have hc := region_core cfg lab l es xn yn yd hinv htr (closed_of_sorted hd es hupes hs)
  have hperm : (leftEdges edges xn yn yd).Perm (es.filter (fun e => decide (leftOfPt e xn yn yd))) := by
    refine (List.perm_ext_iff_of_nodup (hnd.filter _) (hndes.filter _)).2 ?_
    intro e
    simp only [List.mem_filter, decide_eq_true_eq, hmem]
    constructor
    · rintro ⟨h1, h2, h3⟩; exact ⟨⟨h1, h2⟩, h3⟩
    · rintro ⟨⟨h1, h2⟩, h3⟩; exact ⟨h1, h2, h3⟩
  rw [labSum_perm lab .subject hperm, labSum_perm lab .clip hperm, hc, hotLeftCount_eq]
  rfl

theorem mul_lt_cancel {a b d : Int} (hd : 0 < d) (h : a * d < b * d) : a < b :=
  Int.lt_of_mul_lt_mul_right h (Int.le_of_lt hd)

/-- the edges of a scanbeam are exactly the input edges that cross any given height strictly inside it, and no end point of an
input edge has such a height -/
theorem beam_alive {edges : List SEdge} {s : Snap} (hf : BeamFacts edges s) {yn yd : Int} (hd : 0 < yd)
    (hlo : s.y1 * yd < yn) (hhi : yn < s.y0 * yd) :
    (∀ e, e ∈ s.inserted ↔ e ∈ edges ∧ aliveAt e yn yd) ∧
    (∀ e ∈ edges, yn ≠ e.bot.y * yd ∧ yn ≠ e.top.y * yd) := by
  have mono : ∀ {a b : Int}, a ≤ b → a * yd ≤ b * yd := fun h => Int.mul_le_mul_of_nonneg_right h (Int.le_of_lt hd)
  constructor
  · intro e
    constructor
    · intro he
      obtain ⟨h1, h2, h3⟩ := hf.mem e he
      unfold AliveAbove at h2; unfold AliveBelow at h3
      have := mono h3.1
      have := mono h2.2
      exact ⟨h1, by unfold aliveAt; omega⟩
    · rintro ⟨he, ha⟩
      unfold aliveAt at ha
      have t1 : e.top.y < s.y0 := mul_lt_cancel hd (by omega)
      have t2 : s.y1 < e.bot.y := mul_lt_cancel hd (by omega)
      have := hf.noBot e he
      exact hf.complete e he (by unfold AliveAbove; omega)
  · intro e he
    have hb := hf.noBot e he
    have ht := hf.noTop e he
    constructor
    · intro h
      by_cases c : e.bot.y ≤ s.y1
      · have := mono c; omega
      · have c2 : s.y0 ≤ e.bot.y := by omega
        have := mono c2; omega
    · intro h
      by_cases c : e.top.y ≤ s.y1
      · have := mono c; omega
      · have c2 : s.y0 ≤ e.top.y := by omega
        have := mono c2; omega

/-- **scanline_sums** (the headline over an abstract event list; `scanline_region` instantiates it for `build` and adds `ray_winding`).
Hypotheses of `sweepEvents_accepted`, `ct ≠ NoClip`, pairwise different edges.  For every scanbeam `r` of the derived run and every
rational height `yn/yd` strictly inside it, let the L2 state `lY` be what the bookkeeping model reaches from the empty AEL by the
derived events up to the insertions of `r` followed by the VIRTUAL `DoIntersections` at that height (`heightSwaps`: the adjacent
transpositions that sort the edges of the scanbeam by their exact x on the scanline `yn/yd`).  Then: the run is accepted; `lY` lists
the edges of the scanbeam in their left-to-right order on that scanline (`sortedAt`, a permutation of `r.snap.inserted`, non-strictly
sorted); `lY` satisfies the invariant; and for EVERY `xn`: the winding sums of the edges strictly left of `(xn/yd, yn/yd)` satisfy `inR`
IFF an odd number of hot edges of `lY` is strictly left of the point. -/
theorem scanline_sums (cfg : Cfg) (hct : cfg.ct ≠ .noClip) (edges : List SEdge) (valid : Int → SEdge → SEdge → Bool)
    (cx : SEdge → Int → Int) (next : SEdge → Option SEdge) (mins : Int → List (SEdge × SEdge)) (lab : Lab) (ys : List Int)
    (hup : AllUp edges) (hnx : NextOK edges next mins) (hn : Near cx) (hok : SweepOK edges valid next mins ys)
    (hR : HypR edges next mins lab ys)
    (pre : List BeamRun) (r : BeamRun) (post : List BeamRun) (hruns : beamRuns valid cx next mins lab [] ys = pre ++ r :: post)
    (yn yd : Int) (hd : 0 < yd) (hlo : r.snap.y1 * yd < yn) (hhi : yn < r.snap.y0 * yd) :
    ∃ lY, Model.run cfg [] (pre.flatMap BeamRun.events ++ r.evIns ++ heightSwaps yn yd r.snap.inserted) = some lY ∧
      Tracks lab lY (sortedAt yn yd r.snap.inserted) ∧ Inv cfg lY ∧
      (sortedAt yn yd r.snap.inserted).Perm r.snap.inserted ∧
      (sortedAt yn yd r.snap.inserted).Pairwise (fun a b => leAt yn yd a b = true) ∧
      (∀ e, e ∈ r.snap.inserted ↔ e ∈ edges ∧ aliveAt e yn yd) ∧
      (∀ e ∈ edges, yn ≠ e.bot.y * yd ∧ yn ≠ e.top.y * yd) ∧
      ∀ xn : Int,
        inR cfg.ct cfg.fr (labSum lab .subject (leftEdges edges xn yn yd)) (labSum lab .clip (leftEdges edges xn yn yd)) =
          insideHot (hotEdges lY (sortedAt yn yd r.snap.inserted)) xn yn yd := by
  obtain ⟨_, htr⟩ := sweepEvents_accepted cfg edges valid cx next mins lab ys hup hnx hn hok hR
  obtain ⟨l1, lI, lX, lT, e1, hbt, hf⟩ := htr pre r post hruns
  obtain ⟨lY, eY, tY⟩ := sortEvents_tracks cfg lab (leAt yn yd) r.snap.inserted lI hbt.trIns
  have hrun : Model.run cfg [] (pre.flatMap BeamRun.events ++ r.evIns ++ heightSwaps yn yd r.snap.inserted) = some lY := by
    simp only [run_append, e1, Option.bind_some, hbt.runIns]
    exact eY
  have hinv : Inv cfg lY := Clipper.Props.C01.inv_reachable cfg hct _ lY hrun
  have hupI : ∀ e ∈ r.snap.inserted, e.Up := fun e he => hup e (hf.mem e he).1
  obtain ⟨sp, ss⟩ := sortedAt_facts (yn := yn) hd r.snap.inserted hupI
  obtain ⟨hal, hvt⟩ := beam_alive hf hd hlo hhi
  have hndI : r.snap.inserted.Nodup := nodup_of_pairwise_irrefl (ltAbove_irrefl r.snap.y0) hf.sorted
  refine ⟨lY, hrun, tY, hinv, sp, ss, hal, hvt, ?_⟩
  intro xn
  exact region_on_scanline cfg lab edges hR.1 hup lY _ xn yn yd hd hinv tY (sp.symm.nodup hndI)
    (fun e => by rw [sp.mem_iff]; exact hal e) ss

/-- **scanline_region_stage** — the sweep's OWN states.  Same hypotheses.  For a scanbeam `r` of the derived run let `lI`, `lX` be the L2
states after its insertion events resp. after its intersection events (they exist by `sweepEvents_accepted`).  At every rational height
strictly inside the scanbeam at which the AEL after the insertions (`r.snap.inserted`) is in left-to-right order — every height below
the lowest crossing of the scanbeam; every height of the scanbeam if no two of its edges cross (`exact_order_between_scanlines`) — the
hot edges of `lI` delimit the region: for every `xn`, `inR` of the winding sums left of the point ⇔ odd number of hot edges left of it.
Likewise for `lX` and the AEL after `DoIntersections` (`r.snap.afterIsect`: in order at every height above the highest crossing). -/
theorem scanline_region_stage (cfg : Cfg) (hct : cfg.ct ≠ .noClip) (edges : List SEdge) (valid : Int → SEdge → SEdge → Bool)
    (cx : SEdge → Int → Int) (next : SEdge → Option SEdge) (mins : Int → List (SEdge × SEdge)) (lab : Lab) (ys : List Int)
    (hup : AllUp edges) (hnx : NextOK edges next mins) (hn : Near cx) (hok : SweepOK edges valid next mins ys)
    (hR : HypR edges next mins lab ys)
    (pre : List BeamRun) (r : BeamRun) (post : List BeamRun) (hruns : beamRuns valid cx next mins lab [] ys = pre ++ r :: post) :
    ∃ lI lX, Model.run cfg [] (pre.flatMap BeamRun.events ++ r.evIns) = some lI ∧ Tracks lab lI r.snap.inserted ∧
      Model.run cfg lI r.evIsect = some lX ∧ Tracks lab lX r.snap.afterIsect ∧
      ∀ (yn yd : Int), 0 < yd → r.snap.y1 * yd < yn → yn < r.snap.y0 * yd →
        (r.snap.inserted.Pairwise (fun a b => leAt yn yd a b = true) → ∀ xn : Int,
          inR cfg.ct cfg.fr (labSum lab .subject (leftEdges edges xn yn yd)) (labSum lab .clip (leftEdges edges xn yn yd)) =
            insideHot (hotEdges lI r.snap.inserted) xn yn yd) ∧
        (r.snap.afterIsect.Pairwise (fun a b => leAt yn yd a b = true) → ∀ xn : Int,
          inR cfg.ct cfg.fr (labSum lab .subject (leftEdges edges xn yn yd)) (labSum lab .clip (leftEdges edges xn yn yd)) =
            insideHot (hotEdges lX r.snap.afterIsect) xn yn yd) := by
  obtain ⟨_, htr⟩ := sweepEvents_accepted cfg edges valid cx next mins lab ys hup hnx hn hok hR
  obtain ⟨l1, lI, lX, lT, e1, hbt, hf⟩ := htr pre r post hruns
  have hrunI : Model.run cfg [] (pre.flatMap BeamRun.events ++ r.evIns) = some lI := by
    simp only [run_append, e1, Option.bind_some, hbt.runIns]
  have hrunX : Model.run cfg [] (pre.flatMap BeamRun.events ++ r.evIns ++ r.evIsect) = some lX := by
    simp only [run_append, e1, Option.bind_some, hbt.runIns, hbt.runIsect]
  have hinvI : Inv cfg lI := Clipper.Props.C01.inv_reachable cfg hct _ lI hrunI
  have hinvX : Inv cfg lX := Clipper.Props.C01.inv_reachable cfg hct _ lX hrunX
  have hndI : r.snap.inserted.Nodup := nodup_of_pairwise_irrefl (ltAbove_irrefl r.snap.y0) hf.sorted
  refine ⟨lI, lX, hrunI, hbt.trIns, hbt.runIsect, hbt.trIsect, ?_⟩
  intro yn yd hd hlo hhi
  obtain ⟨hal, _⟩ := beam_alive hf hd hlo hhi
  constructor
  · intro hs xn
    exact region_on_scanline cfg lab edges hR.1 hup lI _ xn yn yd hd hinvI hbt.trIns hndI hal hs
  · intro hs xn
    exact region_on_scanline cfg lab edges hR.1 hup lX _ xn yn yd hd hinvX hbt.trIsect (hf.isect_perm.symm.nodup hndI)
      (fun e => by rw [hf.isect_perm.mem_iff]; exact hal e) hs

/-- in a scanbeam in which no two edges are in the opposite order at the top, the AEL after the insertions is in left-to-right
order at EVERY height strictly inside the scanbeam (so `scanline_region_stage` applies to the whole scanbeam) -/
theorem inserted_in_order_of_no_crossing {edges : List SEdge} {s : Snap} (hf : BeamFacts edges s)
    (hno : ∀ a b, [a, b].Sublist s.inserted → ¬ xlt s.y1 b a) (yn yd : Int) (hd : 0 < yd) (hlo : s.y1 * yd < yn)
    (hhi : yn < s.y0 * yd) : s.inserted.Pairwise (fun a b => leAt yn yd a b = true) := by
  rw [List.pairwise_iff_forall_sublist]
  intro a b hab
  have h0 : ltAbove s.y0 a b := List.pairwise_iff_forall_sublist.1 hf.sorted hab
  have := ((exact_order_between_scanlines a b s.y0 s.y1 hf.hy h0).1 (hno a b hab)).2 yn yd hd hlo hhi
  rw [leAt_iff]
  unfold xLt at this
  omega

/-- **odd_left_iff_interval.**  Reading of "an odd number of hot edges is left of the point" for hot edges listed in left-to-right
order, an even number of them (`Props/C01.hot_even`): the point lies strictly right of the `(2j+1)`-th hot edge and not right of the
`(2j+2)`-th, for some `j` — i.e. in one of the intervals `(h₁,h₂), (h₃,h₄), …` between consecutive hot edges. -/
theorem odd_left_iff_interval (hots : List SEdge) (xn yn yd : Int)
    (hp : hots.Pairwise (fun a b => leftOfPt b xn yn yd → leftOfPt a xn yn yd)) (hev : hots.length % 2 = 0) :
    insideHot hots xn yn yd = true ↔
      ∃ j, ∃ (h : 2 * j + 1 < hots.length), leftOfPt hots[2 * j] xn yn yd ∧ ¬ leftOfPt hots[2 * j + 1] xn yn yd := by
  obtain ⟨k, hk, hfk⟩ := filter_eq_take_of_closed (fun e => decide (leftOfPt e xn yn yd)) hots
    (hp.imp (fun h hb => by simpa using h (by simpa using hb)))
  have hlt : ∀ (i : Nat) (hi : i < hots.length), leftOfPt hots[i] xn yn yd ↔ i < k := by
    intro i hi
    constructor
    · intro hl
      have hm : hots[i] ∈ hots.filter (fun e => decide (leftOfPt e xn yn yd)) := by
        simp only [List.mem_filter, decide_eq_true_eq]; exact ⟨List.getElem_mem hi, hl⟩
      -- hots[i] is in the prefix of length k; were i ≥ k, hots[k] … would be left of the point as well: count
      by_cases hik : i < k
      · exact hik
      · exfalso
        have hcl : ∀ j (hj : j < hots.length), j ≤ i → leftOfPt hots[j] xn yn yd := by
          intro j hj hji
          rcases Nat.lt_or_eq_of_le hji with h | h
          · exact (List.pairwise_iff_getElem.1 hp) j i hj hi h hl
          · subst h; exact hl
        have : (hots.take (i + 1)).filter (fun e => decide (leftOfPt e xn yn yd)) = hots.take (i + 1) := by
          apply List.filter_eq_self.2
          intro a ha
          obtain ⟨j, hj, rfl⟩ := List.getElem_of_mem ha
          simp only [List.length_take] at hj
          simp only [List.getElem_take, decide_eq_true_eq]
          exact hcl j (by omega) (by omega)
        have hsub : (hots.take (i + 1)).Sublist (hots.take k) := by
          rw [← hfk, ← this]
          exact List.Sublist.filter _ (List.take_sublist _ _)
        have := hsub.length_le
        simp only [List.length_take] at this
        omega
    · intro hik
      have hm : hots[i] ∈ hots.take k := by
        rw [List.mem_take_iff_getElem]
        exact ⟨i, by omega, rfl⟩
      rw [← hfk] at hm
      simpa using (List.mem_filter.1 hm).2
  unfold insideHot
  rw [hfk, List.length_take, Nat.min_eq_left hk, decide_eq_true_eq]
  constructor
  · intro hodd
    refine ⟨k / 2, by omega, ?_, ?_⟩
    · rw [hlt]; omega
    · rw [hlt]; omega
  · rintro ⟨j, hj, h1, h2⟩
    rw [hlt] at h1 h2
    omega

/-! ## the headline, for inputs given as paths -/

/-- **scanline_region — THE HEADLINE OF C01 AT MODEL LEVEL.**
`subj`, `clip`: closed paths.  `build (subj ++ clip)`: the event data the scanbeam model derives from the paths alone; `labOf subj clip`:
its labelling (path type, `wind_dx`).  ASSUMED (decidable; the driver decides them per input, the examples below by `decide`):
`Built.Hyp` — no horizontal edge, general position at every scanline (every vertex more than one unit away from every edge it does not
lie on, at its scanline) — and `Built.HypR` — the structural facts of `Model/SweepEvents.lean`; `cx` (`TopX`) within 1/2 of the exact x;
`ct ≠ NoClip` (which never sweeps).
PROVED, for every clip type but NoClip and every fill rule: for every scanbeam `r` of the derived run and every rational height
`yn/yd` STRICTLY inside it there is an L2 state `lY` — reached from the empty AEL by the derived event list up to the insertions of `r`
followed by the virtual `DoIntersections` at that height, hence a reachable state of the bookkeeping model, satisfying its invariant —
that lists the edges crossing the scanline in their left-to-right order on it, such that for EVERY `xn` with `(xn/yd, yn/yd)` on no edge:

      the number of hot edges of `lY` strictly left of the point is odd      ⟺      `inR ct fr (wind subj p) (wind clip p)`.

By `odd_left_iff_interval` the left side says: the point lies in one of the intervals between the `(2j+1)`-th and the `(2j+2)`-th hot
edge of the scanline.  So **the union of the horizontal intervals between consecutive hot edges on the scanline `y` is exactly the set of
`x` with `(x, y)` in the region C01 defines** (points on edges aside).  By `hot_determined_by_order` the hot flags of `lY` are those of
EVERY state satisfying the invariant that lists these edges in this order; `scanline_region_states` is the statement for the sweep's
own states. -/
theorem scanline_region (subj clip : Paths) (cfg : Cfg) (hct : cfg.ct ≠ .noClip) (cx : SEdge → Int → Int) (hn : Near cx)
    (info : SEdge → OInfo) (h : (build (subj ++ clip)).Hyp (validGen cx info))
    (hR : Built.HypR (build (subj ++ clip)) (labOf subj clip))
    (pre : List BeamRun) (r : BeamRun) (post : List BeamRun)
    (hruns : beamRuns (validGen cx info) cx (build (subj ++ clip)).next (build (subj ++ clip)).mins (labOf subj clip) []
      (build (subj ++ clip)).ys = pre ++ r :: post)
    (yn yd : Int) (hd : 0 < yd) (hlo : r.snap.y1 * yd < yn) (hhi : yn < r.snap.y0 * yd) :
    ∃ lY, Model.run cfg [] (pre.flatMap BeamRun.events ++ r.evIns ++ heightSwaps yn yd r.snap.inserted) = some lY ∧
      Tracks (labOf subj clip) lY (sortedAt yn yd r.snap.inserted) ∧ Inv cfg lY ∧
      (sortedAt yn yd r.snap.inserted).Perm r.snap.inserted ∧
      (sortedAt yn yd r.snap.inserted).Pairwise (fun a b => leAt yn yd a b = true) ∧
      (∀ e, e ∈ r.snap.inserted ↔ e ∈ (build (subj ++ clip)).edges ∧ aliveAt e yn yd) ∧
      ∀ xn : Int, (∀ e ∈ r.snap.inserted, ¬ onEdgeLine e xn yn yd) →
        insideHot (hotEdges lY (sortedAt yn yd r.snap.inserted)) xn yn yd =
          inR cfg.ct cfg.fr (windQ subj xn yn yd) (windQ clip xn yn yd) := by
  obtain ⟨lY, h1, h2, h3, h4, h5, h6, h7, h8⟩ := scanline_sums cfg hct _ (validGen cx info) cx _ _ (labOf subj clip) _
    h.1 h.2.2.1 hn h.2.2.2 hR pre r post hruns yn yd hd hlo hhi
  refine ⟨lY, h1, h2, h3, h4, h5, h6, ?_⟩
  intro xn hoff
  obtain ⟨wS, wC⟩ := ray_winding subj clip xn yn yd hd hR.1 h7 (fun e he ha => hoff e ((h6 e).2 ⟨he, ha⟩))
  rw [wS, wC]
  exact (h8 xn).symm

/-- **scanline_region_intervals** — the headline in the words of the property.  Same hypotheses and the same state `lY` as
`scanline_region`.  Let `h₁, h₂, …` be the hot edges of the scanline `yn/yd`, left to right.  Their number is even, and for every `xn`
with `(xn/yd, yn/yd)` on no edge:

      the point lies right of `h₂ⱼ₊₁` and not right of `h₂ⱼ₊₂` for some `j`      ⟺      `inR ct fr (wind subj p) (wind clip p)`,

i.e. the union of the intervals `(h₁,h₂), (h₃,h₄), …` between consecutive hot edges is exactly the region C01 defines on that scanline. -/
theorem scanline_region_intervals (subj clip : Paths) (cfg : Cfg) (hct : cfg.ct ≠ .noClip) (cx : SEdge → Int → Int) (hn : Near cx)
    (info : SEdge → OInfo) (h : (build (subj ++ clip)).Hyp (validGen cx info))
    (hR : Built.HypR (build (subj ++ clip)) (labOf subj clip))
    (pre : List BeamRun) (r : BeamRun) (post : List BeamRun)
    (hruns : beamRuns (validGen cx info) cx (build (subj ++ clip)).next (build (subj ++ clip)).mins (labOf subj clip) []
      (build (subj ++ clip)).ys = pre ++ r :: post)
    (yn yd : Int) (hd : 0 < yd) (hlo : r.snap.y1 * yd < yn) (hhi : yn < r.snap.y0 * yd) :
    ∃ lY, Model.run cfg [] (pre.flatMap BeamRun.events ++ r.evIns ++ heightSwaps yn yd r.snap.inserted) = some lY ∧
      Tracks (labOf subj clip) lY (sortedAt yn yd r.snap.inserted) ∧
      (hotEdges lY (sortedAt yn yd r.snap.inserted)).length % 2 = 0 ∧
      ∀ xn : Int, (∀ e ∈ r.snap.inserted, ¬ onEdgeLine e xn yn yd) →
        ((∃ j, ∃ (hj : 2 * j + 1 < (hotEdges lY (sortedAt yn yd r.snap.inserted)).length),
            leftOfPt (hotEdges lY (sortedAt yn yd r.snap.inserted))[2 * j] xn yn yd ∧
            ¬ leftOfPt (hotEdges lY (sortedAt yn yd r.snap.inserted))[2 * j + 1] xn yn yd) ↔
          inR cfg.ct cfg.fr (windQ subj xn yn yd) (windQ clip xn yn yd) = true) := by
  obtain ⟨lY, h1, h2, _, h4, h5, h6, h7⟩ := scanline_region subj clip cfg hct cx hn info h hR pre r post hruns yn yd hd hlo hhi
  have hev : (hotEdges lY (sortedAt yn yd r.snap.inserted)).length % 2 = 0 := by
    rw [hotEdges_length _ _ (tracks_length h2)]
    exact Clipper.Props.C01.hot_even cfg hct _ lY h1
  refine ⟨lY, h1, h2, hev, ?_⟩
  intro xn hoff
  have hupS : ∀ e ∈ sortedAt yn yd r.snap.inserted, e.Up := by
    intro e he
    exact h.1 e ((h6 e).1 (h4.mem_iff.1 he)).1
  have hcl := (closed_of_sorted (xn := xn) hd _ hupS h5).sublist (hotEdges_sublist lY _)
  rw [← odd_left_iff_interval _ xn yn yd hcl hev, h7 xn hoff]

/-- **scanline_region_states** — the headline for the sweep's own states.  Same hypotheses.  `lI` / `lX`: the L2 state after the
insertion events / after the intersection events of the scanbeam `r`.  At every rational height strictly inside the scanbeam at which
the AEL after the insertions is in left-to-right order (all heights below the lowest crossing; the whole scanbeam if nothing crosses
in it: `inserted_in_order_of_no_crossing`), the hot edges of `lI` delimit the region; at every height at which the AEL after
`DoIntersections` is in left-to-right order (all heights above the highest crossing), the hot edges of `lX` do. -/
theorem scanline_region_states (subj clip : Paths) (cfg : Cfg) (hct : cfg.ct ≠ .noClip) (cx : SEdge → Int → Int) (hn : Near cx)
    (info : SEdge → OInfo) (h : (build (subj ++ clip)).Hyp (validGen cx info))
    (hR : Built.HypR (build (subj ++ clip)) (labOf subj clip))
    (pre : List BeamRun) (r : BeamRun) (post : List BeamRun)
    (hruns : beamRuns (validGen cx info) cx (build (subj ++ clip)).next (build (subj ++ clip)).mins (labOf subj clip) []
      (build (subj ++ clip)).ys = pre ++ r :: post) :
    ∃ lI lX, Model.run cfg [] (pre.flatMap BeamRun.events ++ r.evIns) = some lI ∧ Tracks (labOf subj clip) lI r.snap.inserted ∧
      Model.run cfg lI r.evIsect = some lX ∧ Tracks (labOf subj clip) lX r.snap.afterIsect ∧
      ∀ (yn yd : Int), 0 < yd → r.snap.y1 * yd < yn → yn < r.snap.y0 * yd →
        (r.snap.inserted.Pairwise (fun a b => leAt yn yd a b = true) →
          ∀ xn : Int, (∀ e ∈ r.snap.inserted, ¬ onEdgeLine e xn yn yd) →
            insideHot (hotEdges lI r.snap.inserted) xn yn yd = inR cfg.ct cfg.fr (windQ subj xn yn yd) (windQ clip xn yn yd)) ∧
        (r.snap.afterIsect.Pairwise (fun a b => leAt yn yd a b = true) →
          ∀ xn : Int, (∀ e ∈ r.snap.inserted, ¬ onEdgeLine e xn yn yd) →
            insideHot (hotEdges lX r.snap.afterIsect) xn yn yd = inR cfg.ct cfg.fr (windQ subj xn yn yd) (windQ clip xn yn yd)) := by
  obtain ⟨lI, lX, h1, h2, h3, h4, h5⟩ := scanline_region_stage cfg hct _ (validGen cx info) cx _ _ (labOf subj clip) _
    h.1 h.2.2.1 hn h.2.2.2 hR pre r post hruns
  obtain ⟨_, htr⟩ := sweepEvents_accepted cfg _ (validGen cx info) cx _ _ (labOf subj clip) _ h.1 h.2.2.1 hn h.2.2.2 hR
  obtain ⟨_, _, _, _, _, _, hf⟩ := htr pre r post hruns
  refine ⟨lI, lX, h1, h2, h3, h4, ?_⟩
  intro yn yd hd hlo hhi
  obtain ⟨hal, hvt⟩ := beam_alive hf hd hlo hhi
  obtain ⟨g1, g2⟩ := h5 yn yd hd hlo hhi
  constructor
  · intro hs xn hoff
    obtain ⟨wS, wC⟩ := ray_winding subj clip xn yn yd hd hR.1 hvt (fun e he ha => hoff e ((hal e).2 ⟨he, ha⟩))
    rw [wS, wC]; exact (g1 hs xn).symm
  · intro hs xn hoff
    obtain ⟨wS, wC⟩ := ray_winding subj clip xn yn yd hd hR.1 hvt (fun e he ha => hoff e ((hal e).2 ⟨he, ha⟩))
    rw [wS, wC]; exact (g2 hs xn).symm

theorem split_at {α : Type} [Inhabited α] (L : List α) (i : Nat) (h : i < L.length) :
    L = L.take i ++ L.getD i default :: L.drop (i + 1) := by
  have : L.getD i default = L[i] := by simp [List.getD, List.getElem?_eq_getElem h]
  rw [this, List.getElem_cons_drop h, List.take_append_drop]

/-! ## non-vacuity: the two crossing triangles of `Props/C01Sweep.lean`, Union and Intersection

`A = (0,40) (30,3) (-30,11)` (subject) and `B = (-10,33) (-31,0) (34,20)` (clip); edges 0–2 belong to `A`, 3–5 to `B`.  The second
scanbeam `[20, 33]` holds four edges and three crossings. -/

private def triA : Path := [⟨0, 40⟩, ⟨30, 3⟩, ⟨-30, 11⟩]
private def triB : Path := [⟨-10, 33⟩, ⟨-31, 0⟩, ⟨34, 20⟩]

/-- the hypotheses of the headline hold for this input -/
theorem triangles_hyp : (build ([triA] ++ [triB])).Hyp (validGen rhe default) := by decide +kernel
theorem triangles_hypR : Built.HypR (build ([triA] ++ [triB])) (labOf [triA] [triB]) := by decide +kernel

/-- the labelling: `(id, path type, wind_dx)` -/
example : (build ([triA] ++ [triB])).edges.map (fun e => (e.id, labOf [triA] [triB] e)) =
    [(0, .subject, 1), (1, .subject, -1), (2, .subject, -1), (3, .clip, 1), (4, .clip, -1), (5, .clip, -1)] := by decide +kernel

private def triRuns : List BeamRun :=
  beamRuns (validGen rhe default) rhe (build ([triA] ++ [triB])).next (build ([triA] ++ [triB])).mins (labOf [triA] [triB]) []
    (build ([triA] ++ [triB])).ys

/-- the derived event list, scanbeam by scanbeam: (insertions, intersections, top of scanbeam) -/
example : triRuns.map (fun r => (r.evIns, r.evIsect, r.evTop)) =
    [([.insertPair 0 .subject false (-1)], [], []),
     ([.insertPair 0 .clip false 1], [.intersect 1, .intersect 2, .intersect 0], []),
     ([], [.intersect 2], []),
     ([], [.intersect 0, .intersect 1], [.removePair 2]),
     ([], [], [.removePair 0])] := by decide +kernel

/-- `sweepEvents_accepted` on it: the whole list is accepted and ends in the empty AEL -/
example : Model.run ⟨.union, .nonZero⟩ [] (triRuns.flatMap BeamRun.events) = some [] := by decide +kernel

/-- the L2 state of the scanline `y = 59/2` (strictly inside the second scanbeam, between its crossings: the order `3 2 5 0` is neither
the order after the insertions, `3 5 2 0`, nor the order after `DoIntersections`, `2 3 0 5`) -/
private def triState (cfg : Cfg) : Option Ael :=
  Model.run cfg [] ((triRuns.take 1).flatMap BeamRun.events ++ (triRuns.getD 1 default).evIns ++
    heightSwaps 59 2 (triRuns.getD 1 default).snap.inserted)

example : idsOf (sortedAt 59 2 (triRuns.getD 1 default).snap.inserted) = [3, 2, 5, 0] := by decide +kernel
example : (triState ⟨.union, .nonZero⟩).map (fun l => l.map (·.hot)) = some [true, false, false, true] := by decide +kernel
example : (triState ⟨.intersection, .nonZero⟩).map (fun l => l.map (·.hot)) = some [false, true, true, false] := by decide +kernel

/-- **both sides of `scanline_region` evaluated** on that scanline at the 40 points `x = (4 i − 79)/2`, `i < 40` (none on an edge):
UNION — inside the hot intervals exactly where `inR` of the exact winding numbers holds (`x` from −23/2 to 17/2 of the sample) … -/
example : (triState ⟨.union, .nonZero⟩).map (fun l => (List.range 40).map (fun (i : Nat) =>
      let xn : Int := 4 * (i : Int) - 79
      (insideHot (hotEdges l (sortedAt 59 2 (triRuns.getD 1 default).snap.inserted)) xn 59 2,
       inR .union .nonZero (windQ [triA] xn 59 2) (windQ [triB] xn 59 2)))) =
    some ((List.replicate 14 (false, false)) ++ List.replicate 11 (true, true) ++ List.replicate 15 (false, false)) := by
  decide +kernel
/-- … and INTERSECTION -/
example : (triState ⟨.intersection, .nonZero⟩).map (fun l => (List.range 40).map (fun (i : Nat) =>
      let xn : Int := 4 * (i : Int) - 79
      (insideHot (hotEdges l (sortedAt 59 2 (triRuns.getD 1 default).snap.inserted)) xn 59 2,
       inR .intersection .nonZero (windQ [triA] xn 59 2) (windQ [triB] xn 59 2)))) =
    some ((List.replicate 15 (false, false)) ++ List.replicate 6 (true, true) ++ List.replicate 19 (false, false)) := by
  decide +kernel

/-- the theorem itself applies to that scanbeam and height (its hypotheses are satisfiable) -/
example : ∃ lY, Model.run ⟨.union, .nonZero⟩ [] ((triRuns.take 1).flatMap BeamRun.events ++ (triRuns.getD 1 default).evIns ++
      heightSwaps 59 2 (triRuns.getD 1 default).snap.inserted) = some lY ∧ Inv ⟨.union, .nonZero⟩ lY ∧
      ∀ xn : Int, (∀ e ∈ (triRuns.getD 1 default).snap.inserted, ¬ onEdgeLine e xn 59 2) →
        insideHot (hotEdges lY (sortedAt 59 2 (triRuns.getD 1 default).snap.inserted)) xn 59 2 =
          inR .union .nonZero (windQ [triA] xn 59 2) (windQ [triB] xn 59 2) := by
  have hsplit : triRuns = triRuns.take 1 ++ triRuns.getD 1 default :: triRuns.drop 2 :=
    split_at triRuns 1 (by decide +kernel)
  obtain ⟨lY, h1, _, h3, _, _, _, h7⟩ := scanline_region [triA] [triB] ⟨.union, .nonZero⟩ (by decide) rhe rhe_near default
    triangles_hyp triangles_hypR _ _ _ hsplit 59 2 (by decide) (by decide +kernel) (by decide +kernel)
  exact ⟨lY, h1, h3, h7⟩

/-- `hot_determined_by_order` is not vacuous: the same edges in the same order reached by different event lists -/
example : (Model.run ⟨.xor, .evenOdd⟩ [] [.insertPair 0 .subject false (-1), .insertPair 1 .clip false 1, .intersect 2]).map
      (fun l => l.map (·.hot)) =
    (Model.run ⟨.xor, .evenOdd⟩ [] [.insertPair 0 .subject false (-1), .insertPair 2 .clip false 1, .intersect 1, .intersect 2,
      .intersect 1]).map (fun l => l.map (·.hot)) := by decide

end Clipper.Props.C01Region
