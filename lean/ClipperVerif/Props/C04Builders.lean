/-
Property C04, clause "executing into a PolyTree yields exactly the same set of closed paths as executing into Paths", and C03's
"every ring that CleanCollinear splits off is itself cleaned and emitted": all four solution builders must reach the records that
are appended to `outrec_list_` WHILE they run.

* `builders_reread_size` — Tie T: the loop headers regenerated from /repo's source on every run (`Generated/BuilderLoops`, by
  tools/extract_loops.py from clang's AST) are, for all four builders, `for (i = 0; i < outrec_list_.size(); ++i)` with the call
  evaluated on every turn and a body that never writes `i`.
* `dynLoop_visits_all` — for every state type, size function and body that never shrinks the list: when that loop returns, the
  indices visited are exactly `i0, i0+1, …, size(final) - 1`, each once and in order — every record present at the END is visited,
  including those appended by the body.
* `hoisted_misses_appended` — the variant with the bound read once visits only the records present at the START (a concrete
  witness on which the two differ): the reading of the size inside the condition is what the clause rests on.

Not proved here: what the bodies do (C03: `CleanCollinear`/`FixSelfIntersects`, `Model/SplitOp.buildPathsG` whose work list
`rest ++ sp` is this loop; C04: `Model/Owner`), nor that the four bodies emit the same paths (correspondence: `tree-vs-paths`,
`dense.tree64/treeD.pathsets` of harness/C04.cpp).
-/
import ClipperVerif.Model.BuilderLoop
import ClipperVerif.Generated.BuilderLoops

namespace Clipper.Props.C04Builders
open Clipper.Model.BuilderLoop Clipper.Generated.BuilderLoops

/-- Tie T: all four builders re-read `outrec_list_.size()` in the loop condition, start at 0, step by one and never write the
induction variable in the body. -/
theorem builders_reread_size :
    loops.map (·.fn) = ["BuildPaths64", "BuildTree64", "BuildPathsD", "BuildTreeD"] ∧
    ∀ l ∈ loops, l.singleVar = true ∧ l.initZero = true ∧ l.condRereadsSize = true ∧ l.incByOne = true ∧
      l.bodyWritesVar = false := by
  decide

variable {σ : Type}

theorem dynLoop_size_mono (size : σ → Nat) (body : σ → Nat → σ) (hmono : ∀ s i, size s ≤ size (body s i)) :
    ∀ fuel i s s' vis, dynLoop size body fuel i s = some (s', vis) → size s ≤ size s' := by
  intro fuel
  induction fuel with
  | zero => intro i s s' vis h; simp [dynLoop] at h
  | succ n ih =>
    intro i s s' vis h
    unfold dynLoop at h
    split at h
    · split at h
      · rename_i s2 vis2 heq
        simp only [Option.some.injEq, Prod.mk.injEq] at h
        have := ih _ _ _ _ heq
        have := hmono s i
        rw [← h.1]; omega
      · simp at h
    · simp only [Option.some.injEq, Prod.mk.injEq] at h
      rw [← h.1]; exact Nat.le_refl _

/-- The loop with the size re-read on every turn visits, in order and once each, exactly the indices from `i0` up to the size of
the list AT THE END — provided the body never shrinks the list (`outrec_list_` only grows: `NewOutRec` is its only writer during
the builders). -/
theorem dynLoop_visits_all (size : σ → Nat) (body : σ → Nat → σ) (hmono : ∀ s i, size s ≤ size (body s i)) :
    ∀ fuel i0 s s' vis, dynLoop size body fuel i0 s = some (s', vis) → vis = List.range' i0 (size s' - i0) := by
  intro fuel
  induction fuel with
  | zero => intro i s s' vis h; simp [dynLoop] at h
  | succ n ih =>
    intro i s s' vis h
    unfold dynLoop at h
    split at h
    · rename_i hlt
      split at h
      · rename_i s2 vis2 heq
        simp only [Option.some.injEq, Prod.mk.injEq] at h
        have hv := ih _ _ _ _ heq
        have h1 := dynLoop_size_mono size body hmono _ _ _ _ _ heq
        have h2 := hmono s i
        obtain ⟨hs, hvis⟩ := h
        subst hs
        have : size s2 - i = (size s2 - (i + 1)) + 1 := by omega
        rw [← hvis, hv, this, List.range'_succ]
      · simp at h
    · rename_i hge
      simp only [Option.some.injEq, Prod.mk.injEq] at h
      obtain ⟨hs, hvis⟩ := h
      subst hs
      have : size s - i = 0 := by omega
      rw [← hvis, this]; rfl

/-- the premises are satisfiable and the conclusion is not trivial: a list of work items in which item 1 appends two more -/
example : dynLoop (σ := List Nat) List.length (fun s i => if i = 1 then s ++ [7, 8] else s) 10 0 [0, 0, 0]
    = some ([0, 0, 0, 7, 8], [0, 1, 2, 3, 4]) := by decide

/-- With the bound hoisted out of the loop the appended records are never visited: same body, same start, the hoisted loop stops
after the three records present at the start. -/
theorem hoisted_misses_appended :
    (hoistedLoop (σ := List Nat) List.length (fun s i => if i = 1 then s ++ [7, 8] else s) 0 [0, 0, 0]).2 = [0, 1, 2] ∧
    (dynLoop (σ := List Nat) List.length (fun s i => if i = 1 then s ++ [7, 8] else s) 10 0 [0, 0, 0]).map (·.2)
      = some [0, 1, 2, 3, 4] := by decide

end Clipper.Props.C04Builders
