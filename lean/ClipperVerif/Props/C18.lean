/-
C18 — geometric predicates are exact (part 1: the integer predicates, both code paths).
All theorems are about the definitions in `ClipperVerif/Generated/{Core,Portable}.lean`, which
tools/cpp2lean.py re-creates from /repo on every run.
-/
import ClipperVerif.Lemmas.Mul64
namespace Clipper.Props.C18
open Clipper.Gen Clipper.Lemmas

theorem multiply_exact (a b : UInt64) :
    (Multiply a b).2.toNat * 2^64 + (Multiply a b).1.toNat = a.toNat * b.toNat := by
  simp only [Multiply]
  generalize hx1 : (a &&& (4294967295 : UInt64)) * (b &&& (4294967295 : UInt64)) = x1
  generalize hx2 : (a >>> (32 : UInt64)) * (b &&& (4294967295 : UInt64)) + (x1 >>> (32 : UInt64)) = x2
  generalize hx3 : (a &&& (4294967295 : UInt64)) * (b >>> (32 : UInt64)) + (x2 &&& (4294967295 : UInt64)) = x3
  have e1 : x1.toNat = ((a.toNat % 2^32) * (b.toNat % 2^32)) % 2^64 := by
    rw [← hx1, UInt64.toNat_mul, u64_lo, u64_lo]
  have e2 : x2.toNat = ((a.toNat / 2^32) * (b.toNat % 2^32) + x1.toNat / 2^32) % 2^64 := by
    rw [← hx2, UInt64.toNat_add, UInt64.toNat_mul, u64_lo, u64_hi, u64_hi]; omega
  have e3 : x3.toNat = ((a.toNat % 2^32) * (b.toNat / 2^32) + x2.toNat % 2^32) % 2^64 := by
    rw [← hx3, UInt64.toNat_add, UInt64.toNat_mul, u64_lo, u64_hi, u64_lo]; omega
  have l3 : (x3 &&& (4294967295 : UInt64)).toNat < 2^32 := by rw [u64_lo]; exact Nat.mod_lt _ (by decide)
  have l1 : (x1 &&& (4294967295 : UInt64)).toNat < 2^32 := by rw [u64_lo]; exact Nat.mod_lt _ (by decide)
  rw [u64_shl_or _ _ l3 l1, u64_lo, u64_lo]
  rw [UInt64.toNat_add, UInt64.toNat_add, UInt64.toNat_mul, u64_hi, u64_hi, u64_hi, u64_hi]
  have key := limbs_exact _ _ _ _ _ a.toNat_lt b.toNat_lt e1 e2 e3
  have h : ∀ p q r : Nat, ((p % 2^64 + q) % 2^64 + r) % 2^64 = (p + q + r) % 2^64 := by intros; omega
  rw [h]
  exact key
end Clipper.Props.C18

namespace Clipper.Props.C18
open Clipper.Gen Clipper.Lemmas

theorem portable_multiply_eq : Portable.Multiply = Multiply := rfl

theorem multiply_lo_hi_eq_iff (x y z w : UInt64) :
    Multiply x y = Multiply z w ↔ x.toNat * y.toNat = z.toNat * w.toNat := by
  have h1 := multiply_exact x y
  have h2 := multiply_exact z w
  constructor
  · intro h; rw [h] at h1; omega
  · intro h
    have l1 := (Multiply x y).1.toNat_lt
    have l2 := (Multiply z w).1.toNat_lt
    have e1 : (Multiply x y).1.toNat = (Multiply z w).1.toNat := by omega
    have e2 : (Multiply x y).2.toNat = (Multiply z w).2.toNat := by omega
    exact Prod.ext (UInt64.toNat_inj.mp e1) (UInt64.toNat_inj.mp e2)

theorem triSign_eq_sign (x : Int) : TriSign x = Int.sign x := by
  unfold TriSign
  rcases Int.lt_trichotomy x 0 with h | h | h
  · rw [Int.sign_eq_neg_one_of_neg h]; simp; omega
  · subst h; simp
  · rw [Int.sign_eq_one_of_pos h]; simp; omega

theorem toU64_iabs (x : Int) (h : x.natAbs < 2^64) : (toU64 (iabs x)).toNat = x.natAbs := by
  unfold toU64 iabs
  rw [UInt64.toNat_ofNat']
  split <;> omega

theorem int_eq_iff_sign_natAbs (x y : Int) : x = y ↔ x.sign = y.sign ∧ x.natAbs = y.natAbs := by
  constructor
  · rintro rfl; exact ⟨rfl, rfl⟩
  · rintro ⟨h1, h2⟩
    rw [← Int.sign_mul_natAbs x, ← Int.sign_mul_natAbs y, h1, h2]
end Clipper.Props.C18

namespace Clipper.Props.C18
open Clipper.Gen Clipper.Lemmas

/-- int64 range -/
def I64 (x : Int) : Prop := -2^63 ≤ x ∧ x < 2^63
/-- int64 values on which `std::abs` is defined -/
def AbsOk (x : Int) : Prop := -2^63 < x ∧ x < 2^63

/-- 128-bit branch (the one this platform compiles): exact for all arguments. -/
theorem productsAreEqual_int128_iff (a b c d : Int) :
    ProductsAreEqual a b c d = true ↔ a * b = c * d := by
  simp [ProductsAreEqual]

/-- Portable branch: exact wherever `std::abs` is defined. -/
theorem productsAreEqual_portable_iff (a b c d : Int)
    (ha : AbsOk a) (hb : AbsOk b) (hc : AbsOk c) (hd : AbsOk d) :
    Portable.ProductsAreEqual a b c d = true ↔ a * b = c * d := by
  unfold AbsOk at *
  have na : a.natAbs < 2^64 := by omega
  have nb : b.natAbs < 2^64 := by omega
  have nc : c.natAbs < 2^64 := by omega
  have nd : d.natAbs < 2^64 := by omega
  simp only [Portable.ProductsAreEqual, Bool.and_eq_true, decide_eq_true_eq]
  rw [portable_multiply_eq, multiply_lo_hi_eq_iff]
  have ts : ∀ x, Portable.TriSign x = Int.sign x := triSign_eq_sign
  rw [ts, ts, ts, ts, toU64_iabs a na, toU64_iabs b nb, toU64_iabs c nc, toU64_iabs d nd]
  rw [int_eq_iff_sign_natAbs (a * b) (c * d), Int.sign_mul, Int.sign_mul, Int.natAbs_mul, Int.natAbs_mul]
  exact And.comm
end Clipper.Props.C18

namespace Clipper.Props.C18
open Clipper.Gen Clipper.Lemmas

theorem sign_ite (z : Int) : z.sign = if z > 0 then 1 else if z < 0 then -1 else 0 := by
  rcases Int.lt_trichotomy z 0 with h | h | h
  · rw [Int.sign_eq_neg_one_of_neg h]; split <;> omega
  · subst h; simp
  · rw [Int.sign_eq_one_of_pos h]; split <;> omega

/-- the mathematical cross product sign of the turn pt1 → pt2 → pt3 -/
def crossSign (x1 y1 x2 y2 x3 y3 : Int) : Int :=
  Int.sign ((x2 - x1) * (y3 - y2) - (y2 - y1) * (x3 - x2))

theorem crossProductSign_int128_exact (x1 y1 x2 y2 x3 y3 : Int) :
    CrossProductSign x1 y1 x2 y2 x3 y3 = crossSign x1 y1 x2 y2 x3 y3 := by
  simp only [CrossProductSign, crossSign, sign_ite, decide_eq_true_eq]
  generalize (x2 - x1) * (y3 - y2) = p
  generalize (y2 - y1) * (x3 - x2) = q
  (repeat' split) <;> omega

theorem cps_core (X Y : Int) (hi1 lo1 hi2 lo2 : Nat)
    (h1 : hi1 * 2^64 + lo1 = X.natAbs) (h2 : hi2 * 2^64 + lo2 = Y.natAbs)
    (l1 : lo1 < 2^64) (l2 : lo2 < 2^64) :
    (if X.sign = Y.sign then
      (if hi1 = hi2 then
        (if lo1 = lo2 then (0 : Int)
         else if X.sign > 0 then (if lo1 > lo2 then 1 else -1) else -(if lo1 > lo2 then (1 : Int) else -1))
       else if X.sign > 0 then (if hi1 > hi2 then 1 else -1) else -(if hi1 > hi2 then (1 : Int) else -1))
     else if X.sign > Y.sign then 1 else -1) = (X - Y).sign := by
  simp only [sign_ite]
  (repeat' split) <;> omega
end Clipper.Props.C18

namespace Clipper.Props.C18
open Clipper.Gen Clipper.Lemmas

theorem portable_crossProductSign_exact (x1 y1 x2 y2 x3 y3 : Int)
    (ha : AbsOk (x2 - x1)) (hb : AbsOk (y3 - y2)) (hc : AbsOk (y2 - y1)) (hd : AbsOk (x3 - x2)) :
    Portable.CrossProductSign x1 y1 x2 y2 x3 y3 = crossSign x1 y1 x2 y2 x3 y3 := by
  unfold AbsOk at *
  generalize hA : x2 - x1 = a at *
  generalize hB : y3 - y2 = b at *
  generalize hC : y2 - y1 = c at *
  generalize hD : x3 - x2 = d at *
  have na : a.natAbs < 2^64 := by omega
  have nb : b.natAbs < 2^64 := by omega
  have nc : c.natAbs < 2^64 := by omega
  have nd : d.natAbs < 2^64 := by omega
  have m1 := multiply_exact (toU64 (iabs a)) (toU64 (iabs b))
  have m2 := multiply_exact (toU64 (iabs c)) (toU64 (iabs d))
  rw [toU64_iabs a na, toU64_iabs b nb, ← Int.natAbs_mul] at m1
  rw [toU64_iabs c nc, toU64_iabs d nd, ← Int.natAbs_mul] at m2
  have core := cps_core (a * b) (c * d) _ _ _ _ m1 m2 (UInt64.toNat_lt _) (UInt64.toNat_lt _)
  have ts : ∀ x, Portable.TriSign x = Int.sign x := triSign_eq_sign
  unfold crossSign
  rw [hA, hB, hC, hD, ← core]
  simp only [Portable.CrossProductSign, hA, hB, hC, hD, portable_multiply_eq, ts, ← Int.sign_mul,
    decide_eq_true_eq, gt_iff_lt, UInt64.lt_iff_toNat_lt, ← UInt64.toNat_inj]
end Clipper.Props.C18

namespace Clipper.Props.C18
open Clipper.Gen Clipper.Lemmas

/-- `IsCollinear pt1 sharedPt pt2` (128-bit branch) is exact for all arguments. -/
theorem isCollinear_int128_exact (x1 y1 x2 y2 sx sy : Int) :
    IsCollinear x1 y1 x2 y2 sx sy = true ↔ (sx - x1) * (y2 - sy) = (sy - y1) * (x2 - sx) := by
  simp only [IsCollinear]; exact productsAreEqual_int128_iff _ _ _ _

/-- portable branch, wherever `std::abs` of the four differences is defined -/
theorem isCollinear_portable_exact (x1 y1 x2 y2 sx sy : Int)
    (ha : AbsOk (sx - x1)) (hb : AbsOk (y2 - sy)) (hc : AbsOk (sy - y1)) (hd : AbsOk (x2 - sx)) :
    Portable.IsCollinear x1 y1 x2 y2 sx sy = true ↔ (sx - x1) * (y2 - sy) = (sy - y1) * (x2 - sx) := by
  simp only [Portable.IsCollinear]; exact productsAreEqual_portable_iff _ _ _ _ ha hb hc hd

/-- the two code paths agree wherever the portable one is defined -/
theorem portable_agrees (x1 y1 x2 y2 x3 y3 : Int)
    (ha : AbsOk (x2 - x1)) (hb : AbsOk (y3 - y2)) (hc : AbsOk (y2 - y1)) (hd : AbsOk (x3 - x2)) :
    Portable.CrossProductSign x1 y1 x2 y2 x3 y3 = CrossProductSign x1 y1 x2 y2 x3 y3 := by
  rw [portable_crossProductSign_exact _ _ _ _ _ _ ha hb hc hd, crossProductSign_int128_exact]

-- non-vacuity: the hypotheses are met by concrete non-trivial arguments, extremes included
example : AbsOk (2^63 - 1) ∧ AbsOk (-(2^63 - 1)) ∧ ¬ AbsOk (-2^63) := by unfold AbsOk; omega
example : Multiply 0xFFFFFFFFFFFFFFFF 0xFFFFFFFFFFFFFFFF = (1, 0xFFFFFFFFFFFFFFFE) := by decide
example : Portable.CrossProductSign 0 0 (2^62) 1 (2^63 - 1) 2 = 1 := by decide
end Clipper.Props.C18
