/-
C12 — Results depend only on the current inputs, not on an object's history.

Models: `Model/History.lean` (ClipperBase as a state machine, the sweep a parameter), `Model/OffsetState.lean`
(frame of ClipperOffset::ExecuteInternal/DoGroupOffset), `Model/RectClipFrame.lean` (per-path frame of
RectClip64::Execute).  The correspondence harness `harness/C12.cpp` replays every history on the real object and
compares its private members with `History` (`HISTREPLAY`), and the final frame members of a real ClipperOffset with
`OffsetState` (`OFFFRAME`).
`Model/HistoryPaths.lean`: the same histories with add calls that carry *paths*; the minima are computed by the model of
`AddPaths_` (`Model/AddPathsRings.lean`).  `HISTREPLAY` sends paths, so what the harness compares is this composed model.
-/
import ClipperVerif.Generated.Engine
import ClipperVerif.Lemmas.History
import ClipperVerif.Lemmas.HistoryPaths
import ClipperVerif.Model.OffsetState
import ClipperVerif.Model.RectClipFrame
namespace Clipper.Props.C12
open Clipper Clipper.Model.History Clipper.Lemmas.History

/-! ## ClipperBase -/

/-- `std::stable_sort` of an already sorted prefix followed by new elements is the stable sort of everything:
re-sorting `minima_list_` after further `AddPaths` calls gives what sorting once at the end gives. -/
theorem stableSort_append_sorted (xs ys : List LocalMin) :
    (stableSort xs ++ ys).mergeSort locMinLe = (xs ++ ys).mergeSort locMinLe :=
  stableSort_append xs ys

/-- `LocMinSorter` induces a total preorder (what `std::stable_sort` requires of its comparator). -/
theorem locMinSorter_total_preorder :
    (∀ a b c, locMinLe a b = true → locMinLe b c = true → locMinLe a c = true) ∧ (∀ a b, (locMinLe a b || locMinLe b a) = true) :=
  ⟨locMinLe_trans, locMinLe_total⟩

/-- After every public call of every history — whatever the sweep left in the per-execution members — the containers
`actives_`, `scanline_list_`, `intersect_nodes_`, `outrec_list_`, `horz_seg_list_`, `horz_join_list_` are empty.
(Each of the six is emptied by `CleanUp`; dropping one of the six statements from the model of `CleanUp` makes the
`execute` case of `inv_step` fail, because `run` is arbitrary.) -/
theorem scratch_empty_after {R : Type} (run : Sweep R) (ops : List Op) : (after run ops).s.cleaned :=
  (inv_after run ops).cleaned

/-- `sel_` is not touched by `CleanUp`: it is null after every call because every exit of the sweep loop drains it
(hypothesis `SweepDrainsSel`, a reading of `ExecuteInternal`/`PopHorz`; checked on the real object after every op). -/
theorem sel_empty_after {R : Type} (run : Sweep R) (hsel : SweepDrainsSel run) (ops : List Op) : (after run ops).s.sel = [] :=
  sel_foldl run hsel ops rfl

/-- The remaining per-execution members (`current_locmin_iter_`, `succeeded_`, `actives_`, `sel_`, the scanline queue)
at the moment the sweep starts, for every history: `Reset()` produces exactly the closed-form state `sweepStart`, which
mentions nothing but the minima added since the last `Clear` (stably sorted), the flags they set and the current
options; only `bot_y_` is stale. -/
theorem sweep_start_state {R : Type} (run : Sweep R) (pre : List Op) (ct : ClipType) (fr : FillRule) (tree : Bool) :
    reset { after run pre with cliptype := ct, fillrule := fr, usingPolytree := tree }
      = { sweepStart (inputsOf pre) ct fr tree with
            s := { (sweepStart (inputsOf pre) ct fr tree).s with botY := (after run pre).s.botY } } :=
  reset_eq_sweepStart (inv_after run pre) ct fr tree

/-- what `Execute(ct, fr, tree)` returns on inputs `i`: the sweep's result and `succeeded_` -/
def sweepResult {R : Type} (run : Sweep R) (i : Inputs) (ct : ClipType) (fr : FillRule) (tree : Bool) : R × Bool :=
  ((run (sweepStart i ct fr tree)).result, (run (sweepStart i ct fr tree)).succeeded)

theorem execute_after {R : Type} (run : Sweep R) (hbot : SweepIgnoresBotY run) (pre : List Op)
    (ct : ClipType) (fr : FillRule) (tree : Bool) :
    (execute run (after run pre) ct fr tree).1 = sweepResult run (inputsOf pre) ct fr tree := by
  have h := sweep_start_state run pre ct fr tree
  simp only [execute, sweepResult, cleanUp]
  rw [h]
  have := hbot (sweepStart (inputsOf pre) ct fr tree) (after run pre).s.botY
  exact Prod.ext this.1 this.2

/-- **For every history and every Execute in it**, the value returned is `run` on the stably sorted minima added since
the last `Clear`, with the current options — position `pre.length` of the outputs of `pre ++ Execute :: post`. -/
theorem execute_eq_fresh {R : Type} (run : Sweep R) (hbot : SweepIgnoresBotY run) (pre post : List Op)
    (ct : ClipType) (fr : FillRule) (tree : Bool) :
    (runHist run (pre ++ Op.execute ct fr tree :: post)).2[pre.length]? =
      some (some (sweepResult run (inputsOf pre) ct fr tree)) := by
  unfold runHist
  rw [runFrom_append]
  rw [List.getElem?_append_right (by rw [runFrom_length]; exact Nat.le_refl _)]
  rw [runFrom_length, Nat.sub_self, runFrom_fst]
  have := execute_after run hbot pre ct fr tree
  unfold after at this
  exact congrArg (fun x => some (some x)) this

/-- Two histories with the same inputs (same minima since their last `Clear`, same flags, same options) return the
same value from the same Execute — whatever else happened in them (other executions, earlier clears, option flips). -/
theorem execute_history_independent {R : Type} (run : Sweep R) (hbot : SweepIgnoresBotY run) (h₁ h₂ : List Op)
    (hin : inputsOf h₁ = inputsOf h₂) (ct : ClipType) (fr : FillRule) (tree : Bool) :
    (execute run (after run h₁) ct fr tree).1 = (execute run (after run h₂) ct fr tree).1 := by
  rw [execute_after run hbot, execute_after run hbot, hin]

/-! the fresh object "given the same paths and options" -/

def Op.isAdd : Op → Bool
  | .addSubject _ | .addOpenSubject _ | .addClip _ | .addReuseable _ => true
  | _ => false

/-- the add calls since the last `Clear` -/
def sinceClear (ops : List Op) : List Op :=
  ops.foldl (fun acc op => match op with | .clear => [] | op => if Op.isAdd op then acc ++ [op] else acc) []

/-- what one does with a new object to reproduce the current inputs: set the two options, repeat the add calls -/
def replayOf (ops : List Op) : List Op :=
  [.setPreserve (inputsOf ops).preserve, .setReverse (inputsOf ops).reverse] ++ sinceClear ops

private theorem fold_adds (l : List Op) (hl : ∀ op ∈ l, Op.isAdd op = true) (i : Inputs) :
    l.foldl Inputs.step i = { i with minima := i.minima ++ l.flatMap Op.minima,
                                     hasOpen := i.hasOpen || l.any Op.setsOpen,
                                     allocs := i.allocs + (l.map Op.allocs).sum } := by
  induction l generalizing i with
  | nil => simp
  | cons op l ih =>
    have hop := hl op (List.mem_cons_self)
    rw [List.foldl_cons, ih (fun o ho => hl o (List.mem_cons_of_mem _ ho))]
    cases op <;> simp [Op.isAdd] at hop <;>
      simp [Inputs.step, Op.minima, Op.setsOpen, Op.allocs, List.append_assoc, Bool.or_assoc, Nat.add_assoc]

private theorem rel_fold (ops : List Op) (i : Inputs) (acc : List Op)
    (hacc : ∀ op ∈ acc, Op.isAdd op = true)
    (hm : i.minima = acc.flatMap Op.minima) (ho : i.hasOpen = acc.any Op.setsOpen) (ha : i.allocs = (acc.map Op.allocs).sum) :
    let i' := ops.foldl Inputs.step i
    let acc' := ops.foldl (fun acc op => match op with | .clear => [] | op => if Op.isAdd op then acc ++ [op] else acc) acc
    (∀ op ∈ acc', Op.isAdd op = true) ∧ i'.minima = acc'.flatMap Op.minima ∧ i'.hasOpen = acc'.any Op.setsOpen ∧
      i'.allocs = (acc'.map Op.allocs).sum := by
  induction ops generalizing i acc with
  | nil => exact ⟨hacc, hm, ho, ha⟩
  | cons op ops ih =>
    simp only [List.foldl_cons]
    cases op with
    | clear => exact ih _ _ (by simp) (by simp [Inputs.step]) (by simp [Inputs.step]) (by simp [Inputs.step])
    | setPreserve b => exact ih _ _ (by simpa [Op.isAdd] using hacc) (by simpa [Inputs.step, Op.isAdd] using hm) (by simpa [Inputs.step, Op.isAdd] using ho) (by simpa [Inputs.step, Op.isAdd] using ha)
    | setReverse b => exact ih _ _ (by simpa [Op.isAdd] using hacc) (by simpa [Inputs.step, Op.isAdd] using hm) (by simpa [Inputs.step, Op.isAdd] using ho) (by simpa [Inputs.step, Op.isAdd] using ha)
    | execute ct fr tree => exact ih _ _ (by simpa [Op.isAdd] using hacc) (by simpa [Inputs.step, Op.isAdd] using hm) (by simpa [Inputs.step, Op.isAdd] using ho) (by simpa [Inputs.step, Op.isAdd] using ha)
    | addSubject a =>
      refine ih _ _ ?_ ?_ ?_ ?_
      · intro o h; simp [Op.isAdd] at h; rcases h with h | h; exact hacc o h; subst h; rfl
      · simp [Inputs.step, Op.isAdd, Op.minima, hm]
      · simp [Inputs.step, Op.isAdd, Op.setsOpen, ho]
      · simp [Inputs.step, Op.isAdd, Op.allocs, ha]
    | addOpenSubject a =>
      refine ih _ _ ?_ ?_ ?_ ?_
      · intro o h; simp [Op.isAdd] at h; rcases h with h | h; exact hacc o h; subst h; rfl
      · simp [Inputs.step, Op.isAdd, Op.minima, hm]
      · simp [Inputs.step, Op.isAdd, Op.setsOpen, ho]
      · simp [Inputs.step, Op.isAdd, Op.allocs, ha]
    | addClip a =>
      refine ih _ _ ?_ ?_ ?_ ?_
      · intro o h; simp [Op.isAdd] at h; rcases h with h | h; exact hacc o h; subst h; rfl
      · simp [Inputs.step, Op.isAdd, Op.minima, hm]
      · simp [Inputs.step, Op.isAdd, Op.setsOpen, ho]
      · simp [Inputs.step, Op.isAdd, Op.allocs, ha]
    | addReuseable r =>
      refine ih _ _ ?_ ?_ ?_ ?_
      · intro o h; simp [Op.isAdd] at h; rcases h with h | h; exact hacc o h; subst h; rfl
      · simp [Inputs.step, Op.isAdd, Op.minima, hm]
      · simp [Inputs.step, Op.isAdd, Op.setsOpen, ho]
      · simp [Inputs.step, Op.isAdd, Op.allocs, ha]

/-- replaying the adds since the last Clear, with the current options, on a new object reproduces the inputs -/
theorem inputsOf_replay (ops : List Op) : inputsOf (replayOf ops) = inputsOf ops := by
  obtain ⟨h1, h2, h3, h4⟩ := rel_fold ops {} [] (by simp) (by simp) (by simp) (by simp)
  have h1' : ∀ op ∈ sinceClear ops, Op.isAdd op = true := h1
  have h2' : (inputsOf ops).minima = (sinceClear ops).flatMap Op.minima := h2
  have h3' : (inputsOf ops).hasOpen = (sinceClear ops).any Op.setsOpen := h3
  have h4' : (inputsOf ops).allocs = ((sinceClear ops).map Op.allocs).sum := h4
  unfold replayOf
  show List.foldl Inputs.step {} _ = _
  rw [List.foldl_append]
  simp only [List.foldl_cons, List.foldl_nil, Inputs.step]
  rw [fold_adds _ h1']
  simp only [List.nil_append, Bool.false_or, Nat.zero_add]
  rw [← h2', ← h3', ← h4']

/-- **A used object returns what a freshly constructed one returns** when the fresh one is given the current options
and the paths added since the last `Clear` (in the same order of calls). -/
theorem used_eq_fresh_replay {R : Type} (run : Sweep R) (hbot : SweepIgnoresBotY run) (pre : List Op)
    (ct : ClipType) (fr : FillRule) (tree : Bool) :
    (execute run (after run pre) ct fr tree).1 = (execute run (after run (replayOf pre)) ct fr tree).1 :=
  execute_history_independent run hbot _ _ (inputsOf_replay pre).symm ct fr tree

private theorem aux_minima (rs : List Container) : (rs.map Op.addReuseable).flatMap Op.minima = rs.flatMap (·.minima) := by
  induction rs with
  | nil => rfl
  | cons r rs ih => simp [Op.minima, List.flatMap_cons] at ih ⊢; exact ih
private theorem aux_allocs (rs : List Container) : ((rs.map Op.addReuseable).map Op.allocs).sum = 0 := by
  induction rs with
  | nil => rfl
  | cons r rs ih => simp [Op.allocs] at ih ⊢; exact ih
private theorem aux_open (rs : List Container) :
    (rs.map Op.addReuseable).any Op.setsOpen = rs.any (fun r => r.minima.any (·.isOpen)) := by
  induction rs with
  | nil => rfl
  | cons r rs ih => simp [Op.setsOpen] at ih ⊢; rw [ih]

/-- Clippers fed from the same containers (whatever else their histories contain) sort to the same minima — the same
`vid`s, i.e. the very same vertices — own no vertex array on behalf of the containers, and return the same values.
In the model a container is a value no op returns, so no op can write it; on the real code the harness compares the
containers' vertices, flags and minima before and after all histories. -/
theorem reuseable_shared {R : Type} (run : Sweep R) (hbot : SweepIgnoresBotY run) (rs : List Container) (h₁ h₂ : List Op)
    (e₁ : sinceClear h₁ = rs.map Op.addReuseable) (e₂ : sinceClear h₂ = rs.map Op.addReuseable)
    (ho : (inputsOf h₁).preserve = (inputsOf h₂).preserve ∧ (inputsOf h₁).reverse = (inputsOf h₂).reverse)
    (ct : ClipType) (fr : FillRule) (tree : Bool) :
    (sweepStart (inputsOf h₁) ct fr tree).minima = stableSort (rs.flatMap (·.minima)) ∧
    (sweepStart (inputsOf h₁) ct fr tree).vertexLists = 0 ∧
    (execute run (after run h₁) ct fr tree).1 = (execute run (after run h₂) ct fr tree).1 := by
  have key : ∀ h, sinceClear h = rs.map Op.addReuseable →
      (inputsOf h).minima = rs.flatMap (·.minima) ∧ (inputsOf h).allocs = 0 ∧
      (inputsOf h).hasOpen = rs.any (fun r => r.minima.any (·.isOpen)) := by
    intro h e
    obtain ⟨_, h2, h3, h4⟩ := rel_fold h {} [] (by simp) (by simp) (by simp) (by simp)
    have h2' : (inputsOf h).minima = (sinceClear h).flatMap Op.minima := h2
    have h3' : (inputsOf h).hasOpen = (sinceClear h).any Op.setsOpen := h3
    have h4' : (inputsOf h).allocs = ((sinceClear h).map Op.allocs).sum := h4
    rw [h2', h3', h4', e]
    exact ⟨aux_minima rs, aux_allocs rs, aux_open rs⟩
  obtain ⟨m1, a1, o1⟩ := key h₁ e₁
  obtain ⟨m2, a2, o2⟩ := key h₂ e₂
  refine ⟨by simp [sweepStart, m1], by simp [sweepStart, a1], ?_⟩
  apply execute_history_independent run hbot
  have : ∀ (i j : Inputs), i.minima = j.minima → i.hasOpen = j.hasOpen → i.allocs = j.allocs → i.preserve = j.preserve →
      i.reverse = j.reverse → i = j := by
    intro i j; cases i; cases j; simp; intros; simp_all
  exact this _ _ (m1.trans m2.symm) (o1.trans o2.symm) (a1.trans a2.symm) ho.1 ho.2

/-! ## the same, over histories whose add calls carry *paths*

`Model/HistoryPaths.lean`: `POp` = the public calls with the paths they are given; `lower` turns such a history into the
member-level history above, the minima of each add call being *computed* by the model of `AddPaths_`
(`Model/AddPathsRings.lean`; that model is compared bit for bit with the real vertex array by `harness/AddPaths.cpp`, and
`HISTREPLAY` sends the paths and compares the real `minima_list_` element by element after every op);
`pinputsOf` is the summary computed from the paths alone. -/

section Paths
open Clipper.Model.HistoryPaths Clipper.Lemmas.HistoryPaths
open Clipper.Lemmas.AddPathsRings (MinV minimaV)
open Clipper.Props.C13AddPaths (toHist leV)

/-- **For every path-level history and every Execute in it**, the value returned is `run` on the object `sweepStart` of
the inputs computed from the paths added since the last `Clear` (their minima by `AddPaths_`, stably sorted) and the current
options — position `pre.length` of the outputs of `pre ++ Execute :: post`.  (`execute_eq_fresh` is the member-level
statement this is an instance of.) -/
theorem execute_eq_fresh_paths {R : Type} (run : Sweep R) (hbot : SweepIgnoresBotY run) (pre post : List POp)
    (ct : ClipType) (fr : FillRule) (tree : Bool) :
    (runHist run (lower (pre ++ POp.execute ct fr tree :: post))).2[pre.length]? =
      some (some (sweepResult run (pinputsOf pre) ct fr tree)) := by
  unfold lower
  rw [lowerFrom_append]
  simp only [lowerFrom, lowerOp]
  have h := execute_eq_fresh run hbot (lowerFrom 0 pre) (lowerFrom (nextCount (pre.foldl nextCount 0) (POp.execute ct fr tree)) post) ct fr tree
  rw [lowerFrom_length] at h
  rw [h]
  exact congrArg (fun i => some (some (sweepResult run i ct fr tree))) (inputsOf_lower pre)

/-- Two path-level histories with the same inputs return the same value from the same Execute. -/
theorem execute_history_independent_paths {R : Type} (run : Sweep R) (hbot : SweepIgnoresBotY run) (h₁ h₂ : List POp)
    (hin : pinputsOf h₁ = pinputsOf h₂) (ct : ClipType) (fr : FillRule) (tree : Bool) :
    (execute run (after run (lower h₁)) ct fr tree).1 = (execute run (after run (lower h₂)) ct fr tree).1 :=
  execute_history_independent run hbot _ _ (by rw [inputsOf_lower, inputsOf_lower, hin]) ct fr tree

/-- replaying, on a new object, the current options and then the add calls since the last `Clear` *with the same paths*
reproduces the inputs -/
theorem pinputsOf_replay (h : List POp) : pinputsOf (preplayOf h) = pinputsOf h :=
  Clipper.Lemmas.HistoryPaths.pinputsOf_replay h

/-- **A used object returns what a freshly constructed one returns** when the fresh one is given the current options and
the *paths* added since the last `Clear` (same calls, same order). -/
theorem used_eq_fresh_replay_paths {R : Type} (run : Sweep R) (hbot : SweepIgnoresBotY run) (pre : List POp)
    (ct : ClipType) (fr : FillRule) (tree : Bool) :
    (execute run (after run (lower pre)) ct fr tree).1 = (execute run (after run (lower (preplayOf pre))) ct fr tree).1 :=
  execute_history_independent_paths run hbot _ _ (pinputsOf_replay pre).symm ct fr tree

/-- **Order of the paths within the add calls.**  Let `h'` be `h` with the path list of every add call permuted
(`PermHist`; no `AddReuseableData`), and let the local minima created since the last `Clear` (`minimaVSince h`: each
minimum with its ring, flags and position in the ring, i.e. everything the sweep reaches from the `LocalMinima`) lie at
pairwise distinct points.  Then the objects on which the sweep of an Execute starts after `h` and after `h'` hold the
same sorted list `sorted` of minima-with-rings, each under the name (`vid` = creation number) it has in its own history,
and agree in every other member. -/
theorem execute_path_order_independent (h h' : List POp) (hr : PermHist h h')
    (hnr : ∀ op ∈ h, POp.isReuse op = false)
    (hd : (minimaVSince h).Pairwise (fun a b => a.pt ≠ b.pt))
    (ct : ClipType) (fr : FillRule) (tree : Bool) :
    let s := sweepStart (pinputsOf h) ct fr tree
    let s' := sweepStart (pinputsOf h') ct fr tree
    let sorted := (minimaVSince h).mergeSort leV
    ∃ vid vid' : MinV → Nat,
      (s.minima = sorted.map (toHist vid) ∧ ∀ v ∈ sorted, (minimaVSince h)[vid v]? = some v) ∧
      (s'.minima = sorted.map (toHist vid') ∧ ∀ v ∈ sorted, (minimaVSince h')[vid' v]? = some v) ∧
      { s' with minima := s.minima } = s := by
  intro s s' sorted
  have hnr' := permHist_noReuse hr hnr
  obtain ⟨hperm, ho, ha, hp, hv⟩ := permHist_fold hr {} {} [] [] (List.Perm.refl _) rfl rfl rfl rfl
  have hperm : (minimaVSince h).Perm (minimaVSince h') := hperm
  have hd' : (minimaVSince h').Pairwise (fun a b => a.pt ≠ b.pt) := hd.perm hperm (fun hxy e => hxy e.symm)
  have hsort : (minimaVSince h').mergeSort leV = sorted := (mergeSort_leV_perm _ _ hperm hd).symm
  have key : ∀ g : List POp, (∀ op ∈ g, POp.isReuse op = false) → (minimaVSince g).Pairwise (fun a b => a.pt ≠ b.pt) →
      (sweepStart (pinputsOf g) ct fr tree).minima
        = ((minimaVSince g).mergeSort leV).map (toHist (fun m => 0 + (minimaVSince g).idxOf m)) ∧
      ∀ v ∈ (minimaVSince g).mergeSort leV, (minimaVSince g)[(fun m => 0 + (minimaVSince g).idxOf m) v]? = some v := by
    intro g hg hdg
    refine ⟨?_, ?_⟩
    · show stableSort (pinputsOf g).minima = _
      rw [pinputs_minima g hg, label_eq_map 0 _ (nodup_of_distinct_pts hdg)]
      exact Clipper.Props.C13AddPaths.stableSort_toHist _ _
    · intro v hv
      have hmem : v ∈ minimaVSince g := (List.mergeSort_perm _ leV).mem_iff.mp hv
      have hlt := List.idxOf_lt_length_of_mem hmem
      simp only [Nat.zero_add]
      rw [List.getElem?_eq_getElem hlt, List.getElem_idxOf hlt]
  obtain ⟨k1, k2⟩ := key h hnr hd
  obtain ⟨k1', k2'⟩ := key h' hnr' hd'
  rw [hsort] at k1' k2'
  refine ⟨_, _, ⟨k1, k2⟩, ⟨k1', k2'⟩, ?_⟩
  have hy : s'.minima.map (·.y) = s.minima.map (·.y) := by
    rw [k1, k1', List.map_map, List.map_map]; exact List.map_congr_left (fun v _ => rfl)
  have hs : s = sweepStart (pinputsOf h) ct fr tree := rfl
  have hs' : s' = sweepStart (pinputsOf h') ct fr tree := rfl
  have hm' : s'.minima = stableSort (pinputsOf h').minima := rfl
  have hm : s.minima = stableSort (pinputsOf h).minima := rfl
  rw [hm'] at hy; rw [hm] at hy ⊢
  rw [hs, hs']
  unfold sweepStart
  simp only [hy]
  have e1 : (pinputsOf h').allocs = (pinputsOf h).allocs := ha.symm
  have e2 : (pinputsOf h').hasOpen = (pinputsOf h).hasOpen := ho.symm
  have e3 : (pinputsOf h').preserve = (pinputsOf h).preserve := hp.symm
  have e4 : (pinputsOf h').reverse = (pinputsOf h).reverse := hv.symm
  rw [e1, e2, e3, e4]

/-! non-vacuity of `execute_path_order_independent`: two add calls (subject, clip), each with its two paths in the other
order, an Execute and an option change in between; four minima at distinct points -/
def demoP : List POp :=
  [.addSubject [[⟨0,0⟩, ⟨4,4⟩, ⟨8,0⟩], [⟨20,1⟩, ⟨24,5⟩, ⟨28,1⟩]], .execute .union .nonZero false, .setReverse true,
   .addClip [[⟨2,0⟩, ⟨5,3⟩, ⟨9,0⟩], [⟨30,1⟩, ⟨34,6⟩, ⟨38,1⟩]]]
def demoP' : List POp :=
  [.addSubject [[⟨20,1⟩, ⟨24,5⟩, ⟨28,1⟩], [⟨0,0⟩, ⟨4,4⟩, ⟨8,0⟩]], .execute .union .nonZero false, .setReverse true,
   .addClip [[⟨30,1⟩, ⟨34,6⟩, ⟨38,1⟩], [⟨2,0⟩, ⟨5,3⟩, ⟨9,0⟩]]]
example : PermHist demoP demoP' :=
  .cons (.addSubject (List.Perm.swap _ _ _)) (.cons (.same _) (.cons (.same _) (.cons (.addClip (List.Perm.swap _ _ _)) .nil)))
example : (∀ op ∈ demoP, POp.isReuse op = false) ∧ (minimaVSince demoP).Pairwise (fun a b => a.pt ≠ b.pt) ∧
    (minimaVSince demoP).length = 4 := by decide
/-- the two unsorted minima lists do differ -/
example : (pinputsOf demoP).minima ≠ (pinputsOf demoP').minima := by decide
/-- the minima are computed: an add op carries nothing but paths -/
example : (pinputsOf [.addSubject [[⟨0,0⟩, ⟨4,4⟩, ⟨8,0⟩]], .addClip [[⟨0,5⟩, ⟨3,5⟩, ⟨6,5⟩, ⟨6,0⟩, ⟨0,0⟩]]]).minima
    = [⟨4, 4, .subject, false, 0⟩, ⟨5, 6, .clip, false, 1⟩] := by decide
example : preplayOf demoP = [.setPreserve true, .setReverse true, .addSubject [[⟨0,0⟩, ⟨4,4⟩, ⟨8,0⟩], [⟨20,1⟩, ⟨24,5⟩, ⟨28,1⟩]],
    .addClip [[⟨2,0⟩, ⟨5,3⟩, ⟨9,0⟩], [⟨30,1⟩, ⟨34,6⟩, ⟨38,1⟩]]] := by decide

end Paths

/-! non-vacuity: the hypotheses on the sweep are met by a sweep that does read stale-prone members, and a concrete
history with re-sorting, an intermediate execution and a `Clear` -/

def mA : LocalMin := ⟨100, 0, .subject, false, 0⟩
def mB : LocalMin := ⟨150, 50, .subject, false, 1⟩
def mC : LocalMin := ⟨100, 0, .clip, false, 2⟩     -- same key as mA: stability decides
def demoHistory : List Op :=
  [.addSubject ⟨false, [mB], true⟩, .execute .union .evenOdd true, .clear, .addSubject ⟨false, [mA], true⟩,
   .execute .intersection .nonZero false, .addClip ⟨false, [mB, mC], true⟩, .setReverse true]

/-- a sweep whose result exposes every member it is handed except `bot_y_` -/
def spySweep : Sweep (List LocalMin × List Int × List Nat × Bool × Bool × Bool × Option Nat) := fun c =>
  { result := (c.minima, c.s.scanlines, c.s.actives ++ c.s.sel ++ c.s.outrecs ++ c.s.intersectNodes ++ c.s.horzSegs ++ c.s.horzJoins,
               c.hasOpen, c.preserve, c.reverse, c.locminIter),
    s := { actives := [7], sel := [], scanlines := [5], intersectNodes := [1], outrecs := [2], horzSegs := [3], horzJoins := [4], botY := 99 },
    locminIter := some c.minima.length, succeeded := !c.reverse }

example : SweepIgnoresBotY spySweep := by intro c b; exact ⟨rfl, rfl⟩
example : SweepDrainsSel spySweep := fun _ => rfl
example : inputsOf demoHistory = { minima := [mA, mB, mC], hasOpen := false, allocs := 2, preserve := true, reverse := true } := by decide
example : (sweepStart (inputsOf demoHistory) .union .nonZero false).minima = [mB, mA, mC] := by
  have : inputsOf demoHistory = { minima := [mA, mB, mC], hasOpen := false, allocs := 2, preserve := true, reverse := true } := by decide
  rw [this]
  simp [sweepStart, stableSort, List.mergeSort, List.MergeSort.Internal.splitInTwo, locMinLe, locMinBefore, mA, mB, mC]
example : replayOf demoHistory = [.setPreserve true, .setReverse true, .addSubject ⟨false, [mA], true⟩, .addClip ⟨false, [mB, mC], true⟩] := by decide

/-- hypotheses of `reuseable_shared`: two different histories (one with an earlier Clear, an execution and an option
flipped twice) fed from the same two containers -/
def rA : Container := ⟨[mA, mB]⟩
def rL : Container := ⟨[⟨50, -20, .subject, true, 7⟩]⟩
example : sinceClear [.addSubject ⟨false, [mC], true⟩, .clear, .addReuseable rA, .execute .union .evenOdd false, .addReuseable rL]
    = [rA, rL].map Op.addReuseable := by decide
example : sinceClear [.setReverse true, .addReuseable rA, .addReuseable rL, .setReverse false] = [rA, rL].map Op.addReuseable := by decide

/-- **Tie T for the comparator**: the hand-transcribed `locMinBefore` used by the history model is the definition that
tools/cpp2lean.py regenerates from `LocMinSorter::operator()` on every run.  A change of the comparator in the source
breaks this proof (and, on ties, the `HISTREPLAY` records). -/
theorem lmBefore_is_generated (a b : Clipper.Model.History.LocalMin) :
    Clipper.Model.History.locMinBefore a b = Clipper.Gen.LocMinSorter a.x a.y b.x b.y := by
  unfold Clipper.Model.History.locMinBefore Clipper.Gen.LocMinSorter
  by_cases h : b.y = a.y
  · simp [h, Int.lt_irrefl]
  · simp [h]

/-- the same for the sort of the intersection list (used by the C10 scan model): descending y, then ascending x -/
theorem intersectListSort_spec (ax ay bx b_y : Int) :
    Clipper.Gen.IntersectListSort ax ay bx b_y = (decide (ay > b_y) || (decide (ay = b_y) && decide (ax < bx))) := by
  unfold Clipper.Gen.IntersectListSort
  by_cases h : ay = b_y
  · simp [h, Int.lt_irrefl]
  · simp [h]

end Clipper.Props.C12
