/-
C15 — Z accounting.  Theorems about the hand model of `SetZ` / the ClipperD proxy.  The claim "the USINGZ build
computes the same x,y" is not a theorem: it rests on (a) the syntactic premise re-established on every run by
tools/diff_usingz.py (the two builds differ only in Z payload statements) and (b) cross-build correspondence.
-/
import ClipperVerif.Model.ZFill
namespace Clipper.Props.C15
open Clipper.Model.ZFill

/-- without a callback `SetZ` leaves the point alone (new vertices keep the default z they were created with) -/
theorem setZ_no_callback (s : Bool) (a b c d ip : PtZ) (dz : Int) : setZ none s a b c d ip dz = ip := rfl

/-- `SetZ` never changes x or y -/
theorem setZ_xy (cb : Option Callback) (s : Bool) (a b c d ip : PtZ) (dz : Int) :
    (setZ cb s a b c d ip dz).x = ip.x ∧ (setZ cb s a b c d ip dz).y = ip.y := by
  cases cb <;> cases s <;> simp [setZ]

/-- the point handed to the callback already carries: the z of the first end point it coincides with — subject edge
first, bottom before top — and otherwise the default z; the callback's answer becomes the point's z; and the callback
sees the subject edge's end points first. -/
theorem setZ_spec (f : Callback) (s : Bool) (e1b e1t e2b e2t ip : PtZ) (dz : Int) :
    let (sb, st, cb, ct) := if s then (e1b, e1t, e2b, e2t) else (e2b, e2t, e1b, e1t)
    let seen : PtZ := { ip with z := pickZ ip sb st cb ct dz }
    setZ (some f) s e1b e1t e2b e2t ip dz = { seen with z := f sb st cb ct seen } := by
  cases s <;> simp [setZ]

/-- if the new point coincides with an end point of either edge, the z shown to the callback is one of the Z values
given at that location -/
theorem pickZ_at_endpoint (ip a b c d : PtZ) (dz : Int)
    (h : samePt ip a = true ∨ samePt ip b = true ∨ samePt ip c = true ∨ samePt ip d = true) :
    ∃ q ∈ [a, b, c, d], samePt ip q = true ∧ pickZ ip a b c d dz = q.z := by
  unfold pickZ
  by_cases ha : samePt ip a = true
  · exact ⟨a, by simp, ha, by simp [ha]⟩
  by_cases hb : samePt ip b = true
  · exact ⟨b, by simp, hb, by simp [ha, hb]⟩
  by_cases hc : samePt ip c = true
  · exact ⟨c, by simp, hc, by simp [ha, hb, hc]⟩
  have hd : samePt ip d = true := by
    rcases h with h | h | h | h <;> simp_all
  exact ⟨d, by simp, hd, by simp [ha, hb, hc, hd]⟩

/-- otherwise it is the default z -/
theorem pickZ_default (ip a b c d : PtZ) (dz : Int)
    (ha : samePt ip a = false) (hb : samePt ip b = false) (hc : samePt ip c = false) (hd : samePt ip d = false) :
    pickZ ip a b c d dz = dz := by
  simp [pickZ, ha, hb, hc, hd]

/-- the ClipperD proxy changes only z -/
theorem zcb_only_z (uz : Int) (pt : PtZ) : (zcbProxy uz pt).x = pt.x ∧ (zcbProxy uz pt).y = pt.y ∧ (zcbProxy uz pt).z = uz := by
  simp [zcbProxy]

-- non-vacuity: a crossing point that equals the subject edge's top takes its z before the callback adds 100
example : setZ (some fun _ _ _ _ p => p.z + 100) true ⟨0,0,1⟩ ⟨5,5,2⟩ ⟨0,5,3⟩ ⟨5,5,4⟩ ⟨5,5,0⟩ 9 = ⟨5,5,102⟩ := by decide
example : setZ (some fun _ _ _ _ p => p.z + 100) false ⟨0,0,1⟩ ⟨5,5,2⟩ ⟨0,5,3⟩ ⟨5,5,4⟩ ⟨5,5,0⟩ 9 = ⟨5,5,104⟩ := by decide
example : setZ (some fun _ _ _ _ p => p.z + 100) true ⟨0,0,1⟩ ⟨5,5,2⟩ ⟨0,5,3⟩ ⟨5,0,4⟩ ⟨2,2,0⟩ 9 = ⟨2,2,109⟩ := by decide

end Clipper.Props.C15
