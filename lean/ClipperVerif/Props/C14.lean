/-
C14 — Independent objects can be used from different threads.

* `interleaving_eq_sequential` / `interleaving_objects_eq`: on the abstract machine of `Model/Threads.lean`, for any
  schedule in which every object is used by one thread only, each thread gets the outputs — and its objects end in the
  states — of running its own calls alone.
* the premise "no step writes the global store" is tied to the source by `Generated/Globals.lean`
  (tools/extract_globals.py: clang AST + nm, regenerated on every run): `globals_readonly`, `no_unexplained_writable_symbol`,
  `vertex_written_only_when_loading`.
Data-race freedom of the compiled code is a runtime check (harness/C14.cpp under ThreadSanitizer), not a theorem.
-/
import ClipperVerif.Model.Threads
import ClipperVerif.Generated.Globals
namespace Clipper.Props.C14
open Clipper.Model.Threads

variable {G O Opn Out : Type}

/-- the two stores agree on the objects owned by `t` -/
def AgreeOn (owner : Nat → Nat) (t : Nat) (σ σ' : Nat → O) : Prop := ∀ i, owner i = t → σ i = σ' i

private theorem run_filter (m : Machine G O Opn Out) (hG : m.ReadOnlyG) (owner : Nat → Nat) (t : Nat) :
    ∀ (s : List (Event Opn)) (g : G) (σ σ' : Nat → O), (∀ e ∈ s, owner e.obj = e.thread) → AgreeOn owner t σ σ' →
      outputsOf t (run m g σ s).1 = outputsOf t (run m g σ' (programOf t s)).1 ∧
      (run m g σ s).2.1 = g ∧ (run m g σ' (programOf t s)).2.1 = g ∧
      AgreeOn owner t (run m g σ s).2.2 (run m g σ' (programOf t s)).2.2
  | [], g, σ, σ', _, hag => by simp [run, programOf, outputsOf]; exact hag
  | e :: es, g, σ, σ', hs, hag => by
    have he : owner e.obj = e.thread := hs e (List.mem_cons_self)
    have hes : ∀ e' ∈ es, owner e'.obj = e'.thread := fun e' h => hs e' (List.mem_cons_of_mem _ h)
    by_cases ht : e.thread = t
    · -- thread t's own call: same object state, same global store, hence the same step
      have hobj : σ e.obj = σ' e.obj := hag _ (he.trans ht)
      have hprog : programOf t (e :: es) = e :: programOf t es := by simp [programOf, ht]
      rw [hprog]
      simp only [run]
      rw [← hobj, hG]
      have hag' : AgreeOn owner t (upd σ e.obj (m.step g (σ e.obj) e.op).2.1) (upd σ' e.obj (m.step g (σ e.obj) e.op).2.1) := by
        intro i hi; unfold upd; split
        · rfl
        · exact hag i hi
      obtain ⟨h1, h2, h3, h4⟩ := run_filter m hG owner t es g _ _ hes hag'
      refine ⟨?_, h2, h3, h4⟩
      simp only [outputsOf, ht, List.filter_cons, beq_self_eq_true, if_true, List.map_cons]
      have := h1
      simp only [outputsOf] at this
      rw [this]
    · -- another thread's call: it touches an object t does not own
      have hprog : programOf t (e :: es) = programOf t es := by simp [programOf, ht]
      rw [hprog]
      simp only [run]
      rw [hG]
      have hag' : AgreeOn owner t (upd σ e.obj (m.step g (σ e.obj) e.op).2.1) σ' := by
        intro i hi; unfold upd; split
        · rename_i hie; subst hie; exact absurd (he.symm.trans hi) ht
        · exact hag i hi
      obtain ⟨h1, h2, h3, h4⟩ := run_filter m hG owner t es g _ _ hes hag'
      refine ⟨?_, h2, h3, h4⟩
      have hne : (e.thread == t) = false := by simpa using ht
      simp only [outputsOf, List.filter_cons, hne]
      exact h1

/-- **Every thread observes what it observes when run alone.**  For any machine whose steps do not write the global
store, any assignment of objects to threads, and any schedule (any interleaving of any number of threads' calls) in
which each call is made by the owner of the object it is made on: the outputs thread `t` receives are those of running
only `t`'s calls. -/
theorem interleaving_eq_sequential (m : Machine G O Opn Out) (hG : m.ReadOnlyG) (owner : Nat → Nat)
    (g : G) (σ : Nat → O) (s : List (Event Opn)) (hs : ∀ e ∈ s, owner e.obj = e.thread) (t : Nat) :
    outputsOf t (run m g σ s).1 = outputsOf t (run m g σ (programOf t s)).1 :=
  (run_filter m hG owner t s g σ σ hs (fun _ _ => rfl)).1

/-- … and its objects end in the states they end in when it runs alone; the global store is unchanged. -/
theorem interleaving_objects_eq (m : Machine G O Opn Out) (hG : m.ReadOnlyG) (owner : Nat → Nat)
    (g : G) (σ : Nat → O) (s : List (Event Opn)) (hs : ∀ e ∈ s, owner e.obj = e.thread) (t : Nat) :
    (run m g σ s).2.1 = g ∧ ∀ i, owner i = t → (run m g σ s).2.2 i = (run m g σ (programOf t s)).2.2 i :=
  let h := run_filter m hG owner t s g σ σ hs (fun _ _ => rfl)
  ⟨h.2.1, h.2.2.2⟩

/-! non-vacuity: a machine whose steps read the global store (a shared container) and accumulate into the object;
three threads, five interleaved calls -/
def demo : Machine (List Int) (List Int) Nat Int where
  step g o k := (g, (g.getD k 0) :: o, (g.getD k 0) + o.length)
example : demo.ReadOnlyG := fun _ _ _ => rfl
def demoSchedule : List (Event Nat) := [⟨0, 10, 0⟩, ⟨1, 11, 1⟩, ⟨0, 10, 2⟩, ⟨2, 12, 0⟩, ⟨1, 11, 0⟩]
example : ∀ e ∈ demoSchedule, (fun i => i - 10) e.obj = e.thread := by decide
example : outputsOf 1 (run demo [5, 6, 7] (fun _ => []) demoSchedule).1 = [6, 6] := by decide

/-! ## the premise, from the source -/
open Clipper.Gen.Globals

/-- Every object with static or thread storage duration declared anywhere in the library's headers and sources
(namespace scope, static members, function-local statics, thread_local), plus every writable data symbol of the
compiled objects that no declaration explains, is either declared `const`/`constexpr` or — the five
`static const char*` error strings, pointers to constants — is only ever loaded.  A mutable global, a function-local
`static` cache or a `thread_local` scratch buffer added to the library lands in the regenerated list with both flags
false and breaks this `decide`. -/
theorem globals_readonly : ∀ g ∈ globals, g.isConst = true ∨ g.onlyRead = true := by decide

/-- no writable data symbol of the compiled objects is unexplained (such symbols are listed with storage "nm-only") -/
theorem no_unexplained_writable_symbol : ∀ g ∈ globals, g.storage ≠ "nm-only" := by decide

/-- the writable symbols attributed to the toolchain are `std::__ioinit` (the <iostream> initialiser of each translation
unit) and g++'s exception-personality reference, nothing else -/
theorem toolchain_symbols_known :
    ∀ p ∈ toolchainSymbols, p.1 = "std::__ioinit" ∨ p.1 = "DW.ref.__gxx_personality_v0" := by decide

/-- Vertices — the data a ReuseableDataContainer64 shares between clippers — are assigned to only while paths are
loaded (`AddPaths_`, `AddLocMin`), never by the sweep: concurrent executions only read them. -/
theorem vertex_written_only_when_loading :
    ∀ w ∈ vertexWriters, w.1 = "Clipper2Lib::AddPaths_" ∨ w.1 = "Clipper2Lib::AddLocMin" := by decide

/-- the list is not empty for a trivial reason: it contains the namespace-scope constants the property names -/
example : (globals.any (fun g => g.name == "invalid_rect" && g.file == "clipper.engine.cpp")) = true := by decide
example : (globals.any (fun g => g.name == "PI")) = true := by decide

end Clipper.Props.C14
