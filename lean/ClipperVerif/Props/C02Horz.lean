/-
C02 / C03 / C04 — the horizontal-join pass of the sweep (`UpdateHorzSegment`, `ConvertHorzSegsToJoins`, `DuplicateOp`,
`ProcessHorzJoins`, `SetOwner`, `MoveSplits`), model `Model/HorzJoins.lean` on an abstract heap of `OutPt`s (pointers = indices).

Tie to the code: harness/C02horz.cpp calls the real private functions (a) on hand-built heaps and (b) inside real sweeps whose
`ExecuteInternal` loop is replayed in the harness on the real private members; every heap before/after is compared field by field
with the model (driver command `HORZJOINS`), and the hypotheses/conclusions of the theorems below are decided on the same real
heaps (`HORZJOINSHYP`, through `Decidable` instances of the very propositions used here).

Vocabulary (`Lemmas/HorzJoins*.lean`):
* `Rings H rs` — `rs` lists the rings of the heap: every `c ∈ rs` is a duplicate-free list `a :: t` with `x->next = y ∧ y->prev = x`
  for consecutive `x, y` and for `(last, a)`, and every `OutPt` index is on exactly one of them (`rs.flatten ~ range size`).
  Rings are lists *read following `->next`*; a ring may be listed from any of its nodes (`Rings.rot_head`) and the list of rings
  in any order (`Rings.perm'`).
* `Linked H` — the local form: `next`/`prev` inverse to each other.  `Linked H ↔ ∃ rs, Rings H rs` (`linked_iff_rings`).
* `RecsOK H rs` — every ring is owned by one live record: all its `OutPt`s resolve (`GetRealOutRec(op->outrec)`) to a record whose
  `pts` is on the ring; the `pts` of every live record resolves to that record.   `WF H := ∃ rs, Rings H rs ∧ RecsOK H rs`.
* `RectEdges H` — every edge `a → a->next` is horizontal or vertical (on a heap of rings: every ring is a rectilinear closed path,
  `rectEdges_rings` / `rings_rectEdges`).
* `OnY H y v` — `v` is a valid `OutPt` with `pt.y = y`.   `JoinFlat H j` — `op1`, `op2`, `op1->next`, `op2->prev` on one horizontal line.

All theorems hold for every heap and every `Path1InsidePath2` (a parameter of the model).  The ring/point/rectilinearity/`splits`
theorems about `ConvertHorzSegsToJoins` and `ProcessHorzJoins` are of the form "if the pass returns a heap, then …"; termination
without a fault on every well-formed heap is proved for `DuplicateOp`, `UpdateHorzSegment` and one iteration of `ProcessHorzJoins`
(`processJoin_terminates`), so every fuel bound of the model is shown to suffice: `heap size + 1` for the `OutPt` walks, `FixOutRecPts`
and the ring readers, `table size + 1` for `GetRealOutRec` (`getRealOutRec_fuel_suffices`), `table size + 2` inside `SetOwner`
(the bound of `Owner.setOwner_total`).  Not proved: termination of the two `while` walks inside `ConvertHorzSegsToJoins`' inner loop
(they stop inside the run `left_op … right_op`; the model answers `diverge` otherwise, which never happened on a real heap).
-/
import ClipperVerif.Lemmas.HorzJoinsWF
import ClipperVerif.Lemmas.HorzJoinsProcWF
import ClipperVerif.Lemmas.HorzJoinsTotal
import ClipperVerif.Lemmas.HorzJoinsOrbit
import ClipperVerif.Model.HorzJoinsCheck
namespace Clipper.Props.C02Horz
open Clipper Clipper.Model.HorzJoins

/-! ## 0. well-formed heaps -/

/-- **A heap whose `next` and `prev` are inverse to each other falls into rings** (the orbits of `->next`; each closes within
`size` steps): the local definition of well-formedness and the one by an explicit list of rings agree. -/
theorem linked_iff_rings {H : Heap} : Linked H ↔ ∃ rs, Rings H rs :=
  ⟨fun L => L.rings, fun ⟨_, R⟩ => R.linked⟩

/-- `WF` in local terms: `next`/`prev` inverse permutations of the valid indices, and for (some, hence — `RecsOK.relist` — any)
listing of the resulting rings every ring's `outrec`s are consistent. -/
theorem wf_iff {H : Heap} : WF H ↔ Linked H ∧ ∃ rs, Rings H rs ∧ RecsOK H rs := wf_iff_linked

/-! ## 1. `UpdateHorzSegment` -/

/-- **The run found when the record has no edges** (closed ring `op :: rest`, read following `->next`).
`opP` = the last of the nodes met going *back* from `op` while they lie on the line `y` and are not `op` itself;
`opN` = the last of the nodes met going *forward* from `op` while they lie on the line and are not `opP`:
together the maximal run of points with `y` containing `op`.  On a ring lying entirely on the line the code (and the model)
returns `opP = op->next`, `opN = op`: the run is the whole ring, cut open at `op`. -/
theorem updateHorzSegment_spec {H : Heap} {op : Nat} {rest : List Nat} (y : Int)
    (hring : IsRingF (nextOf H) (prevOf H) (op :: rest)) (hlt : ∀ v ∈ op :: rest, v < H.ops.size) :
    runEnds H op y none =
      .ok (((rest.reverse ++ [op]).takeWhile (fun v => v != op && onLine H y v)).getLastD op,
           ((rest ++ [op]).takeWhile
              (fun v => v != ((rest.reverse ++ [op]).takeWhile (fun v => v != op && onLine H y v)).getLastD op && onLine H y v)).getLastD op) :=
  runEnds_none_spec y hring hlt

/-- **The run found while the record still has edges**: `opA = outrec->pts` is the front end of the ring under construction,
`opZ = opA->next` its back end.  Reading the ring from `opZ` as `X ++ op :: Y` (so it ends in `opA`), `opP` is the last node met
going back over `X` while on the line and `opN` the last met going forward over `Y` while on the line — the maximal run that
does not extend across the open end between `opA` and `opZ`. -/
theorem updateHorzSegment_spec_edges {H : Heap} {op opA opZ : Nat} {X Y : List Nat} (y : Int)
    (hring : IsRingF (nextOf H) (prevOf H) (X ++ op :: Y)) (hlt : ∀ v ∈ X ++ op :: Y, v < H.ops.size)
    (hZ : (X ++ [op]).head? = some opZ) (hA : (op :: Y).getLast? = some opA) :
    runEnds H op y (some (opA, opZ)) =
      .ok ((X.reverse.takeWhile (onLine H y)).getLastD op, (Y.takeWhile (onLine H y)).getLastD op) :=
  runEnds_some_spec y hring hlt hZ hA

/-- **`UpdateHorzSegment` terminates without a fault on every well-formed heap** and every valid trial `OutPt` (both branches,
flat rings included): the fuel `size + 1` of the model's walks suffices. -/
theorem updateHorzSegment_terminates {H : Heap} (W : WF H) {hs : HorzSeg} (hop : hs.leftOp < H.ops.size) :
    ∃ res, updateHorzSegment H hs = .ok res :=
  Clipper.Model.HorzJoins.updateHorzSegment_terminates W hop

/-- `UpdateHorzSegment` changes nothing but one `horz` mark, and `left_op` / `right_op` stay on the line of the trial `OutPt`;
it returns `true` exactly when `right_op` is left non-null. -/
theorem updateHorzSegment_frame {H H1 : Heap} {hs hs1 : HorzSeg} {b : Bool} {y0 : Int} (h0 : OnY H y0 hs.leftOp)
    (h : updateHorzSegment H hs = .ok (H1, hs1, b)) :
    SameLinks H H1 ∧ H1.recs = H.recs ∧ orecOf H1 = orecOf H ∧ OnY H1 y0 hs1.leftOp ∧
      (∀ r, hs1.rightOp = some r → OnY H1 y0 r) ∧ (b = true ↔ hs1.rightOp.isSome) :=
  Clipper.Model.HorzJoins.updateHorzSegment_frame h0 h

/-! ## 2. `DuplicateOp` -/

/-- **`DuplicateOp(op, true)`**: on a heap of rings, with `op`'s ring listed as `pre ++ op :: post`, the call succeeds, returns the
next free index `new`, and the ring becomes `pre ++ op :: new :: post` — one more node, right behind `op`, carrying `op`'s point
and `outrec` (the ring's point sequence gains one repeated point); all other rings, points, `outrec`s and all records are
unchanged. -/
theorem duplicateOp_ring {H : Heap} {A B : List (List Nat)} {pre post : List Nat} {op : Nat}
    (R : Rings H (A ++ (pre ++ op :: post) :: B)) :
    ∃ H' n, H.ops[op]? = some n ∧ duplicateOp H op true = .ok (H', H.ops.size) ∧
      Rings H' (A ++ (pre ++ op :: H.ops.size :: post) :: B) ∧
      ptOf H' = (fun j => if j = H.ops.size then some n.pt else ptOf H j) ∧
      orecOf H' = upd (orecOf H) H.ops.size n.orec ∧ H'.recs = H.recs ∧ H'.ops.size = H.ops.size + 1 := by
  obtain ⟨H', n, a, b, c, d, e, f, g, _⟩ := duplicateOp_after_rings R
  exact ⟨H', n, a, b, c, d, e, f, g⟩

/-- **`DuplicateOp(op, false)`**: the same with the new node right in front of `op`: `pre ++ new :: op :: post`. -/
theorem duplicateOp_ring_before {H : Heap} {A B : List (List Nat)} {pre post : List Nat} {op : Nat}
    (R : Rings H (A ++ (pre ++ op :: post) :: B)) :
    ∃ H' n, H.ops[op]? = some n ∧ duplicateOp H op false = .ok (H', H.ops.size) ∧
      Rings H' (A ++ (pre ++ H.ops.size :: op :: post) :: B) ∧
      ptOf H' = (fun j => if j = H.ops.size then some n.pt else ptOf H j) ∧
      orecOf H' = upd (orecOf H) H.ops.size n.orec ∧ H'.recs = H.recs ∧ H'.ops.size = H.ops.size + 1 := by
  obtain ⟨H', n, a, b, c, d, e, f, g, _⟩ := duplicateOp_before_rings R
  exact ⟨H', n, a, b, c, d, e, f, g⟩

/-- **`DuplicateOp` keeps a heap well formed** (and never faults on a valid `OutPt` of a well-formed heap). -/
theorem duplicateOp_wf {H : Heap} (W : WF H) {op : Nat} (hop : op < H.ops.size) (after : Bool) :
    ∃ H', duplicateOp H op after = .ok (H', H.ops.size) ∧ WF H' :=
  Clipper.Model.HorzJoins.duplicateOp_wf W hop after

/-- `DuplicateOp` keeps every edge rectilinear. -/
theorem duplicateOp_rect {H : Heap} {rs : List (List Nat)} (R : Rings H rs) {op : Nat} (hop : op < H.ops.size) (after : Bool) :
    ∃ H', duplicateOp H op after = .ok (H', H.ops.size) ∧ (RectEdges H → RectEdges H') := by
  obtain ⟨H', _, a, _, _, _, _, _, _, r⟩ := duplicateOp_keeps R hop after
  exact ⟨H', a, r⟩

/-! ## 3. `ConvertHorzSegsToJoins` and `ProcessHorzJoins` on rings -/

/-- **`ConvertHorzSegsToJoins`** on a heap of rings whose trial `OutPt`s were all registered on the scanline `y0` — *this is the
precondition* (the engine registers `AddTrialHorzJoin(op)` only for `OutPt`s it has just emitted on the current scanline; a
change that registers an `OutPt` of another scanline, like seeded C02-m2 / C01a-m1, violates exactly this premise, and the
harness decides it on every real heap).  If the pass returns, then
* the heap still is a set of as many rings; records, and the point and `outrec` of every old `OutPt`, are unchanged;
* `m` joins were appended to `horz_join_list_`, the `t`-th with the ops `n0 + 2t`, `n0 + 2t + 1`: exactly `2m` `OutPt`s were
  allocated, each a duplicate (point and `outrec`) of an old one — the multiset of points grows exactly by the duplicated points;
* **every new `OutPt` lies on the scanline: both ops of every join made have `y = y0`**;
* rectilinear edges stay rectilinear.

`_partial`: for `ProcessHorzJoins` to create no diagonal edge the *neighbours* `op1->next`, `op2->prev` must lie on the line as well
(`JoinFlat`, see `flat_needs_neighbours`); that `ConvertHorzSegsToJoins` guarantees this too (its walks stop strictly inside the
run `left_op … right_op`) is not proved here — it is decided on every real heap by `HORZJOINSHYP`. -/
theorem convertHorzSegsToJoins_joins_on_scanline_partial {H H' : Heap} {rs : List (List Nat)} {segs segs' : List HorzSeg}
    {joins joins' : List HorzJoin} {y0 : Int}
    (R : Rings H rs) (hline : ∀ hs ∈ segs, OnY H y0 hs.leftOp)
    (h : convertHorzSegsToJoins H segs joins = .ok (H', segs', joins')) :
    ∃ rs' m, Rings H' rs' ∧ rs'.length = rs.length ∧ H'.recs = H.recs ∧
      H'.ops.size = H.ops.size + 2 * m ∧ joins' = joins ++ (List.range m).map (newJoin H.ops.size) ∧
      (∀ i, i < H.ops.size → ptOf H' i = ptOf H i ∧ orecOf H' i = orecOf H i) ∧
      (∀ i, H.ops.size ≤ i → i < H'.ops.size → OnY H' y0 i ∧ ∃ a, a < H.ops.size ∧ ptOf H' i = ptOf H a ∧ orecOf H' i = orecOf H a) ∧
      (∀ hs ∈ segs', OnY H' y0 hs.leftOp) ∧ (RectEdges H → RectEdges H') :=
  convertHorzSegsToJoins_keeps R hline h

/-- **`ConvertHorzSegsToJoins` keeps a heap well formed.** -/
theorem convertHorzSegsToJoins_wf {H H' : Heap} {segs segs' : List HorzSeg} {joins joins' : List HorzJoin} {y0 : Int}
    (W : WF H) (hline : ∀ hs ∈ segs, OnY H y0 hs.leftOp)
    (h : convertHorzSegsToJoins H segs joins = .ok (H', segs', joins')) : WF H' :=
  Clipper.Model.HorzJoins.convertHorzSegsToJoins_wf W hline h

/-- **`ProcessHorzJoins`, same-ring branch** ("the join is really a split"): with both ops on the ring `op1 :: X ++ op2 :: Y`
(`X ≠ []`, i.e. `op1->next != op2`), the ring falls into the two rings `op1 :: op2 :: Y` and `X`, whose sequences concatenate
to the original; every other ring and every point is unchanged.  (Whichever branch of the ownership code runs and whatever
`Path1InsidePath2` answers.) -/
theorem processHorzJoins_rings_split {inside : List Pt → List Pt → Bool} {tree : Bool} {H H' : Heap} {j : HorzJoin}
    {X Y : List Nat} {rest : List (List Nat)} (R : Rings H ((j.op1 :: X ++ j.op2 :: Y) :: rest)) (hX : X ≠ [])
    (h : processJoin inside tree H j = .ok H') :
    Rings H' ((j.op1 :: j.op2 :: Y) :: X :: rest) ∧ ptOf H' = ptOf H ∧ H'.ops.size = H.ops.size :=
  processJoin_split_rings R hX h

/-- **`ProcessHorzJoins`, two-ring branch**: with the ops on the rings `op1 :: X` and `op2 :: Y`, these become the single ring
`op1 :: op2 :: Y ++ X` — the concatenation at the join points. -/
theorem processHorzJoins_rings_merge {inside : List Pt → List Pt → Bool} {tree : Bool} {H H' : Heap} {j : HorzJoin}
    {X Y : List Nat} {rest : List (List Nat)} (R : Rings H ((j.op1 :: X) :: (j.op2 :: Y) :: rest))
    (h : processJoin inside tree H j = .ok H') :
    Rings H' ((j.op1 :: j.op2 :: (Y ++ X)) :: rest) ∧ ptOf H' = ptOf H ∧ H'.ops.size = H.ops.size :=
  processJoin_merge_rings R h

/-- the degenerate same-ring case `op1->next == op2`: no link changes (but the code still appends a record, which then shares
the ring with `or1` — a state outside `WF`; `ConvertHorzSegsToJoins` never produced it in any run of the harness). -/
theorem processHorzJoins_rings_degenerate {inside : List Pt → List Pt → Bool} {tree : Bool} {H H' : Heap} {j : HorzJoin}
    {Y : List Nat} {rest : List (List Nat)} (R : Rings H ((j.op1 :: j.op2 :: Y) :: rest))
    (h : processJoin inside tree H j = .ok H') :
    Rings H' ((j.op1 :: j.op2 :: Y) :: rest) ∧ ptOf H' = ptOf H ∧ H'.ops.size = H.ops.size :=
  processJoin_degenerate_rings R h

/-- **A flat join creates no diagonal edge** (one iteration). -/
theorem processJoin_no_diagonal {inside : List Pt → List Pt → Bool} {tree : Bool} {H H' : Heap} {j : HorzJoin}
    (r : RectEdges H) (f : JoinFlat H j) (h : processJoin inside tree H j = .ok H') : RectEdges H' :=
  processJoin_rect r f h

/-- **`ProcessHorzJoins` on a heap of rings** (the whole list): the result is a heap of rings carrying the same points at the
same `OutPt`s — the multiset of points over all rings is unchanged by this pass (it grew by the duplicates in
`ConvertHorzSegsToJoins`) — and if every edge was horizontal or vertical and every join is flat, every edge still is:
**flat joins never create a diagonal edge**, so every ring stays a rectilinear closed path (`rectEdges_rings`). -/
theorem processHorzJoins_rings {inside : List Pt → List Pt → Bool} {tree : Bool} (js : List HorzJoin) (H H' : Heap) (rs : List (List Nat))
    (R : Rings H rs) (ok : JoinsOK H js) (h : processHorzJoins inside tree H js = .ok H') :
    ∃ rs', Rings H' rs' ∧ ptOf H' = ptOf H ∧ H'.ops.size = H.ops.size ∧
      (RectEdges H → (∀ j ∈ js, JoinFlat H j) → RectEdges H' ∧ ∀ c ∈ rs', RectRing (ptOf H') c) := by
  obtain ⟨rs', R', a, b, c⟩ := processHorzJoins_keeps js H H' rs R ok h
  exact ⟨rs', R', a, b, fun r f => ⟨c r f, rectEdges_rings R' (c r f)⟩⟩

/-- **One iteration of `ProcessHorzJoins` keeps a heap well formed** — split or merge, paths or polytree mode, whatever
`Path1InsidePath2` answers: after a split one of the two rings is owned by `or1` (the one holding `or1->pts`, or under
`using_polytree_` possibly the other one after the swap) and the other by the new record, all `OutPt::outrec` fields resolving
accordingly; after a merge the `OutPt`s that resolved to `or2` resolve to `or1` through the emptied `or2`
(`GetRealOutRec` still within its fuel).  The degenerate join `op1->next == op2` is excluded: after it two records share a ring. -/
theorem processJoin_wf {inside : List Pt → List Pt → Bool} {tree : Bool} {H H' : Heap} {j : HorzJoin}
    (W : WF H) (h1 : j.op1 < H.ops.size) (h2 : j.op2 < H.ops.size) (hne : j.op1 ≠ j.op2)
    (hnd : nextOf H j.op1 ≠ some j.op2) (h : processJoin inside tree H j = .ok H') : WF H' :=
  Clipper.Model.HorzJoins.processJoin_wf W h1 h2 hne hnd h

/-- **One iteration of `ProcessHorzJoins` terminates without a fault on every well-formed heap** (non-degenerate join): the
fuel of every loop of the model suffices — `GetRealOutRec` (`size + 1`), `FixOutRecPts` and the ring readers feeding
`Path1InsidePath2` (`heap size + 1`), and under `using_polytree_` `SetOwner` (`size + 2`, for an acyclic owner graph with
in-range owners: the premise of `Owner.setOwner_total`, which C04 establishes for the tables of real sweeps). -/
theorem processJoin_terminates {inside : List Pt → List Pt → Bool} {tree : Bool} {H : Heap} {j : HorzJoin}
    (W : WF H) (h1 : j.op1 < H.ops.size) (h2 : j.op2 < H.ops.size) (hne : j.op1 ≠ j.op2)
    (hnd : nextOf H j.op1 ≠ some j.op2)
    (hA : tree = true → Clipper.Model.Owner.Acyclic (toTable H) ∧ Clipper.Model.Owner.OwnersInRange (toTable H)) :
    ∃ H', processJoin inside tree H j = .ok H' :=
  processJoin_total W h1 h2 hne hnd hA

/-- **`ProcessHorzJoins` keeps a heap well formed** (no join degenerate when its turn comes, `NonDegenerate`). -/
theorem processHorzJoins_wf {inside : List Pt → List Pt → Bool} {tree : Bool} (js : List HorzJoin) (H H' : Heap)
    (W : WF H) (ok : JoinsOK H js) (nd : NonDegenerate inside tree H js)
    (h : processHorzJoins inside tree H js = .ok H') : WF H' :=
  Clipper.Model.HorzJoins.processHorzJoins_wf js H H' W ok nd h

/-- **`GetRealOutRec` within the model's fuel**: on any heap, `GetRealOutRec(op->outrec)` returns the live record `r` with fuel
`table size + 1` exactly when a chain of emptied records leads from the record to `r` — the chain has no repetition, so the fuel
always suffices when the C++ loop terminates at a live record. -/
theorem getRealOutRec_fuel_suffices {H : Heap} {i r : Nat} : realOf H i = .ok (some r) ↔ ∃ l, DeadChain H i l r :=
  realOf_iff_chain

/-- **`FixOutRecPts` within the model's fuel**: on a heap of rings it terminates and relabels exactly the ring of `outrec->pts`. -/
theorem fixOutRecPts_ring {H : Heap} {rs : List (List Nat)} (R : Rings H rs) {ri a : Nat} {t : List Nat} (hc : (a :: t) ∈ rs)
    {rc : ORec} (hrc : H.recs[ri]? = some rc) (hp : rc.pts = some a) :
    ∃ H', fixOutRecPts H ri = .ok H' ∧ SameLinks H H' ∧ H'.recs = H.recs ∧
      orecOf H' = (fun i => if i ∈ a :: t then some ri else orecOf H i) :=
  fixOutRecPts_spec R hc hrc hp

/-! ## 4. ownership bookkeeping (C04) -/

/-- **`splits` bookkeeping of one iteration of `ProcessHorzJoins`** — see `processJoin_splits` in `Lemmas/HorzJoinsOwner.lean`:
split → the new record `|outrec_list_|` is pushed onto `or1->splits` (under `using_polytree_`; otherwise nowhere);
merge → `or2->pts = nullptr`, and under `using_polytree_` `or2`'s `splits` entries are appended to `or1`'s and `or2`'s list is
emptied (`MoveSplits`, #618); every other list is unchanged.  `splitsOf` is the list `Model/Owner.lean` works with
(`splitsOf_view`). -/
theorem splits_bookkeeping {inside : List Pt → List Pt → Bool} {tree : Bool} {H H' : Heap} {j : HorzJoin}
    (h : processJoin inside tree H j = .ok H') :
    ∃ n1 n2 or1 or2, H.ops[j.op1]? = some n1 ∧ H.ops[j.op2]? = some n2 ∧
      realOf H n1.orec = .ok or1 ∧ realOf H n2.orec = .ok or2 ∧
      ((or1 = or2 ∧ ∃ o1, or1 = some o1 ∧ H'.recs.size = H.recs.size + 1 ∧
          splitsOf H' o1 = (if tree then splitsOf H o1 ++ [H.recs.size] else splitsOf H o1) ∧
          splitsOf H' H.recs.size = [] ∧ (∀ k, k ≠ o1 → k ≠ H.recs.size → splitsOf H' k = splitsOf H k)) ∨
       (or1 ≠ or2 ∧ ∃ o2, or2 = some o2 ∧ H'.recs.size = H.recs.size ∧ (∃ rc, H'.recs[o2]? = some rc ∧ rc.pts = none) ∧
          (tree = true → ∃ o1, or1 = some o1 ∧ splitsOf H' o1 = splitsOf H o1 ++ splitsOf H o2 ∧ splitsOf H' o2 = [] ∧
            ∀ k, k ≠ o1 → k ≠ o2 → splitsOf H' k = splitsOf H k) ∧
          (tree = false → SameSplits H H'))) :=
  processJoin_splits h

/-- `MoveSplits(fromOr, toOr)` in the view of `Model/Owner.lean`. -/
theorem moveSplits_bookkeeping {H H' : Heap} {a b : Nat} (hab : a ≠ b) (h : moveSplits H a b = .ok H') :
    splitsOf H' b = splitsOf H b ++ splitsOf H a ∧ splitsOf H' a = [] ∧ (∀ k, k ≠ a → k ≠ b → splitsOf H' k = splitsOf H k) := by
  obtain ⟨x, y, z, _⟩ := moveSplits_spec hab h
  exact ⟨x, y, z⟩

/-- **The join model and the ownership model (C04) agree**: `GetRealOutRec`, `IsValidOwner` and `SetOwner` of
`Model/HorzJoins.lean` are those of `Model/Owner.lean` on the view `toTable` (`pts ↦ hasPts`, null `splits ↦ []`), so the
theorems of C04 about `SetOwner` (acyclicity kept, termination within `size + 2`) apply to the join pass. -/
theorem owner_model_agrees (H : Heap) :
    (∀ f x v, getRealOutRec H f x = .ok v ↔ Clipper.Model.Owner.getRealOutRec (toTable H) f x = some v) ∧
    (∀ i f x v, isValidOwner H i f x = .ok v ↔ Clipper.Model.Owner.isValidOwner (toTable H) f i x = some v) ∧
    (∀ i no H', setOwner H i no = .ok H' → Clipper.Model.Owner.setOwner (toTable H) ((toTable H).size + 2) i no = some (toTable H')) :=
  ⟨getRealOutRec_view H, fun i => isValidOwner_view H i, fun _ _ _ h => setOwner_view h⟩

/-! ## non-vacuity: two rectangles sharing part of a horizontal line -/

/-- ring 0-3: (0,0) (4,0) (4,2) (0,2), record 0;  ring 4-7: (1,2) (3,2) (3,4) (1,4), record 1.  They share the line y = 2:
`2 → 3` runs from x = 4 to x = 0, `4 → 5` from x = 1 to x = 3 (opposite directions, overlapping). -/
def exH : Heap :=
  { ops := #[⟨⟨0,0⟩,1,3,0,false⟩, ⟨⟨4,0⟩,2,0,0,false⟩, ⟨⟨4,2⟩,3,1,0,false⟩, ⟨⟨0,2⟩,0,2,0,false⟩,
             ⟨⟨1,2⟩,5,7,1,false⟩, ⟨⟨3,2⟩,6,4,1,false⟩, ⟨⟨3,4⟩,7,5,1,false⟩, ⟨⟨1,4⟩,4,6,1,false⟩],
    recs := #[{ pts := some 0 }, { pts := some 4 }] }

def exRings : List (List Nat) := [[0, 1, 2, 3], [4, 5, 6, 7]]

example : Rings exH exRings := by decide
example : RectEdges exH := by rw [← rectEdgesB_iff]; decide
/-- `exH` is well formed (so every theorem above with hypothesis `WF` applies to it) -/
theorem exH_wf : WF exH := ⟨exRings, by decide, recsOKB_sound (by decide)⟩
example : OnY exH 2 2 ∧ OnY exH 2 4 := by constructor <;> (rw [← onYB_iff]; decide)

/-- `UpdateHorzSegment` on the trial `OutPt` 2 finds the run 2..3 heading right to left: `left_op = 3`, `right_op = 2` -/
example : (updateHorzSegment exH { leftOp := 2 }).toOption.map (·.2) = some ({ leftOp := 3, rightOp := some 2, ltr := false }, true) := by decide

/-- after the first pass (two `horz` marks) -/
def exH1 : Heap :=
  { ops := #[⟨⟨0,0⟩,1,3,0,false⟩, ⟨⟨4,0⟩,2,0,0,false⟩, ⟨⟨4,2⟩,3,1,0,false⟩, ⟨⟨0,2⟩,0,2,0,true⟩,
             ⟨⟨1,2⟩,5,7,1,true⟩, ⟨⟨3,2⟩,6,4,1,false⟩, ⟨⟨3,4⟩,7,5,1,false⟩, ⟨⟨1,4⟩,4,6,1,false⟩],
    recs := #[{ pts := some 0 }, { pts := some 4 }] }
def exSegs : List HorzSeg := [{ leftOp := 3, rightOp := some 2, ltr := false }, { leftOp := 4, rightOp := some 5, ltr := true }]

/-- after `ConvertHorzSegsToJoins`: the duplicates 8 (of 4, behind it) and 9 (of 3, in front of it), the join (8, 9) -/
def exH2 : Heap :=
  { ops := #[⟨⟨0,0⟩,1,3,0,false⟩, ⟨⟨4,0⟩,2,0,0,false⟩, ⟨⟨4,2⟩,9,1,0,false⟩, ⟨⟨0,2⟩,0,9,0,true⟩,
             ⟨⟨1,2⟩,8,7,1,true⟩, ⟨⟨3,2⟩,6,8,1,false⟩, ⟨⟨3,4⟩,7,5,1,false⟩, ⟨⟨1,4⟩,4,6,1,false⟩,
             ⟨⟨1,2⟩,5,4,1,false⟩, ⟨⟨0,2⟩,3,2,0,false⟩],
    recs := #[{ pts := some 0 }, { pts := some 4 }] }

/-- the hypotheses of `convertHorzSegsToJoins_joins_on_scanline_partial` hold for `exH`, both trial `OutPt`s on the line y = 2 -/
theorem ex_convert : convertHorzSegsToJoins exH [{ leftOp := 2 }, { leftOp := 4 }] [] = .ok (exH2, exSegs, [⟨8, 9⟩]) := by
  have h1 : updateAll exH [{ leftOp := 2 }, { leftOp := 4 }] = .ok (exH1, exSegs, 2) := by rfl
  have h2 : sortSegs exH1 exSegs = .ok exSegs := by
    simp [sortSegs, keyed, exSegs, exH1, Heap.node, List.mergeSort, List.MergeSort.Internal.splitInTwo, segLe, segBefore, Gen.HorzSegSorter]
  unfold convertHorzSegsToJoins
  rw [h1]; simp only [h2]
  rfl

example : Rings exH2 [[0, 1, 2, 9, 3], [4, 8, 5, 6, 7]] := by decide
example : JoinFlat exH2 ⟨8, 9⟩ := by rw [← joinFlatB_iff]; decide
example : JoinsOK exH2 [⟨8, 9⟩] := by decide

/-- `ProcessHorzJoins` (paths mode): the two rings are merged at the join into `8 :: 9 :: 3 :: 0 :: 1 :: 2 ++ 5 :: 6 :: 7 :: 4`,
record 0 is emptied and owned by record 1 -/
def exH3 : Heap :=
  { ops := #[⟨⟨0,0⟩,1,3,0,false⟩, ⟨⟨4,0⟩,2,0,0,false⟩, ⟨⟨4,2⟩,5,1,0,false⟩, ⟨⟨0,2⟩,0,9,0,true⟩,
             ⟨⟨1,2⟩,8,7,1,true⟩, ⟨⟨3,2⟩,6,2,1,false⟩, ⟨⟨3,4⟩,7,5,1,false⟩, ⟨⟨1,4⟩,4,6,1,false⟩,
             ⟨⟨1,2⟩,9,4,1,false⟩, ⟨⟨0,2⟩,3,8,0,false⟩],
    recs := #[{ pts := none, owner := some 1 }, { pts := some 4 }] }

theorem ex_process : processHorzJoins (fun _ _ => false) false exH2 [⟨8, 9⟩] = .ok exH3 := by rfl

example : NonDegenerate (fun _ _ => false) false exH2 [⟨8, 9⟩] := ⟨by decide, fun _ _ => trivial⟩
example : Rings exH3 [[8, 9, 3, 0, 1, 2, 5, 6, 7, 4]] := by decide
example : RectEdges exH3 := by rw [← rectEdgesB_iff]; decide
example : WF exH3 := ⟨_, (by decide : Rings exH3 [[8, 9, 3, 0, 1, 2, 5, 6, 7, 4]]), recsOKB_sound (by decide)⟩
example : WF exH2 := ⟨_, (by decide : Rings exH2 [[0, 1, 2, 9, 3], [4, 8, 5, 6, 7]]), recsOKB_sound (by decide)⟩

/-- **Equal `y` of the two join ops alone does not suffice**: in this rectilinear heap (two unit squares) the join (0, 4) has
`op1.y = op2.y = 0`, but the surgery also connects `op2->prev = (5,3)` with `op1->next = (1,0)`: a diagonal edge.
Hence the neighbour condition in `JoinFlat`. -/
def exDiag : Heap :=
  { ops := #[⟨⟨0,0⟩,1,3,0,false⟩, ⟨⟨1,0⟩,2,0,0,false⟩, ⟨⟨1,1⟩,3,1,0,false⟩, ⟨⟨0,1⟩,0,2,0,false⟩,
             ⟨⟨5,0⟩,5,7,1,false⟩, ⟨⟨6,0⟩,6,4,1,false⟩, ⟨⟨6,3⟩,7,5,1,false⟩, ⟨⟨5,3⟩,4,6,1,false⟩],
    recs := #[{ pts := some 0 }, { pts := some 4 }] }

theorem flat_needs_neighbours :
    RectEdges exDiag ∧ SameY (ptOf exDiag) 0 4 ∧ ¬ JoinFlat exDiag ⟨0, 4⟩ ∧
    ∃ H', processJoin (fun _ _ => false) false exDiag ⟨0, 4⟩ = .ok H' ∧ ¬ RectEdges H' := by
  refine ⟨by rw [← rectEdgesB_iff]; decide, ⟨⟨0, 0⟩, ⟨5, 0⟩, by decide, by decide, rfl⟩, by rw [← joinFlatB_iff]; decide, ?_⟩
  refine ⟨_, rfl, ?_⟩
  rw [← rectEdgesB_iff]; decide

end Clipper.Props.C02Horz
