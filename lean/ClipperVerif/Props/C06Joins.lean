/-
C06 / C07 — the JOIN GEOMETRY of ClipperOffset (DESIGN §5 C06 item S): where the raw vertices produced by
`DoBevel / DoMiter / DoSquare / DoRound`, the concave join and `GetUnitNormal` lie.

All statements are about the polymorphic definitions of `Model/OffsetJoins.lean` instantiated at `α := Rat`
(`ratOps`): EXACT, "idealised real" arithmetic without rounding.  The functions the C++ takes from libm (`sqrt`,
`sin`, `cos`, `acos`, `atan2`) stay arbitrary (`m : Libm Rat`); a theorem that depends on one of their values states what
it needs about that value (`sqrt v * sqrt v = v`, `step_cos² + step_sin² = 1`).  The same definitions evaluated at
`Float` reproduce the compiled primitives bit for bit (harness/C06joins.cpp, `Driver/C06Joins.lean`); the gap between
`Rat` and `double` arithmetic is NOT covered by these theorems - it is covered by the spec-level judgements
(`JNCHK…` on the raw vertices, `OFFSETCHECK` / `STROKECHECK` on whole results).

Vocabulary (`Lemmas/OffsetJoins.lean`): `dist2 q p` squared distance of the raw vertex `q` from the path vertex `p`;
`along q p n = (q − p) · n`, so `along q p n = δ` says `q` lies on the offset line of an edge through `p` with unit
normal `n`; `IsUnit n : n.x² + n.y² = 1`.
-/
import ClipperVerif.Model.OffsetJoins
import ClipperVerif.Model.OffsetFrame
import ClipperVerif.Props.C06
import ClipperVerif.Lemmas.OffsetJoins
namespace Clipper.Props.C06Joins
open Clipper Clipper.OffsetJoins

/-! ### unit normals exist in `Rat` (non-vacuity of the `IsUnit` hypotheses) -/

example : IsUnit ⟨3 / 5, 4 / 5⟩ := by decide +kernel
example : IsUnit ⟨5 / 13, 12 / 13⟩ := by decide +kernel
example : IsUnit ⟨-4 / 5, 3 / 5⟩ ∧ IsUnit ⟨0, -1⟩ := by decide +kernel

/-! ### GetUnitNormal -/

/-- `GetUnitNormal(pt1, pt2)` for distinct points, when `sqrt` is exact on `dx² + dy²` and positive: the result is a
unit vector, perpendicular to the edge, equal to `(dy, −dx) / |edge|` (the right-hand normal in y-up coordinates). -/
theorem unitNormal_unit (m : Libm Rat) (pi : Rat) (p1 p2 : Pt) (hne : p1 ≠ p2)
    (hs : m.sqrt (((p2.x - p1.x : Int) : Rat) * ((p2.x - p1.x : Int) : Rat) + ((p2.y - p1.y : Int) : Rat) * ((p2.y - p1.y : Int) : Rat))
        * m.sqrt (((p2.x - p1.x : Int) : Rat) * ((p2.x - p1.x : Int) : Rat) + ((p2.y - p1.y : Int) : Rat) * ((p2.y - p1.y : Int) : Rat))
        = ((p2.x - p1.x : Int) : Rat) * ((p2.x - p1.x : Int) : Rat) + ((p2.y - p1.y : Int) : Rat) * ((p2.y - p1.y : Int) : Rat))
    (hpos : 0 < m.sqrt (((p2.x - p1.x : Int) : Rat) * ((p2.x - p1.x : Int) : Rat) + ((p2.y - p1.y : Int) : Rat) * ((p2.y - p1.y : Int) : Rat))) :
    let n := getUnitNormal (ratOps m pi) p1 p2
    let h := m.sqrt (((p2.x - p1.x : Int) : Rat) * ((p2.x - p1.x : Int) : Rat) + ((p2.y - p1.y : Int) : Rat) * ((p2.y - p1.y : Int) : Rat))
    IsUnit n ∧ n.x * ((p2.x - p1.x : Int) : Rat) + n.y * ((p2.y - p1.y : Int) : Rat) = 0
      ∧ n.x * h = ((p2.y - p1.y : Int) : Rat) ∧ n.y * h = -((p2.x - p1.x : Int) : Rat) := by
  intro n h
  have hn : n = ⟨((p2.y - p1.y : Int) : Rat) * (1 / h), -(((p2.x - p1.x : Int) : Rat) * (1 / h))⟩ := by
    simp only [n, getUnitNormal, hne, if_false, hypot, ratOps_ofInt, ratOps_sqrt, h]
  have hh : h ≠ 0 := by grind
  have hi : (1 / h) * h = 1 := by grind
  rw [hn]
  simp only [IsUnit]
  refine ⟨?_, ?_, ?_, ?_⟩ <;> grind

/-- non-vacuity: the edge (0,0) → (3,4) with `sqrt 25 = 5` gives the normal (4/5, −3/5) -/
example : getUnitNormal (ratOps ⟨fun _ => 5, id, id, id, fun a _ => a⟩ 3) ⟨0, 0⟩ ⟨3, 4⟩ = (⟨4 / 5, -3 / 5⟩ : V Rat) := by
  simp [getUnitNormal, hypot, ratOps]; decide +kernel

/-- … and the hypotheses of `unitNormal_unit` hold for it: `5 · 5 = 3² + 4²`, `0 < 5` -/
example : (5 : Rat) * 5 = (((3 : Int) - 0 : Int) : Rat) * (((3 : Int) - 0 : Int) : Rat) + (((4 : Int) - 0 : Int) : Rat) * (((4 : Int) - 0 : Int) : Rat)
    ∧ (0 : Rat) < 5 ∧ (⟨0, 0⟩ : Pt) ≠ ⟨3, 4⟩ := by decide +kernel

/-! ### the sine and cosine of `OffsetPoint` -/

/-- Lagrange's identity: for unit normals the `DotProduct` and the `CrossProduct` of `OffsetPoint` are the cosine and
sine of one angle. -/
theorem sin_cos_unit (nj nk : V Rat) (hj : IsUnit nj) (hk : IsUnit nk) :
    dotProduct nj nk * dotProduct nj nk + crossProduct nj nk * crossProduct nj nk = 1 := by
  simp only [IsUnit] at hj hk
  simp only [dotProduct, crossProduct]
  grind

/-- hence `|cos_a| ≤ 1` and `|sin_a| ≤ 1` -/
theorem cos_le_one (nj nk : V Rat) (hj : IsUnit nj) (hk : IsUnit nk) :
    (-1 ≤ dotProduct nj nk ∧ dotProduct nj nk ≤ 1) ∧ (-1 ≤ crossProduct nj nk ∧ crossProduct nj nk ≤ 1) := by
  have h := sin_cos_unit nj nk hj hk
  have h' : crossProduct nj nk * crossProduct nj nk + dotProduct nj nk * dotProduct nj nk = 1 := by grind
  exact ⟨abs_le_one_of_sq_add _ _ h, abs_le_one_of_sq_add _ _ h'⟩

/-- so the clamp of `sin_a` to [−1, 1] in `OffsetPoint` is the identity in exact arithmetic -/
theorem clamp_is_identity (m : Libm Rat) (pi : Rat) (nj nk : V Rat) (hj : IsUnit nj) (hk : IsUnit nk) :
    sinCos (ratOps m pi) nj nk = (crossProduct nj nk, dotProduct nj nk) := by
  have h := (cos_le_one nj nk hj hk).2
  have h1 : ¬ (1 : Rat) < crossProduct nj nk := by grind
  have h2 : ¬ crossProduct nj nk < -1 := by grind
  simp [sinCos, clampUnit, h1, h2]

example : sinCos (ratOps ⟨id, id, id, id, fun a _ => a⟩ 3) ⟨3 / 5, 4 / 5⟩ ⟨5 / 13, 12 / 13⟩ = ((-16 / 65 : Rat), (63 / 65 : Rat)) := by
  simp [sinCos, clampUnit, crossProduct, dotProduct, ratOps]; decide +kernel

/-- `sin_a` is the turn of the path at the vertex: when the normals are `(dy, −dx) · (1/|edge|)` (what `GetUnitNormal`
computes, `ik`, `ij` the positive inverse lengths), `CrossProduct(norms[j], norms[k])` is the cross product of the
incoming and outgoing edge directions scaled by a positive number, so `sin_a · δ < 0` iff the path turns towards the
side it is offset to (a concave corner of the offset region). -/
theorem sin_is_turn (dxk dyk dxj dyj ik ij gd : Rat) (hik : 0 < ik) (hij : 0 < ij) :
    let nk : V Rat := ⟨dyk * ik, -(dxk * ik)⟩
    let nj : V Rat := ⟨dyj * ij, -(dxj * ij)⟩
    crossProduct nj nk = (dxk * dyj - dyk * dxj) * (ik * ij)
      ∧ (crossProduct nj nk * gd < 0 ↔ (dxk * dyj - dyk * dxj) * gd < 0) := by
  intro nk nj
  have h1 : crossProduct nj nk = (dxk * dyj - dyk * dxj) * (ik * ij) := by
    simp only [crossProduct, nk, nj]; grind
  refine ⟨h1, ?_⟩
  have hp : 0 < ik * ij := Rat.mul_pos hik hij
  rw [h1]
  have e : (dxk * dyj - dyk * dxj) * (ik * ij) * gd = ((dxk * dyj - dyk * dxj) * gd) * (ik * ij) := by grind
  rw [e]
  constructor
  · intro h
    apply Rat.not_le.mp
    intro hge
    have := Rat.mul_nonneg hge (Rat.le_of_lt hp)
    grind
  · intro h
    have h' : 0 < -((dxk * dyj - dyk * dxj) * gd) := by grind
    have := Rat.mul_pos h' hp
    grind

/-- inverse lengths 1/5 and 1/13 of the edges (3,4) and (5,12) are positive -/
example : (0 : Rat) < 1 / 5 ∧ (0 : Rat) < 1 / 13 := by decide +kernel

/-- Branch selection of the polymorphic `OffsetPoint` at `Rat` is the frame model's `branchOf` (Model/OffsetFrame.lean;
the theorems `concave_branch_iff`, `join_branch`, `miter_branch_iff` of Props/C06.lean apply to it). -/
def toBranch : Join → OffsetFrame.Branch
  | .copy => .copy | .concave => .concave | .miter => .miter | .square => .square | .round => .round | .bevel => .bevel

theorem joinOf_eq_branchOf (m : Libm Rat) (pi : Rat) (jt : JoinType) (tl gd s c : Rat) :
    toBranch (joinOf (ratOps m pi) jt tl gd s c) = OffsetFrame.branchOf jt tl gd s c false := by
  have e : OffsetFrame.rabs gd = rabs gd := rfl
  have e2 : (-(999 / 1000) : Rat) = -999 / 1000 := by decide +kernel
  unfold joinOf OffsetFrame.branchOf
  simp only [ratOps_le, ratOps_lt, ratOps_abs, ratOps_fpTol, ratOps_c0999, OffsetFrame.fpTol, e, e2,
    Bool.false_eq_true, if_false, gt_iff_lt]
  by_cases h1 : rabs gd ≤ 1 / 1000000000000
  · simp [h1, toBranch]
  · by_cases h2 : -999 / 1000 < c <;> by_cases h3 : s * gd < 0 <;> by_cases h4 : 999 / 1000 < c <;>
      by_cases h5 : tl - 1 < c <;> cases jt <;> simp [h1, h2, h3, h4, h5, toBranch]

/-- `OffsetPoint` builds the concave three-point join exactly when delta is significant, the turn is not within
about 2.5 degrees of a reversal and `sin_a · δ < 0`, i.e. (by `sin_is_turn`) the path turns towards the offset side. -/
theorem concave_iff_negative_turn (m : Libm Rat) (pi : Rat) (jt : JoinType) (tl gd s c : Rat) :
    joinOf (ratOps m pi) jt tl gd s c = .concave ↔ (¬ rabs gd ≤ 1 / 1000000000000 ∧ c > -999 / 1000 ∧ s * gd < 0) := by
  have h := joinOf_eq_branchOf m pi jt tl gd s c
  have h2 := Props.C06.concave_branch_iff jt tl gd s c false
  constructor
  · intro hj
    rw [hj] at h
    have := h2.mp h.symm
    exact ⟨this.2.1, this.2.2.1, this.2.2.2⟩
  · intro hc
    have := h2.mpr ⟨rfl, hc.1, hc.2.1, hc.2.2⟩
    rw [← h] at this
    cases hj : joinOf (ratOps m pi) jt tl gd s c <;> simp_all [toBranch]

example : joinOf (ratOps ⟨id, id, id, id, fun a _ => a⟩ 3) .miter 1 10 (-1 / 2) (1 / 2) = .concave := by decide +kernel

/-- the three points of the concave join: the ends of the two offset edges and the vertex itself -/
theorem concave_points (m : Libm Rat) (pi : Rat) (pj : Pt) (nj nk : V Rat) (gd : Rat) (hj : IsUnit nj) (hk : IsUnit nk) :
    ∃ q1 q2, concaveJoin (ratOps m pi) pj nj nk gd = [outV q1, .pt pj, outV q2]
      ∧ dist2 q1 pj = gd * gd ∧ along q1 pj nk = gd ∧ dist2 q2 pj = gd * gd ∧ along q2 pj nj = gd := by
  simp only [IsUnit] at hj hk
  refine ⟨⟨(pj.x : Rat) + nk.x * gd, (pj.y : Rat) + nk.y * gd⟩, ⟨(pj.x : Rat) + nj.x * gd, (pj.y : Rat) + nj.y * gd⟩, ?_, ?_, ?_, ?_, ?_⟩
  · simp [concaveJoin, getPerpendic, outV]
  all_goals simp only [dist2, along]
  all_goals grind

/-! ### DoBevel -/

/-- `DoBevel` at a join (`j ≠ k`): the two points are `p + δ n_k` and `p + δ n_j`; both are at distance `|δ|` from
`path[j]`, the first lies on the offset line of edge `k`, the second on that of edge `j`. -/
theorem bevel_points (m : Libm Rat) (pi : Rat) (pj : Pt) (nj nk : V Rat) (gd : Rat) (hj : IsUnit nj) (hk : IsUnit nk) :
    ∃ q1 q2, doBevel (ratOps m pi) pj nj nk false gd = [outV q1, outV q2]
      ∧ dist2 q1 pj = gd * gd ∧ dist2 q2 pj = gd * gd ∧ along q1 pj nk = gd ∧ along q2 pj nj = gd := by
  simp only [IsUnit] at hj hk
  refine ⟨⟨(pj.x : Rat) + gd * nk.x, (pj.y : Rat) + gd * nk.y⟩, ⟨(pj.x : Rat) + gd * nj.x, (pj.y : Rat) + gd * nj.y⟩, ?_, ?_, ?_, ?_, ?_⟩
  · simp [doBevel, outV]
  all_goals simp only [dist2, along]
  all_goals grind

/-- `DoBevel` at an open-path end (`j = k`, butt cap): the two points are `p − |δ| n` and `p + |δ| n`: at distance
`|δ|` on either side of the end point, on the line through it perpendicular to the last edge (flat cut). -/
theorem bevel_cap_points (m : Libm Rat) (pi : Rat) (pj : Pt) (n : V Rat) (gd : Rat) (hn : IsUnit n) :
    ∃ q1 q2, doBevel (ratOps m pi) pj n n true gd = [outV q1, outV q2]
      ∧ dist2 q1 pj = gd * gd ∧ dist2 q2 pj = gd * gd ∧ along q1 pj n = -rabs gd ∧ along q2 pj n = rabs gd
      ∧ along q1 pj ⟨n.y, -n.x⟩ = 0 ∧ along q2 pj ⟨n.y, -n.x⟩ = 0 := by
  simp only [IsUnit] at hn
  have ha := rabs_mul_self gd
  refine ⟨⟨(pj.x : Rat) - rabs gd * n.x, (pj.y : Rat) - rabs gd * n.y⟩, ⟨(pj.x : Rat) + rabs gd * n.x, (pj.y : Rat) + rabs gd * n.y⟩, ?_, ?_, ?_, ?_, ?_, ?_, ?_⟩
  · simp [doBevel, outV]
  all_goals simp only [dist2, along]
  all_goals grind

/-- Every point of the bevel segment `pt1 – pt2` is at squared distance between `δ² (1 + cos_a) / 2` and `δ²` from
`path[j]`: a bevel (and the `cos_a > 0.999` shortcut) stays inside the round join and cuts it by at most
`|δ| (1 − sqrt((1 + cos_a) / 2))`; for `cos_a > 0.999` that is less than `0.00025 |δ|`. -/
theorem bevel_chord_within_delta (m : Libm Rat) (pi : Rat) (pj : Pt) (nj nk : V Rat) (gd t : Rat)
    (hj : IsUnit nj) (hk : IsUnit nk) (h0 : 0 ≤ t) (h1 : t ≤ 1) :
    ∃ q1 q2, doBevel (ratOps m pi) pj nj nk false gd = [outV q1, outV q2]
      ∧ gd * gd * (1 + dotProduct nj nk) / 2 ≤ dist2 (lerp q1 q2 t) pj ∧ dist2 (lerp q1 q2 t) pj ≤ gd * gd := by
  have hc := (cos_le_one nj nk hj hk).1.2
  simp only [IsUnit] at hj hk
  refine ⟨⟨(pj.x : Rat) + gd * nk.x, (pj.y : Rat) + gd * nk.y⟩, ⟨(pj.x : Rat) + gd * nj.x, (pj.y : Rat) + gd * nj.y⟩, ?_, ?_⟩
  · simp [doBevel, outV]
  have hb := chord_bounds (gd * nk.x) (gd * nk.y) (gd * nj.x) (gd * nj.y) (gd * gd) (dotProduct nj nk) t
    (by grind) (by grind) (by simp only [dotProduct]; grind) hc (sq_nonneg gd) h0 h1
  simp only [dist2, lerp]
  simp only at hb
  constructor
  · have := hb.1; grind
  · have := hb.2; grind

example : (0 : Rat) ≤ 1 / 2 ∧ (1 / 2 : Rat) ≤ 1 := by decide +kernel

/-! ### DoMiter -/

/-- The `DoMiter` point `P = p + (n_k + n_j) · δ / (1 + cos_a)` lies on BOTH offset lines when `cos_a = n_j · n_k`
(it is their intersection), for `1 + cos_a ≠ 0`. -/
theorem miter_on_both_offset_lines (m : Libm Rat) (pi : Rat) (pj : Pt) (nj nk : V Rat) (gd : Rat)
    (hj : IsUnit nj) (hk : IsUnit nk) (hc : dotProduct nj nk + 1 ≠ 0) :
    ∃ P, doMiter (ratOps m pi) pj nj nk (dotProduct nj nk) gd = [outV P] ∧ along P pj nk = gd ∧ along P pj nj = gd := by
  simp only [IsUnit] at hj hk
  refine ⟨⟨(pj.x : Rat) + (nk.x + nj.x) * (gd / (dotProduct nj nk + 1)), (pj.y : Rat) + (nk.y + nj.y) * (gd / (dotProduct nj nk + 1))⟩, ?_, ?_, ?_⟩
  · simp [doMiter, outV]
  all_goals
    have hq : gd / (dotProduct nj nk + 1) * (dotProduct nj nk + 1) = gd := by grind
    generalize gd / (dotProduct nj nk + 1) = q at hq
    simp only [dotProduct] at hq
    simp only [along]
    grind

/-- The miter length: `|P − p|² (1 + cos_a) = 2 δ²`, i.e. `|P − p| = |δ| / cos(a/2)`. -/
theorem miter_length (m : Libm Rat) (pi : Rat) (pj : Pt) (nj nk : V Rat) (gd : Rat)
    (hj : IsUnit nj) (hk : IsUnit nk) (hc : dotProduct nj nk + 1 ≠ 0) :
    ∃ P, doMiter (ratOps m pi) pj nj nk (dotProduct nj nk) gd = [outV P]
      ∧ dist2 P pj * (1 + dotProduct nj nk) = 2 * (gd * gd) := by
  simp only [IsUnit] at hj hk
  refine ⟨⟨(pj.x : Rat) + (nk.x + nj.x) * (gd / (dotProduct nj nk + 1)), (pj.y : Rat) + (nk.y + nj.y) * (gd / (dotProduct nj nk + 1))⟩, ?_, ?_⟩
  · simp [doMiter, outV]
  have hq : gd / (dotProduct nj nk + 1) * (dotProduct nj nk + 1) = gd := by grind
  generalize gd / (dotProduct nj nk + 1) = q at hq
  simp only [dotProduct] at hq ⊢
  simp only [dist2]
  grind

example : dotProduct (⟨3 / 5, 4 / 5⟩ : V Rat) ⟨5 / 13, 12 / 13⟩ + 1 ≠ 0 := by decide +kernel

/-- What the code's test `cos_a > temp_lim_ − 1` with `temp_lim_ = 2 / ml²` (`ml = miter_limit_ > 1`) says about the
miter point: for `1 + cos_a > 0` and `δ ≠ 0` it holds exactly when `|P − p|² < (ml · δ)²`, i.e. when the miter length is
strictly within the limit. -/
theorem miter_test_iff_length (m : Libm Rat) (pi : Rat) (pj : Pt) (nj nk : V Rat) (gd ml : Rat)
    (hj : IsUnit nj) (hk : IsUnit nk) (hc : 0 < 1 + dotProduct nj nk) (hml : 1 < ml) (hgd : gd ≠ 0) :
    ∃ P, doMiter (ratOps m pi) pj nj nk (dotProduct nj nk) gd = [outV P]
      ∧ ((ratOps m pi).lt (tempLimOf (ratOps m pi) ml - 1) (dotProduct nj nk) = true ↔ dist2 P pj < (ml * gd) * (ml * gd)) := by
  obtain ⟨P, hP, hlen⟩ := miter_length m pi pj nj nk gd hj hk (by grind)
  refine ⟨P, hP, ?_⟩
  have hml0 : 0 < ml := by grind
  have hnle : ¬ ml ≤ 1 := by grind
  have hg2 : 0 < gd * gd := by
    have := sq_nonneg gd
    have hne : gd * gd ≠ 0 := by
      intro h0
      rcases Rat.mul_eq_zero.mp h0 with h | h <;> exact hgd h
    grind
  simp only [tempLimOf, ratOps_le, ratOps_lt, decide_eq_true_eq, hnle, decide_false, Bool.false_eq_true, if_false]
  have hkey := Props.C06.miter_iff_within_limit (dotProduct nj nk) ml hc hml0
  have hkey' : 2 / (ml * ml) - 1 < dotProduct nj nk ↔ 2 / (1 + dotProduct nj nk) < ml * ml := hkey
  rw [hkey', Rat.div_lt_iff hc]
  -- dist2 = 2 gd² / (1 + c)
  constructor
  · intro h
    -- 2 < ml² (1+c)  ⇒  dist2 (1+c) = 2 gd² < ml² gd² (1+c)
    have h1 : 0 < (ml * ml * (1 + dotProduct nj nk) - 2) * (gd * gd) := Rat.mul_pos (by grind) hg2
    have h2 : 0 < ((ml * gd) * (ml * gd) - dist2 P pj) * (1 + dotProduct nj nk) := by grind
    apply Rat.not_le.mp
    intro hle
    have h3 : 0 ≤ (dist2 P pj - (ml * gd) * (ml * gd)) * (1 + dotProduct nj nk) :=
      Rat.mul_nonneg (by grind) (Rat.le_of_lt hc)
    grind
  · intro h
    have h1 : 0 < ((ml * gd) * (ml * gd) - dist2 P pj) * (1 + dotProduct nj nk) := Rat.mul_pos (by grind) hc
    have h2 : 0 < (ml * ml * (1 + dotProduct nj nk) - 2) * (gd * gd) := by grind
    apply Rat.not_le.mp
    intro hle
    have h3 : 0 ≤ (2 - ml * ml * (1 + dotProduct nj nk)) * (gd * gd) :=
      Rat.mul_nonneg (by grind) (Rat.le_of_lt hg2)
    grind

example : (0 : Rat) < 1 + dotProduct (⟨3 / 5, 4 / 5⟩ : V Rat) ⟨5 / 13, 12 / 13⟩ ∧ (1 : Rat) < 2 ∧ (10 : Rat) ≠ 0 := by decide +kernel

/-! ### DoSquare -/

/-- `GetAvgUnitVector(vec1, vec2)` when `sqrt` is exact on the squared length of the sum and the sum is not
`AlmostZero`: the result is the sum scaled by `1 / |sum|`, a unit vector. -/
theorem avgUnit_unit_parallel (m : Libm Rat) (pi : Rat) (v1 v2 : V Rat)
    (hs : m.sqrt ((v1.x + v2.x) * (v1.x + v2.x) + (v1.y + v2.y) * (v1.y + v2.y)) * m.sqrt ((v1.x + v2.x) * (v1.x + v2.x) + (v1.y + v2.y) * (v1.y + v2.y))
        = (v1.x + v2.x) * (v1.x + v2.x) + (v1.y + v2.y) * (v1.y + v2.y))
    (hnz : ¬ rabs (m.sqrt ((v1.x + v2.x) * (v1.x + v2.x) + (v1.y + v2.y) * (v1.y + v2.y))) < 1 / 1000) :
    let h := m.sqrt ((v1.x + v2.x) * (v1.x + v2.x) + (v1.y + v2.y) * (v1.y + v2.y))
    let vec := getAvgUnitVector (ratOps m pi) v1 v2
    vec = ⟨(v1.x + v2.x) * (1 / h), (v1.y + v2.y) * (1 / h)⟩ ∧ IsUnit vec := by
  intro h vec
  have hv : vec = ⟨(v1.x + v2.x) * (1 / h), (v1.y + v2.y) * (1 / h)⟩ := by
    simp only [vec, getAvgUnitVector, normalizeVector, almostZero, hypot, ratOps_sqrt, ratOps_abs, ratOps_lt, ratOps_c0001,
      hnz, decide_false, Bool.false_eq_true, if_false, h]
  refine ⟨hv, ?_⟩
  have hh : h ≠ 0 := by
    intro h0
    apply hnz
    simp only [h] at h0
    rw [h0]; decide +kernel
  have hi : (1 / h) * h = 1 := by grind
  rw [hv]
  simp only [IsUnit]
  have hs' : h * h = (v1.x + v2.x) * (v1.x + v2.x) + (v1.y + v2.y) * (v1.y + v2.y) := hs
  generalize (1 / h) = ih at hi
  grind

/-- `DoSquare` is reached only with `cos_a ≤ 0.999` (the almost-straight shortcut comes first); then the sum vector of
`GetAvgUnitVector` has squared length `2 − 2 cos_a ≥ 0.002`, so `NormalizeVector` never takes its `AlmostZero` exit. -/
theorem square_vec_not_degenerate (nj nk : V Rat) (h : Rat) (hj : IsUnit nj) (hk : IsUnit nk)
    (hc : dotProduct nj nk ≤ 999 / 1000) (h0 : 0 ≤ h)
    (hs : h * h = (-nk.y + nj.y) * (-nk.y + nj.y) + (nk.x + -nj.x) * (nk.x + -nj.x)) :
    ¬ rabs h < 1 / 1000 := by
  simp only [IsUnit] at hj hk
  simp only [dotProduct] at hc
  intro hlt
  have hr : rabs h = h := by unfold rabs; split <;> grind
  rw [hr] at hlt
  have := mul_self_lt_mul_self h0 hlt
  grind

/-- `DoSquare`, any branch of `GetSegmentIntersectPt` (parallel, clamped or not), any unit `vec`: both points lie on the
square-off line `{x : (x − p) · vec = |δ|}`, they are mirror images of each other through `ptQ = p + |δ| vec`, and
their squared distance from `path[j]` is between `δ²` and `2 δ²` (a squared join stays between the round joins for
`|δ|` and `sqrt 2 · |δ|`). -/
theorem square_points (m : Libm Rat) (pi : Rat) (vec : V Rat) (pj pk : Pt) (nk : V Rat) (cap : Bool) (gd : Rat)
    (hv : IsUnit vec) :
    ∃ q1 q2, doSquareWith (ratOps m pi) vec pj pk nk cap gd = [outV q1, outV q2]
      ∧ along q1 pj vec = rabs gd ∧ along q2 pj vec = rabs gd
      ∧ q2 = reflectPoint q1 (sqQ vec pj gd) ∧ q1 = reflectPoint q2 (sqQ vec pj gd)
      ∧ gd * gd ≤ dist2 q1 pj ∧ dist2 q1 pj ≤ 2 * (gd * gd)
      ∧ gd * gd ≤ dist2 q2 pj ∧ dist2 q2 pj ≤ 2 * (gd * gd) := by
  simp only [IsUnit] at hv
  obtain ⟨t, ht0, ht1, hr⟩ := sqPt_in_segment m pi vec pj pk nk cap gd
  have ha := rabs_mul_self gd
  have hg := sq_nonneg gd
  -- (1 - 2t)² ≤ 1
  have h4 : 0 ≤ t * (1 - t) := Rat.mul_nonneg ht0 (by grind)
  have h5 := Rat.mul_nonneg hg h4
  have h6 := Rat.mul_nonneg hg (sq_nonneg (1 - 2 * t))
  rw [doSquareWith_eq]
  have facts : ∀ r, r = lerp (sqP1 vec pj gd) (sqP2 vec pj gd) t →
      along r pj vec = rabs gd ∧ along (reflectPoint r (sqQ vec pj gd)) pj vec = rabs gd
      ∧ gd * gd ≤ dist2 r pj ∧ dist2 r pj ≤ 2 * (gd * gd)
      ∧ gd * gd ≤ dist2 (reflectPoint r (sqQ vec pj gd)) pj ∧ dist2 (reflectPoint r (sqQ vec pj gd)) pj ≤ 2 * (gd * gd)
      ∧ reflectPoint (reflectPoint r (sqQ vec pj gd)) (sqQ vec pj gd) = r := by
    intro r hr
    subst hr
    have e1 : dist2 (lerp (sqP1 vec pj gd) (sqP2 vec pj gd) t) pj = gd * gd + (gd * gd) * ((1 - 2 * t) * (1 - 2 * t)) := by
      simp only [dist2, lerp, sqP1, sqP2, sqQ, translatePoint]; grind
    have e2 : dist2 (reflectPoint (lerp (sqP1 vec pj gd) (sqP2 vec pj gd) t) (sqQ vec pj gd)) pj = gd * gd + (gd * gd) * ((1 - 2 * t) * (1 - 2 * t)) := by
      simp only [dist2, lerp, sqP1, sqP2, sqQ, translatePoint, reflectPoint]; grind
    refine ⟨?_, ?_, ?_, ?_, ?_, ?_, ?_⟩
    · simp only [along, lerp, sqP1, sqP2, sqQ, translatePoint]; grind
    · simp only [along, lerp, sqP1, sqP2, sqQ, translatePoint, reflectPoint]; grind
    · rw [e1]; grind
    · rw [e1]; grind
    · rw [e2]; grind
    · rw [e2]; grind
    · apply V.ext' <;> simp only [reflectPoint] <;> grind
  obtain ⟨f1, f2, f3, f4, f5, f6, f7⟩ := facts _ hr
  cases cap
  · exact ⟨_, _, rfl, f1, f2, rfl, f7.symm, f3, f4, f5, f6⟩
  · exact ⟨_, _, rfl, f2, f1, f7.symm, rfl, f5, f6, f3, f4⟩

/-- At a join (`j ≠ k`), when `GetSegmentIntersectPt` neither finds the lines parallel nor clamps (`det ≠ 0`,
`0 < t < 1`: the exact line intersection), the first `DoSquare` point lies on the offset line of edge `k`.
Needs: `n_k` is a unit vector perpendicular to the edge `path[k] → path[j]`. -/
theorem square_first_on_offset_line_k (m : Libm Rat) (pi : Rat) (vec : V Rat) (pj pk : Pt) (nk : V Rat) (gd : Rat)
    (hk : IsUnit nk) (hperp : ((pj.x : Rat) - pk.x) * nk.x + ((pj.y : Rat) - pk.y) * nk.y = 0)
    (hdet : segDet (sqP1 vec pj gd) (sqP2 vec pj gd) (sqP3 pk nk gd) (sqP3 pj nk gd) ≠ 0)
    (h0 : 0 < segT (sqP1 vec pj gd) (sqP2 vec pj gd) (sqP3 pk nk gd) (sqP3 pj nk gd))
    (h1 : segT (sqP1 vec pj gd) (sqP2 vec pj gd) (sqP3 pk nk gd) (sqP3 pj nk gd) < 1)
    (q1 q2 : V Rat) (hq : doSquareWith (ratOps m pi) vec pj pk nk false gd = [outV q1, outV q2]) :
    along q1 pj nk = gd := by
  rw [doSquareWith_eq] at hq
  simp only [Bool.false_eq_true, if_false, outV, List.cons.injEq, Out.raw.injEq, and_true] at hq
  obtain ⟨⟨hx1, hy1⟩, _⟩ := hq
  simp only [IsUnit] at hk
  have hl := (segint_on_line2 m pi (sqP1 vec pj gd) (sqP2 vec pj gd) (sqP3 pk nk gd) (sqP3 pj nk gd) (sqQ vec pj gd) hdet h0 h1).2
  have hP : sqPt m pi vec pj pk nk false gd = getSegmentIntersectPtD (ratOps m pi) (sqP1 vec pj gd) (sqP2 vec pj gd) (sqP3 pk nk gd) (sqP3 pj nk gd) (sqQ vec pj gd) := rfl
  rw [← hP] at hl
  simp only [along]
  rw [← hx1, ← hy1]
  generalize sqPt m pi vec pj pk nk false gd = r at hl
  -- e = pj − pk ≠ 0 because det ≠ 0
  have hdet' := hdet
  simp only [segDet, sqP3] at hdet'
  simp only [sqP3] at hl
  -- W = (r − pt4) · n_k ; e.x W = 0 and e.y W = 0
  have hx : ((pj.x : Rat) - pk.x) * ((r.x - ((pj.x : Rat) + nk.x * gd)) * nk.x + (r.y - ((pj.y : Rat) + nk.y * gd)) * nk.y) = 0 := by grind
  have hy : ((pj.y : Rat) - pk.y) * ((r.x - ((pj.x : Rat) + nk.x * gd)) * nk.x + (r.y - ((pj.y : Rat) + nk.y * gd)) * nk.y) = 0 := by grind
  have hW : (r.x - ((pj.x : Rat) + nk.x * gd)) * nk.x + (r.y - ((pj.y : Rat) + nk.y * gd)) * nk.y = 0 := by
    rcases Rat.mul_eq_zero.mp hx with hx0 | hW
    · rcases Rat.mul_eq_zero.mp hy with hy0 | hW
      · exfalso; apply hdet'; grind
      · exact hW
    · exact hW
  grind

/-- The exact-intersection hypotheses of `square_first_on_offset_line_k` hold at EVERY strictly convex corner
(`sin_a · δ > 0`, `cos_a < 1`) when `vec` is a positive multiple of the sum that `GetAvgUnitVector` normalises, is a unit
vector, and the edge `path[k] → path[j]` has direction `(−n_k.y, n_k.x)` (what `GetUnitNormal` produces): then
`det = 2 δ L (vec × n_k) ≠ 0` and `t = 1/2 + (±vec·n_k − 1) / (2 vec × n_k)` lies strictly between 0 and 1. -/
theorem square_inner_of_convex (vec : V Rat) (pj pk : Pt) (nj nk : V Rat) (gd lam L : Rat)
    (hj : IsUnit nj) (hk : IsUnit nk) (hv : IsUnit vec)
    (hvx : vec.x = lam * (-nk.y + nj.y)) (hvy : vec.y = lam * (nk.x + -nj.x)) (hlam : 0 < lam)
    (hL : 0 < L) (hex : (pj.x : Rat) - pk.x = L * -nk.y) (hey : (pj.y : Rat) - pk.y = L * nk.x)
    (hc : dotProduct nj nk < 1) (hconvex : 0 < crossProduct nj nk * gd) :
    segDet (sqP1 vec pj gd) (sqP2 vec pj gd) (sqP3 pk nk gd) (sqP3 pj nk gd) ≠ 0
      ∧ 0 < segT (sqP1 vec pj gd) (sqP2 vec pj gd) (sqP3 pk nk gd) (sqP3 pj nk gd)
      ∧ segT (sqP1 vec pj gd) (sqP2 vec pj gd) (sqP3 pk nk gd) (sqP3 pj nk gd) < 1 := by
  simp only [IsUnit] at hj hk hv
  simp only [dotProduct] at hc
  simp only [crossProduct] at hconvex
  -- w and u0
  have hw : vec.y * nk.x - vec.x * nk.y = lam * (1 - (nj.x * nk.x + nj.y * nk.y)) := by grind
  have hwpos : 0 < vec.y * nk.x - vec.x * nk.y := by
    rw [hw]; exact Rat.mul_pos hlam (by grind)
  have hu : vec.x * nk.x + vec.y * nk.y = lam * (nj.y * nk.x - nk.y * nj.x) := by grind
  have hlag : (vec.x * nk.x + vec.y * nk.y) * (vec.x * nk.x + vec.y * nk.y)
      + (vec.y * nk.x - vec.x * nk.y) * (vec.y * nk.x - vec.x * nk.y) = 1 := by grind
  generalize hwd : vec.y * nk.x - vec.x * nk.y = w at *
  generalize hud : vec.x * nk.x + vec.y * nk.y = u0 at *
  have hD : segDet (sqP1 vec pj gd) (sqP2 vec pj gd) (sqP3 pk nk gd) (sqP3 pj nk gd) = 2 * gd * L * w := by
    simp only [segDet, sqP1, sqP2, sqP3, sqQ, translatePoint]; grind
  have hN : ((sqP1 vec pj gd).x - (sqP3 pk nk gd).x) * ((sqP3 pj nk gd).y - (sqP3 pk nk gd).y)
      - ((sqP1 vec pj gd).y - (sqP3 pk nk gd).y) * ((sqP3 pj nk gd).x - (sqP3 pk nk gd).x)
      = L * (rabs gd * u0 + gd * w - gd) := by
    simp only [sqP1, sqP3, sqQ, translatePoint]; grind
  have hgd : gd ≠ 0 := by intro h; rw [h] at hconvex; grind
  have hLne : L ≠ 0 := by grind
  have hwne : w ≠ 0 := by grind
  have hDne : 2 * gd * L * w ≠ 0 := mul_ne_zero' (mul_ne_zero' (mul_ne_zero' (by decide +kernel) hgd) hLne) hwne
  by_cases hneg : gd < 0
  · -- gd < 0
    have hs : nj.y * nk.x - nk.y * nj.x < 0 := by
      apply Rat.not_le.mp; intro hge
      have := Rat.mul_nonneg hge (by grind : (0:Rat) ≤ -gd)
      grind
    have hU : 0 < -u0 := by
      have := Rat.mul_pos hlam (by grind : (0:Rat) < -(nj.y * nk.x - nk.y * nj.x))
      grind
    have hr : rabs gd = -gd := by unfold rabs; simp [hneg]
    have ht : segT (sqP1 vec pj gd) (sqP2 vec pj gd) (sqP3 pk nk gd) (sqP3 pj nk gd) = (-u0 + w - 1) / (2 * w) := by
      unfold segT; rw [hN, hD, hr]
      have e : L * (-gd * u0 + gd * w - gd) = L * (gd * (-u0 + w - 1)) := by grind
      rw [e]; exact div_cancel3 L gd w _ hLne hgd hwne
    have := tform (-u0) w hU hwpos (by grind)
    refine ⟨by rw [hD]; grind, ?_, ?_⟩ <;> rw [ht]
    · exact this.1
    · exact this.2
  · have hpos : 0 < gd := by grind
    have hs : 0 < nj.y * nk.x - nk.y * nj.x := by
      apply Rat.not_le.mp; intro hle
      have := Rat.mul_nonneg (by grind : (0:Rat) ≤ -(nj.y * nk.x - nk.y * nj.x)) (Rat.le_of_lt hpos)
      grind
    have hU : 0 < u0 := by
      have := Rat.mul_pos hlam hs
      grind
    have hr : rabs gd = gd := by unfold rabs; split <;> grind
    have ht : segT (sqP1 vec pj gd) (sqP2 vec pj gd) (sqP3 pk nk gd) (sqP3 pj nk gd) = (u0 + w - 1) / (2 * w) := by
      unfold segT; rw [hN, hD, hr]
      have e : L * (gd * u0 + gd * w - gd) = L * (gd * (u0 + w - 1)) := by grind
      rw [e]; exact div_cancel3 L gd w _ hLne hgd hwne
    have := tform u0 w hU hwpos (by grind)
    refine ⟨by rw [hD]; grind, ?_, ?_⟩ <;> rw [ht]
    · exact this.1
    · exact this.2

/-- non-vacuity of the exact-intersection hypotheses: the corner (−10,0) → (0,0) → (7,24), `vec = (3/5, −4/5)`, δ = 5
(`t = 1/3`); the other hypotheses of `square_first_on_offset_line_k` / `square_inner_of_convex` /
`square_second_on_offset_line_j` (with `lam = 5/6`, `L = 10`) are listed in the example after `square_join_points`. -/
example :
    segDet (sqP1 ⟨3 / 5, -4 / 5⟩ ⟨0, 0⟩ 5) (sqP2 ⟨3 / 5, -4 / 5⟩ ⟨0, 0⟩ 5) (sqP3 ⟨-10, 0⟩ ⟨0, -1⟩ 5) (sqP3 ⟨0, 0⟩ ⟨0, -1⟩ 5) ≠ 0
      ∧ segT (sqP1 ⟨3 / 5, -4 / 5⟩ ⟨0, 0⟩ 5) (sqP2 ⟨3 / 5, -4 / 5⟩ ⟨0, 0⟩ 5) (sqP3 ⟨-10, 0⟩ ⟨0, -1⟩ 5) (sqP3 ⟨0, 0⟩ ⟨0, -1⟩ 5) = 1 / 3
      ∧ (3 / 5 : Rat) = 5 / 6 * (-(-1 : Rat) + -7 / 25) ∧ (-4 / 5 : Rat) = 5 / 6 * ((0 : Rat) + -(24 / 25)) ∧ (0 : Rat) < 5 / 6 := by
  decide +kernel

/-- If moreover `vec` is parallel to the sum that `GetAvgUnitVector` normalises (`vec = λ ((−n_k.y, n_k.x) + (n_j.y, −n_j.x))`,
i.e. it bisects the corner), the second point - the mirror image - lies on the offset line of edge `j`. -/
theorem square_second_on_offset_line_j (m : Libm Rat) (pi : Rat) (vec : V Rat) (pj pk : Pt) (nj nk : V Rat) (gd lam : Rat)
    (hj : IsUnit nj) (hk : IsUnit nk)
    (hvx : vec.x = lam * (-nk.y + nj.y)) (hvy : vec.y = lam * (nk.x + -nj.x))
    (q1 q2 : V Rat) (hq : doSquareWith (ratOps m pi) vec pj pk nk false gd = [outV q1, outV q2])
    (h1 : along q1 pj nk = gd) :
    along q2 pj nj = gd := by
  simp only [IsUnit] at hj hk
  obtain ⟨t, _, _, hr⟩ := sqPt_in_segment m pi vec pj pk nk false gd
  rw [doSquareWith_eq] at hq
  simp only [Bool.false_eq_true, if_false, outV, List.cons.injEq, Out.raw.injEq, and_true] at hq
  obtain ⟨⟨hx1, hy1⟩, hx2, hy2⟩ := hq
  rw [hr] at hx1 hy1 hx2 hy2
  simp only [along] at h1 ⊢
  rw [← hx1, ← hy1] at h1
  rw [← hx2, ← hy2]
  simp only [lerp, sqP1, sqP2, sqQ, translatePoint, reflectPoint, hvx, hvy] at h1 ⊢
  grind

/-- `DoSquare(path, j, k)` as a whole (including `GetAvgUnitVector`) at a strictly convex corner that is not almost
straight (`sin_a · δ > 0`, `cos_a ≤ 0.999`: what `OffsetPoint` guarantees when it calls `DoSquare` for a convex corner), with unit normals
that are perpendicular to their edges, and `sqrt` exact and positive on the one value it is applied to:
the first point lies on the offset line of edge `k`, the second on the offset line of edge `j`, both on the square-off
line at distance `|δ|` from `path[j]` along the bisector `vec`, mirror images of each other, at most `sqrt 2 |δ|` away. -/
theorem square_join_points (m : Libm Rat) (pi : Rat) (pj pk : Pt) (nj nk : V Rat) (gd L : Rat)
    (hj : IsUnit nj) (hk : IsUnit nk)
    (hs : m.sqrt ((-nk.y + nj.y) * (-nk.y + nj.y) + (nk.x + -nj.x) * (nk.x + -nj.x)) * m.sqrt ((-nk.y + nj.y) * (-nk.y + nj.y) + (nk.x + -nj.x) * (nk.x + -nj.x))
        = (-nk.y + nj.y) * (-nk.y + nj.y) + (nk.x + -nj.x) * (nk.x + -nj.x))
    (hpos : 0 < m.sqrt ((-nk.y + nj.y) * (-nk.y + nj.y) + (nk.x + -nj.x) * (nk.x + -nj.x)))
    (hc : dotProduct nj nk ≤ 999 / 1000) (hconvex : 0 < crossProduct nj nk * gd)
    (hL : 0 < L) (hex : (pj.x : Rat) - pk.x = L * -nk.y) (hey : (pj.y : Rat) - pk.y = L * nk.x) :
    ∃ q1 q2, doSquare (ratOps m pi) pj pk nj nk false gd = [outV q1, outV q2]
      ∧ along q1 pj nk = gd ∧ along q2 pj nj = gd
      ∧ along q1 pj (squareVec (ratOps m pi) nj nk false) = rabs gd ∧ along q2 pj (squareVec (ratOps m pi) nj nk false) = rabs gd
      ∧ q2 = reflectPoint q1 (sqQ (squareVec (ratOps m pi) nj nk false) pj gd)
      ∧ gd * gd ≤ dist2 q1 pj ∧ dist2 q1 pj ≤ 2 * (gd * gd) ∧ gd * gd ≤ dist2 q2 pj ∧ dist2 q2 pj ≤ 2 * (gd * gd) := by
  have hnz := square_vec_not_degenerate nj nk _ hj hk hc (Rat.le_of_lt hpos) hs
  obtain ⟨hvec, hunit⟩ := avgUnit_unit_parallel m pi ⟨-nk.y, nk.x⟩ ⟨nj.y, -nj.x⟩ hs hnz
  have hsv : squareVec (ratOps m pi) nj nk false = getAvgUnitVector (ratOps m pi) ⟨-nk.y, nk.x⟩ ⟨nj.y, -nj.x⟩ := rfl
  rw [← hsv] at hvec hunit
  unfold doSquare
  generalize squareVec (ratOps m pi) nj nk false = vec at hvec hunit ⊢
  generalize m.sqrt ((-nk.y + nj.y) * (-nk.y + nj.y) + (nk.x + -nj.x) * (nk.x + -nj.x)) = h at hs hpos hnz hvec
  have hlam : 0 < 1 / h := by rw [Rat.lt_div_iff hpos]; grind
  have hvx : vec.x = 1 / h * (-nk.y + nj.y) := by rw [hvec]; simp only []; grind
  have hvy : vec.y = 1 / h * (nk.x + -nj.x) := by rw [hvec]; simp only []; grind
  have hc1 : dotProduct nj nk < 1 := by grind
  obtain ⟨hdet, ht0, ht1⟩ := square_inner_of_convex vec pj pk nj nk gd (1 / h) L hj hk hunit hvx hvy hlam hL hex hey hc1 hconvex
  obtain ⟨q1, q2, hq, a1, a2, r1, _, d1, d2, d3, d4⟩ := square_points m pi vec pj pk nk false gd hunit
  have hperp : ((pj.x : Rat) - pk.x) * nk.x + ((pj.y : Rat) - pk.y) * nk.y = 0 := by rw [hex, hey]; grind
  have f1 := square_first_on_offset_line_k m pi vec pj pk nk gd hk hperp hdet ht0 ht1 q1 q2 hq
  have f2 := square_second_on_offset_line_j m pi vec pj pk nj nk gd (1 / h) hj hk hvx hvy q1 q2 hq f1
  exact ⟨q1, q2, hq, f1, f2, a1, a2, r1, d1, d2, d3, d4⟩

/-- non-vacuity: the corner (−10,0) → (0,0) → (7,24) (left turn, cos_a = 7/25), δ = 5; the sum vector has length 6/5 -/
example :
    IsUnit (⟨24 / 25, -7 / 25⟩ : V Rat) ∧ IsUnit (⟨0, -1⟩ : V Rat)
      ∧ (6 / 5 : Rat) * (6 / 5) = (-(-1 : Rat) + -7 / 25) * (-(-1 : Rat) + -7 / 25) + ((0 : Rat) + -(24 / 25)) * ((0 : Rat) + -(24 / 25))
      ∧ dotProduct (⟨24 / 25, -7 / 25⟩ : V Rat) ⟨0, -1⟩ ≤ 999 / 1000 ∧ 0 < crossProduct (⟨24 / 25, -7 / 25⟩ : V Rat) ⟨0, -1⟩ * 5
      ∧ (((0 : Int) : Rat) - ((-10 : Int) : Rat) = 10 * -(-1 : Rat)) ∧ (((0 : Int) : Rat) - ((0 : Int) : Rat) = 10 * (0 : Rat))
      ∧ doSquare (ratOps ⟨fun _ => 6 / 5, id, id, id, fun a _ => a⟩ 3) ⟨0, 0⟩ ⟨-10, 0⟩ (⟨24 / 25, -7 / 25⟩ : V Rat) ⟨0, -1⟩ false 5
          = [.raw (5 / 3) (-5), .raw (13 / 3) (-3)] := by
  decide +kernel

/-- `DoSquare` at an open-path end (`j = k`, square cap), `δ ≠ 0`: with `vec = (n.y, −n.x)` (the direction of the path
beyond its end) the two points are exactly `p + |δ| vec − δ n` and `p + |δ| vec + δ n`: the far corners of the square
cap, `|δ|` beyond the end point and `|δ|` to either side. -/
theorem square_cap_points (m : Libm Rat) (pi : Rat) (pj : Pt) (n : V Rat) (gd : Rat) (hn : IsUnit n) (hgd : gd ≠ 0) :
    ∃ q1 q2, doSquare (ratOps m pi) pj pj n n true gd = [outV q1, outV q2]
      ∧ q1 = ⟨(pj.x : Rat) + rabs gd * n.y - gd * n.x, (pj.y : Rat) - rabs gd * n.x - gd * n.y⟩
      ∧ q2 = ⟨(pj.x : Rat) + rabs gd * n.y + gd * n.x, (pj.y : Rat) - rabs gd * n.x + gd * n.y⟩
      ∧ along q1 pj ⟨n.y, -n.x⟩ = rabs gd ∧ along q2 pj ⟨n.y, -n.x⟩ = rabs gd
      ∧ along q1 pj n = -gd ∧ along q2 pj n = gd
      ∧ dist2 q1 pj = 2 * (gd * gd) ∧ dist2 q2 pj = 2 * (gd * gd) := by
  simp only [IsUnit] at hn
  have ha := rabs_mul_self gd
  have hvec : squareVec (ratOps m pi) n n true = ⟨n.y, -n.x⟩ := rfl
  have hD : segDet (sqP1 ⟨n.y, -n.x⟩ pj gd) (sqP2 ⟨n.y, -n.x⟩ pj gd) (sqP3 pj n gd) (sqP4 ⟨n.y, -n.x⟩ pj pj n true gd) = 2 * (gd * gd) := by
    simp only [segDet, sqP1, sqP2, sqP3, sqP4, sqQ, translatePoint, if_true]; grind
  have hg2 : gd * gd ≠ 0 := mul_ne_zero' hgd hgd
  have hDne : (2 : Rat) * (gd * gd) ≠ 0 := mul_ne_zero' (by decide +kernel) hg2
  have hT : segT (sqP1 ⟨n.y, -n.x⟩ pj gd) (sqP2 ⟨n.y, -n.x⟩ pj gd) (sqP3 pj n gd) (sqP4 ⟨n.y, -n.x⟩ pj pj n true gd) = 1 := by
    unfold segT
    rw [hD]
    have hN : ((sqP1 ⟨n.y, -n.x⟩ pj gd).x - (sqP3 pj n gd).x) * ((sqP4 ⟨n.y, -n.x⟩ pj pj n true gd).y - (sqP3 pj n gd).y)
        - ((sqP1 ⟨n.y, -n.x⟩ pj gd).y - (sqP3 pj n gd).y) * ((sqP4 ⟨n.y, -n.x⟩ pj pj n true gd).x - (sqP3 pj n gd).x) = 2 * (gd * gd) := by
      simp only [sqP1, sqP3, sqP4, sqQ, translatePoint, if_true]; grind
    rw [hN]
    generalize (2 : Rat) * (gd * gd) = D at hDne
    grind
  have hP : sqPt m pi ⟨n.y, -n.x⟩ pj pj n true gd = sqP2 ⟨n.y, -n.x⟩ pj gd := by
    unfold sqPt
    rw [segint_unfold, hT, hD]
    simp [hDne]
    intro h; exact absurd h (by decide +kernel)
  have hq : doSquare (ratOps m pi) pj pj n n true gd
      = [outV (reflectPoint (sqP2 ⟨n.y, -n.x⟩ pj gd) (sqQ ⟨n.y, -n.x⟩ pj gd)), outV (sqP2 ⟨n.y, -n.x⟩ pj gd)] := by
    unfold doSquare
    rw [hvec, doSquareWith_eq, hP]; rfl
  refine ⟨_, _, hq, ?_, ?_, ?_, ?_, ?_, ?_, ?_, ?_⟩
  · apply V.ext' <;> simp only [reflectPoint, sqP2, sqQ, translatePoint] <;> grind
  · apply V.ext' <;> simp only [sqP2, sqQ, translatePoint] <;> grind
  all_goals simp only [along, dist2, reflectPoint, sqP2, sqQ, translatePoint]
  all_goals grind

example : doSquare (ratOps ⟨id, id, id, id, fun a _ => a⟩ 3) ⟨10, 0⟩ ⟨10, 0⟩ (⟨0, -1⟩ : V Rat) ⟨0, -1⟩ true 5
    = [.raw 5 5, .raw 5 (-5)] := by decide +kernel

/-! ### DoRound -/

/-- With `step_cos_² + step_sin_² = 1` every point emitted by `DoRound` - the first (`p ± δ n_k`), each rotated one,
and the final `GetPerpendic(path[j], norms[j], δ)` - is at squared distance `δ²` from `path[j]`, for ANY number of
steps (induction over the loop). -/
theorem round_points_on_circle (m : Libm Rat) (pi : Rat) (arc : Arc Rat) (pj : Pt) (nj nk : V Rat) (cap : Bool) (gd : Rat) (steps : Int)
    (hj : IsUnit nj) (hk : IsUnit nk) (hs : arc.stepCos * arc.stepCos + arc.stepSin * arc.stepSin = 1) :
    ∀ q ∈ (doRoundSteps (ratOps m pi) arc pj nj nk cap gd steps).map Out.vec, dist2 q pj = gd * gd := by
  simp only [IsUnit] at hj hk
  intro q hq
  have hv : ∀ v0 : V Rat, v0.x * v0.x + v0.y * v0.y = gd * gd →
      q ∈ ((Out.raw ((pj.x : Rat) + v0.x) ((pj.y : Rat) + v0.y)
        :: roundLoop (pj.x : Rat) (pj.y : Rat) arc.stepSin arc.stepCos (steps - 1).toNat v0
        ++ [getPerpendic (ratOps m pi) pj nj gd]).map Out.vec) → dist2 q pj = gd * gd := by
    intro v0 h0 hq
    simp only [List.map_cons, List.map_append, List.mem_cons, List.mem_append, List.map_nil, List.not_mem_nil,
      or_false, getPerpendic, ratOps_ofInt] at hq
    rcases hq with (hq | hq) | hq
    · subst hq
      simp only [Out.vec, dist2]; grind
    · exact roundLoop_on_circle _ _ _ _ hs pj rfl rfl _ _ (gd * gd) h0 q hq
    · subst hq
      simp only [Out.vec, dist2]; grind
  cases cap
  · exact hv ⟨nk.x * gd, nk.y * gd⟩ (by grind) hq
  · exact hv ⟨-(nk.x * gd), -(nk.y * gd)⟩ (by grind) hq

/-- the same for `DoRound` itself, whatever `angle`, `steps_per_rad_` and `ceil` are -/
theorem doRound_points_on_circle (m : Libm Rat) (pi : Rat) (arc : Arc Rat) (pj : Pt) (nj nk : V Rat) (cap : Bool) (gd angle : Rat)
    (hj : IsUnit nj) (hk : IsUnit nk) (hs : arc.stepCos * arc.stepCos + arc.stepSin * arc.stepSin = 1) :
    ∀ q ∈ (doRound (ratOps m pi) arc pj nj nk cap gd angle).map Out.vec, dist2 q pj = gd * gd :=
  round_points_on_circle m pi arc pj nj nk cap gd _ hj hk hs

/-- a rational rotation: (step_cos, step_sin) = (4/5, 3/5) -/
example : ((4 / 5 : Rat)) * (4 / 5) + (3 / 5 : Rat) * (3 / 5) = 1 := by decide +kernel

/-- `DoRound` emits `max(steps − 1, 0) + 2` points: it starts on the offset line of edge `k` (at `p + δ n_k`; at
`p − δ n` for a cap) and ends on the offset line of edge `j` at `p + δ n_j`. -/
theorem round_ends (m : Libm Rat) (pi : Rat) (arc : Arc Rat) (pj : Pt) (nj nk : V Rat) (cap : Bool) (gd : Rat) (steps : Int)
    (hj : IsUnit nj) (hk : IsUnit nk) :
    ∃ q1 mid q2, doRoundSteps (ratOps m pi) arc pj nj nk cap gd steps = outV q1 :: mid ++ [outV q2]
      ∧ mid.length = (steps - 1).toNat
      ∧ along q1 pj nk = (if cap then -gd else gd) ∧ along q2 pj nj = gd := by
  simp only [IsUnit] at hj hk
  cases cap
  · refine ⟨⟨(pj.x : Rat) + nk.x * gd, (pj.y : Rat) + nk.y * gd⟩, _, ⟨(pj.x : Rat) + nj.x * gd, (pj.y : Rat) + nj.y * gd⟩,
      rfl, roundLoop_length _ _ _ _ _ _, ?_, ?_⟩ <;> simp [along] <;> grind
  · refine ⟨⟨(pj.x : Rat) + -(nk.x * gd), (pj.y : Rat) + -(nk.y * gd)⟩, _, ⟨(pj.x : Rat) + nj.x * gd, (pj.y : Rat) + nj.y * gd⟩,
      rfl, roundLoop_length _ _ _ _ _ _, ?_, ?_⟩ <;> simp [along] <;> grind

/-- consecutive offset vectors of the arc enclose the step angle: `v · v' = |v|² step_cos`, `v × v' = |v|² step_sin`;
by `chord_bounds` the chord between two consecutive arc points stays within `δ² (1 + step_cos) / 2 … δ²` of `path[j]`. -/
theorem round_step_angle (s c : Rat) (v : V Rat) :
    v.x * (rotStep s c v).x + v.y * (rotStep s c v).y = (v.x * v.x + v.y * v.y) * c
      ∧ v.x * (rotStep s c v).y - v.y * (rotStep s c v).x = (v.x * v.x + v.y * v.y) * s := by
  simp only [rotStep]; constructor <;> grind

/-- the arc set-up keeps `(step_cos_, step_sin_)` on the unit circle whenever libm's `sin` and `cos` do (the only
non-libm operation applied to them is the negation of `step_sin_` for negative delta) -/
theorem arcSetup_unit (m : Libm Rat) (pi : Rat) (arcTol gd : Rat)
    (h : ∀ x, m.cos x * m.cos x + m.sin x * m.sin x = 1) :
    (arcSetup (ratOps m pi) arcTol gd).stepCos * (arcSetup (ratOps m pi) arcTol gd).stepCos
      + (arcSetup (ratOps m pi) arcTol gd).stepSin * (arcSetup (ratOps m pi) arcTol gd).stepSin = 1 := by
  unfold arcSetup
  generalize stepsPer360 (ratOps m pi) arcTol gd = n
  have := h (2 * (ratOps m pi).pi / n)
  by_cases hg : gd < 0 <;> simp [arcOfSteps, hg] <;> grind

/-- libm functions with `cos² + sin² = 1` everywhere exist in `Rat` (constants 4/5, 3/5) -/
example : ∀ x : Rat, (fun _ => (4 / 5 : Rat)) x * (fun _ => (4 / 5 : Rat)) x + (fun _ => (3 / 5 : Rat)) x * (fun _ => (3 / 5 : Rat)) x = 1 := by
  intro _; show (4 / 5 : Rat) * (4 / 5) + (3 / 5 : Rat) * (3 / 5) = 1; decide +kernel

/-! ### OffsetPoint as a whole -/

/-- what the miter branch of `OffsetPoint` knows about `cos_a` -/
theorem joinOf_miter_cond (m : Libm Rat) (pi : Rat) (jt : JoinType) (tl gd s c : Rat)
    (h : joinOf (ratOps m pi) jt tl gd s c = .miter) : 999 / 1000 < c ∨ tl - 1 < c := by
  unfold joinOf at h
  simp only [ratOps_le, ratOps_lt, ratOps_abs, ratOps_fpTol, ratOps_c0999] at h
  by_cases h1 : rabs gd ≤ 1 / 1000000000000
  · simp [h1] at h
  · by_cases h4 : 999 / 1000 < c
    · exact Or.inl h4
    · by_cases h5 : tl - 1 < c
      · exact Or.inr h5
      · exfalso
        by_cases h2 : -(999 / 1000) < c <;> by_cases h3 : s * gd < 0 <;> cases jt <;> simp [h1, h2, h3, h4, h5] at h

example : joinOf (ratOps ⟨id, id, id, id, fun a _ => a⟩ 3) .miter (1 / 2) 10 (1 / 2) (1 / 2) = .miter := by decide +kernel

/-- Every raw vertex that `OffsetPoint` emits at a vertex with unit normals is either `path[j]` itself (the middle point
of a concave join, or an insignificant delta) or lies at distance between `|δ|` and `sqrt B · |δ|` from `path[j]`, where
`B ≥ 2` and `B ≥ ml²`: `max(sqrt 2, ml) · |δ|` bounds every join.  (`IsUnit (squareVec …)`: see `avgUnit_unit_parallel`,
`square_vec_not_degenerate`.) -/
theorem offsetPoint_vertices_bounded (m : Libm Rat) (pi : Rat) (jt : JoinType) (ml gd B : Rat) (arc : Arc Rat)
    (pj pk : Pt) (nj nk : V Rat) (hj : IsUnit nj) (hk : IsUnit nk)
    (harc : arc.stepCos * arc.stepCos + arc.stepSin * arc.stepSin = 1)
    (hvec : IsUnit (squareVec (ratOps m pi) nj nk false))
    (hB : 2 ≤ B) (hml : ml * ml ≤ B) :
    ∀ q ∈ (offsetPoint (ratOps m pi) jt (tempLimOf (ratOps m pi) ml) gd arc pj pk nj nk).map Out.vec,
      q = ⟨(pj.x : Rat), (pj.y : Rat)⟩ ∨ (gd * gd ≤ dist2 q pj ∧ dist2 q pj ≤ B * (gd * gd)) := by
  intro q hq
  have hg := sq_nonneg gd
  have hBg : gd * gd ≤ B * (gd * gd) := by
    have := Rat.mul_nonneg (by grind : (0 : Rat) ≤ B - 1) hg
    grind
  have h2g : 2 * (gd * gd) ≤ B * (gd * gd) := by
    have := Rat.mul_nonneg (by grind : (0 : Rat) ≤ B - 2) hg
    grind
  have onCircle : ∀ q : V Rat, dist2 q pj = gd * gd → gd * gd ≤ dist2 q pj ∧ dist2 q pj ≤ B * (gd * gd) := by
    intro q h; rw [h]; exact ⟨Rat.le_refl, hBg⟩
  unfold offsetPoint at hq
  by_cases hp : pj = pk
  · simp [hp] at hq
  · simp only [hp, if_false, clamp_is_identity m pi nj nk hj hk] at hq
    cases hjn : joinOf (ratOps m pi) jt (tempLimOf (ratOps m pi) ml) gd (crossProduct nj nk) (dotProduct nj nk) with
    | copy =>
      rw [hjn] at hq
      simp only [List.map_cons, List.map_nil, List.mem_cons, List.not_mem_nil, or_false, Out.vec] at hq
      exact Or.inl hq
    | concave =>
      rw [hjn] at hq
      obtain ⟨q1, q2, he, d1, _, d2, _⟩ := concave_points m pi pj nj nk gd hj hk
      simp only [he, List.map_cons, List.map_nil, List.mem_cons, List.not_mem_nil, or_false, Out.vec, outV] at hq
      rcases hq with rfl | rfl | rfl
      · exact Or.inr (onCircle _ d1)
      · exact Or.inl rfl
      · exact Or.inr (onCircle _ d2)
    | bevel =>
      rw [hjn] at hq
      obtain ⟨q1, q2, he, d1, d2, _, _⟩ := bevel_points m pi pj nj nk gd hj hk
      simp only [he, List.map_cons, List.map_nil, List.mem_cons, List.not_mem_nil, or_false, Out.vec, outV] at hq
      rcases hq with rfl | rfl
      · exact Or.inr (onCircle _ d1)
      · exact Or.inr (onCircle _ d2)
    | round =>
      rw [hjn] at hq
      exact Or.inr (onCircle _ (doRound_points_on_circle m pi arc pj nj nk false gd _ hj hk harc q hq))
    | square =>
      rw [hjn] at hq
      obtain ⟨q1, q2, he, _, _, _, _, a1, a2, a3, a4⟩ := square_points m pi _ pj pk nk false gd hvec
      have he' : doSquare (ratOps m pi) pj pk nj nk false gd = [outV q1, outV q2] := he
      simp only [he', List.map_cons, List.map_nil, List.mem_cons, List.not_mem_nil, or_false, Out.vec, outV] at hq
      rcases hq with rfl | rfl
      · exact Or.inr ⟨a1, Rat.le_trans a2 h2g⟩
      · exact Or.inr ⟨a3, Rat.le_trans a4 h2g⟩
    | miter =>
      rw [hjn] at hq
      have hc1 := (cos_le_one nj nk hj hk).1.2
      have hcond := joinOf_miter_cond m pi jt _ gd _ _ hjn
      -- 1 + cos_a > 0 in the miter branch
      have hcpos : 0 < 1 + dotProduct nj nk := by
        rcases hcond with h | h
        · grind
        · simp only [tempLimOf, ratOps_le] at h
          by_cases hle : ml ≤ 1
          · simp [hle] at h; grind
          · simp only [hle, decide_false, Bool.false_eq_true, if_false] at h
            have hmm : 0 < ml * ml := by
              have : 0 < ml := by grind
              exact Rat.mul_pos this this
            have : 0 < 2 / (ml * ml) := by rw [Rat.lt_div_iff hmm]; grind
            grind
      obtain ⟨P, he, hlen⟩ := miter_length m pi pj nj nk gd hj hk (by grind)
      simp only [he, List.map_cons, List.map_nil, List.mem_cons, List.not_mem_nil, or_false, Out.vec, outV] at hq
      have hqP : q = P := hq
      subst hqP
      have hd := dist2_nonneg q pj
      refine Or.inr ⟨?_, ?_⟩
      · -- (1 + c) ≤ 2
        have := Rat.mul_nonneg hd (by grind : (0 : Rat) ≤ 1 - dotProduct nj nk)
        grind
      · -- upper bound
        apply Rat.not_lt.mp
        intro hgt
        have hpos1 : 0 < (dist2 q pj - B * (gd * gd)) * (1 + dotProduct nj nk) := Rat.mul_pos (by grind) hcpos
        rcases hcond with h | h
        · -- cos_a > 0.999: 2 δ² = dist2 (1+c) > B δ² 1.999 ≥ 2 δ² · 1.999
          have := Rat.mul_nonneg (Rat.mul_nonneg (by grind : (0:Rat) ≤ B) hg) (by grind : (0 : Rat) ≤ (1 + dotProduct nj nk) - 1)
          grind
        · simp only [tempLimOf, ratOps_le] at h
          by_cases hle : ml ≤ 1
          · simp [hle] at h; grind
          · simp only [hle, decide_false, Bool.false_eq_true, if_false] at h
            have hml0 : 0 < ml := by grind
            have hk2 := (Props.C06.miter_iff_within_limit (dotProduct nj nk) ml hcpos hml0).mp h
            rw [Rat.div_lt_iff hcpos] at hk2
            -- 2 < ml² (1+c) ≤ B (1+c)
            have h3 := Rat.mul_nonneg (by grind : (0 : Rat) ≤ B - ml * ml) (Rat.le_of_lt hcpos)
            have h4 := Rat.mul_nonneg (by grind : (0 : Rat) ≤ B * (1 + dotProduct nj nk) - 2) hg
            grind

/-- non-vacuity: unit normals (24/25, −7/25), (0, −1), a rational rotation, a unit `vec` (sqrt of 36/25 is 6/5) -/
example : IsUnit (squareVec (ratOps ⟨fun _ => 6 / 5, id, id, id, fun a _ => a⟩ 3) (⟨24 / 25, -7 / 25⟩ : V Rat) ⟨0, -1⟩ false)
    ∧ (4 / 5 : Rat) * (4 / 5) + (3 / 5 : Rat) * (3 / 5) = 1 ∧ (2 : Rat) ≤ 4 ∧ (2 : Rat) * 2 ≤ 4 := by decide +kernel

/-! ### the frame model and the join model compose -/

/-- the abstract geometry `Geo` of the frame model (Model/OffsetFrame.lean) instantiated by the join model -/
def geoRat (m : Libm Rat) (pi : Rat) : OffsetFrame.Geo (V Rat) where
  unitNormal := getUnitNormal (ratOps m pi)
  neg := fun n => ⟨-n.x, -n.y⟩
  sinA := fun nj nk => (sinCos (ratOps m pi) nj nk).1
  cosA := fun nj nk => (sinCos (ratOps m pi) nj nk).2

/-- the vertices a frame step stands for (per-vertex steps only; `circle`, `box`, `endPath` are not joins) -/
def interp (m : Libm Rat) (pi : Rat) (arc : Arc Rat) : OffsetFrame.Emit (V Rat) → List (Out Rat)
  | .bevel pj nj nk cap gd => doBevel (ratOps m pi) pj nj nk cap gd
  | .square pj pk nj nk cap gd => doSquare (ratOps m pi) pj pk nj nk cap gd
  | .miter pj nj nk cosA gd => doMiter (ratOps m pi) pj nj nk cosA gd
  | .round pj nj nk cap gd =>
    doRound (ratOps m pi) arc pj nj nk cap gd
      (if cap then pi else m.atan2 (sinCos (ratOps m pi) nj nk).1 (sinCos (ratOps m pi) nj nk).2)
  | .concave pj nj nk gd => concaveJoin (ratOps m pi) pj nj nk gd
  | .copy pj => [.pt pj]
  | _ => []

/-- The frame model's `OffsetPoint` (which primitive is called with which arguments; theorems of Props/C06.lean and
Props/C07.lean) followed by the join model's primitives IS the polymorphic `OffsetPoint` of Model/OffsetJoins.lean at
`Rat`: the two hand models agree, so frame theorems and join theorems compose. -/
theorem offsetPoint_frame (m : Libm Rat) (pi : Rat) (arc : Arc Rat) (jt : JoinType) (tl gd : Rat)
    (path : Path) (norms : List (V Rat)) (j k : Nat) (pj pk : Pt) (nj nk : V Rat)
    (hpj : path[j]? = some pj) (hpk : path[k]? = some pk) (hnj : norms[j]? = some nj) (hnk : norms[k]? = some nk) :
    ∃ es, OffsetFrame.offsetPoint (geoRat m pi) jt tl gd path norms j k = .ok es
      ∧ es.flatMap (interp m pi arc) = offsetPoint (ratOps m pi) jt tl gd arc pj pk nj nk := by
  unfold OffsetFrame.offsetPoint OffsetFrame.rd offsetPoint
  simp only [hpj, hpk, hnj, hnk]
  by_cases hp : pj = pk
  · simp [hp]
  · simp only [hp, if_false]
    have h := joinOf_eq_branchOf m pi jt tl gd (sinCos (ratOps m pi) nj nk).1 (sinCos (ratOps m pi) nj nk).2
    simp only [geoRat]
    rw [← h]
    cases joinOf (ratOps m pi) jt tl gd (sinCos (ratOps m pi) nj nk).1 (sinCos (ratOps m pi) nj nk).2 <;>
      simp [toBranch, interp, ratOps]

example : ([⟨0, 0⟩, ⟨10, 0⟩] : Path)[1]? = some ⟨10, 0⟩ ∧ ([⟨0, -1⟩, ⟨1, 0⟩] : List (V Rat))[0]? = some ⟨0, -1⟩ := by decide +kernel

end Clipper.Props.C06Joins
