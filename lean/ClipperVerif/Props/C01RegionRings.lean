/-
C01 — the scanline region and the output rings under construction (optional stretch of `Props/C01Region.lean`).

`Props/C01Rings.lean` proves, for EVERY event list of the ring model `Model/AelRings.lean` (the events of `Model/Ael.lean` decorated with
the points the C++ has in hand, plus `update`/`join`/`split`): every closed edge that owns an output record owns a ring under
construction whose front / back point is the last point emitted on the edge holding that end (`ring_ends_at_edges`), and an edge holds
the FRONT end iff the gap to its left is outside the result region of the winding SUMS to its left (`front_edge_unfilled_left`).
`Props/C01Region.lean` identifies these winding sums, for the event list derived from the scanbeam model, with the `Spec.wind` winding
numbers of the points of the scanline.  Composition (`region_of_rings_partial`): for any decoration of the derived events with points,
the edges holding ring ends are exactly the hot edges of the scanline — the boundary points of the region C01 defines on it — and the
front end of a ring is held by an edge that has the region on its RIGHT, the back end by an edge that has it on its LEFT.

PARTIAL: nothing is said about WHERE on its edge a ring's end point lies (the model's points are inputs), so "the finished rings bound the
region" is still not a theorem; joins do not occur in the derived run.
-/
import ClipperVerif.Props.C01Region
import ClipperVerif.Props.C01Rings
namespace Clipper.Props.C01RegionRings
open Clipper Clipper.Model Clipper.Model.AelOrder Clipper.Model.SweepEvents
open Clipper.Lemmas.C01Region Clipper.Props.C01Region

/-- the `Model.Op` of a side-model event (`join` / `split` are invisible in `Model/Ael.lean`) -/
def baseOf : SOp → Option Op
  | .base o => some o
  | _ => none

/-- the events of `Model/Ael.lean` in a ring-model event list -/
def baseOps (rops : List ROp) : List Op := (rops.filterMap ROp.erase).filterMap baseOf

/-- a run of the side model projects to a run of the bookkeeping model on the erased states -/
theorem erase_runS (cfg : Cfg) (hct : cfg.ct ≠ .noClip) : ∀ (ops : List SOp) (s s' : SState), SInv cfg s →
    runS cfg s ops = .ok s' → Model.run cfg (erase s.ael) (ops.filterMap baseOf) = some (erase s'.ael) := by
  intro ops
  induction ops with
  | nil => intro s s' _ h; simp only [runS] at h; cases h; rfl
  | cons op ops ih =>
    intro s s' hs h
    simp only [runS] at h
    cases h1 : stepS cfg s op with
    | error e => simp [h1] at h
    | ok s1 =>
      simp only [h1] at h
      have hs1 := C11Sides.sinv_step cfg hct s s1 op hs h1
      have he := C11Sides.erase_step cfg s s1 op hs h1
      have h2 := ih s1 s' hs1 h
      cases op with
      | base o =>
        simp only at he
        simp only [List.filterMap_cons, baseOf, Model.run, he]
        exact h2
      | join i =>
        simp only at he
        simp only [List.filterMap_cons, baseOf]
        rw [← he]; exact h2
      | split i =>
        simp only at he
        simp only [List.filterMap_cons, baseOf]
        rw [← he]; exact h2

/-- **region_of_rings_partial.**  `edges` under a labelling `lab`; `evs`: an event list of `Model/Ael.lean` accepted from the empty AEL
with final state `l`, which tracks the list `es` of sweep edges: exactly the input edges crossing the scanline `yn/yd`, each once, in
left-to-right order on it (`Props/C01Region.scanline_region_stage` provides such `evs`, `l`, `es` for the two stages of every scanbeam,
`scanline_sums` for every height).  `rops`: ANY event list of the ring model whose bookkeeping events are `evs` (any points, any
`update` events, …), accepted from the empty state with final state `rs`.  Then
 * the side model's AEL, its records forgotten, IS `l`;
 * a closed edge is hot iff it owns an output record or is joined;
 * every edge owning a record owns a ring under construction with at least one point, and the front / back point of every ring under
   construction is the last point emitted on the edge holding that end (`ring_ends_at_edges`);
 * for the edge at position `i` owning the record `k` and every point of the scanline in the gap immediately left of it (the `i` edges
   before it are left of the point, no other edge is): `k` holds the FRONT end of its ring iff the point is OUTSIDE the region
   `inR ct fr` of the winding sums of the edges left of the point — which `ray_winding` identifies with `Spec.wind`. -/
theorem region_of_rings_partial (cfg : Cfg) (hct : cfg.ct ≠ .noClip) (lab : Lab) (edges : List SweepOrder.SEdge) (hnd : edges.Nodup)
    (evs : List Op) (l : Ael) (es : List SweepOrder.SEdge) (hrun : Model.run cfg [] evs = some l) (htr : Tracks lab l es)
    (yn yd : Int) (hndes : es.Nodup) (hmem : ∀ e, e ∈ es ↔ e ∈ edges ∧ aliveAt e yn yd)
    (rops : List ROp) (rs : RState) (hr : runR cfg RState.empty rops = .ok rs) (hev : baseOps rops = evs) :
    erase rs.s.ael = l ∧
    (∀ x ∈ rs.s.ael, x.e.isOpen = false ∧ x.e.hot = (x.orec.isSome || x.join != .none)) ∧
    (∀ x ∈ rs.s.ael, ∀ k, x.orec = some k → ∃ g, rs.o.rings[k.id]? = some g ∧ g.stat = .live ∧ g.pts ≠ []) ∧
    (∀ g ∈ rs.o.rings, g.stat = .live → g.pts.head? = some g.flast ∧ g.pts.getLast? = some g.blast) ∧
    ∀ (i : Nat) (x : Model.SEdge) (k : Rec), rs.s.ael[i]? = some x → x.orec = some k → ∀ xn : Int,
      es.filter (fun e => decide (leftOfPt e xn yn yd)) = es.take i →
      k.front = !inR cfg.ct cfg.fr (labSum lab .subject (leftEdges edges xn yn yd)) (labSum lab .clip (leftEdges edges xn yn yd)) := by
  have hS := C01Rings.erase_ring_run cfg rops _ rs hr
  have hE : Model.run cfg [] evs = some (erase rs.s.ael) := by
    have := erase_runS cfg hct _ SState.empty rs.s (C11Sides.sinv_empty cfg) hS
    rw [← hev]; exact this
  have hl : erase rs.s.ael = l := by rw [hrun] at hE; exact (Option.some.inj hE).symm
  have hclosed : ∀ x ∈ rs.s.ael, x.e.isOpen = false := by
    intro x hx
    exact tracks_closed htr x.e (by rw [← hl]; exact List.mem_map_of_mem hx)
  obtain ⟨r1, r2, r3⟩ := C01Rings.ring_ends_at_edges cfg hct rops rs hr
  have hside := (C01Rings.sinv_rings cfg hct rops rs hr).side
  refine ⟨hl, ?_, r2, r3, ?_⟩
  · intro x hx
    refine ⟨hclosed x hx, ?_⟩
    have hall := hside.1
    have := List.all_eq_true.1 hall x hx
    simp only [localOK, hclosed x hx, Bool.false_eq_true, if_false, Bool.and_eq_true, beq_iff_eq] at this
    exact this.1
  · intro i x k hi hk xn hfil
    have hilt : i < rs.s.ael.length := by
      rcases Nat.lt_or_ge i rs.s.ael.length with h | h
      · exact h
      · rw [List.getElem?_eq_none h] at hi; cases hi
    have hx : rs.s.ael[i] = x := by
      rw [List.getElem?_eq_getElem hilt] at hi; exact Option.some.inj hi
    have hsplit : rs.s.ael = rs.s.ael.take i ++ x :: rs.s.ael.drop (i + 1) := by
      rw [← hx, List.getElem_cons_drop hilt, List.take_append_drop]
    have hf := C01Rings.front_edge_unfilled_left cfg hct rops rs hr _ _ x k hsplit (hclosed x (hx ▸ List.getElem_mem hilt)) hk
    rw [hf]
    have hpre : erase (rs.s.ael.take i) = l.take i := by rw [← hl]; simp [erase, List.map_take]
    have hperm : (leftEdges edges xn yn yd).Perm (es.take i) := by
      rw [← hfil]
      refine (List.perm_ext_iff_of_nodup (hnd.filter _) (hndes.filter _)).2 ?_
      intro e
      simp only [List.mem_filter, decide_eq_true_eq, hmem]
      constructor
      · rintro ⟨h1, h2, h3⟩; exact ⟨⟨h1, h2⟩, h3⟩
      · rintro ⟨⟨h1, h2⟩, h3⟩; exact ⟨h1, h2, h3⟩
    rw [hpre, sumT_tracks lab .subject _ _ (tracks_take htr i), sumT_tracks lab .clip _ _ (tracks_take htr i),
      labSum_perm lab .subject hperm, labSum_perm lab .clip hperm]

/-! ## non-vacuity: the derived events of the two triangles of `Props/C01Region.lean`, decorated with points

Second scanbeam `[20, 33]`, after its insertions; Union, NonZero: the AEL is `3 5 2 0` (the clip triangle's local minimum lies left of the
subject triangle at that height: all four edges are hot). -/

private def triA : Path := [⟨0, 40⟩, ⟨30, 3⟩, ⟨-30, 11⟩]
private def triB : Path := [⟨-10, 33⟩, ⟨-31, 0⟩, ⟨34, 20⟩]
private def ropsTri : List ROp :=
  [.base (.insertPair 0 .subject false (-1)) ⟨0, 40⟩, .base (.insertPair 0 .clip false 1) ⟨-10, 33⟩]

example : baseOps ropsTri = [.insertPair 0 .subject false (-1), .insertPair 0 .clip false 1] := by decide
/-- the ring model accepts them: records and ring ends after the second local minimum (the clip triangle starts outside the subject
triangle's span: two rings under construction, the clip triangle's bounds are a front and a back edge) -/
example : (match runR ⟨.union, .nonZero⟩ RState.empty ropsTri with
    | .ok rs => some (rs.s.ael.map (fun x => (x.e.hot, x.orec.map (·.front))), rs.o.rings.map (fun g => (g.pts, g.stat == .live)))
    | .error _ => none) =
    some ([(true, some true), (true, some false), (true, some true), (true, some false)],
      [([⟨0, 40⟩], true), ([⟨-10, 33⟩], true)]) := by decide

end Clipper.Props.C01RegionRings
