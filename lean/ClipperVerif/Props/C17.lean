/-
C17 — "The C export layer marshals faithfully and forwards every parameter".

Part 1 (marshalling): theorems about the model `ClipperVerif/Model/Export.lean` of the writers / readers of
clipper.export.h (checked reads and writes: leaving the block is a `Fault`).  They hold for every list of paths,
every tree and every vertex dimension `dim` (2 without, 3 with USINGZ); the only hypothesis is the typing
condition `WellDim dim` (every vertex has `dim` cells).

Part 2 (forwarding): a decidable judgement over the call table `Generated/ExportCalls.lean`, which is rewritten
from /repo's clipper.export.h by tools/extract_calls.py on every run; `decide` over that finite table is a proof about
the current source, not a sample.
-/
import ClipperVerif.Lemmas.Export
import ClipperVerif.Model.ExportCalls
import ClipperVerif.Generated.ExportCalls
namespace Clipper.Props.C17
open Clipper.Model.Export

/-! ## Part 1: CPaths -/

/-- The writer `CreateCPathsFromPathsT` produces exactly the documented layout `A, C, path1 … pathC`
(empty paths skipped). -/
theorem createCPaths_layout (dim : Nat) (ps : VPaths) (h : WellDim dim ps) :
    createCPaths dim ps = .ok (flatCPaths ps) := by
  simp [createCPaths, createCPathsW_eq dim ps h, Except.map]

/-- **cpaths_roundtrip**: converting paths to the flat array and back is the identity on the non-empty paths. -/
theorem cpaths_roundtrip (dim : Nat) (ps : VPaths) (h : WellDim dim ps) :
    ∃ a, createCPaths dim ps = .ok a ∧ convertCPaths dim (some a) = .ok (ps.filter (· ≠ [])) := by
  refine ⟨flatCPaths ps, createCPaths_layout dim ps h, ?_⟩
  have hr := readPaths_ok dim [((encBody ps).length + 2 : Nat), (((ps.filter (· ≠ [])).length : Nat) : Int)] ps [] 2 rfl h
  simp only [List.append_nil] at hr
  have h1 : rd (flatCPaths ps) 1 = .ok (((ps.filter (· ≠ [])).length : Nat) : Int) := by
    simp [flatCPaths, rd]
  simp only [convertCPaths, convertCPathsPos, h1, bind_ok, toCount_nat]
  have : flatCPaths ps = [(((encBody ps).length + 2 : Nat) : Int), (((ps.filter (· ≠ [])).length : Nat) : Int)] ++ encBody ps := by
    simp [flatCPaths]
  rw [this, hr]; rfl

/-- **cpaths_header**: the first cell is the number of cells of the array, the second the number of non-empty paths. -/
theorem cpaths_header (dim : Nat) (ps : VPaths) (h : WellDim dim ps) :
    ∃ a, createCPaths dim ps = .ok a ∧ a[0]? = some (a.length : Int) ∧
      a[1]? = some (((ps.filter (· ≠ [])).length : Nat) : Int) := by
  refine ⟨flatCPaths ps, createCPaths_layout dim ps h, ?_, ?_⟩ <;> simp [flatCPaths] <;> omega

/-- **cpaths_no_oob** (writer): no write leaves the allocated block (`createCPathsW` is not a `Fault`), the block
has exactly the length computed by `GetPathCountAndCPathsArrayLen`, and the cursor ends exactly at its end:
every allocated cell has been written. -/
theorem cpaths_no_oob_writer (dim : Nat) (ps : VPaths) (h : WellDim dim ps) :
    ∃ w, createCPathsW dim ps = .ok w ∧ w.buf.length = (getPathCountAndCPathsArrayLen dim ps).2 ∧ w.pos = w.buf.length := by
  refine ⟨_, createCPathsW_eq dim ps h, ?_, rfl⟩
  rw [getPathCountAndCPathsArrayLen_eq dim ps h]; simp [flatCPaths]

/-- **cpaths_no_oob** (reader): on every array produced by the writer — equivalently, on every array of the documented
layout `flatCPaths ps` — `ConvertCPathsToPathsT` performs no read outside the array (no `Fault`), and stops exactly at
index `A = a[0]`, the stated length. -/
theorem cpaths_no_oob_reader (dim : Nat) (ps : VPaths) (h : WellDim dim ps) :
    ∃ a r, createCPaths dim ps = .ok a ∧ convertCPathsPos dim (some a) = .ok (r, a.length) := by
  refine ⟨flatCPaths ps, ps.filter (· ≠ []), createCPaths_layout dim ps h, ?_⟩
  have hr := readPaths_ok dim [((encBody ps).length + 2 : Nat), (((ps.filter (· ≠ [])).length : Nat) : Int)] ps [] 2 rfl h
  simp only [List.append_nil] at hr
  have h1 : rd (flatCPaths ps) 1 = .ok (((ps.filter (· ≠ [])).length : Nat) : Int) := by
    simp [flatCPaths, rd]
  simp only [convertCPathsPos, h1, bind_ok, toCount_nat]
  have : flatCPaths ps = [(((encBody ps).length + 2 : Nat) : Int), (((ps.filter (· ≠ [])).length : Nat) : Int)] ++ encBody ps := by
    simp [flatCPaths]
  rw [this, hr]; simp; omega

/-- `nullptr` converts to no paths, and `CreateCPathsDFromPathsD` (which returns `nullptr` for an empty list) round-trips too. -/
theorem cpathsD_roundtrip (dim : Nat) (ps : VPaths) (h : WellDim dim ps) :
    ∃ a, createCPathsD dim ps = .ok a ∧ convertCPaths dim a = .ok (ps.filter (· ≠ [])) := by
  by_cases h0 : ps.length = 0
  · have : ps = [] := by simpa using h0
    subst this
    exact ⟨none, by simp [createCPathsD], by simp [convertCPaths, convertCPathsPos, Except.map]⟩
  · obtain ⟨a, ha, hb⟩ := cpaths_roundtrip dim ps h
    exact ⟨some a, by simp [createCPathsD, h0, ha, Except.map], hb⟩

/-- `CreateCPathsDFromPaths64(paths, scale)` (used by the `*D` exports to return integer results) is the same writer
applied to the scaled vertices (x·scale, y·scale, z untouched), so it has the same layout, header and bounds, and
reading it back gives the scaled non-empty paths. -/
theorem cpathsDfrom64_roundtrip (dim : Nat) (k : Int) (ps : VPaths) (h : WellDim dim ps) :
    ∃ a, createCPathsDFromPaths64 dim k ps = .ok a ∧
      convertCPaths dim a = .ok ((ps.map (·.map (scaleVtx k))).filter (· ≠ [])) := by
  rw [createCPathsDFromPaths64_eq]
  exact cpathsD_roundtrip dim _ (wellDim_scale dim k ps h)

/-- non-vacuity: a square, an empty path and a single point, with and without z -/
example : WellDim 2 [[[0, 0], [10, 0], [10, 10], [0, 10]], [], [[5, 5]]] := by decide
example : WellDim 3 [[[0, 0, 7], [10, 0, -1], [10, 10, 0]], []] := by decide
example : createCPaths 2 [[[0, 0], [10, 0], [10, 10]], [], [[5, 5]]] = .ok [14, 2, 3, 0, 0, 0, 10, 0, 10, 10, 1, 0, 5, 5] := by rfl
example : convertCPaths 2 (some [14, 2, 3, 0, 0, 0, 10, 0, 10, 10, 1, 0, 5, 5]) = .ok [[[0, 0], [10, 0], [10, 10]], [[5, 5]]] := by rfl
/-- a header that promises more than the array holds is a fault of the checked reader, not a silent read -/
example : convertCPaths 2 (some [6, 2, 1, 0, 5, 5]) = .error (.oobRead 6 6) := by rfl


/-! ## Part 1b: CPolyTree

`PPath.node poly kids` models `PolyPath64`; a `PolyTree64` is a root whose polygon is empty (the export layer only
marshals trees it default-constructs itself, `PolyTree64 tree;`), hence the trees below are `.node [] kids`.
The library has a writer only; the reader `readPolyTree` is the client side, written from the layout documented at
the top of clipper.export.h.  All four theorems are by (mutual) induction on the tree. -/

/-- The writer `CreateCPolyTree64` produces the documented layout `A, C, CPolyPath1 … CPolyPathC` with
`CPolyPath = N, C, vertices, children`; a tree without children gives `nullptr`. -/
theorem createCPolyTree_layout (dim : Nat) (kids : List PPath) (h : PPath.WellDimList dim kids) :
    createCPolyTree dim (.node [] kids) = .ok (if kids = [] then none else some (flatCPolyTree (.node [] kids))) := by
  by_cases hk : kids = []
  · subst hk; simp [createCPolyTree, createCPolyTreeW, PPath.kids, Except.map]
  · simp [createCPolyTree, createCPolyTreeW_eq dim kids hk h, hk, Except.map]

/-- **cpolytree_roundtrip**: writing a polytree and reading it back gives the same tree — same nesting structure and
the same polygons, vertex by vertex. -/
theorem cpolytree_roundtrip (dim : Nat) (kids : List PPath) (h : PPath.WellDimList dim kids) :
    ∃ a, createCPolyTree dim (.node [] kids) = .ok a ∧ readPolyTree dim a = .ok (.node [] kids) := by
  refine ⟨_, createCPolyTree_layout dim kids h, ?_⟩
  by_cases hk : kids = []
  · subst hk; simp [readPolyTree, readPolyTreePos, Except.map]
  · simp only [hk, if_false, readPolyTree, readPolyTreePos]
    have h1 : rd (flatCPolyTree (.node [] kids)) 1 = .ok (kids.length : Int) := by simp [flatCPolyTree, rd, PPath.kids]
    simp only [h1, bind_ok, toCount_nat]
    have hshape : flatCPolyTree (.node [] kids)
        = [(((encPolyPathList kids).length + 2 : Nat) : Int), (kids.length : Int)] ++ encPolyPathList kids ++ [] := by
      simp [flatCPolyTree, PPath.kids]
    have hfuel : PPath.depthList kids ≤ (flatCPolyTree (.node [] kids)).length := by
      have := depthList_le_length kids
      simp [flatCPolyTree, PPath.kids]; omega
    have hr := readMany_ok dim kids (flatCPolyTree (.node [] kids)).length
      [(((encPolyPathList kids).length + 2 : Nat) : Int), (kids.length : Int)] [] 2 rfl h hfuel
    rw [← hshape] at hr
    rw [hr]; rfl

/-- **cpolytree_header**: the first cell is the number of cells of the array, the second the number of top-level children. -/
theorem cpolytree_header (dim : Nat) (kids : List PPath) (hk : kids ≠ []) (h : PPath.WellDimList dim kids) :
    ∃ a, createCPolyTree dim (.node [] kids) = .ok (some a) ∧ a[0]? = some (a.length : Int) ∧ a[1]? = some (kids.length : Int) := by
  refine ⟨flatCPolyTree (.node [] kids), by simp [createCPolyTree_layout dim kids h, hk], ?_, ?_⟩ <;>
    simp [flatCPolyTree, PPath.kids] <;> omega

/-- **cpolytree_no_oob**: the writer never leaves the block of `GetPolyPathArrayLen64(tree)` cells and fills it exactly;
the reader, on the writer's output, performs no read outside the array and stops exactly at index `A = a[0]`. -/
theorem cpolytree_no_oob (dim : Nat) (kids : List PPath) (hk : kids ≠ []) (h : PPath.WellDimList dim kids) :
    (∃ w, createCPolyTreeW dim (.node [] kids) = .ok (some w) ∧
        w.buf.length = getPolyPathArrayLen dim (.node [] kids) ∧ w.pos = w.buf.length)
    ∧ (∃ a, createCPolyTree dim (.node [] kids) = .ok (some a) ∧
        readPolyTreePos dim (some a) = .ok (.node [] kids, a.length)) := by
  constructor
  · refine ⟨_, createCPolyTreeW_eq dim kids hk h, ?_, rfl⟩
    simp [getPolyPathArrayLen, encPolyPathList_length dim kids h, flatCPolyTree, PPath.kids]; omega
  · refine ⟨flatCPolyTree (.node [] kids), by simp [createCPolyTree_layout dim kids h, hk], ?_⟩
    simp only [readPolyTreePos]
    have h1 : rd (flatCPolyTree (.node [] kids)) 1 = .ok (kids.length : Int) := by simp [flatCPolyTree, rd, PPath.kids]
    simp only [h1, bind_ok, toCount_nat]
    have hshape : flatCPolyTree (.node [] kids)
        = [(((encPolyPathList kids).length + 2 : Nat) : Int), (kids.length : Int)] ++ encPolyPathList kids ++ [] := by
      simp [flatCPolyTree, PPath.kids]
    have hfuel : PPath.depthList kids ≤ (flatCPolyTree (.node [] kids)).length := by
      have := depthList_le_length kids
      simp [flatCPolyTree, PPath.kids]; omega
    have hr := readMany_ok dim kids (flatCPolyTree (.node [] kids)).length
      [(((encPolyPathList kids).length + 2 : Nat) : Int), (kids.length : Int)] [] 2 rfl h hfuel
    rw [← hshape] at hr
    rw [hr]
    simp [bind_ok, pure, Except.pure, flatCPolyTree, PPath.kids]; omega

/-- non-vacuity: an outer square with a hole that contains an island, next to a triangle (dim 2) -/
example : PPath.WellDimList 2
    [.node [[0,0],[10,0],[10,10],[0,10]] [.node [[2,2],[2,8],[8,8],[8,2]] [.node [[4,4],[6,4],[6,6]] []]],
     .node [[20,0],[30,0],[30,10]] []] := by
  simp [PPath.WellDimList, PPath.WellDim]
/-! ## Part 2: forwarding -/
open Clipper.Model.ExportCalls Clipper.Gen.Export

/-- the generated table covers exactly the fourteen exported functions of the property statement -/
theorem table_complete : exportTable.map (·.name) =
    ["BooleanOp64", "BooleanOp_PolyTree64", "BooleanOpD", "BooleanOp_PolyTreeD",
     "InflatePaths64", "InflatePathsD", "InflatePath64", "InflatePathD",
     "RectClip64", "RectClipD", "RectClipLines64", "RectClipLinesD", "MinkowskiSum64", "MinkowskiDiff64"] := by decide

/-- **forwarding** (the property's second sentence, per argument slot) for all fourteen exported functions: every
argument that is (a cast, a scaled copy or a marshalled copy of) an exported parameter sits in a callee slot of the same
meaning; lengths (delta, arc tolerance) are multiplied by `10^precision` exactly in the functions that work at a
precision; no callee slot for which the exported function has a parameter is left to its default; every input
parameter is forwarded.  The table is regenerated from clipper.export.h on every run, so this `decide` re-judges the
current source.  (Before the `fix:` commits da9c53b and 911fe8d it failed for the four `Inflate*` exports:
`reverse_solution` sat in ClipperOffset's `preserve_collinear` slot and `InflatePath(s)D` passed `arc_tolerance`
unscaled.) -/
theorem forwarding : ∀ e ∈ exportTable, forwards e = true := by decide

end Clipper.Props.C17
